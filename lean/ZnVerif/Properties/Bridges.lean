/-
Bridges — the evaluator model's *embedded* symbol table and containers are the separately verified ones.

`Model/Interp.lean` (A) carries its own simplified scope (`Model.Scope`: a list of symbols, newest first, and a depth)
and its own list / dictionary operations (inside `builtinMethod`, `getProperty`, `setProperty`, `reduceLHS/RHS`,
`hmAppend`, `newHashMapCell`).  `Model/Scope.lean` (B) and `Model/Containers.lean` (C) model scope.go and array.go /
hashmap.go / iv.go as written and carry the refinement theorems C06 / C12.  The theorems here connect (A) to (B) and (C),
so that those refinements hold for the evaluator model too.  Property theorems only; lemmas are in
`ZnVerif/Proofs/Bridges*.lean`.

Vocabulary (defined in the lemma modules):
  `absI sc`, `absB σ`   the live symbols (name, depth, const, module of origin, value; newest first) and the current depth;
  `R sc σ`              `absI sc = absB σ`;
  `WF σ`, `RefsOK σ`, `Sim σ d`   (B)'s invariant and its parts (C06);
  `stepI`, `runI`       one `Spec.Scopes.Op` = one call of the corresponding `Model.Scope` function;
  `stackOf sc`          the frame stack an evaluator scope stands for;
  `RV s vm`             evaluator state `s` and (B)'s VM view `vm`: same globals, same current module, related scope;
  `liftC`, `storeArr a` a `Containers.Res` read in the evaluator monad (`.err c` = runtime error `c`, `.panic` = Go panic),
                        resp. the produced list stored into cell `a`;
  `Rhm vals order hm`   dictionary cell contents and a `Containers.HashMap`: same key order, same lookup function;
  `dictWF vals order`   the evaluator's dictionary invariant: `vals.map fst = order ∧ order.Nodup`;
  `dictStepI`, `dictRunI`  the pure core of the evaluator's dictionary operations, in (C)'s operation vocabulary;
  `KW a s s'`           "if cell `a` holds a dictionary with the invariant in `s`, it does in `s'`";
  `SimI sc d`           (B)'s invariant `Sim` written on the evaluator's scope alone;
  `DictCalls n a s ops s'`  a sequence of successful evaluator calls mutating dictionary cell `a`, `ops` what they did;
  `omapAfter sub m ops` the spec's ordered map after the operations `ops`.
-/
import ZnVerif.Proofs.BridgesScopeVM
import ZnVerif.Proofs.BridgesScopeReify
import ZnVerif.Proofs.BridgesList3
import ZnVerif.Proofs.BridgesList4
import ZnVerif.Proofs.BridgesDict3
import ZnVerif.Proofs.BridgesDict4
import ZnVerif.Properties.C06
import ZnVerif.Properties.C12
import ZnVerif.Proofs.Toy
set_option linter.unusedSectionVars false
set_option linter.unusedVariables false

namespace ZnVerif.Properties.Bridges
open ZnVerif ZnVerif.Model ZnVerif.Proofs.Bridges ZnVerif.Proofs.Scope
open ZnVerif.Spec.Scopes (Op Balanced extAtRoot finalDepth initial)
open ZnVerif.SymTab (GoRes VMScope)
open ZnVerif.Model.Containers (HashMap DictOp OpResult)
open ZnVerif.Proofs.Containers (Inv)

variable {ν : Type} [NumOps ν]

/-! # 1. Symbol table: (A) `Model.Scope` ↔ (B) `SymTab.Scope Addr` -/

/-- `BeginScope`. -/
theorem scope_bridge_begin {sc : Model.Scope} {σ : SymTab.Scope Addr} (h : R sc σ) : R sc.beginScope σ.beginScope :=
  sim_beginScope h

/-- `EndScope`: (B) does not panic and the results are related.  No depth guard is needed for the two models to agree
(below depth 0 both go to −1 and forget every symbol); the guard `0 < d` is what keeps (B)'s invariant, see
`scope_bridge`. -/
theorem scope_bridge_end {sc : Model.Scope} {σ : SymTab.Scope Addr} (h : R sc σ) (hwf : WF σ) :
    ∃ σ', σ.endScope = .ok σ' ∧ R sc.endScope σ' ∧ WF σ' :=
  sim_endScope h hwf

/-- `GetValue` (the scope part of `FindElement`): same value, or not found on both sides. -/
theorem scope_bridge_find {sc : Model.Scope} {σ : SymTab.Scope Addr} (h : R sc σ) (hwf : WF σ) (name : String) :
    σ.getValue name = .ok ((sc.find name).map (·.val)) :=
  sim_find h hwf name

/-- `GetValueWithModuleID`: same value and same module of origin (−1 for a symbol of the module itself). -/
theorem scope_bridge_findM {sc : Model.Scope} {σ : SymTab.Scope Addr} (h : R sc σ) (hwf : WF σ) (name : String) :
    σ.getValueWithModuleID name = .ok (findM sc name) :=
  sim_findM h hwf name

/-- `DeclareValue` (`c = false`) / `DeclareConstValue` (`c = true`): both succeed with related results, or both answer
NameRedeclared (43). -/
theorem scope_bridge_declare {sc : Model.Scope} {σ : SymTab.Scope Addr} (h : R sc σ) (hwf : WF σ) (hrefs : RefsOK σ)
    (name : String) (v : Addr) (c : Bool) :
    RelRes (sc.declare name v c none) (σ.declareValueC name v c) :=
  sim_declare h hwf hrefs name v c

/-- `DeclareExternalValue`. -/
theorem scope_bridge_declareExt {sc : Model.Scope} {σ : SymTab.Scope Addr} (h : R sc σ) (hwf : WF σ)
    (name : String) (v : Addr) (m : Nat) :
    RelRes (sc.declare name v true (some (m : Int))) (σ.declareExternalValue name v m) :=
  sim_declareExt h hwf name v m

/-- `SetValue`: both succeed with related results, or both answer NameNotDefined (42) / AssignToConstant (44). -/
theorem scope_bridge_set {sc : Model.Scope} {σ : SymTab.Scope Addr} (h : R sc σ) (hwf : WF σ) (name : String) (v : Addr) :
    RelRes (sc.set name v) (σ.setValue name v) :=
  sim_set h hwf name v

/-- **scope_bridge**: one operation of the history vocabulary on related states under (B)'s invariant `Sim σ d`
(`opOK`: an `EndScope` only at depth > 0, an import only at depth 0): neither model fails, both give the same answer
(value, nil, 42/43/44), the states are related again and the invariant holds again at the new depth. -/
theorem scope_bridge {sc : Model.Scope} {σ : SymTab.Scope Addr} {d : Nat} (h : R sc σ) (hs : Sim σ d)
    (op : Op Addr) (hok : opOK d op) :
    ∃ sc' σ' r, stepI sc op = some (sc', r) ∧ σ.step op = .ok (σ', r) ∧ R sc' σ' ∧ Sim σ' (nextDepth d op) :=
  step_bridge h hs op hok

-- non-vacuity: the fresh scopes are related, with the invariant; the relation is kept by a history
example : R ({} : Model.Scope) (SymTab.Scope.new : SymTab.Scope Addr) ∧ Sim (SymTab.Scope.new : SymTab.Scope Addr) 0 :=
  ⟨R_new, sim_new⟩
example : RelRes (({} : Model.Scope).declare "a" 7 false none) ((SymTab.Scope.new : SymTab.Scope Addr).declareValueC "a" 7 false) :=
  scope_bridge_declare R_new sim_new.wf sim_new.refs "a" 7 false

/-- From any related pair of states with (B)'s invariant, every balanced history with imports at the top level only:
the evaluator's scope answers every operation exactly as the frame-stack spec and ends in the state the spec ends in. -/
theorem interp_scope_refines_stack_from (sc : Model.Scope) (σ : SymTab.Scope Addr) (d d' : Nat) (h : R sc σ)
    (hs : Sim σ d) (ops : List (Op Addr)) (hb : finalDepth d ops = some d') (he : extAtRoot d ops = true) :
    ∃ sc' σ' rs, runI sc ops = some (sc', rs) ∧ Spec.Scopes.run (stackOf sc) ops = some (stackOf sc', rs) ∧
      R sc' σ' ∧ Sim σ' d' := by
  obtain ⟨sc', σ', rs, hI, hB, hR', hs'⟩ := run_bridge ops sc σ d d' h hs hb he
  obtain ⟨σ'', rs', h1, h2, _⟩ := C06.scope_refines_stack_from σ d d' hs ops hb he
  rw [hB] at h1
  simp only [GoRes.ok.injEq, Prod.mk.injEq] at h1
  obtain ⟨rfl, rfl⟩ := h1
  exact ⟨sc', σ', rs, hI, by rw [stackOf_eq h, stackOf_eq hR']; exact h2, hR', hs'⟩

/-- **interp_scope_refines_stack**: the evaluator model's scope operations refine `Spec.Scopes`, for every balanced
operation history from the empty scope (composition of the simulation with C06's `scope_refines_stack`). -/
theorem interp_scope_refines_stack (ops : List (Op Addr)) (hb : Balanced 0 ops) (he : extAtRoot 0 ops = true) :
    ∃ sc rs, runI ({} : Model.Scope) ops = some (sc, rs) ∧ Spec.Scopes.run initial ops = some (stackOf sc, rs) := by
  unfold Balanced at hb
  cases hfd : finalDepth 0 ops with
  | none => simp [hfd] at hb
  | some d' =>
    obtain ⟨sc', _, rs, h1, h2, _, _⟩ :=
      interp_scope_refines_stack_from {} SymTab.Scope.new 0 d' R_new sim_new ops hfd he
    exact ⟨sc', rs, h1, h2⟩

/-- (B)'s invariant can be stated on the evaluator's scope alone (`SimI sc d`: depth `d ≥ 0`, symbol depths within
`[0, d]` and non-increasing towards older symbols, module ids only on top-level symbols and never negative): it holds
exactly when some state of (B) with `Sim` is related to `sc`. -/
theorem scope_invariant_intrinsic (sc : Model.Scope) (d : Nat) : SimI sc d ↔ ∃ σ, R sc σ ∧ Sim σ d :=
  ⟨exists_related, fun ⟨_, hR, hs⟩ => simI_of_related hR hs⟩

/-- … so the refinement holds from *any* evaluator scope with that invariant (any point of a program run), and the
invariant holds again at the end. -/
theorem interp_scope_refines_stack_any (sc : Model.Scope) (d d' : Nat) (h : SimI sc d) (ops : List (Op Addr))
    (hb : finalDepth d ops = some d') (he : extAtRoot d ops = true) :
    ∃ sc' rs, runI sc ops = some (sc', rs) ∧ Spec.Scopes.run (stackOf sc) ops = some (stackOf sc', rs) ∧ SimI sc' d' := by
  obtain ⟨σ, hR, hs⟩ := exists_related h
  obtain ⟨sc', σ', rs, h1, h2, hR', hs'⟩ := interp_scope_refines_stack_from sc σ d d' hR hs ops hb he
  exact ⟨sc', rs, h1, h2, simI_of_related hR' hs'⟩

-- non-vacuity: a scope two blocks deep with a shadowed name and an imported top-level symbol
example : SimI ({ syms := [⟨"x", 2, false, none, 5⟩, ⟨"x", 0, true, none, 3⟩, ⟨"f", 0, true, some 4, 1⟩], depth := 2 } : Model.Scope) 2 :=
  ⟨rfl, ⟨by intro x hx; simp at hx; rcases hx with rfl | rfl <;> omega, by simp⟩,
   by intro sy h; simp at h; rcases h with rfl | rfl | rfl <;> simp; exact ⟨4, rfl⟩⟩

-- non-vacuity: C06's demo history (nesting, shadowing, a constant, an import) on the evaluator's scope
example : Balanced 0 C06.demo ∧ extAtRoot 0 C06.demo = true := by decide
example : (runI ({} : Model.Scope) C06.demo).map (·.2) =
    some [.done, .done, .done, .done, .val 2, .done, .err 44, .done, .done, .done, .val 5, .done, .val 1,
          .undefined, .valM 9 2] := by decide

/-- What `RefsOK` / `extAtRoot` exclude — a real difference between (A) and (B): scope.go never deletes
`externalRefs` entries, so after an import *inside a block* has been popped, the next symbol declared at that index
inherits its module id in (B) (and in Go); (A) forgets the module with the symbol.  (The parser allows imports only at
the top level and (A) does not model imports at all, so no program reaches this.) -/
theorem stale_ref_disagreement :
    let ops : List (Op Addr) := [.beginScope, .declareExternal "a" 1 7, .endScope, .declare "a" 2, .lookupM "a"]
    (runI ({} : Model.Scope) ops).map (·.2) = some [.done, .done, .done, .done, .valM 2 (-1)] ∧
    (∃ σ, (SymTab.Scope.new : SymTab.Scope Addr).run ops = .ok (σ, [.done, .done, .done, .done, .valM 2 7])) := by
  refine ⟨by decide, ⟨_, rfl⟩⟩

/-! ### the same at the level the evaluator calls: `findElement`, `declareElement`, `setElement`, `withScope` -/

/-- `vm.FindElement` / `vm.FindElementWithModule`: same value, same module id, same error (42). -/
theorem vm_scope_bridge_find {s : VM ν} {vm : VMScope Addr} (h : RV s vm) (name : String) :
    findElement name s = (ofGo (vm.findElement name), s) ∧
    findElementWithModule name s = (ofGo (vm.findElementWithModuleID name), s) :=
  ⟨vm_find h name, vm_findM h name⟩

/-- `vm.DeclareElement` / `vm.DeclareConstElement`: success with related states, or the same error (42 no module
running, 43 predefined or redeclared) and the evaluator state unchanged; (B) does not panic. -/
theorem vm_scope_bridge_declare {s : VM ν} {vm : VMScope Addr} (h : RV s vm) (name : String) (v : Addr) (c : Bool) :
    RelVM s (declareElement name v c none s) (vm.declareWith name (·.declareValueC name v c)) :=
  vm_declare h name v c

/-- `vm.DeclareExternalElement`, at the top level of the module. -/
theorem vm_scope_bridge_declareExt {s : VM ν} {vm : VMScope Addr} (h : RV s vm) (name : String) (v : Addr) (m : Nat)
    (htop : ∀ σ, vm.scope = some σ → σ.currentDepth = 0) :
    RelVM s (declareElement name v true (some (m : Int)) s) (vm.declareExternalElement name v m) :=
  vm_declareExt h name v m htop

/-- `vm.SetElement`: success with related states, or the same error (42 / 44). -/
theorem vm_scope_bridge_set {s : VM ν} {vm : VMScope Addr} (h : RV s vm) (name : String) (v : Addr) :
    RelVM s (setElement name v s) (vm.setElement name v) :=
  vm_set h name v

/-- `vm.BeginBoundScope` and its deferred `EndScope` (guard: a block is open). -/
theorem vm_scope_bridge_block {s : VM ν} {vm : VMScope Addr} (h : RV s vm) :
    (∃ hnd s', beginBoundScope s = (.ok hnd, s') ∧ RV s' vm.beginScope ∧
      (hnd = if vm.scope.isSome then some s.csModuleID else none)) ∧
    ((∀ σ, vm.scope = some σ → 0 < σ.currentDepth) →
      ∃ vm' s', vm.endScope = .ok vm' ∧ endBoundScope (some s.csModuleID) s = (.ok (), s') ∧ RV s' vm') :=
  ⟨vm_begin h, vm_end h⟩

-- non-vacuity: the toy state `s0` (module 0 running, empty scope) against (B)'s VM view with a fresh scope
example : RV Proofs.Toy.s0 (⟨[], 0, some SymTab.Scope.new⟩ : VMScope Addr) :=
  ⟨rfl, rfl, ⟨R_new, 0, sim_new⟩⟩

/-! # 2. Lists: (A) `builtinMethod` / `getProperty` / `setProperty` / `reduceLHS/RHS` on `.arr items` ↔ (C) -/

section lists
variable (n : Nat) (a : Addr) (items : List Addr) (s : VM ν)

/-- 前增 / 后增: validate, copy the argument, `Containers.arrayPrepend` / `arrayAppend` on the cell's items, store,
answer the receiver.  (Equations between state transformers: every outcome is covered.) -/
theorem list_bridge_prepend_append (x : Addr) (hc : s.heap[a]? = some (.arr items)) :
    builtinMethod n a "前增" [x] s =
      (do validateExact [x] ["any"]; let x' ← dup n x; storeArr a (Containers.arrayPrepend items x'); pure a) s ∧
    builtinMethod n a "后增" [x] s =
      (do validateExact [x] ["any"]; let x' ← dup n x; storeArr a (Containers.arrayAppend items x'); pure a) s :=
  ⟨bm_prepend n a items s x hc, bm_append n a items s x hc⟩

/-- 新增 / 添加: `Containers.arrayInsert` at `int(p)`; its range check (40) is made before anything is copied. -/
theorem list_bridge_insert (name : String) (hname : name = "新增" ∨ name = "添加") (x p : Addr) (pv : ν)
    (hc : s.heap[a]? = some (.arr items)) (hp : s.heap[p]? = some (.num pv)) :
    builtinMethod n a name [x, p] s =
      (do validateExact [x, p] ["any", "number"]; insertCore n a items x (NumOps.toInt pv)) s :=
  bm_insert n a items s name hname x p pv hc hp

/-- The storing methods, from a successful run (the form asked for): the stored element is the `dup` result `x'`, the new
item list is the `Containers` operation applied to the old one and `x'`, the receiver is answered. -/
theorem list_bridge_store_ok (x : Addr) (r : Addr) (s' : VM ν) (hc : s.heap[a]? = some (.arr items)) :
    (builtinMethod n a "后增" [x] s = (.ok r, s') →
      ∃ x' s1 items', dup n x s = (.ok x', s1) ∧ Containers.arrayAppend items x' = .ok items' ∧ a < s1.heap.size ∧
        s' = { s1 with heap := s1.heap.set! a (.arr items') } ∧ r = a) ∧
    (builtinMethod n a "前增" [x] s = (.ok r, s') →
      ∃ x' s1 items', dup n x s = (.ok x', s1) ∧ Containers.arrayPrepend items x' = .ok items' ∧ a < s1.heap.size ∧
        s' = { s1 with heap := s1.heap.set! a (.arr items') } ∧ r = a) ∧
    (∀ name, name = "新增" ∨ name = "添加" → ∀ p pv, s.heap[p]? = some (.num pv) →
      builtinMethod n a name [x, p] s = (.ok r, s') →
      ∃ x' s1 items', dup n x s = (.ok x', s1) ∧ Containers.arrayInsert items x' (NumOps.toInt pv) = .ok items' ∧
        a < s1.heap.size ∧ s' = { s1 with heap := s1.heap.set! a (.arr items') } ∧ r = a) :=
  ⟨bm_append_ok n a items s s' r x hc, bm_prepend_ok n a items s s' r x hc,
   fun name hname p pv hp => bm_insert_ok n a items s s' r name hname x p pv hc hp⟩

/-- 合并: the receiver becomes `Containers.arrayMerge items extra`, `extra` the item lists of the arguments copied
element by element (`copyItems` = `getCell`, then `dup` on every item); a new list cell with the same items is answered. -/
theorem list_bridge_merge (vals : List Addr) (hc : s.heap[a]? = some (.arr items)) :
    builtinMethod n a "合并" vals s =
      (do validateAll vals "array"
          let extra ← vals.mapM (copyItems n)
          setCell a (.arr (Containers.arrayMerge items extra))
          alloc (.arr (Containers.arrayMerge items extra))) s :=
  bm_merge n a items s vals hc

/-- 左移 / 右移: `Containers.shiftArrayValue`; the removed element is answered, a new 空 on the empty list. -/
theorem list_bridge_shift (vals : List Addr) (hc : s.heap[a]? = some (.arr items)) :
    builtinMethod n a "左移" vals s =
      (do setCell a (.arr (Containers.shiftArrayValue items true).2)
          answerOpt (Containers.shiftArrayValue items true).1) s ∧
    builtinMethod n a "右移" vals s =
      (do setCell a (.arr (Containers.shiftArrayValue items false).2)
          answerOpt (Containers.shiftArrayValue items false).1) s :=
  ⟨bm_shiftLeft n a items s vals hc, bm_shiftRight n a items s vals hc⟩

/-- 包含 / 寻找, when every comparison `compareXEQ n item x` answers a Bool `eq item x`: `Containers.arrayContains` /
`arrayFind` with that `eq`, in a new Bool / number cell. -/
theorem list_bridge_contains_find (x : Addr) (eq : Addr → Addr → Bool) (hc : s.heap[a]? = some (.arr items))
    (heq : ∀ i ∈ items, (compareXEQ n i x s).1 = .ok (eq i x)) :
    builtinMethod n a "包含" [x] s =
      (do validateExact [x] ["any"]; newBool (Containers.arrayContains eq x items)) s ∧
    builtinMethod n a "寻找" [x] s =
      (do validateExact [x] ["any"]; newNum (NumOps.ofInt (Containers.arrayFind eq x items))) s :=
  ⟨bm_contains n a items s x eq hc heq, bm_find n a items s x eq hc heq⟩

/-- 包含 / 寻找, from a successful run alone: the answer is the pure loop on the Bool answers of `compareXEQ n` in the
start state (`xeqB`), nothing but the answer cell is new. -/
theorem list_bridge_contains_find_ok (x r : Addr) (s' : VM ν) (hc : s.heap[a]? = some (.arr items)) :
    (builtinMethod n a "包含" [x] s = (.ok r, s') →
      r = s.heap.size ∧ s' = { s with heap := s.heap.push (.bool (Containers.arrayContains (xeqB n s) x items)) }) ∧
    (builtinMethod n a "寻找" [x] s = (.ok r, s') →
      r = s.heap.size ∧
        s' = { s with heap := s.heap.push (.num (NumOps.ofInt (Containers.arrayFind (xeqB n s) x items))) }) :=
  ⟨bm_contains_ok n a items s x r s' hc, bm_find_ok n a items s x r s' hc⟩

/-- 交换: `Containers.arraySwap` at the 1-based positions `cursor + 1`, `cursor = int(floor(p) − 1)` as the evaluator
(and Go) computes it. -/
theorem list_bridge_swap (p q : Addr) (pv qv : ν) (hc : s.heap[a]? = some (.arr items))
    (hp : s.heap[p]? = some (.num pv)) (hq : s.heap[q]? = some (.num qv)) :
    builtinMethod n a "交换" [p, q] s =
      (do validateExact [p, q] ["number", "number"]
          storeArr a (Containers.arraySwap items
            (NumOps.toInt (NumOps.sub (NumOps.floor pv) (NumOps.ofInt 1)) + 1)
            (NumOps.toInt (NumOps.sub (NumOps.floor qv) (NumOps.ofInt 1)) + 1))
          pure a) s :=
  bm_swap n a items s p q pv qv hc hp hq

/-- 拼接: `Containers.arrayJoin` with `str := strAt s` (the text a cell holds): error 82 when some element is not a text
(whatever the arguments), otherwise a new text cell with its answer. -/
theorem list_bridge_join (hc : s.heap[a]? = some (.arr items)) (sep : String) :
    (∀ vals c, (∀ i ∈ items, i < s.heap.size) → Containers.arrayJoin (strAt s) items sep = .err c →
      builtinMethod n a "拼接" vals s = (.err (.rt c), s)) ∧
    (∀ c t, s.heap[c]? = some (.str sep) → Containers.arrayJoin (strAt s) items sep = .ok t →
      builtinMethod n a "拼接" [c] s = newStr t s) :=
  ⟨fun vals c hall h => bm_join_err n a items s vals sep c hc hall h,
   fun c t hsep h => bm_join_ok n a items s c sep t hc hsep h⟩

/-- 首项 末项 长度/数目 逆序. -/
theorem list_bridge_getters (hc : s.heap[a]? = some (.arr items)) :
    getProperty n a "首项" s = answerOpt (Containers.arrayGetFirst items) s ∧
    getProperty n a "末项" s = answerOpt (Containers.arrayGetLast items) s ∧
    getProperty n a "长度" s = newNum (NumOps.ofInt (Containers.arrayGetLength items)) s ∧
    getProperty n a "数目" s = newNum (NumOps.ofInt (Containers.arrayGetLength items)) s ∧
    getProperty n a "逆序" s = (do let r ← liftC (Containers.arrayGetReverse items); alloc (.arr r)) s :=
  ⟨gp_first n a items s hc, gp_last n a items s hc, gp_length n a items s _ (.inl rfl) hc,
   gp_length n a items s _ (.inr rfl) hc, gp_reverse n a items s hc⟩

/-- 首项 / 末项 setters. -/
theorem list_bridge_setters (v : Addr) (hc : s.heap[a]? = some (.arr items)) :
    setProperty a "首项" v s = setCell a (.arr (Containers.arraySetFirst items v)) s ∧
    setProperty a "末项" v s = setCell a (.arr (Containers.arraySetLast items v)) s :=
  ⟨sp_first a items s v hc, sp_last a items s v hc⟩

/-- `L#i` and `L#i = v`: `Containers.ivArrayRead` / `ivArrayWrite` (IndexOutOfRange 40 outside 1 … 长度). -/
theorem list_bridge_iv (name : String) (idx : Int) (v : Addr) (hc : s.heap[a]? = some (.arr items)) :
    reduceRHS n (1, a, name, idx) s = liftC (Containers.ivArrayRead items idx) s ∧
    reduceLHS (1, a, name, idx) v s = storeArr a (Containers.ivArrayWrite items idx v) s :=
  ⟨rhs_arr n a items s name idx hc, lhs_arr a items s name idx v hc⟩

/-- The error codes: 46 for a name that is no list method, 53 for a wrong number of arguments, 82 for a position that
is no number, 40 for a position outside the list (新增 before the first item; `L#i`, `L#i = v`, 交换 outside 1 … 长度),
45 for a name that is no list property — each with the state unchanged. -/
theorem list_bridge_errors (hc : s.heap[a]? = some (.arr items)) :
    (∀ name vals, name ∉ ["新增", "添加", "前增", "后增", "左移", "右移", "拼接", "合并", "包含", "寻找", "交换"] →
      builtinMethod n a name vals s = (.err (.rt 46), s)) ∧
    (∀ name k vals, (name, k) ∈ [("新增", 2), ("添加", 2), ("前增", 1), ("后增", 1), ("包含", 1), ("寻找", 1), ("交换", 2)] →
      vals.length ≠ k → builtinMethod n a name vals s = (.err (.rt 53), s)) ∧
    (∀ name x p cx cp, name = "新增" ∨ name = "添加" → s.heap[x]? = some cx → s.heap[p]? = some cp →
      (∀ pv, cp ≠ .num pv) → builtinMethod n a name [x, p] s = (.err (.rt 82), s)) ∧
    (∀ name x p cx pv c, name = "新增" ∨ name = "添加" → s.heap[x]? = some cx → s.heap[p]? = some (.num pv) →
      Containers.arrayInsert items x (NumOps.toInt pv) = .err c → builtinMethod n a name [x, p] s = (.err (.rt c), s)) ∧
    (∀ name idx c, Containers.ivArrayRead items idx = .err c → reduceRHS n (1, a, name, idx) s = (.err (.rt c), s)) ∧
    (∀ name idx v c, Containers.ivArrayWrite items idx v = .err c →
      reduceLHS (1, a, name, idx) v s = (.err (.rt c), s)) ∧
    (∀ name, name ∉ ["文本", "首项", "末项", "数目", "长度", "逆序"] → getProperty n a name s = (.err (.rt 45), s)) := by
  refine ⟨fun name vals hn => bm_unknown n a items s name vals hc hn,
    fun name k vals hname hlen => bm_param_count n a items s name k vals hc hname hlen,
    fun name x p cx cp hname hx hp hnum => bm_insert_type n a items s name hname x p cx cp hc hx hp hnum,
    fun name x p cx pv c hname hx hp h => bm_insert_range n a items s name hname x p pv cx hc hx hp c h,
    fun name idx c h => ?_, fun name idx v c h => ?_, fun name hn => gp_unknown n a items s name hc hn⟩
  · rw [rhs_arr n a items s name idx hc, h]; rfl
  · rw [lhs_arr a items s name idx v hc, h]; rfl

/-- Transfer of C12's `list_refines_seq` through the bridge, for the storing methods: a successful 后增 / 前增 / 新增
leaves in the cell exactly the sequence the 1-indexed-sequence spec prescribes (`Seq.append`, `Seq.prepend`,
`Seq.insertAt`) for the copied element. -/
theorem interp_list_refines_seq (x r : Addr) (s' : VM ν) (hc : s.heap[a]? = some (.arr items)) :
    (builtinMethod n a "后增" [x] s = (.ok r, s') →
      ∃ x' s1, dup n x s = (.ok x', s1) ∧ s' = { s1 with heap := s1.heap.set! a (.arr (Spec.Seq.append items x')) }) ∧
    (builtinMethod n a "前增" [x] s = (.ok r, s') →
      ∃ x' s1, dup n x s = (.ok x', s1) ∧ s' = { s1 with heap := s1.heap.set! a (.arr (Spec.Seq.prepend items x')) }) ∧
    (∀ name, name = "新增" ∨ name = "添加" → ∀ p pv, s.heap[p]? = some (.num pv) →
      builtinMethod n a name [x, p] s = (.ok r, s') →
      ∃ x' s1 items', dup n x s = (.ok x', s1) ∧ Spec.Seq.insertAt items (NumOps.toInt pv) x' = some items' ∧
        s' = { s1 with heap := s1.heap.set! a (.arr items') }) := by
  refine ⟨fun h => ?_, fun h => ?_, fun name hname p pv hp h => ?_⟩
  · obtain ⟨x', s1, items', hd, hop, _, hs', _⟩ := bm_append_ok n a items s s' r x hc h
    rw [Proofs.Containers.arrayAppend_eq] at hop
    cases hop
    exact ⟨x', s1, hd, hs'⟩
  · obtain ⟨x', s1, items', hd, hop, _, hs', _⟩ := bm_prepend_ok n a items s s' r x hc h
    rw [Proofs.Containers.arrayPrepend_eq] at hop
    cases hop
    exact ⟨x', s1, hd, hs'⟩
  · obtain ⟨x', s1, items', hd, hop, _, hs', _⟩ := bm_insert_ok n a items s s' r name hname x p pv hc hp h
    rw [Proofs.Containers.arrayInsert_eq] at hop
    cases hi : Spec.Seq.insertAt items (NumOps.toInt pv) x' with
    | none => rw [hi] at hop; cases hop
    | some l => rw [hi] at hop; cases hop; exact ⟨x', s1, _, hd, hi, hs'⟩

end lists

-- non-vacuity (toy numbers, `ofInt = toInt = id`): a list `[1, 2]` of cells at address 0, number cells 10, 20 and 1
open ZnVerif.Proofs.Toy in
def sL : VM Int := { heap := #[.arr [1, 2], .num 10, .num 20, .num 1, .str "k", .hm [("k", 1)] ["k"]] }
open ZnVerif.Proofs.Toy in
example : sL.heap[0]? = some (.arr [1, 2]) ∧ sL.heap[3]? = some (.num 1) := ⟨rfl, rfl⟩
open ZnVerif.Proofs.Toy in
example : builtinMethod 5 0 "后增" [1] sL =
    (.ok 0, { sL with heap := #[.arr [1, 2, 6], .num 10, .num 20, .num 1, .str "k", .hm [("k", 1)] ["k"], .num 10] }) := by rfl
open ZnVerif.Proofs.Toy in
example : builtinMethod 5 0 "新增" [1, 3] sL =
    (.ok 0, { sL with heap := #[.arr [1, 6, 2], .num 10, .num 20, .num 1, .str "k", .hm [("k", 1)] ["k"], .num 10] }) := by rfl
open ZnVerif.Proofs.Toy in
example : builtinMethod 5 0 "包含" [2] sL = (.ok 6, { sL with heap := sL.heap.push (.bool true) }) := by rfl
open ZnVerif.Proofs.Toy in
example : reduceRHS 5 (1, 0, "", 3) sL = (.err (.rt 40), sL) ∧ Containers.ivArrayRead [1, 2] 3 = .err 40 := ⟨rfl, rfl⟩

/-! # 3. Dictionaries: (A) `.hm vals order` ↔ (C) `Containers.HashMap` -/

/-- `hmAppend` ↔ `appendKVPair`, `newHashMapCell` ↔ `newHashMap`: related arguments give related results; a literal
(duplicate keys included) gives a cell with the invariant whose association list is the spec's `OrderedMap.ofList`. -/
theorem dict_bridge_build :
    (∀ {vals order} {hm : HashMap Addr}, Rhm vals order hm → ∀ k v,
      Rhm (hmAppend vals order k v).1 (hmAppend vals order k v).2 (Containers.appendKVPair hm k v)) ∧
    (∀ kvs : List (String × Addr), ∃ vals order, (newHashMapCell kvs : Cell ν) = .hm vals order ∧ dictWF vals order ∧
      Rhm vals order (Containers.newHashMap kvs) ∧ vals = Spec.OrderedMap.ofList kvs) :=
  ⟨fun h k v => hmAppend_bridge h k v, fun kvs => newHashMapCell_spec kvs⟩

/-- The removal: the evaluator erases with `assocErase` / `List.erase`; (C) runs the Go loop that edits `keyOrder` in place
while ranging over it.  Under (C)'s invariant `keyOrder.Nodup` (and one entry per key) they agree: same value answered,
(C)'s loop yields exactly `order.erase k`, the new contents are related. -/
theorem dict_bridge_erase {vals : List (String × Addr)} {order : List String} {hm : HashMap Addr} (h : Rhm vals order hm)
    (hwf : dictWF vals order) (k : String) (v : Addr) (hl : lookup k vals = some v) :
    Containers.deleteLoop hm.keyOrder k = .ok (order.erase k) ∧
    ∃ hm', Containers.hmDelete hm k = .ok (some v, hm') ∧ Rhm (assocErase k vals) (order.erase k) hm' := by
  have hnd : hm.keyOrder.Nodup := by rw [← h.order]; exact hwf.2
  refine ⟨by rw [Proofs.Containers.deleteLoop_eq_erase _ _ hnd, h.order], ?_⟩
  exact erase_bridge h (by rw [hwf.1]; exact hwf.2) hnd k v hl

section dicts
variable (n : Nat) (a : Addr) (vals : List (String × Addr)) (order : List String) (s : VM ν)

/-- 读取 with its key chain: `Containers.hmGet` (`sub` = lookup in the dictionary cell at an address): the receiver
itself without keys, the value found, a new 空 when a key is missing or a value on the way is no dictionary. -/
theorem dict_bridge_get {hm : HashMap Addr} (hR : Rhm vals order hm) (ks : List Addr) (keys : List String)
    (hc : s.heap[a]? = some (.hm vals order)) (hks : KeysAt s ks keys) (hcl : DictClosed s) :
    builtinMethod n a "读取" ks s = answerGet a (Containers.hmGet (subOf s) hm keys) s :=
  bm_hm_get n a vals order s hR ks keys hc hks hcl

/-- 写入, from a successful run: the stored value is the `dup` result `v'`, the new contents are related to
`Containers.hmSet hm key v'`, the answer is the argument (as `hmSet` answers it), the invariant is kept. -/
theorem dict_bridge_set {hm : HashMap Addr} (hR : Rhm vals order hm) (k v : Addr) (key : String) (r : Addr) (s' : VM ν)
    (hc : s.heap[a]? = some (.hm vals order)) (hk : s.heap[k]? = some (.str key))
    (h : builtinMethod n a "写入" [k, v] s = (.ok r, s')) :
    ∃ v' s1 vals' order', dup n v s = (.ok v', s1) ∧ a < s1.heap.size ∧
      s' = { s1 with heap := s1.heap.set! a (.hm vals' order') } ∧
      Rhm vals' order' (Containers.hmSet hm key v').1 ∧ r = (Containers.hmSet hm key v).2 ∧
      (dictWF vals order → dictWF vals' order') :=
  bm_hm_set_ok n a vals order s hR k v key r s' hc hk h

/-- 移除: (C)'s `hmDelete` on a related map decides the evaluator's run — present key: same value answered, new contents
related, invariant kept; absent key: a new 空, nothing changed; (C) does not panic. -/
theorem dict_bridge_delete {hm : HashMap Addr} (hR : Rhm vals order hm) (hwf : dictWF vals order) (k : Addr) (key : String)
    (hc : s.heap[a]? = some (.hm vals order)) (hk : s.heap[k]? = some (.str key)) :
    match Containers.hmDelete hm key with
    | .ok (some v, hm') => ∃ vals' order',
        builtinMethod n a "移除" [k] s = (.ok v, { s with heap := s.heap.set! a (.hm vals' order') }) ∧
        Rhm vals' order' hm' ∧ dictWF vals' order'
    | .ok (none, hm') => hm' = hm ∧ builtinMethod n a "移除" [k] s = newNull s
    | _ => False :=
  bm_hm_delete n a vals order s hR hwf k key hc hk

/-- 长度/数目 所有索引 所有值. -/
theorem dict_bridge_getters {hm : HashMap Addr} (hR : Rhm vals order hm) (hwf : dictWF vals order) (hinv : Inv hm)
    (hc : s.heap[a]? = some (.hm vals order)) :
    getProperty n a "长度" s = newNum (NumOps.ofInt (Containers.hmLength hm)) s ∧
    getProperty n a "数目" s = newNum (NumOps.ofInt (Containers.hmLength hm)) s ∧
    getProperty n a "所有索引" s = (do let ks ← (Containers.hmAllIndexes hm).mapM newStr; alloc (.arr ks)) s ∧
    (∃ vs, Containers.hmAllValues hm = vs.map some ∧ getProperty n a "所有值" s = alloc (.arr vs) s) :=
  ⟨gp_hm_length n a vals order s hR hwf hinv _ (.inl rfl) hc, gp_hm_length n a vals order s hR hwf hinv _ (.inr rfl) hc,
   gp_hm_keys n a vals order s hR hc, gp_hm_values n a vals order s hR hwf hc⟩

/-- `D#k` (missing key: IndexKeyNotFound 41) and `D#k = v`. -/
theorem dict_bridge_iv {hm : HashMap Addr} (hR : Rhm vals order hm) (key : String) (idx : Int) (v : Addr)
    (hc : s.heap[a]? = some (.hm vals order)) :
    reduceRHS n (2, a, key, idx) s = liftC (Containers.ivMapRead hm key) s ∧
    ∃ vals' order', reduceLHS (2, a, key, idx) v s = setCell a (.hm vals' order') s ∧
      Rhm vals' order' (Containers.ivMapWrite hm key v) ∧ (dictWF vals order → dictWF vals' order') :=
  ⟨rhs_hm n a vals order s hR key idx hc, lhs_hm a vals order s hR key idx v hc⟩

/-- Error codes: 46 for a name that is no dictionary method, 53 for a wrong number of arguments to 写入 / 移除. -/
theorem dict_bridge_errors (hc : s.heap[a]? = some (.hm vals order)) :
    (∀ name args, name ∉ ["读取", "写入", "移除"] → builtinMethod n a name args s = (.err (.rt 46), s)) ∧
    (∀ name k args, (name, k) ∈ [("写入", 2), ("移除", 1)] → args.length ≠ k →
      builtinMethod n a name args s = (.err (.rt 53), s)) :=
  ⟨fun name args hn => bm_hm_unknown n a vals order s name args hc hn,
   fun name k args hname hlen => bm_hm_param_count n a vals order s name k args hc hname hlen⟩

/-- **interp_hm_inv_preserved**: every evaluator operation on a dictionary cell — any method call (any name, any
arguments), `D#k = v` / property assignment, `D#k` / property reads — whatever its outcome, leaves in that cell a
dictionary with the invariant `vals.map fst = order ∧ order.Nodup`, which is (C)'s `Inv` (C12 `hm_inv`) on the cell read
as a `Containers.HashMap`. -/
theorem interp_hm_inv_preserved (hc : s.heap[a]? = some (.hm vals order)) (hwf : dictWF vals order) :
    Inv (toC vals order) ∧
    (∀ name args r s', builtinMethod n a name args s = (r, s') → KW a s s') ∧
    (∀ kind key idx v r s', reduceLHS (kind, a, key, idx) v s = (r, s') → KW a s s') ∧
    (∀ kind key idx r s', reduceRHS n (kind, a, key, idx) s = (r, s') → KW a s s') ∧
    (∀ name r s', getProperty n a name s = (r, s') → KW a s s') :=
  ⟨inv_of_dictWF hwf,
   fun name args r s' h => bm_hm_keeps n a name args vals order s s' r hc hwf h,
   fun kind key idx v r s' h => lhs_hm_keeps a kind key idx v vals order s s' r hc hwf h,
   fun kind key idx r s' h => rhs_keeps n a kind key idx s s' r h,
   fun name r s' h => GrowRel.ofGrow ((getProperty_grow n a name).run s r s' h)⟩

end dicts

/-- **interp_dict_refines_ordered_map**: for a dictionary cell with the invariant, every history of the evaluator's
dictionary operations (pure core `dictRunI`: `hmAppend`, `assocErase`/`erase`, `lookup` exactly as `builtinMethod` and
`reduceLHS/RHS` use them — see `dict_core_is_evaluator`): after every operation the answer and the cell's association list
are those of the insertion-ordered map (C12's `dict_refines_ordered_map`, transferred through `Rhm`), everything (C)
observes of the cell is what the spec shows, and the invariant holds in every state on the way. -/
theorem interp_dict_refines_ordered_map (sub : Addr → String → Option Addr) (st : DictSt) (hwf : dictWF st.1 st.2)
    (ops : List (DictOp Addr)) :
    (dictRunI sub st ops).map (fun p => (p.1, p.2.1)) = Spec.CollHistory.dictRun sub st.1 ops ∧
    (∀ p ∈ dictRunI sub st ops, dictWF p.2.1 p.2.2 ∧
      Containers.observe (toC p.2.1 p.2.2) = Proofs.Containers.specObs p.2.1) ∧
    Containers.observe (toC st.1 st.2) = Proofs.Containers.specObs st.1 := by
  have hobs : ∀ vals order, dictWF vals order →
      Containers.observe (toC vals order) = Proofs.Containers.specObs vals := by
    intro vals order h
    rw [Proofs.Containers.observe_abs (inv_of_dictWF h), abs_eq_vals (Rhm_toC vals order) h]
  obtain ⟨h1, h2⟩ := dictRunI_spec sub ops st hwf
  exact ⟨h1, fun p hp => ⟨h2 p hp, hobs _ _ (h2 p hp)⟩, hobs _ _ hwf⟩

/-- the steps of `dictRunI` are what the evaluator's operations do to the cell: 写入 (on the copy), 移除, `D#k = v` store
`(dictStepI … op).1`, and answer `(dictStepI … op).2` read as a value (`.elem v` ↦ `v`, `.null` ↦ a new 空, `.err c` ↦
runtime error `c`) -/
theorem dict_core_is_evaluator (n : Nat) (a : Addr) (vals : List (String × Addr)) (order : List String) (s : VM ν)
    (sub : Addr → String → Option Addr) (hc : s.heap[a]? = some (.hm vals order)) (k : Addr) (key : String)
    (hk : s.heap[k]? = some (.str key)) :
    (∀ v, builtinMethod n a "写入" [k, v] s =
      (do validateExact [k, v] ["string", "any"]
          let v' ← dup n v
          setCell a (.hm (dictStepI sub (vals, order) (.set key v')).1.1 (dictStepI sub (vals, order) (.set key v')).1.2)
          pure v) s) ∧
    (∀ v, lookup key vals = some v →
      builtinMethod n a "移除" [k] s =
        (.ok v, { s with heap := s.heap.set! a (.hm (dictStepI sub (vals, order) (.delete key)).1.1
                                                   (dictStepI sub (vals, order) (.delete key)).1.2) }) ∧
      (dictStepI sub (vals, order) (.delete key)).2 = .elem v) ∧
    (lookup key vals = none →
      builtinMethod n a "移除" [k] s = newNull s ∧ dictStepI sub (vals, order) (.delete key) = ((vals, order), .null)) ∧
    (∀ idx v, reduceLHS (2, a, key, idx) v s =
      setCell a (.hm (dictStepI sub (vals, order) (.ivWrite key v)).1.1
                     (dictStepI sub (vals, order) (.ivWrite key v)).1.2) s) ∧
    (∀ idx, reduceRHS n (2, a, key, idx) s =
      (match (dictStepI sub (vals, order) (.ivRead key)).2 with
       | .elem v => (.ok v, s)
       | .err c => (.err (.rt c), s)
       | _ => (.panic, s))) := by
  have hR := Rhm_toC vals order
  have hlt := lt_size_of_getElem? hc
  have hv : validateExact [k] ["string"] s = (.ok (), s) := by
    simp [validateExact, bind, validateOne_string hk, pure]
  refine ⟨fun v => bm_hm_set n a vals order s k v key hc hk, fun v hl => ?_, fun hl => ?_, fun idx v => ?_, fun idx => ?_⟩
  · simp only [dictStepI, hl]
    refine ⟨?_, trivial⟩
    unfold builtinMethod
    simp only [bind, getCell, hc, hv, hk, hl, setCell, hlt, if_true, pure]
  · simp only [dictStepI, hl]
    refine ⟨?_, trivial⟩
    unfold builtinMethod
    simp only [bind, getCell, hc, hv, hk, hl]
  · obtain ⟨vals', order', h1, _, _⟩ := lhs_hm a vals order s hR key idx v hc
    have h21 : ((2 : Nat) == 1) = false := by decide
    simp only [reduceLHS]
    simp only [h21, Bool.false_eq_true, if_false, beq_self_eq_true, if_true]
    simp only [bind, getCell, hc]
    rfl
  · rw [rhs_hm n a vals order s hR key idx hc]
    simp only [dictStepI, Containers.ivMapRead, ← hR.get key]
    cases lookup key vals <;> rfl

/-- **interp_dict_history** (monadic level): any sequence of successful evaluator calls that mutate the dictionary cell `a`
— 写入, 移除, `D#k = v`, interleaved with arbitrary steps that leave the cell alone (`DictCalls`; `ops` records the key
texts and the values actually stored, for 写入 the `dup` result) — from a cell with the invariant: at the end the cell holds
a dictionary with the invariant whose association list is the insertion-ordered map after `ops`. -/
theorem interp_dict_history (sub : Addr → String → Option Addr) (n : Nat) (a : Addr) {s s' : VM ν} {ops : List (DictOp Addr)}
    (h : DictCalls n a s ops s') (vals : List (String × Addr)) (order : List String)
    (hc : s.heap[a]? = some (.hm vals order)) (hwf : dictWF vals order) :
    ∃ order', s'.heap[a]? = some (.hm (omapAfter sub vals ops) order') ∧ dictWF (omapAfter sub vals ops) order' :=
  dictCalls_spec sub n a h vals order hc hwf

-- non-vacuity: 写入 (the copy of cell 2 lands at address 6) then 移除 on the dictionary cell of `sL`
open ZnVerif.Proofs.Toy in
example : ∃ s', DictCalls 5 5 sL [.set "k" 6, .delete "k"] s' :=
  ⟨_, .set (k := 4) (v := 2) (key := "k") rfl rfl rfl (.delete (k := 4) (key := "k") rfl rfl (.done _))⟩

-- non-vacuity: the dictionary cell `{k: 1}` at address 5 of `sL`
open ZnVerif.Proofs.Toy in
example : sL.heap[5]? = some (.hm [("k", 1)] ["k"]) ∧ dictWF [("k", (1 : Addr))] ["k"] ∧
    Rhm [("k", 1)] ["k"] (toC [("k", 1)] ["k"]) := ⟨rfl, by decide, Rhm_toC _ _⟩
open ZnVerif.Proofs.Toy in
example : builtinMethod 5 5 "移除" [4] sL =
    (.ok 1, { sL with heap := #[.arr [1, 2], .num 10, .num 20, .num 1, .str "k", .hm [] []] }) ∧
    Containers.hmDelete (toC [("k", 1)] ["k"]) "k" = .ok (some 1, ⟨[], []⟩) := ⟨rfl, rfl⟩
open ZnVerif.Proofs.Toy in
example : builtinMethod 5 5 "写入" [4, 2] sL =
    (.ok 2, { sL with heap := #[.arr [1, 2], .num 10, .num 20, .num 1, .str "k", .hm [("k", 6)] ["k"], .num 20] }) := by rfl
example : (dictRunI (fun _ _ => none) ([("a", 1), ("b", 2)], ["a", "b"])
    [.delete "a", .ivWrite "a" 7, .set "b" 8, .ivRead "z"]).map (fun p => (p.1, p.2.1)) =
    [(.elem 1, [("b", 2)]), (.unit, [("b", 2), ("a", 7)]), (.elem 8, [("b", 8), ("a", 7)]),
     (.err 41, [("b", 8), ("a", 7)])] := by decide

end ZnVerif.Properties.Bridges
