/-
C20 — The prefork master keeps the worker pool within its bounds.
Property theorems only; helper lemmas live in ZnVerif/Proofs/PM.lean, the model in ZnVerif/Model/PM.lean.

All theorems about `Variant.repaired` quantify over every configuration with `init ≤ max`, every batch constant
(`Config.batch`, 10 in the code) and every finite sequence of events each of which is enabled when it happens:
start-ups, registrations, state reports for any pid with any state, exits of any running process at any moment
(crashes, hung requests that time out), deletions — in every order.
-/
import ZnVerif.Proofs.PM
import ZnVerif.Spec.PoolBounds

namespace ZnVerif.Properties.C20
open ZnVerif.Model.PM ZnVerif.Proofs.PM

/-! ### the pinned tree (`add` overwrites `refCount` with `len(childs)`) breaks the upper bound -/

/-- `--init-procs 2 --max-procs 3`: worker 1 crashes (its refill start sleeps 100 ms), worker 2 reports BUSY (one
more worker is reserved and started at once), its registration resets `refCount` to 2 and forgets the sleeping
refill, worker 3 reports BUSY (another one is reserved and started), then the refill wakes up.  Replayed on the real
master by the harness script `pm 2 3 k1 u2:b u3:b s q` (workers 2, 3, 4 and 5 alive: four, the limit is three). -/
def witness : List Ev :=
  [.spawnStart 0, .add 1, .spawnStart 0, .add 2,
   .exit 1, .del 1,
   .update 2 .busy, .spawnStart 2, .add 3,
   .update 3 .busy, .spawnStart 3, .add 4,
   .spawnStart 1, .add 5]

/-- the trace named in DESIGN §6: `--init-procs 1 --max-procs 3`, BUSY(w1) · add(w2) · BUSY(w2) · … -/
def witnessDesign : List Ev :=
  [.spawnStart 0, .add 1,
   .update 1 .busy, .spawnStart 1, .add 2,
   .update 2 .busy, .spawnStart 1, .spawnStart 2, .add 3, .add 4]

theorem asWritten_witness :
    (run .asWritten ⟨2, 3, 10⟩ (init .asWritten ⟨2, 3, 10⟩) witness).map aliveCount = some 4 := by decide

theorem asWritten_witnessDesign :
    (run .asWritten ⟨1, 3, 10⟩ (init .asWritten ⟨1, 3, 10⟩) witnessDesign).map aliveCount = some 4 := by decide

/-- the bound claimed by the property is false for the code as written -/
theorem asWritten_violates_live_le_max :
    ¬ (∀ (c : Config), c.init ≤ c.max → ∀ (evs : List Ev) (s : State),
        run .asWritten c (init .asWritten c) evs = some s → aliveCount s ≤ c.max) := by
  intro h
  have h4 := asWritten_witness
  cases hr : run .asWritten ⟨2, 3, 10⟩ (init .asWritten ⟨2, 3, 10⟩) witness with
  | none => rw [hr] at h4; cases h4
  | some s =>
    rw [hr] at h4
    have := h ⟨2, 3, 10⟩ (by decide) witness s hr
    simp only [Option.map_some, Option.some.injEq] at h4
    simp only at this
    omega

/-- the same two traces on the repaired bookkeeping stay at the limit -/
example : (run .repaired ⟨2, 3, 10⟩ (init .repaired ⟨2, 3, 10⟩) witness).map aliveCount = none := by decide
-- (`.spawnStart 3` is not enabled: the second BUSY report finds nothing left to reserve)
example : (run .repaired ⟨2, 3, 10⟩ (init .repaired ⟨2, 3, 10⟩)
    [.spawnStart 0, .add 1, .spawnStart 0, .add 2, .exit 1, .del 1, .update 2 .busy, .spawnStart 2, .add 3,
     .update 3 .busy, .spawnStart 1, .add 4]).map aliveCount = some 3 := by decide

/-! ### the repaired tree -/

/-- **bookkeeping invariant**: in every reachable state `refCount` is exactly registered + started-but-unregistered +
still-reserved, and lies between `InitProcs` and `MaxProcs`. -/
theorem refCount_accounts (c : Config) (h : c.init ≤ c.max) (evs : List Ev) (s : State)
    (hr : run .repaired c (init .repaired c) evs = some s) :
    s.refCount = (s.childs.length : Int) + (s.unreg.length : Int) + (reserved s.batches : Int) ∧
    (c.init : Int) ≤ s.refCount ∧ s.refCount ≤ (c.max : Int) := by
  have hI := inv_reachable c h s ⟨evs, hr⟩
  exact ⟨hI.count, hI.lo, hI.hi⟩

/-- **live_le_max**: under every interleaving the number of live worker processes never exceeds `MaxProcs`. -/
theorem live_le_max (c : Config) (h : c.init ≤ c.max) (evs : List Ev) (s : State)
    (hr : run .repaired c (init .repaired c) evs = some s) : aliveCount s ≤ c.max := by
  have hI := inv_reachable c h s ⟨evs, hr⟩
  have h1 := aliveCount_le s
  have h2 := hI.count
  have h3 := hI.hi
  omega

/-- `quiet` is the right notion: it holds exactly when no start-up, no registration and no deletion is enabled, i.e.
when only state reports (requests) and faults can happen next. -/
theorem quiet_iff_only_requests_enabled (v : Variant) (c : Config) (s : State) :
    quiet s = true ↔ (∀ b, step v c s (.spawnStart b) = none) ∧ (∀ p, step v c s (.add p) = none) ∧
      (∀ p, step v c s (.del p) = none) :=
  quiet_iff_no_internal v c s

/-- **quiet_ge_init**: whenever the system is quiet, at least `InitProcs` workers are alive, every live worker is
registered, every registered worker is alive, and `refCount` is that number. -/
theorem quiet_ge_init (c : Config) (h : c.init ≤ c.max) (evs : List Ev) (s : State)
    (hr : run .repaired c (init .repaired c) evs = some s) (hq : quiet s = true) :
    c.init ≤ aliveCount s ∧ aliveCount s = s.childs.length ∧ s.refCount = (aliveCount s : Int) := by
  have hI := inv_reachable c h s ⟨evs, hr⟩
  obtain ⟨h1, h2, h3⟩ := quiet_spec s hq
  have hc := hI.count
  have hlo := hI.lo
  simp only [h1, h2, List.length_nil] at hc
  refine ⟨?_, h3, ?_⟩ <;> omega

/-- … and the system does become quiet: from every reachable state the master's own events (registrations, start-ups,
deletions — at most `workLeft s` of them) lead to a quiet state, whatever happened before. -/
theorem quiet_is_reached (c : Config) (h : c.init ≤ c.max) (evs : List Ev) (s : State)
    (hr : run .repaired c (init .repaired c) evs = some s) :
    ∃ (more : List Ev) (s' : State), (∀ e ∈ more, e.internal = true) ∧ run .repaired c s more = some s' ∧
      quiet s' = true ∧ c.init ≤ aliveCount s' ∧ aliveCount s' ≤ c.max := by
  have hI := inv_reachable c h s ⟨evs, hr⟩
  obtain ⟨h1, h2, h3⟩ := drain_spec c h (workLeft s) s hI (Nat.le_refl _)
  have hI' := inv_run c h _ s _ hI h1
  obtain ⟨q1, q2, q3⟩ := quiet_spec _ h3
  have hc := hI'.count
  have hlo := hI'.lo
  have hhi := hI'.hi
  simp only [q1, q2, List.length_nil] at hc
  exact ⟨_, _, h2, h1, h3, by omega, by omega⟩

/-- **timeout_replaces**: a registered, running worker whose request outlives the time-out reports STOPPED and exits.
Then its deletion is enabled, and after it (1) the worker has left the table, (2) every other table entry — pid,
state, running bit — is exactly what it was before the time-out and nothing else is in the table, (3) no
unregistered process was touched, (4) the bookkeeping again plans for at least `InitProcs` processes, and if it
would have fallen short a refill batch was started. -/
theorem timeout_replaces (c : Config) (h : c.init ≤ c.max) (evs : List Ev) (s : State)
    (hr : run .repaired c (init .repaired c) evs = some s) (pid : Nat) (st : WState)
    (hw : (⟨pid, st, true⟩ : Child) ∈ s.childs) :
    ∃ s1 s2, step .repaired c s (.timeoutKill pid) = some s1 ∧ step .repaired c s1 (.del pid) = some s2 ∧
      pid ∉ s2.childs.map (·.pid) ∧
      (∀ ch : Child, ch ∈ s2.childs ↔ (ch ∈ s.childs ∧ ch.pid ≠ pid)) ∧
      s2.unreg = s.unreg ∧
      (c.init : Int) ≤ s2.refCount ∧
      (s1.refCount - 1 < c.init → ∃ n, 0 < n ∧ s2.batches = s1.batches ++ [⟨n, true⟩]) := by
  have hI := inv_reachable c h s ⟨evs, hr⟩
  have halive : isAlive s pid = true := by
    simp only [isAlive, Bool.or_eq_true, List.any_eq_true, Bool.and_eq_true, beq_iff_eq]
    exact Or.inl ⟨_, hw, rfl, rfl⟩
  have hs1 : step .repaired c s (.timeoutKill pid) = some (exitH (updateH c s pid .stopped) pid) := by
    simp [step, halive]
  have hI1 : Inv c (exitH (updateH c s pid .stopped) pid) := inv_step c h s _ _ hI hs1
  -- the entry of `pid` is now (pid, stopped, not running)
  have hdeadmem : (⟨pid, .stopped, false⟩ : Child) ∈ (exitH (updateH c s pid .stopped) pid).childs := by
    simp only [exitH, updateH_childs, markDead, setState, List.map_map, List.mem_map, Function.comp]
    exact ⟨_, hw, by simp⟩
  have hdead : isDeadChild (exitH (updateH c s pid .stopped) pid) pid = true := by
    simp only [isDeadChild, List.any_eq_true, Bool.and_eq_true, beq_iff_eq, Bool.not_eq_eq_eq_not, Bool.not_true]
    exact ⟨_, hdeadmem, rfl, rfl⟩
  have hs2 : step .repaired c (exitH (updateH c s pid .stopped) pid) (.del pid) =
      some (delH c (exitH (updateH c s pid .stopped) pid) pid) := by simp [step, hdead]
  have hI2 := inv_step c h _ _ _ hI1 hs2
  have hnd1 : ((exitH (updateH c s pid .stopped) pid).childs.map (·.pid)).Nodup := by
    have := hI1.nodup; simp only [pidsOf] at this; exact (List.nodup_append.mp this).1
  have hpid_unreg : pid ∉ s.unreg.map (·.1) := by
    have := hI.nodup
    simp only [pidsOf] at this
    intro hm
    exact (List.nodup_append.mp this).2.2 pid (List.mem_map.mpr ⟨_, hw, rfl⟩) pid hm rfl
  refine ⟨_, _, hs1, hs2, ?_, ?_, ?_, hI2.lo, ?_⟩
  · rw [delH_childs]; exact delChild_pids_of_nodup pid _ hnd1
  · intro ch
    rw [delH_childs]
    constructor
    · intro hm
      have hne : ch.pid ≠ pid := by
        intro heq
        exact delChild_pids_of_nodup pid _ hnd1 (List.mem_map.mpr ⟨ch, hm, heq⟩)
      refine ⟨?_, hne⟩
      have := (mem_delChild_of_ne pid _ ch hne).mp hm
      simp only [exitH, updateH_childs] at this
      exact (mem_markDead_setState_of_ne pid .stopped s.childs ch hne).mp this
    · rintro ⟨hm, hne⟩
      refine (mem_delChild_of_ne pid _ ch hne).mpr ?_
      simp only [exitH, updateH_childs]
      exact (mem_markDead_setState_of_ne pid .stopped s.childs ch hne).mpr hm
  · rw [delH_unreg]
    simp only [exitH, updateH_unreg]
    exact markDeadU_of_not_mem pid s.unreg hpid_unreg
  · intro hlt
    refine ⟨((c.init : Int) - ((exitH (updateH c s pid .stopped) pid).refCount - 1)).toNat, by omega, ?_⟩
    unfold delH
    simp only [hlt, if_true]

/-- **one_request_per_worker**: a pool of workers sharing one listener, given distinct requests.  After any sequence
of accepts, completions, time-outs, crashes and start-ups, every request is in exactly one place (still queued, or
taken by exactly one worker, exactly once) — and a worker accepts only when it serves nothing, so it holds at most
one request at a time. -/
theorem one_request_per_worker (reqs : List Nat) (hd : reqs.Nodup) (n : Nat) (evs : List PEv) (p : Pool)
    (hr : Pool.run ⟨reqs, List.replicate n Worker.fresh⟩ evs = some p) :
    (Pool.all p).Perm reqs ∧ (Pool.all p).Nodup ∧
    (∀ (w w' : Worker) (r : Nat), w.step (.accept r) = some w' → w.phase = .accepting ∧ w'.phase = .serving r) := by
  have hp := Pool.run_all evs _ p hr
  have h0 : Pool.all ⟨reqs, List.replicate n Worker.fresh⟩ = reqs := by
    simp [Pool.all, Worker.fresh, Worker.taken]
  rw [h0] at hp
  refine ⟨hp, hp.nodup_iff.mpr hd, fun w w' r hw => ?_⟩
  have := Worker.step_taken w w' (.accept r) hw
  exact ⟨this.1, this.2.1⟩

/-- **others_undisturbed**: no event takes away a live worker other than the one it is about — crashes, time-outs and
deletions concern one pid; start-ups, registrations and state reports concern none. -/
theorem others_undisturbed (c : Config) (h : c.init ≤ c.max) (evs : List Ev) (s s' : State)
    (hr : run .repaired c (init .repaired c) evs = some s) (e : Ev) (hs : step .repaired c s e = some s')
    (j : Nat) (hne : Ev.target e ≠ some j) (hj : j ∈ alivePids s) : j ∈ alivePids s' :=
  alive_step c s s' e (inv_reachable c h s ⟨evs, hr⟩) hs j hne hj

/-- **model_meets_spec**: what an observer sees of the model passes the executable spec oracle
(`Spec.PoolBounds`, the one the real master's observations are judged by): the bound in every reachable state, the
quiet clauses in every quiet one, and the step clause across every event. -/
theorem model_meets_spec (c : Config) (h : c.init ≤ c.max) (evs : List Ev) (s : State)
    (hr : run .repaired c (init .repaired c) evs = some s) :
    Spec.PoolBounds.maxOk c.max ⟨alivePids s, s.childs.length⟩ = true ∧
    (quiet s = true → Spec.PoolBounds.quietOk c.init ⟨alivePids s, s.childs.length⟩ = true) ∧
    (∀ (e : Ev) (s' : State), step .repaired c s e = some s' →
      ∀ j ∈ alivePids s, Ev.target e = some j ∨ j ∈ alivePids s') := by
  refine ⟨?_, ?_, ?_⟩
  · simpa [Spec.PoolBounds.maxOk, alivePids_length] using live_le_max c h evs s hr
  · intro hq
    obtain ⟨h1, h2, _⟩ := quiet_ge_init c h evs s hr hq
    simp only [Spec.PoolBounds.quietOk, alivePids_length, Bool.and_eq_true, decide_eq_true_eq]
    omega
  · intro e s' hs j hj
    by_cases ht : Ev.target e = some j
    · exact Or.inl ht
    · exact Or.inr (others_undisturbed c h evs s s' hr e hs j ht hj)

/-! ### non-vacuity -/

-- a reachable state that exercises every handler (start-up, BUSY with reservation, crash with refill, time-out)
example : (run .repaired ⟨2, 3, 10⟩ (init .repaired ⟨2, 3, 10⟩)
    [.spawnStart 0, .add 1, .spawnStart 0, .add 2, .update 1 .busy, .update 2 .busy, .spawnStart 1, .add 3,
     .exit 1, .del 1, .timeoutKill 2, .del 2, .spawnStart 2, .add 4]).map (fun s => (aliveCount s, quiet s)) =
    some (2, true) := by decide

-- `timeout_replaces` has instances: worker 2 is registered and running after start-up
example : (run .repaired ⟨2, 3, 10⟩ (init .repaired ⟨2, 3, 10⟩) [.spawnStart 0, .add 1, .spawnStart 0, .add 2]).map
    (fun s => decide ((⟨2, .idle, true⟩ : Child) ∈ s.childs)) = some true := by decide

-- `one_request_per_worker` has instances: two workers, three requests, one time-out
example : (Pool.run ⟨[7, 8, 9], List.replicate 2 Worker.fresh⟩
    [.accept 0, .accept 1, .finish 0, .timeout 1, .spawn, .accept 2]).map (·.queue) = some [] := by decide

end ZnVerif.Properties.C20
