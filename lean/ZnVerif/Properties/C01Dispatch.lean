/-
C01 — the regenerated tie of operator dispatch.

Properties/C01.lean proves that `Model.evalExpr` computes what the manual says for every expression tree; which
NumOps operation the model applies for which AST constant was READ from evalArithExpr / evalArithTypeModuloExpr /
evalLogicComparator / evalLogicCombiner / evalExpression.  `Generated/OperatorDispatch.lean` regenerates that reading
on every run: every `return` and every assignment of those functions (and of the comparison helpers they apply to the two
operands) under its guards, the operands written l and r, e.g.
  switch ….Type case syntax.ArithIntDiv ▸ return value.NewNumber(math.Floor(l / r)), nil.
`operator_dispatch_as_modelled` compares it with the table the model was written from (`Proofs/EvalSites.lean`, every
entry with the model's counterpart).  Swapping `+` and `-`, dropping a zero check, sending 大于 to compareLogicGTE makes
it fail: a broken obligation of C01.  (The numeric values of the AST constants are tied separately, by the regenerated
parser tables.)
-/
import ZnVerif.Proofs.EvalSites

set_option maxRecDepth 100000

namespace ZnVerif.Properties.C01Dispatch
open ZnVerif ZnVerif.Generated ZnVerif.Proofs.EvalSites

/-- The dispatch of the Go evaluator — AST type constant ↦ Go operation or helper, with the zero checks, the type checks
and their error constructors, the short-circuit exits of 且 / 或 — is the one `Model.evalExpr` implements. -/
theorem operator_dispatch_as_modelled : OperatorDispatch.operatorDispatch = modelledOperatorDispatch.map (·.entry) :=
  rfl

/-- the scan saw the five operator functions and the four comparison helpers: twelve exits of evalArithExpr (five operators,
two zero checks, the operand checks), seven of the modulo function, fourteen steps of the comparator, eight of the combiner,
twelve of evalExpression, three of each helper -/
theorem dispatch_inventory_nonempty :
    (["exec.evalArithExpr", "exec.evalArithTypeModuloExpr", "exec.evalLogicComparator", "exec.evalLogicCombiner",
      "exec.evalExpression", "exec.compareLogicGT", "exec.compareLogicGTE", "exec.compareLogicLT", "exec.compareLogicLTE"].map
      fun f => (OperatorDispatch.operatorDispatch.filter (·.func == f)).length) = [12, 7, 14, 8, 12, 3, 3, 3, 3] := by
  decide +kernel

end ZnVerif.Properties.C01Dispatch
