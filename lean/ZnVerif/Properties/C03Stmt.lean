/-
C03, statements and blocks — "the program's structure is determined by its tokens and indentation".

The token-level round trip of Properties/C03.lean (`parse_tokens_roundtrip_partial`: expressions on one line) extended to
statements, blocks, declarations and whole programs, WITH the layout: lines, indentation, statement line breaks.

Spec (Spec/StmtSyntax.lean): a `Layout Y` (the lexer's line table + the position of EOF), `layoutOps Y` (the token-level lexer that
hands out a token list read against `Y`: a token's line is `FindLineIdx` of its `StartIdx` in `Y.lines`), and the rendering
relations `LinE` (expressions — operators, assignments, member / index chains, calls, 新建, method-call chains, list and dictionary
literals, a `，` after an operand — with the lines the parser stores), `LinStmt s d ts`, `LinBlock ss d ts`, `LinExec x d ts`,
`LinProgram p ts` (`d` = indentation of the node's lines).  The layout discipline is three predicates of the spec: `Glued` (no
statement line break inside a simple statement / a header), `Sep` (a statement line break between consecutive statements) and
`Y.ind … = d` (first tokens of statements, `：`/`？` of headers, 再如/否则/拦截 on lines indented by `d`; the block one step deeper).

The invariant (Proofs/StmtBase.lean, stated once): every parser state reached on a token list read against `Y` is
`S Y p1 ts fl` — last consumed token, remaining tokens, statement-complete flag; the four line fields of the Go parser are functions
of the two window tokens (this is where `InOrder` is needed: `next()` searches the line table from the previous position on);
consuming `t` when `u` follows turns the flag into `fl || Y.brk t u`.  A statement production enters with any flag (it resets it) and
leaves in `S Y (last token) rest true` — a simple statement that is followed by `；` on its line leaves with the flag as the layout
makes it (`CSimple`), and the `；` makes the statement complete; `expectBlockIndent` compares the indentation of the lines of the two
window tokens.

What `line` fields hold: a statement node the line (`Y.sl`) of its FIRST token (令 如果 每当 遍历 以 输出 抛出 如何 定义 结束循环 继续循环);
an identifier the line of its token; a binary expression the line of its operator token; `{ e }` puts the line of `{` on the top
node of `e` (so do `（`, `【`, 以 for calls, literals, method calls); `x 之 p` and `其 p` hold line 0, `x # i` the line of `#`; the calls of a
method-call chain hold line 0; methods and getters inside a 定义 and the empty statement of a `；` hold line 0 (the Go code never sets
them); a 导入 node holds the line of its 导入 token (`ParseProgram`: `setStmtCurrentLine(stmt, tk)` — before that repair it stayed 0, and
the relation said 0: `import_lines_recorded`); an expression statement is the expression (`以 x（m）` as a statement: the line of 以).

Variants: every theorem here holds for every `Variant` `v` of the parser model — in particular for `Variant.legacy` (the pinned Go
tree) and `Variant.fixed` (the repaired one): on a rendering none of the repaired places the variant switches is reached (statement
after a 拦截 block, 如果 at end of input, error builder without current token, position of the left-over-token error).  The line of
a 导入 node is not under the variant (Model/Parser.lean, header): every variant records it.

Fuel: `16 * (number of tokens) + c` (`c` = 20 for a statement, 22 for a block, 48 for a body, 52 for a program) — linear in the input.
-/
import ZnVerif.Proofs.StmtMain
import ZnVerif.Proofs.CmtSim

namespace ZnVerif.Properties.C03
open ZnVerif.Model ZnVerif.Model.Parser ZnVerif.Generated.Tokens ZnVerif.Generated.ParserTables
open ZnVerif.Spec.StmtSyntax ZnVerif.Proofs.StmtRT ZnVerif.Proofs.CmtSim

variable {Y : Layout} (v : Variant)

/-- **parse_expression_roundtrip_layout**: `parse_tokens_roundtrip_partial` with layout and in context.  A rendering `ts` of the
expression `e` (any operator synonym, braces anywhere), laid out over any number of lines as long as no statement line break falls
inside (`Glued`: line breaks only after `， 、 { 【 ： ？` or before `】 }` — `linebreak_exceptions`), followed by tokens `rest` that do not
continue an expression (a statement line break, or a token outside the follow set `F1`; never a comma: a comma after the
expression belongs to its rendering), parses to exactly `e` — line fields as
`LinE` says — and leaves the parser right after `ts`. -/
theorem parse_expression_roundtrip_layout {e : Expr} {ts : List Token} (h : LinE Y 1 e ts) (hg : Y.Glued ts)
    (p1 : Option Token) (rest : List Token) (ho : Y.InOrder (ts ++ rest)) (hs : Stop Y F1 ts rest) (n : Nat)
    (hn : 16 * ts.length + 16 ≤ n) :
    parse v (layoutOps Y) n (.expr true) (S Y p1 (ts ++ rest) false) = .ok e (Send Y ts rest) :=
  expr_roundtrip h hg p1 rest ho hs n hn

/-- **parse_simple_statement_roundtrip** (level 1: expression statement — calls `（显示：…）`, assignments, … —, `以 x（m：a）、（n）` as a
statement, `令 a、b 设为/恒为/= e`, `输出 e`, `抛出 类：e、…！`, 结束循环, 继续循环 — `LinSimple`).  `ParseStatement` on a rendering of such a
statement, in any state (any flag, any previous token), followed by anything that a statement line break separates from it and that is not a comma, returns exactly that statement and leaves the
parser right after it with the statement marked complete.  Indentation plays no part at this level. -/
theorem parse_simple_statement_roundtrip {s : Stmt} {ts : List Token} (h : LinSimple Y s ts)
    (p1 : Option Token) (rest : List Token) (fl : Bool) (ho : Y.InOrder (ts ++ rest))
    (hb : Y.jf ts.getLast? (Y.peek rest) = true) (hc : (Y.peek rest).type ≠ cTypeCommaSep) (n : Nat)
    (hn : 16 * ts.length + 20 ≤ n) :
    parse v (layoutOps Y) n .statement (S Y p1 (ts ++ rest) fl) = .ok s (S Y ts.getLast? rest true) :=
  -- the claim of a simple statement does not look at the indentation: render it one step deeper than what follows
  (linN_claim (v := v) (.simple (Y.ind (Y.peek rest) + 1) s ts h)).2 p1 rest fl ho ⟨hb, hc, Or.inr (Or.inl (Nat.lt_succ_self _))⟩ n hn

/-- **parse_simple_statement_semicolon**: the same when a `；` follows instead of a statement line break (`a；b` on one line): the
statement is complete because of the `；`, the flag is what the layout makes it.  (The `；` itself then is an empty statement —
`LinN.blockEmpty`, `LinN.blockConsSemi` — with line 0.) -/
theorem parse_simple_statement_semicolon {s : Stmt} {ts : List Token} (h : LinSimple Y s ts)
    (p1 : Option Token) (rest : List Token) (fl : Bool) (ho : Y.InOrder (ts ++ rest))
    (hsemi : (Y.peek rest).type = cTypeStmtSep) (n : Nat) (hn : 16 * ts.length + 20 ≤ n) :
    parse v (layoutOps Y) n .statement (S Y p1 (ts ++ rest) fl) =
      .ok s (S Y ts.getLast? rest (Y.jf ts.getLast? (Y.peek rest))) :=
  (linSimple_claim (v := v) h).2 p1 rest fl ho ⟨by rw [hsemi]; decide, Or.inr hsemi⟩ n hn

/-- **parse_statement_roundtrip** (levels 1–3: every statement form of `LinStmt`, blocks nested to any depth).
`ParseStatement` on a rendering of the statement `s` whose lines are indented by `d`, in any state, followed by `rest` such that
`After Y d (last token) rest` — a statement line break, then the end of input, or a line indented less than `d`, or a line
indented by `d` that does not start with 再如 / 否则; never a comma — returns exactly `s` (lines as the header says), having consumed
exactly the rendering, with the statement marked complete. -/
theorem parse_statement_roundtrip {s : Stmt} {d : Nat} {ts : List Token} (h : LinStmt Y s d ts)
    (p1 : Option Token) (rest : List Token) (fl : Bool) (ho : Y.InOrder (ts ++ rest)) (ha : After Y d ts.getLast? rest) (n : Nat)
    (hn : 16 * ts.length + 20 ≤ n) :
    parse v (layoutOps Y) n .statement (S Y p1 (ts ++ rest) fl) = .ok s (S Y ts.getLast? rest true) :=
  (linN_claim (v := v) h).2 p1 rest fl ho ha n hn

/-- **parse_block_roundtrip** (level 2).  `ParseBlockStmt` for indentation `d` on a rendering of the statements `ss` (each on
its own run of lines starting on a line indented by `d`, separated by statement line breaks, nested blocks one step deeper),
followed by the end of input or a line indented less than `d`, returns exactly `ss`. -/
theorem parse_block_roundtrip {ss : List Stmt} {d : Nat} {ts : List Token} (h : LinBlock Y ss d ts) (hne : ts ≠ [])
    (p1 : Option Token) (rest : List Token) (fl : Bool) (ho : Y.InOrder (ts ++ rest)) (ha : AfterB Y d ts.getLast? rest) (n : Nat)
    (hn : 16 * ts.length + 23 ≤ n) :
    parse v (layoutOps Y) n (.block d) (S Y p1 (ts ++ rest) fl) = .ok ss (S Y ts.getLast? rest true) := by
  obtain ⟨m, rfl⟩ : ∃ m, n = m + 1 := ⟨n - 1, by omega⟩
  have := (linN_claim (v := v) h).2.2.1 p1 rest fl [] ho (brk_of_last ha.brk) ⟨ha.nc, ha.dedent⟩ m (by unfold fB; omega)
  rw [lastTok_ne _ hne, exitFl_ne _ hne] at this
  exact this

/-- **parse_body_roundtrip** (level 3: the body of 如何 / 何为 / 如何新建, and of the program).  `ParseExecBlock` on a rendering of
`输入 a、b` (optional), statements, `拦截 类：` handlers (each with its block), all indented by `d`, returns exactly that body. -/
theorem parse_body_roundtrip {x : ExecBlock} {d : Nat} {ts : List Token} (h : LinExec Y x d ts)
    (p1 : Option Token) (rest : List Token) (ho : Y.InOrder (ts ++ rest)) (ha : AfterB Y d ts.getLast? rest) (n : Nat)
    (hn : 16 * ts.length + 48 ≤ n) :
    parse v (layoutOps Y) n (.execBlock d) (S Y p1 (ts ++ rest) false) = .ok x (S Y ts.getLast? rest true) :=
  (linN_claim (v := v) h).2.2 p1 rest ho ha n hn

/-- **parse_statements_roundtrip** (level 4).  Every rendering of a program — 导入 statements (each with any number of `；` after it on
its line: ‹导入语句› [‹间隔符› ‹导入语句›]*), 输入 line, statements (simple ones,
`令：` with its pairs, 如果/再如/否则, 每当, 遍历 with 0, 1, 2 names, 如何 / 如何新建 with 输入 lines and 拦截 handlers, 定义 with 其 properties,
methods and 何为 getters, all nested to any depth), then 拦截 handlers — read against any layout in which the tokens come in reading order, parses, for every fuel from
`16 * tokens + 52` on, to exactly that program. -/
theorem parse_statements_roundtrip {p : Program} {ts : List Token} (h : LinProgram Y p ts) (ho : Y.InOrder ts) (n : Nat)
    (hn : 16 * ts.length + 52 ≤ n) : parseLaidOut v Y n ts = .tree p :=
  program_roundtrip h ho n hn

/-- **import_lines_recorded**: a program that opens with 导入 statements (rendered by `ti`, body rendered by `tx`) parses to the tree
whose import nodes carry, in order, the lines of the 导入 tokens of `ti` (`importKws ti`: the tokens of type 导入 — a rendered import
holds exactly one, its first) — wherever those lines are: after blank lines, comment lines, or on one line together, with or
without `；` after them (`hsemi`: a body that starts with `；` does so on a later line — a `；` on the line of the last import is part of
`ti`). -/
theorem import_lines_recorded {d : Nat} {ims : List Import} {ti : List Token} {x : ExecBlock} {tx : List Token} (hne : ti ≠ [])
    (hi : LinImports Y d ims ti) (hx : LinN Y d (.exec x) tx)
    (hsemi : (Y.peek tx).type = cTypeStmtSep → Y.jf ti.getLast? (Y.peek tx) = true) (ho : Y.InOrder (ti ++ tx)) (n : Nat)
    (hn : 16 * (ti ++ tx).length + 52 ≤ n) :
    parseLaidOut v Y n (ti ++ tx) = .tree { imports := ims, exec := some x } ∧
      ims.map (·.line) = (importKws ti).map Y.sl :=
  ⟨parse_statements_roundtrip v (.importsBody d ims ti x tx hne hi hx hsemi) ho n hn, linImports_lines hi⟩

/-- **rendering_unambiguous**: tokens and layout determine the tree — a token list read against a layout renders at most one
program (whatever `LinProgram` derivations exist, they end in the tree the parser builds). -/
theorem rendering_unambiguous {p p' : Program} {ts : List Token} (h : LinProgram Y p ts) (h' : LinProgram Y p' ts)
    (ho : Y.InOrder ts) : p = p' := by
  have e := parse_statements_roundtrip Variant.fixed h ho _ (Nat.le_refl _)
  rw [parse_statements_roundtrip Variant.fixed h' ho _ (Nat.le_refl _)] at e
  exact (Outcome.tree.inj e).symm

/-- **comments_are_invisible**: for ANY token list (not only renderings), whatever `Parser.Parse` answers on the list without its
comment tokens — a tree, a syntax error, another error — it answers on the list with them, given one more unit of fuel per token
(`next()` drops comments one by one).  Proved by a simulation through all 45 productions (Proofs/CmtSim*.lean). -/
theorem comments_are_invisible (Y : Layout) (raw : List Token) (n : Nat) :
    (match parseLaidOut v Y n (clean raw) with
     | .outOfFuel => True
     | .tree t => parseLaidOut v Y (n + raw.length) raw = .tree t
     | .synErr e => parseLaidOut v Y (n + raw.length) raw = .synErr e
     | .otherErr => parseLaidOut v Y (n + raw.length) raw = .otherErr) :=
  parseLaidOut_comments v Y raw n

/-- **parse_statements_roundtrip_comments**: `parse_statements_roundtrip` with comment tokens anywhere in the token list — before
the first token, between any two tokens (also inside expressions and headers), after the last one.  `clean raw` is `raw` without
its comment tokens; the rendering conditions (`LinProgram`, `InOrder`) are about `clean raw`, i.e. comments do not count for line
breaks or indentation (a line that holds only a comment is no line of the program). -/
theorem parse_statements_roundtrip_comments {p : Program} {raw : List Token} (h : LinProgram Y p (clean raw))
    (ho : Y.InOrder (clean raw)) (n : Nat) (hn : 16 * (clean raw).length + 52 + raw.length ≤ n) :
    parseLaidOut v Y n raw = .tree p := by
  obtain ⟨m, rfl⟩ : ∃ m, n = m + raw.length := ⟨n - raw.length, by omega⟩
  exact parseLaidOut_comments_tree v Y raw m p (parse_statements_roundtrip v h ho m (by omega))

/-- the one-line token lexer of `parse_tokens_roundtrip_partial` is the special case of a layout with a single line -/
theorem parseTokens_is_laidOut (n : Nat) (ts : List Token) : parseTokens v n ts = parseLaidOut v oneLine n ts := rfl

/-- What is STILL not covered, kept as a statement over an abstract rendering relation `LinFull` meant to extend `LinProgram`.
Every production of the parser model is now covered (all expression forms, all statement forms, `；`, 导入, a `，` after an
operand, comments); what remains are layouts the model accepts beyond the rendering discipline:
(a) commas in other places than after an operand (`LinX.commaAfter`): the parser swallows a single `，` before ANY token it fetches
through `tryConsume` — after a keyword, after `（`, after an operator, at the start of a statement (`comma_is_optional`); each such
place needs its clause in the relation and its case in the production's lemma (the probe that swallows the comma differs from
place to place, and it leaves the comma as the "current token");
(b) inside a dictionary literal the model forgives a statement line break after a value (`hashLoop` resets the flag), and inside
`令：` it skips `；`; `Glued` / `LinPairs` do not offer these;
(c) a statement other than a simple one directly followed by `；` on the line of its last token is covered only as what it is for
the parser: the `；` belongs to the innermost block that is open there;
(d) list items must be glued to each other (same line, or a `，` before the line break): the model has no other way either.
The character level (`parse_render_full`) additionally needs the lexer: that `lexAll` of a rendered text yields such a token list
and the `Layout` made of `Lexer.Lines` and the length of the text. -/
def parse_statements_roundtrip_full (LinFull : Layout → Program → List Token → Prop) : Prop :=
  ∀ (Y : Layout) (p : Program) (ts : List Token), LinFull Y p ts →
    ∃ n0, ∀ n, n0 ≤ n → parseLaidOut v Y n ts = .tree p

-- ---- non-vacuity: a five-line program with a nested block ---------------------------------------------------------------

section examples
private def tk (ty : Nat) (a b : Nat) (lit : List Nat := []) : Token := { type := ty, literal := lit, startIdx := a, endIdx := b }

/-- five lines starting at characters 0, 10, 20, 30, 40; lines 2 and 3 indented by one step; the text is 50 characters long -/
def exY : Layout :=
  { lines := #[{ indents := 0, startIdx := 0 }, { indents := 0, startIdx := 10 }, { indents := 1, startIdx := 20 },
               { indents := 1, startIdx := 30 }, { indents := 0, startIdx := 40 }],
    eofIdx := 50, ne := by decide }

-- 令 甲 设为 乙
private def a1 := tk cTypeDeclareW 0 1
private def a2 := tk cTypeIdentifier 2 3 [0x7532]
private def a3 := tk cTypeAssignW 4 6
private def a4 := tk cTypeIdentifier 7 8 [0x4E59]
-- 每当 甲：
private def b1 := tk cTypeWhileLoopW 10 12
private def b2 := tk cTypeIdentifier 13 14 [0x7532]
private def b3 := tk cTypeFuncCall 15 16
--     输出 甲
private def c1 := tk cTypeReturnW 20 22
private def c2 := tk cTypeIdentifier 23 24 [0x7532]
--     结束循环
private def d1 := tk cTypeBreakW 30 34
-- 甲 + 乙
private def e1 := tk cTypeIdentifier 40 41 [0x7532]
private def e2 := tk cTypePlus 42 43
private def e3 := tk cTypeIdentifier 44 45 [0x4E59]

def exTokens : List Token := [a1, a2, a3, a4, b1, b2, b3, c1, c2, d1, e1, e2, e3]

private def idE (t : Token) : Expr := .id (exY.idOf t)

/-- the tree: a declaration on line 0, a loop on line 1 whose block holds the statements of lines 2 and 3, an expression on line 4 -/
def exProgram : Program :=
  { imports := [],
    exec := some (.mk [] (some
      [.varDecl (exY.sl a1) [(vdTypeOf a3, [exY.idOf a2], idE a4)],
       .while (exY.sl b1) (idE b2) (some [.ret (exY.sl c1) (idE c2), .break (exY.sl d1)]),
       .expr (.arith (exY.sl e2) (lookupD addSubOverride e2.type addSubDefault) (idE e1) (idE e3))]) []) }

private theorem lin_id (t : Token) (h : t.type = cTypeIdentifier) : LinE exY 1 (idE t) [t] := linE_id1 t h

/-- the hypotheses of `parse_statements_roundtrip` hold of a concrete program with a nested block … -/
theorem exProgram_rendered : LinProgram exY exProgram exTokens := by
  have hdecl : LinN exY 0 (.stmt (.varDecl (exY.sl a1) [(vdTypeOf a3, [exY.idOf a2], idE a4)])) [a1, a2, a3, a4] :=
    .simple 0 _ _ (.declStmt a1 a3 _ [a2] _ [a4] rfl (.one a2 rfl) (by decide) (lin_id a4 rfl) (by decide))
  have hret : LinN exY 1 (.stmt (.ret (exY.sl c1) (idE c2))) [c1, c2] :=
    .simple 1 _ _ (.retStmt c1 _ [c2] rfl (lin_id c2 rfl) (by decide))
  have hbrk : LinN exY 1 (.stmt (.break (exY.sl d1))) [d1] := .simple 1 _ _ (.breakStmt d1 rfl)
  have hblk : LinN exY 1 (.block [.ret (exY.sl c1) (idE c2), .break (exY.sl d1)]) ([c1, c2] ++ ([d1] ++ [])) :=
    .blockCons 1 _ _ _ _ hret (by decide) (.blockCons 1 _ _ _ _ hbrk (by decide) (.blockNil 1) (Or.inl rfl)) (Or.inr (by decide))
  have hwhile : LinN exY 0 (.stmt (.while (exY.sl b1) (idE b2) (some [.ret (exY.sl c1) (idE c2), .break (exY.sl d1)])))
      (b1 :: [b2] ++ b3 :: ([c1, c2] ++ ([d1] ++ []))) :=
    .whileStmt 0 b1 b3 _ [b2] _ _ rfl (lin_id b2 rfl) rfl (by decide) (by decide) (by simp) hblk
  have hadd : LinE exY 1 (.arith (exY.sl e2) (lookupD addSubOverride e2.type addSubDefault) (idE e1) (idE e3)) ([e1] ++ e2 :: [e3]) :=
    .up 1 _ _ (by decide) (.up 2 _ _ (by decide) (.up 3 _ _ (by decide) (.up 4 _ _ (by decide)
      (.add e2 _ _ [e1] [e3] (by decide)
        (.up 5 _ _ (by decide) (.up 6 _ _ (by decide) (.id e1 rfl))) (.up 6 _ _ (by decide) (.id e3 rfl))))))
  have hexpr : LinN exY 0 (.stmt (.expr (.arith (exY.sl e2) (lookupD addSubOverride e2.type addSubDefault) (idE e1) (idE e3))))
      ([e1] ++ e2 :: [e3]) := .simple 0 _ _ (.exprStmt _ _ hadd (by decide) (by decide))
  have hbody : LinN exY 0 (.block _) ([a1, a2, a3, a4] ++ ((b1 :: [b2] ++ b3 :: ([c1, c2] ++ ([d1] ++ []))) ++ (([e1] ++ e2 :: [e3]) ++ []))) :=
    .blockCons 0 _ _ _ _ hdecl (by decide)
      (.blockCons 0 _ _ _ _ hwhile (by decide) (.blockCons 0 _ _ _ _ hexpr (by decide) (.blockNil 0) (Or.inl rfl)) (Or.inr (by decide)))
      (Or.inr (by decide))
  exact .body 0 _ _ (.execPlain 0 _ _ [] [] hbody (.handNil 0) (Or.inl rfl) (by simp))

theorem exTokens_inOrder : exY.InOrder exTokens := by decide

/-- … so the theorem applies: the parser model returns exactly that tree, the repaired one and the pinned one alike -/
example : parseLaidOut Variant.fixed exY 300 exTokens = .tree exProgram :=
  parse_statements_roundtrip _ exProgram_rendered exTokens_inOrder 300 (by decide)
example : parseLaidOut Variant.legacy exY 300 exTokens = .tree exProgram :=
  parse_statements_roundtrip _ exProgram_rendered exTokens_inOrder 300 (by decide)

/-- independently of the theorem, by evaluation of the parser model: the tree, with the line numbers spelled out -/
example : (match parseLaidOut Variant.fixed exY 300 exTokens with
    | .tree ⟨[], some (.mk [] (some
        [.varDecl 0 [(1, [⟨0, _⟩], .id ⟨0, _⟩)],
         .while 1 (.id ⟨1, _⟩) (some [.ret 2 (.id ⟨2, _⟩), .break 3]),
         .expr (.arith 4 12 (.id ⟨4, _⟩) (.id ⟨4, _⟩))]) [])⟩ => true
    | _ => false) = true := by decide +kernel

/-- the layout matters: the same tokens with line 3 not indented put 结束循环 after the loop, not inside it -/
example : (match parseLaidOut Variant.fixed
      { exY with lines := #[{ indents := 0, startIdx := 0 }, { indents := 0, startIdx := 10 }, { indents := 1, startIdx := 20 },
                            { indents := 0, startIdx := 30 }, { indents := 0, startIdx := 40 }], ne := by decide } 300 exTokens with
    | .tree ⟨[], some (.mk [] (some [.varDecl .., .while 1 _ (some [.ret 2 _]), .break 3, .expr _]) [])⟩ => true
    | _ => false) = true := by decide +kernel

-- non-vacuity of the in-context theorems: the loop statement of the example, followed by the last line
example : LinStmt exY (.while (exY.sl b1) (idE b2) (some [.ret (exY.sl c1) (idE c2), .break (exY.sl d1)])) 0
    (b1 :: [b2] ++ b3 :: ([c1, c2] ++ ([d1] ++ []))) ∧
    After exY 0 (b1 :: [b2] ++ b3 :: ([c1, c2] ++ ([d1] ++ []))).getLast? [e1, e2, e3] := by
  refine ⟨?_, by decide, by decide, Or.inr (Or.inr ⟨by decide, by decide⟩)⟩
  have hret : LinN exY 1 (.stmt (.ret (exY.sl c1) (idE c2))) [c1, c2] :=
    .simple 1 _ _ (.retStmt c1 _ [c2] rfl (lin_id c2 rfl) (by decide))
  have hbrk : LinN exY 1 (.stmt (.break (exY.sl d1))) [d1] := .simple 1 _ _ (.breakStmt d1 rfl)
  exact .whileStmt 0 b1 b3 _ [b2] _ _ rfl (lin_id b2 rfl) rfl (by decide) (by decide) (by simp)
    (.blockCons 1 _ _ _ _ hret (by decide) (.blockCons 1 _ _ _ _ hbrk (by decide) (.blockNil 1) (Or.inl rfl)) (Or.inr (by decide)))

-- non-vacuity of `import_lines_recorded`: two 导入 statements on lines 1 and 2 (line 0 holds a comment, i.e. no token), a body on line 3
/-- four lines starting at characters 0, 10, 20, 30 -/
def imY : Layout :=
  { lines := #[{ indents := 0, startIdx := 0 }, { indents := 0, startIdx := 10 }, { indents := 0, startIdx := 20 },
               { indents := 0, startIdx := 30 }],
    eofIdx := 40, ne := by decide }
-- 导入 《库》
private def i1 := tk cTypeImportW 10 12
private def i2 := tk cTypeLibString 12 15 [0x5E93]
-- 导入 “文” 之 甲
private def j1 := tk cTypeImportW 20 22
private def j2 := tk cTypeString 22 25 [0x6587]
private def j3 := tk cTypeObjDotW 25 26
private def j4 := tk cTypeIdentifier 26 27 [0x7532]
-- 结束循环
private def k1 := tk cTypeBreakW 30 34

theorem imports_rendered : LinImports imY 0
    [{ line := imY.sl i1, libType := libTypeOf i2, name := some (runesToString i2.literal), items := [] },
     { line := imY.sl j1, libType := libTypeOf j2, name := some (runesToString j2.literal), items := [imY.idOf j4] }]
    ([i1, i2] ++ ([] ++ ([j1, j2, j3, j4] ++ ([] ++ [])))) :=
  .cons _ _ [] _ _ (.plain i1 i2 rfl (by decide) (by decide)) (by decide) (.nil _)
    (.cons _ _ [] _ _ (.items j1 j2 j3 _ [j4] rfl (by decide) (by decide) (.one j4 rfl) (by decide)) (by decide) (.nil _) .nil)

private theorem k1_body : LinN imY 0 (.exec (.mk [] (some [.break (imY.sl k1)]) [])) ([k1] ++ []) :=
  .execPlain 0 _ _ [] [] (.blockCons 0 _ _ _ _ (.simple 0 _ _ (.breakStmt k1 rfl)) (by decide) (.blockNil 0) (Or.inl rfl))
    (.handNil 0) (Or.inl rfl) (by simp)

example : ∀ v : Variant, (match parseLaidOut v imY 300 ([i1, i2] ++ ([] ++ ([j1, j2, j3, j4] ++ ([] ++ []))) ++ ([k1] ++ [])) with
    | .tree ⟨ims, _⟩ => ims.map (·.line) = [1, 2]
    | _ => False) := by
  intro v
  have h := import_lines_recorded v (by simp) imports_rendered k1_body (by decide) (by decide) 300 (by decide)
  rw [h.1]
  exact h.2

-- `；` after 导入 statements: line 1 reads `导入《库》；导入“文”之甲；；`, the body is on line 3
/-- four lines starting at characters 0, 10, 50, 60 -/
def imZ : Layout :=
  { lines := #[{ indents := 0, startIdx := 0 }, { indents := 0, startIdx := 10 }, { indents := 0, startIdx := 50 },
               { indents := 0, startIdx := 60 }],
    eofIdx := 70, ne := by decide }
private def s1 := tk cTypeStmtSep 15 16
private def j1' := tk cTypeImportW 16 18
private def j2' := tk cTypeString 18 21 [0x6587]
private def j3' := tk cTypeObjDotW 21 22
private def j4' := tk cTypeIdentifier 22 23 [0x7532]
private def s2 := tk cTypeStmtSep 23 24
private def s3 := tk cTypeStmtSep 24 25
private def k1' := tk cTypeBreakW 60 64

theorem imports_semicolons_rendered : LinImports imZ 0
    [{ line := imZ.sl i1, libType := libTypeOf i2, name := some (runesToString i2.literal), items := [] },
     { line := imZ.sl j1', libType := libTypeOf j2', name := some (runesToString j2'.literal), items := [imZ.idOf j4'] }]
    ([i1, i2] ++ ([s1] ++ ([j1', j2', j3', j4'] ++ ([s2, s3] ++ [])))) :=
  .cons _ _ [s1] _ _ (.plain i1 i2 rfl (by decide) (by decide)) (by decide) (.cons _ s1 [] rfl (by decide) (.nil _))
    (.cons _ _ [s2, s3] _ _ (.items j1' j2' j3' _ [j4'] rfl (by decide) (by decide) (.one j4' rfl) (by decide)) (by decide)
      (.cons _ s2 [s3] rfl (by decide) (.cons _ s3 [] rfl (by decide) (.nil _))) .nil)

private theorem k1'_body : LinN imZ 0 (.exec (.mk [] (some [.break (imZ.sl k1')]) [])) ([k1'] ++ []) :=
  .execPlain 0 _ _ [] [] (.blockCons 0 _ _ _ _ (.simple 0 _ _ (.breakStmt k1' rfl)) (by decide) (.blockNil 0) (Or.inl rfl))
    (.handNil 0) (Or.inl rfl) (by simp)

/-- two imports on one line separated by `；`, two more `；` after the second: both import nodes, both on line 1, and NO empty
statement in the body — for every variant -/
example : ∀ v : Variant, parseLaidOut v imZ 300 [i1, i2, s1, j1', j2', j3', j4', s2, s3, k1'] =
    .tree { imports := [{ line := 1, libType := 1, name := some (runesToString i2.literal), items := [] },
                        { line := 1, libType := 2, name := some (runesToString j2'.literal), items := [imZ.idOf j4'] }],
            exec := some (.mk [] (some [.break 3]) []) } := by
  intro v
  exact (import_lines_recorded v (by simp) imports_semicolons_rendered k1'_body (by decide) (by decide) 300 (by decide)).1

/-- independently of the theorem, by evaluation of the parser model: `；` after imports, no empty statement -/
example : (match parseLaidOut Variant.fixed imZ 300 [i1, i2, s1, j1', j2', j3', j4', s2, s3, k1'] with
    | .tree ⟨[⟨1, 1, some _, []⟩, ⟨1, 2, some _, [⟨1, _⟩]⟩], some (.mk [] (some [.break 3]) [])⟩ => true
    | _ => false) = true := by decide +kernel

/-- a `；` on a LATER line is not part of the import section: it is the empty statement it always was -/
example : (match parseLaidOut Variant.fixed imZ 300 [i1, i2, tk cTypeStmtSep 50 51, k1'] with
    | .tree ⟨[⟨1, 1, some _, []⟩], some (.mk [] (some [.empty 0, .break 3]) [])⟩ => true
    | _ => false) = true := by decide +kernel

/-- a comment token (positions do not matter: the parser drops it before looking at lines) -/
private def cm (a : Nat) : Token := tk cTypeComment a (a + 1)

/-- the example with comments before the first token, inside the declaration, after `：`, on a line of their own, at the end -/
def exRaw : List Token := [cm 0, a1, a2, cm 3, a3, a4, cm 9, b1, b2, b3, cm 17, cm 25, c1, c2, d1, cm 35, e1, e2, cm 43, e3, cm 46]

example : parseLaidOut Variant.fixed exY 400 exRaw = .tree exProgram := by
  have hc : clean exRaw = exTokens := by decide
  exact parse_statements_roundtrip_comments _ (by rw [hc]; exact exProgram_rendered) (by rw [hc]; exact exTokens_inOrder) 400
    (by rw [hc]; decide)

end examples

end ZnVerif.Properties.C03
