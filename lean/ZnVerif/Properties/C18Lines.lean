/-
C18 (line table, lexer part) — `lines_table` (= `lines_table_full`, now a theorem) and `lines_table_partial`.

  full : for every source that lexes to EOF without error, `Lines.map StartIdx` = the physical line starts.

PROVED for ALL sources (`lines_table`, `lines_table_any_fuel`; `lines_table_full_holds : lines_table_full`).
No side condition is needed: CR LF / LF CR pairing is greedy left to right in every scanner exactly as in
`Spec.Lines.lineStarts`, a lone CR or LF at the very end records the (empty) last line, and a NUL anywhere in the
text never reaches EOF without error (`parseBeginLex` takes a leading NUL for an empty text and records no line,
but `NextToken` then answers `InvalidChar`).

The invariant, stated once (Proofs/LinesInv.lean): `LinesInv.At l k` — the start indices recorded in `l.lines`,
followed by the physical line starts of the text from position `k` on, are the physical line starts of the whole
text; `LinesInv.Good S k l` = the text is `S`, `parseBeginLex` has run, `At l (l.cursor + k)` (`k = 0` between
tokens: cursor on the next character; `k = 1` inside the loops whose passes begin with `l.Next()`: cursor on the
last consumed character).  Three scanners append to `Lines`, each proved to keep it:
  * `parseLine` with indentation scanning and its `goto head`        — `parse_line_records_lines`;
  * the comment scanners `注：…`, `注：“…”`, `注：「…」`, `//`, `/* */`     — `comment_scanner_records_lines`;
  * `parseString` for arbitrary contents, back-tick escapes included — `string_scanner_records_lines`
    (the back-tick machine never consumes a line break: `LinesInv.unescapeBackTick_frame1`);
all other scanners consume no line break and leave the table alone (`LinesInv.Frame`), `parseEOF` is the only
source of an EOF token and answers it only at the end of the text; `next_token_keeps_lines` composes them, and
`lines_table` is the induction over the token sequence.
`lines_table_partial` (the earlier one-literal theorem, explicit run of the string scanner) is kept.
The model mirrors the repaired lexer: before `fix-c13-backtick-at-eof-or-linebreak` a line break right after a
back-tick inside a string was consumed by the back-tick machine and missing from the table, and before
`fix-c18-note-comment-first-char` the line break after an empty `注：` was swallowed together with the next line.
-/
import ZnVerif.Proofs.LexLines
import ZnVerif.Proofs.LinesTokens

namespace ZnVerif.Properties.C18Lines
open ZnVerif ZnVerif.Model ZnVerif.Spec.Literal ZnVerif.Spec.Lines
open ZnVerif.Generated.Tokens
open ZnVerif.Model.LinesInv (Good Fresh At Frame starts)

def lines_table_full : Prop :=
  ∀ (src : List Nat) (toks : List Token) (l : Lexer),
    lexAll (4 * src.length + 17) (mkLexer src) [] = (toks, some (.ok ()), l) →
    l.lines.toList.map (·.startIdx) = physicalLineStarts src

/-- the line table of a one-literal source -/
theorem lines_table_partial (q : Quote) (t : List Nat) (h : Verbatim q t) :
    (lexAll 3 (mkLexer (literalVerbatim q t)) []).2.1 = some (.ok ()) ∧
    (lexAll 3 (mkLexer (literalVerbatim q t)) []).2.2.lines.toList.map (·.startIdx) =
      physicalLineStarts (literalVerbatim q t) := by
  obtain ⟨hbal, hbt, h0⟩ := h
  have hd := (balanced_iff_depth q 0 t).mp hbal
  have hf := quote_facts q
  have hclnb : isBreak q.closer = false := by cases q <;> decide
  have hopnb : isBreak q.opener = false := by cases q <;> decide
  unfold literalVerbatim encodeVerbatim
  -- first token: the literal
  obtain ⟨l', hsrc, hcur, hrest, hlines, ⟨hbl, hit⟩, hrun⟩ := verbatim_run_lines q 0 q.type [q.closer]
    (by
      have := hf.2.1
      constructor <;> (intro e; simp at e; rw [e] at this; revert this; decide))
    t.length t rfl (startState (q.opener :: (t ++ [q.closer]))) [] 0 0 hbt h0 hd (by rw [startState_rest])
  have htok : nextToken (mkLexer (q.opener :: (t ++ [q.closer]))) =
      (.ok { type := q.type, literal := [] ++ t, startIdx := 0, endIdx := l'.cursor + 2 }, l'.adv.adv) := by
    rw [nextToken_literal, hrun, parseStringLoop_done (by rw [str_closer hrest]; rfl)]
  rw [lexAll_succ, htok]
  have hty : (q.type == cTypeEOF) = false := by cases q <;> decide
  simp only [hty, Bool.false_eq_true, ↓reduceIte]
  -- second token: EOF
  have hcur2 : l'.adv.adv.cursor = t.length + 2 := by simp [hcur, startState]
  have hsize : l'.adv.adv.src.size = t.length + 2 := by simp [hsrc, startState]
  have hcureof : l'.adv.adv.cur = 0 := Lexer.getChar_of_ge (by omega)
  have hbl2 : l'.adv.adv.beginLex = false := hbl
  have hsolid : Solid l'.adv.adv.cur := by rw [hcureof]; exact ⟨by decide, by decide, by decide⟩
  rw [lexAll_succ, nextToken_later _ hbl2 hsolid]
  have hd2 : dispatchToken l'.adv.adv = parseEOF l'.adv.adv := by
    unfold dispatchToken
    have hnot : ¬ (l'.cursor + 1 + 1 < l'.src.size) := by
      have h1 : l'.adv.adv.cursor = l'.cursor + 1 + 1 := rfl
      have h2 : l'.adv.adv.src.size = l'.src.size := rfl
      omega
    simp [hcureof, runeEOF, hnot]
  rw [hd2]
  -- the line table after the literal
  have hl2 : l'.adv.adv.lines = #[{ indents := 0, startIdx := 0 }] ++ ((lineStarts 1 t).map scannedLine).toArray := by
    simpa [startState] using hlines
  have hne : 0 < l'.adv.adv.lines.size := by rw [hl2]; simp
  -- the last recorded line starts inside the text
  have hlast : ∀ x ∈ l'.adv.adv.lines.toList, x.startIdx ≤ t.length + 1 ∧ x.indents = 0 := by
    intro x hx
    rw [hl2] at hx
    simp only [Array.toList_append, List.mem_append, List.mem_cons, List.not_mem_nil, or_false,
      List.mem_map] at hx
    rcases hx with rfl | ⟨y, hy, rfl⟩
    · simp
    · have := lineStarts_bound 1 t y hy
      simp [scannedLine]; omega
  have hstart : ∃ st, lastLineStart l'.adv.adv = some st ∧ st ≤ t.length + 1 := by
    unfold lastLineStart
    simp only [hne, ↓reduceDIte]
    have hmem : l'.adv.adv.lines[l'.adv.adv.lines.size - 1] ∈ l'.adv.adv.lines.toList := by simp
    have hit2 : l'.adv.adv.indentType = 0 := hit
    have := hlast _ hmem
    refine ⟨_, rfl, ?_⟩
    rw [hit2]
    have a1 : ((0 : Nat) == cIndentSpace) = false := by decide
    have a2 : ((0 : Nat) == cIndentTab) = false := by decide
    simp only [a1, a2, Bool.false_eq_true, ↓reduceIte]
    exact this.1
  obtain ⟨st, hst, hstle⟩ := hstart
  obtain ⟨l2, hpe, hl2eq⟩ := parseEOF_ok l'.adv.adv st hst (by rw [hcur2]; omega) (by rw [hcur2, hsize]; omega)
  rw [hpe]
  simp only [eofTok, beq_self_eq_true, ↓reduceIte]
  refine ⟨trivial, ?_⟩
  rw [hl2eq, hl2]
  simp only [physicalLineStarts, List.isEmpty_cons, Bool.false_eq_true, ↓reduceIte, Array.toList_append,
    List.map_append, List.map_cons, List.map_nil, List.map_map]
  have e1 : lineStarts 0 (q.opener :: (t ++ [q.closer])) = lineStarts 1 (t ++ [q.closer]) := by
    simpa using lineStarts_plain 0 q.opener (t ++ [q.closer]) hopnb
  rw [e1, lineStarts_snoc_plain 1 t q.closer hclnb]
  simp [scannedLine, Function.comp_def]

-- non-vacuity: “a⏎b⏎⏎”-style text with CRLF, LFCR, lone CR and LF
example : Verbatim .dblCurly [0x61, 0x0D, 0x0A, 0x62, 0x0A, 0x0D, 0x0D, 0x63, 0x0A] ∧
    physicalLineStarts (literalVerbatim .dblCurly [0x61, 0x0D, 0x0A, 0x62, 0x0A, 0x0D, 0x0D, 0x63, 0x0A]) =
      [0, 4, 7, 8, 10] := by
  refine ⟨⟨by decide, by decide, by decide⟩, by decide⟩

/-! ### the full theorem -/

/-- the line table of every source that lexes to EOF without error: the recorded start indices are exactly the
physical line starts (whatever the token budget) -/
theorem lines_table_any_fuel (fuel : Nat) (src : List Nat) (toks : List Token) (l : Lexer)
    (h : lexAll fuel (mkLexer src) [] = (toks, some (.ok ()), l)) :
    l.lines.toList.map (·.startIdx) = physicalLineStarts src := by
  have := LinesInv.lexAll_good (S := src.toArray) fuel (mkLexer src) [] toks l rfl
    (Or.inl (LinesInv.fresh_mkLexer src)) h
  simpa [LinesInv.starts] using this.2

/-- `lines_table_full`, proved: every source that lexes to EOF without error has a line table whose start indices
are exactly the physical line starts -/
theorem lines_table (src : List Nat) (toks : List Token) (l : Lexer)
    (h : lexAll (4 * src.length + 17) (mkLexer src) [] = (toks, some (.ok ()), l)) :
    l.lines.toList.map (·.startIdx) = physicalLineStarts src :=
  lines_table_any_fuel _ src toks l h

theorem lines_table_full_holds : lines_table_full := lines_table

/-- non-vacuity source: a two-line quoted comment (CR LF inside), an indented statement with a text literal that
spans lines (LF CR, then a back-tick escape), a `//` comment ended by a lone CR, a `/* */` comment over an empty
line, and LF CR at the very end:
`注：“a␍␊b”␊␉令x为“c␊␍`CR`d”；// e␍/* f␊␊*/␊␍` -/
def demoSource : List Nat :=
  [0x6CE8, 0xFF1A, 0x201C, 0x61, 0x0D, 0x0A, 0x62, 0x201D, 0x0A, 0x09, 0x4EE4, 0x78, 0x4E3A, 0x201C, 0x63, 0x0A, 0x0D,
   0x60, 0x43, 0x52, 0x60, 0x64, 0x201D, 0xFF1B, 0x2F, 0x2F, 0x20, 0x65, 0x0D, 0x2F, 0x2A, 0x20, 0x66, 0x0A, 0x0A,
   0x2A, 0x2F, 0x0A, 0x0D]

-- non-vacuity of `lines_table`: the source above lexes to EOF (9 tokens) and has 8 physical lines
set_option maxRecDepth 100000 in
example : ∃ toks l, lexAll (4 * demoSource.length + 17) (mkLexer demoSource) [] = (toks, some (.ok ()), l) ∧
    toks.length = 9 ∧ physicalLineStarts demoSource = [0, 6, 9, 17, 29, 34, 35, 39] := by
  have h : (lexAll (4 * demoSource.length + 17) (mkLexer demoSource) []).2.1 = some (.ok ()) := by decide +kernel
  have hn : (lexAll (4 * demoSource.length + 17) (mkLexer demoSource) []).1.length = 9 := by decide +kernel
  refine ⟨(lexAll (4 * demoSource.length + 17) (mkLexer demoSource) []).1,
    (lexAll (4 * demoSource.length + 17) (mkLexer demoSource) []).2.2, ?_, hn, by decide⟩
  rw [← h]

/-! ### the scanners that append to `Lines`, one theorem each (the invariant is `LinesInv.Good`) -/

/-- `parseLine` (priority 2): called on a CR or LF between tokens, it consumes the whole run of line breaks —
pairing CR LF / LF CR, scanning the indentation of each new line, `goto head` while another break follows — and
records exactly the lines that start in that run -/
theorem parse_line_records_lines (S : Array Nat) (ch : Nat) (withIndent : Bool) (l : Lexer) (g : Good S 0 l)
    (hch : l.cur = ch) (hbr : isBreak ch = true) (u : Unit) (h : (parseLine ch withIndent l).1 = .ok u) :
    Good S 0 (parseLine ch withIndent l).2 :=
  LinesInv.parseLine_good ch withIndent l g hch hbr u h

/-- the comment scanners (priority 1): at `注` or `/`, either a comment token — every line break inside a quoted
or `/* */` comment recorded, a one-line comment stopped before its line break — or no comment and nothing but
non-break characters passed (the caller then restores the cursor) -/
theorem comment_scanner_records_lines (S : Array Nat) (l : Lexer) (g : Good S 0 l) (h0 : isBreak l.cur = false) :
    (∀ tk l', parseComment l = (some tk, l') → Good S 0 l' ∧ tk.type = cTypeComment) ∧
    (∀ l', parseComment l = (none, l') → Frame 0 l l') :=
  LinesInv.parseComment_good l g h0

/-- the string scanner, arbitrary contents (nested quotes, back-tick escapes, undocumented back-tick groups):
every line break inside the literal is recorded -/
theorem string_scanner_records_lines (S : Array Nat) (l : Lexer) (g : Good S 0 l) (h0 : isBreak l.cur = false)
    (tk : Token) (l' : Lexer) (h : parseString l = (.ok tk, l')) : Good S 0 l' ∧ tk.type ≠ cTypeEOF :=
  LinesInv.parseString_good l g h0 tk l' h

/-- composition (priority 3): one `NextToken`, from the fresh state or between tokens, keeps the invariant; an EOF
token is only answered with the cursor at the end of the text, where the invariant says the table is complete -/
theorem next_token_keeps_lines (S : Array Nat) (l : Lexer) (hS : l.src = S) (hl : Fresh l ∨ Good S 0 l)
    (tk : Token) (l' : Lexer) (h : nextToken l = (.ok tk, l')) :
    Good S 0 l' ∧ (tk.type = cTypeEOF → l'.src.size ≤ l'.cursor) :=
  LinesInv.nextToken_good l hS hl tk l' h

/-- what the invariant says at the end of the text -/
theorem invariant_at_end (S : Array Nat) (l : Lexer) (g : Good S 0 l) (h : l.src.size ≤ l.cursor) :
    l.lines.toList.map (·.startIdx) = physicalLineStarts S.toList := by
  have := g.inv.complete (by omega)
  rw [g.src] at this
  exact this

/-- non-vacuity state: `demoSource` with `Lines = [0]`, cursor `k`, `parseBeginLex` done -/
def demoState (lines : List Nat) (k : Nat) : Lexer :=
  { src := demoSource.toArray, lines := (lines.map (fun i => { indents := 0, startIdx := i })).toArray,
    cursor := k, beginLex := false }

theorem demoState_good (lines : List Nat) (k : Nat)
    (h : lines ++ LinesInv.tail demoSource.toArray k = physicalLineStarts demoSource) :
    Good demoSource.toArray 0 (demoState lines k) := by
  refine ⟨rfl, rfl, ?_⟩
  show LinesInv.starts (demoState lines k) ++ _ = _
  have : LinesInv.starts (demoState lines k) = lines := by
    simp [LinesInv.starts, demoState, Function.comp_def]
  rw [this]; exact h

-- `comment_scanner_records_lines`: at position 0 (`注：“a␍␊b”`), one line recorded so far
example : Good demoSource.toArray 0 (demoState [0] 0) ∧ isBreak (demoState [0] 0).cur = false :=
  ⟨demoState_good _ _ (by decide), by decide⟩
-- `parse_line_records_lines`: on the LF at position 8 after the first comment, two lines recorded so far
example : Good demoSource.toArray 0 (demoState [0, 6] 8) ∧ isBreak (demoState [0, 6] 8).cur = true :=
  ⟨demoState_good _ _ (by decide), by decide⟩
-- `string_scanner_records_lines`: on the opening quote at position 13, three lines recorded so far
example : Good demoSource.toArray 0 (demoState [0, 6, 9] 13) ∧ isBreak (demoState [0, 6, 9] 13).cur = false ∧
    (demoState [0, 6, 9] 13).cur = cLeftDoubleQuoteII :=
  ⟨demoState_good _ _ (by decide), by decide, by decide⟩
-- `next_token_keeps_lines`: the fresh state of `demoSource`; `invariant_at_end`: the state after the last token
example : Fresh (mkLexer demoSource) := LinesInv.fresh_mkLexer _
example : Good demoSource.toArray 0 (demoState [0, 6, 9, 17, 29, 34, 35, 39] 39) ∧
    (demoState [0, 6, 9, 17, 29, 34, 35, 39] 39).src.size ≤ 39 :=
  ⟨demoState_good _ _ (by decide), by decide⟩

end ZnVerif.Properties.C18Lines
