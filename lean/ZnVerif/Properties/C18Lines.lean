/-
C18 (line table, lexer part) — `lines_table_partial`.  Full statement and what is proved:

  full : for every source that lexes to EOF without error, `Lines.map StartIdx` = the physical line starts.

Three scanners append to `Lines`: `parseLine` (between tokens), `parseString` and `parseComment` (inside a token).
Proved here, for all texts of the class: a source that is ONE multi-line text literal written verbatim
(`Spec.Literal.Verbatim`: any characters, any mixture of CR / LF / CRLF / LFCR, nested own quotes, other quote pairs;
no back-tick, no NUL) lexes to EOF without error and its line table starts are exactly the physical line starts —
i.e. the string scanner records one line per line break, starting right after it (`verbatim_run_lines`), and
`parseBeginLex` / `parseEOF` add the first line and complete the last one.  Not proved: the same for `parseLine`
(indentation) and `parseComment`, and the composition over arbitrary token sequences; those are covered by the
correspondence runs (`lex` prints and compares the whole Lines table on every case that reaches EOF).
The model mirrors the repaired lexer: before `fix-c13-backtick-at-eof-or-linebreak` a line break right after a
back-tick inside a string was consumed by the back-tick machine and missing from the table, and before
`fix-c18-note-comment-first-char` the line break after an empty `注：` was swallowed together with the next line.
-/
import ZnVerif.Proofs.LexLines

namespace ZnVerif.Properties.C18Lines
open ZnVerif ZnVerif.Model ZnVerif.Spec.Literal ZnVerif.Spec.Lines
open ZnVerif.Generated.Tokens

def lines_table_full : Prop :=
  ∀ (src : List Nat) (toks : List Token) (l : Lexer),
    lexAll (4 * src.length + 17) (mkLexer src) [] = (toks, some (.ok ()), l) →
    l.lines.toList.map (·.startIdx) = physicalLineStarts src

/-- the line table of a one-literal source -/
theorem lines_table_partial (q : Quote) (t : List Nat) (h : Verbatim q t) :
    (lexAll 3 (mkLexer (literalVerbatim q t)) []).2.1 = some (.ok ()) ∧
    (lexAll 3 (mkLexer (literalVerbatim q t)) []).2.2.lines.toList.map (·.startIdx) =
      physicalLineStarts (literalVerbatim q t) := by
  obtain ⟨hbal, hbt, h0⟩ := h
  have hd := (balanced_iff_depth q 0 t).mp hbal
  have hf := quote_facts q
  have hclnb : isBreak q.closer = false := by cases q <;> decide
  have hopnb : isBreak q.opener = false := by cases q <;> decide
  unfold literalVerbatim encodeVerbatim
  -- first token: the literal
  obtain ⟨l', hsrc, hcur, hrest, hlines, ⟨hbl, hit⟩, hrun⟩ := verbatim_run_lines q 0 q.type [q.closer]
    (by
      have := hf.2.1
      constructor <;> (intro e; simp at e; rw [e] at this; revert this; decide))
    t.length t rfl (startState (q.opener :: (t ++ [q.closer]))) [] 0 0 hbt h0 hd (by rw [startState_rest])
  have htok : nextToken (mkLexer (q.opener :: (t ++ [q.closer]))) =
      (.ok { type := q.type, literal := [] ++ t, startIdx := 0, endIdx := l'.cursor + 2 }, l'.adv.adv) := by
    rw [nextToken_literal, hrun, parseStringLoop_done (by rw [str_closer hrest]; rfl)]
  rw [lexAll_succ, htok]
  have hty : (q.type == cTypeEOF) = false := by cases q <;> decide
  simp only [hty, Bool.false_eq_true, ↓reduceIte]
  -- second token: EOF
  have hcur2 : l'.adv.adv.cursor = t.length + 2 := by simp [hcur, startState]
  have hsize : l'.adv.adv.src.size = t.length + 2 := by simp [hsrc, startState]
  have hcureof : l'.adv.adv.cur = 0 := Lexer.getChar_of_ge (by omega)
  have hbl2 : l'.adv.adv.beginLex = false := hbl
  have hsolid : Solid l'.adv.adv.cur := by rw [hcureof]; exact ⟨by decide, by decide, by decide⟩
  rw [lexAll_succ, nextToken_later _ hbl2 hsolid]
  have hd2 : dispatchToken l'.adv.adv = parseEOF l'.adv.adv := by
    unfold dispatchToken
    have hnot : ¬ (l'.cursor + 1 + 1 < l'.src.size) := by
      have h1 : l'.adv.adv.cursor = l'.cursor + 1 + 1 := rfl
      have h2 : l'.adv.adv.src.size = l'.src.size := rfl
      omega
    simp [hcureof, runeEOF, hnot]
  rw [hd2]
  -- the line table after the literal
  have hl2 : l'.adv.adv.lines = #[{ indents := 0, startIdx := 0 }] ++ ((lineStarts 1 t).map scannedLine).toArray := by
    simpa [startState] using hlines
  have hne : 0 < l'.adv.adv.lines.size := by rw [hl2]; simp
  -- the last recorded line starts inside the text
  have hlast : ∀ x ∈ l'.adv.adv.lines.toList, x.startIdx ≤ t.length + 1 ∧ x.indents = 0 := by
    intro x hx
    rw [hl2] at hx
    simp only [Array.toList_append, List.mem_append, List.mem_cons, List.not_mem_nil, or_false,
      List.mem_map] at hx
    rcases hx with rfl | ⟨y, hy, rfl⟩
    · simp
    · have := lineStarts_bound 1 t y hy
      simp [scannedLine]; omega
  have hstart : ∃ st, lastLineStart l'.adv.adv = some st ∧ st ≤ t.length + 1 := by
    unfold lastLineStart
    simp only [hne, ↓reduceDIte]
    have hmem : l'.adv.adv.lines[l'.adv.adv.lines.size - 1] ∈ l'.adv.adv.lines.toList := by simp
    have hit2 : l'.adv.adv.indentType = 0 := hit
    have := hlast _ hmem
    refine ⟨_, rfl, ?_⟩
    rw [hit2]
    have a1 : ((0 : Nat) == cIndentSpace) = false := by decide
    have a2 : ((0 : Nat) == cIndentTab) = false := by decide
    simp only [a1, a2, Bool.false_eq_true, ↓reduceIte]
    exact this.1
  obtain ⟨st, hst, hstle⟩ := hstart
  obtain ⟨l2, hpe, hl2eq⟩ := parseEOF_ok l'.adv.adv st hst (by rw [hcur2]; omega) (by rw [hcur2, hsize]; omega)
  rw [hpe]
  simp only [eofTok, beq_self_eq_true, ↓reduceIte]
  refine ⟨trivial, ?_⟩
  rw [hl2eq, hl2]
  simp only [physicalLineStarts, List.isEmpty_cons, Bool.false_eq_true, ↓reduceIte, Array.toList_append,
    List.map_append, List.map_cons, List.map_nil, List.map_map]
  have e1 : lineStarts 0 (q.opener :: (t ++ [q.closer])) = lineStarts 1 (t ++ [q.closer]) := by
    simpa using lineStarts_plain 0 q.opener (t ++ [q.closer]) hopnb
  rw [e1, lineStarts_snoc_plain 1 t q.closer hclnb]
  simp [scannedLine, Function.comp_def]

-- non-vacuity: “a⏎b⏎⏎”-style text with CRLF, LFCR, lone CR and LF
example : Verbatim .dblCurly [0x61, 0x0D, 0x0A, 0x62, 0x0A, 0x0D, 0x0D, 0x63, 0x0A] ∧
    physicalLineStarts (literalVerbatim .dblCurly [0x61, 0x0D, 0x0A, 0x62, 0x0A, 0x0D, 0x0D, 0x63, 0x0A]) =
      [0, 4, 7, 8, 10] := by
  refine ⟨⟨by decide, by decide, by decide⟩, by decide⟩

end ZnVerif.Properties.C18Lines
