/-
C03 at character level, free layout: non-vacuity of `parse_render_doc_plain` / `Run` for a TOKEN THAT SPANS LINES — a text literal
written verbatim with a line break inside.
-/
import ZnVerif.Properties.C03Layouts

namespace ZnVerif.Properties.C03.LiteralExample
open ZnVerif.Model ZnVerif.Model.Parser ZnVerif.Generated.Tokens ZnVerif.Generated.ParserTables
open ZnVerif.Spec.StmtSyntax ZnVerif.Spec.RenderChars ZnVerif.Proofs.StmtRT

/-- a text literal that spans lines, written verbatim: ONE token from line 0 to line 1 -/
def mlText : String := "令甲 = “一\n二”\n甲"

def mlEls : List El := [
  .tok (.kw [0x4EE4] 40), .tok (.name [0x7532]), .ws 0x20, .tok (.op [0x3D] cTypeAssignMark), .ws 0x20,
  .lit .dblCurly [0x4E00, 0x0A, 0x4E8C], .br .lf 0, .tok (.name [0x7532])]

theorem mlText_rendered : renderDoc .tab 0 mlEls = mlText.toList.map Char.toNat := by decide

set_option maxRecDepth 100000 in
theorem mlEls_wf : DocWF .tab 0 mlEls := by decide +kernel

abbrev mlY : Layout := docLayout .tab 0 mlEls

/-- three lines; the line the literal starts on never gets its `LineText` (the string scanner does not set it) -/
example : mlY.lines = #[{ indents := 0, startIdx := 0 }, closedLineI .tab 8 0 10, closedLineI .tab 11 0 12] ∧ mlY.eofIdx = 12 := by
  decide

private def tk (ty : Nat) (a b : Nat) (lit : List Nat := []) : Token := { type := ty, literal := lit, startIdx := a, endIdx := b }
private def a1 := tk cTypeDeclareW 0 1
private def a2 := tk cTypeIdentifier 1 2 [0x7532]
private def a3 := tk cTypeAssignMark 3 4
private def a4 := tk cTypeString 5 10 [0x4E00, 0x0A, 0x4E8C]
private def e1 := tk cTypeIdentifier 11 12 [0x7532]

theorem mlTokens_eq : docTokens .tab 0 mlEls = [a1, a2, a3, a4, e1] := by decide

/-- the literal starts on line 0 and ends on line 1 -/
example : mlY.sl a4 = 0 ∧ mlY.el a4 = 1 ∧ mlY.sl e1 = 2 := by decide

def mlProgram : Program :=
  { imports := [],
    exec := some (.mk [] (some
      [.varDecl (mlY.sl a1) [(vdTypeOf a3, [mlY.idOf a2], .str (mlY.sl a4) (runesToString a4.literal))],
       .expr (.id (mlY.idOf e1))]) []) }

private theorem lin_str (t : Token) (h : t.type = cTypeString) : LinE mlY 1 (.str (mlY.sl t) (runesToString t.literal)) [t] :=
  .up 1 _ _ (by decide) (.up 2 _ _ (by decide) (.up 3 _ _ (by decide) (.up 4 _ _ (by decide) (.up 5 _ _ (by decide)
    (.up 6 _ _ (by decide) (.str t h))))))

theorem mlProgram_rendered : LinProgram mlY mlProgram (docTokens .tab 0 mlEls) := by
  rw [mlTokens_eq]
  have hdecl : LinN mlY 0 (.stmt (.varDecl (mlY.sl a1) [(vdTypeOf a3, [mlY.idOf a2], .str (mlY.sl a4) (runesToString a4.literal))]))
      [a1, a2, a3, a4] :=
    .simple 0 _ _ (.declStmt a1 a3 _ [a2] _ [a4] rfl (.one a2 rfl) (by decide) (lin_str a4 rfl) (by decide))
  have hexpr : LinN mlY 0 (.stmt (.expr (.id (mlY.idOf e1)))) [e1] :=
    .simple 0 _ _ (.exprStmt _ _ (linE_id1 e1 rfl) (by decide) (by decide))
  have hbody : LinN mlY 0 (.block _) ([a1, a2, a3, a4] ++ ([e1] ++ [])) :=
    .blockCons 0 _ _ _ _ hdecl (by decide) (.blockCons 0 _ _ _ _ hexpr (by decide) (.blockNil 0) (Or.inl rfl)) (Or.inr (by decide))
  exact .body 0 _ _ (.execPlain 0 _ _ [] [] hbody (.handNil 0) (Or.inl rfl) (by simp))

/-- `parse_render_doc_plain` applies to the text with the multi-line literal -/
example : parseSource Variant.fixed 200 (mlText.toList.map Char.toNat) = .tree mlProgram := by
  rw [← mlText_rendered]
  exact parse_render_doc_plain _ .tab 0 mlEls mlEls_wf (by rw [mlTokens_eq]; decide)
    mlProgram_rendered 200 (by decide)

set_option maxRecDepth 100000 in
/-- by evaluation: the declaration on line 0 holds the string (line 0, value with the line break), the expression is on line 2 -/
example : (match parseSource Variant.fixed 200 (mlText.toList.map Char.toNat) with
    | .tree ⟨[], some (.mk [] (some [.varDecl 0 [(1, [⟨0, _⟩], .str 0 "一\n二")], .expr (.id ⟨2, _⟩)]) [])⟩ => true
    | _ => false) = true := by decide +kernel

end ZnVerif.Properties.C03.LiteralExample

namespace ZnVerif.Properties.C03.MultiCommentExample
open ZnVerif.Model ZnVerif.Model.Parser ZnVerif.Generated.Tokens ZnVerif.Generated.ParserTables
open ZnVerif.Spec.StmtSyntax ZnVerif.Spec.RenderChars ZnVerif.Proofs.StmtRT
open ZnVerif.Proofs.CmtSim (clean)

/-- comments that span lines: `/* … */` over two lines, `注1：“…”` over two lines (CR LF inside) -/
def mcText : String := "甲 /*a\nb*/\n注1：“一\r\n二”\n乙"

def mcEls : List El := [
  .tok (.name [0x7532]), .ws 0x20, .mcmt (.block [0x61, 0x0A, 0x62]), .br .lf 0,
  .mcmt (.quoted true [0x31] [0x4E00, 0x0D, 0x0A, 0x4E8C]), .br .lf 0, .tok (.name [0x4E59])]

theorem mcText_rendered : renderDoc .tab 0 mcEls = mcText.toList.map Char.toNat := by decide

set_option maxRecDepth 100000 in
theorem mcEls_wf : DocWF .tab 0 mcEls := by decide +kernel

abbrev mcY : Layout := docLayout .tab 0 mcEls

/-- five lines; the lines left from inside a comment get no `LineText` -/
example : mcY.lines.size = 5 ∧ mcY.eofIdx = 21 := by decide

private def e1 : Token := { type := cTypeIdentifier, literal := [0x7532], startIdx := 0, endIdx := 1 }
private def e2 : Token := { type := cTypeIdentifier, literal := [0x4E59], startIdx := 20, endIdx := 21 }

theorem mcTokens_eq : clean (docTokens .tab 0 mcEls) = [e1, e2] := by decide

example : mcY.sl e1 = 0 ∧ mcY.sl e2 = 4 := by decide

def mcProgram : Program :=
  { imports := [], exec := some (.mk [] (some [.expr (.id (mcY.idOf e1)), .expr (.id (mcY.idOf e2))]) []) }

theorem mcProgram_rendered : LinProgram mcY mcProgram (clean (docTokens .tab 0 mcEls)) := by
  rw [mcTokens_eq]
  have h1 : LinN mcY 0 (.stmt (.expr (.id (mcY.idOf e1)))) [e1] :=
    .simple 0 _ _ (.exprStmt _ _ (linE_id1 e1 rfl) (by decide) (by decide))
  have h2 : LinN mcY 0 (.stmt (.expr (.id (mcY.idOf e2)))) [e2] :=
    .simple 0 _ _ (.exprStmt _ _ (linE_id1 e2 rfl) (by decide) (by decide))
  have hbody : LinN mcY 0 (.block _) ([e1] ++ ([e2] ++ [])) :=
    .blockCons 0 _ _ _ _ h1 (by decide) (.blockCons 0 _ _ _ _ h2 (by decide) (.blockNil 0) (Or.inl rfl)) (Or.inr (by decide))
  exact .body 0 _ _ (.execPlain 0 _ _ [] [] hbody (.handNil 0) (Or.inl rfl) (by simp))

example : parseSource Variant.fixed 200 (mcText.toList.map Char.toNat) = .tree mcProgram := by
  rw [← mcText_rendered]
  exact parse_render_doc _ .tab 0 mcEls mcEls_wf mcProgram_rendered 200 (by rw [mcTokens_eq]; decide)

set_option maxRecDepth 100000 in
example : (match parseSource Variant.fixed 200 (mcText.toList.map Char.toNat) with
    | .tree ⟨[], some (.mk [] (some [.expr (.id ⟨0, _⟩), .expr (.id ⟨4, _⟩)]) [])⟩ => true
    | _ => false) = true := by decide +kernel

end ZnVerif.Properties.C03.MultiCommentExample
