/-
C04 — Unspaced text is tokenised exactly as documented (keywords, names, numbers).
Property theorems only; helper lemmas live in ZnVerif/Proofs.
-/
import ZnVerif.Proofs.BinSearch
import ZnVerif.Proofs.NumberForm
import ZnVerif.Spec.Keywords
import ZnVerif.Generated.Tokens
import ZnVerif.Proofs.LexSegment

namespace ZnVerif.Properties.C04
open ZnVerif ZnVerif.Model ZnVerif.Spec ZnVerif.Generated

/-! ### Identifier alphabet: membership is the same for every code point however it is looked up -/

set_option maxRecDepth 100000 in
/-- table fact, re-checked against the regenerated table on every run -/
theorem idRange_sortedDisjoint : sortedDisjoint IdRange.idRange = true := by decide +kernel

set_option maxRecDepth 100000 in
theorem idRange_nonempty : 0 < IdRange.idRange.length := by decide +kernel

/-- generic: on every sorted, disjoint, non-empty table the binary-search loop of `IdInRange`
(with its `size+2` fuel — i.e. it terminates) returns exactly linear membership, for every code point. -/
theorem binsearch_eq_linear (tbl : Array (Nat × Nat)) (maxCp : Nat)
    (hsd : sortedDisjoint tbl.toList = true) (hne : 0 < tbl.size) (c : Nat) :
    idInRangeTbl tbl maxCp c = .ok (decide (c ≤ maxCp) && linearMember tbl.toList c) :=
  Proofs.idInRangeTbl_eq_linear tbl maxCp c hsd hne

/-- the property for the table in /repo: for every code point (all of `Nat`, hence all 0x110000) the
lookup neither panics nor runs out of fuel and equals membership in the listed ranges. -/
theorem idInRange_is_membership (c : Nat) :
    idInRange c = .ok (decide (c ≤ IdRange.idMax) && linearMember IdRange.idRange c) := by
  have h := binsearch_eq_linear idRangeArr IdRange.idMax
    (by simpa [idRangeArr] using idRange_sortedDisjoint)
    (by simpa [idRangeArr] using idRange_nonempty) c
  simpa [idInRange, idRangeArr] using h

-- non-vacuity: a concrete table meets the hypotheses, and a member / non-member are decided as expected
example : sortedDisjoint [(1, 3), (5, 5), (9, 20)] = true ∧ 0 < #[(1, 3), (5, 5), (9, 20)].size := by decide
set_option maxRecDepth 100000 in
example : idInRange 0x4E2D = .ok true ∧ idInRange 0x3002 = .ok false := by
  constructor <;> rw [idInRange_is_membership] <;> decide +kernel


/-! ### Numbers: `tryParseNumber` recognises exactly the documented form, for every string -/

/-- table facts tying the regenerated Go switch to the 9-class step function used in the proofs
(re-checked on every run; a semantic change of the switch breaks `numberDFA_is_specStep`) -/
theorem numberDFA_chars_ascii : ∀ t ∈ NumberDFA.transitions, ∀ c ∈ t.1, c < 128 :=
  Proofs.NumberForm.table_chars_ascii
theorem numberDFA_states_small :
    ∀ t ∈ NumberDFA.transitions, ∀ tr ∈ t.2, (∀ q ∈ tr.1, q < 14) ∧ tr.2 < 14 :=
  Proofs.NumberForm.table_states_small
theorem numberDFA_is_specStep (q c : Nat) :
    dfaStep q c = Proofs.NumberForm.specStep q (Proofs.NumberForm.classOf c) :=
  Proofs.NumberForm.dfaStep_eq q c

/-- the hand-written DFA answers "number" exactly on the documented numeric form — all strings, any length -/
theorem number_form (s : List Nat) : tryParseNumber s = .number ↔ NumForm s :=
  Proofs.NumberForm.number_form s

/-- "an identifier that starts like a number but is not one is rejected, never treated as a name" -/
theorem starts_like_number_rejected (s : List Nat) (h1 : StartsLikeNumber s) (h2 : ¬ NumForm s) :
    tryParseNumber s = .error :=
  Proofs.NumberForm.starts_like_number_rejected s h1 h2

/-- everything else is a name -/
theorem otherwise_name (s : List Nat) (h : ¬ StartsLikeNumber s) : tryParseNumber s = .name :=
  Proofs.NumberForm.otherwise_name s h

/-- the executable spec oracle used by the driver decides the Prop-level spec … -/
theorem numFormB_iff (s : List Nat) : numFormB s = true ↔ NumForm s :=
  Proofs.NumberForm.numFormB_iff s
theorem startsLikeNumberB_iff (s : List Nat) : startsLikeNumberB s = true ↔ StartsLikeNumber s :=
  Proofs.NumberForm.startsLikeNumberB_iff s

/-- … and agrees with the model on every string -/
theorem classify_eq_model (s : List Nat) :
    classify s = (match tryParseNumber s with
      | .name => IdKind.name | .number => IdKind.number | .error => IdKind.error) :=
  Proofs.NumberForm.classify_eq_model s

/-- the text handed to `strconv.ParseFloat` after the two `strings.Replace` calls is sign, integer digits,
fraction unchanged, and the exponent in `e` notation with the same sign and digits -/
theorem number_text_for_ParseFloat (sg i f e : List Nat) (hs : SignOpt sg) (hi : Digits1 i)
    (hf : Frac f) (he : Exp e) :
    ∃ e', ExpText e e' ∧ parseFloatText (sg ++ i ++ f ++ e) = sg ++ i ++ f ++ e' :=
  Proofs.NumberForm.number_text_for_ParseFloat sg i f e hs hi hf he

-- non-vacuity. "-12.8*10^15" is a number on both sides; "2.3.5" starts like a number, is not one, is rejected;
-- "+" , "+x", ".5", "e5", "IR80" do not start like a number and are names; "1e5" (E-notation needs a sign) is rejected.
example : tryParseNumber [0x2D, 0x31, 0x32, 0x2E, 0x38, 0x2A, 0x31, 0x30, 0x5E, 0x31, 0x35] = .number := by decide
example : NumForm [0x2D, 0x31, 0x32, 0x2E, 0x38, 0x2A, 0x31, 0x30, 0x5E, 0x31, 0x35] :=
  ⟨[0x2D], [0x31, 0x32], [0x2E, 0x38], [0x2A, 0x31, 0x30, 0x5E, 0x31, 0x35], by decide,
    Or.inr ⟨_, rfl, by decide⟩, ⟨by decide, by decide⟩, Or.inr ⟨_, rfl, by decide, by decide⟩,
    Or.inr (Or.inr (Or.inl ⟨[], [0x31, 0x35], by decide, Or.inl rfl, by decide, by decide⟩))⟩
example : StartsLikeNumber [0x32, 0x2E, 0x33, 0x2E, 0x35] ∧ ¬ NumForm [0x32, 0x2E, 0x33, 0x2E, 0x35] :=
  ⟨⟨[], 0x32, _, rfl, Or.inl rfl, by decide⟩, fun h => absurd ((numFormB_iff _).mpr h) (by decide)⟩
example : tryParseNumber [0x32, 0x2E, 0x33, 0x2E, 0x35] = .error := by decide
example : tryParseNumber [0x31, 0x65, 0x35] = .error ∧ tryParseNumber [0x31, 0x65, 0x2B, 0x35] = .number := by decide
example : ¬ StartsLikeNumber [0x49, 0x52, 0x38, 0x30] :=
  fun h => absurd ((startsLikeNumberB_iff _).mpr h) (by decide)
example : ¬ StartsLikeNumber [0x2B] ∧ ¬ StartsLikeNumber [0x2B, 0x78] ∧ ¬ StartsLikeNumber [0x2E, 0x35]
    ∧ ¬ StartsLikeNumber [0x65, 0x35] :=
  ⟨fun h => absurd ((startsLikeNumberB_iff _).mpr h) (by decide),
   fun h => absurd ((startsLikeNumberB_iff _).mpr h) (by decide),
   fun h => absurd ((startsLikeNumberB_iff _).mpr h) (by decide),
   fun h => absurd ((startsLikeNumberB_iff _).mpr h) (by decide)⟩
example : tryParseNumber [0x2B] = .name ∧ tryParseNumber [0x2B, 0x78] = .name ∧
    tryParseNumber [0x2E, 0x35] = .name ∧ tryParseNumber [0x65, 0x35] = .name := by decide
-- "-12.8*10^15" ↦ "-12.8e15", "7*^-3" ↦ "7e-3", "1E+2" unchanged
example : SignOpt [0x2D] ∧ Digits1 [0x31, 0x32] ∧ Frac [0x2E, 0x38] ∧ Exp [0x2A, 0x31, 0x30, 0x5E, 0x31, 0x35] :=
  ⟨Or.inr ⟨_, rfl, by decide⟩, ⟨by decide, by decide⟩, Or.inr ⟨_, rfl, by decide, by decide⟩,
   Or.inr (Or.inr (Or.inl ⟨[], [0x31, 0x35], by decide, Or.inl rfl, by decide, by decide⟩))⟩
example : parseFloatText [0x2D, 0x31, 0x32, 0x2E, 0x38, 0x2A, 0x31, 0x30, 0x5E, 0x31, 0x35]
    = [0x2D, 0x31, 0x32, 0x2E, 0x38, 0x65, 0x31, 0x35] ∧
    parseFloatText [0x37, 0x2A, 0x5E, 0x2D, 0x33] = [0x37, 0x65, 0x2D, 0x33] ∧
    parseFloatText [0x31, 0x45, 0x2B, 0x32] = [0x31, 0x45, 0x2B, 0x32] := by decide

/-! ### Keyword table (pkg/syntax/zh/keyword.go, regenerated as `Tokens.keywordTable`) -/

/-- no first glyph is listed twice: the outer `switch ch` has one case per glyph -/
theorem keyword_first_glyphs_distinct : (Tokens.keywordTable.map (·.1)).Nodup := by decide

/-- within one glyph's ordered alternatives, no alternative's lookahead is a prefix of another one's
(in either order; in particular no alternative is listed twice) -/
theorem keyword_alternatives_exclusive :
    ∀ e ∈ Tokens.keywordTable, ∀ a ∈ e.2, ∀ b ∈ e.2, a.1 <+: b.1 → a = b := by decide

/-- hence at most one alternative matches the glyphs that follow … -/
theorem keyword_match_unique :
    ∀ e ∈ Tokens.keywordTable, ∀ (rest : List Nat), ∀ a ∈ e.2, ∀ b ∈ e.2,
      a.1 <+: rest → b.1 <+: rest → a = b := by
  intro e he rest a ha b hb h1 h2
  rcases List.prefix_or_prefix_of_prefix h1 h2 with h | h
  · exact keyword_alternatives_exclusive e he a ha b hb h
  · exact (keyword_alternatives_exclusive e he b hb a ha h).symm

/-- … and the order of the `if … else if …` chain does not matter: whichever alternative matches is the
one the chain (first match in table order) selects -/
theorem keyword_order_irrelevant :
    ∀ e ∈ Tokens.keywordTable, ∀ (rest : List Nat), ∀ a ∈ e.2, a.1 <+: rest →
      e.2.find? (fun x => x.1.isPrefixOf rest) = some a := by
  intro e he rest a ha h
  cases hf : e.2.find? (fun x => x.1.isPrefixOf rest) with
  | none =>
    have := List.find?_eq_none.mp hf a ha
    exact absurd (List.isPrefixOf_iff_prefix.mpr h) this
  | some x =>
    have hx := List.mem_of_find?_eq_some hf
    have hp : x.1 <+: rest := List.isPrefixOf_iff_prefix.mp (List.find?_some (p := fun (x : List Nat × Nat × Nat) => x.1.isPrefixOf rest) hf)
    rw [keyword_match_unique e he rest x hx a ha hp h]

/-- the recorded word length (how far the cursor moves) is the number of glyphs of the spelling -/
theorem keyword_wordlen_consistent :
    ∀ e ∈ Tokens.keywordTable, ∀ a ∈ e.2, a.2.1 = a.1.length + 1 := by decide

/-- the table denotes exactly the documented keyword list: the same 34 spellings with the same token types -/
theorem keyword_types_documented (x : List Nat × Nat) :
    x ∈ Keywords.denoted Tokens.keywordTable ↔ x ∈ Keywords.documented := by
  have h : ((Keywords.denoted Tokens.keywordTable).all (Keywords.documented.contains ·) &&
      Keywords.documented.all ((Keywords.denoted Tokens.keywordTable).contains ·)) = true := by decide
  simp only [Bool.and_eq_true, List.all_eq_true, List.contains_iff_mem] at h
  exact ⟨h.1 x, h.2 x⟩

/-- the documented list is a function of the spelling (34 distinct spellings) -/
theorem keyword_documented_functional :
    (Keywords.documented.map (·.1)).Nodup ∧ Keywords.documented.length = 34 := by decide

-- non-vacuity: 不大于 is in the table (glyph 不, lookahead 大于), matches "大于20", and is what the chain selects
example : (0x4E0D, [([0x4E3A], 2, 50), ([0x5927, 0x4E8E], 3, 52), ([0x7B49, 0x4E8E], 3, 51), ([0x5C0F, 0x4E8E], 3, 53)])
    ∈ Tokens.keywordTable ∧ ([0x5927, 0x4E8E], 3, 52) ∈
      [([0x4E3A], 2, 50), ([0x5927, 0x4E8E], 3, 52), ([0x7B49, 0x4E8E], 3, 51), ([0x5C0F, 0x4E8E], 3, 53)]
    ∧ [0x5927, 0x4E8E] <+: [0x5927, 0x4E8E, 0x32, 0x30] := by decide
example : ([0x4E0D, 0x5927, 0x4E8E], 52) ∈ Keywords.denoted Tokens.keywordTable := by decide

/-! ### The lexer on unspaced text (model: `Model/Lexer.lean`, the whole `NextToken`) -/


/-- the documented keyword list is prefix-free: no keyword is a prefix of another one -/
theorem documented_prefix_free :
    ∀ a ∈ Keywords.documented, ∀ b ∈ Keywords.documented, a.1 <+: b.1 → a = b := by decide

/-- the full statement of the property's first sentence: for EVERY text the tokens are the documented segmentation.
It cannot hold as such — white space, line breaks, operators, numbers' signs, punctuation, quotes, back-ticks,
`注` and invalid characters are tokenised by the other scanners (`operator_needs_delimiter`,
`backtick_is_one_identifier`, the C13 theorems, correspondence) — so the proved theorem restricts the alphabet. -/
def lex_is_greedy_segmentation_full : Prop :=
  ∀ s : List Nat, (lexAll (s.length + 2) (mkLexer s) []).1 =
    (Spec.Segment.segment Keywords.documented s).map tokOf ++ [eofTok s.length]

/-- **Unspaced text is cut greedily into keywords and names** — for every text (any length) over the keyword glyphs
and the plain name characters (`SegChar`: every identifier character — CJK, Latin, Greek, kana, hangul letters,
digits, `_ $ ^` … — except 注 and the operator marks `& @ # = < > + - * / | %`), the token stream of the lexer is
exactly the documented segmentation: at each position the unique documented keyword that matches there is cut out,
otherwise the character extends the current name; then EOF; no error.  (`_partial` in the alphabet only.) -/
theorem lex_is_greedy_segmentation_partial (s : List Nat) (hs : ∀ c ∈ s, SegChar c) :
    (lexAll (s.length + 2) (mkLexer s) []).1 = (Spec.Segment.segment Keywords.documented s).map tokOf ++ [eofTok s.length] ∧
    (lexAll (s.length + 2) (mkLexer s) []).2.1 = some (.ok ()) := by
  have hk : ∀ t, Spec.Segment.kwAt D t = Spec.Segment.kwAt Keywords.documented t :=
    kwAt_congr D Keywords.documented keyword_types_documented documented_prefix_free
  unfold Spec.Segment.segment
  rw [← segAux_congr D Keywords.documented hk]
  cases s with
  | nil =>
    have := lexAll_empty 1
    simpa [segAux_nil, Spec.Segment.flush] using this
  | cons c r =>
    rw [lexAll_first c r (hs c List.mem_cons_self)]
    have := lexAll_seg (c :: r) hs (c :: r).length 0 [] ((c :: r).length + 2) rfl (Nat.zero_le _) (by omega)
    simpa using this

-- non-vacuity: 如果何为不等于x大 is over the alphabet; its documented segmentation is 如果 | 何为 | 不等于 | x大
set_option maxRecDepth 100000 in
example : ∀ c ∈ [0x5982, 0x679C, 0x4F55, 0x4E3A, 0x4E0D, 0x7B49, 0x4E8E, 0x78, 0x5927], SegChar c := by decide +kernel
example : Spec.Segment.segment Keywords.documented [0x5982, 0x679C, 0x4F55, 0x4E3A, 0x4E0D, 0x7B49, 0x4E8E, 0x78, 0x5927] =
    [.kw 44 0 2, .kw 46 2 4, .kw 51 4 7, .name 7 9 [0x78, 0x5927]] := by decide
-- … and the restriction is needed: `+` is an identifier character but an operator mark, so not in the alphabet
set_option maxRecDepth 100000 in
example : ¬ SegChar 0x2B ∧ ¬ SegChar 0x6CE8 ∧ ¬ SegChar 0x20 := by decide +kernel

/-- **Between back-ticks no keyword is extracted**: a back-tick, any run of identifier characters (keyword glyphs
included, also `. * / %`), a back-tick — at the start of a text and followed by anything — is ONE identifier token
whose name is exactly the run. -/
theorem backtick_is_one_identifier (w r : List Nat)
    (hw : ∀ c ∈ w, isIdentifierChar c = true ∨ c ∈ IdRange.idContinue) :
    (nextToken (mkLexer (Tokens.cBackTick :: (w ++ Tokens.cBackTick :: r)))).1 =
      .ok { type := Tokens.cTypeIdentifier, literal := w, startIdx := 0, endIdx := w.length + 2 } := by
  rw [nextToken_first _ _ (by decide) ⟨by decide, by decide, by decide⟩]
  unfold dispatchToken
  rw [startState_cur]
  have a1 : (Tokens.cBackTick == runeEOF) = false := by decide
  have a2 : (Tokens.cBackTick == Tokens.cCharZHU || Tokens.cBackTick == Tokens.cSlashOp) = false := by decide
  have a3 : leftQuotes.contains Tokens.cBackTick = false := by decide
  simp only [a1, a2, a3, Bool.false_eq_true, ↓reduceIte, beq_self_eq_true]
  unfold parseVarQuote
  rw [varQuote_run _ w r hw _ [] (startState_rest _ _)]
  simp [startState]

-- non-vacuity: `如果` between back-ticks (both glyphs are identifier characters) is a name, not the keyword
set_option maxRecDepth 100000 in
example : ∀ c ∈ [0x5982, 0x679C], isIdentifierChar c = true ∨ c ∈ IdRange.idContinue := by decide +kernel

/-- **`+ - * /` is an operator token exactly when a delimiter follows** (white space, punctuation or a quote
character): then it is the one-character token of its type; `/=` is always the two-character not-equal mark;
otherwise `parseOperators` declines and the character starts (or is) a name or number.  `//` and `/*` never reach
this point: at a token start they are comments. -/
theorem operator_needs_delimiter (l : Lexer) (hc : l.cur ∈ arithOps) :
    (l.cur = Tokens.cSlashOp ∧ l.peek = Tokens.cEqualOp →
      parseOperators l = (.ok (some { type := Tokens.cTypeNEMark, startIdx := l.cursor, endIdx := l.cursor + 2 }), l.adv.adv)) ∧
    (¬ (l.cur = Tokens.cSlashOp ∧ l.peek = Tokens.cEqualOp) →
      ((∃ tk, (parseOperators l).1 = .ok (some tk)) ↔ isDelimiter l.peek = true) ∧
      (isDelimiter l.peek = true → parseOperators l =
        (.ok (some { type := arithTokenType l.cur, startIdx := l.cursor, endIdx := l.cursor + 1 }), l.adv)) ∧
      (isDelimiter l.peek = false → parseOperators l = (.ok none, l))) ∧
    (l.cur = Tokens.cSlashOp → (l.peek = Tokens.cSlashOp ∨ l.peek = Tokens.cMultiplyOp) →
      ∃ tk, (dispatchToken l).1 = .ok tk ∧ tk.type = Tokens.cTypeComment ∧ tk.startIdx = l.cursor) := by
  refine ⟨?_, ?_, fun h1 h2 => dispatch_slash_comment l h1 h2⟩
  · rintro ⟨h1, h2⟩
    rw [parseOperators_arith l hc]
    simp [h1, h2]
  · intro hne
    have hcond : (l.cur == Tokens.cSlashOp && l.peek == Tokens.cEqualOp) = false := by
      rw [Bool.eq_false_iff]; intro h; apply hne; simpa using h
    rw [parseOperators_arith l hc]
    simp only [hcond, Bool.false_eq_true, ↓reduceIte]
    cases hd : isDelimiter l.peek <;> simp

-- non-vacuity: `+` before a space is the operator; `+` before `1` is not (it will be the sign of a number)
example : (0x2B : Nat) ∈ arithOps ∧ isDelimiter 0x20 = true ∧ isDelimiter 0x31 = false ∧
    isDelimiter 0xFF08 = true ∧ isDelimiter 0x201C = true := by decide

end ZnVerif.Properties.C04
