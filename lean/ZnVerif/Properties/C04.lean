/-
C04 — Unspaced text is tokenised exactly as documented (keywords, names, numbers).
Property theorems only; helper lemmas live in ZnVerif/Proofs.
-/
import ZnVerif.Proofs.BinSearch

namespace ZnVerif.Properties.C04
open ZnVerif ZnVerif.Model ZnVerif.Spec ZnVerif.Generated

/-! ### Identifier alphabet: membership is the same for every code point however it is looked up -/

set_option maxRecDepth 100000 in
/-- table fact, re-checked against the regenerated table on every run -/
theorem idRange_sortedDisjoint : sortedDisjoint IdRange.idRange = true := by decide +kernel

set_option maxRecDepth 100000 in
theorem idRange_nonempty : 0 < IdRange.idRange.length := by decide +kernel

/-- generic: on every sorted, disjoint, non-empty table the binary-search loop of `IdInRange`
(with its `size+2` fuel — i.e. it terminates) returns exactly linear membership, for every code point. -/
theorem binsearch_eq_linear (tbl : Array (Nat × Nat)) (maxCp : Nat)
    (hsd : sortedDisjoint tbl.toList = true) (hne : 0 < tbl.size) (c : Nat) :
    idInRangeTbl tbl maxCp c = .ok (decide (c ≤ maxCp) && linearMember tbl.toList c) :=
  Proofs.idInRangeTbl_eq_linear tbl maxCp c hsd hne

/-- the property for the table in /repo: for every code point (all of `Nat`, hence all 0x110000) the
lookup neither panics nor runs out of fuel and equals membership in the listed ranges. -/
theorem idInRange_is_membership (c : Nat) :
    idInRange c = .ok (decide (c ≤ IdRange.idMax) && linearMember IdRange.idRange c) := by
  have h := binsearch_eq_linear idRangeArr IdRange.idMax
    (by simpa [idRangeArr] using idRange_sortedDisjoint)
    (by simpa [idRangeArr] using idRange_nonempty) c
  simpa [idInRange, idRangeArr] using h

-- non-vacuity: a concrete table meets the hypotheses, and a member / non-member are decided as expected
example : sortedDisjoint [(1, 3), (5, 5), (9, 20)] = true ∧ 0 < #[(1, 3), (5, 5), (9, 20)].size := by decide
set_option maxRecDepth 100000 in
example : idInRange 0x4E2D = .ok true ∧ idInRange 0x3002 = .ok false := by
  constructor <;> rw [idInRange_is_membership] <;> decide +kernel

end ZnVerif.Properties.C04
