/-
C15 on the evaluator model (`Model/Interp.lean`: `evalImport`, `execAnotherModule`, `loadModule`, `evalProgram`,
`runProgramWith` — eval.go `evalImportStmt` / `execAnotherModule` / `evalProgram` as written, with the VM of the
evaluator: heap, scopes per module, call stack, module table, dependency graph).

Every theorem quantifies over all file tables, library tables, programs, fuels and — except the whole-run
statements — machine states.  Helper lemmas: `Proofs/LoaderPres.lean` (every relation the evaluator keeps is kept by
the loader), `Proofs/LoaderInv.lean` (`ModKept`: the module table only grows, names are kept and stay distinct).
-/
import ZnVerif.Proofs.LoaderInv
import ZnVerif.Proofs.ModulesDfs
import ZnVerif.Proofs.Toy
set_option linter.unusedSectionVars false
set_option linter.unusedSimpArgs false
set_option linter.unusedVariables false

namespace ZnVerif.Properties.C15Interp
open ZnVerif.Model ZnVerif.Proofs.Balance ZnVerif.Proofs.Calls

variable {ν : Type} [NumOps ν]

/-- the machine after `vm.SetCurrentLine(node.GetCurrentLine())` of an import statement -/
def atImport (im : Import) (s : VM ν) : VM ν :=
  (setTopFrame (fun fr => { fr with line := im.line, started := true }) s).2

theorem atImport_modules (im : Import) (s : VM ν) : (atImport im s).modules = s.modules := by
  unfold atImport setTopFrame modifyVM; simp only; split <;> rfl
theorem atImport_out (im : Import) (s : VM ν) : (atImport im s).out = s.out := by
  unfold atImport setTopFrame modifyVM; simp only; split <;> rfl
theorem atImport_find (im : Import) (name : String) (s : VM ν) :
    findModuleByName name (atImport im s) = findModuleByName name s := by
  unfold findModuleByName; rw [atImport_modules]

theorem evalImport_start (libs : LibTable) (load : String → M ν Nat) (im : Import) (s : VM ν) :
    evalImport libs load im s =
      (match im.name with
        | none => goPanic
        | some name =>
          if isStdName name then do
            let ext ← importStd libs name
            bindImports ext im.items
          else do
            let s ← getVM
            let ext ← match findModuleByName name s with
              | none => load name
              | some i => do
                addModuleDependency i
                pure i
            checkDependency name
            bindImports ext im.items : M ν Unit) (atImport im s) := by
  unfold evalImport
  exact bind_ok (a := ()) rfl

theorem allocateModule_ok (name : String) (hp : Bool) (s : VM ν) :
    ∃ i, allocateModule name hp s = (.ok i, (allocateModule name hp s).2) := by
  unfold allocateModule
  split
  · exact ⟨_, rfl⟩
  · exact ⟨_, rfl⟩

/-! ## a missing module is error 60, a missing library error 64 -/

/-- 导入“name” where `name` is not a valid module path, or no file stands at its path, and no module of that name has been
allocated: error 60, raised at the line of the statement; nothing is allocated, nothing runs, nothing is displayed. -/
theorem interp_missing_module_60 (files : FileTable) (libs : LibTable) (fuel k : Nat) (im : Import) (name : String)
    (s : VM ν) (hn : im.name = some name) (hstd : isStdName name = false) (hfresh : findModuleByName name s = none)
    (hfile : ∀ path, modulePath name = some path → lookup path files = none) :
    evalImport libs (loadModule files libs fuel (k+1)) im s = (.err (.rt 60), atImport im s) := by
  rw [evalImport_start]
  simp only [hn, hstd, Bool.false_eq_true, if_false]
  rw [bind_ok (show getVM (atImport im s) = (.ok (atImport im s), atImport im s) from rfl)]
  simp only [atImport_find, hfresh]
  have hload : loadModule files libs fuel (k+1) name (atImport im s) = (.err (.rt 60), atImport im s) := by
    rw [loadModule]
    unfold execAnotherModule
    cases hp : modulePath name with
    | none => rfl
    | some path => simp only [hfile path hp]; rfl
  exact bind_err hload

/-- 导入《@L》 for a library that is not registered: error 64 at the line of the statement.  (The module entry of the
library has been allocated by then, as in the Go code: `AllocateModule` comes before `FindLibrary`.)  No frame is pushed,
nothing is displayed. -/
theorem interp_missing_library_64 (libs : LibTable) (load : String → M ν Nat) (im : Import) (name : String) (s : VM ν)
    (hn : im.name = some name) (hstd : isStdName name = true) (hlib : lookup name libs = none) :
    evalImport libs load im s = (.err (.rt 64), (allocateModule name false (atImport im s)).2) ∧
    (allocateModule name false (atImport im s)).2.out = s.out ∧
    (allocateModule name false (atImport im s)).2.stack = (atImport im s).stack := by
  refine ⟨?_, ?_, ?_⟩
  · rw [evalImport_start]
    simp only [hn, hstd, if_true]
    have h1 : importStd libs name (atImport im s) = (.err (.rt 64), (allocateModule name false (atImport im s)).2) := by
      unfold importStd
      obtain ⟨i, hi⟩ := allocateModule_ok name false (atImport im s)
      rw [bind_ok hi]
      simp only [hlib]
      rfl
    exact bind_err h1
  · unfold allocateModule; split <;> simp [atImport_out]
  · unfold allocateModule; split <;> rfl

/-! ## imports come before the importer's own statements -/

/-- `evalProgram` runs the import statements first, in order; if one of them does not succeed, none of the importer's own
statements runs: the machine is left exactly where the failing import left it, with that outcome. -/
theorem interp_imports_before_body (fuel : Nat) (imp : Import → M ν Unit) (p : Program) (inputs : List (String × Cell ν))
    (s : VM ν) :
    (∀ s1, p.imports.forM imp s = (.ok (), s1) →
      evalProgram fuel imp p inputs s = evalProgram fuel imp { p with imports := [] } inputs s1) ∧
    ((p.imports.forM imp s).1 ≠ .ok () →
      (evalProgram fuel imp p inputs s).2 = (p.imports.forM imp s).2 ∧
      ∀ a, (evalProgram fuel imp p inputs s).1 ≠ .ok a) := by
  constructor
  · intro s1 h
    unfold evalProgram
    rw [bind_ok h]
    show _ = ((([] : List Import).forM imp) >>= _) s1
    rw [bind_ok (show ([] : List Import).forM imp s1 = (.ok (), s1) from rfl)]
  · intro h
    unfold evalProgram
    rw [M_bind_def]
    rcases hr : p.imports.forM imp s with ⟨r, s1⟩
    rw [hr] at h
    cases r with
    | ok u => exact absurd rfl h
    | err e => exact ⟨rfl, fun a => by simp⟩
    | panic => exact ⟨rfl, fun a => by simp⟩
    | fuel => exact ⟨rfl, fun a => by simp⟩
    | unmodelled => exact ⟨rfl, fun a => by simp⟩

/-- the import statements of one program run in the order they are written -/
theorem interp_imports_in_order (imp : Import → M ν Unit) (im : Import) (rest : List Import) :
    (im :: rest).forM imp = (imp im >>= fun _ => rest.forM imp) := rfl

/-! ## a module is allocated once, and its body runs at most once -/

/-- every function of the evaluator keeps the module table's names (`ModKept`) … -/
theorem modKept_evaluator (n : Nat) : AllPres (ModKept (ν := ν)) n := allPres n

/-- … and so do an import statement and a whole program section (imports, then the exec block), modules they load included -/
theorem modKept_import (files : FileTable) (libs : LibTable) (fuel : Nat) (im : Import) :
    Pres (ModKept (ν := ν)) (importWith files libs fuel im) := Pres.importWith files libs fuel im

theorem modKept_evalProgram (files : FileTable) (libs : LibTable) (fuel : Nat) (p : Program) (inputs : List (String × Cell ν)) :
    Pres (ModKept (ν := ν)) (evalProgram fuel (importWith files libs fuel) p inputs) :=
  Pres.evalProgram fuel _ (Pres.importWith files libs fuel) p inputs

/-- An import of a module that has been allocated never reaches the loader: whatever `execAnotherModule` would do is
irrelevant (no file is looked up, no body runs) — only the dependency edge, the cycle check and the binding of names happen. -/
theorem interp_loaded_module_is_not_loaded_again (libs : LibTable) (load load' : String → M ν Nat) (im : Import)
    (name : String) (s : VM ν) (i : Nat) (hn : im.name = some name) (hstd : isStdName name = false)
    (hfound : findModuleByName name s = some i) :
    evalImport libs load im s = evalImport libs load' im s := by
  rw [evalImport_start, evalImport_start]
  simp only [hn, hstd, Bool.false_eq_true, if_false]
  rw [bind_ok (show getVM (atImport im s) = (.ok (atImport im s), atImport im s) from rfl),
    bind_ok (show getVM (atImport im s) = (.ok (atImport im s), atImport im s) from rfl)]
  simp only [atImport_find, hfound]

/-- the loader starts a module's body only after it has appended a NEW entry for that name to the module table:
`execAnotherModule` is reached from `evalImport` only when `FindModuleByName` failed, and then `AllocateModule` appends
(the file existing); from then on the name is found -/
theorem interp_load_allocates_fresh (name : String) (s : VM ν) (hfresh : findModuleByName name s = none) :
    allocateModule name true s = (.ok s.modules.size, (allocateModule name true s).2) ∧
    modNames (allocateModule name true s).2 = modNames s ++ [name] ∧
    findModuleByName name (allocateModule name true s).2 = some s.modules.size := by
  have h1 : allocateModule name true s = (.ok s.modules.size,
      { s with modules := s.modules.push { name := name, hasProgram := true },
               graph := if s.csModuleID ≥ 0 then s.graph ++ [(s.csModuleID, (s.modules.size : Int))] else s.graph,
               csModuleID := s.modules.size }) := by
    unfold allocateModule
    rw [hfresh]
  refine ⟨by rw [h1], by rw [h1]; simp [modNames], ?_⟩
  rw [h1]
  unfold findModuleByName at *
  simp only [Array.toList_push]
  rw [List.findIdx?_append, hfresh]
  simp

/-- **Each module body runs at most once per run.**  Once a module name has been allocated (its body has started), every
later import of that name — after ANY piece `m` of the run, in any module, however many modules import it — finds the module
and never reaches the loader again. -/
theorem interp_body_runs_at_most_once {α : Type} (m : M ν α) (hm : Pres (ModKept (ν := ν)) m) (libs : LibTable)
    (load load' : String → M ν Nat) (im : Import) (name : String) (s : VM ν) (i : Nat)
    (hn : im.name = some name) (hstd : isStdName name = false) (hfound : findModuleByName name s = some i) :
    findModuleByName name (m s).2 = some i ∧
    evalImport libs load im (m s).2 = evalImport libs load' im (m s).2 := by
  have hk := findModuleByName_kept (hm.run s) hfound
  exact ⟨hk, interp_loaded_module_is_not_loaded_again libs load load' im name _ i hn hstd hk⟩

/-- the machine in which `runProgramWith` starts: 主模块 allocated as module 0 -/
def mainAllocated (s : VM ν) : VM ν :=
  { s with modules := s.modules.push { name := "主模块", hasProgram := true }, csModuleID := 0 }

/-- `EvalMainModule` after the allocation: script frame, program, pop -/
def mainRun (files : FileTable) (libs : LibTable) (fuel : Nat) (p : Program) (inputs : List (String × Cell ν)) : M ν Addr := do
  pushFrame { moduleId := 0, callType := 1 }
  let r ← evalProgram fuel (importWith files libs fuel) p inputs
  popFrame
  pure r

theorem runProgramWith_eq (files : FileTable) (libs : LibTable) (fuel : Nat) (p : Program) (inputs : List (String × Cell ν))
    (s : VM ν) :
    runProgramWith files libs fuel p inputs s = mainRun files libs fuel p inputs (mainAllocated s) := by
  unfold runProgramWith mainRun
  exact bind_ok (a := ()) rfl

/-- In a whole run (from the initial machine) no module name is ever allocated twice: the module table of the final
machine — successful run or not — holds pairwise distinct names, the main module first. -/
theorem interp_module_allocated_once (files : FileTable) (libs : LibTable) (fuel : Nat) (p : Program)
    (inputs : List (String × Cell ν)) :
    (modNames (runProgramWith files libs fuel p inputs (initVM (ν := ν) ())).2).Nodup ∧
    ∃ extra, modNames (runProgramWith files libs fuel p inputs (initVM (ν := ν) ())).2 = "主模块" :: extra := by
  rw [runProgramWith_eq]
  have hp : Pres (ModKept (ν := ν)) (mainRun (ν := ν) files libs fuel p inputs) := by
    unfold mainRun
    have h2 : Pres (ModKept (ν := ν)) (pushFrame (ν := ν) { moduleId := 0, callType := 1 }) := ScopePrims0.pushFrame _
    have h3 := modKept_evalProgram (ν := ν) files libs fuel p inputs
    pres_tac
  obtain ⟨⟨extra, he⟩, hnd⟩ := hp.run (mainAllocated (initVM (ν := ν) ()))
  have h0 : modNames (mainAllocated (initVM (ν := ν) ())) = ["主模块"] := by
    simp [modNames, mainAllocated, initVM]
  rw [h0] at he hnd
  exact ⟨hnd (by simp), extra, by rw [he]; rfl⟩

/-! ## imported names are read-only -/

/-- the names an import statement binds: all exports of the module, or the listed names the module exports -/
def boundNames (m : Module) (items : List Ident) : List String :=
  if items.isEmpty then m.exports.map (·.1)
  else (items.map (·.lit)).filter fun n => (lookup n m.exports).isSome

/-- FULL statement: after a successful `bindImports` (the last step of `evalImportStmt`) assigning ANY of the names it bound
is error 44 and leaves the machine as it is. -/
def interp_exports_are_const_full : Prop :=
  ∀ (ν : Type) [NumOps ν] (ext : Nat) (items : List Ident) (s s' : VM ν) (m : Module),
    s.modules[ext]? = some m → bindImports ext items s = (.ok (), s') →
    ∀ name ∈ boundNames m items, ∀ w, setElement name w s' = (.err (.rt 44), s')

/-- PROVED part: every single name an import binds is declared by `DeclareExternalElement` = `declareElement … true (some home)`,
and right after such a declaration — and after any number of further constant declarations (the rest of the import list, later
import statements: `ConstBound.declare`) — an assignment to the name is error 44 and changes nothing (the value stays).
Missing for the full statement: the induction along `bindImports`' two loops (sorted export names / listed names). -/
theorem interp_exports_are_const_partial (name : String) (v w : Addr) (home : Nat) (s s' : VM ν)
    (h : declareElement name v true (some (home : Int)) s = (.ok (), s')) :
    setElement name w s' = (.err (.rt 44), s') ∧
    ∀ (name2 : String) (v2 : Addr) (home2 : Option Int) (s'' : VM ν),
      declareElement name2 v2 true home2 s' = (.ok (), s'') → setElement name w s'' = (.err (.rt 44), s'') := by
  have hb : ConstBound [name] s' := ConstBound.declare (names := []) (fun x hx => by cases hx) h
  refine ⟨hb.set_rejected name (by simp) w, ?_⟩
  intro name2 v2 home2 s'' h2
  exact (hb.declare h2).set_rejected name (by simp) w

/-! ## an import cycle through a module that is still loading -/

/-- FULL statement: a module whose own import list names the module itself is error 63 (the edge `m → m` closes a cycle in
the dependency graph the DFS runs over).  Stated, proved below on the concrete witness; the general proof needs the step-by-step
unfolding of `execAnotherModule` → `evalProgram` → `evalImport` and `ModulesDfs.checkCircular_complete` on the self-loop. -/
def interp_self_import_63_full : Prop :=
  ∀ (ν : Type) [NumOps ν] (files : FileTable) (libs : LibTable) (fuel k : Nat) (name path : String) (prog : Program)
    (im : Import) (rest : List Import) (s : VM ν),
    isStdName name = false → findModuleByName name s = none → modulePath name = some path →
    lookup path files = some prog → prog.imports = im :: rest → im.name = some name →
    (loadModule files libs fuel (k+1) name s).1 = .err (.rt 63)

/-! ## non-vacuity: concrete runs -/

section examples

def imp (line : Nat) (name : String) (items : List Ident := []) : Import :=
  { line := line, libType := 2, name := some name, items := items }
def show_ (line : Nat) (t : String) : Stmt := .expr (.call line (some ⟨line, "显示"⟩) [.str line t] none)
def body (stmts : List Stmt) : Option ExecBlock := some (.mk [] (some stmts) [])

/-- 主 imports 甲 and 乙, both import 丙 (in a directory): diamond -/
def diamond : FileTable := [
  ("甲.zn", { imports := [imp 0 "目-丙"], exec := body [show_ 1 "甲"] }),
  ("乙.zn", { imports := [imp 0 "目-丙"], exec := body [show_ 1 "乙"] }),
  ("目/丙.zn", { imports := [], exec := body [.funcDecl 0 (some ⟨0, "丙法"⟩) 1 (body [show_ 1 "丙法"]), show_ 2 "丙"] })]
def selected : List Ident := [⟨2, "丙法"⟩]
def diamondMain : Program :=
  { imports := [imp 0 "甲", imp 1 "乙", imp 2 "目-丙" selected],
    exec := body [show_ 3 "主", .expr (.call 4 (some ⟨4, "丙法"⟩) [] none), .expr (.assign 5 (.id ⟨5, "丙法"⟩) (.str 5 "x"))] }

/-- 丙 runs once (before 甲's and 乙's own statements), the imported method runs in its home module, and assigning it is error 44
reported at line 6 of the main module -/
example : ((runProgramWith diamond [] 40 diamondMain [] (initVM (ν := Int) ())).2.out.reverse = ["丙", "甲", "乙", "主", "丙法"]) ∧
    (match (runProgramWith diamond [] 40 diamondMain [] (initVM (ν := Int) ())).1 with | .err (.rt 44) => true | _ => false) = true ∧
    modNames (runProgramWith diamond [] 40 diamondMain [] (initVM (ν := Int) ())).2 = ["主模块", "甲", "目-丙", "乙"] := by
  decide +kernel

/-- the witness of `interp_self_import_63_full`: 甲 imports 甲 -/
def selfFiles : FileTable := [("甲.zn", { imports := [imp 0 "甲"], exec := body [show_ 1 "甲"] })]

example : (match (runProgramWith selfFiles [] 8 { imports := [imp 0 "甲"], exec := body [show_ 1 "主"] } []
    (initVM (ν := Int) ())).1 with | .err (.rt 63) => true | _ => false) = true ∧
    (runProgramWith selfFiles [] 8 { imports := [imp 0 "甲"], exec := body [show_ 1 "主"] } [] (initVM (ν := Int) ())).2.out = [] := by
  decide +kernel

/-- 甲 ↔ 乙 -/
def cycleFiles : FileTable := [("甲.zn", { imports := [imp 0 "乙"], exec := body [show_ 1 "甲"] }),
  ("乙.zn", { imports := [imp 0 "甲"], exec := body [show_ 1 "乙"] })]

example : (match (runProgramWith cycleFiles [] 8 { imports := [imp 0 "甲"], exec := none } []
    (initVM (ν := Int) ())).1 with | .err (.rt 63) => true | _ => false) = true := by
  decide +kernel

/-- missing module / invalid module path / missing library -/
example : (match (runProgramWith [] [] 8 { imports := [imp 0 "缺"], exec := none } [] (initVM (ν := Int) ())).1 with
    | .err (.rt 60) => true | _ => false) = true ∧
    (match (runProgramWith [("甲/乙.zn", { imports := [], exec := none })] [] 8 { imports := [imp 0 "甲--乙"], exec := none } []
      (initVM (ν := Int) ())).1 with | .err (.rt 60) => true | _ => false) = true ∧
    (match (runProgramWith [] [("@JSON", ["解析JSON"])] 8 { imports := [imp 0 "@无"], exec := none } [] (initVM (ν := Int) ())).1 with
    | .err (.rt 64) => true | _ => false) = true := by
  decide +kernel

example : modulePath "目-内-丙" = some "目/内/丙.zn" ∧ modulePath "甲--乙" = none ∧ modulePath "..-外" = none ∧
    modulePath "甲/乙" = none ∧ isStdName "@JSON" = true ∧ isStdName "JSON" = false := by decide +kernel

end examples

end ZnVerif.Properties.C15Interp
