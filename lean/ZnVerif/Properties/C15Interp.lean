/-
C15 on the evaluator model (`Model/Interp.lean`: `evalImport`, `execAnotherModule`, `loadModule`, `evalProgram`,
`runProgramWith` — eval.go `evalImportStmt` / `execAnotherModule` / `evalProgram` as written, with the VM of the
evaluator: heap, scopes per module, call stack, module table, dependency graph).

Every theorem quantifies over all file tables, library tables, programs, fuels and — except the whole-run
statements — machine states.  Helper lemmas: `Proofs/LoaderPres.lean` (every relation the evaluator keeps is kept by
the loader), `Proofs/LoaderInv.lean` (`ModKept`: the module table only grows, names are kept and stay distinct).
-/
import ZnVerif.Proofs.LoaderInv
import ZnVerif.Proofs.LoaderConst
import ZnVerif.Proofs.LoaderBridge
import ZnVerif.Properties.C15
import ZnVerif.Proofs.ModulesDfs
import ZnVerif.Proofs.Toy
set_option linter.unusedSectionVars false
set_option linter.unusedSimpArgs false
set_option linter.unusedVariables false

namespace ZnVerif.Properties.C15Interp
open ZnVerif.Model ZnVerif.Proofs.Balance ZnVerif.Proofs.Calls

variable {ν : Type} [NumOps ν]

/-- the machine after `vm.SetCurrentLine(node.GetCurrentLine())` of an import statement -/
def atImport (im : Import) (s : VM ν) : VM ν :=
  (setTopFrame (fun fr => { fr with line := im.line, started := true }) s).2

theorem atImport_modules (im : Import) (s : VM ν) : (atImport im s).modules = s.modules := by
  unfold atImport setTopFrame modifyVM; simp only; split <;> rfl
theorem atImport_out (im : Import) (s : VM ν) : (atImport im s).out = s.out := by
  unfold atImport setTopFrame modifyVM; simp only; split <;> rfl
theorem atImport_find (im : Import) (name : String) (s : VM ν) :
    findModuleByName name (atImport im s) = findModuleByName name s := by
  unfold findModuleByName; rw [atImport_modules]

theorem evalImport_start (libs : LibTable) (load : String → M ν Nat) (im : Import) (s : VM ν) :
    evalImport libs load im s =
      (match im.name with
        | none => goPanic
        | some name =>
          if isStdName name then do
            let ext ← importStd libs name
            bindImports ext im.items
          else do
            let s ← getVM
            let ext ← match findModuleByName name s with
              | none => load name
              | some i => do
                addModuleDependency i
                pure i
            checkDependency name
            bindImports ext im.items : M ν Unit) (atImport im s) := by
  unfold evalImport
  exact bind_ok (a := ()) rfl

theorem allocateModule_ok (name : String) (hp : Bool) (s : VM ν) :
    ∃ i, allocateModule name hp s = (.ok i, (allocateModule name hp s).2) := by
  unfold allocateModule
  split
  · exact ⟨_, rfl⟩
  · exact ⟨_, rfl⟩

/-! ## a missing module is error 60, a missing library error 64 -/

/-- 导入“name” where `name` is not a valid module path, or no file stands at its path, and no module of that name has been
allocated: error 60, raised at the line of the statement; nothing is allocated, nothing runs, nothing is displayed. -/
theorem interp_missing_module_60 (files : FileTable) (libs : LibTable) (fuel k : Nat) (im : Import) (name : String)
    (s : VM ν) (hn : im.name = some name) (hstd : isStdName name = false) (hfresh : findModuleByName name s = none)
    (hfile : ∀ path, modulePath name = some path → lookup path files = none) :
    evalImport libs (loadModule files libs fuel (k+1)) im s = (.err (.rt 60), atImport im s) := by
  rw [evalImport_start]
  simp only [hn, hstd, Bool.false_eq_true, if_false]
  rw [bind_ok (show getVM (atImport im s) = (.ok (atImport im s), atImport im s) from rfl)]
  simp only [atImport_find, hfresh]
  have hload : loadModule files libs fuel (k+1) name (atImport im s) = (.err (.rt 60), atImport im s) := by
    rw [loadModule]
    unfold execAnotherModule
    cases hp : modulePath name with
    | none => rfl
    | some path => simp only [hfile path hp]; rfl
  exact bind_err hload

/-- 导入《@L》 for a library that is not registered: error 64 at the line of the statement.  (The module entry of the
library has been allocated by then, as in the Go code: `AllocateModule` comes before `FindLibrary`.)  No frame is pushed,
nothing is displayed. -/
theorem interp_missing_library_64 (libs : LibTable) (load : String → M ν Nat) (im : Import) (name : String) (s : VM ν)
    (hn : im.name = some name) (hstd : isStdName name = true) (hlib : lookup name libs = none) :
    evalImport libs load im s = (.err (.rt 64), (allocateModule name false (atImport im s)).2) ∧
    (allocateModule name false (atImport im s)).2.out = s.out ∧
    (allocateModule name false (atImport im s)).2.stack = (atImport im s).stack := by
  refine ⟨?_, ?_, ?_⟩
  · rw [evalImport_start]
    simp only [hn, hstd, if_true]
    have h1 : importStd libs name (atImport im s) = (.err (.rt 64), (allocateModule name false (atImport im s)).2) := by
      unfold importStd
      obtain ⟨i, hi⟩ := allocateModule_ok name false (atImport im s)
      rw [bind_ok hi]
      simp only [hlib]
      rfl
    exact bind_err h1
  · unfold allocateModule; split <;> simp [atImport_out]
  · unfold allocateModule; split <;> rfl

/-! ## imports come before the importer's own statements -/

/-- `evalProgram` runs the import statements first, in order; if one of them does not succeed, none of the importer's own
statements runs: the machine is left exactly where the failing import left it, with that outcome. -/
theorem interp_imports_before_body (fuel : Nat) (imp : Import → M ν Unit) (p : Program) (inputs : List (String × Cell ν))
    (s : VM ν) :
    (∀ s1, p.imports.forM imp s = (.ok (), s1) →
      evalProgram fuel imp p inputs s = evalProgram fuel imp { p with imports := [] } inputs s1) ∧
    ((p.imports.forM imp s).1 ≠ .ok () →
      (evalProgram fuel imp p inputs s).2 = (p.imports.forM imp s).2 ∧
      ∀ a, (evalProgram fuel imp p inputs s).1 ≠ .ok a) := by
  constructor
  · intro s1 h
    unfold evalProgram
    rw [bind_ok h]
    show _ = ((([] : List Import).forM imp) >>= _) s1
    rw [bind_ok (show ([] : List Import).forM imp s1 = (.ok (), s1) from rfl)]
  · intro h
    unfold evalProgram
    rw [M_bind_def]
    rcases hr : p.imports.forM imp s with ⟨r, s1⟩
    rw [hr] at h
    cases r with
    | ok u => exact absurd rfl h
    | err e => exact ⟨rfl, fun a => by simp⟩
    | panic => exact ⟨rfl, fun a => by simp⟩
    | fuel => exact ⟨rfl, fun a => by simp⟩
    | unmodelled => exact ⟨rfl, fun a => by simp⟩

/-- the import statements of one program run in the order they are written -/
theorem interp_imports_in_order (imp : Import → M ν Unit) (im : Import) (rest : List Import) :
    (im :: rest).forM imp = (imp im >>= fun _ => rest.forM imp) := rfl

/-! ## a module is allocated once, and its body runs at most once -/

/-- every function of the evaluator keeps the module table's names (`ModKept`) … -/
theorem modKept_evaluator (n : Nat) : AllPres (ModKept (ν := ν)) n := allPres n

/-- … and so do an import statement and a whole program section (imports, then the exec block), modules they load included -/
theorem modKept_import (files : FileTable) (libs : LibTable) (fuel : Nat) (im : Import) :
    Pres (ModKept (ν := ν)) (importWith files libs fuel im) := Pres.importWith files libs fuel im

theorem modKept_evalProgram (files : FileTable) (libs : LibTable) (fuel : Nat) (p : Program) (inputs : List (String × Cell ν)) :
    Pres (ModKept (ν := ν)) (evalProgram fuel (importWith files libs fuel) p inputs) :=
  Pres.evalProgram fuel _ (Pres.importWith files libs fuel) p inputs

/-- An import of a module that has been allocated never reaches the loader: whatever `execAnotherModule` would do is
irrelevant (no file is looked up, no body runs) — only the dependency edge, the cycle check and the binding of names happen. -/
theorem interp_loaded_module_is_not_loaded_again (libs : LibTable) (load load' : String → M ν Nat) (im : Import)
    (name : String) (s : VM ν) (i : Nat) (hn : im.name = some name) (hstd : isStdName name = false)
    (hfound : findModuleByName name s = some i) :
    evalImport libs load im s = evalImport libs load' im s := by
  rw [evalImport_start, evalImport_start]
  simp only [hn, hstd, Bool.false_eq_true, if_false]
  rw [bind_ok (show getVM (atImport im s) = (.ok (atImport im s), atImport im s) from rfl),
    bind_ok (show getVM (atImport im s) = (.ok (atImport im s), atImport im s) from rfl)]
  simp only [atImport_find, hfound]

/-- the loader starts a module's body only after it has appended a NEW entry for that name to the module table:
`execAnotherModule` is reached from `evalImport` only when `FindModuleByName` failed, and then `AllocateModule` appends
(the file existing); from then on the name is found -/
theorem interp_load_allocates_fresh (name : String) (s : VM ν) (hfresh : findModuleByName name s = none) :
    allocateModule name true s = (.ok s.modules.size, (allocateModule name true s).2) ∧
    modNames (allocateModule name true s).2 = modNames s ++ [name] ∧
    findModuleByName name (allocateModule name true s).2 = some s.modules.size := by
  have h1 : allocateModule name true s = (.ok s.modules.size,
      { s with modules := s.modules.push { name := name, hasProgram := true },
               graph := if s.csModuleID ≥ 0 then s.graph ++ [(s.csModuleID, (s.modules.size : Int))] else s.graph,
               csModuleID := s.modules.size }) := by
    unfold allocateModule
    rw [hfresh]
  refine ⟨by rw [h1], by rw [h1]; simp [modNames], ?_⟩
  rw [h1]
  unfold findModuleByName at *
  simp only [Array.toList_push]
  rw [List.findIdx?_append, hfresh]
  simp

/-- **Each module body runs at most once per run.**  Once a module name has been allocated (its body has started), every
later import of that name — after ANY piece `m` of the run, in any module, however many modules import it — finds the module
and never reaches the loader again. -/
theorem interp_body_runs_at_most_once {α : Type} (m : M ν α) (hm : Pres (ModKept (ν := ν)) m) (libs : LibTable)
    (load load' : String → M ν Nat) (im : Import) (name : String) (s : VM ν) (i : Nat)
    (hn : im.name = some name) (hstd : isStdName name = false) (hfound : findModuleByName name s = some i) :
    findModuleByName name (m s).2 = some i ∧
    evalImport libs load im (m s).2 = evalImport libs load' im (m s).2 := by
  have hk := findModuleByName_kept (hm.run s) hfound
  exact ⟨hk, interp_loaded_module_is_not_loaded_again libs load load' im name _ i hn hstd hk⟩

/-- the machine in which `runProgramWith` starts: 主模块 allocated as module 0 -/
def mainAllocated (s : VM ν) : VM ν :=
  { s with modules := s.modules.push { name := "主模块", hasProgram := true }, csModuleID := 0 }

/-- `EvalMainModule` after the allocation: script frame, program, pop -/
def mainRun (files : FileTable) (libs : LibTable) (fuel : Nat) (p : Program) (inputs : List (String × Cell ν)) : M ν Addr := do
  pushFrame { moduleId := 0, callType := 1 }
  let r ← evalProgram fuel (importWith files libs fuel) p inputs
  popFrame
  pure r

theorem runProgramWith_eq (files : FileTable) (libs : LibTable) (fuel : Nat) (p : Program) (inputs : List (String × Cell ν))
    (s : VM ν) :
    runProgramWith files libs fuel p inputs s = mainRun files libs fuel p inputs (mainAllocated s) := by
  unfold runProgramWith mainRun
  exact bind_ok (a := ()) rfl

/-- In a whole run (from the initial machine) no module name is ever allocated twice: the module table of the final
machine — successful run or not — holds pairwise distinct names, the main module first. -/
theorem interp_module_allocated_once (files : FileTable) (libs : LibTable) (fuel : Nat) (p : Program)
    (inputs : List (String × Cell ν)) :
    (modNames (runProgramWith files libs fuel p inputs (initVM (ν := ν) ())).2).Nodup ∧
    ∃ extra, modNames (runProgramWith files libs fuel p inputs (initVM (ν := ν) ())).2 = "主模块" :: extra := by
  rw [runProgramWith_eq]
  have hp : Pres (ModKept (ν := ν)) (mainRun (ν := ν) files libs fuel p inputs) := by
    unfold mainRun
    have h2 : Pres (ModKept (ν := ν)) (pushFrame (ν := ν) { moduleId := 0, callType := 1 }) := ScopePrims0.pushFrame _
    have h3 := modKept_evalProgram (ν := ν) files libs fuel p inputs
    pres_tac
  obtain ⟨⟨extra, he⟩, hnd⟩ := hp.run (mainAllocated (initVM (ν := ν) ()))
  have h0 : modNames (mainAllocated (initVM (ν := ν) ())) = ["主模块"] := by
    simp [modNames, mainAllocated, initVM]
  rw [h0] at he hnd
  exact ⟨hnd (by simp), extra, by rw [he]; rfl⟩

/-! ## imported names are read-only -/

/-- **Imported names are read-only.**  After a successful `bindImports` (the last step of `evalImportStmt`: all exports of the
module in sorted order, or the listed ones in list order — `boundNames`) assigning ANY of the names it bound is error 44 and
leaves the machine exactly as it is (the name keeps its value); names that were bound constants before (`names`: earlier
imports of the same program, inputs) stay so. -/
theorem interp_exports_are_const (ext : Nat) (items : List Ident) (s s' : VM ν) (m : Module)
    (hm : s.modules[ext]? = some m) (h : bindImports ext items s = (.ok (), s')) :
    ∀ name ∈ boundNames m items, ∀ w, setElement name w s' = (.err (.rt 44), s') := by
  intro name hn w
  have hb := bindImports_constBound ext items [] s s' m hm (fun x hx => by cases hx) h
  exact hb.set_rejected name (by simpa using hn) w

/-- … and an earlier import's names are still constants after a later import statement of the same program section -/
theorem interp_exports_stay_const (ext : Nat) (items : List Ident) (names : List String) (s s' : VM ν) (m : Module)
    (hm : s.modules[ext]? = some m) (hb : ConstBound names s) (h : bindImports ext items s = (.ok (), s')) :
    ∀ name ∈ names, ∀ w, setElement name w s' = (.err (.rt 44), s') := by
  intro name hn w
  have hb' := bindImports_constBound ext items names s s' m hm hb h
  exact hb'.set_rejected name (List.mem_append_right _ hn) w

/-- the single step: a name declared by `DeclareExternalElement` = `declareElement … true (some home)` rejects assignment right
after the declaration and after one more constant declaration -/
theorem interp_import_declaration_is_const (name : String) (v w : Addr) (home : Nat) (s s' : VM ν)
    (h : declareElement name v true (some (home : Int)) s = (.ok (), s')) :
    setElement name w s' = (.err (.rt 44), s') ∧
    ∀ (name2 : String) (v2 : Addr) (home2 : Option Int) (s'' : VM ν),
      declareElement name2 v2 true home2 s' = (.ok (), s'') → setElement name w s'' = (.err (.rt 44), s'') := by
  have hb : ConstBound [name] s' := ConstBound.declare (names := []) (fun x hx => by cases hx) h
  refine ⟨hb.set_rejected name (by simp) w, ?_⟩
  intro name2 v2 home2 s'' h2
  exact (hb.declare h2).set_rejected name (by simp) w

/-! ## an import cycle through a module that is still loading -/

theorem atImport_cs (im : Import) (s : VM ν) : (atImport im s).csModuleID = s.csModuleID := by
  unfold atImport setTopFrame modifyVM; simp only; split <;> rfl
theorem atImport_graph (im : Import) (s : VM ν) : (atImport im s).graph = s.graph := by
  unfold atImport setTopFrame modifyVM; simp only; split <;> rfl

theorem fst_err_bind {α β : Type} {m : M ν α} {f : α → M ν β} {s : VM ν} {e : Err} (h : (m s).1 = .err e) :
    ((m >>= f) s).1 = .err e := by
  rw [M_bind_def]
  rcases hm : m s with ⟨r, s'⟩
  rw [hm] at h
  simp only at h
  subst h
  rfl

open ZnVerif.Spec.ModuleSem (Walk HasCycle) in
/-- a dependency graph with a self-loop: the DFS of `CheckDepedency` answers "cycle" -/
theorem checkCircular_self_loop (g : List (Int × Int)) (a : Int) (h : (a, a) ∈ g) :
    Modules.checkCircular (natGraph g) (Modules.nodes (natGraph g)) = some true := by
  apply ZnVerif.Proofs.ModulesDfs.checkCircular_complete _ _ (fun v hv => hv)
  refine ⟨(a + 1).toNat, (a + 1).toNat, ?_, Walk.refl _⟩
  unfold natGraph
  exact List.mem_map.2 ⟨(a, a), h, rfl⟩

/-- An import, by the CURRENT module, of its own name (the module is allocated and its frame is on top: it is loading or
running) is error 63: `AddModuleDependency` records the edge `m → m`, and the DFS over the whole graph finds the loop — whatever
else the graph contains, whatever the loader would do. -/
theorem interp_import_of_current_module_63 (libs : LibTable) (load : String → M ν Nat) (im : Import) (name : String)
    (t : VM ν) (i : Nat) (hn : im.name = some name) (hstd : isStdName name = false)
    (hfound : findModuleByName name t = some i) (hcs : t.csModuleID = (i : Int)) :
    (evalImport libs load im t).1 = .err (.rt 63) := by
  rw [evalImport_start]
  simp only [hn, hstd, Bool.false_eq_true, if_false]
  rw [bind_ok (show getVM (atImport im t) = (.ok (atImport im t), atImport im t) from rfl)]
  simp only [atImport_find, hfound]
  rw [bind_ok (m := addModuleDependency i) (a := ())
    (s' := { atImport im t with graph := (atImport im t).graph ++ [((atImport im t).csModuleID, (i : Int))] }) rfl]
  rw [bind_ok (m := (pure i : M ν Nat)) (a := i)
    (s' := { atImport im t with graph := (atImport im t).graph ++ [((atImport im t).csModuleID, (i : Int))] }) rfl]
  apply fst_err_bind
  unfold checkDependency
  have hf : findModuleByName name
      ({ atImport im t with graph := (atImport im t).graph ++ [((atImport im t).csModuleID, (i : Int))] } : VM ν) = some i := by
    have : findModuleByName name
        ({ atImport im t with graph := (atImport im t).graph ++ [((atImport im t).csModuleID, (i : Int))] } : VM ν) =
        findModuleByName name (atImport im t) := rfl
    rw [this, atImport_find, hfound]
  simp only [hf]
  rw [checkCircular_self_loop _ (i : Int) (by rw [atImport_cs, hcs]; simp)]

/-- **A module that imports itself is error 63**, for every file table: loading `name` (not allocated yet, its file exists)
whose program's first import statement names `name` again ends with the circular-dependency error, before any statement of the
module's body runs (nothing is displayed). -/
theorem interp_self_import_63 (files : FileTable) (libs : LibTable) (fuel k : Nat) (name path : String) (prog : Program)
    (im : Import) (rest : List Import) (s : VM ν)
    (hstd : isStdName name = false) (hfresh : findModuleByName name s = none) (hpath : modulePath name = some path)
    (hfile : lookup path files = some prog) (himps : prog.imports = im :: rest) (hself : im.name = some name) :
    (loadModule files libs fuel (k+1) name s).1 = .err (.rt 63) := by
  rw [loadModule]
  unfold execAnotherModule
  simp only [hpath, hfile]
  obtain ⟨ha, _, hfound⟩ := interp_load_allocates_fresh name s hfresh
  rw [bind_ok ha]
  have hp := pushFrame_run (ν := ν) { moduleId := (s.modules.size : Int), callType := 1 } (allocateModule name true s).2
  rw [bind_ok (a := ()) (s' := (pushFrame { moduleId := (s.modules.size : Int), callType := 1 } (allocateModule name true s).2).2)
    (by rw [← hp.1])]
  apply fst_err_bind
  unfold evalProgram
  apply fst_err_bind
  rw [himps]
  show ((evalImport libs (loadModule files libs fuel k) im >>= fun _ => rest.forM _) _).1 = _
  apply fst_err_bind
  apply interp_import_of_current_module_63 libs _ im name _ s.modules.size hself hstd
  · unfold findModuleByName at hfound ⊢
    rw [hp.2.2.2.2.2.2]; exact hfound
  · exact hp.2.2.1

/-! ### cycles through modules that are still loading -/

open ZnVerif.Spec.ModuleSem (Walk HasCycle) in
/-- An import of an allocated module `i` from which the dependency graph already leads to the CURRENT module (in particular:
a module that is still loading further down the import stack) is error 63: the new edge `current → i` closes the cycle. -/
theorem interp_import_closing_cycle_63 (libs : LibTable) (load : String → M ν Nat) (im : Import) (name : String)
    (t : VM ν) (i : Nat) (hn : im.name = some name) (hstd : isStdName name = false)
    (hfound : findModuleByName name t = some i)
    (hwalk : Walk (natGraph t.graph) ((i : Int) + 1).toNat (t.csModuleID + 1).toNat) :
    (evalImport libs load im t).1 = .err (.rt 63) := by
  rw [evalImport_start]
  simp only [hn, hstd, Bool.false_eq_true, if_false]
  rw [bind_ok (show getVM (atImport im t) = (.ok (atImport im t), atImport im t) from rfl)]
  simp only [atImport_find, hfound]
  rw [bind_ok (m := addModuleDependency i) (a := ())
    (s' := { atImport im t with graph := (atImport im t).graph ++ [((atImport im t).csModuleID, (i : Int))] }) rfl]
  rw [bind_ok (m := (pure i : M ν Nat)) (a := i)
    (s' := { atImport im t with graph := (atImport im t).graph ++ [((atImport im t).csModuleID, (i : Int))] }) rfl]
  apply fst_err_bind
  unfold checkDependency
  have hf : findModuleByName name
      ({ atImport im t with graph := (atImport im t).graph ++ [((atImport im t).csModuleID, (i : Int))] } : VM ν) = some i := by
    have : findModuleByName name
        ({ atImport im t with graph := (atImport im t).graph ++ [((atImport im t).csModuleID, (i : Int))] } : VM ν) =
        findModuleByName name (atImport im t) := rfl
    rw [this, atImport_find, hfound]
  simp only [hf]
  rw [ZnVerif.Proofs.ModulesDfs.checkCircular_complete _ _ (fun v hv => hv)]
  refine ⟨(t.csModuleID + 1).toNat, ((i : Int) + 1).toNat, ?_, ?_⟩
  · unfold natGraph
    rw [atImport_cs, atImport_graph]
    exact List.mem_map.2 ⟨(t.csModuleID, (i : Int)), by simp, rfl⟩
  · refine ZnVerif.Proofs.ModulesDfs.Walk.mono ?_ hwalk
    intro e he
    unfold natGraph at he ⊢
    rw [atImport_graph, List.map_append]
    exact List.mem_append_left _ he

/-- the machine in which the program of a freshly allocated module starts: entry appended, script frame pushed -/
def loadStart (name : String) (s : VM ν) : VM ν :=
  (pushFrame { moduleId := (s.modules.size : Int), callType := 1 } (allocateModule name true s).2).2

theorem loadStart_facts (name : String) (s : VM ν) (hfresh : findModuleByName name s = none) :
    findModuleByName name (loadStart name s) = some s.modules.size ∧
    modNames (loadStart name s) = modNames s ++ [name] ∧
    (loadStart name s).csModuleID = (s.modules.size : Int) ∧
    (loadStart name s).graph = (if s.csModuleID ≥ 0 then s.graph ++ [(s.csModuleID, (s.modules.size : Int))] else s.graph) ∧
    (loadStart name s).out = s.out := by
  obtain ⟨ha, hnames, hfound⟩ := interp_load_allocates_fresh name s hfresh
  have hp := pushFrame_run (ν := ν) { moduleId := (s.modules.size : Int), callType := 1 } (allocateModule name true s).2
  have hg : (allocateModule name true s).2.graph =
      (if s.csModuleID ≥ 0 then s.graph ++ [(s.csModuleID, (s.modules.size : Int))] else s.graph) ∧
      (allocateModule name true s).2.out = s.out := by
    unfold allocateModule; rw [hfresh]; exact ⟨rfl, rfl⟩
  refine ⟨?_, ?_, hp.2.2.1, ?_, ?_⟩
  · unfold loadStart findModuleByName at *
    rw [hp.2.2.2.2.2.2]; exact hfound
  · unfold loadStart modNames at *
    rw [hp.2.2.2.2.2.2]; exact hnames
  · unfold loadStart
    have : (pushFrame { moduleId := (s.modules.size : Int), callType := 1 } (allocateModule name true s).2).2.graph =
        (allocateModule name true s).2.graph := by
      unfold pushFrame modifyVM; simp only; split <;> simp [putScope] <;> split <;> rfl
    rw [this, hg.1]
  · unfold loadStart; rw [hp.2.2.2.2.1, hg.2]

/-- loading a fresh module whose file exists: a failure of its FIRST import statement is the failure of the load -/
theorem load_first_import_err (files : FileTable) (libs : LibTable) (fuel k : Nat) (name path : String) (prog : Program)
    (im : Import) (rest : List Import) (s : VM ν) (e : Err)
    (hfresh : findModuleByName name s = none) (hpath : modulePath name = some path)
    (hfile : lookup path files = some prog) (himps : prog.imports = im :: rest)
    (h : (evalImport libs (loadModule files libs fuel k) im (loadStart name s)).1 = .err e) :
    (loadModule files libs fuel (k+1) name s).1 = .err e := by
  rw [loadModule]
  unfold execAnotherModule
  simp only [hpath, hfile]
  obtain ⟨ha, _, _⟩ := interp_load_allocates_fresh name s hfresh
  rw [bind_ok ha]
  have hp := pushFrame_run (ν := ν) { moduleId := (s.modules.size : Int), callType := 1 } (allocateModule name true s).2
  rw [bind_ok (a := ()) (s' := loadStart name s) (by unfold loadStart; rw [← hp.1])]
  apply fst_err_bind
  unfold evalProgram
  apply fst_err_bind
  rw [himps]
  show ((evalImport libs (loadModule files libs fuel k) im >>= fun _ => rest.forM _) _).1 = _
  exact fst_err_bind h

open ZnVerif.Spec.ModuleSem (Walk HasCycle) in
/-- **甲 ↔ 乙 is error 63, for every file table**: loading `a` (fresh, file exists) whose first import names `b` (fresh, another
name, file exists) whose first import names `a` again ends with the circular-dependency error; no statement of either body runs. -/
theorem interp_two_module_cycle_63 (files : FileTable) (libs : LibTable) (fuel k : Nat) (a b pa pb : String)
    (proga progb : Program) (ima imb : Import) (resta restb : List Import) (s : VM ν)
    (hab : a ≠ b) (hstda : isStdName a = false) (hstdb : isStdName b = false)
    (hfa : findModuleByName a s = none) (hfb : findModuleByName b s = none)
    (hpa : modulePath a = some pa) (hpb : modulePath b = some pb)
    (hfilea : lookup pa files = some proga) (hfileb : lookup pb files = some progb)
    (hia : proga.imports = ima :: resta) (hib : progb.imports = imb :: restb)
    (hna : ima.name = some b) (hnb : imb.name = some a) :
    (loadModule files libs fuel (k+2) a s).1 = .err (.rt 63) := by
  apply load_first_import_err files libs fuel (k+1) a pa proga ima resta s _ hfa hpa hfilea hia
  obtain ⟨ga1, ga2, ga3, ga4, _⟩ := loadStart_facts a s hfa
  -- the import of `b` inside `a`: `b` is not allocated, so it is loaded
  rw [evalImport_start]
  simp only [hna, hstdb, Bool.false_eq_true, if_false]
  rw [bind_ok (show getVM (atImport ima (loadStart a s)) = (.ok _, atImport ima (loadStart a s)) from rfl)]
  have hfb' : findModuleByName b (atImport ima (loadStart a s)) = none := by
    rw [atImport_find, findModuleByName_none_iff, ga2]
    intro hm
    rcases List.mem_append.1 hm with hm | hm
    · exact (findModuleByName_none_iff b s).1 hfb hm
    · simp at hm; exact hab hm.symm
  simp only [hfb']
  apply fst_err_bind
  -- loading `b` from there: its first import names `a`, which is the module below it on the import stack
  have hfa' : findModuleByName a (atImport ima (loadStart a s)) = some s.modules.size := by rw [atImport_find]; exact ga1
  apply load_first_import_err files libs fuel k b pb progb imb restb _ _ hfb' hpb hfileb hib
  obtain ⟨gb1, gb2, gb3, gb4, _⟩ := loadStart_facts b (atImport ima (loadStart a s)) hfb'
  have hkept : findModuleByName a (loadStart b (atImport ima (loadStart a s))) = some s.modules.size := by
    have hk : ModKept (atImport ima (loadStart a s)) (loadStart b (atImport ima (loadStart a s))) :=
      ⟨⟨[b], gb2⟩, fun _ => by
        rw [gb2]
        exact List.nodup_append.2 ⟨‹_›, List.nodup_cons.2 ⟨by simp, List.nodup_nil⟩, by
          intro x hx y hy
          simp only [List.mem_singleton] at hy
          subst hy
          intro hxy; subst hxy
          exact (findModuleByName_none_iff _ _).1 hfb' hx⟩⟩
    exact findModuleByName_kept hk hfa'
  apply interp_import_closing_cycle_63 libs _ imb a _ s.modules.size hnb hstda hkept
  -- the edge a → b was recorded when `b` was allocated with `a` current
  rw [gb3, gb4, atImport_cs, ga3]
  have hnn : ((s.modules.size : Int) ≥ 0) := Int.natCast_nonneg _
  simp only [hnn, if_true]
  refine Walk.cons ?_ (Walk.refl _)
  unfold natGraph
  rw [List.map_append]
  exact List.mem_append_right _ (by simp)

/-! ## the cycle check of the evaluator's loader is the DFS of `Model/Modules` — C15's DFS theorems transfer -/

open ZnVerif.Spec.ModuleSem (Walk HasCycle) in
/-- `CheckDepedency` in the evaluator model decides "the dependency graph has a cycle": for an allocated name it answers error 63
exactly when the graph (over module ids) has a cycle, succeeds exactly when it has none, and never runs out of fuel — the
evaluator's loader calls the very `Modules.checkCircular` that `C15.dfs_sound` / `dfs_complete` / `dfs_total` are about. -/
theorem interp_dependency_check_decides_cycle (name : String) (s : VM ν) (i : Nat) (h : findModuleByName name s = some i) :
    (HasCycle (natGraph s.graph) → checkDependency name s = (.err (.rt 63), s)) ∧
    (¬ HasCycle (natGraph s.graph) → checkDependency name s = (.ok (), s)) := by
  unfold checkDependency
  simp only [h]
  constructor
  · intro hc
    rw [ZnVerif.Proofs.ModulesDfs.checkCircular_complete _ _ (fun v hv => hv) hc]
  · intro hc
    obtain ⟨b, hb⟩ := ZnVerif.Proofs.ModulesDfs.checkCircular_total (natGraph s.graph) (Modules.nodes (natGraph s.graph))
    cases b with
    | true => exact absurd (ZnVerif.Proofs.ModulesDfs.checkCircular_sound _ _ hb) hc
    | false => rw [hb]

/-! ## the bridge to the abstract loader of `Model/Modules.lean` (stated; checked on instances) -/

section bridge
open ZnVerif.Proofs.LoaderBridge
open ZnVerif.Model.Modules (Oracle Files Libs Path ModuleSrc)

/-- inside the fragment both models speak about: names are texts (every code point a character), path segments hold no `/`,
no two files share a path, no import names the reserved main module (C15's `NoReserved`) -/
def TableOK (files : Files) : Prop :=
  (∀ f ∈ files, ∀ seg ∈ f.1, ∀ c ∈ seg, c.isValidChar ∧ c ≠ 0x2F) ∧
  (∀ f ∈ files, ∀ i ∈ f.2.imports, ∀ c ∈ i.name, c.isValidChar) ∧
  (files.map (·.1)).Nodup ∧ ZnVerif.Proofs.Modules.NoReserved files

/-- the two loaders agree on one file table: final error code, modules in allocation order (= the order in which module
programs are entered; with once-only loading, the sequence of body starts is a function of it), displayed markers — whenever
neither run stopped on fuel or a panic.  (A computable test, so that instances are checked by evaluation.) -/
def agreeB (ν : Type) [NumOps ν] (files : Files) (libs : Libs) (callFuel fuel : Nat) (mainPath : Path) : Bool :=
  match Modules.assoc mainPath files with
  | none => true
  | some src =>
    let o := Modules.run .repaired Oracle.default files libs callFuel mainPath
    let r := runProgramWith (toFileTable files) (toLibTable libs) fuel (toProgram src) [] (initVM (ν := ν) ())
    decide (absCode o = none) || decide (interpCode r.1 = none) ||
      (decide (absCode o = interpCode r.1) && decide (absModules o = interpModules r.2) && decide (absTrace o = interpTrace r.2))

def Simulates (ν : Type) [NumOps ν] (files : Files) (libs : Libs) (callFuel fuel : Nat) (mainPath : Path) : Prop :=
  agreeB ν files libs callFuel fuel mainPath = true

/-- FULL bridge: on every file table of the fragment the evaluator's loader and the abstract loader agree (then every theorem of
`Properties/C15.lean` about `Modules.run` — `cycle_reported`, `body_runs_at_most_once`, `imports_before_body`,
`imported_method_sees_home_module` — speaks about the evaluator model).  NOT proved. -/
def interp_loader_simulates_modules_full : Prop :=
  ∀ (ν : Type) [NumOps ν] (files : Files) (libs : Libs) (callFuel fuel : Nat) (mainPath : Path),
    TableOK files → Simulates ν files libs callFuel fuel mainPath

/-- first half: file tables whose modules consist of import statements only (no exec block).  NOT proved in general either (the
simulation relation between the two VMs — module table, name map, graph, scopes by module id — and the two `splitOn`s remain to
be written down); what is proved: both loaders run the SAME DFS (`interp_dependency_check_decides_cycle`), the evaluator-side
twins of the abstract loader's theorems above, and the instances below. -/
def interp_loader_simulates_modules_imports_only_full : Prop :=
  ∀ (ν : Type) [NumOps ν] (files : Files) (libs : Libs) (callFuel fuel : Nat) (mainPath : Path),
    TableOK files → (∀ f ∈ files, f.2.body = []) → Simulates ν files libs callFuel fuel mainPath

open ZnVerif.Properties.C15.Examples in
/-- instances of the bridge, bodies included: C15's cyclic table (63), diamond (丙 once) and sibling table (an imported method
calls a sibling method and constructs a sibling type of its home module) -/
example : Simulates Int cyclic [] 8 60 pMain ∧ Simulates Int diamond [] 8 60 pMain ∧ Simulates Int sibling [] 8 60 pMain := by
  unfold Simulates
  decide +kernel

end bridge

/-! ## non-vacuity: concrete runs -/

section examples

def imp (line : Nat) (name : String) (items : List Ident := []) : Import :=
  { line := line, libType := 2, name := some name, items := items }
def show_ (line : Nat) (t : String) : Stmt := .expr (.call line (some ⟨line, "显示"⟩) [.str line t] none)
def body (stmts : List Stmt) : Option ExecBlock := some (.mk [] (some stmts) [])

/-- 主 imports 甲 and 乙, both import 丙 (in a directory): diamond -/
def diamond : FileTable := [
  ("甲.zn", { imports := [imp 0 "目-丙"], exec := body [show_ 1 "甲"] }),
  ("乙.zn", { imports := [imp 0 "目-丙"], exec := body [show_ 1 "乙"] }),
  ("目/丙.zn", { imports := [], exec := body [.funcDecl 0 (some ⟨0, "丙法"⟩) 1 (body [show_ 1 "丙法"]), show_ 2 "丙"] })]
def selected : List Ident := [⟨2, "丙法"⟩]
def diamondMain : Program :=
  { imports := [imp 0 "甲", imp 1 "乙", imp 2 "目-丙" selected],
    exec := body [show_ 3 "主", .expr (.call 4 (some ⟨4, "丙法"⟩) [] none), .expr (.assign 5 (.id ⟨5, "丙法"⟩) (.str 5 "x"))] }

/-- 丙 runs once (before 甲's and 乙's own statements), the imported method runs in its home module, and assigning it is error 44
reported at line 6 of the main module -/
example : ((runProgramWith diamond [] 40 diamondMain [] (initVM (ν := Int) ())).2.out.reverse = ["丙", "甲", "乙", "主", "丙法"]) ∧
    (match (runProgramWith diamond [] 40 diamondMain [] (initVM (ν := Int) ())).1 with | .err (.rt 44) => true | _ => false) = true ∧
    modNames (runProgramWith diamond [] 40 diamondMain [] (initVM (ν := Int) ())).2 = ["主模块", "甲", "目-丙", "乙"] := by
  decide +kernel

/-- the witness of `interp_self_import_63_full`: 甲 imports 甲 -/
def selfFiles : FileTable := [("甲.zn", { imports := [imp 0 "甲"], exec := body [show_ 1 "甲"] })]

example : (match (runProgramWith selfFiles [] 8 { imports := [imp 0 "甲"], exec := body [show_ 1 "主"] } []
    (initVM (ν := Int) ())).1 with | .err (.rt 63) => true | _ => false) = true ∧
    (runProgramWith selfFiles [] 8 { imports := [imp 0 "甲"], exec := body [show_ 1 "主"] } [] (initVM (ν := Int) ())).2.out = [] := by
  decide +kernel

/-- 甲 ↔ 乙 -/
def cycleFiles : FileTable := [("甲.zn", { imports := [imp 0 "乙"], exec := body [show_ 1 "甲"] }),
  ("乙.zn", { imports := [imp 0 "甲"], exec := body [show_ 1 "乙"] })]

example : (match (runProgramWith cycleFiles [] 8 { imports := [imp 0 "甲"], exec := none } []
    (initVM (ν := Int) ())).1 with | .err (.rt 63) => true | _ => false) = true := by
  decide +kernel

/-- missing module / invalid module path / missing library -/
example : (match (runProgramWith [] [] 8 { imports := [imp 0 "缺"], exec := none } [] (initVM (ν := Int) ())).1 with
    | .err (.rt 60) => true | _ => false) = true ∧
    (match (runProgramWith [("甲/乙.zn", { imports := [], exec := none })] [] 8 { imports := [imp 0 "甲--乙"], exec := none } []
      (initVM (ν := Int) ())).1 with | .err (.rt 60) => true | _ => false) = true ∧
    (match (runProgramWith [] [("@JSON", ["解析JSON"])] 8 { imports := [imp 0 "@无"], exec := none } [] (initVM (ν := Int) ())).1 with
    | .err (.rt 64) => true | _ => false) = true := by
  decide +kernel

example : modulePath "目-内-丙" = some "目/内/丙.zn" ∧ modulePath "甲--乙" = none ∧ modulePath "..-外" = none ∧
    modulePath "甲/乙" = none ∧ isStdName "@JSON" = true ∧ isStdName "JSON" = false := by decide +kernel

end examples

end ZnVerif.Properties.C15Interp
