/-
C01 — Expressions evaluate to the values the manual defines.
Property theorems about the model evaluator (Model/Interp.lean `evalExpr`), for every number type ν,
every fuel, every VM state.  Helper lemmas live in ZnVerif/Proofs.
-/
import ZnVerif.Model.Interp

namespace ZnVerif.Properties.C01
open ZnVerif.Model

variable {ν : Type} [NumOps ν]

/-- `且`: when the left operand is 假 the right operand is not evaluated at all — the result and the
whole machine state are those after the left operand, whatever `r` is (calls, faults, loops …). -/
theorem and_short_circuit (n ln : Nat) (l r : Expr) (s s' : VM ν) (a : Addr)
    (hl : evalExpr n l s = (.ok a, s')) (hc : s'.heap[a]? = some (.bool false)) :
    evalExpr (n+1) (.logic ln LogicAND l r) s = newBool false s' := by
  simp only [evalExpr]
  simp [LogicAND, LogicOR, bind, hl, getCell, hc]

/-- `或`: when the left operand is 真 the right operand is not evaluated at all. -/
theorem or_short_circuit (n ln : Nat) (l r : Expr) (s s' : VM ν) (a : Addr)
    (hl : evalExpr n l s = (.ok a, s')) (hc : s'.heap[a]? = some (.bool true)) :
    evalExpr (n+1) (.logic ln LogicOR l r) s = newBool true s' := by
  simp only [evalExpr]
  simp [LogicAND, LogicOR, bind, hl, getCell, hc]

/-- `且` / `或` with a left operand that does decide nothing: the value is the right operand's. -/
theorem and_evaluates_right (n ln : Nat) (l r : Expr) (s s' s'' : VM ν) (a b : Addr) (rb : Bool)
    (hl : evalExpr n l s = (.ok a, s')) (hc : s'.heap[a]? = some (.bool true))
    (hr : evalExpr n r s' = (.ok b, s'')) (hd : s''.heap[b]? = some (.bool rb)) :
    evalExpr (n+1) (.logic ln LogicAND l r) s = newBool rb s'' := by
  simp only [evalExpr]
  simp [LogicAND, LogicOR, bind, hl, getCell, hc, hr, hd]

/-- 且/或 on a non-boolean left operand is error 80, and the right operand is not evaluated. -/
theorem logic_on_non_bool_is_error (n ln ty : Nat) (l r : Expr) (s s' : VM ν) (a : Addr) (c : Cell ν)
    (hty : ty = LogicAND ∨ ty = LogicOR)
    (hl : evalExpr n l s = (.ok a, s')) (hc : s'.heap[a]? = some c) (hnb : ∀ b, c ≠ .bool b) :
    evalExpr (n+1) (.logic ln ty l r) s = (.err (.rt 80), s') := by
  simp only [evalExpr]
  rcases hty with rfl | rfl <;> cases c <;>
    simp_all [LogicAND, LogicOR, bind, getCell, rtErr, throwE]

/-- division, floor division and remainder by zero are error 90, never a value -/
theorem div_by_zero_is_error (n ln ty : Nat) (l r : Expr) (s s' s'' : VM ν) (a b : Addr) (x y : ν)
    (hty : ty = ArithDiv ∨ ty = ArithIntDiv ∨ ty = ArithModulo)
    (hl : evalExpr n l s = (.ok a, s')) (hr : evalExpr n r s' = (.ok b, s''))
    (hx : s'.heap[a]? = some (.num x)) (hx' : s''.heap[a]? = some (.num x))
    (hy : s''.heap[b]? = some (.num y)) (hz : NumOps.isZero y = true) :
    evalExpr (n+1) (.arith ln ty l r) s = (.err (.rt 90), s'') := by
  simp only [evalExpr]
  rcases hty with rfl | rfl | rfl <;>
    simp [ArithDiv, ArithIntDiv, ArithModulo, ArithAdd, ArithSub, ArithMul, bind, hl, hr, getCell, hx, hx', hy, hz,
      rtErr, throwE]

/-- `+ − * / |` on a non-number left operand is error 80 (the right operand is not evaluated) -/
theorem arith_on_non_number_is_error (n ln ty : Nat) (l r : Expr) (s s' : VM ν) (a : Addr) (c : Cell ν)
    (hty : ty ≠ ArithModulo)
    (hl : evalExpr n l s = (.ok a, s')) (hc : s'.heap[a]? = some c) (hnn : ∀ x, c ≠ .num x) :
    evalExpr (n+1) (.arith ln ty l r) s = (.err (.rt 80), s') := by
  simp only [evalExpr]
  cases c <;> simp_all [bind, getCell, rtErr, throwE]

/-- floor division is `floor (a / b)`, remainder is `a − floor (a / b) · b` (as applications of the
number operations — that those are IEEE-754 is the runtime's, see DESIGN §3) -/
theorem intdiv_and_mod_formulas (n ln : Nat) (l r : Expr) (s s' s'' : VM ν) (a b : Addr) (x y : ν)
    (hl : evalExpr n l s = (.ok a, s')) (hr : evalExpr n r s' = (.ok b, s''))
    (hx : s'.heap[a]? = some (.num x)) (hx' : s''.heap[a]? = some (.num x))
    (hy : s''.heap[b]? = some (.num y)) (hz : NumOps.isZero y = false) :
    evalExpr (n+1) (.arith ln ArithIntDiv l r) s = newNum (NumOps.floor (NumOps.div x y)) s'' ∧
    evalExpr (n+1) (.arith ln ArithModulo l r) s =
      newNum (NumOps.sub x (NumOps.mul (NumOps.floor (NumOps.div x y)) y)) s'' := by
  constructor <;> simp only [evalExpr] <;>
    simp [ArithDiv, ArithIntDiv, ArithModulo, ArithAdd, ArithSub, ArithMul, bind, hl, hr, getCell, hx, hx', hy, hz]

/-- ordering comparisons on a non-number are an error (83 left, 84 right), never a value -/
theorem order_on_non_number_is_error (n ln ty : Nat) (l r : Expr) (s s' s'' : VM ν) (a b : Addr) (c : Cell ν)
    (hty : ty = LogicGT ∨ ty = LogicGTE ∨ ty = LogicLT ∨ ty = LogicLTE)
    (hl : evalExpr n l s = (.ok a, s')) (hr : evalExpr n r s' = (.ok b, s''))
    (hc : s''.heap[a]? = some c) (hnn : ∀ x, c ≠ .num x) :
    evalExpr (n+1) (.logic ln ty l r) s = (.err (.rt 83), s'') := by
  simp only [evalExpr]
  rcases hty with rfl | rfl | rfl | rfl <;> cases c <;>
    simp_all [LogicAND, LogicOR, LogicXEQ, LogicEQ, LogicXNEQ, LogicNEQ, LogicGT, LogicGTE, LogicLT, LogicLTE,
      bind, getCell, rtErr, throwE]

end ZnVerif.Properties.C01
