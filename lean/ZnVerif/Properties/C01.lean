/-
C01 — Expressions evaluate to the values the manual defines.
Property theorems about the model evaluator (Model/Interp.lean `evalExpr`), for every number type ν,
every fuel, every VM state.  Helper lemmas live in ZnVerif/Proofs.
-/
import ZnVerif.Model.Interp
import ZnVerif.Proofs.ExprRefine
import ZnVerif.Proofs.ExprInit
import ZnVerif.Proofs.ToyNum
set_option linter.unusedSectionVars false
set_option linter.unusedSimpArgs false

namespace ZnVerif.Properties.C01
open ZnVerif.Model

variable {ν : Type} [NumOps ν]

/-- `且`: when the left operand is 假 the right operand is not evaluated at all — the result and the
whole machine state are those after the left operand, whatever `r` is (calls, faults, loops …). -/
theorem and_short_circuit (n ln : Nat) (l r : Expr) (s s' : VM ν) (a : Addr)
    (hl : evalExpr n l s = (.ok a, s')) (hc : s'.heap[a]? = some (.bool false)) :
    evalExpr (n+1) (.logic ln LogicAND l r) s = newBool false s' := by
  simp only [evalExpr]
  simp [LogicAND, LogicOR, bind, hl, getCell, hc]

/-- `或`: when the left operand is 真 the right operand is not evaluated at all. -/
theorem or_short_circuit (n ln : Nat) (l r : Expr) (s s' : VM ν) (a : Addr)
    (hl : evalExpr n l s = (.ok a, s')) (hc : s'.heap[a]? = some (.bool true)) :
    evalExpr (n+1) (.logic ln LogicOR l r) s = newBool true s' := by
  simp only [evalExpr]
  simp [LogicAND, LogicOR, bind, hl, getCell, hc]

/-- `且` / `或` with a left operand that does decide nothing: the value is the right operand's. -/
theorem and_evaluates_right (n ln : Nat) (l r : Expr) (s s' s'' : VM ν) (a b : Addr) (rb : Bool)
    (hl : evalExpr n l s = (.ok a, s')) (hc : s'.heap[a]? = some (.bool true))
    (hr : evalExpr n r s' = (.ok b, s'')) (hd : s''.heap[b]? = some (.bool rb)) :
    evalExpr (n+1) (.logic ln LogicAND l r) s = newBool rb s'' := by
  simp only [evalExpr]
  simp [LogicAND, LogicOR, bind, hl, getCell, hc, hr, hd]

/-- 且/或 on a non-boolean left operand is error 80, and the right operand is not evaluated. -/
theorem logic_on_non_bool_is_error (n ln ty : Nat) (l r : Expr) (s s' : VM ν) (a : Addr) (c : Cell ν)
    (hty : ty = LogicAND ∨ ty = LogicOR)
    (hl : evalExpr n l s = (.ok a, s')) (hc : s'.heap[a]? = some c) (hnb : ∀ b, c ≠ .bool b) :
    evalExpr (n+1) (.logic ln ty l r) s = (.err (.rt 80), s') := by
  simp only [evalExpr]
  rcases hty with rfl | rfl <;> cases c <;>
    simp_all [LogicAND, LogicOR, bind, getCell, rtErr, throwE]

/-- division, floor division and remainder by zero are error 90, never a value -/
theorem div_by_zero_is_error (n ln ty : Nat) (l r : Expr) (s s' s'' : VM ν) (a b : Addr) (x y : ν)
    (hty : ty = ArithDiv ∨ ty = ArithIntDiv ∨ ty = ArithModulo)
    (hl : evalExpr n l s = (.ok a, s')) (hr : evalExpr n r s' = (.ok b, s''))
    (hx : s'.heap[a]? = some (.num x)) (hx' : s''.heap[a]? = some (.num x))
    (hy : s''.heap[b]? = some (.num y)) (hz : NumOps.isZero y = true) :
    evalExpr (n+1) (.arith ln ty l r) s = (.err (.rt 90), s'') := by
  simp only [evalExpr]
  rcases hty with rfl | rfl | rfl <;>
    simp [ArithDiv, ArithIntDiv, ArithModulo, ArithAdd, ArithSub, ArithMul, bind, hl, hr, getCell, hx, hx', hy, hz,
      rtErr, throwE]

/-- `+ − * / |` on a non-number left operand is error 80 (the right operand is not evaluated) -/
theorem arith_on_non_number_is_error (n ln ty : Nat) (l r : Expr) (s s' : VM ν) (a : Addr) (c : Cell ν)
    (hty : ty ≠ ArithModulo)
    (hl : evalExpr n l s = (.ok a, s')) (hc : s'.heap[a]? = some c) (hnn : ∀ x, c ≠ .num x) :
    evalExpr (n+1) (.arith ln ty l r) s = (.err (.rt 80), s') := by
  simp only [evalExpr]
  cases c <;> simp_all [bind, getCell, rtErr, throwE]

/-- floor division is `floor (a / b)`, remainder is `a − floor (a / b) · b` (as applications of the
number operations — that those are IEEE-754 is the runtime's, see DESIGN §3) -/
theorem intdiv_and_mod_formulas (n ln : Nat) (l r : Expr) (s s' s'' : VM ν) (a b : Addr) (x y : ν)
    (hl : evalExpr n l s = (.ok a, s')) (hr : evalExpr n r s' = (.ok b, s''))
    (hx : s'.heap[a]? = some (.num x)) (hx' : s''.heap[a]? = some (.num x))
    (hy : s''.heap[b]? = some (.num y)) (hz : NumOps.isZero y = false) :
    evalExpr (n+1) (.arith ln ArithIntDiv l r) s = newNum (NumOps.floor (NumOps.div x y)) s'' ∧
    evalExpr (n+1) (.arith ln ArithModulo l r) s =
      newNum (NumOps.sub x (NumOps.mul (NumOps.floor (NumOps.div x y)) y)) s'' := by
  constructor <;> simp only [evalExpr] <;>
    simp [ArithDiv, ArithIntDiv, ArithModulo, ArithAdd, ArithSub, ArithMul, bind, hl, hr, getCell, hx, hx', hy, hz]

/-- ordering comparisons on a non-number are an error (83 left, 84 right), never a value -/
theorem order_on_non_number_is_error (n ln ty : Nat) (l r : Expr) (s s' s'' : VM ν) (a b : Addr) (c : Cell ν)
    (hty : ty = LogicGT ∨ ty = LogicGTE ∨ ty = LogicLT ∨ ty = LogicLTE)
    (hl : evalExpr n l s = (.ok a, s')) (hr : evalExpr n r s' = (.ok b, s''))
    (hc : s''.heap[a]? = some c) (hnn : ∀ x, c ≠ .num x) :
    evalExpr (n+1) (.logic ln ty l r) s = (.err (.rt 83), s'') := by
  simp only [evalExpr]
  rcases hty with rfl | rfl | rfl | rfl <;> cases c <;>
    simp_all [LogicAND, LogicOR, LogicXEQ, LogicEQ, LogicXNEQ, LogicNEQ, LogicGT, LogicGTE, LogicLT, LogicLTE,
      bind, getCell, rtErr, throwE]


/-! ## The evaluator refines the spec semantics on the pure expression fragment

`PureExpr e` (Proofs/ExprBase): `e` is built from number literals, names, texts, list and dictionary
literals and the operators `+ - * / | %`, `== /= > < >= <=` / `为 不为 等于 …` and `且 或`, at any depth.
`EnvRel ω d s σ`: every name `findElement` sees in the machine `s` (globals, then the current module's
scope) is bound in the spec state `σ` (predefined, or in a block) to what its cell reads as within
depth `d+1` (`contentW ω`: the deep read of Proofs/Content; `ω` answers for object/method/type cells,
`content = contentW (fun _ => none)` is the read of plain values only), and names undefined on one
side are undefined on the other.  `Frame s s'`: `s'` is `s` with a heap in which every old cell is
unchanged (scopes, call stack, output, modules untouched).
`d = 0` means every visible name holds a scalar or an empty container.

The spec outcome `unspecified` (text-formatting `%` with a text on the left: C14) is excluded by hypothesis. -/

open ZnVerif.Proofs ZnVerif.Spec

/-- The master statement, for every number type, fuel, pure expression and related states: the spec
leaves its state alone and, unless it says `unspecified`, the model only allocates and ends with the
matching outcome — value whose cell reads as the spec value; runtime error ↔ raised fault with the same
code (`specCode`: 84 is reported by the spec as 83); semantic error ↔ fatal; out of fuel ↔ out of fuel
(for `d ≠ 0` also: model out of fuel inside a structural comparison where the spec raises 83). -/
theorem eval_refines_spec (ω : Addr → Option (SVal ν)) (d n : Nat) (e : Expr) (s : VM ν) (σ : SState ν)
    (he : PureExpr e) (henv : EnvRel ω d s σ) :
    ∃ r', evalE n e σ = (r', σ) ∧
      (r' = .unspecified ∨
        ∃ r s', evalExpr n e s = (r, s') ∧ Frame s s' ∧
          OutRel d (fun a v => contentW ω (n + d) s'.heap a = some v) r r') :=
  sim_eval ω d n e s σ he henv

/-- value clause: a model value is the spec's value, in any related states -/
theorem eval_value_refines_spec (ω : Addr → Option (SVal ν)) (d n : Nat) (e : Expr) (s s' : VM ν) (σ : SState ν) (a : Addr)
    (he : PureExpr e) (henv : EnvRel ω d s σ) (hs : (evalE n e σ).1 ≠ .unspecified)
    (hm : evalExpr n e s = (.ok a, s')) :
    ∃ v, evalE n e σ = (.ok v, σ) ∧ contentW ω (n + d) s'.heap a = some v ∧ Frame s s' := by
  obtain ⟨r', h1, h2⟩ := eval_refines_spec ω d n e s σ he henv
  rcases h2 with rfl | ⟨r, s1, h3, hF, hO⟩
  · rw [h1] at hs; exact absurd rfl hs
  · rw [hm] at h3; cases h3
    cases hO with
    | ok hq => exact ⟨_, h1, hq, hF⟩

/-- error clause: a model runtime error is the spec's raised fault with the same code, a semantic error
(malformed identifier) is the spec's fatal error -/
theorem eval_error_refines_spec (ω : Addr → Option (SVal ν)) (d n : Nat) (e : Expr) (s s' : VM ν) (σ : SState ν)
    (he : PureExpr e) (henv : EnvRel ω d s σ) (hs : (evalE n e σ).1 ≠ .unspecified) :
    (∀ c, evalExpr n e s = (.err (.rt c), s') → evalE n e σ = (.raise (.fault (specCode c)), σ) ∧ Frame s s') ∧
    (∀ c, evalExpr n e s = (.err (.sem c), s') → evalE n e σ = (.fatal c, σ) ∧ Frame s s') := by
  obtain ⟨r', h1, h2⟩ := eval_refines_spec ω d n e s σ he henv
  rcases h2 with rfl | ⟨r, s1, h3, hF, hO⟩
  · rw [h1] at hs; exact absurd rfl hs
  · constructor <;> intro c hm <;> rw [hm] at h3 <;> cases h3 <;> cases hO <;> exact ⟨h1, hF⟩

/-- on the pure fragment the model never panics, never leaves the modelled part, and raises no other
kind of error (signals, exception errors) -/
theorem eval_pure_outcomes (ω : Addr → Option (SVal ν)) (d n : Nat) (e : Expr) (s : VM ν) (σ : SState ν)
    (he : PureExpr e) (henv : EnvRel ω d s σ) (hs : (evalE n e σ).1 ≠ .unspecified) :
    (∃ a, (evalExpr n e s).1 = .ok a) ∨ (∃ c, (evalExpr n e s).1 = .err (.rt c)) ∨
    (∃ c, (evalExpr n e s).1 = .err (.sem c)) ∨ (evalExpr n e s).1 = .fuel := by
  obtain ⟨r', h1, h2⟩ := eval_refines_spec ω d n e s σ he henv
  rcases h2 with rfl | ⟨r, s1, h3, hF, hO⟩
  · rw [h1] at hs; exact absurd rfl hs
  · rw [h3]
    cases hO with
    | ok _ => exact .inl ⟨_, rfl⟩
    | rt c => exact .inr (.inl ⟨c, rfl⟩)
    | sem c => exact .inr (.inr (.inl ⟨c, rfl⟩))
    | fuel => exact .inr (.inr (.inr rfl))
    | fuelCmp _ => exact .inr (.inr (.inr rfl))

/-- converse direction: what the spec answers, the model answers (spec value ⇒ model value reading as it,
spec fault ⇒ model runtime error or — `d ≠ 0`, fault 83 only — out of fuel, spec out of fuel ⇒ model out of fuel) -/
theorem spec_outcome_is_models (ω : Addr → Option (SVal ν)) (d n : Nat) (e : Expr) (s : VM ν) (σ : SState ν)
    (he : PureExpr e) (henv : EnvRel ω d s σ) :
    (∀ v σ', evalE n e σ = (.ok v, σ') →
      ∃ a s', evalExpr n e s = (.ok a, s') ∧ contentW ω (n + d) s'.heap a = some v ∧ Frame s s') ∧
    (∀ σ', evalE n e σ = (.fuel, σ') → ∃ s', evalExpr n e s = (.fuel, s')) ∧
    (∀ c σ', evalE n e σ = (.raise (.fault c), σ') →
      (∃ c' s', evalExpr n e s = (.err (.rt c'), s') ∧ c = specCode c') ∨
      (d ≠ 0 ∧ c = 83 ∧ ∃ s', evalExpr n e s = (.fuel, s'))) := by
  obtain ⟨r', h1, h2⟩ := eval_refines_spec ω d n e s σ he henv
  refine ⟨?_, ?_, ?_⟩
  · intro v σ' hv
    rw [h1] at hv; cases hv
    rcases h2 with h | ⟨r, s1, h3, hF, hO⟩
    · cases h
    · cases hO with
      | ok hq => exact ⟨_, s1, h3, hq, hF⟩
  · intro σ' hv
    rw [h1] at hv; cases hv
    rcases h2 with h | ⟨r, s1, h3, hF, hO⟩
    · cases h
    · cases hO with
      | fuel => exact ⟨s1, h3⟩
  · intro c σ' hv
    rw [h1] at hv; cases hv
    rcases h2 with h | ⟨r, s1, h3, hF, hO⟩
    · cases h
    · cases hO with
      | rt c' => exact .inl ⟨c', s1, h3, rfl⟩
      | fuelCmp hd => exact .inr ⟨hd, rfl, s1, h3⟩

/-- The full fuel clause one would like: the model runs out of fuel exactly when the spec does.
It does NOT hold for the spec semantics as written: `Spec.valEq` answers `none` both for "not
comparable" and for "out of fuel", and `evalE` turns every `none` into fault 83, whereas the model's
`compareXEQ` reports out-of-fuel as such.  `eval_fuel_refines_spec_full_fails` below is the witness
(`x == x` with `x = [[1]]` and fuel 3).  What is proved instead: `eval_fuel_refines_spec_partial`
(for every `d`, with that one extra alternative) and `eval_refines_spec_scalar` (exact when `d = 0`).
Missing for the full statement: a three-valued `valEq` in Spec/Sem.lean (reported, not changed here). -/
def eval_fuel_refines_spec_full : Prop :=
  ∀ (μ : Type) [NumOps μ] (ω : Addr → Option (SVal μ)) (d n : Nat) (e : Expr) (s s' : VM μ) (σ : SState μ),
    PureExpr e → EnvRel ω d s σ → (evalE n e σ).1 ≠ .unspecified →
    evalExpr n e s = (.fuel, s') → evalE n e σ = (.fuel, σ)

/-- fuel clause as far as it holds for every `d` -/
theorem eval_fuel_refines_spec_partial (ω : Addr → Option (SVal ν)) (d n : Nat) (e : Expr) (s s' : VM ν) (σ : SState ν)
    (he : PureExpr e) (henv : EnvRel ω d s σ) (hs : (evalE n e σ).1 ≠ .unspecified)
    (hm : evalExpr n e s = (.fuel, s')) :
    (evalE n e σ = (.fuel, σ) ∨ (d ≠ 0 ∧ evalE n e σ = (.raise (.fault 83), σ))) ∧ Frame s s' := by
  obtain ⟨r', h1, h2⟩ := eval_refines_spec ω d n e s σ he henv
  rcases h2 with rfl | ⟨r, s1, h3, hF, hO⟩
  · rw [h1] at hs; exact absurd rfl hs
  · rw [hm] at h3; cases h3
    cases hO with
    | fuel => exact ⟨.inl h1, hF⟩
    | fuelCmp hd => exact ⟨.inr ⟨hd, h1⟩, hF⟩

/-- Full strength when the visible names hold scalars (or empty containers), for all pure expressions
including nested list / dictionary literals and structural comparisons of them: value ↔ value (the
result cell reads as the spec value), runtime error ↔ fault with the same code, semantic error ↔ fatal,
out of fuel ↔ out of fuel; the model state is only extended, the spec state unchanged. -/
theorem eval_refines_spec_scalar (ω : Addr → Option (SVal ν)) (n : Nat) (e : Expr) (s : VM ν) (σ : SState ν)
    (he : PureExpr e) (henv : EnvRel ω 0 s σ) (hs : (evalE n e σ).1 ≠ .unspecified) :
    ∃ r s' r', evalExpr n e s = (r, s') ∧ evalE n e σ = (r', σ) ∧ Frame s s' ∧
      ((∃ a v, r = .ok a ∧ r' = .ok v ∧ contentW ω n s'.heap a = some v) ∨
       (∃ c, r = .err (.rt c) ∧ r' = .raise (.fault (specCode c))) ∨
       (∃ c, r = .err (.sem c) ∧ r' = .fatal c) ∨
       (r = .fuel ∧ r' = .fuel)) := by
  obtain ⟨r', h1, h2⟩ := eval_refines_spec ω 0 n e s σ he henv
  rcases h2 with rfl | ⟨r, s1, h3, hF, hO⟩
  · rw [h1] at hs; exact absurd rfl hs
  · refine ⟨r, s1, r', h3, h1, hF, ?_⟩
    cases hO with
    | ok hq => exact .inl ⟨_, _, rfl, rfl, hq⟩
    | rt c => exact .inr (.inl ⟨c, rfl, rfl⟩)
    | sem c => exact .inr (.inr (.inl ⟨c, rfl, rfl⟩))
    | fuel => exact .inr (.inr (.inr ⟨rfl, rfl⟩))
    | fuelCmp hd => exact absurd rfl hd

/-! ## Structural equality (为 不为 == /=) -/

/-- on plain values (numbers, texts, booleans, 空, lists and dictionaries of plain values, read by
`content`) the evaluator's comparison never errors and answers exactly the spec's `valEq`
(given fuel for the depth of the values) -/
theorem xeq_total_on_plain (n k : Nat) (s : VM ν) (l r : Addr) (a b : SVal ν)
    (hl : content k s.heap l = some a) (hr : content k s.heap r = some b) (hk : k ≤ n) :
    ∃ bv, compareXEQ n l r s = (.ok bv, s) ∧ valEq n a b = some bv := by
  obtain ⟨X, hX, hR⟩ := cmp_sim (fun _ => none) s n k l r a b hl hr
  generalize valEq n a b = o at hR
  cases hR with
  | ok bv => exact ⟨bv, hX, rfl⟩
  | err h => exact absurd (fun _ => rfl) h
  | fuel h => omega

/-- operands of different plain types are simply unequal: 为 / == answer 假 and 不为 / /= answer 真,
whatever the two values are (the right operand may even be an object or a method) -/
theorem xeq_types_differ_false (n ln : Nat) (l r : Expr) (s s1 s2 : VM ν) (a b : Addr) (cl cr : Cell ν) (t : Nat)
    (hl : evalExpr n l s = (.ok a, s1)) (hr : evalExpr n r s1 = (.ok b, s2))
    (ha : s2.heap[a]? = some cl) (hb : s2.heap[b]? = some cr)
    (h1 : cellTag cl = some t) (h2 : cellTag cr ≠ some t) :
    (∀ ty, ty = LogicXEQ ∨ ty = LogicEQ → evalExpr (n+1) (.logic ln ty l r) s = newBool false s2) ∧
    (∀ ty, ty = LogicXNEQ ∨ ty = LogicNEQ → evalExpr (n+1) (.logic ln ty l r) s = newBool true s2) := by
  have hc : compareXEQ n a b s2 = (.ok false, s2) := by
    cases n with
    | zero => simp [evalExpr, outOfFuel] at hl
    | succ m => exact compareXEQ_tags_differ m s2 a b cl cr ha hb t h1 h2
  constructor <;> intro ty hty <;> rcases hty with rfl | rfl <;> simp only [evalExpr] <;>
    simp [LogicAND, LogicOR, LogicXEQ, LogicEQ, LogicXNEQ, LogicNEQ, bind, hl, hr, hc]

/-- spec-level: values of different plain types are unequal (`valEq` answers `some false`) -/
theorem spec_types_differ_false (n : Nat) (a b : SVal ν) (t : Nat)
    (h1 : valTag a = some t) (h2 : valTag b ≠ some t) : valEq (n+1) a b = some false :=
  valEq_tags_differ n a b t h1 h2

/-! ## The documented table, read directly off the spec semantics (`Spec.evalE`) -/

/-- 且 with a left operand 假 is 假 and the right operand is not evaluated (`r` is arbitrary, the state is the one after `l`) -/
theorem spec_and_short_circuit (n ln : Nat) (l r : Expr) (σ σ' : SState ν)
    (hl : evalE n l σ = (.ok (.bool false), σ')) :
    evalE (n+1) (.logic ln LogicAND l r) σ = (.ok (.bool false), σ') := by
  simp only [evalE]
  simp [LogicAND, LogicOR, bind, hl, pure]

/-- 或 with a left operand 真 is 真 and the right operand is not evaluated -/
theorem spec_or_short_circuit (n ln : Nat) (l r : Expr) (σ σ' : SState ν)
    (hl : evalE n l σ = (.ok (.bool true), σ')) :
    evalE (n+1) (.logic ln LogicOR l r) σ = (.ok (.bool true), σ') := by
  simp only [evalE]
  simp [LogicAND, LogicOR, bind, hl, pure]

/-- `/`, `|` and `%` with a zero divisor raise fault 90, never a value -/
theorem spec_div_zero (n ln ty : Nat) (l r : Expr) (σ σ1 σ2 : SState ν) (x y : ν)
    (hty : ty = ArithDiv ∨ ty = ArithIntDiv ∨ ty = ArithModulo)
    (hl : evalE n l σ = (.ok (.num x), σ1)) (hr : evalE n r σ1 = (.ok (.num y), σ2))
    (hz : NumOps.isZero y = true) :
    evalE (n+1) (.arith ln ty l r) σ = (.raise (.fault 90), σ2) := by
  simp only [evalE]
  rcases hty with rfl | rfl | rfl <;>
    simp [ArithDiv, ArithIntDiv, ArithModulo, ArithAdd, ArithSub, ArithMul, bind, hl, hr, hz, fault, sfail]

/-- `a | b` is `floor (a / b)` -/
theorem spec_floor_div (n ln : Nat) (l r : Expr) (σ σ1 σ2 : SState ν) (x y : ν)
    (hl : evalE n l σ = (.ok (.num x), σ1)) (hr : evalE n r σ1 = (.ok (.num y), σ2))
    (hz : NumOps.isZero y = false) :
    evalE (n+1) (.arith ln ArithIntDiv l r) σ = (.ok (.num (NumOps.floor (NumOps.div x y))), σ2) := by
  simp only [evalE]
  simp [ArithDiv, ArithIntDiv, ArithModulo, ArithAdd, ArithSub, ArithMul, bind, hl, hr, hz, pure]

/-- `a % b` is `a − floor (a / b) · b` -/
theorem spec_modulo (n ln : Nat) (l r : Expr) (σ σ1 σ2 : SState ν) (x y : ν)
    (hl : evalE n l σ = (.ok (.num x), σ1)) (hr : evalE n r σ1 = (.ok (.num y), σ2))
    (hz : NumOps.isZero y = false) :
    evalE (n+1) (.arith ln ArithModulo l r) σ =
      (.ok (.num (NumOps.sub x (NumOps.mul (NumOps.floor (NumOps.div x y)) y))), σ2) := by
  simp only [evalE]
  simp [ArithDiv, ArithIntDiv, ArithModulo, ArithAdd, ArithSub, ArithMul, bind, hl, hr, hz, pure]

/-! ## Non-vacuity: concrete expressions on the initial machine, numbers instantiated by a toy `Int`

`envRel_init` (Proofs/ExprInit): the initial machine `initVM ()` (predefined names 真 假 空 异常 显示 取随机数 数值)
and the initial spec state `{}` satisfy `EnvRel initω 0`, for every number type. -/

/-- the hypothesis `EnvRel` of the refinement theorems holds of the real initial states, for every number type -/
theorem initial_states_related : EnvRel (ν := ν) initω 0 (initVM ()) ({} : SState ν) := envRel_init

section examples
attribute [local instance] toyNumOps

private def lit (t : String) : Expr := .id ⟨0, t⟩
/-- `1 + 2 * 3` -/
private def ex1 : Expr := .arith 0 ArithAdd (lit "1") (.arith 0 ArithMul (lit "2") (lit "3"))
/-- `假 且 (1 / 0 == 1)` -/
private def ex2 : Expr :=
  .logic 0 LogicAND (lit "假") (.logic 0 LogicEQ (.arith 0 ArithDiv (lit "1") (lit "0")) (lit "1"))
/-- `5 % 0` -/
private def ex3 : Expr := .arith 0 ArithModulo (lit "5") (lit "0")
/-- `[1, “a”, [甲 = 2]] 为 [1, “a”, [甲 = 2]]` -/
private def ex4 : Expr :=
  let v : Expr := .arr 0 [lit "1", .str 0 "a", .hm 0 [(lit "甲", lit "2")]]
  .logic 0 LogicXEQ v v
/-- `1 < “a”` -/
private def ex5 : Expr := .logic 0 LogicLT (lit "1") (.str 0 "a")
/-- `7 | 2 不为 真` -/
private def ex6 : Expr := .logic 0 LogicXNEQ (.arith 0 ArithIntDiv (lit "7") (lit "2")) (lit "真")

private theorem pure1 : PureExpr ex1 := .arith _ _ _ _ (by decide) (.id _) (.arith _ _ _ _ (by decide) (.id _) (.id _))
private theorem pure2 : PureExpr ex2 :=
  .logic _ _ _ _ (by decide) (.id _) (.logic _ _ _ _ (by decide) (.arith _ _ _ _ (by decide) (.id _) (.id _)) (.id _))
private theorem pure3 : PureExpr ex3 := .arith _ _ _ _ (by decide) (.id _) (.id _)
private theorem pure4 : PureExpr ex4 := by
  have hv : PureExpr (.arr 0 [lit "1", .str 0 "a", .hm 0 [(lit "甲", lit "2")]]) := by
    refine .arr _ _ fun e he => ?_
    simp only [List.mem_cons, List.not_mem_nil, or_false] at he
    rcases he with rfl | rfl | rfl
    · exact .id _
    · exact .str _ _
    · refine .hm _ _ fun kv hkv => ?_
      simp only [List.mem_cons, List.not_mem_nil, or_false] at hkv
      subst hkv; exact .id _
  exact .logic _ _ _ _ (by decide) hv hv
private theorem pure5 : PureExpr ex5 := .logic _ _ _ _ (by decide) (.id _) (.str _ _)

/-- observable part of a model outcome: `inl` the number/boolean the result cell reads as, `inr` the runtime error code -/
private def modelObs (r : Res Addr × VM Int) : Option (Sum (Option Int × Option Bool) Nat) :=
  match r with
  | (.ok a, s) => (content 8 s.heap a).map fun v => .inl (svalNum v, svalBool v)
  | (.err (.rt c), _) => some (.inr c)
  | _ => none

-- `1 + 2 * 3` is 7, in the model and in the spec; the theorem's hypotheses hold and its conclusion is that fact
example : modelObs (evalExpr 3 ex1 (initVM ())) = some (.inl (some 7, none)) := by decide +kernel
example : evalE 3 ex1 ({} : SState Int) = (.ok (.num 7), {}) := rfl
example : ∃ a s', evalExpr 3 ex1 (initVM ()) = (.ok a, s') ∧ contentW initω 3 s'.heap a = some (.num (7 : Int)) ∧
    Frame (initVM ()) s' := by
  obtain ⟨a, s', h, hc, hF⟩ := (spec_outcome_is_models (ν := Int) initω 0 3 ex1 (initVM ()) {} pure1 envRel_init).1 _ _ rfl
  exact ⟨a, s', h, hc, hF⟩

-- `假 且 (1/0 == 1)` is 假: the division by zero on the right is never evaluated
example : modelObs (evalExpr 4 ex2 (initVM ())) = some (.inl (none, some false)) := by decide +kernel
example : evalE 4 ex2 ({} : SState Int) = (.ok (.bool false), {}) := rfl
example : ∃ a s', evalExpr 4 ex2 (initVM ()) = (.ok a, s') ∧ contentW initω 4 s'.heap a = some (.bool false : SVal Int) := by
  obtain ⟨a, s', h, hc, _⟩ := (spec_outcome_is_models (ν := Int) initω 0 4 ex2 (initVM ()) {} pure2 envRel_init).1 _ _ rfl
  exact ⟨a, s', h, hc⟩

-- `5 % 0` is error 90 in both
example : modelObs (evalExpr 2 ex3 (initVM ())) = some (.inr 90) := by decide +kernel
example : evalE 2 ex3 ({} : SState Int) = (.raise (.fault 90), {}) := rfl

-- structural equality of nested literals
example : modelObs (evalExpr 5 ex4 (initVM ())) = some (.inl (none, some true)) := by decide +kernel
example : evalE 5 ex4 ({} : SState Int) = (.ok (.bool true), {}) := rfl
example : PureExpr ex4 ∧ (evalE 5 ex4 ({} : SState Int)).1 ≠ .unspecified :=
  ⟨pure4, by rw [show evalE 5 ex4 ({} : SState Int) = (.ok (.bool true), {}) from rfl]; simp⟩

-- the one code on which model and spec differ (`specCode`): a non-number right operand of an ordering
example : modelObs (evalExpr 2 ex5 (initVM ())) = some (.inr 84) := by decide +kernel
example : evalE 2 ex5 ({} : SState Int) = (.raise (.fault 83), {}) := rfl
example : specCode 84 = 83 ∧ specCode 83 = 83 ∧ specCode 90 = 90 := by decide

-- different plain types are unequal: `7 | 2 不为 真` is 真 (and 7 | 2 = 3)
example : modelObs (evalExpr 3 ex6 (initVM ())) = some (.inl (none, some true)) := by decide +kernel
example : evalE 3 ex6 ({} : SState Int) = (.ok (.bool true), {}) := rfl

/-! ### the full fuel clause fails for the spec semantics as written -/

/-- the initial machine plus a global `x = [[1]]` -/
private def sW : VM Int :=
  { initVM (ν := Int) () with
    heap := (initVM (ν := Int) ()).heap ++ #[.num 1, .arr [7], .arr [8]],
    globals := ("x", 9) :: (initVM (ν := Int) ()).globals }
private def σW : SState Int := { env := [[{ name := "x", const := false, val := .list [.list [.num 1]] }]] }
/-- `x == x` -/
private def exW : Expr := .logic 0 LogicEQ (lit "x") (lit "x")

private theorem envRel_W : EnvRel initω 2 sW σW := by
  intro name
  have hscope : getScope sW.csModuleID sW = none := rfl
  by_cases h0 : name = "x"
  · subst h0; simp [visible, specVisible, sW, σW, initVM, lookup, predefVal, contentW, findB, allSome]
  by_cases h1 : name = "真"
  · subst h1; simp [visible, specVisible, sW, initVM, lookup, predefVal, contentW]
  by_cases h2 : name = "假"
  · subst h2; simp [visible, specVisible, sW, initVM, lookup, predefVal, contentW]
  by_cases h3 : name = "空"
  · subst h3; simp [visible, specVisible, sW, initVM, lookup, predefVal, contentW]
  by_cases h4 : name = "异常"
  · subst h4; simp [visible, specVisible, sW, initVM, lookup, predefVal, contentW, initω, isOpaque, exceptionClassName]
  by_cases h5 : name = "显示"
  · subst h5; simp [visible, specVisible, sW, initVM, lookup, predefVal, contentW, initω, isOpaque]
  by_cases h6 : name = "取随机数"
  · subst h6; simp [visible, specVisible, sW, initVM, lookup, predefVal, contentW, initω, isOpaque]
  by_cases h7 : name = "数值"
  · subst h7; simp [visible, specVisible, sW, initVM, lookup, predefVal, contentW, toyNumOps]
  · have hv : visible sW name = none := by
      simp only [visible, hscope]
      simp [sW, initVM, lookup, h0, h1, h2, h3, h4, h5, h6, h7]
    have hp : predefVal (ν := Int) name = none := by
      unfold predefVal
      split <;> simp_all
    have hf : findB name σW.env = none := by
      have : ("x" == name) = false := by simp; exact fun e => h0 e.symm
      simp [σW, findB, List.find?, this]
    simp [hv, specVisible, hp, hf]

private def resIsFuel {α} : Res α → Bool
  | .fuel => true
  | _ => false
private def rIsFault83 : R Int (SVal Int) → Bool
  | .raise (.fault 83) => true
  | _ => false

/-- with fuel 3 the model's comparison of `[[1]]` with itself runs out of fuel, the spec raises fault 83 -/
theorem eval_fuel_refines_spec_full_fails : ¬ eval_fuel_refines_spec_full := by
  intro h
  have hm : resIsFuel (evalExpr 3 exW sW).1 = true := by decide +kernel
  have hs : rIsFault83 (evalE 3 exW σW).1 = true := by decide +kernel
  have hm' : evalExpr 3 exW sW = (.fuel, (evalExpr 3 exW sW).2) := by
    generalize evalExpr 3 exW sW = p at hm
    obtain ⟨r, s'⟩ := p
    cases r <;> simp [resIsFuel] at hm ⊢
  have := h Int initω 2 3 exW sW _ σW (.logic _ _ _ _ (by decide) (.id _) (.id _)) envRel_W
    (by generalize (evalE 3 exW σW).1 = r at hs; intro e; subst e; simp [rIsFault83] at hs) hm'
  rw [this] at hs
  simp [rIsFault83] at hs

end examples

end ZnVerif.Properties.C01
