/-
C16 (evaluator part) — what one execution can do to values that outlive it.  The heap cells of the predefined
values are created once (`initVM`); the evaluator only ever overwrites a cell with a cell of the same kind, and
never a method, truth-value, 空 or exception-value cell at all.  So 真 假 空 显示 取随机数 (and library
functions) cannot be altered by any program; 数值 (a number cell) and 异常 (a type cell) can — which is why the
interpreter builds those two afresh for every execution.  (A text cell can be altered too: 转换数值 stores the rewritten
text back into its receiver; no predefined value is a text.)
By the fuel induction `allPres` (Proofs/Balance*.lean) for the relation `KS` (Proofs/FnStable.lean).
-/
import ZnVerif.Proofs.FnStable
import ZnVerif.Proofs.Toy
set_option linter.unusedSectionVars false
set_option linter.unusedSimpArgs false
set_option linter.unusedVariables false

namespace ZnVerif.Properties.C16Eval
open ZnVerif.Model ZnVerif.Proofs.Calls ZnVerif.Proofs.Balance

variable {ν : Type} [NumOps ν]

/-- method cells that exist in `s` are the same method cells in `s'` -/
def FnStable (s s' : VM ν) : Prop := ∀ (i : Nat) (f : FnRef), s.heap[i]? = some (.fn f) → s'.heap[i]? = some (.fn f)

theorem FnStable.of_KS {s s' : VM ν} (h : KS s s') : FnStable s s' := by
  intro i f hf
  obtain ⟨c', hc', _, hfr⟩ := h i (.fn f) hf
  rw [hc', hfr rfl]

/-- no step of the evaluator — expression, statement, call, method call, constructor, handler, declaration — ever
changes a method cell, at any fuel, on any outcome (value, error, signal, panic, out of fuel) -/
theorem fn_cells_immutable (n : Nat) (s : VM ν) :
    (∀ e, FnStable s (evalExpr n e s).2) ∧
    (∀ st, FnStable s (evalStmt n st s).2) ∧
    (∀ b ps, FnStable s (evalExecBlock n b ps s).2) ∧
    (∀ f ps, FnStable s (execDirectFunction n f ps s).2) ∧
    (∀ r f ps, FnStable s (execMethodFunction n r f ps s).2) ∧
    (∀ c ps, FnStable s (construct n c ps s).2) ∧
    (∀ bm bd cs e, FnStable s (handleException n bm bd cs e s).2) ∧
    (∀ st, FnStable s (evalClassDecl n st s).2) ∧
    (∀ st, FnStable s (evalFuncDecl n st s).2) ∧
    (∀ st, FnStable s (evalCtorDecl n st s).2) := by
  have h := allPres (ν := ν) (R := KS) n
  exact ⟨fun e => .of_KS ((h.evalExpr e).run s), fun st => .of_KS ((h.evalStmt st).run s),
    fun b ps => .of_KS ((h.evalExecBlock b ps).run s), fun f ps => .of_KS ((h.execDirectFunction f ps).run s),
    fun r f ps => .of_KS ((h.execMethodFunction r f ps).run s), fun c ps => .of_KS ((h.construct c ps).run s),
    fun bm bd cs e => .of_KS ((h.handleException bm bd cs e).run s),
    fun st => .of_KS ((h.evalClassDecl st).run s), fun st => .of_KS ((h.evalFuncDecl st).run s),
    fun st => .of_KS ((h.evalCtorDecl st).run s)⟩

/-- …nor does a whole execution (`Execute`: allocate the main module, push the script frame, bind the inputs, run) -/
theorem fn_cells_immutable_program (fuel : Nat) (p : Program) (inputs : List (String × Cell ν)) (s : VM ν) :
    FnStable s (runProgram fuel p inputs s).2 :=
  .of_KS ((ks_runProgram fuel p inputs).run s)

/-- the general fact behind it: every existing cell keeps its kind, and cells of the kinds method / truth
value / 空 / exception value keep their content — for every step and for whole executions.  (Cells of the other
kinds — number, text, list, dictionary, object, type — are overwritten by 自增, 转换数值, 后增, 写入, property assignment,
constructor definition, …, always with a cell of the same kind.) -/
theorem cells_keep_kind (fuel : Nat) (p : Program) (inputs : List (String × Cell ν)) (s : VM ν) (i : Nat)
    (c : Cell ν) (hc : s.heap[i]? = some c) :
    ∃ c', (runProgram fuel p inputs s).2.heap[i]? = some c' ∧ kindOf c' = kindOf c ∧
      ((kindOf c).frozen = true → c' = c) :=
  (ks_runProgram fuel p inputs).run s i c hc

theorem cells_keep_kind_step (n : Nat) (st : Stmt) (s : VM ν) (i : Nat) (c : Cell ν) (hc : s.heap[i]? = some c) :
    ∃ c', (evalStmt n st s).2.heap[i]? = some c' ∧ kindOf c' = kindOf c ∧ ((kindOf c).frozen = true → c' = c) :=
  ((allPres (ν := ν) (R := KS) n).evalStmt st).run s i c hc

/-- the predefined values of the kinds truth value / 空 / method — 真 (0), 假 (1), 空 (2), 显示 (4), 取随机数 (5) — are
after any execution started from the predefined heap exactly what they were; 异常 (3) is still a type cell and
数值 (6) still a number cell, but those two can have been altered -/
theorem builtin_values_unchanged_kind (fuel : Nat) (p : Program) (inputs : List (String × Cell ν)) (s : VM ν)
    (hs : s.heap = (initVM (ν := ν) ()).heap) :
    let h' := (runProgram fuel p inputs s).2.heap
    h'[0]? = some (.bool true) ∧ h'[1]? = some (.bool false) ∧ h'[2]? = some .null ∧
    h'[4]? = some (.fn .display) ∧ h'[5]? = some (.fn .random) ∧
    (∃ c, h'[3]? = some c ∧ kindOf c = .cls) ∧ (∃ c, h'[6]? = some c ∧ kindOf c = .num) := by
  intro h'
  have hk := fun i c hc => cells_keep_kind fuel p inputs s i c hc
  have hget : ∀ (i : Nat) (c : Cell ν), (initVM (ν := ν) ()).heap[i]? = some c → s.heap[i]? = some c := by
    intro i c h; rw [hs]; exact h
  have frozen : ∀ (i : Nat) (c : Cell ν), (initVM (ν := ν) ()).heap[i]? = some c → (kindOf c).frozen = true →
      h'[i]? = some c := by
    intro i c h hf
    obtain ⟨c', h1, _, h3⟩ := hk i c (hget i c h)
    rw [← h3 hf]; exact h1
  refine ⟨frozen 0 _ rfl rfl, frozen 1 _ rfl rfl, frozen 2 _ rfl rfl, frozen 4 _ rfl rfl, frozen 5 _ rfl rfl, ?_, ?_⟩
  · obtain ⟨c', h1, h2, _⟩ := hk 3 _ (hget 3 _ rfl)
    exact ⟨c', h1, h2⟩
  · obtain ⟨c', h1, h2, _⟩ := hk 6 _ (hget 6 _ rfl)
    exact ⟨c', h1, h2⟩

/-! ## non-vacuity -/

section examples
open ZnVerif.Proofs.Toy

/-- `定义点：…`, `如何新建点？ …` (the constructor of 点 is redefined: a `setCell` on the type cell), `（显示：“a”）` -/
def prog : Program :=
  { imports := []
    exec := some (.mk []
      (some [.classDecl 0 (some ⟨0, "点"⟩) [] [] [],
             .funcDecl 1 (some ⟨1, "点"⟩) 3 (some (.mk [] (some []) [])),
             .expr (.call 2 (some ⟨2, "显示"⟩) [.str 2 "a"] none)])
      []) }

/-- the program displays a and has rewritten the type cell (address 7: its constructor is now the user one) … -/
example : (runProgram 10 prog [] (initVM (ν := Int) ())).2.out = ["a"] ∧
    ((runProgram 10 prog [] (initVM (ν := Int) ())).2.heap[7]?.map fun c =>
      match c with | .cls "点" (.user 0 _) _ _ => true | _ => false) = some true := by
  decide +kernel

/-- … and cell 4 (显示) is intact -/
example : (runProgram 10 prog [] (initVM (ν := Int) ())).2.heap[4]? = some (.fn .display) :=
  fn_cells_immutable_program 10 prog [] _ 4 .display rfl

example : (runProgram 10 prog [] (initVM (ν := Int) ())).2.heap[0]? = some (.bool true) :=
  (builtin_values_unchanged_kind 10 prog [] (initVM (ν := Int) ()) rfl).1

/-- the companion negative: a number cell CAN be altered in place — `以 数值（自增：…）` on the cell 6 of a heap that also
holds a 5 at address 7 turns 数值 into 5 (so a shared 数值 would leak between executions) -/
example : (builtinMethod 1 6 "自增" [7] { initVM (ν := Int) () with heap := (initVM (ν := Int) ()).heap.push (.num 5) }).2.heap[6]?
    = some (.num 5) := rfl

/-- likewise a text cell: 转换数值 leaves `1e3` where `1*^3` was -/
example : (builtinMethod 1 7 "转换数值" [] { initVM (ν := Int) () with heap := (initVM (ν := Int) ()).heap.push (.str "1*^3") }).2.heap[7]?
    = some (.str "1e3") := by rfl

example : ∃ c', (evalStmt 3 (.empty 0) s0).2.heap[0]? = some c' ∧ kindOf c' = Kind.exc ∧ c' = .exc "boom" := by
  obtain ⟨c', h1, h2, h3⟩ := cells_keep_kind_step 3 (.empty 0) s0 0 (.exc "boom") rfl
  exact ⟨c', h1, h2, h3 rfl⟩

end examples

end ZnVerif.Properties.C16Eval
