/-
C11 — Execution is deterministic: nothing observable depends on hash-map iteration order, addresses or timing.
Property theorems only; helper lemmas live in ZnVerif/Proofs/MapSites.lean.

Model: ZnVerif/Model/MapSites.lean — every `range`-over-map site of the interpreter as a function of the order
oracle (the sequence `es` the Go runtime yields, `RangeOrder m es`: any permutation of the map's entries), plus
dictionary equality on pure trees.  The inventory of sites and of randomness / clock / identity / goroutine uses is
`ZnVerif/Generated/Facts.lean`, regenerated from the working tree by go/types on every run.

Shape of the argument.  The evaluator model (Model/Interp.lean) is a pure function with no oracle parameter, so the
only way an execution could depend on the runtime's choices is through the places the inventory lists:
  (1) `sites_all_classified` — every regenerated map-range site is one of the hand-classified ones;
  (2) one theorem per classified site of this property — for ALL maps, ALL pairs of yield orders, ALL loop-body
      functions: same result (state AND first error);
  (3) `no_other_sources` — no clock, `%p`, goroutine or `select` in the execution path, `rand` only in 取随机数,
      the single identity comparison is `IsInstanceOf` (class identity = declaration, no address is ever shown);
  (4) `xeq_content_only` — dictionary equality (为 / 不为 / == / 包含 / 寻找) is a function of contents.
Sites owned by C15 / C19 / C20 are listed as external.  Not modelled: the Go scheduler and address space.
-/
import ZnVerif.Proofs.MapSites

namespace ZnVerif.Properties.C11
open ZnVerif ZnVerif.Model.MapSites ZnVerif.Proofs.MapSites ZnVerif.Generated

variable {κ : Type} {α : Type} {β : Type} {σ : Type} {ε : Type} [DecidableEq κ]

/-! ### (1) the inventory is complete -/

/-- Every `range` over a map that go/types finds in pkg/exec, pkg/value, pkg/runtime, pkg/common, pkg/syntax, pkg/io,
pkg/error, pkg/server, stdlib/json, stdlib/file — with its multiplicity and loop shape — is a classified site. -/
theorem sites_all_classified : ∀ s ∈ Facts.mapRangeSites, s ∈ classified := by decide

/-- the scan saw the sources (a scan that silently reached nothing would make the theorem above vacuous) -/
theorem inventory_nonempty : Facts.rangeStmtTotal ≥ 100 ∧ Facts.mapRangeSites.length ≥ 3 := by decide

/-! ### (3) no other source of nondeterminism -/

/-- In the execution path (everything but the prefork process manager's two files): the only use of a random
generator is 取随机数 (`rand.Float64`, excepted by the property); no clock is read; no `%p`; no goroutine is started and
no `select` chooses; the only identity comparison between interpreter values is the class test of `IsInstanceOf`. -/
theorem no_other_sources :
    Facts.randUses.filter inExecPath = [⟨"pkg/exec/globals.go", "newGetRandomFloatFunc", "rand.Float64", 1, ""⟩] ∧
    Facts.timeUses.filter inExecPath = [] ∧
    Facts.percentP = [] ∧
    Facts.goStmts.filter inExecPath = [] ∧
    Facts.selectStmts.filter inExecPath = [] ∧
    (∀ s ∈ Facts.ptrCompares, s = ⟨"pkg/value/object.go", "(*Object).IsInstanceOf", "zo.model == classModel", 1, ""⟩) := by
  decide

/-! ### (2) per-site order independence -/

/-- `NewObject`: whatever order the property map of the class is ranged in, the new object's property map reads
the same under every name (and every later access to it is by name: the inventory lists no range over `propList`). -/
theorem newObject_order_independent (dup : α → α) (init m es₁ es₂ : GoMap κ α) (hm : WF m)
    (h₁ : RangeOrder m es₁) (h₂ : RangeOrder m es₂) (k : κ) :
    get? k (newObject dup init es₁) = get? k (newObject dup init es₂) := by
  rw [newObject_get? dup init es₁ (wf_of_perm hm h₁), newObject_get? dup init es₂ (wf_of_perm hm h₂),
    get?_perm hm h₁, get?_perm hm h₂]

/-- … and what it reads is: the value given at construction, else a copy of the declared default. -/
theorem newObject_reads (dup : α → α) (init m es : GoMap κ α) (hm : WF m) (h : RangeOrder m es) (k : κ) :
    get? k (newObject dup init es) = (get? k m).map (objValue dup init k) := by
  rw [newObject_get? dup init es (wf_of_perm hm h), get?_perm hm h]

example : get? "b" (newObject (· + 100) [("b", 7)] [("a", 1), ("b", 2), ("c", 3), ("d", 4)]) = some 7 ∧
    get? "b" (newObject (· + 100) [("b", 7)] [("d", 4), ("b", 2), ("a", 1), ("c", 3)]) = some 7 ∧
    get? "c" (newObject (· + 100) [("b", 7)] [("d", 4), ("b", 2), ("a", 1), ("c", 3)]) = some 103 := by decide

/-- Standard-library import: copying the library's exports into the module (refusals of already present names are
dropped by the code) leaves the same export table whatever the order. -/
theorem libraryCopy_order_independent (m0 m es₁ es₂ : GoMap κ α) (hm : WF m)
    (h₁ : RangeOrder m es₁) (h₂ : RangeOrder m es₂) (k : κ) :
    get? k (libraryCopy m0 es₁) = get? k (libraryCopy m0 es₂) := by
  rw [libraryCopy_get? k es₁ m0 (wf_of_perm hm h₁), libraryCopy_get? k es₂ m0 (wf_of_perm hm h₂),
    get?_perm hm h₁, get?_perm hm h₂]

example : get? "x" (libraryCopy [("x", 0)] [("x", 1), ("y", 2)]) = some 0 ∧
    get? "y" (libraryCopy [("x", 0)] [("y", 2), ("x", 1)]) = some 2 := by decide

/-- The repaired loops (collect the keys, `sort.Strings`, then run the body over the sorted keys reading `m[k]`):
for every body — any function of state, key and value that may fail — the final state AND the first error are the
same for all yield orders. -/
theorem sortedKeyLoop_order_independent (le : κ → κ → Bool) (ho : TotalOrder le)
    (step : σ → κ → Option α → Except ε σ) (m es₁ es₂ : GoMap κ α)
    (h₁ : RangeOrder m es₁) (h₂ : RangeOrder m es₂) (s : σ) :
    sortedKeyLoop le step m es₁ s = sortedKeyLoop le step m es₂ s := by
  unfold sortedKeyLoop
  rw [mergeSort_perm_invariant ho (keys_rangeOrder h₁ h₂)]

/-- import-all (`导入《模块》` without a name list) after the repair: `step` is `vm.DeclareExternalElement`; the
resulting scope and, when several exported names clash with existing ones, the reported name do not depend on the
order in which the export map is ranged. -/
theorem importAll_order_independent (le : κ → κ → Bool) (ho : TotalOrder le)
    (declare : σ → κ → Option α → Except ε σ) (exports es₁ es₂ : GoMap κ α)
    (h₁ : RangeOrder exports es₁) (h₂ : RangeOrder exports es₂) (scope : σ) :
    sortedKeyLoop le declare exports es₁ scope = sortedKeyLoop le declare exports es₂ scope :=
  sortedKeyLoop_order_independent le ho declare exports es₁ es₂ h₁ h₂ scope

/-- `ExecExpressionInputText` after the repair: `step` evaluates one expression text and stores the result. -/
theorem exprInput_order_independent (le : κ → κ → Bool) (ho : TotalOrder le)
    (evalStore : σ → κ → Option α → Except ε σ) (exprs es₁ es₂ : GoMap κ α)
    (h₁ : RangeOrder exprs es₁) (h₂ : RangeOrder exprs es₂) (s : σ) :
    sortedKeyLoop le evalStore exprs es₁ s = sortedKeyLoop le evalStore exprs es₂ s :=
  sortedKeyLoop_order_independent le ho evalStore exprs es₁ es₂ h₁ h₂ s

theorem natLe_totalOrder : TotalOrder (fun a b : Nat => decide (a ≤ b)) where
  trans := by intro a b c h1 h2; simp at *; omega
  total := by intro a b; simp; omega
  antisymm := by intro a b h1 h2; simp at *; omega

/-- a declare function for the examples: a name can be declared once -/
def declOnce (s : List String) (k : String) (_ : Option Nat) : Except String (List String) :=
  if k ∈ s then .error k else .ok (k :: s)

/-- Why the repair was needed — the loop as it was (body run in yield order) reports a different name for two yield
orders of the same export map when two exports clash.  Witness program: `导入《@JSON》` twice. -/
theorem importAll_range_order_mattered :
    keyLoopRange declOnce [("解析JSON", 1), ("生成JSON", 2)] ["解析JSON", "生成JSON"] = .error "解析JSON" ∧
    keyLoopRange declOnce [("生成JSON", 2), ("解析JSON", 1)] ["解析JSON", "生成JSON"] = .error "生成JSON" := by
  decide

/-- the same two yield orders through the repaired loop (`Nat`-coded names ordered by `≤`) -/
example : sortedKeyLoop (fun a b : Nat => decide (a ≤ b)) (fun s k _ => if k ∈ s then Except.error k else .ok (k :: s))
      [(1, 10), (2, 20)] [(1, 10), (2, 20)] [1, 2] = (.error 1 : Except Nat (List Nat)) ∧
    sortedKeyLoop (fun a b : Nat => decide (a ≤ b)) (fun s k _ => if k ∈ s then Except.error k else .ok (k :: s))
      [(1, 10), (2, 20)] [(2, 20), (1, 10)] [1, 2] = (.error 1 : Except Nat (List Nat)) := by
  constructor <;> simp [sortedKeyLoop, keys, List.mergeSort, runSteps, get?]

/-- the hypotheses are satisfiable: `≤` on codes is a total order, a rotation is a yield order -/
example : TotalOrder (fun a b : Nat => decide (a ≤ b)) ∧ RangeOrder [(1, 10), (2, 20), (3, 30)] [(2, 20), (3, 30), (1, 10)] :=
  ⟨natLe_totalOrder, by unfold RangeOrder; decide⟩

/-- Request dictionaries (头部 / 查询参数) after the repair: the insertion-ordered dictionary built from
`r.Header` / `r.URL.Query()` is the same LIST of pairs for every yield order. -/
theorem requestDict_order_independent (le : κ → κ → Bool) (ho : TotalOrder le) (m es₁ es₂ : GoMap κ (List β))
    (h₁ : RangeOrder m es₁) (h₂ : RangeOrder m es₂) :
    firstValueDict le m es₁ = firstValueDict le m es₂ := by
  unfold firstValueDict
  rw [mergeSort_perm_invariant ho (keys_rangeOrder h₁ h₂)]

/-- Before the repair the dictionary's key order was the yield order. -/
theorem requestDict_range_order_mattered :
    firstValueDictRange [("Accept", ["*/*"]), ("X-A", ["1", "2"]), ("X-B", [])] = [("Accept", "*/*"), ("X-A", "1")] ∧
    firstValueDictRange [("X-A", ["1", "2"]), ("X-B", []), ("Accept", ["*/*"])] = [("X-A", "1"), ("Accept", "*/*")] := by
  decide

example : firstValueDict (fun a b : Nat => decide (a ≤ b)) [(3, ["c"]), (1, ["a", "z"]), (2, [])] [(2, []), (3, ["c"]), (1, ["a", "z"])]
    = [(1, "a"), (3, "c")] := by simp [firstValueDict, keys, List.mergeSort, firstValue, get?]

/-! ### (4) dictionary equality is a function of contents -/

variable {ν : Type}

/-- `compareLogicXEQ` / `CompareValues(CmpEq)` after the repair, on plain values (numbers, texts, booleans, 空,
lists, dictionaries, nested to any depth): if `l` and `l'` have the same contents and `r` and `r'` have the same
contents — as finite maps, whatever their key orders and whatever the layout of the underlying Go maps — then both
comparisons finish (no error, no panic, given fuel above the size of the left operand) with the SAME verdict.
For every number-equality `eqν` (no laws assumed: NaN may differ from itself).
Proved on the pure tree type `PV` mirroring `Model/Interp.lean compareXEQ`; the heap-level statement is not proved
(the trees are what `content h a` reads off the heap; the tie is the program-level correspondence run). -/
theorem xeq_content_only (eqν : ν → ν → Bool) (n m : Nat) (l l' r r' : PV ν)
    (hl : Same l l') (hr : Same r r') (hn : sizeOf l < n) (hm : sizeOf l' < m) :
    ∃ b, xeq eqν n l r = .ok b ∧ xeq eqν m l' r' = .ok b := by
  obtain ⟨c, hc⟩ := xeq_total eqν n l l' r hl hn
  obtain ⟨c', hc'⟩ := xeq_total eqν m l' l r' (same_symm hl) hm
  have := xeq_agree eqν n m l l' r r' hl hr c c' hc hc'
  subst this
  exact ⟨c, hc, hc'⟩

/-- in particular the verdict does not depend on the key order of either operand, nor on the amount of fuel -/
theorem xeq_keyOrder_irrelevant (eqν : ν → ν → Bool) (n m : Nat) (lv rv : List (String × PV ν))
    (lo lo' ro ro' : List String)
    (hl : Same (.hm lv lo) (.hm lv lo')) (hr : Same (.hm rv ro) (.hm rv ro'))
    (hn : sizeOf (PV.hm lv lo) < n) (hm : sizeOf (PV.hm lv lo') < m) :
    ∃ b, xeq eqν n (.hm lv lo) (.hm rv ro) = .ok b ∧ xeq eqν m (.hm lv lo') (.hm rv ro') = .ok b :=
  xeq_content_only eqν n m _ _ _ _ hl hr hn hm

/-- non-vacuity: two dictionaries with the same three entries, different key orders and different map layouts -/
def dA : PV Nat := .hm [("A", .num 1), ("B", .num 2), ("C", .arr [.str "x", .null])] ["A", "B", "C"]
def dA' : PV Nat := .hm [("C", .arr [.str "x", .null]), ("A", .num 1), ("B", .num 2)] ["B", "C", "A"]
def dB : PV Nat := .hm [("A", .num 1), ("B", .num 9), ("C", .arr [.str "x", .null])] ["A", "B", "C"]

example : xeq (· == ·) 10 dA dA' = .ok true ∧ xeq (· == ·) 10 dA' dA = .ok true ∧
    xeq (· == ·) 10 dA dB = .ok false ∧ xeq (· == ·) 10 dA' dB = .ok false := by decide

/-- The defect that was repaired: with "the verdict of the first yielded key", `【A=1，B=2，C=3】为【A=1，B=9，C=8】`
is 真 when the runtime yields `A` first and 假 when it yields `B` first. -/
theorem xeq_first_key_order_mattered :
    let lv : List (String × PV Nat) := [("A", .num 1), ("B", .num 2), ("C", .num 3)]
    let rv : List (String × PV Nat) := [("A", .num 1), ("B", .num 9), ("C", .num 8)]
    xeqFirstKey (· == ·) 5 lv rv [("A", .num 1), ("B", .num 2), ("C", .num 3)] = .ok true ∧
    xeqFirstKey (· == ·) 5 lv rv [("B", .num 2), ("C", .num 3), ("A", .num 1)] = .ok false ∧
    xeq (· == ·) 5 (.hm lv ["A", "B", "C"]) (.hm rv ["A", "B", "C"]) = .ok false := by decide

/-- Outside the theorem's hypothesis (a value that cannot be compared, e.g. an object, under some key): the verdict
still depends only on the two values, but on their key ORDER too — `false` if a differing key comes first, error 83 if
the object comes first.  Key order is insertion order (C12), so this is deterministic; it is recorded here because it
bounds what "a function of contents" can mean for non-plain values. -/
theorem xeq_nonplain_keyOrder_visible :
    let lv : List (String × PV Nat) := [("A", .num 1), ("B", .other 0)]
    let rv : List (String × PV Nat) := [("A", .num 2), ("B", .other 0)]
    xeq (· == ·) 5 (.hm lv ["A", "B"]) (.hm rv ["A", "B"]) = .ok false ∧
    xeq (· == ·) 5 (.hm lv ["B", "A"]) (.hm rv ["A", "B"]) = .err 83 := by decide

/-! ### what is not a theorem here

The design's `run_order_independent : ∀ π₁ π₂ prog inputs, run π₁ prog inputs = run π₂ prog inputs` would need the
evaluator model to take the oracle as a parameter.  `Model/Interp.lean` has none: it is written with the π-free forms of
the sites (lists in declaration order), and what the theorems above prove is that every π-instance of a site equals
that form on everything a program can read.  The lifting to whole runs is therefore by construction of the model plus
`sites_all_classified`; it is exercised — not proved — by the repetition runs (N executions of the real code in one
process must give exactly one outcome, equal to the model's where the program is modelled). -/

end ZnVerif.Properties.C11
