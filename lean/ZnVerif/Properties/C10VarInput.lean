/-
C10 — no program can crash the host process: the INPUT-VARIABLE TEXTS.

"Whatever … input-variable text is applied to whatever values, the outcome is a value or a Zn error delivered through the normal
error channel — never a Go runtime panic, a nil result that crashes the caller, or a process exit."

Model: Model/VarInput.lean (pkg/exec/exec_varinput.go as written) on top of the evaluator Model/Interp.lean, started in the VM
`r.InitVM(NewGlobalValues())` gives: predefined names, NO module, NO call frame, NO scope.  On the pinned tree `X = Y` dereferenced
the missing frame and `X = 其Y` indexed `callStack[-1]` (commit e955303 repaired the accessors; 2eab72e the call of a name bound
by the text itself).  In the model every such access is `goPanic`-free by construction of the accessors (`topFrame`,
`currentScope` answer `none`) — what has to be PROVED is that nothing else of the evaluator panics when started there:
`popFrame` on an empty stack, `getCell` of a dangling address, the `| none => goPanic` / `| _ => goPanic` arms of `evalExpr`,
`memberIV`, `execMethodFunction`, `construct`.  `eval_total_without_frames` is that fact (Proofs/VarInput*.lean: the invariant `VI`,
one induction on the fuel), for every complete expression — the trees the parser returns (C03 `returned_tree_complete`).

The built-in members reached from a text are covered by re-using Properties/C10.lean's results (`post_builtinMethod`, `post_getProperty`,
`post_reduceRHS`, `post_reduceLHS`, `post_dup`, `ro_display`, `ro_compareXEQ`), not by re-proving them.

Tie to the code: tools/props/c10.py streams `varinput`, `varinput:trace`, `varinput:tree` (Go = model on texts, with the display trace,
on several entries, and on the real parser's tree).
-/
import ZnVerif.Proofs.VarInputTop
import ZnVerif.Proofs.ParserTheorems
set_option linter.unusedSectionVars false

namespace ZnVerif.Properties.C10VarInput
open ZnVerif.Model ZnVerif.Model.VarInput ZnVerif.Model.Parser ZnVerif.Proofs.VarInput ZnVerif.Proofs.Builtins
open ZnVerif.Spec.Grammar ZnVerif.Proofs.ParserHoare ZnVerif.Proofs.ParserGood

variable {ν : Type} [NumOps ν]

/-! ## the VM the texts are evaluated in -/

/-- `r.InitVM(NewGlobalValues())`: no frame, no scope, no current module … -/
theorem initial_vm_is_empty :
    (initVM () : VM ν).stack = [] ∧ (initVM () : VM ν).scopes = [] ∧ (initVM () : VM ν).csModuleID = -1 ∧
    (initVM () : VM ν).modules = #[] := ⟨rfl, rfl, rfl, rfl⟩

/-- … and it satisfies the invariant `VI` (well-formed heap, no user-defined method / constructor anywhere, every root a cell) -/
theorem initial_vm_invariant : VI (initVM () : VM ν) := vi_init

/-! ## the evaluator never needs a frame -/

/-- **`vm_accessors_guarded` / "never panics from an empty stack"**: a complete expression, evaluated with any fuel in any state that
    satisfies `VI` — in particular the frameless initial VM, and every state a previous text left behind (frames of failed calls
    included) — does not panic; the state handed back satisfies `VI` again, and a value is the address of a cell (no nil result). -/
theorem eval_total_without_frames (n : Nat) (e : Expr) (hc : CExpr e) (s : VM ν) (hs : VI s) :
    (evalExpr n e s).1 ≠ .panic ∧ VI (evalExpr n e s).2 ∧ s.heap.size ≤ (evalExpr n e s).2.heap.size ∧
    ∀ v, (evalExpr n e s).1 = .ok v → v < (evalExpr n e s).2.heap.size := by
  have h := (allV n).evalExpr e s hc hs
  refine ⟨h.ne_panic, h.frame.1, h.frame.2.size, fun v hv => ?_⟩
  rcases hr : evalExpr n e s with ⟨r, s'⟩
  rw [hr] at h hv
  cases hv
  exact h.2.2

/-- the pieces, for the record: a call, a method call and 新建 in such a VM (these push and pop frames) -/
theorem call_total_without_frames (n : Nat) (fname : String) (params : List Addr) (s : VM ν) (hs : VI s)
    (hp : ∀ v ∈ params, v < s.heap.size) : (execDirectFunction n fname params s).1 ≠ .panic :=
  (vpost_execDirectFunction n hs fname hp).ne_panic

theorem method_call_total_without_frames (n : Nat) (root : Addr) (fname : String) (params : List Addr) (s : VM ν) (hs : VI s)
    (hr : root < s.heap.size) (hp : ∀ v ∈ params, v < s.heap.size) : (execMethodFunction n root fname params s).1 ≠ .panic :=
  (vpost_execMethodFunction n hs hr fname hp).ne_panic

/-! ## `ExecVarInputText` -/

/-- the tree-level statement with everything it gives: not a panic, the VM left behind satisfies `VI`, every bound value is a cell -/
theorem varinput_good (fuel : Nat) (p : Program) (hc : Complete p) (s : VM ν) (hs : VI s) :
    GoodMap (evalVarAssignBlockTree fuel p s) := by
  unfold evalVarAssignBlockTree
  cases ha : assertVarAssignBlock p with
  | none => exact hs
  | some pairs =>
    exact evalAssigns_good fuel pairs (fun q hq => (assert_complete hc ha q hq).2) [] s hs (fun b hb => nomatch hb)

/-- **varinput_total**: for every (complete) tree and every fuel, `ExecVarInputText` does not panic -/
theorem varinput_total (fuel : Nat) (p : Program) (hc : Complete p) :
    (execVarInputTree fuel p : Outcome ν _) ≠ .panic :=
  fun he => goodMap_ne_panic (varinput_good fuel p hc (initVM ()) vi_init) he

/-- … and never hands a nil value to its caller: every name of the returned map is bound to a cell of the returned VM's heap -/
theorem varinput_no_nil (fuel : Nat) (p : Program) (hc : Complete p) (binds : List (String × Addr)) (s' : VM ν)
    (h : execVarInputTree fuel p = .ok binds s') : ∀ b ∈ binds, ∃ c, s'.heap[b.2]? = some c := by
  have := varinput_good (ν := ν) fuel p hc (initVM ()) vi_init
  unfold execVarInputTree at h
  rw [h] at this
  exact fun b hb => get_of_lt_size (this.2 b hb)

/-! ## `ExecExpressionInputText` -/

theorem exprinput_good (fuel : Nat) (p : Program) (hc : Complete p) (s : VM ν) (hs : VI s) :
    GoodVal (evalExpressionTree fuel p s) :=
  evalExpressionTree_good fuel p s hs (fun _ ha => single_complete hc ha)

/-- **exprinput_total**: one entry, in ANY state that satisfies `VI` (the VM is shared by the entries: a later entry starts where the
    earlier ones stopped) -/
theorem exprinput_total (fuel : Nat) (p : Program) (hc : Complete p) (s : VM ν) (hs : VI s) :
    evalExpressionTree fuel p s ≠ .panic :=
  fun he => goodVal_ne_panic (exprinput_good fuel p hc s hs) he

/-- all entries of `ExecExpressionInputText`, in whatever order: no panic, every returned value a cell -/
theorem exprinputs_total (fuel : Nat) (entries : List (String × Program)) (hc : ∀ x ∈ entries, Complete x.2) :
    GoodMap (execExpressionInputTrees (ν := ν) fuel entries) ∧ (execExpressionInputTrees (ν := ν) fuel entries) ≠ .panic := by
  have h : GoodMap (execExpressionInputTrees (ν := ν) fuel entries) := by
    unfold execExpressionInputTrees
    refine exprInputsLoop_good _ entries (fun x hx s hs => exprinput_good fuel x.2 (hc x hx) s hs) [] _ vi_init
      (fun b hb => nomatch hb)
      (fun x hx s s' v hs hev => evalExpressionTree_grows fuel x.2 s s' v hs (fun _ ha => single_complete (hc x hx) ha) hev)
  exact ⟨h, fun he => goodMap_ne_panic h he⟩

/-! ## the texts themselves: parser + checks + evaluator -/

variable {σ : Type} {ops : LexOps σ} {B : Nat} {μ : σ → Nat} {I : σ → Prop}

/-- **varinput_total, end to end**: whatever the text (any lexer that meets `LexOK`: C05), whatever the fuels, the entry point
    `evalVarAssignBlockText` started in the initial VM does not panic: the parser does not (C05 `no_panic_after_fix`), the tree it
    returns is complete (C03 `returned_tree_complete`), the evaluator then needs no frame -/
theorem varinput_text_total (hl : LexOK ops B μ I) (l : σ) (hI : I l) (pfuel fuel : Nat) (isEmpty : Bool) (s : VM ν) (hs : VI s) :
    GoodMap (evalVarAssignBlockWith ops pfuel fuel isEmpty l s) := by
  unfold evalVarAssignBlockWith
  split
  · exact ⟨hs, fun b hb => nomatch hb⟩
  · have hp := ZnVerif.Proofs.ParserGood.parseAST_spec hl pfuel l hI
    unfold afterParse
    cases hr : parseAST Variant.fixed ops pfuel l with
    | tree t => rw [hr] at hp; exact varinput_good fuel t hp s hs
    | synErr e => exact hs
    | otherErr => exact hs
    | outOfFuel => trivial

theorem exprinput_text_total (hl : LexOK ops B μ I) (l : σ) (hI : I l) (pfuel fuel : Nat) (s : VM ν) (hs : VI s) :
    GoodVal (evalExpressionWith ops pfuel fuel l s) := by
  unfold evalExpressionWith
  have hp := ZnVerif.Proofs.ParserGood.parseAST_spec hl pfuel l hI
  unfold afterParse
  cases hr : parseAST Variant.fixed ops pfuel l with
  | tree t => rw [hr] at hp; exact exprinput_good fuel t hp s hs
  | synErr e => exact hs
  | otherErr => exact hs
  | outOfFuel => trivial

/-- `ExecVarInputText(source)` on the bytes of the Go string, with the lexer model `Model/Lexer.lean` (that it meets `LexOK` is the
    lexer's own obligation, as everywhere in C05): invalid UTF-8 is the IO error 12, the empty text the empty map, the rest as above -/
theorem execVarInputBytes_total {B : Nat} {μ : Lexer → Nat} {I : Lexer → Prop} (hl : LexOK realOps B μ I) (hI : ∀ src, I (mkLexer src)) (pfuel fuel : Nat) (bytes : List Nat) :
    (execVarInputBytes pfuel fuel bytes : Outcome ν _) ≠ .panic := by
  unfold execVarInputBytes evalVarAssignBlockText
  split
  · intro h; cases h
  · cases byteStreamReadAll bytes with
    | error e => intro h; cases h
    | ok src => exact fun he => goodMap_ne_panic (varinput_text_total hl (mkLexer src) (hI src) pfuel fuel false (initVM ()) vi_init) he

/-- the same on the runes of the text (the form the C05 stream `varinput` drives: Ops/VarInput.lean `execVarInputText`) -/
theorem execVarInputRunes_total {B : Nat} {μ : Lexer → Nat} {I : Lexer → Prop} (hl : LexOK realOps B μ I) (hI : ∀ src, I (mkLexer src))
    (pfuel fuel : Nat) (src : List Nat) : (execVarInputRunes pfuel fuel src : Outcome ν _) ≠ .panic :=
  fun he => goodMap_ne_panic (varinput_text_total hl (mkLexer src) (hI src) pfuel fuel src.isEmpty (initVM ()) vi_init) he

theorem evalExpressionText_total {B : Nat} {μ : Lexer → Nat} {I : Lexer → Prop} (hl : LexOK realOps B μ I) (hI : ∀ src, I (mkLexer src)) (pfuel fuel : Nat) (bytes : List Nat)
    (s : VM ν) (hs : VI s) : evalExpressionText pfuel fuel bytes s ≠ .panic := by
  unfold evalExpressionText
  cases byteStreamReadAll bytes with
  | error e => intro h; cases h
  | ok src => exact fun he => goodVal_ne_panic (exprinput_text_total hl (mkLexer src) (hI src) pfuel fuel s hs) he

/-! ## non-vacuity: the former crash inputs, as trees, in the model -/

section examples
local instance unitNum : NumOps Unit where
  add _ _ := (); sub _ _ := (); mul _ _ := (); div _ _ := (); floor _ := (); ceil _ := (); sqrt _ := ()
  eq _ _ := true; lt _ _ := false; gt _ _ := false; le _ _ := true; ge _ _ := true
  isZero _ := false; leZero _ := false; ofInt _ := (); toInt _ := 0; parse _ := (); fmt _ := ""

def prog (stmts : List Stmt) : Program := { imports := [], exec := some (.mk [] (some stmts) []) }
def asg (l : Nat) (x : String) (e : Expr) : Stmt := .expr (.assign l (.id ⟨l, x⟩) e)

/-- why completeness is a hypothesis: a tree with a missing part (a call without a name) does panic — Go: nil dereference —; such a
    tree is what the parser never returns -/
example : (match (execVarInputTree 5 (prog [asg 0 "X" (.call 0 none [] none)]) : Outcome Unit _) with
    | .panic => true | _ => false) = true := by rfl
/-- `X = Y`: NameNotDefined (42) -/
example : (match (execVarInputTree 9 (prog [asg 0 "X" (.id ⟨0, "Y"⟩)]) : Outcome Unit _) with
    | .evalErr (.rt 42) _ => true | _ => false) = true := by rfl
/-- `X = 其Y`: error 48, not `callStack[-1]` -/
example : (match (execVarInputTree 9 (prog [asg 0 "X" (.member 0 2 .nil 1 (some ⟨0, "Y"⟩) .nil)]) : Outcome Unit _) with
    | .evalErr (.rt 48) _ => true | _ => false) = true := by rfl
/-- `甲 = （显示：“a”）得到乙 ⏎ 丙 = （乙）`: the call creates the scope of module -1, 得到 binds 乙 there, `（乙）` finds it, its home
    module is -1 (Go: nil → native module, commit 2eab72e), it is not a method: error 81 — and the frame of that call stays -/
example : (match (execVarInputTree 9 (prog [asg 0 "甲" (.call 0 (some ⟨0, "显示"⟩) [.str 0 "a"] (some ⟨0, "乙"⟩)),
      asg 1 "丙" (.call 1 (some ⟨1, "乙"⟩) [] none)]) : Outcome Unit _) with
    | .evalErr (.rt 81) s => s.stack.length == 1 && s.out == ["a"] | _ => false) = true := by rfl
/-- a text that succeeds: `X = 【“a”】 ⏎ Y = 以X…` cannot see X (no scope), but `Y = （显示：“b”）` runs: two names bound -/
example : (match (execVarInputTree 9 (prog [asg 0 "X" (.arr 0 [.str 0 "a"]), .empty 1, asg 2 "Y" (.call 2 (some ⟨2, "显示"⟩) [.str 2 "b"] none)])
      : Outcome Unit _) with
    | .ok binds s => binds.map (·.1) == ["X", "Y"] && s.stack.isEmpty | _ => false) = true := by rfl
end examples

end ZnVerif.Properties.C10VarInput
