/-
C07 — Lists and dictionaries are copied on assignment; objects are shared.
Theorems about `dup` (value.DuplicateValue) and the copying sites of the model evaluator.
-/
import ZnVerif.Model.Interp
set_option linter.unusedSectionVars false

namespace ZnVerif.Properties.C07
open ZnVerif.Model

variable {ν : Type} [NumOps ν]

/-- objects, methods, types and exceptions are shared: duplicating them returns the very same address and
leaves the heap untouched -/
theorem dup_shares_objects (n : Nat) (a : Addr) (s : VM ν) (c : Cell ν)
    (hc : s.heap[a]? = some c)
    (hsh : (∃ k p, c = .obj k p) ∨ (∃ f, c = .fn f) ∨ (∃ nm ct p m, c = .cls nm ct p m) ∨ (∃ m, c = .exc m) ∨ c = .null) :
    dup (n+1) a s = (.ok a, s) := by
  rcases hsh with ⟨k, p, rfl⟩ | ⟨f, rfl⟩ | ⟨nm, ct, p, m, rfl⟩ | ⟨m, rfl⟩ | rfl <;>
    simp [dup, bind, getCell, hc, pure]

/-- scalars are copied into a fresh cell (numbers are mutable through 自增, so the copy matters) -/
theorem dup_copies_number (n : Nat) (a : Addr) (s : VM ν) (x : ν) (hc : s.heap[a]? = some (.num x)) :
    dup (n+1) a s = (.ok s.heap.size, { s with heap := s.heap.push (.num x) }) := by
  simp [dup, bind, getCell, hc, newNum, alloc]

end ZnVerif.Properties.C07
