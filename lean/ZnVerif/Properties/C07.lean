/-
C07 — Lists and dictionaries are copied on assignment; objects are shared.
Theorems about `dup` (value.DuplicateValue) and the copying sites of the model evaluator.

Vocabulary (Proofs/Heap.lean): `content n h a` is the deep read of the value at address `a` as a `Tree` (lists and
dictionaries read through, objects/methods/types/exceptions are `ref` of their own address); it is defined for some
fuel exactly when everything below `a` is well formed and acyclic (`content_defined_iff`).  `Reach h a i`: cell `i` is
reachable from `a` through list / dictionary links (never through objects).  `Mutable h i` / `Shared h i`: the cell
is of a kind DuplicateValue copies (number, text, boolean, list, dictionary) / does not copy (空, object, method,
type, exception).  `Disj h a b`: `a` and `b` have no copied-kind cell in common.  `MutSeq a b h h'`: a history of
allocations and of writes into copied-kind cells below `b`, taking `h` to `h'`.  `resolve x s`: the address the name
`x` denotes in state `s` (vm.FindElement).

Program level (last section): `copies_independent_any_outcome`, `copies_independent_program_level` (after `令 y 为 x`, any
list of element / key assignments and built-in method calls through `y` leaves every cell that existed before — hence
`x` — untouched), `original_changes_invisible_through_copy` (the symmetric statement), and the two witnesses showing which
side conditions the first formulation `copies_independent_program_level_full` lacked
(`copies_independent_program_level_full_false`, `copies_independent_needs_coherent_frames`).
-/
import ZnVerif.Model.Interp
import ZnVerif.Proofs.Heap
import ZnVerif.Proofs.HeapFrames
import ZnVerif.Proofs.HeapMutators
import ZnVerif.Proofs.HeapStores
import ZnVerif.Proofs.HeapSites
import ZnVerif.Proofs.HeapMono
import ZnVerif.Proofs.CopyProgram
set_option linter.unusedSectionVars false
set_option linter.unusedVariables false

namespace ZnVerif.Properties.C07
open ZnVerif.Model

variable {ν : Type} [NumOps ν]

/-- objects, methods, types and exceptions are shared: duplicating them returns the very same address and
leaves the heap untouched -/
theorem dup_shares_objects (n : Nat) (a : Addr) (s : VM ν) (c : Cell ν)
    (hc : s.heap[a]? = some c)
    (hsh : (∃ k p, c = .obj k p) ∨ (∃ f, c = .fn f) ∨ (∃ nm ct p m, c = .cls nm ct p m) ∨ (∃ m, c = .exc m) ∨ c = .null) :
    dup (n+1) a s = (.ok a, s) := by
  rcases hsh with ⟨k, p, rfl⟩ | ⟨f, rfl⟩ | ⟨nm, ct, p, m, rfl⟩ | ⟨m, rfl⟩ | rfl <;>
    simp [dup, bind, getCell, hc, pure]

/-- scalars are copied into a fresh cell (numbers are mutable through 自增, so the copy matters) -/
theorem dup_copies_number (n : Nat) (a : Addr) (s : VM ν) (x : ν) (hc : s.heap[a]? = some (.num x)) :
    dup (n+1) a s = (.ok s.heap.size, { s with heap := s.heap.push (.num x) }) := by
  simp [dup, bind, getCell, hc, newNum, alloc]

/-! ## 1–2. a duplicate is a separate deep copy, and duplication is total on readable values -/

/-- **dup_separates.**  On every value that can be read (`content` defined within the fuel: well formed, acyclic, fuel
sufficient) `dup` succeeds with an address `b` such that (i) `b` reads as the same value; (ii) no cell of the old heap
changed; (iii) every number / text / boolean / list / dictionary cell reachable from `b` is new — the copy shares only
空, objects, methods, types, exceptions with anything that existed before; (iv) nothing but the heap changed; and no
link below `b` dangles. -/
theorem dup_separates (n : Nat) (a : Addr) (s : VM ν) (t : Tree ν) (ht : content n s.heap a = some t) :
    ∃ b s', dup n a s = (.ok b, s') ∧
      content n s'.heap b = some t ∧
      (s.heap.size ≤ s'.heap.size ∧ ∀ i, i < s.heap.size → s'.heap[i]? = s.heap[i]?) ∧
      (∀ i, Reach s'.heap b i → Mutable s'.heap i → s.heap.size ≤ i) ∧
      s' = { s with heap := s'.heap } ∧
      (∀ i, Reach s'.heap b i → i < s'.heap.size) := by
  rcases dup_spec n a s t ht with ⟨b, s', hd, hp⟩
  refine ⟨b, s', hd, hp.cont, hp.ext, ?_, hp.same, hp.valid⟩
  intro i hr hm
  rcases hp.fresh i hr with h | h
  · exact h
  · exact absurd h (not_shared_of_mutable hm)

/-- **dup_total.**  Under the same hypothesis `dup` neither panics nor runs out of fuel nor fails otherwise. -/
theorem dup_total (n : Nat) (a : Addr) (s : VM ν) (t : Tree ν) (ht : content n s.heap a = some t) :
    ∃ b s', dup n a s = (.ok b, s') := by
  rcases dup_spec n a s t ht with ⟨b, s', hd, _⟩
  exact ⟨b, s', hd⟩

/-- the hypothesis in terms of a rank function: on a well-formed value whose links strictly decrease a rank `rk`,
fuel `rk a + 1` suffices for `dup` -/
theorem dup_total_of_acyclic (a : Addr) (s : VM ν) (rk : Addr → Nat)
    (hacy : ∀ i c x, Reach s.heap a i → s.heap[i]? = some c → x ∈ c.children → rk x < rk i)
    (hwf : WellFormed s.heap a) :
    ∃ b s', dup (rk a + 1) a s = (.ok b, s') := by
  rcases content_of_acyclic rk hacy hwf (rk a + 1) a (.refl _) (Nat.lt_succ_self _) with ⟨t, ht⟩
  exact dup_total _ a s t ht

/-- "readable" is exactly "well formed and acyclic" -/
theorem readable_iff_acyclic (h : Array (Cell ν)) (a : Addr) :
    (∃ n t, content n h a = some t) ↔ Acyclic h a ∧ WellFormed h a := content_defined_iff h a

/-- without the hypothesis the conclusion fails: on a list that contains itself `dup` runs out of fuel, whatever the fuel -/
theorem dup_cyclic_out_of_fuel (n : Nat) (s : VM ν) (a : Addr) (hc : s.heap[a]? = some (.arr [a])) :
    dup n a s = (.fuel, s) := by
  induction n with
  | zero => rfl
  | succ n ih => simp [dup, bind, getCell, hc, ih]

/-- a lemma about `dup` alone: on a list that links back to itself — here cell 1 = `[cell 0, cell 1]` — `dup` (and with
it every copying site) exhausts every fuel: value.DuplicateValue would recurse without end.  (This is why readability —
acyclicity — is the hypothesis of `dup_separates`; `mutators_preserve_acyclicity` shows the built-in mutators keep it.) -/
theorem dup_on_cycle_never_returns (n : Nat) : ∀ (s : VM ν) (x : ν), s.heap[0]? = some (.num x) →
    s.heap[1]? = some (.arr [0, 1]) → (dup n 1 s).1 = .fuel := by
  induction n with
  | zero => intro s x _ _; rfl
  | succ n ih =>
    intro s x h0 h1
    cases n with
    | zero => simp [dup, bind, getCell, h1, outOfFuel]
    | succ k =>
      have hs : 1 < s.heap.size := lt_size_of_getElem? h1
      have hd0 : dup (k+1) 0 s = (.ok s.heap.size, { s with heap := s.heap.push (.num x) }) := by
        simp [dup, bind, getCell, h0, newNum, alloc]
      have hq := ih { s with heap := s.heap.push (.num x) } x
        (by simp only [Array.getElem?_push]; rw [if_neg (by omega)]; exact h0)
        (by simp only [Array.getElem?_push]; rw [if_neg (by omega)]; exact h1)
      rw [dup]
      simp only [bind, getCell, h1, List.mapM_cons, List.mapM_nil, hd0]
      cases hr : dup (k+1) 1 { s with heap := s.heap.push (.num x) } with
      | mk r s2 =>
        rw [hr] at hq
        simp only at hq
        subst hq
        rfl

/-! ## 3. frame lemma and independence of copies -/

/-- **frame_lemma.**  Writing cell `i` does not change the deep read of any `a` from which `i` is not reachable. -/
theorem frame_lemma (n : Nat) (h : Array (Cell ν)) (a i : Addr) (c : Cell ν) (hn : ¬ Reach h a i) :
    content n (h.set! i c) a = content n h a := ZnVerif.Model.frame_lemma c i n h a hn

/-- the same, for the model's `setCell` -/
theorem setCell_frame (n : Nat) (s s' : VM ν) (a i : Addr) (c : Cell ν) (hn : ¬ Reach s.heap a i)
    (h : setCell i c s = (.ok (), s')) : content n s'.heap a = content n s.heap a := by
  rw [(setCell_ok_inv h).2]; exact ZnVerif.Model.frame_lemma c i n s.heap a hn

/-- **copy_independent.**  After `b := dup a`, ANY history of mutations made through `b` — allocations, and writes into
number / text / boolean / list / dictionary cells reachable (at that time) from `b` that store links to cells reachable
from `b` or allocated since (`sep_child_of_reach`, `sep_child_of_fresh`) — leaves the deep read of `a` unchanged; and
symmetrically any such history through `a` leaves the deep read of `b` unchanged.  (Induction on the history.) -/
theorem copy_independent (n : Nat) (a b : Addr) (s s' : VM ν) (t : Tree ν) (ht : content n s.heap a = some t)
    (hd : dup n a s = (.ok b, s')) :
    (∀ h', MutSeq a b s'.heap h' → content n h' a = some t) ∧
    (∀ h', MutSeq b a s'.heap h' → content n h' b = some t) := by
  have hp := dup_post ht hd
  have hsep := sep_after_dup ht hd
  exact ⟨fun h' ms => (mutSeq_preserves ms n t hsep (content_ext hp.ext n a t ht)).1,
    fun h' ms => (mutSeq_preserves ms n t hsep.symm hp.cont).1⟩

/-- the general form: two separated values stay independent (and separated) under any history through one of them -/
theorem separated_independent (n : Nat) (a b : Addr) (h h' : Array (Cell ν)) (t : Tree ν) (hs : Sep h a b)
    (ht : content n h a = some t) (ms : MutSeq a b h h') : content n h' a = some t ∧ Sep h' a b :=
  mutSeq_preserves ms n t hs ht

/-! ## 4. mutators write only the receiver's own cell -/

/-- **mutators_frame (built-in methods).**  Every built-in method of a list, dictionary, number or text value
(新增 添加 前增 后增 左移 右移 合并 交换 写入 移除 自增 自减 and all the non-mutating ones), with any arguments and whatever
its outcome, changes nothing but the heap, never shrinks it, and leaves every old cell other than the receiver's own
cell `a` untouched. -/
theorem mutators_frame (n : Nat) (a : Addr) (name : String) (vals : List Addr) (s s' : VM ν) (r : Res Addr)
    (h : builtinMethod n a name vals s = (r, s')) :
    s' = { s with heap := s'.heap } ∧ s.heap.size ≤ s'.heap.size ∧
      ∀ i, i < s.heap.size → i ≠ a → s'.heap[i]? = s.heap[i]? :=
  (builtinMethod_frame n a name vals).run s r s' h

/-- **mutators_frame (element, key and property assignment).**  `reduceLHS` on a root `a` — `a#i = v`, `a#{k} = v`,
`a 之 p = v` — writes only the cell `a`. -/
theorem stores_frame (kind : Nat) (a : Addr) (name : String) (idx : Int) (v : Addr) (s s' : VM ν) (r : Res Unit)
    (h : reduceLHS (kind, a, name, idx) v s = (r, s')) :
    s' = { s with heap := s'.heap } ∧ s.heap.size ≤ s'.heap.size ∧
      ∀ i, i < s.heap.size → i ≠ a → s'.heap[i]? = s.heap[i]? :=
  (reduceLHS_frame kind a name idx v).run s r s' h

/-- **mutators_frame (setProperty).** -/
theorem setProperty_frame (a : Addr) (name : String) (v : Addr) (s s' : VM ν) (r : Res Unit)
    (h : setProperty a name v s = (r, s')) :
    s' = { s with heap := s'.heap } ∧ s.heap.size ≤ s'.heap.size ∧
      ∀ i, i < s.heap.size → i ≠ a → s'.heap[i]? = s.heap[i]? :=
  (ZnVerif.Model.setProperty_frame a name v).run s r s' h

/-- `dup`, `display`, comparison and parameter validation write nothing at all / only allocate -/
theorem dup_only_allocates (n : Nat) (a : Addr) (s s' : VM ν) (r : Res Addr) (h : dup n a s = (r, s')) :
    s' = { s with heap := s'.heap } ∧ s.heap.size ≤ s'.heap.size ∧ ∀ i, i < s.heap.size → s'.heap[i]? = s.heap[i]? := by
  have := (dup_grow n a).run s r s' h
  exact ⟨this.1, this.2.1, this.2.2⟩

theorem display_reads_only (n : Nat) (a : Addr) (s s' : VM ν) (r : Res String) (h : display n a s = (r, s')) : s' = s :=
  (display_same n a).run s r s' h

/-! ## 5. the copying sites -/

/-- **vardecl_stores_copy.**  After `令 x₁、…、x_k 为 e` (type 1) or `… 恒为 e` (type 3) succeeded, where `e` evaluated to
`obj` reading as `t`: there is one address per name; each reads as `t`; every copied-kind cell below any of them was
allocated after `e` was evaluated; no two of them, and none of them and `obj`, have a copied-kind cell in common; and
(for distinct names) each name denotes its own address. -/
theorem vardecl_stores_copy (n ln ty : Nat) (vars : List Ident) (e : Expr) (s s' : VM ν) (r : Addr)
    (hty : ty = 1 ∨ ty = 3)
    (h : evalStmt (n+1) (.varDecl ln [(ty, vars, e)]) s = (.ok r, s')) :
    ∃ s0 obj s1, setTopFrame (fun fr => { fr with line := ln, started := true }) s = (.ok (), s0) ∧ evalExpr n e s0 = (.ok obj, s1) ∧
      ∀ t, content n s1.heap obj = some t →
        ∃ bs : List Addr, bs.length = vars.length ∧
          (∀ b ∈ bs, content n s'.heap b = some t) ∧
          (∀ b ∈ bs, ∀ i, Reach s'.heap b i → Mutable s'.heap i → s1.heap.size ≤ i) ∧
          bs.Pairwise (Disj s'.heap) ∧
          (∀ b ∈ bs, Disj s'.heap obj b) ∧
          ((vars.map (·.lit)).Nodup → ∀ p ∈ (vars.map (·.lit)).zip bs, resolve p.1 s' = some p.2) := by
  rcases varDecl_spec n ln ty vars e s s' r hty h with ⟨s0, obj, s1, h0, h1, hall⟩
  refine ⟨s0, obj, s1, h0, h1, fun t ht => ?_⟩
  rcases hall t ht with ⟨bs, _, hc, hd⟩
  refine ⟨bs, by simpa using hc.len, fun b hb => (hc.each b hb).1, fun b hb i hr hm => ?_, hc.apart, hd, hc.bound⟩
  rcases (hc.each b hb).2.2 i hr with h | h
  · exact h
  · exact absurd h (not_shared_of_mutable hm)

/-- a 令 statement is the sequence of its groups, each group being evaluated as above -/
theorem vardecl_groups (n ln : Nat) (pairs : List (Nat × List Ident × Expr)) :
    evalStmt (ν := ν) (n+1) (.varDecl ln pairs) = (do
      setTopFrame fun fr => { fr with line := ln, started := true }
      pairs.forM (declPair n)
      newNull) := evalStmt_varDecl n ln pairs

/-- **assign_stores_copy (`x = e`).**  The assigned name denotes a duplicate `r` of what `e` evaluated to: same deep read,
every copied-kind cell below it new, nothing copied-kind in common with the source. -/
theorem assign_stores_copy (n ln : Nat) (i : Ident) (rhs : Expr) (s s' : VM ν) (r : Addr)
    (h : evalExpr (n+1) (.assign ln (.id i) rhs) s = (.ok r, s')) :
    ∃ vr s1, evalExpr n rhs s = (.ok vr, s1) ∧
      ∀ t, content n s1.heap vr = some t →
        content n s'.heap r = some t ∧
        (∀ j, Reach s'.heap r j → Mutable s'.heap j → s1.heap.size ≤ j) ∧
        Disj s'.heap vr r ∧
        (lookup i.lit s1.globals = none → resolve i.lit s' = some r) := by
  rcases assign_id_spec n ln i rhs s s' r h with ⟨vr, s1, s2, hrhs, hdup, hheap, hself, _⟩
  refine ⟨vr, s1, hrhs, fun t ht => ?_⟩
  have hp := dup_post ht hdup
  have hsep := sep_after_dup ht hdup
  have hg : s2.globals = s1.globals := by have := hp.same; unfold SameBut at this; rw [this]
  rw [hheap]
  refine ⟨hp.cont, fun j hr hm => ?_, hsep.disj, fun hgl => hself (by rw [hg]; exact hgl)⟩
  rcases hp.fresh j hr with h | h
  · exact h
  · exact absurd h (not_shared_of_mutable hm)

/-- **assign_stores_copy (`c#i = e`, `c#{k} = e`, `c 之 p = e`).**  What is stored is the duplicate `r` (which is also
the value of the assignment expression), and the store puts exactly `r` into the root's cell. -/
theorem element_assign_stores_copy (n ln l rt mt : Nat) (root : Expr) (mid : Option Ident) (idx rhs : Expr)
    (s s' : VM ν) (r : Addr)
    (h : evalExpr (n+1) (.assign ln (.member l rt root mt mid idx) rhs) s = (.ok r, s')) :
    ∃ vr s1 s2 iv s3, evalExpr n rhs s = (.ok vr, s1) ∧ dup n vr s1 = (.ok r, s2) ∧
      memberIV n (.member l rt root mt mid idx) s2 = (.ok iv, s3) ∧ reduceLHS iv r s3 = (.ok (), s') ∧
      (∀ t, content n s1.heap vr = some t →
        content n s2.heap r = some t ∧ (∀ j, Reach s2.heap r j → Mutable s2.heap j → s1.heap.size ≤ j) ∧
        Disj s2.heap vr r) ∧
      (iv.1 = 1 → ∃ items, s3.heap[iv.2.1]? = some (.arr items) ∧
        s' = { s3 with heap := s3.heap.set! iv.2.1 (.arr (items.set (iv.2.2.2 - 1).toNat r)) }) ∧
      (iv.1 = 2 → ∃ vals order, s3.heap[iv.2.1]? = some (.hm vals order) ∧
        s' = { s3 with heap := (s3.heap.set! iv.2.1 (.hm (hmAppend vals order iv.2.2.1 r).1 (hmAppend vals order iv.2.2.1 r).2)) }) := by
  rcases assign_member_spec n ln l rt mt root mid idx rhs s s' r h with ⟨vr, s1, s2, iv, s3, hrhs, hdup, hiv, hred⟩
  refine ⟨vr, s1, s2, iv, s3, hrhs, hdup, hiv, hred, fun t ht => ?_, fun hk => ?_, fun hk => ?_⟩
  · have hp := dup_post ht hdup
    refine ⟨hp.cont, fun j hr hm => ?_, (sep_after_dup ht hdup).disj⟩
    rcases hp.fresh j hr with h | h
    · exact h
    · exact absurd h (not_shared_of_mutable hm)
  · rcases iv with ⟨k, ro, nm, ix⟩
    simp only at hk; subst hk
    rcases reduceLHS_arr_spec ro nm ix r s3 s' hred with ⟨items, h1, _, h3⟩
    exact ⟨items, h1, h3⟩
  · rcases iv with ⟨k, ro, nm, ix⟩
    simp only at hk; subst hk
    exact reduceLHS_hm_spec ro nm ix r s3 s' hred

/-- 遍历 with one loop variable, with the pass named (`iterPass1`) -/
theorem iterate_unfolds (n ln : Nat) (e : Expr) (x : Ident) (body : Option (List Stmt)) :
    evalStmt (ν := ν) (n+1) (.iterate ln e [x] body) = (do
      setTopFrame fun fr => { fr with line := ln, started := true }
      withScope do
        let target ← evalExpr n e
        let vn ← matchIDName x.lit
        let nl ← newNull
        declareElement vn nl false
        match ← getCell target with
        | .arr items =>
          untilIdxM (fun i v => do
            let idx ← newNum (NumOps.ofInt (i + 1))
            iterPass1 n vn body v) 0 items
        | .hm _ order =>
          untilM (fun k => do
            match ← getCell target with
            | .hm vals _ =>
              match lookup k vals with
              | some v => do
                let ks ← newStr k
                iterPass1 n vn body v
              | none => pure false
            | _ => goPanic) order
        | _ => rtErr 80
      newNull) := evalStmt_iterate1 n ln e x body

/-- **iterate_binds_copy.**  Each pass of `以 x 遍历 c` on an element `v` that reads as `t` first duplicates `v`; the loop
variable is set to that duplicate `b` — same deep read, all copied-kind cells new, nothing copied-kind in common with
the element — and only then the body runs.  (`iterPass2_spec`: the same with a key variable.) -/
theorem iterate_binds_copy (n : Nat) (vn : String) (body : Option (List Stmt)) (v : Addr) (s : VM ν) (t : Tree ν)
    (ht : content n s.heap v = some t) :
    ∃ b s1, dup n v s = (.ok b, s1) ∧ content n s1.heap b = some t ∧
      (∀ j, Reach s1.heap b j → Mutable s1.heap j → s.heap.size ≤ j) ∧ Disj s1.heap v b ∧
      iterPass1 n vn body v s = tryCatch (do
        setElement vn b
        let _ ← evalPureStmtBlock n body
        pure ()) iterOutcome s1 := by
  rcases iterPass1_spec n vn body v s t ht with ⟨b, s1, hd, hp, heq⟩
  refine ⟨b, s1, hd, hp.cont, fun j hr hm => ?_, (sep_after_dup ht hd).disj, heq⟩
  rcases hp.fresh j hr with h | h
  · exact h
  · exact absurd h (not_shared_of_mutable hm)

/-- **new_object_copies_defaults.**  Constructing an object of a type whose default property values read as `ts`
(whatever the constructor kind): every default is duplicated — the instance's property values `vs` read as `ts` again,
every copied-kind cell below them is new, and the instance cell `.obj cv (names zip vs)` is allocated before the
constructor body (`constructTail`) runs. -/
theorem new_object_copies_defaults (n : Nat) (cv : Addr) (params : List Addr) (s : VM ν) (nm : String) (ctor : Ctor)
    (props meths : List (String × Addr)) (hc : s.heap[cv]? = some (.cls nm ctor props meths))
    (ts : List (Tree ν)) (hts : (props.map Prod.snd).mapM (content n s.heap) = some ts) :
    ∃ (vs : List Addr) (s1 : VM ν), s1 = { s with heap := s1.heap } ∧
      (s.heap.size ≤ s1.heap.size ∧ ∀ i, i < s.heap.size → s1.heap[i]? = s.heap[i]?) ∧
      vs.mapM (content n s1.heap) = some ts ∧
      (∀ v ∈ vs, ∀ j, Reach s1.heap v j → Mutable s1.heap j → s.heap.size ≤ j) ∧
      construct (n+1) cv params s =
        constructTail n ctor params s1.heap.size
          { s1 with heap := s1.heap.push (.obj cv ((props.map Prod.fst).zip vs)) } := by
  rcases construct_spec n cv params s nm ctor props meths hc ts hts with ⟨vs, s1, hg, hcont, hall, heq⟩
  refine ⟨vs, s1, hg.1, hg.2, hcont, fun v hv j hr hm => ?_, heq⟩
  rcases (hall v hv).2 j hr with h | h
  · exact h
  · exact absurd h (not_shared_of_mutable hm)

/-- **type_keeps_own_copy_of_default.**  A type declaration evaluates each default and keeps a COPY of it
(`evalClassDecl` = … `props.mapM (propDefault n)` …, `evalClassDecl_eq`): where the default expression yields a readable
value `t` at `v` — e.g. a bare name `其数 = 基`, which yields 基's own cell — the address `b` the type stores reads as `t`,
every copied-kind cell below `b` is new, and no cell that existed before has changed.  A later in-place change of the
name (`以基（自增：5）`) therefore cannot reach the default that later objects start from. -/
theorem type_keeps_own_copy_of_default (n : Nat) (pid : Ident) (e : Expr) (s s1 : VM ν) (v : Addr) (t : Tree ν)
    (he : evalExpr n e s = (.ok v, s1)) (ht : content n s1.heap v = some t) :
    ∃ b s2, propDefault n (some pid, e) s = (.ok (pid.lit, b), s2) ∧
      content n s2.heap b = some t ∧
      (s1.heap.size ≤ s2.heap.size ∧ ∀ i, i < s1.heap.size → s2.heap[i]? = s1.heap[i]?) ∧
      (∀ i, Reach s2.heap b i → Mutable s2.heap i → s1.heap.size ≤ i) ∧
      s2 = { s1 with heap := s2.heap } := by
  obtain ⟨b, s2, hd, hc, hext, hfresh, hsame, _⟩ := dup_separates n v s1 t ht
  refine ⟨b, s2, ?_, hc, hext, hfresh, hsame⟩
  simp [propDefault, bind, he, hd, pure]

/-- the declaration itself, in terms of `propDefault` -/
theorem type_declaration_unfolds (n ln : Nat) (name : Option Ident) (props : List (Option Ident × Expr))
    (methods getters : List Stmt) :
    evalClassDecl (ν := ν) (n+1) (.classDecl ln name props methods getters) = (do
      let cm ← currentModule
      let cname ← matchIDNameOpt name
      let propVals ← props.mapM (propDefault n)
      classTail cm cname methods propVals) :=
  evalClassDecl_eq n ln name props methods getters

/-- two objects of one type (default constructor), created one after the other, have no copied-kind cell in common
through their property values -/
theorem two_objects_share_no_defaults (n : Nat) (cv : Addr) (p1 p2 : List Addr) (s : VM ν) (nm : String)
    (props meths : List (String × Addr)) (hc : s.heap[cv]? = some (.cls nm .default props meths))
    (ts : List (Tree ν)) (hts : (props.map Prod.snd).mapM (content n s.heap) = some ts) :
    ∃ o1 s1 o2 s2 vs1 vs2, construct (n+1) cv p1 s = (.ok o1, s1) ∧ construct (n+1) cv p2 s1 = (.ok o2, s2) ∧
      s1.heap[o1]? = some (.obj cv ((props.map Prod.fst).zip vs1)) ∧
      s2.heap[o1]? = some (.obj cv ((props.map Prod.fst).zip vs1)) ∧
      s2.heap[o2]? = some (.obj cv ((props.map Prod.fst).zip vs2)) ∧ o1 ≠ o2 ∧
      ∀ v1 ∈ vs1, ∀ v2 ∈ vs2, Disj s2.heap v1 v2 := by
  rcases construct_spec n cv p1 s nm .default props meths hc ts hts with ⟨vs1, m1, hg1, hcont1, hall1, heq1⟩
  let s1 : VM ν := { m1 with heap := m1.heap.push (.obj cv ((props.map Prod.fst).zip vs1)) }
  have e1 : Ext s.heap s1.heap := hg1.2.trans (Ext.push _ _)
  have hc1 : s1.heap[cv]? = some (.cls nm .default props meths) := e1.get hc
  have hts1 : (props.map Prod.snd).mapM (content n s1.heap) = some ts :=
    omapM_mono _ _ _ (fun y _ t' => content_ext e1 n y t') ts hts
  rcases construct_spec n cv p2 s1 nm .default props meths hc1 ts hts1 with ⟨vs2, m2, hg2, hcont2, hall2, heq2⟩
  let s2 : VM ν := { m2 with heap := m2.heap.push (.obj cv ((props.map Prod.fst).zip vs2)) }
  have e12 : Ext s1.heap m2.heap := hg2.2
  have e2 : Ext m2.heap s2.heap := Ext.push _ _
  have ho1 : s1.heap[m1.heap.size]? = some (.obj cv ((props.map Prod.fst).zip vs1)) := by simp [s1]
  refine ⟨m1.heap.size, s1, m2.heap.size, s2, vs1, vs2, heq1, heq2, ho1, (e12.trans e2).get ho1, by simp [s2], ?_, ?_⟩
  · have h1 : m1.heap.size < s1.heap.size := by simp [s1]
    have h2 : s1.heap.size ≤ m2.heap.size := e12.1
    exact Nat.ne_of_lt (Nat.lt_of_lt_of_le h1 h2)
  · intro v1 hv1 v2 hv2
    have va : Valid s1.heap v1 := (hall1 v1 hv1).1.ext (Ext.push _ _)
    have := sep_child_of_fresh (e12.trans e2) va ((hall2 v2 hv2).1.ext e2) ((hall2 v2 hv2).2.ext e2 (hall2 v2 hv2).1)
    exact this.2

/-! ## 6. objects are shared -/

/-- **objects_shared.**  A duplicate reaches the very same object cells as the original (at any nesting depth inside
lists and dictionaries), and `dup` did not touch them. -/
theorem objects_shared (n : Nat) (a b : Addr) (s s' : VM ν) (t : Tree ν) (ht : content n s.heap a = some t)
    (hd : dup n a s = (.ok b, s')) (o : Addr) (ho : IsRef s.heap o) (hr : Reach s.heap a o) :
    Reach s'.heap b o ∧ s'.heap[o]? = s.heap[o]? := by
  have hp := dup_post ht hd
  refine ⟨content_eq_reach_ref n s.heap s'.heap a b t ht hp.cont o ho hr, ?_⟩
  rcases ho with ⟨c, hc, _⟩
  exact hp.ext.2 o (lt_size_of_getElem? hc)

/-- a property write on an object replaces that one cell; afterwards *every* holder — there is only the one cell —
reads the new value, and no list or dictionary anywhere reads differently (they hold the object's identity) -/
theorem property_write_seen_by_all (n : Nat) (o : Addr) (name : String) (v : Addr) (s s' : VM ν) (cls : Addr)
    (props : List (String × Addr)) (hc : s.heap[o]? = some (.obj cls props)) (hn : name ≠ "自身")
    (h : setProperty o name v s = (.ok (), s')) :
    getProperty n o name s' = (.ok v, s') ∧ ∀ m a, content m s'.heap a = content m s.heap a := by
  have hs := setProperty_obj_spec o name v s s' cls props hc h
  have hlt := lt_size_of_getElem? hc
  constructor
  · refine getProperty_obj n o name v s' cls (assocSet name v props) ?_ hn (lookup_assocSet_self name v props)
    rw [hs]; exact get_set_eq _ _ _ hlt
  · intro m a
    rw [hs]
    exact content_set_ref o _ _ rfl rfl m s.heap a hc

/-! ## 7. literals are fresh -/

/-- **literals_fresh (text, number).**  A text or number literal evaluates to a newly allocated cell. -/
theorem literals_fresh_str (n ln : Nat) (x : String) (s : VM ν) :
    evalExpr (n+1) (.str ln x) s = (.ok s.heap.size, { s with heap := s.heap.push (.str x) }) := by
  simp only [evalExpr]; rfl

theorem literals_fresh_num (n : Nat) (i : Ident) (s : VM ν) (hnum : tryParseNumber (strCps i.lit) = .number) :
    evalExpr (n+1) (.id i) s =
      (.ok s.heap.size, { s with heap := s.heap.push (.num (NumOps.parse (parseFloatText (strCps i.lit)))) }) := by
  simp only [evalExpr, matchIDType, hnum, bind, pure]; rfl

/-- **literals_fresh (list).**  A list literal allocates its container cell after its elements were evaluated: the
address is the heap size at that moment, hence different from every cell that existed then. -/
theorem literals_fresh_arr (n ln : Nat) (items : List Expr) (s s' : VM ν) (a : Addr)
    (h : evalExpr (n+1) (.arr ln items) s = (.ok a, s')) :
    ∃ vs s1, items.mapM (evalExpr n) s = (.ok vs, s1) ∧ a = s1.heap.size ∧
      s' = { s1 with heap := s1.heap.push (.arr vs) } := by
  simp only [evalExpr] at h
  rcases bind_ok_inv _ _ _ _ _ h with ⟨vs, s1, h1, h2⟩
  simp only [alloc] at h2
  injection h2 with e1 e2
  injection e1 with e1
  exact ⟨vs, s1, h1, e1.symm, e2.symm⟩

/-- **literals_fresh (dictionary).** -/
theorem literals_fresh_hm (n ln : Nat) (kvs : List (Expr × Expr)) (s s' : VM ν) (a : Addr)
    (h : evalExpr (n+1) (.hm ln kvs) s = (.ok a, s')) :
    ∃ (pairs : List (String × Addr)) (s1 : VM ν), a = s1.heap.size ∧
      s' = { s1 with heap := s1.heap.push (newHashMapCell pairs) } := by
  simp only [evalExpr] at h
  rcases bind_ok_inv _ _ _ _ _ h with ⟨pairs, s1, h1, h2⟩
  simp only [alloc] at h2
  injection h2 with e1 e2
  injection e1 with e1
  exact ⟨pairs, s1, e1.symm, e2.symm⟩

/-- **the evaluator never shrinks the heap.**  No run of an expression or a statement, whatever its outcome (value, error,
exception, panic, out of fuel), ends with fewer cells than it started with; so an address `≥` the heap size at some
moment is different from every cell that existed at that moment, for ever.  (Mutual induction over the whole
evaluator, Proofs/HeapMono.lean; the same holds for calls, blocks, construction — `evalMono`.) -/
theorem heap_never_shrinks (n : Nat) :
    (∀ (e : Expr) (s s' : VM ν) (r : Res Addr), evalExpr n e s = (r, s') → s.heap.size ≤ s'.heap.size) ∧
    (∀ (st : Stmt) (s s' : VM ν) (r : Res Addr), evalStmt n st s = (r, s') → s.heap.size ≤ s'.heap.size) :=
  ⟨fun e s s' r h => ((evalMono n).expr e).run s r s' h, fun st s s' r h => ((evalMono n).stmt st).run s r s' h⟩

/-- list, dictionary and text literals -/
def IsLiteral (e : Expr) : Prop := (∃ ln items, e = .arr ln items) ∨ (∃ ln kvs, e = .hm ln kvs) ∨ (∃ ln x, e = .str ln x)

/-- **literals_fresh.**  A list / dictionary / text literal evaluates to a cell that did not exist before the
evaluation started (its address is at least the old heap size), whatever its element expressions did. -/
theorem literals_fresh (n : Nat) (e : Expr) (he : IsLiteral e) (s s' : VM ν) (a : Addr)
    (h : evalExpr n e s = (.ok a, s')) : s.heap.size ≤ a ∧ a < s'.heap.size := by
  cases n with
  | zero => simp [evalExpr, outOfFuel] at h
  | succ n =>
    rcases he with ⟨ln, items, rfl⟩ | ⟨ln, kvs, rfl⟩ | ⟨ln, x, rfl⟩
    · rcases literals_fresh_arr n ln items s s' a h with ⟨vs, s1, h1, rfl, rfl⟩
      exact ⟨(pres_mapM (R := HeapMono) items (evalMono n).expr).run _ _ _ h1, by simp⟩
    · have hm := h
      simp only [evalExpr] at hm
      rcases bind_ok_inv _ _ _ _ _ hm with ⟨pairs, s1, h1, h2⟩
      simp only [alloc] at h2
      injection h2 with e1 e2
      injection e1 with e1
      subst e1; subst e2
      refine ⟨(pres_mapM (R := HeapMono) kvs ?_).run _ _ _ h1, by simp⟩
      have hE := (evalMono (ν := ν) n).expr
      pres_auto
      all_goals exact hE _
    · rw [literals_fresh_str n ln x s] at h
      injection h with e1 e2
      injection e1 with e1
      subst e1; subst e2
      exact ⟨Nat.le_refl _, by simp⟩

/-- two evaluations of literals — the same literal executed twice, or two different ones — with anything executed in
between (`heap_never_shrinks`) yield different cells -/
theorem literal_evaluations_disjoint (n1 n2 : Nat) (e1 e2 : Expr) (h1 : IsLiteral e1) (h2 : IsLiteral e2)
    (s s1 s2 s3 : VM ν) (a1 a2 : Addr)
    (r1 : evalExpr n1 e1 s = (.ok a1, s1)) (between : s1.heap.size ≤ s2.heap.size)
    (r2 : evalExpr n2 e2 s2 = (.ok a2, s3)) : a1 < a2 := by
  have q1 : a1 < s1.heap.size := (literals_fresh n1 e1 h1 s s1 a1 r1).2
  have q2 : s2.heap.size ≤ a2 := (literals_fresh n2 e2 h2 s2 s3 a2 r2).1
  exact Nat.lt_of_lt_of_le q1 (Nat.le_trans between q2)

/-! ## the model's mutators are mutations "through" their receiver -/

/-- `以 r（后增：x）` on a list cell `r` below `b` is a `MutSeq` through `b` (allocations for the duplicate of `x`, then
one write to `r`'s own cell) -/
theorem push_back_is_mutation_through (n : Nat) (a b r x : Addr) (items : List Addr) (s s' : VM ν) (res : Addr) (t : Tree ν)
    (h : builtinMethod n r "后增" [x] s = (.ok res, s'))
    (hc : s.heap[r]? = some (.arr items)) (ht : content n s.heap x = some t)
    (hr : Reach s.heap b r) (hs : Sep s.heap a b) : MutSeq a b s.heap s'.heap :=
  push_back_mutSeq n a b r x items s s' res t h hc ht hr hs

/-- `c#i = v` / `c#{k} = v` on a cell below `b`, storing a value that is separated from `a` (a duplicate, as the
assignment expression always stores), is a `MutSeq` through `b` -/
theorem element_store_is_mutation_through (a b root : Addr) (nm : String) (idx : Int) (v : Addr) (s s' : VM ν)
    (kind : Nat) (hk : kind = 1 ∨ kind = 2)
    (h : reduceLHS (kind, root, nm, idx) v s = (.ok (), s'))
    (hr : Reach s.heap b root) (hs : Sep s.heap a b) (hv : Valid s.heap v ∧ Disj s.heap a v) :
    MutSeq a b s.heap s'.heap := by
  rcases hk with rfl | rfl
  · exact element_store_mutSeq a b root nm idx v s s' h hr hs hv
  · exact key_store_mutSeq a b root nm idx v s s' h hr hs hv

/-- the same for 前增, 新增, 添加, 写入, 移除, 左移, 右移, 交换, 自增, 自减 (and 合并: `merge_is_mutation_through`) — every mutating
built-in of the model -/
theorem other_mutators_are_mutations_through (n : Nat) (a b r : Addr) (s s' : VM ν) (hr : Reach s.heap b r)
    (hs : Sep s.heap a b) :
    (∀ x items res t, builtinMethod n r "前增" [x] s = (.ok res, s') → s.heap[r]? = some (.arr items) →
        content n s.heap x = some t → MutSeq a b s.heap s'.heap) ∧
    (∀ name x p pv items res t, name = "新增" ∨ name = "添加" → builtinMethod n r name [x, p] s = (.ok res, s') →
        s.heap[r]? = some (.arr items) → s.heap[p]? = some (.num pv) → content n s.heap x = some t →
        MutSeq a b s.heap s'.heap) ∧
    (∀ k x key vals order res t, builtinMethod n r "写入" [k, x] s = (.ok res, s') → s.heap[r]? = some (.hm vals order) →
        s.heap[k]? = some (.str key) → content n s.heap x = some t → MutSeq a b s.heap s'.heap) ∧
    (∀ k key vals order res, builtinMethod n r "移除" [k] s = (res, s') → s.heap[r]? = some (.hm vals order) →
        s.heap[k]? = some (.str key) → MutSeq a b s.heap s'.heap) ∧
    (∀ items res, builtinMethod n r "左移" [] s = (res, s') → s.heap[r]? = some (.arr items) → MutSeq a b s.heap s'.heap) ∧
    (∀ items res, builtinMethod n r "右移" [] s = (res, s') → s.heap[r]? = some (.arr items) → MutSeq a b s.heap s'.heap) ∧
    (∀ p q pv qv items res, builtinMethod n r "交换" [p, q] s = (res, s') → s.heap[r]? = some (.arr items) →
        s.heap[p]? = some (.num pv) → s.heap[q]? = some (.num qv) → MutSeq a b s.heap s'.heap) ∧
    (∀ name v x y res, name = "自增" ∨ name = "自减" → builtinMethod n r name [v] s = (res, s') →
        s.heap[r]? = some (.num x) → s.heap[v]? = some (.num y) → MutSeq a b s.heap s'.heap) :=
  ⟨fun x items res t h hc ht => push_front_mutSeq n a b r x items s s' res t h hc ht hr hs,
   fun name x p pv items res t hn h hc hp ht => insert_mutSeq n a b r x p name hn pv items s s' res t h hc hp ht hr hs,
   fun k x key vals order res t h hc hk ht => dict_put_mutSeq n a b r k x key vals order s s' res t h hc hk ht hr hs,
   fun k key vals order res h hc hk => dict_remove_mutSeq n a b r k key vals order s s' res h hc hk hr hs,
   fun items res h hc => pop_front_mutSeq n a b r items s s' res h hc hr hs,
   fun items res h hc => pop_back_mutSeq n a b r items s s' res h hc hr hs,
   fun p q pv qv items res h hc hp hq => swap_mutSeq n a b r p q pv qv items s s' res h hc hp hq hr hs,
   fun name v x y res hn h hc hv => incr_mutSeq n a b r v name hn x y s s' res h hc hv hr hs⟩

/-- **merge_stores_copies.**  `以 r（合并：v₁、…）` on a list cell `r`, the arguments being list cells whose items read as `ts`:
every item of every argument is duplicated (DuplicateValue, as 后增 does); `r`'s cell becomes its old items followed by
the duplicates `news`, which read as `ts` again and below which every copied-kind cell is new; nothing else of the old
heap changes; the answer is a second list cell over the same items.  (Before the repair the items themselves were
stored: `以 B（合并：A）` made `B` and `A` share their elements, and `以 A（合并：【A】）` made `A` an element of itself.) -/
theorem merge_stores_copies (n : Nat) (r : Addr) (vals : List Addr) (items : List Addr) (cellOf : Addr → List Addr)
    (s s' : VM ν) (res : Addr) (ts : List (Tree ν))
    (h : builtinMethod n r "合并" vals s = (.ok res, s'))
    (hc : s.heap[r]? = some (.arr items))
    (hcells : ∀ v ∈ vals, s.heap[v]? = some (.arr (cellOf v)))
    (hts : (vals.flatMap cellOf).mapM (content n s.heap) = some ts) :
    ∃ (news : List Addr) (s1 : VM ν), s1 = { s with heap := s1.heap } ∧
      (s.heap.size ≤ s1.heap.size ∧ ∀ i, i < s.heap.size → s1.heap[i]? = s.heap[i]?) ∧
      news.mapM (content n s1.heap) = some ts ∧
      (∀ y ∈ news, ∀ j, Reach s1.heap y j → Mutable s1.heap j → s.heap.size ≤ j) ∧
      res = s1.heap.size ∧
      s' = { s1 with heap := (s1.heap.set! r (.arr (items ++ news))).push (.arr (items ++ news)) } := by
  rcases merge_spec n r vals items cellOf s s' res ts h hc hcells hts with ⟨news, s1, hg, hcont, hall, hres, hs'⟩
  refine ⟨news, s1, hg.1, hg.2, hcont, fun y hy j hr hm => ?_, hres, hs'⟩
  rcases (hall y hy).2 j hr with h | h
  · exact h
  · exact absurd h (not_shared_of_mutable hm)

/-- **merge_is_mutation_through.**  合并 on a list cell below `b` is a `MutSeq` through `b` like every other mutator -/
theorem merge_is_mutation_through (n : Nat) (a b r : Addr) (vals : List Addr) (items : List Addr) (cellOf : Addr → List Addr)
    (s s' : VM ν) (res : Addr) (ts : List (Tree ν))
    (h : builtinMethod n r "合并" vals s = (.ok res, s'))
    (hc : s.heap[r]? = some (.arr items))
    (hcells : ∀ v ∈ vals, s.heap[v]? = some (.arr (cellOf v)))
    (hts : (vals.flatMap cellOf).mapM (content n s.heap) = some ts)
    (hr : Reach s.heap b r) (hs : Sep s.heap a b) : MutSeq a b s.heap s'.heap :=
  merge_mutSeq n a b r vals items cellOf s s' res ts h hc hcells hts hr hs

/-! ## acyclicity is preserved -/

/-- **every mutating built-in is one store** (`StoreStep r h h'`): allocations; then the receiver's own cell `r` is replaced
by a cell (well formed if the old one was) each of whose links is one of `r`'s own old links or a readable value whose
copied-kind cells were all allocated since the call started; then allocations.  For the methods that store an argument
(后增 前增 新增 添加 写入 合并) the hypothesis is that the argument is readable and the call succeeded; the others are covered
for every outcome. -/
theorem every_mutator_is_a_store (n : Nat) (r : Addr) (s s' : VM ν) :
    (∀ x items res t, builtinMethod n r "后增" [x] s = (.ok res, s') → s.heap[r]? = some (.arr items) →
        content n s.heap x = some t → StoreStep r s.heap s'.heap) ∧
    (∀ x items res t, builtinMethod n r "前增" [x] s = (.ok res, s') → s.heap[r]? = some (.arr items) →
        content n s.heap x = some t → StoreStep r s.heap s'.heap) ∧
    (∀ name x p pv items res t, name = "新增" ∨ name = "添加" → builtinMethod n r name [x, p] s = (.ok res, s') →
        s.heap[r]? = some (.arr items) → s.heap[p]? = some (.num pv) → content n s.heap x = some t →
        StoreStep r s.heap s'.heap) ∧
    (∀ k x key vals order res t, builtinMethod n r "写入" [k, x] s = (.ok res, s') → s.heap[r]? = some (.hm vals order) →
        s.heap[k]? = some (.str key) → content n s.heap x = some t → StoreStep r s.heap s'.heap) ∧
    (∀ vals items cellOf res ts, builtinMethod n r "合并" vals s = (.ok res, s') → s.heap[r]? = some (.arr items) →
        (∀ v ∈ vals, s.heap[v]? = some (.arr (cellOf v))) → (vals.flatMap cellOf).mapM (content n s.heap) = some ts →
        StoreStep r s.heap s'.heap) ∧
    (∀ k key vals order res, builtinMethod n r "移除" [k] s = (res, s') → s.heap[r]? = some (.hm vals order) →
        s.heap[k]? = some (.str key) → StoreStep r s.heap s'.heap) ∧
    (∀ items res, builtinMethod n r "左移" [] s = (res, s') → s.heap[r]? = some (.arr items) → StoreStep r s.heap s'.heap) ∧
    (∀ items res, builtinMethod n r "右移" [] s = (res, s') → s.heap[r]? = some (.arr items) → StoreStep r s.heap s'.heap) ∧
    (∀ p q pv qv items res, builtinMethod n r "交换" [p, q] s = (res, s') → s.heap[r]? = some (.arr items) →
        s.heap[p]? = some (.num pv) → s.heap[q]? = some (.num qv) → StoreStep r s.heap s'.heap) ∧
    (∀ name v x y res, name = "自增" ∨ name = "自减" → builtinMethod n r name [v] s = (res, s') →
        s.heap[r]? = some (.num x) → s.heap[v]? = some (.num y) → StoreStep r s.heap s'.heap) :=
  ⟨fun x items res t h hc ht => push_back_storeStep n r x items s s' res t h hc ht,
   fun x items res t h hc ht => push_front_storeStep n r x items s s' res t h hc ht,
   fun name x p pv items res t hn h hc hp ht => insert_storeStep n r x p name hn pv items s s' res t h hc hp ht,
   fun k x key vals order res t h hc hk ht => dict_put_storeStep n r k x key vals order s s' res t h hc hk ht,
   fun vals items cellOf res ts h hc hcells hts => merge_storeStep n r vals items cellOf s s' res ts h hc hcells hts,
   fun k key vals order res h hc hk => dict_remove_storeStep n r k key vals order s s' res h hc hk,
   fun items res h hc => pop_front_storeStep n r items s s' res h hc,
   fun items res h hc => pop_back_storeStep n r items s s' res h hc,
   fun p q pv qv items res h hc hp hq => swap_storeStep n r p q pv qv items s s' res h hc hp hq,
   fun name v x y res hn h hc hv => incr_storeStep n r v name hn x y s s' res h hc hv⟩

/-- **acyclic_preserved (built-in mutators).**  A store keeps every value that was acyclic and well formed acyclic and well
formed (equivalently: readable, `readable_iff_acyclic`) — so after any of the calls of `every_mutator_is_a_store`, `dup`,
`display` and comparison still terminate on every value on which they terminated before.  It is also a mutation
through whatever is above the receiver. -/
theorem mutators_preserve_acyclicity (r : Addr) (h h' : Array (Cell ν)) (st : StoreStep r h h') (a : Addr)
    (ha : Acyclic h a ∧ WellFormed h a) : Acyclic h' a ∧ WellFormed h' a := st.acyclic a ha

theorem store_is_mutation_through (r a b : Addr) (h h' : Array (Cell ν)) (st : StoreStep r h h')
    (hr : Reach h b r) (hs : Sep h a b) : MutSeq a b h h' := st.mutSeq hr hs

/-- **acyclic_preserved (element, key and property assignment).**  A successful `reduceLHS (kind, root, …) v` — `c#i = v`,
`c#{k} = v`, `c 之 p = v` — keeps every acyclic well-formed value so, provided the stored `v` is itself acyclic and well
formed and `root` is not reachable from `v`.  At the model's only call site (`evalExpr (.assign …)`,
`element_assign_stores_copy`) `v` is the fresh result of `dup`, made *before* the root and index expressions are
evaluated; that no cell existing or allocated afterwards can be reached from that private copy is not proved here (it
needs the invariant that every cell reachable from a scope or frame excludes the evaluator's temporaries).  A property
write on an object needs no hypothesis at all: objects are not traversed, so an object may hold itself. -/
theorem stores_preserve_acyclicity (kind : Nat) (root : Addr) (nm : String) (idx : Int) (v : Addr) (s s' : VM ν)
    (h : reduceLHS (kind, root, nm, idx) v s = (.ok (), s'))
    (hv : Acyclic s.heap v ∧ WellFormed s.heap v) (hnr : ¬ Reach s.heap v root) (a : Addr)
    (ha : Acyclic s.heap a ∧ WellFormed s.heap a) : Acyclic s'.heap a ∧ WellFormed s'.heap a :=
  (content_defined_iff _ a).1
    (reduceLHS_readable kind root nm idx v s s' h ((content_defined_iff _ v).2 hv) hnr a ((content_defined_iff _ a).2 ha))

/-- reading `c#i` / `c#{k}` answers a cell that `c`'s cell links to (so access paths below a name stay below what the
name denotes) and changes nothing -/
theorem index_read_stays_below (n kind : Nat) (hk : kind = 1 ∨ kind = 2) (root : Addr) (nm : String) (idx : Int)
    (s s' : VM ν) (v : Addr) (h : reduceRHS n (kind, root, nm, idx) s = (.ok v, s')) :
    s' = s ∧ Reach s.heap root v := by
  rcases index_read_reaches n kind hk root nm idx s s' v h with ⟨e, c, hc, hv⟩
  exact ⟨e, Reach.child hc hv⟩

/-- end to end: `b := dup a`, then `后增` on any list `r` inside the copy (at any depth) — `a` reads as before, and the two
stay separated, so the same holds for whatever is done next -/
theorem push_back_on_copy_invisible (n : Nat) (a b r x : Addr) (items : List Addr) (s s1 s2 : VM ν) (res : Addr)
    (t tx : Tree ν) (ht : content n s.heap a = some t) (hd : dup n a s = (.ok b, s1))
    (hr : Reach s1.heap b r) (hc : s1.heap[r]? = some (.arr items)) (htx : content n s1.heap x = some tx)
    (h : builtinMethod n r "后增" [x] s1 = (.ok res, s2)) :
    content n s2.heap a = some t ∧ Sep s2.heap a b := by
  have hp := dup_post ht hd
  have hsep := sep_after_dup ht hd
  exact mutSeq_preserves (push_back_mutSeq n a b r x items s1 s2 res tx h hc htx hr hsep) n t hsep
    (content_ext hp.ext n a t ht)

/-! ## the program-level closure -/

/-- literal expressions that mention no name: numbers, texts, lists and dictionaries of such -/
inductive ClosedLit : Expr → Prop
  | num (i : Ident) : tryParseNumber (strCps i.lit) = .number → ClosedLit (.id i)
  | str (ln : Nat) (x : String) : ClosedLit (.str ln x)
  | arr (ln : Nat) (items : List Expr) : (∀ e ∈ items, ClosedLit e) → ClosedLit (.arr ln items)
  | hm (ln : Nat) (kvs : List (Expr × Expr)) :
      (∀ kv ∈ kvs, ∃ l k, kv.1 = .str l k) → (∀ kv ∈ kvs, ClosedLit kv.2) → ClosedLit (.hm ln kvs)

/-- access paths below the name `y`: `y`, `y#i`, `y#i#j`, … with literal indices -/
inductive PathFrom (y : String) : Expr → Prop
  | root (ln : Nat) : PathFrom y (.id ⟨ln, y⟩)
  | index (ln : Nat) (p idx : Expr) : PathFrom y p → ClosedLit idx → PathFrom y (.member ln 1 p 2 none idx)

/-- "a change made through the variable `y`": an element / key assignment `y#i… = literal`, or a built-in method call
`以 y#i…（m：literals）` -/
inductive ThroughName (y : String) : Stmt → Prop
  | assign (ln l : Nat) (p idx rhs : Expr) : PathFrom y p → ClosedLit idx → ClosedLit rhs →
      ThroughName y (.expr (.assign ln (.member l 1 p 2 none idx) rhs))
  | method (ln l : Nat) (p : Expr) (m : Ident) (params : List Expr) : PathFrom y p → (∀ e ∈ params, ClosedLit e) →
      ThroughName y (.expr (.mcall ln p [.call l (some m) params none] none))

/-- the vocabulary above is the one of Proofs/CopyProgram.lean (`LitExpr`, `PathExpr`, `ThroughStmt`) -/
theorem ClosedLit.toLit {e : Expr} (h : ClosedLit e) : LitExpr e := by
  induction h with
  | num i h => exact .num i h
  | str ln x => exact .str ln x
  | arr ln items _ ih => exact .arr ln items ih
  | hm ln kvs hk _ ih => exact .hm ln kvs hk ih

theorem PathFrom.toPath {y : String} {p : Expr} (h : PathFrom y p) : PathExpr y p := by
  induction h with
  | root ln => exact .root ln
  | index ln p idx _ hidx ih => exact .index ln p idx ih hidx.toLit

theorem ThroughName.toStmt {y : String} {st : Stmt} (h : ThroughName y st) : ThroughStmt y st := by
  cases h with
  | assign ln l p idx rhs hp hidx hrhs => exact .assign ln l p idx rhs hp.toPath hidx.toLit hrhs.toLit
  | method ln l p m params hp hpar => exact .method ln l p m params hp.toPath (fun e he => (hpar e he).toLit)

/-- The program-level statement of the first sentence of C07 as it was first written down: after `令 y 为 x`, whatever
changes are then made through `y` and whatever the outcome `r2` of the list, `x` *resolves* in the final state and reads
as before.  **False as stated** (`copies_independent_program_level_full_false`): a built-in method call that fails
(unknown method, wrong argument, out of fuel, panic) leaves its call frame on the stack — as the Go code does — and the
native module `-1` current, so in the final state of an *aborted* list `vm.FindElement` looks `x` up in the wrong module.
(`x`'s value is untouched and its module's scope still binds it: `copies_independent_any_outcome`.)  It also fails on
machine states whose top frame does not belong to the current module (`copies_independent_needs_coherent_frames`), which
`PopCallFrame` after a *successful* call exposes.  The true variants are `copies_independent_program_level` (normal
outcome, coherent frame stack: the statement below word for word) and `copies_independent_any_outcome` (every outcome). -/
def copies_independent_program_level_full : Prop :=
  ∀ (ν : Type) [NumOps ν] (n : Nat) (x y : String) (stmts : List Stmt) (s s1 s2 : VM ν) (a r1 : Addr) (t : Tree ν)
    (r2 : Res (Option Addr)),
    x ≠ y → resolve x s = some a → content n s.heap a = some t →
    (∀ i, Reach s.heap a i → ¬ IsRef s.heap i) →   -- plain data: no object below `x` (an object's methods run arbitrary code)
    evalStmt n (.varDecl 0 [(1, [⟨0, y⟩], .id ⟨0, x⟩)]) s = (.ok r1, s1) →
    (∀ st ∈ stmts, ThroughName y st) →
    stmtsLoop (evalStmt n) none stmts s1 = (r2, s2) →
    ∃ a', resolve x s2 = some a' ∧ content n s2.heap a' = some t

/-- the module of the top call frame — what `PopCallFrame` makes the current module (`-1` on an empty stack) -/
abbrev topModule : List Frame → Int := topMod

/-- name lookup in a given scope: predefined names first, then the scope, innermost symbol first -/
abbrev lookupIn (g : List (String × Addr)) (sc : Scope) (nm : String) : Option Addr := resolveIn g sc nm

/-- `vm.FindElement` is `lookupIn` the scope of the current module -/
theorem resolve_eq_lookupIn (nm : String) (s : VM ν) (sc : Scope) (h : getScope s.csModuleID s = some sc) :
    resolve nm s = lookupIn s.globals sc nm := by
  unfold resolve lookupIn resolveIn
  rw [h]
  rfl

/-- **copies_independent_any_outcome.**  `令 y 为 x` on plain data (no object below `x`) in a machine state whose top frame
belongs to the current module, then any list of changes through `y` — element / key assignments `y#i… = literal` and
built-in method calls `以 y#i…（m：literals）` with any method name and any literal arguments — run by the statement loop
with ANY outcome `r2` (a value, an error in the middle of the list, a panic, out of fuel).  Then in the final state:
(1) no cell that existed before the declaration has changed — in particular nothing below `x`; (2) the predefined names
are the same; (3) the scope of the declaring module still binds `x` to the same address `a`; (4) `a` reads as `t`, as
before; (5) the current module is the declaring one or — after a failed built-in call, whose frame stays on the stack —
the native module `-1`; (6) whenever the declaring module is current, `x` resolves to `a`; (7) after a normal end of the
list it is current, and is the module of the top frame.  (Proof: Proofs/CopyZone.lean, Proofs/CopyProgram.lean — an
invariant on the whole heap, threaded through `evalStmt`, `evalExpr`, `memberIV`, `reduceLHS`, `execMethodFunction` with
its frame push / pop, and every branch of `builtinMethod`.) -/
theorem copies_independent_any_outcome (n : Nat) (x y : String) (stmts : List Stmt) (s s1 s2 : VM ν) (a r1 : Addr)
    (t : Tree ν) (r2 : Res (Option Addr))
    (hxy : x ≠ y) (hres : resolve x s = some a) (hcont : content n s.heap a = some t)
    (hplain : ∀ i, Reach s.heap a i → ¬ IsRef s.heap i)
    (hframes : topModule s.stack = s.csModuleID)
    (hdecl : evalStmt n (.varDecl 0 [(1, [⟨0, y⟩], .id ⟨0, x⟩)]) s = (.ok r1, s1))
    (hall : ∀ st ∈ stmts, ThroughName y st)
    (hloop : stmtsLoop (evalStmt n) none stmts s1 = (r2, s2)) :
    (∀ i, i < s.heap.size → s2.heap[i]? = s.heap[i]?) ∧
    s2.globals = s.globals ∧
    (∃ sc, getScope s.csModuleID s2 = some sc ∧ lookupIn s.globals sc x = some a) ∧
    content n s2.heap a = some t ∧
    (s2.csModuleID = s.csModuleID ∨ s2.csModuleID = -1) ∧
    (s2.csModuleID = s.csModuleID → resolve x s2 = some a) ∧
    ((∃ v, r2 = .ok v) → s2.csModuleID = s.csModuleID ∧ topModule s2.stack = s.csModuleID) := by
  rcases program_copy_new n 0 0 0 x y stmts s s1 s2 a r1 t none r2 hxy hres hcont hplain hframes hdecl
    (fun st hst => (hall st hst).toStmt) hloop with ⟨h1, h2, ⟨sc, h3, h4⟩, h5, h6, h7⟩
  refine ⟨h1, h2, ⟨sc, h3, h4⟩, h5, h6, fun hcs => ?_, fun hv => ⟨(h7 hv).1, (h7 hv).2.1⟩⟩
  rw [resolve_eq_lookupIn x s2 sc (by rw [hcs]; exact h3), h2]
  exact h4

/-- **copies_independent_program_level.**  The statement `copies_independent_program_level_full`, word for word, with its
two missing side conditions made explicit: the top frame of the initial state belongs to the current module (true of
every state the evaluator itself produces: `PushCallFrame` / `PopCallFrame` keep it), and the list of changes ended
normally (`r2 = .ok v`).  Then `x` resolves, to the same address, and reads as before. -/
theorem copies_independent_program_level (n : Nat) (x y : String) (stmts : List Stmt) (s s1 s2 : VM ν) (a r1 : Addr)
    (t : Tree ν) (v : Option Addr) :
    x ≠ y → resolve x s = some a → content n s.heap a = some t →
    (∀ i, Reach s.heap a i → ¬ IsRef s.heap i) →
    topModule s.stack = s.csModuleID →
    evalStmt n (.varDecl 0 [(1, [⟨0, y⟩], .id ⟨0, x⟩)]) s = (.ok r1, s1) →
    (∀ st ∈ stmts, ThroughName y st) →
    stmtsLoop (evalStmt n) none stmts s1 = (.ok v, s2) →
    ∃ a', resolve x s2 = some a' ∧ content n s2.heap a' = some t := by
  intro hxy hres hcont hplain hframes hdecl hall hloop
  rcases copies_independent_any_outcome n x y stmts s s1 s2 a r1 t (.ok v) hxy hres hcont hplain hframes hdecl hall hloop
    with ⟨_, _, _, h4, _, h6, h7⟩
  exact ⟨a, h6 (h7 ⟨v, rfl⟩).1, h4⟩

/-- **original_changes_invisible_through_copy** (the symmetric statement).  `令 y 为 x` (`x` a name, plain data below it,
coherent frame stack) makes `y` denote an address `b` that reads as `t`; then any list of changes through `x` — the
original —, with any outcome: no cell below `b` has changed, the declaring module's scope still binds `y` to `b`, `b`
still reads as `t`; the current module is the declaring one or `-1`; whenever it is the declaring one — in particular
after a normal end — `y` resolves to `b`. -/
theorem original_changes_invisible_through_copy (n : Nat) (x y : String) (stmts : List Stmt) (s s1 s2 : VM ν) (a r1 : Addr)
    (t : Tree ν) (r2 : Res (Option Addr))
    (hxy : x ≠ y) (hxname : tryParseNumber (strCps x) ≠ .number)
    (hres : resolve x s = some a) (hcont : content n s.heap a = some t)
    (hplain : ∀ i, Reach s.heap a i → ¬ IsRef s.heap i)
    (hframes : topModule s.stack = s.csModuleID)
    (hdecl : evalStmt n (.varDecl 0 [(1, [⟨0, y⟩], .id ⟨0, x⟩)]) s = (.ok r1, s1))
    (hall : ∀ st ∈ stmts, ThroughName x st)
    (hloop : stmtsLoop (evalStmt n) none stmts s1 = (r2, s2)) :
    ∃ b, resolve y s1 = some b ∧ content n s1.heap b = some t ∧
      (∀ i, Reach s1.heap b i → s2.heap[i]? = s1.heap[i]?) ∧
      (∃ sc, getScope s.csModuleID s2 = some sc ∧ lookupIn s.globals sc y = some b) ∧
      content n s2.heap b = some t ∧
      (s2.csModuleID = s.csModuleID ∨ s2.csModuleID = -1) ∧
      (s2.csModuleID = s.csModuleID → resolve y s2 = some b) ∧
      ((∃ v, r2 = .ok v) → s2.csModuleID = s.csModuleID ∧ topModule s2.stack = s.csModuleID) := by
  rcases program_copy_old n 0 0 0 x y stmts s s1 s2 a r1 t none r2 hxy hxname hres hcont hplain hframes hdecl
    (fun st hst => (hall st hst).toStmt) hloop with ⟨b, h1, h2, h3, h4, ⟨sc, h5, h6⟩, h7, h8, h9⟩
  refine ⟨b, h1, h2, h3, ⟨sc, h5, h6⟩, h7, h8, fun hcs => ?_, fun hv => ⟨(h9 hv).1, (h9 hv).2.1⟩⟩
  rw [resolve_eq_lookupIn y s2 sc (by rw [hcs]; exact h5), h4]
  exact h6

/-! ## non-vacuity: concrete instances of the hypotheses above (toy number type `Int`) -/

section examples

/-- a toy number type (no law is assumed anywhere, so any instance will do) -/
local instance toyNum : NumOps Int where
  add := (· + ·)
  sub := (· - ·)
  mul := (· * ·)
  div := (· / ·)
  floor := id
  ceil := id
  sqrt := id
  eq := (· == ·)
  lt := (· < ·)
  gt := (· > ·)
  le := (· ≤ ·)
  ge := (· ≥ ·)
  isZero := (· == 0)
  leZero := (· ≤ 0)
  ofInt := id
  toInt := id
  parse := fun cps => match cps with | [c] => (c : Int) - 48 | _ => 1   -- one-digit literals
  fmt := fun x => toString x

/-- `[[1, 2], 3]` at address 4 (inner list at 2) -/
def exH0 : Array (Cell Int) := #[.num 1, .num 2, .arr [0, 1], .num 3, .arr [2, 3]]
def exS0 : VM Int := { heap := exH0 }
/-- the heap after `dup 3 4`: the copy is at 9, its inner list at 7 -/
def exH1 : Array (Cell Int) :=
  #[.num 1, .num 2, .arr [0, 1], .num 3, .arr [2, 3], .num 1, .num 2, .arr [5, 6], .num 3, .arr [7, 8]]
def exS1 : VM Int := { heap := exH1 }
def exT0 : Tree Int := .list [.list [.num 1, .num 2], .num 3]

/-- hypothesis of dup_separates / dup_total / copy_independent / iterate_binds_copy: a readable nested value -/
example : content 3 exS0.heap 4 = some exT0 := by rfl
/-- … and what `dup` answers on it -/
example : dup 3 4 exS0 = (.ok 9, exS1) := by rfl
/-- readable ⇒ acyclic and well formed (hypotheses of dup_total_of_acyclic) -/
example : Acyclic exS0.heap 4 ∧ WellFormed exS0.heap 4 := (readable_iff_acyclic _ _).1 ⟨3, exT0, rfl⟩
/-- dup_cyclic_out_of_fuel: a list containing itself -/
example : dup 7 0 ({ heap := #[.arr [0]] } : VM Int) = (.fuel, { heap := #[.arr [0]] }) := dup_cyclic_out_of_fuel 7 _ 0 rfl

/-- the copy's inner list (7) is reachable from the copy (9), is a list cell, and is not reachable from the original:
hypotheses of frame_lemma and of a `MutSeq` write -/
example : Reach exH1 9 7 := .step (c := .arr [7, 8]) rfl (by simp [Cell.children]) (.refl 7)
example : Mutable exH1 7 := ⟨_, rfl, rfl⟩
example : ¬ Reach exH1 4 7 :=
  (sep_after_dup (n := 3) (a := 4) (b := 9) (s := exS0) (s' := exS1) (t := exT0) rfl rfl).not_reach
    (.step (c := .arr [7, 8]) rfl (by simp [Cell.children]) (.refl 7)) ⟨_, rfl, rfl⟩

/-- a history through the copy: append the copy's `3` (cell 8) to the copy's inner list (cell 7) -/
example : MutSeq 4 9 exH1 (exH1.set! 7 (.arr [5, 6, 8])) := by
  have hs : Sep exH1 4 9 := sep_after_dup (n := 3) (a := 4) (b := 9) (s := exS0) (s' := exS1) (t := exT0) rfl rfl
  have r7 : Reach exH1 9 7 := .step (c := .arr [7, 8]) rfl (by simp [Cell.children]) (.refl 7)
  have r8 : Reach exH1 9 8 := .step (c := .arr [7, 8]) rfl (by simp [Cell.children]) (.refl 8)
  refine .write r7 ⟨_, rfl, rfl⟩ (fun x hx => ?_) (.done _)
  simp only [Cell.children, List.mem_cons, List.not_mem_nil, or_false] at hx
  rcases hx with rfl | rfl | rfl
  · exact sep_child_of_reach hs (r7.trans (.step (c := .arr [5, 6]) rfl (by simp [Cell.children]) (.refl 5)))
  · exact sep_child_of_reach hs (r7.trans (.step (c := .arr [5, 6]) rfl (by simp [Cell.children]) (.refl 6)))
  · exact sep_child_of_reach hs r8
/-- … after which the original reads as before while the copy reads differently -/
example : content 3 (exH1.set! 7 (.arr [5, 6, 8])) 4 = some exT0 := by rfl
example : content 3 (exH1.set! 7 (.arr [5, 6, 8])) 9 = some (.list [.list [.num 1, .num 2, .num 3], .num 3]) := by rfl

/-- mutators_frame / push_back_is_mutation_through: a run of 后增 on the copy's inner list -/
example : builtinMethod 3 7 "后增" [8] exS1 =
    (.ok 7, { exS1 with heap := (exH1.push (.num 3)).set! 7 (.arr [5, 6, 10]) }) := by rfl

/-- a running machine: one module, one frame, `丙` bound to the list `[1]` at address 1 -/
def exRun : VM Int :=
  { heap := #[.num 1, .arr [0]],
    scopes := [(0, { syms := [{ name := "丙", depth := 0, isConst := false, ext := none, val := 1 }] })],
    csModuleID := 0, stack := [{ moduleId := 0, callType := 1 }] }

/-- vardecl_stores_copy: `令 甲、乙 为 丙` succeeds (two distinct names) -/
example : ∃ r s', evalStmt 6 (.varDecl 1 [(1, [⟨1, "甲"⟩, ⟨1, "乙"⟩], .id ⟨1, "丙"⟩)]) exRun = (.ok r, s') := ⟨_, _, rfl⟩
example : (([⟨1, "甲"⟩, ⟨1, "乙"⟩] : List Ident).map (·.lit)).Nodup := by decide
/-- assign_stores_copy: `丙 = 【"x"】` succeeds -/
example : ∃ r s', evalExpr 6 (.assign 1 (.id ⟨1, "丙"⟩) (.arr 1 [.str 1 "x"])) exRun = (.ok r, s') := ⟨_, _, rfl⟩
/-- element_assign_stores_copy: `丙#1 = 【"x"】` succeeds -/
example : ∃ r s', evalExpr 6 (.assign 1 (.member 1 1 (.id ⟨1, "丙"⟩) 2 none (.id ⟨1, "1"⟩)) (.arr 1 [.str 1 "x"])) exRun
    = (.ok r, s') := ⟨_, _, rfl⟩
/-- iterate_unfolds: `以 甲 遍历 丙：（空）` runs -/
example : ∃ r s', evalStmt 6 (.iterate 1 (.id ⟨1, "丙"⟩) [⟨1, "甲"⟩] (some [])) exRun = (.ok r, s') := ⟨_, _, rfl⟩
/-- literals_fresh: a list literal evaluates to a new cell -/
example : ∃ s', evalExpr 6 (.arr 1 [.str 1 "x"]) exRun = (.ok 3, s') := ⟨_, rfl⟩
example : IsLiteral (.arr 1 [.str 1 "x"]) := .inl ⟨_, _, rfl⟩

/-- type_keeps_own_copy_of_default: `其 p 为 丙` where 丙 is the list `[1]` at address 1: the default expression yields
丙's own cell (address 1), readable; the type stores a new list cell -/
example : evalExpr 5 (.id ⟨1, "丙"⟩) exRun = (.ok 1, exRun) := by rfl
example : content 5 exRun.heap 1 = some (.list [.num 1]) := by rfl
example : ∃ s2, propDefault 5 (some ⟨1, "p"⟩, .id ⟨1, "丙"⟩) exRun = (.ok ("p", 3), s2) := ⟨_, rfl⟩

/-- a type `T` (cell 2) whose default for property `p` is the list `[1]` (cell 1); an instance (cell 4) holding an
object (cell 3) inside a list -/
def exObj : VM Int :=
  { heap := #[.num 1, .arr [0], .cls "T" .default [("p", 1)] [], .obj 2 [("p", 1)], .arr [3]] }

/-- new_object_copies_defaults / two_objects_share_no_defaults: the defaults are readable -/
example : (([("p", 1)] : List (String × Addr)).map Prod.snd).mapM (content 2 exObj.heap) = some [.list [.num 1]] := by rfl
example : ∃ o s', construct 3 2 [] exObj = (.ok o, s') := ⟨_, _, rfl⟩
/-- objects_shared: a list holding an object; the object is a reference cell reachable from the list -/
example : content 2 exObj.heap 4 = some (.list [.ref 3]) := by rfl
example : IsRef exObj.heap 3 := ⟨.obj 2 [("p", 1)], rfl, rfl, by intro h; cases h⟩
example : Reach exObj.heap 4 3 := .step (c := .arr [3]) rfl (by simp [Cell.children]) (.refl 3)
example : dup 2 4 exObj = (.ok 5, { exObj with heap := exObj.heap.push (.arr [3]) }) := by rfl
/-- property_write_seen_by_all: a property write on the object succeeds -/
example : ∃ s', setProperty 3 "p" 0 exObj = (.ok (), s') := ⟨_, rfl⟩

/-- 合并 after the repair (merge_stores_copies): `以 A（合并：【A】）` — cell 1 is `A = 【1】`, cell 2 is the literal `【A】` — appends a
*copy* of `A` (cells 3, 4), not `A` itself: no list becomes an element of itself, and `A` stays readable -/
example : builtinMethod 2 1 "合并" [2] ({ heap := #[.num 1, .arr [0], .arr [1]] } : VM Int) =
    (.ok 5, { heap := #[.num 1, .arr [0, 4], .arr [1], .num 1, .arr [3], .arr [0, 4]] }) := by rfl
example : content 3 (#[.num 1, .arr [0, 4], .arr [1], .num 1, .arr [3], .arr [0, 4]] : Array (Cell Int)) 1 =
    some (.list [.num 1, .list [.num 1]]) := by rfl
/-- hypotheses of merge_stores_copies / merge_is_mutation_through on that call -/
example : ((([2] : List Addr).flatMap (fun _ => [1])).mapM (content 2 (#[.num 1, .arr [0], .arr [1]] : Array (Cell Int))))
    = some [.list [.num 1]] := by rfl
/-- stores_preserve_acyclicity: the hypothesis `¬ Reach v root` cannot be dropped — handing `reduceLHS` the list itself as the
value makes the list an element of itself (the evaluator never does: it hands over a fresh `dup`) -/
example : reduceLHS (1, 1, "", 1) 1 ({ heap := #[.num 1, .arr [0]] } : VM Int) = (.ok (), { heap := #[.num 1, .arr [1]] }) := by rfl
/-- … and a call that meets the hypotheses: store the number cell 0 into the list cell 1 -/
example : reduceLHS (1, 1, "", 1) 0 ({ heap := #[.num 1, .arr [0]] } : VM Int) = (.ok (), { heap := #[.num 1, .arr [0]] }) := by rfl
example : ¬ Reach (#[.num 1, .arr [0]] : Array (Cell Int)) 0 1 := fun h => by
  have := reach_leaf (h := (#[.num 1, .arr [0]] : Array (Cell Int))) (b := 0) (c := .num 1) rfl rfl h
  cases this
/-- dup_on_cycle_never_returns: a hand-made heap in which cell 1 links to itself (no mutator of the model is known to
build one any more — `mutators_preserve_acyclicity`) -/
example (n : Nat) : (dup n 1 ({ heap := #[.num 1, .arr [0, 1]] } : VM Int)).1 = .fuel :=
  dup_on_cycle_never_returns n _ 1 rfl rfl

/-! ### the program-level theorems: the refuting witnesses, and instances that meet every hypothesis

(The runs are evaluated by the kernel: `decide +kernel` on decidable facts about the final state — outcome, addresses,
module ids, displayed text — so no state equation is proved by unfolding the evaluator in the elaborator.) -/

/-- one module, its script frame, `甲` bound to the list `【1，【2，3】】` (cell 4; the inner list is cell 3) -/
def exProg : VM Int :=
  { heap := #[.num 1, .num 2, .num 3, .arr [1, 2], .arr [0, 3]],
    scopes := [(0, { syms := [{ name := "甲", depth := 0, isConst := false, ext := none, val := 4 }] })],
    csModuleID := 0, stack := [{ moduleId := 0, callType := 1 }] }
def exTree : Tree Int := .list [.num 1, .list [.num 2, .num 3]]
/-- `令 乙 为 甲` -/
def exDecl : Stmt := .varDecl 0 [(1, [⟨0, "乙"⟩], .id ⟨0, "甲"⟩)]
/-- `z#2#1 = 9` -/
def exAssign (z : String) : Stmt :=
  .expr (.assign 0 (.member 0 1 (.member 0 1 (.id ⟨0, z⟩) 2 none (.id ⟨0, "2"⟩)) 2 none (.id ⟨0, "1"⟩)) (.id ⟨0, "9"⟩))
/-- `以 z（后增：4）` -/
def exPush (z : String) : Stmt := .expr (.mcall 0 (.id ⟨0, z⟩) [.call 0 (some ⟨0, "后增"⟩) [.id ⟨0, "4"⟩] none] none)
/-- `以 z（无）`: no such method, error 46 -/
def exBad (z : String) : Stmt := .expr (.mcall 0 (.id ⟨0, z⟩) [.call 0 (some ⟨0, "无"⟩) [] none] none)

theorem exAssign_through (z : String) : ThroughName z (exAssign z) :=
  .assign 0 0 _ _ _ (.index 0 _ _ (.root 0) (.num _ (by decide +kernel))) (.num _ (by decide +kernel)) (.num _ (by decide +kernel))
theorem exPush_through (z : String) : ThroughName z (exPush z) :=
  .method 0 0 _ _ _ (.root 0) (by intro e he; simp at he; subst he; exact .num _ (by decide +kernel))
theorem exBad_through (z : String) : ThroughName z (exBad z) :=
  .method 0 0 _ _ _ (.root 0) (by intro e he; simp at he)

theorem exProg_plain : ∀ i, Reach exProg.heap 4 i → ¬ IsRef exProg.heap i := by
  rintro i _ ⟨c, hc, hm, _⟩
  rcases i with _ | _ | _ | _ | _ | i <;> simp [exProg] at hc <;> subst hc <;> cases hm

/-- comparing outcomes by a decidable test (so that the kernel can evaluate a run) -/
def resIs {α : Type} [DecidableEq α] : Res α → Res α → Bool
  | .ok a, .ok b => decide (a = b)
  | .err e, .err e' => decide (e = e')
  | .panic, .panic => true
  | .fuel, .fuel => true
  | .unmodelled, .unmodelled => true
  | _, _ => false

theorem run_eq {α : Type} [DecidableEq α] (x : Res α × VM Int) (r : Res α) (h : resIs x.1 r = true) : x = (r, x.2) := by
  rcases x with ⟨r0, s0⟩
  have : r0 = r := by
    cases r0 <;> cases r <;> simp [resIs] at h <;> first | rfl | (subst h; rfl)
  subst this
  rfl

/-- the state after the declaration: the copy is at 9 (`乙`), 10 is the statement's 空 -/
def exAfterDecl : VM Int := (evalStmt 6 exDecl exProg).2
theorem exDecl_run : evalStmt 6 exDecl exProg = (.ok 10, exAfterDecl) := run_eq _ _ (by decide +kernel)
example : resolve "乙" exAfterDecl = some 9 ∧ resIs (display 6 9 exAfterDecl).1 (.ok "[1，[2，3]]") = true := by decide +kernel

/-- **the refuting witness of `copies_independent_program_level_full`**: `令 乙 为 甲` and then the single statement
`以 乙（无）` (no such method: error 46).  The list aborts; the frame of the failed call is still on the stack, the current
module is `-1`, and `甲` does not resolve in that state (although nothing below it changed). -/
def exAborted : VM Int := (stmtsLoop (evalStmt 6) none [exBad "乙"] exAfterDecl).2
theorem exAborted_run : stmtsLoop (evalStmt 6) none [exBad "乙"] exAfterDecl = (.err (.rt 46), exAborted) :=
  run_eq _ _ (by decide +kernel)
theorem exAborted_facts : exAborted.csModuleID = -1 ∧ exAborted.stack.length = 2 ∧ resolve "甲" exAborted = none := by
  decide +kernel

theorem copies_independent_program_level_full_false : ¬ copies_independent_program_level_full := by
  intro h
  have := h Int 6 "甲" "乙" [exBad "乙"] exProg exAfterDecl exAborted 4 10 exTree (.err (.rt 46)) (by decide) (by rfl) (by rfl)
    exProg_plain exDecl_run (by intro st hst; simp at hst; subst hst; exact exBad_through _) exAborted_run
  rcases this with ⟨a', h1, _⟩
  rw [exAborted_facts.2.2] at h1
  cases h1

/-- … while everything `copies_independent_any_outcome` promises holds of that aborted run -/
example : content 6 exAborted.heap 4 = some exTree ∧ (exAborted.csModuleID = 0 ∨ exAborted.csModuleID = -1) :=
  have h := copies_independent_any_outcome 6 "甲" "乙" [exBad "乙"] exProg exAfterDecl exAborted 4 10 exTree (.err (.rt 46))
    (by decide) (by rfl) (by rfl) exProg_plain (by rfl) exDecl_run
    (by intro st hst; simp at hst; subst hst; exact exBad_through _) exAborted_run
  ⟨h.2.2.2.1, h.2.2.2.2.1⟩

/-- **the second side condition cannot be dropped either**: the same program on a machine state without any call frame
(so `topModule = -1 ≠ 0 = csModuleID`), with a list that ends normally: `PopCallFrame` after the successful `后增` makes
the native module current, and `甲` does not resolve. -/
def exLoose : VM Int := { exProg with stack := [] }
def exLooseDecl : VM Int := (evalStmt 6 exDecl exLoose).2
def exLooseEnd : VM Int := (stmtsLoop (evalStmt 6) none [exPush "乙"] exLooseDecl).2
theorem copies_independent_needs_coherent_frames :
    "甲" ≠ "乙" ∧ resolve "甲" exLoose = some 4 ∧ content 6 exLoose.heap 4 = some exTree ∧
    (∀ i, Reach exLoose.heap 4 i → ¬ IsRef exLoose.heap i) ∧
    evalStmt 6 exDecl exLoose = (.ok 10, exLooseDecl) ∧ (∀ st ∈ [exPush "乙"], ThroughName "乙" st) ∧
    stmtsLoop (evalStmt 6) none [exPush "乙"] exLooseDecl = (.ok (some 9), exLooseEnd) ∧
    topModule exLoose.stack ≠ exLoose.csModuleID ∧ resolve "甲" exLooseEnd = none :=
  ⟨by decide, by rfl, by rfl, exProg_plain, run_eq _ _ (by decide +kernel),
   by intro st hst; simp at hst; subst hst; exact exPush_through _,
   run_eq _ _ (by decide +kernel), by decide +kernel, by decide +kernel⟩

/-- **an instance that meets every hypothesis of `copies_independent_program_level`**: `令 乙 为 甲；乙#2#1 = 9；以 乙（后增：4）`.
`乙` (cell 9) now displays as `[1，[9，3]，4]`; `甲` still reads `【1，【2，3】】`. -/
def exEnd : VM Int := (stmtsLoop (evalStmt 6) none [exAssign "乙", exPush "乙"] exAfterDecl).2
theorem exEnd_run : stmtsLoop (evalStmt 6) none [exAssign "乙", exPush "乙"] exAfterDecl = (.ok (some 9), exEnd) :=
  run_eq _ _ (by decide +kernel)
example : resolve "乙" exEnd = some 9 ∧ resIs (display 6 9 exEnd).1 (.ok "[1，[9，3]，4]") = true := by decide +kernel
example : ∃ a', resolve "甲" exEnd = some a' ∧ content 6 exEnd.heap a' = some exTree :=
  copies_independent_program_level 6 "甲" "乙" [exAssign "乙", exPush "乙"] exProg exAfterDecl exEnd 4 10 exTree (some 9)
    (by decide) (by rfl) (by rfl) exProg_plain (by rfl) exDecl_run
    (by intro st hst; simp at hst; rcases hst with rfl | rfl; exact exAssign_through _; exact exPush_through _) exEnd_run

/-- **and of `original_changes_invisible_through_copy`**: `令 乙 为 甲；甲#2#1 = 9；以 甲（后增：4）`.
`甲` (cell 4) now displays as `[1，[9，3]，4]`; `乙` (cell 9) still reads `【1，【2，3】】`. -/
def exEndX : VM Int := (stmtsLoop (evalStmt 6) none [exAssign "甲", exPush "甲"] exAfterDecl).2
theorem exEndX_run : stmtsLoop (evalStmt 6) none [exAssign "甲", exPush "甲"] exAfterDecl = (.ok (some 4), exEndX) :=
  run_eq _ _ (by decide +kernel)
example : resolve "甲" exEndX = some 4 ∧ resIs (display 6 4 exEndX).1 (.ok "[1，[9，3]，4]") = true := by decide +kernel
example : resolve "乙" exEndX = some 9 ∧ content 6 exEndX.heap 9 = some exTree := by
  rcases original_changes_invisible_through_copy 6 "甲" "乙" [exAssign "甲", exPush "甲"] exProg exAfterDecl exEndX 4 10 exTree
    (.ok (some 4)) (by decide) (by decide +kernel) (by rfl) (by rfl) exProg_plain (by rfl) exDecl_run
    (by intro st hst; simp at hst; rcases hst with rfl | rfl; exact exAssign_through _; exact exPush_through _) exEndX_run
    with ⟨b, _, _, _, _, h5, _, h7, h8⟩
  have h9 : resolve "乙" exEndX = some b := h7 (h8 ⟨_, rfl⟩).1
  have hb : resolve "乙" exEndX = some 9 := by decide +kernel
  have hb9 : b = 9 := Option.some.inj (h9.symm.trans hb)
  subst hb9
  exact ⟨hb, h5⟩

end examples

end ZnVerif.Properties.C07
