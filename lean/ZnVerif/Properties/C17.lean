/-
C17 — Source files are decoded losslessly or rejected.
Property theorems only; helper lemmas live in ZnVerif/Proofs/Utf8.lean and ZnVerif/Proofs/Decode.lean.

Model: pkg/io as repaired by patches/fix-c17-strict-utf8-decoding.patch (Model/Decode.lean), over ANY read
script — a list of chunks of any sizes, empty reads allowed, the last read optionally delivered together with
io.EOF.  Spec: Spec/Decode.lean, which knows nothing about reads.
`asSpec` only renames the model's error (IOError 13) to the spec's error.
-/
import ZnVerif.Proofs.Decode

namespace ZnVerif.Properties.C17
open ZnVerif ZnVerif.Model ZnVerif.Spec ZnVerif.Proofs.Decode ZnVerif.Proofs.Utf8

/-! ### The chunking of the reads is irrelevant -/

/-- `FileStream.ReadAll` returns what the chunk-free spec says about the concatenated bytes — the decoded
text or the rejection — for every byte string and every way of cutting it into reads. -/
theorem chunking_irrelevant (bytes : List Nat) (chunks : List (List Nat)) (h : chunks.flatten = bytes) :
    asSpec (readAll chunks) = decodeAll bytes := by
  have := fileLoop_fresh [] chunks []
  simpa [readAll, fileReadAllWith, FileStream.new, h] using this

/-- the same when the reader hands its last block over together with `io.EOF` -/
theorem chunking_irrelevant_eof (chunks : List (List Nat)) (last : List Nat) :
    asSpec (fileReadAllWith chunks last) = decodeAll (chunks.flatten ++ last) := by
  have := fileLoop_fresh [] chunks last
  simpa [fileReadAllWith, FileStream.new] using this

/-- `ByteStream` (script mode, variable input): `ReadAll`, and any sequence of `Read(n)` calls up to the end,
is the strict decoder (the code strips no BOM there) -/
theorem byteStream_chunking_irrelevant (chunks : List (List Nat)) (last : List Nat) :
    asSpec (ByteStream.readAllLoop { encBuffer := [] } chunks last) = decodeStrict (chunks.flatten ++ last) := by
  have := byteLoop_eq [] chunks last
  simpa using this

theorem byteStream_readAll (bytes : List Nat) : asSpec (byteStreamReadAll bytes) = decodeStrict bytes := by
  unfold byteStreamReadAll bytesReaderScript
  rw [byteStream_chunking_irrelevant]
  cases bytes <;> simp

/-- key lemma behind the above: a proper prefix of a valid encoding is carried to the next read — it is
neither dropped nor decoded -/
theorem prefix_of_valid_is_carried (buf more : List Nat) (c : Nat) (hb : buf ≠ []) (hm : more ≠ [])
    (h : decodeOne (buf ++ more) = some (c, [])) : decodeBuf false buf = .ok ([], buf) := by
  have hnf : fullRune buf = false := by
    cases hf : fullRune buf with
    | false => rfl
    | true =>
      exfalso
      obtain ⟨_, hd, hle⟩ := fullRune_append buf more hf
      match buf, hb with
      | p0 :: rest, _ =>
        have hmod := decodeOne_model p0 (rest ++ more)
        rw [← List.cons_append, hd, h] at hmod
        split at hmod
        · cases hmod
        · injection hmod with hmod
          injection hmod with _ hnil
          have hlen := congrArg List.length hnil
          have : more.length ≠ 0 := fun e => hm (List.length_eq_zero_iff.mp e)
          simp only [List.length_nil, List.length_drop, List.length_append] at hlen
          omega
  rw [decodeBuf_incomplete false hb hnf]
  rfl

example : decodeOne ([0xE4, 0xB8] ++ [0xAD]) = some (0x4E2D, []) := by decide

/-! ### The spec oracle is the Prop-level spec -/

/-- `decodeStrict` accepts exactly the encodings of lists of Unicode scalar values, and returns that list -/
theorem decodeStrict_is_encoding_inverse (bytes cps : List Nat) :
    decodeStrict bytes = .ok cps ↔ (∀ c ∈ cps, IsScalar c) ∧ encodeAll cps = bytes :=
  decodeStrict_iff bytes cps

/-! ### Valid files are decoded losslessly -/

/-- a file that is the UTF-8 encoding of scalar values `cps` (not starting with a BOM) is read as exactly `cps`,
whatever its size and however it is cut into reads -/
theorem valid_file_lossless (cps : List Nat) (chunks : List (List Nat)) (hs : ∀ c ∈ cps, IsScalar c)
    (hb : cps.head? ≠ some bom) (h : chunks.flatten = encodeAll cps) : readAll chunks = .ok cps := by
  have := chunking_irrelevant _ chunks h
  rw [decodeAll, decodeStrict_complete cps hs] at this
  cases cps with
  | nil => revert this; cases readAll chunks <;> simp [asSpec]
  | cons c cs =>
    have hc : c ≠ bom := fun e => hb (by simp [e])
    simp only [hc, if_false] at this
    revert this; cases readAll chunks <;> simp [asSpec]

/-- … and with a BOM in front, the BOM is removed and the rest is read as exactly `cps` -/
theorem valid_file_lossless_bom (cps : List Nat) (chunks : List (List Nat)) (hs : ∀ c ∈ cps, IsScalar c)
    (h : chunks.flatten = encodeAll (bom :: cps)) : readAll chunks = .ok cps := by
  have := chunking_irrelevant _ chunks h
  have hs' : ∀ c ∈ bom :: cps, IsScalar c := by
    intro c hc
    rcases List.mem_cons.mp hc with rfl | hc
    · decide
    · exact hs c hc
  rw [decodeAll, decodeStrict_complete _ hs'] at this
  simp only [if_true] at this
  revert this; cases readAll chunks <;> simp [asSpec]

example : (∀ c ∈ [0x4EE4, 0x41, 0x1F600], IsScalar c) ∧ [0x4EE4, 0x41, 0x1F600].head? ≠ some bom ∧
    [[0xE4, 0xBB], [], [0xA4, 0x41, 0xF0, 0x9F], [0x98], [0x80]].flatten = encodeAll [0x4EE4, 0x41, 0x1F600] := by
  decide

example : readAll [[0xE4, 0xBB], [], [0xA4, 0x41, 0xF0, 0x9F], [0x98], [0x80]] = .ok [0x4EE4, 0x41, 0x1F600] :=
  valid_file_lossless _ _ (by decide) (by decide) (by decide)

/-! ### Invalid files are rejected -/

/-- bytes that are not the UTF-8 encoding of any list of scalar values (GBK text, a corrupted byte, a truncated
last character, overlong forms, surrogates, …) make `ReadAll` return the IOError — never a prefix, never an
altered text — however the reads are cut -/
theorem invalid_file_rejected (bytes : List Nat) (chunks : List (List Nat)) (h : chunks.flatten = bytes)
    (hinv : ¬ ∃ cps, (∀ c ∈ cps, IsScalar c) ∧ encodeAll cps = bytes) :
    readAll chunks = .error .invalidEncoding := by
  have := chunking_irrelevant _ chunks h
  have hd : decodeStrict bytes = .error .invalidUtf8 := by
    cases hd : decodeStrict bytes with
    | error e => cases e; rfl
    | ok cps => exact absurd ⟨cps, decodeStrict_sound bytes cps hd⟩ hinv
  rw [decodeAll, hd] at this
  revert this
  cases readAll chunks with
  | error e => cases e; intro _; rfl
  | ok v => simp [asSpec]

/-- a non-empty byte string whose front is no character at all is nobody's encoding (used for non-vacuity) -/
theorem not_an_encoding {bytes : List Nat} (hne : bytes ≠ []) (h : decodeOne bytes = none) :
    ¬ ∃ cps, (∀ c ∈ cps, IsScalar c) ∧ encodeAll cps = bytes := by
  rintro ⟨cps, h1, h2⟩
  have := decodeStrict_complete cps h1
  rw [h2, decodeStrict_none hne h] at this
  cases this

-- GBK "中文" (D6 D0 CE C4), an overlong NUL (C0 80), a surrogate (ED A0 80), a lone continuation byte
example : readAll [[0xD6], [0xD0, 0xCE], [0xC4]] = .error .invalidEncoding :=
  invalid_file_rejected _ _ rfl (not_an_encoding (by decide) (by decide))
example : readAll [[0xC0, 0x80]] = .error .invalidEncoding :=
  invalid_file_rejected _ _ rfl (not_an_encoding (by decide) (by decide))
example : readAll [[0xED, 0xA0], [0x80]] = .error .invalidEncoding :=
  invalid_file_rejected _ _ rfl (not_an_encoding (by decide) (by decide))
example : readAll [[0x80]] = .error .invalidEncoding :=
  invalid_file_rejected _ _ rfl (not_an_encoding (by decide) (by decide))

/-! ### U+FFFD is a character, not an error -/

/-- a file containing the bytes EF BF BD (a legitimate U+FFFD) between valid text is read completely, with
U+FFFD in its place, wherever the reads cut it -/
theorem replacement_char_is_a_character (pre post : List Nat) (chunks : List (List Nat))
    (hs : ∀ c ∈ pre ++ post, IsScalar c) (hb : (pre ++ 0xFFFD :: post).head? ≠ some bom)
    (h : chunks.flatten = encodeAll pre ++ [0xEF, 0xBF, 0xBD] ++ encodeAll post) :
    readAll chunks = .ok (pre ++ 0xFFFD :: post) := by
  apply valid_file_lossless _ _ _ hb
  · rw [h]; simp [encodeAll, encode]
  · intro c hc
    rcases List.mem_append.mp hc with hc | hc
    · exact hs c (List.mem_append.mpr (Or.inl hc))
    · rcases List.mem_cons.mp hc with rfl | hc
      · decide
      · exact hs c (List.mem_append.mpr (Or.inr hc))

example : readAll [[0x41, 0xEF], [0xBF], [0xBD, 0x42]] = .ok [0x41, 0xFFFD, 0x42] :=
  replacement_char_is_a_character [0x41] [0x42] _ (by decide) (by decide) (by decide)

/-! ### One byte order mark, only at the start -/

/-- after the leading EF BB BF everything is kept — including a second U+FEFF right behind it or anywhere
later — and the BOM is recognised even when the reads split it -/
theorem bom_once (cps : List Nat) (chunks : List (List Nat)) (hs : ∀ c ∈ cps, IsScalar c)
    (h : chunks.flatten = [0xEF, 0xBB, 0xBF] ++ encodeAll cps) : readAll chunks = .ok cps :=
  valid_file_lossless_bom cps chunks hs (by rw [h]; simp [encodeAll, encode, bom])

/-- a U+FEFF that is not the first character of the file is an ordinary character -/
theorem bom_only_leading (c : Nat) (pre post : List Nat) (chunks : List (List Nat)) (hc : c ≠ bom)
    (hs : ∀ x ∈ c :: pre ++ bom :: post, IsScalar x)
    (h : chunks.flatten = encodeAll (c :: pre ++ bom :: post)) :
    readAll chunks = .ok (c :: pre ++ bom :: post) :=
  valid_file_lossless _ _ hs (by simp [hc]) h

example : readAll [[0xEF], [], [0xBB, 0xBF, 0xEF, 0xBB], [0xBF, 0x41]] = .ok [0xFEFF, 0x41] :=
  bom_once [0xFEFF, 0x41] _ (by decide) (by decide)
example : readAll [[0x41, 0xEF, 0xBB], [0xBF]] = .ok [0x41, 0xFEFF] :=
  bom_only_leading 0x41 [] [] _ (by decide) (by decide) (by decide)

end ZnVerif.Properties.C17
