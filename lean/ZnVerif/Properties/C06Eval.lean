/-
C06 (evaluator part) — blocks balance their scopes: every module's scope depth is restored on every outcome (normal,
signal, error, Go panic, out of fuel), the `defer EndScope` acts on the scope of the module that was current when
the block was entered, and when a block or method body is left none of its declarations remain.
(The `runtime.Scope` refinement theorems are in Properties/C06.lean.)
-/
import ZnVerif.Proofs.BlockScopes
import ZnVerif.Proofs.Toy
set_option linter.unusedSectionVars false
set_option linter.unusedSimpArgs false
set_option linter.unusedVariables false

namespace ZnVerif.Properties.C06Eval
open ZnVerif.Model ZnVerif.Proofs.Calls ZnVerif.Proofs.Balance

variable {ν : Type} [NumOps ν]

/-! ## `runtime.Scope`: the invariant and what `EndScope` forgets -/

/-- `SortedDepths` (symbols stacked by non-increasing depth, none deeper than the current depth) holds for the empty
scope and is kept by every scope operation -/
theorem sorted_depths_preserved :
    SortedDepths {} ∧
    (∀ sc, SortedDepths sc → SortedDepths sc.beginScope) ∧
    (∀ sc, SortedDepths sc → SortedDepths sc.endScope) ∧
    (∀ sc sc' name v c ext, SortedDepths sc → sc.declare name v c ext = .ok sc' → SortedDepths sc') ∧
    (∀ sc sc' name v, SortedDepths sc → sc.set name v = .ok sc' → SortedDepths sc') :=
  ⟨sortedDepths_empty, fun _ h => h.beginScope, fun _ h => h.endScope,
   fun _ _ _ _ _ _ h hd => h.declare hd, fun _ _ _ _ h hs => h.set hs⟩

/-- on a well-formed scope `EndScope` drops exactly the symbols deeper than the level it returns to -/
theorem end_scope_drops_deeper (sc : Scope) (h : SortedDepths sc) :
    sc.endScope.depth = sc.depth - 1 ∧
    sc.endScope.syms = sc.syms.filter (fun sy => sy.depth ≤ sc.depth - 1) ∧
    ∀ sy ∈ sc.endScope.syms, sy.depth ≤ sc.endScope.depth :=
  ⟨rfl, endScope_syms h, h.endScope.2⟩

/-- `BeginScope`, any sequence of declarations and assignments (failed ones — 43, 44, 42 — change nothing), `EndScope`:
the depth is back and the symbols are those of before: same names, depths, constness, order.  Only the values of
outer variables may have been assigned. -/
theorem end_scope_forgets (sc : Scope) (h : SortedDepths sc) (ops : List ScopeOp) :
    (applyOps ops sc.beginScope).endScope.depth = sc.depth ∧
    (applyOps ops sc.beginScope).endScope.syms.map symKey = sc.syms.map symKey ∧
    SortedDepths (applyOps ops sc.beginScope).endScope :=
  endScope_forgets sc h ops

/-- with declarations only (no assignment) the scope after `EndScope` is the scope before `BeginScope`, values included -/
theorem end_scope_forgets_declared (sc : Scope) (h : SortedDepths sc) (ops : List ScopeOp)
    (hdecl : ∀ op ∈ ops, op.isSet = false) : (applyOps ops sc.beginScope).endScope = sc :=
  endScope_forgets_declared sc h ops hdecl

example : SortedDepths ({ syms := [⟨"y", 1, false, none, 4⟩, ⟨"x", 0, true, none, 3⟩], depth := 1 } : Scope) :=
  ⟨by simp, by intro sy h; simp at h; rcases h with rfl | rfl <;> decide⟩

/-- `x` (outer, depth 0) is assigned, shadowed by an inner `x`, the inner one assigned; after `EndScope` one `x` is left -/
example : (applyOps [.set "x" 9, .declare "x" 5 false none, .set "x" 6]
    ({ syms := [⟨"x", 0, false, none, 3⟩], depth := 0 } : Scope).beginScope).endScope.syms.map symKey =
    [("x", 0, false, none)] :=
  (end_scope_forgets _ ⟨by simp, by intro sy h; simp at h; subst h; decide⟩ _).2.1

/-! ## the scope bracket `endScope := vm.BeginBoundScope(); defer endScope()` -/

/-- `withScope body` when the current module has a scope `sc`: the body starts one level deeper in that scope; whatever
the body's outcome `(body s1).1` — value, error, signal, panic, out of fuel — it is the bracket's outcome, and the
deferred `EndScope` is applied to the scope of the module that was current AT ENTRY (`s.csModuleID`), not to the
module current when the body stops (`t.csModuleID`, which a failed call may have left different); no other
module's scope, and nothing else of the state, is touched by the bracket itself. -/
theorem withScope_balanced {α : Type} (body : M ν α) (s : VM ν) (sc : Scope)
    (hsc : getScope s.csModuleID s = some sc) :
    let s1 := putScope s.csModuleID sc.beginScope s
    let t := (body s1).2
    (withScope body s).1 = (body s1).1 ∧
    getScope s.csModuleID s1 = some sc.beginScope ∧
    getScope s.csModuleID (withScope body s).2 = (getScope s.csModuleID t).map Scope.endScope ∧
    (∀ m, m ≠ s.csModuleID → getScope m s1 = getScope m s ∧ getScope m (withScope body s).2 = getScope m t) ∧
    (withScope body s).2.stack = t.stack ∧ (withScope body s).2.csModuleID = t.csModuleID ∧
    (withScope body s).2.heap = t.heap ∧ (withScope body s).2.out = t.out := by
  intro s1 t
  rw [withScope_some body s sc hsc]
  refine ⟨rfl, getScope_putScope_same _ _ _, getScope_endScopeOf_same _ _, ?_, ?_⟩
  · intro m hm
    exact ⟨getScope_putScope_other _ _ _ _ hm, getScope_endScopeOf_other _ _ _ hm⟩
  · simp [t, s1]

/-- without a scope for the current module the bracket is the body alone -/
theorem withScope_without_scope {α : Type} (body : M ν α) (s : VM ν) (h : getScope s.csModuleID s = none) :
    withScope body s = body s := withScope_none body s h

/-- if the body leaves the entry module's scope at the depth it found it (one deeper than at entry), the bracket
restores the entry depth — on every outcome; and if that scope is well-formed, every symbol that is left is not
deeper than the restored depth: all symbols declared at the deeper level are gone -/
theorem withScope_restores_depth {α : Type} (body : M ν α) (s : VM ν) (sc sc2 : Scope)
    (hsc : getScope s.csModuleID s = some sc)
    (hbody : getScope s.csModuleID (body (putScope s.csModuleID sc.beginScope s)).2 = some sc2)
    (hdepth : sc2.depth = sc.depth + 1) :
    ∃ sc3, getScope s.csModuleID (withScope body s).2 = some sc3 ∧ sc3.depth = sc.depth ∧
      (SortedDepths sc2 → sc3.syms = sc2.syms.filter (fun sy => sy.depth ≤ sc.depth) ∧
        ∀ sy ∈ sc3.syms, sy.depth ≤ sc.depth) := by
  refine ⟨sc2.endScope, ?_, ?_, ?_⟩
  · rw [(withScope_balanced body s sc hsc).2.2.1, hbody]; rfl
  · rw [endScope_depth, hdepth]; omega
  · intro h2
    have hd : sc2.depth - 1 = sc.depth := by omega
    have := endScope_syms h2
    rw [hd] at this
    refine ⟨this, ?_⟩
    intro sy hsy
    have := h2.endScope.2 sy hsy
    rw [endScope_depth, hd] at this
    exact this

/-- in general the entry module's scope ends one level above where the body left it -/
theorem withScope_depth_general {α : Type} (body : M ν α) (s : VM ν) (sc sc2 : Scope)
    (hsc : getScope s.csModuleID s = some sc)
    (hbody : getScope s.csModuleID (body (putScope s.csModuleID sc.beginScope s)).2 = some sc2) :
    ∃ sc3, getScope s.csModuleID (withScope body s).2 = some sc3 ∧ sc3.depth = sc2.depth - 1 :=
  ⟨sc2.endScope, by rw [(withScope_balanced body s sc hsc).2.2.1, hbody]; rfl, rfl⟩

/-! ## blocks balance (induction on fuel over the whole evaluator, `Proofs/BalanceMutual.lean`) -/

/-- every function of the evaluator — statements, expressions, calls, constructors, handlers — leaves the scope of
every module at the depth it found it, at every fuel, on every outcome (normal, signal, error, panic, out of fuel) -/
theorem every_function_balances (n : Nat) :
    (∀ st (s : VM ν), KeepsDepths s (evalStmt n st s).2) ∧
    (∀ e (s : VM ν), KeepsDepths s (evalExpr n e s).2) ∧
    (∀ f ps (s : VM ν), KeepsDepths s (execDirectFunction n f ps s).2) ∧
    (∀ r f ps (s : VM ν), KeepsDepths s (execMethodFunction n r f ps s).2) ∧
    (∀ c ps (s : VM ν), KeepsDepths s (construct n c ps s).2) ∧
    (∀ bm bd cs e (s : VM ν), KeepsDepths s (handleException n bm bd cs e s).2) := by
  have h := allPres (ν := ν) (R := ScopeGrow) n
  exact ⟨fun st s => ((h.evalStmt st).run s).keepsDepths, fun e s => ((h.evalExpr e).run s).keepsDepths,
    fun f ps s => ((h.execDirectFunction f ps).run s).keepsDepths,
    fun r f ps s => ((h.execMethodFunction r f ps).run s).keepsDepths,
    fun c ps s => ((h.construct c ps).run s).keepsDepths,
    fun bm bd cs e s => ((h.handleException bm bd cs e).run s).keepsDepths⟩

/-- blocks, method/program bodies and 遍历 loops leave every module's scope depth as they found it, on all outcomes -/
theorem blocks_balance (n : Nat) (s : VM ν) :
    (∀ b, KeepsDepths s (evalPureStmtBlock n b s).2) ∧
    (∀ b ps, KeepsDepths s (evalExecBlock n b ps s).2) ∧
    (∀ ln e names body, KeepsDepths s (evalStmt n (.iterate ln e names body) s).2) := by
  have h := allPres (ν := ν) (R := ScopeGrow) n
  exact ⟨fun b => ((h.evalPureStmtBlock b).run s).keepsDepths,
    fun b ps => ((h.evalExecBlock b ps).run s).keepsDepths,
    fun ln e names body => ((h.evalStmt _).run s).keepsDepths⟩

/-- when a block is left — normally, by a signal, an uncaught error, a panic — the scope of the module it was entered
in has, besides its depth, exactly the symbols it had (if it was well-formed): none of the block's declarations remain -/
theorem block_leaves_no_declarations (n : Nat) (stmts : List Stmt) (s : VM ν) (sc : Scope)
    (hsc : getScope s.csModuleID s = some sc) (hs : SortedDepths sc) :
    ∃ sc', getScope s.csModuleID (evalPureStmtBlock (n+1) (some stmts) s).2 = some sc' ∧
      sc'.depth = sc.depth ∧ sc'.syms.map symKey = sc.syms.map symKey ∧ SortedDepths sc' := by
  obtain ⟨sc', h1, h2, h3⟩ := evalPureStmtBlock_restores n stmts s sc hsc
  exact ⟨sc', h1, h2, (h3 hs).2, (h3 hs).1⟩

/-- when a method (or the program body) returns — normally or through a handled exception or with an error — none of
its declarations (此, inputs, 得到 names, variables, nested methods and types) remain in the scope of the module it
was entered in, and that scope is back at its depth -/
theorem exec_block_restores_scope (n : Nat) (inputs : List Ident) (body : Option (List Stmt))
    (catches : List (Option Ident × Option (List Stmt))) (params : List Addr) (s : VM ν) (sc : Scope)
    (hsc : getScope s.csModuleID s = some sc) (hs : SortedDepths sc) :
    ∃ sc', getScope s.csModuleID (evalExecBlock (n+1) (some (.mk inputs body catches)) params s).2 = some sc' ∧
      sc'.depth = sc.depth ∧ sc'.syms.map symKey = sc.syms.map symKey ∧ SortedDepths sc' := by
  obtain ⟨sc', h1, h2, h3⟩ := evalExecBlock_restores n inputs body catches params s sc hsc
  exact ⟨sc', h1, h2, (h3 hs).2, (h3 hs).1⟩

/-- symbols below the current level of any module's scope are never removed or reordered by anything the evaluator
does (statement level: what a statement may add are symbols at the current level) -/
theorem outer_symbols_kept (n : Nat) (st : Stmt) (s : VM ν) (mid : Int) (sc : Scope)
    (hsc : getScope mid s = some sc) (hs : SortedDepths sc) :
    ∃ sc', getScope mid (evalStmt n st s).2 = some sc' ∧ sc'.depth = sc.depth ∧ SortedDepths sc' ∧
      (sc'.syms.filter (fun sy => sy.depth ≤ sc.depth - 1)).map symKey =
        (sc.syms.filter (fun sy => sy.depth ≤ sc.depth - 1)).map symKey := by
  obtain ⟨sc', h1, h2, h3⟩ := ((allPres (ν := ν) (R := ScopeGrow) n).evalStmt st).run s mid sc hsc
  refine ⟨sc', h1, h2, (h3 hs).1, ?_⟩
  have := (h3 hs).2
  unfold outerKeys at this
  rw [h2] at this
  exact this

/-- all scopes well-formed is an invariant of the evaluator (the hypothesis `SortedDepths` above is never lost);
it holds at program start, where there are no scopes at all -/
theorem well_scoped_invariant (n : Nat) (s : VM ν) (hw : WellScoped s) :
    (∀ st, WellScoped (evalStmt n st s).2) ∧ (∀ b ps, WellScoped (evalExecBlock n b ps s).2) ∧
    (∀ fr, WellScoped (pushFrame fr s).2) := by
  have h := allPres (ν := ν) (R := WellScopedRel) n
  exact ⟨fun st => (h.evalStmt st).run s hw, fun b ps => (h.evalExecBlock b ps).run s hw,
    fun fr => (wellScoped_pushFrame fr).run s hw⟩

theorem well_scoped_initially : WellScoped (initVM (ν := ν) ()) := by
  intro mid sc h
  simp [getScope, initVM] at h

/-- inputs, 得到 names, methods, types and 此 are declared with the constant flag; assigning such a name is error 44 and
changes nothing -/
theorem const_declaration_rejects_assignment (name : String) (v w : Addr) (ext : Option Int) (s s' : VM ν)
    (h : declareElement name v true ext s = (.ok (), s')) : setElement name w s' = (.err (.rt 44), s') :=
  set_after_const_declare name v w ext s s' h

/-- inputs are constants: once the inputs of a body are bound, assigning any of them is error 44 and changes nothing -/
theorem inputs_are_const (inputs : List Ident) (params : List Addr) (s s' : VM ν)
    (hnames : ∀ i ∈ inputs, IsName i.lit) (hlen : params.length = inputs.length)
    (h : bindInputs inputs params s = (.ok (), s')) :
    ∀ i ∈ inputs, ∀ w, setElement i.lit w s' = (.err (.rt 44), s') := by
  intro i hi w
  have hb := bindInputs_constBound inputs params [] s s' hnames hlen (by intro x hx; cases hx) h
  exact hb.set_rejected i.lit (by simp; exact ⟨i, hi, rfl⟩) w

/-! ## non-vacuity -/

section examples
open ZnVerif.Proofs.Toy

/-- a body that "calls into module 7 and fails": it pushes a frame of module 7 and stops with an error.  The bracket
still closes module 0's scope (depth back to 0), while the current module at exit is 7. -/
example :
    let body : M Int Unit := do pushFrame { moduleId := 7, callType := 2 }; declareElement "x" 1 false; rtErr 40
    (withScope body s0).1 = .err (.rt 40) ∧ (withScope body s0).2.csModuleID = 7 ∧
    (getScope 0 (withScope body s0).2).map (·.depth) = some 0 := by
  intro body
  have h := withScope_balanced body s0 {} rfl
  exact ⟨h.1, rfl, by show Option.map _ (getScope s0.csModuleID _) = _; rw [h.2.2.1]; rfl⟩

example : ∃ sc3, getScope 0 (withScope (declareElement "x" 1 false) s0).2 = some sc3 ∧ sc3.depth = 0 ∧ sc3.syms = [] := by
  obtain ⟨sc3, h1, h2, h3⟩ := withScope_restores_depth (declareElement "x" 1 false) s0 {}
    { syms := [⟨"x", 1, false, none, 1⟩], depth := 1 } rfl rfl rfl
  refine ⟨sc3, h1, h2, ?_⟩
  rw [(h3 ⟨by simp, by intro sy h; simp at h; subst h; decide⟩).1]
  rfl

/-- `令x为“a”` inside a block of a program: afterwards module 0's scope is empty again at depth 0 -/
example : ∃ sc', getScope 0 (evalPureStmtBlock 5 (some [.varDecl 0 [(1, [⟨0, "x"⟩], .str 0 "a")]]) s0).2 = some sc' ∧
    sc'.depth = 0 ∧ sc'.syms.map symKey = [] := by
  obtain ⟨sc', h1, h2, h3, _⟩ := block_leaves_no_declarations 4 [.varDecl 0 [(1, [⟨0, "x"⟩], .str 0 "a")]] s0 {} rfl
    sortedDepths_empty
  exact ⟨sc', h1, h2, h3⟩

/-- …while the same declaration as a plain statement (not a block) does leave `x` behind — the block theorem is not
trivially true of everything -/
example : ((getScope 0 (evalStmt 4 (.varDecl 0 [(1, [⟨0, "x"⟩], .str 0 "a")]) s0).2).map
    (fun sc => sc.syms.map (·.name))) = some ["x"] := by rfl

example : ∃ sc', getScope 0 (evalExecBlock 6 (some (.mk [⟨0, "甲"⟩] (some [.varDecl 0 [(1, [⟨0, "x"⟩], .str 0 "a")]])
    [])) [1] s0).2 = some sc' ∧ sc'.depth = 0 ∧ sc'.syms.map symKey = [] := by
  obtain ⟨sc', h1, h2, h3, _⟩ := exec_block_restores_scope 5 [⟨0, "甲"⟩]
    (some [.varDecl 0 [(1, [⟨0, "x"⟩], .str 0 "a")]]) [] [1] s0 {} rfl sortedDepths_empty
  exact ⟨sc', h1, h2, h3⟩

example : WellScoped s0 := by
  intro mid sc h
  by_cases hm : mid = 0
  · subst hm
    have : sc = {} := by simpa [getScope, s0] using h.symm
    subst this
    exact sortedDepths_empty
  · have : (0 == mid) = false := by simpa using (Ne.symm hm)
    simp [getScope, s0, this] at h

example : ∃ s' : VM Int, setElement "甲" 1 s' = (.err (.rt 44), s') :=
  ⟨_, const_declaration_rejects_assignment "甲" 0 1 none s0 _ rfl⟩

example : ∃ s' : VM Int, setElement "甲" 5 s' = (.err (.rt 44), s') ∧ setElement "乙" 5 s' = (.err (.rt 44), s') :=
  let h := inputs_are_const [⟨0, "甲"⟩, ⟨0, "乙"⟩] [0, 1] s0 _
    (by intro i hi; simp at hi; rcases hi with rfl | rfl <;> decide) rfl rfl
  ⟨_, h ⟨0, "甲"⟩ (by simp) 5, h ⟨0, "乙"⟩ (by simp) 5⟩

example : (applyOps [.declare "t" 1 false none, .declare "u" 2 true none]
    ({ syms := [⟨"x", 0, false, none, 3⟩], depth := 0 } : Scope).beginScope).endScope =
    { syms := [⟨"x", 0, false, none, 3⟩], depth := 0 } :=
  end_scope_forgets_declared _ ⟨by simp, by intro sy h; simp at h; subst h; decide⟩ _
    (by intro op h; simp at h; rcases h with rfl | rfl <;> rfl)

/-- a state whose current module (5) has no scope: the bracket is the body alone -/
example : withScope (newNull : M Int Addr) { s0 with csModuleID := 5 } = newNull { s0 with csModuleID := 5 } :=
  withScope_without_scope _ _ rfl

/-- a body that (wrongly) ends a scope itself: the bracket then ends one level above where the body stopped -/
example : ∃ sc3, getScope 0 (withScope (endBoundScope (some 0)) s0).2 = some sc3 ∧ sc3.depth = 0 - 1 :=
  withScope_depth_general (endBoundScope (some 0)) s0 {} { syms := [], depth := 0 } rfl rfl

example : ∃ sc', getScope 0 (evalStmt 4 (.varDecl 0 [(1, [⟨0, "x"⟩], .str 0 "a")]) s0).2 = some sc' ∧
    sc'.depth = 0 ∧ SortedDepths sc' := by
  obtain ⟨sc', h1, h2, h3, _⟩ := outer_symbols_kept 4 (.varDecl 0 [(1, [⟨0, "x"⟩], .str 0 "a")]) s0 0 {} rfl
    sortedDepths_empty
  exact ⟨sc', h1, h2, h3⟩

end examples

end ZnVerif.Properties.C06Eval
