/-
C02 — Branches, loops and 输出 follow the documented control flow.
Theorems about the model's mechanism (return slot polled after each statement, loops catching
signals), for every fuel, every program fragment, every VM state.

Part one (the first 13 theorems): the generic loops the evaluator is built from (`stmtsLoop`, `whileM`,
`untilM`, `untilIdxM`, `firstM`).  Part two ("The real constructs"): the statements themselves —
`evalStmt (n+1) (.while …)`, `(.iterate …)`, `(.branch …)`, `evalPureStmtBlock`, `evalExecBlock` — in the order
1 输出 (`return_propagates_block`, `return_stops_while`, `return_stops_iterate_*`, `return_through_branch`,
`return_stops_everything` and its converse `return_path_complete` / `return_iff_path` — resting on
`expression_keeps_caller_frame` —, `return_ends_body`), 4 如果, 2 结束循环/继续循环, 3 遍历, 5 value of a body,
6 the same facts on the spec semantics.  Every implication is followed by an `example` that runs a toy
program (toy numbers `Int`, machines `vm0`/`vm1`, programs of `Proofs/ControlFlow.lean` §Toy) through its
hypotheses; where a program has more than one loop pass the hypotheses are checked by the kernel (`K`).
-/
import ZnVerif.Model.Interp
import ZnVerif.Proofs.ControlFlow
import ZnVerif.Proofs.ControlFlowSpec
import ZnVerif.Proofs.RetPathComplete
import ZnVerif.Proofs.LoopSignalsStmt
import ZnVerif.Proofs.StmtRefineProgram
import ZnVerif.Proofs.ToyNum
set_option linter.unusedSectionVars false

namespace ZnVerif.Properties.C02
open ZnVerif.Model

open ZnVerif.Proofs.ControlFlow
open ZnVerif.Proofs.ControlFlow.Toy   -- toy numbers, toy programs, kernel reflection: used by the `example`s only

variable {ν : Type} [NumOps ν]

/-- `输出 e` stores the value in the return slot of the current frame and yields it. -/
theorem return_sets_slot (n ln : Nat) (e : Expr) (s s' : VM ν) (v : Addr) (fr : Frame) (rest : List Frame)
    (hs : s.stack = fr :: rest)
    (he : evalExpr n e { s with stack := { fr with line := ln, started := true } :: rest } = (.ok v, s'))
    (hst : s'.stack = { fr with line := ln, started := true } :: rest) :
    ∃ s'', evalStmt (n+1) (.ret ln e) s = (.ok v, s'') ∧
      s''.stack = { fr with line := ln, started := true, ret := some v } :: rest := by
  refine ⟨{ s' with stack := { fr with line := ln, started := true, ret := some v } :: rest }, ?_, rfl⟩
  simp only [evalStmt, Stmt.line]
  simp [bind, setTopFrame, modifyVM, hs, he, hst, pure]

example : ∃ s'', evalStmt 3 retX vm0 = (.ok 0, s'') ∧ s''.stack = [{ moduleId := 0, callType := 1, started := true, ret := some 0 }] :=
  return_sets_slot 2 0 (.str 0 "x") vm0 _ 0 { moduleId := 0, callType := 1 } [] rfl rfl rfl

/-- the statement loop of a block: once the return slot is set after a statement, *no later statement
is evaluated* — the result and state do not depend on `rest` at all. -/
theorem no_statement_after_return (evalOne : Stmt → M ν Addr) (last : Option Addr) (st : Stmt) (rest : List Stmt)
    (s s' : VM ν) (v rv : Addr) (fr : Frame) (frs : List Frame)
    (hnd : isDecl st = false)
    (h1 : evalOne st s = (.ok v, s')) (hst : s'.stack = fr :: frs) (hret : fr.ret = some rv) :
    stmtsLoop evalOne last (st :: rest) s = (.ok (some rv), s') := by
  simp [stmtsLoop, hnd, bind, h1, getReturnValue, topFrame, hst, hret, pure]

example : ∃ s', stmtsLoop (evalStmt 3) none [retX, .nil] vm0 = (.ok (some 0), s') :=
  ⟨_, no_statement_after_return (evalStmt 3) none retX [.nil] vm0 _ 0 0 { moduleId := 0, callType := 1, started := true, ret := some 0 } []
    rfl rfl rfl rfl⟩

/-- … and while the slot is empty the loop goes on with the next statement, remembering the last value
(a body without 输出 yields the value of its final statement). -/
theorem statement_loop_continues (evalOne : Stmt → M ν Addr) (last : Option Addr) (st : Stmt) (rest : List Stmt)
    (s s' : VM ν) (v : Addr) (fr : Frame) (frs : List Frame)
    (hnd : isDecl st = false)
    (h1 : evalOne st s = (.ok v, s')) (hst : s'.stack = fr :: frs) (hret : fr.ret = none) :
    stmtsLoop evalOne last (st :: rest) s = stmtsLoop evalOne (some v) rest s' := by
  simp [stmtsLoop, hnd, bind, h1, getReturnValue, topFrame, hst, hret, pure]

example : ∃ s', stmtsLoop (evalStmt 3) none [.empty 0, .nil] vm0 = stmtsLoop (evalStmt 3) (some 0) [.nil] s' :=
  ⟨_, statement_loop_continues (evalStmt 3) none (.empty 0) [.nil] vm0 _ 0 { moduleId := 0, callType := 1, started := true } []
    rfl rfl rfl rfl⟩

theorem final_statement_value (evalOne : Stmt → M ν Addr) (last : Option Addr) (s : VM ν) :
    stmtsLoop evalOne last [] s = (.ok last, s) := by
  simp [stmtsLoop, pure]

/-- 每当: a pass whose step answers "stop" ends the loop with no further pass, whatever fuel is left. -/
theorem while_stops (k : Nat) (step : M ν Bool) (s s' : VM ν) (h : step s = (.ok false, s')) :
    whileM (k+1) step s = (.ok (), s') := by
  simp [whileM, bind, h, pure]

example : whileM 1 (pure false) vm0 = (.ok (), vm0) := while_stops 0 (pure false) vm0 vm0 rfl

/-- 每当 re-runs its step (condition test first) before every pass. -/
theorem while_retests (k : Nat) (step : M ν Bool) (s s' : VM ν) (h : step s = (.ok true, s')) :
    whileM (k+1) step s = whileM k step s' := by
  simp [whileM, bind, h]

example : whileM 2 (pure true) vm0 = whileM 1 (pure true) vm0 := while_retests 1 (pure true) vm0 vm0 rfl

/-- 遍历: elements are visited in order; a pass answering "stop" (结束循环, or 输出 in the body) ends the
loop — the remaining elements are not visited. -/
theorem iterate_stops {α} (f : α → M ν Bool) (x : α) (xs : List α) (s s' : VM ν) (h : f x s = (.ok true, s')) :
    untilM f (x :: xs) s = (.ok (), s') := by
  simp [untilM, bind, h, pure]

example : untilM (fun (_ : Nat) => (pure true : M Int Bool)) [1, 2] vm0 = (.ok (), vm0) :=
  iterate_stops _ 1 [2] vm0 vm0 rfl

theorem iterate_in_order {α} (f : α → M ν Bool) (x : α) (xs : List α) (s s' : VM ν) (h : f x s = (.ok false, s')) :
    untilM f (x :: xs) s = untilM f xs s' := by
  simp [untilM, bind, h]

example : untilM (fun (_ : Nat) => (pure false : M Int Bool)) [1, 2] vm0 =
    untilM (fun (_ : Nat) => (pure false : M Int Bool)) [2] vm0 :=
  iterate_in_order _ 1 [2] vm0 vm0 rfl

/-- 1-based indices: the i-th pass (0-based position i) receives index i. `untilIdxM` is started at 0 by
`遍历` and the pass adds 1 (see Interp.evalStmt). -/
theorem iterate_index_advances {α} (f : Nat → α → M ν Bool) (i : Nat) (x : α) (xs : List α) (s s' : VM ν)
    (h : f i x s = (.ok false, s')) :
    untilIdxM f i (x :: xs) s = untilIdxM f (i + 1) xs s' := by
  simp [untilIdxM, bind, h]

example : untilIdxM (fun _ (_ : Nat) => (pure false : M Int Bool)) 0 [1, 2] vm0 =
    untilIdxM (fun _ (_ : Nat) => (pure false : M Int Bool)) 1 [2] vm0 :=
  iterate_index_advances _ 0 1 [2] vm0 vm0 rfl

/-- 如果/再如/否则: the first alternative that answers is the only one that runs. -/
theorem branch_first_true {α β} (f : α → M ν (Option β)) (d : M ν β) (x : α) (xs : List α) (s s' : VM ν) (b : β)
    (h : f x s = (.ok (some b), s')) :
    firstM f d (x :: xs) s = (.ok b, s') := by
  simp [firstM, bind, h, pure]

example : firstM (fun (x : Nat) => (pure (some x) : M Int (Option Nat))) (pure 0) [1, 2] vm0 = (.ok 1, vm0) :=
  branch_first_true _ _ 1 [2] vm0 vm0 1 rfl

theorem branch_skips_false {α β} (f : α → M ν (Option β)) (d : M ν β) (x : α) (xs : List α) (s s' : VM ν)
    (h : f x s = (.ok none, s')) :
    firstM f d (x :: xs) s = firstM f d xs s' := by
  simp [firstM, bind, h]

example : firstM (fun (_ : Nat) => (pure none : M Int (Option Nat))) (pure 0) [1, 2] vm0 =
    firstM (fun (_ : Nat) => (pure none : M Int (Option Nat))) (pure 0) [2] vm0 :=
  branch_skips_false _ _ 1 [2] vm0 vm0 rfl

theorem branch_else_last {α β} (f : α → M ν (Option β)) (d : M ν β) (s : VM ν) :
    firstM f d [] s = d s := by
  simp [firstM]

/-- a non-boolean condition of 如果 is error 80 and no branch runs -/
theorem branch_non_bool_is_error (n ln : Nat) (c : Expr) (ifB elseB : Option (List Stmt))
    (others : List (Expr × Option (List Stmt))) (he : Bool) (s s' : VM ν) (a : Addr) (cell : Cell ν)
    (fr : Frame) (rest : List Frame) (hs : s.stack = fr :: rest)
    (hc : evalExpr n c { s with stack := { fr with line := ln, started := true } :: rest } = (.ok a, s'))
    (hcell : s'.heap[a]? = some cell) (hnb : ∀ b, cell ≠ .bool b) :
    evalStmt (n+1) (.branch ln c ifB others he elseB) s = (.err (.rt 80), s') := by
  simp only [evalStmt, Stmt.line]
  cases cell <;> simp_all [bind, setTopFrame, modifyVM, getCell, rtErr, throwE]


example : ∃ s', evalStmt 3 (.branch 0 (.str 0 "x") (some [.nil]) [] false none) vm0 = (.err (.rt 80), s') :=
  ⟨_, branch_non_bool_is_error 2 0 (.str 0 "x") (some [.nil]) none [] false vm0 _ 0 (.str "x")
    { moduleId := 0, callType := 1 } [] rfl rfl rfl (by intro b h; cases h)⟩

/-! # The real constructs

From here on the theorems are about `evalStmt (n+1) (.while …)`, `(.iterate …)`, `(.branch …)`,
`evalPureStmtBlock`, `evalExecBlock` themselves — every fuel `n`, every body, every machine state.
Vocabulary (defined in `Proofs/ControlFlow.lean`, each tied to the model by an unfolding lemma proved there):
`setLine ln s` = `s` with the line of the top frame set and the frame marked started (first thing `evalStmt` does,
and first thing every turn of a 每当 loop does); `enterScope`/`leaveScope h`
= `BeginBoundScope` / the deferred `EndScope` (they touch `scopes` only); `retSlot s` = the return slot of the
top frame; `ReturnSet s` = that slot holds a value; `newNull s` = allocate 空 (the value of 如果/每当/遍历);
`Steps ev none pre s last s1` = the statements `pre` ran from `s`, each ended normally with the slot empty;
`passVerdict r s` = how a loop reads the end (`r`, `s`) of a pass: `some true` go on (normal end with the slot
empty, or 继续循环), `some false` stop (结束循环, or normal end with the slot set), `none` propagate;
`WhilePasses n ln c body k s s1` = k complete passes (each time the loop's line `ln` is made current again, then the
condition is evaluated first and is 真); `whileTurn n ln c body` = one turn of the loop as `evalStmt` runs it;
`ListPasses … i items s s1` / `DictPasses … target keys s s1` = complete passes for those elements in that order
(for a dictionary: a key that an earlier pass removed is skipped — no binding, no body, machine unchanged). -/


/-! ## 1. 输出 -/

/-- `return_propagates_block`.  In a block `pre ++ st :: post`: if the statements `pre` ran without 输出 and `st`
ends normally leaving the return slot set, the block yields the value in the slot; the final state is the one
after `st` with the block's scope ended — `post` is not evaluated (it does not occur on the right-hand side),
and the slot is still set, so the construct that contains the block sees it as well. -/
theorem return_propagates_block (n : Nat) (pre post : List Stmt) (st : Stmt) (s s1 s2 : VM ν)
    (last : Option Addr) (v rv : Addr)
    (hpre : Steps (evalStmt n) none pre (enterScope s) last s1)
    (hnd : isDecl st = false) (hst : evalStmt n st s1 = (.ok v, s2)) (hret : retSlot s2 = some rv) :
    evalPureStmtBlock (n+1) (some (pre ++ st :: post)) s = (.ok (some rv), leaveScope (scopeHandle s) s2) ∧
    ReturnSet (leaveScope (scopeHandle s) s2) := by
  constructor
  · rw [evalPureStmtBlock_eq]
    apply withScope_of
    rw [stmtsLoop_steps hpre]
    exact stmtsLoop_hit hnd hst hret
  · exact (returnSet_iff _).2 ⟨rv, by rw [retSlot_leaveScope]; exact hret⟩

example : ∃ rv s', evalPureStmtBlock 4 (some ([.empty 0] ++ retX :: [.nil])) vm0 = (.ok (some rv), s') ∧ ReturnSet s' :=
  ⟨_, _, return_propagates_block 3 [.empty 0] [.nil] retX vm0 _ _ _ _ _
    (.stmt rfl (run_ok (evalStmt 3 _) _ K) K (.nil _ _)) rfl (run_ok (evalStmt 3 _) _ K) (slot_set _ K)⟩

/-- a block none of whose statements leaves the slot set runs all of them and yields the value of the last one -/
theorem block_runs_to_end (n : Nat) (stmts : List Stmt) (s s1 : VM ν) (last : Option Addr)
    (h : Steps (evalStmt n) none stmts (enterScope s) last s1) :
    evalPureStmtBlock (n+1) (some stmts) s = (.ok last, leaveScope (scopeHandle s) s1) := by
  rw [evalPureStmtBlock_eq]
  apply withScope_of
  have := stmtsLoop_steps h []
  simpa [stmtsLoop, pure] using this

example : ∃ last s', evalPureStmtBlock 4 (some [.empty 0, .expr (.str 0 "x")]) vm0 = (.ok last, s') :=
  ⟨_, _, block_runs_to_end 3 _ vm0 _ _
    (.stmt rfl (run_ok (evalStmt 3 _) _ K) K (.stmt rfl (run_ok (evalStmt 3 _) _ K) K (.nil _ _)))⟩

/-- 结束循环 / 继续循环 (and every error) raised by a statement of a block leave the block at once, as that same
signal: the block does not catch it, the rest of the block is not evaluated. -/
theorem signal_propagates_block (n : Nat) (pre post : List Stmt) (st : Stmt) (s s1 s2 : VM ν)
    (last : Option Addr) (e : Err)
    (hpre : Steps (evalStmt n) none pre (enterScope s) last s1)
    (hnd : isDecl st = false) (hst : evalStmt n st s1 = (.err e, s2)) :
    evalPureStmtBlock (n+1) (some (pre ++ st :: post)) s = (.err e, leaveScope (scopeHandle s) s2) := by
  rw [evalPureStmtBlock_eq]
  apply withScope_of
  rw [stmtsLoop_steps hpre]
  exact stmtsLoop_fail hnd hst

example : ∃ s', evalPureStmtBlock 4 (some ([.empty 0] ++ .break 0 :: [.nil])) vm0 = (.err .sigBreak, s') :=
  ⟨_, signal_propagates_block 3 [.empty 0] [.nil] (.break 0) vm0 _ _ _ _
    (.stmt rfl (run_ok (evalStmt 3 _) _ K) K (.nil _ _)) rfl (run_err (evalStmt 3 _) _ _ K)⟩

/-- `return_stops_while`.  每当: after k complete passes, if the condition is 真 once more and the body ends
normally leaving the return slot set, the loop is over: the statement is `ok` (value 空), its final state is the
state after *that* pass (plus the 空 cell) — no further condition test, no further pass — and the slot is still set. -/
theorem return_stops_while (n ln k : Nat) (c : Expr) (body : Option (List Stmt)) (s s1 s2 s3 : VM ν)
    (a rv : Addr) (r : Option Addr)
    (hp : WhilePasses n ln c body k (setLine ln s) s1) (hk : k < n)
    (hc : evalExpr n c (setLine ln s1) = (.ok a, s2)) (ht : s2.heap[a]? = some (.bool true))
    (hb : evalPureStmtBlock n body s2 = (.ok r, s3)) (hret : retSlot s3 = some rv) :
    evalStmt (n+1) (.while ln c body) s = newNull s3 ∧ retSlot (newNull s3).2 = some rv := by
  refine ⟨while_stops_after hp hk (whileStep_pass hc ht hb ?_), hret⟩
  simp [passVerdict, hret]

/-- the 输出 is executed in the *second* pass (k = 1): `每当 真： 如果 d： 输出 "x"。 d = t` with d = 假, t = 真 -/
example : ∃ s3 rv, evalStmt 7 (.while 0 cTrue (some retSecondTime)) vm1 = newNull s3 ∧ retSlot (newNull s3).2 = some rv :=
  ⟨_, _, return_stops_while 6 0 1 cTrue (some retSecondTime) vm1 _ _ _ _ _ _
    (.succ (run_ok (evalExpr 6 cTrue) _ K) (cell_bool _ true K) (run_ok (evalPureStmtBlock 6 _) _ K) K (.zero _))
    (by decide) (run_ok (evalExpr 6 cTrue) _ K) (cell_bool _ true K)
    (run_ok (evalPureStmtBlock 6 _) _ K) (slot_set _ K)⟩

/-- `return_stops_iterate` (list).  遍历 over the list `pre ++ x :: post`: after complete passes for `pre`, if the
pass for `x` ends normally leaving the slot set, the loop is over; `post` is not visited. -/
theorem return_stops_iterate_list (n ln : Nat) (e : Expr) (names : List Ident) (body : Option (List Stmt))
    (s s1 s2 s3 s4 s5 : VM ν) (target x rv : Addr) (r : Option Addr) (slots : Option String × Option String)
    (pre post : List Addr)
    (hT : evalExpr n e (enterScope (setLine ln s)) = (.ok target, s1))
    (hS : iterSlots names s1 = (.ok slots, s2))
    (hcell : s2.heap[target]? = some (.arr (pre ++ x :: post)))
    (hp : ListPasses n names.length slots body 0 pre s2 s3)
    (hbind : iterBind n names.length slots s3.heap.size x
      (pushCell (.num (NumOps.ofInt ((pre.length : Int) + 1))) s3) = (.ok (), s4))
    (hb : evalPureStmtBlock n body s4 = (.ok r, s5)) (hret : retSlot s5 = some rv) :
    evalStmt (n+1) (.iterate ln e names body) s = newNull (leaveScope (scopeHandle (setLine ln s)) s5) ∧
    retSlot (newNull (leaveScope (scopeHandle (setLine ln s)) s5)).2 = some rv := by
  refine ⟨iterate_list_ok hT hS hcell ?_, by rw [retSlot_newNull, retSlot_leaveScope]; exact hret⟩
  rw [untilIdxM_passes hp]
  apply untilIdxM_stop
  have := iterListStep_pass (i := 0 + pre.length) (by simpa using hbind) hb
    (show passVerdict (.ok r) s5 = some false by simp [passVerdict, hret])
  simpa using this

/-- `遍历 ["a","b","c"] 以 v： 如果 v == "b"： 输出 "x"`: one complete pass, the 输出 in the second, "c" not visited -/
example : ∃ s5 rv, evalStmt 7 (.iterate 0 abc [vId] (some [retIfB])) vm0 = newNull s5 ∧ retSlot (newNull s5).2 = some rv :=
  ⟨_, _, return_stops_iterate_list 6 0 abc [vId] (some [retIfB]) vm0 _ _ _ _ _ _ _ _ _ _ [0] [2]
    (run_ok (evalExpr 6 abc) _ K) (run_ok (iterSlots [vId]) _ K) (cell_arr _ [0, 1, 2] K)
    (.cons (run_ok (iterBind 6 1 _ _ _) _ K) (run_ok (evalPureStmtBlock 6 _) _ K) K (.nil _ _))
    (run_ok (iterBind 6 1 _ _ _) _ K) (run_ok (evalPureStmtBlock 6 _) _ K) (slot_set _ K)⟩

/-- `return_stops_iterate` (dictionary): the same for the key order `pre ++ k :: post`. -/
theorem return_stops_iterate_dict (n ln : Nat) (e : Expr) (names : List Ident) (body : Option (List Stmt))
    (s s1 s2 s3 s4 s5 : VM ν) (target v rv : Addr) (r : Option Addr) (slots : Option String × Option String)
    (vals vals' : List (String × Addr)) (ord' pre post : List String) (k : String)
    (hT : evalExpr n e (enterScope (setLine ln s)) = (.ok target, s1))
    (hS : iterSlots names s1 = (.ok slots, s2))
    (hcell : s2.heap[target]? = some (.hm vals (pre ++ k :: post)))
    (hp : DictPasses n names.length slots body target pre s2 s3)
    (hcell' : s3.heap[target]? = some (.hm vals' ord')) (hl : lookup k vals' = some v)
    (hbind : iterBind n names.length slots s3.heap.size v (pushCell (.str k) s3) = (.ok (), s4))
    (hb : evalPureStmtBlock n body s4 = (.ok r, s5)) (hret : retSlot s5 = some rv) :
    evalStmt (n+1) (.iterate ln e names body) s = newNull (leaveScope (scopeHandle (setLine ln s)) s5) ∧
    retSlot (newNull (leaveScope (scopeHandle (setLine ln s)) s5)).2 = some rv := by
  refine ⟨iterate_dict_ok hT hS hcell ?_, by rw [retSlot_newNull, retSlot_leaveScope]; exact hret⟩
  rw [untilM_passes hp]
  apply untilM_stop
  have := iterDictStep_pass hcell' hl hbind hb
    (show passVerdict (.ok r) s5 = some false by simp [passVerdict, hret])
  simpa using this

/-- `遍历 [p="a", q="b", r="c"] 以 v： 如果 v == "b"： 输出 "x"`: stops at key q, r not visited -/
example : ∃ s5 rv, evalStmt 7 (.iterate 0 pqr [vId] (some [retIfB])) vm0 = newNull s5 ∧ retSlot (newNull s5).2 = some rv :=
  ⟨_, _, return_stops_iterate_dict 6 0 pqr [vId] (some [retIfB]) vm0 _ _ _ _ _ _ 1 _ _ _ _ _ _ ["p"] ["r"] "q"
    (run_ok (evalExpr 6 pqr) _ K) (run_ok (iterSlots [vId]) _ K)
    (cell_hm _ [("p", 0), ("q", 1), ("r", 2)] ["p", "q", "r"] K)
    (.cons (cell_hm _ [("p", 0), ("q", 1), ("r", 2)] ["p", "q", "r"] K) (v := 0) K
      (run_ok (iterBind 6 1 _ _ _) _ K) (run_ok (evalPureStmtBlock 6 _) _ K) K (.nil _))
    (cell_hm _ [("p", 0), ("q", 1), ("r", 2)] ["p", "q", "r"] K) K
    (run_ok (iterBind 6 1 _ _ _) _ K) (run_ok (evalPureStmtBlock 6 _) _ K) (slot_set _ K)⟩

/-! ## 4. 如果 / 再如 / 否则 (placed here because 输出 through a branch needs it) -/

/-- the 如果 condition is 真: exactly the 如果 block is run — whatever it does —, then the value is 空.  No 再如
condition is evaluated, no other block is run (`others`, `elseB` do not occur on the right). -/
theorem branch_runs_if_block (n ln : Nat) (c : Expr) (ifB elseB : Option (List Stmt))
    (others : List (Expr × Option (List Stmt))) (he : Bool) (s s1 : VM ν) (a : Addr)
    (hc : evalExpr n c (setLine ln s) = (.ok a, s1)) (ht : s1.heap[a]? = some (.bool true)) :
    evalStmt (n+1) (.branch ln c ifB others he elseB) s =
      ((do let _ ← evalPureStmtBlock n ifB; newNull) : M ν Addr) s1 := by
  rw [evalStmt_branch, bind_ok hc]
  have hg : getCell a s1 = (.ok (.bool true), s1) := by simp [getCell, ht]
  rw [bind_ok hg]

example : ∃ s1, evalStmt 5 (.branch 0 cTrue (some [retX]) [(.nil, none)] true none) vm0 =
    ((do let _ ← evalPureStmtBlock 4 (some [retX]); newNull) : M Int Addr) s1 :=
  ⟨_, branch_runs_if_block 4 0 cTrue _ _ _ _ vm0 _ _ (run_ok (evalExpr 4 cTrue) _ K) (cell_bool _ true K)⟩

/-- the 如果 condition and the conditions of the alternatives `pre` are 假 (evaluated in that order), the next
one is 真: exactly its block is run, the later alternatives `post` and 否则 are not looked at. -/
theorem branch_runs_first_true_other (n ln : Nat) (c oc : Expr) (ifB elseB ob : Option (List Stmt))
    (pre post : List (Expr × Option (List Stmt))) (he : Bool) (s s1 s2 s3 : VM ν) (a b : Addr)
    (hc : evalExpr n c (setLine ln s) = (.ok a, s1)) (hf : s1.heap[a]? = some (.bool false))
    (hpre : CondsFalse n pre s1 s2)
    (hoc : evalExpr n oc s2 = (.ok b, s3)) (hot : s3.heap[b]? = some (.bool true)) :
    evalStmt (n+1) (.branch ln c ifB (pre ++ (oc, ob) :: post) he elseB) s =
      ((do let _ ← evalPureStmtBlock n ob; newNull) : M ν Addr) s3 := by
  rw [evalStmt_branch, bind_ok hc]
  have hg : getCell a s1 = (.ok (.bool false), s1) := by simp [getCell, hf]
  rw [bind_ok hg]
  show (firstM _ _ _ >>= fun _ => newNull) s1 = _
  have h1 := firstM_condsFalse hpre (branchElse n he elseB) ((oc, ob) :: post) (branchOther n)
    (fun o s s1 a h1 h2 => branchOther_false h1 h2)
  have h2 : branchOther n (oc, ob) s2 = _ := branchOther_true (o := (oc, ob)) hoc hot
  simp only [bind, firstM, h1, h2]
  rcases evalPureStmtBlock n ob s3 with ⟨r, s4⟩
  cases r <;> simp [pure]

/-- `如果 假： ‹nil› 再如 假： ‹nil› 再如 真： 输出 "x" 再如 ‹nil expression›： …` -/
example : ∃ s3, evalStmt 5 (.branch 0 cFalse (some [.nil]) ([(cFalse, some [.nil])] ++ (cTrue, some [retX]) :: [(.nil, none)])
      true (some [.nil])) vm0 = ((do let _ ← evalPureStmtBlock 4 (some [retX]); newNull) : M Int Addr) s3 :=
  ⟨_, branch_runs_first_true_other 4 0 cFalse cTrue _ _ _ [(cFalse, some [.nil])] _ _ vm0 _ _ _ _ _
    (run_ok (evalExpr 4 cFalse) _ K) (cell_bool _ false K)
    (.cons (run_ok (evalExpr 4 cFalse) _ K) (cell_bool _ false K) (.nil _))
    (run_ok (evalExpr 4 cTrue) _ K) (cell_bool _ true K)⟩

/-- no condition is 真 and there is a 否则: exactly the 否则 block is run -/
theorem branch_runs_else (n ln : Nat) (c : Expr) (ifB elseB : Option (List Stmt))
    (others : List (Expr × Option (List Stmt))) (s s1 s2 : VM ν) (a : Addr)
    (hc : evalExpr n c (setLine ln s) = (.ok a, s1)) (hf : s1.heap[a]? = some (.bool false))
    (hall : CondsFalse n others s1 s2) :
    evalStmt (n+1) (.branch ln c ifB others true elseB) s =
      ((do let _ ← evalPureStmtBlock n elseB; newNull) : M ν Addr) s2 := by
  rw [evalStmt_branch, bind_ok hc]
  have hg : getCell a s1 = (.ok (.bool false), s1) := by simp [getCell, hf]
  rw [bind_ok hg]
  show (firstM _ _ _ >>= fun _ => newNull) s1 = _
  have h1 := firstM_condsFalse hall (branchElse n true elseB) [] (branchOther n)
    (fun o s s1 a h1 h2 => branchOther_false h1 h2)
  simp only [List.append_nil] at h1
  rw [bind_eq_of_eq (h1.trans (rfl : _ = branchElse n true elseB s2))]
  simp [branchElse]

example : ∃ s2, evalStmt 5 (.branch 0 cFalse (some [.nil]) [(cFalse, some [.nil])] true (some [retX])) vm0 =
    ((do let _ ← evalPureStmtBlock 4 (some [retX]); newNull) : M Int Addr) s2 :=
  ⟨_, branch_runs_else 4 0 cFalse _ _ [(cFalse, some [.nil])] vm0 _ _ _
    (run_ok (evalExpr 4 cFalse) _ K) (cell_bool _ false K)
    (.cons (run_ok (evalExpr 4 cFalse) _ K) (cell_bool _ false K) (.nil _))⟩

/-- no condition is 真 and there is no 否则: nothing is run; the value is 空 -/
theorem branch_runs_nothing (n ln : Nat) (c : Expr) (ifB elseB : Option (List Stmt))
    (others : List (Expr × Option (List Stmt))) (s s1 s2 : VM ν) (a : Addr)
    (hc : evalExpr n c (setLine ln s) = (.ok a, s1)) (hf : s1.heap[a]? = some (.bool false))
    (hall : CondsFalse n others s1 s2) :
    evalStmt (n+1) (.branch ln c ifB others false elseB) s = newNull s2 := by
  rw [evalStmt_branch, bind_ok hc]
  have hg : getCell a s1 = (.ok (.bool false), s1) := by simp [getCell, hf]
  rw [bind_ok hg]
  show (firstM _ _ _ >>= fun _ => newNull) s1 = _
  have h1 := firstM_condsFalse hall (branchElse n false elseB) [] (branchOther n)
    (fun o s s1 a h1 h2 => branchOther_false h1 h2)
  simp only [List.append_nil] at h1
  rw [bind_eq_of_eq (h1.trans (rfl : _ = branchElse n false elseB s2))]
  rfl

example : ∃ s2, evalStmt 5 (.branch 0 cFalse (some [.nil]) [(cFalse, some [.nil])] false (some [.nil])) vm0 = newNull s2 :=
  ⟨_, branch_runs_nothing 4 0 cFalse _ _ [(cFalse, some [.nil])] vm0 _ _ _
    (run_ok (evalExpr 4 cFalse) _ K) (cell_bool _ false K)
    (.cons (run_ok (evalExpr 4 cFalse) _ K) (cell_bool _ false K) (.nil _))⟩

/-- a non-boolean 再如 condition is error 80; no block is run -/
theorem branch_other_non_bool_is_error (n ln : Nat) (c oc : Expr) (ifB elseB ob : Option (List Stmt))
    (pre post : List (Expr × Option (List Stmt))) (he : Bool) (s s1 s2 s3 : VM ν) (a b : Addr) (cell : Cell ν)
    (hc : evalExpr n c (setLine ln s) = (.ok a, s1)) (hf : s1.heap[a]? = some (.bool false))
    (hpre : CondsFalse n pre s1 s2)
    (hoc : evalExpr n oc s2 = (.ok b, s3)) (hcell : s3.heap[b]? = some cell) (hnb : ∀ x, cell ≠ .bool x) :
    evalStmt (n+1) (.branch ln c ifB (pre ++ (oc, ob) :: post) he elseB) s = (.err (.rt 80), s3) := by
  rw [evalStmt_branch, bind_ok hc]
  have hg : getCell a s1 = (.ok (.bool false), s1) := by simp [getCell, hf]
  rw [bind_ok hg]
  show (firstM _ _ _ >>= fun _ => newNull) s1 = _
  have h1 := firstM_condsFalse hpre (branchElse n he elseB) ((oc, ob) :: post) (branchOther n)
    (fun o s s1 a h1 h2 => branchOther_false h1 h2)
  have h2 : branchOther n (oc, ob) s2 = (.err (.rt 80), s3) := by
    unfold branchOther
    rw [bind_ok hoc]
    have hg' : getCell b s3 = (.ok cell, s3) := by simp [getCell, hcell]
    rw [bind_ok hg']
    cases cell <;> simp_all [rtErr, throwE]
  simp [bind, firstM, h1, h2]

example : ∃ s3, evalStmt 5 (.branch 0 cFalse (some [.nil]) ([] ++ (.str 0 "x", some [.nil]) :: []) false none) vm0 =
    (.err (.rt 80), s3) :=
  ⟨_, branch_other_non_bool_is_error 4 0 cFalse (.str 0 "x") _ _ _ [] [] _ vm0 _ _ _ _ _ (.str "x")
    (run_ok (evalExpr 4 cFalse) _ K) (cell_bool _ false K) (.nil _)
    (run_ok (evalExpr 4 (.str 0 "x")) _ K) (cell_str _ "x" K) (by intro x h; cases h)⟩

/-- `branch_first_true` on the statement: the four cases together.  `taken` is the block that runs. -/
theorem branch_first_true_stmt (n ln : Nat) (c : Expr) (ifB elseB : Option (List Stmt))
    (others : List (Expr × Option (List Stmt))) (he : Bool) (s s1 : VM ν) (a : Addr) (bv : Bool)
    (hc : evalExpr n c (setLine ln s) = (.ok a, s1)) (hbv : s1.heap[a]? = some (.bool bv)) :
    (bv = true → evalStmt (n+1) (.branch ln c ifB others he elseB) s =
        ((do let _ ← evalPureStmtBlock n ifB; newNull) : M ν Addr) s1) ∧
    (bv = false → ∀ pre oc ob post s2 s3 b, others = pre ++ (oc, ob) :: post → CondsFalse n pre s1 s2 →
        evalExpr n oc s2 = (.ok b, s3) → s3.heap[b]? = some (.bool true) →
        evalStmt (n+1) (.branch ln c ifB others he elseB) s =
          ((do let _ ← evalPureStmtBlock n ob; newNull) : M ν Addr) s3) ∧
    (bv = false → ∀ s2, CondsFalse n others s1 s2 →
        evalStmt (n+1) (.branch ln c ifB others he elseB) s =
          if he then ((do let _ ← evalPureStmtBlock n elseB; newNull) : M ν Addr) s2 else newNull s2) := by
  refine ⟨?_, ?_, ?_⟩
  · rintro rfl; exact branch_runs_if_block n ln c ifB elseB others he s s1 a hc hbv
  · rintro rfl pre oc ob post s2 s3 b rfl hpre hoc hot
    exact branch_runs_first_true_other n ln c oc ifB elseB ob pre post he s s1 s2 s3 a b hc hbv hpre hoc hot
  · rintro rfl s2 hall
    cases he
    · simpa using branch_runs_nothing n ln c ifB elseB others s s1 s2 a hc hbv hall
    · simpa using branch_runs_else n ln c ifB elseB others s s1 s2 a hc hbv hall

example : ∃ s1, evalStmt 5 (.branch 0 cTrue (some [retX]) [] false none) vm0 =
    ((do let _ ← evalPureStmtBlock 4 (some [retX]); newNull) : M Int Addr) s1 :=
  ⟨_, (branch_first_true_stmt 4 0 cTrue _ none [] false vm0 _ _ true
    (run_ok (evalExpr 4 cTrue) _ K) (cell_bool _ true K)).1 rfl⟩

/-- `return_through_branch`.  If the block that a 如果 statement runs (the state `sb` is where it starts, see the
three theorems above) ends normally leaving the slot set, the 如果 statement is `ok` and the slot is still set:
the enclosing block stops (`return_propagates_block`), the enclosing loop stops (`return_stops_while` …). -/
theorem return_through_branch (n : Nat) (blk : Option (List Stmt)) (sb s2 : VM ν) (r : Option Addr) (rv : Addr)
    (hb : evalPureStmtBlock n blk sb = (.ok r, s2)) (hret : retSlot s2 = some rv) :
    ((do let _ ← evalPureStmtBlock n blk; newNull) : M ν Addr) sb = newNull s2 ∧
    retSlot (newNull s2).2 = some rv :=
  ⟨bind_ok hb, hret⟩

example : ∃ s2 rv, ((do let _ ← evalPureStmtBlock 4 (some [retX, .nil]); newNull) : M Int Addr) vm0 = newNull s2 ∧
    retSlot (newNull s2).2 = some rv :=
  ⟨_, _, return_through_branch 4 (some [retX, .nil]) vm0 _ _ _ (run_ok (evalPureStmtBlock 4 _) _ K) (slot_set _ K)⟩

/-- 结束循环 / 继续循环 / an error in the block that a 如果 statement runs is the outcome of the 如果 statement -/
theorem signal_through_branch (n : Nat) (blk : Option (List Stmt)) (sb s2 : VM ν) (e : Err)
    (hb : evalPureStmtBlock n blk sb = (.err e, s2)) :
    ((do let _ ← evalPureStmtBlock n blk; newNull) : M ν Addr) sb = (.err e, s2) :=
  bind_err hb

example : ∃ s2, ((do let _ ← evalPureStmtBlock 4 (some [.break 0, .nil]); newNull) : M Int Addr) vm0 = (.err .sigBreak, s2) :=
  ⟨_, signal_through_branch 4 (some [.break 0, .nil]) vm0 _ _ (run_err (evalPureStmtBlock 4 _) _ _ K)⟩

/-! ## 2. 结束循环 / 继续循环 act on the innermost loop -/

/-- `break_innermost_only` (每当).  If in some pass the body of *this* loop ends with the 结束循环 signal, this loop
catches it: the statement is `ok` with value 空 in the state after that pass (no further test, no further pass).
Being `ok`, the statement is to its enclosing block like any finished statement (next theorem). -/
theorem break_innermost_only_while (n ln k : Nat) (c : Expr) (body : Option (List Stmt)) (s s1 s2 s3 : VM ν) (a : Addr)
    (hp : WhilePasses n ln c body k (setLine ln s) s1) (hk : k < n)
    (hc : evalExpr n c (setLine ln s1) = (.ok a, s2)) (ht : s2.heap[a]? = some (.bool true))
    (hb : evalPureStmtBlock n body s2 = (.err .sigBreak, s3)) :
    evalStmt (n+1) (.while ln c body) s = newNull s3 :=
  while_stops_after hp hk (whileStep_pass hc ht hb rfl)

/-- `每当 真： 如果 d： 结束循环。 d = t`: one complete pass, 结束循环 in the second -/
example : ∃ s3, evalStmt 7 (.while 0 cTrue (some breakSecondTime)) vm1 = newNull s3 :=
  ⟨_, break_innermost_only_while 6 0 1 cTrue (some breakSecondTime) vm1 _ _ _ _
    (.succ (run_ok (evalExpr 6 cTrue) _ K) (cell_bool _ true K) (run_ok (evalPureStmtBlock 6 _) _ K) K (.zero _))
    (by decide) (run_ok (evalExpr 6 cTrue) _ K) (cell_bool _ true K) (run_err (evalPureStmtBlock 6 _) _ _ K)⟩

/-- … so the block that contains the loop (the body of an outer loop, for instance) goes on with the statement
after the loop: the signal does not reach any outer loop. -/
theorem break_resumes_enclosing_block (n ln k : Nat) (c : Expr) (body : Option (List Stmt)) (s s1 s2 s3 : VM ν) (a : Addr)
    (last : Option Addr) (rest : List Stmt)
    (hp : WhilePasses n ln c body k (setLine ln s) s1) (hk : k < n)
    (hc : evalExpr n c (setLine ln s1) = (.ok a, s2)) (ht : s2.heap[a]? = some (.bool true))
    (hb : evalPureStmtBlock n body s2 = (.err .sigBreak, s3)) (hempty : retSlot s3 = none) :
    stmtsLoop (evalStmt (n+1)) last (.while ln c body :: rest) s =
      stmtsLoop (evalStmt (n+1)) (some s3.heap.size) rest (newNull s3).2 := by
  have h := break_innermost_only_while n ln k c body s s1 s2 s3 a hp hk hc ht hb
  simp [stmtsLoop, isDecl, bind, h, newNull_eq, getReturnValue_eq, retSlot, pure]
  simp [retSlot] at hempty
  simp [hempty]

example : ∃ a s', stmtsLoop (evalStmt 7) none (.while 0 cTrue (some breakSecondTime) :: [.empty 0]) vm1 =
    stmtsLoop (evalStmt 7) (some a) [.empty 0] s' :=
  ⟨_, _, break_resumes_enclosing_block 6 0 1 cTrue (some breakSecondTime) vm1 _ _ _ _ none [.empty 0]
    (.succ (run_ok (evalExpr 6 cTrue) _ K) (cell_bool _ true K) (run_ok (evalPureStmtBlock 6 _) _ K) K (.zero _))
    (by decide) (run_ok (evalExpr 6 cTrue) _ K) (cell_bool _ true K) (run_err (evalPureStmtBlock 6 _) _ _ K) K⟩

/-- `continue_innermost_only` (每当).  If the body ends with the 继续循环 signal, this loop catches it and the pass
counts as complete: the loop goes on with its next turn, which starts by evaluating the condition again
(`whileStep` = test, then pass).  Hence k passes become k+1 passes, and every statement about "after k+1 passes"
(`while_ends_when_condition_false`, `return_stops_while`, …) applies. -/
theorem continue_innermost_only_while (n ln k : Nat) (c : Expr) (body : Option (List Stmt)) (s0 s1 s2 s3 : VM ν) (a : Addr)
    (hp : WhilePasses n ln c body k s0 s1)
    (hc : evalExpr n c (setLine ln s1) = (.ok a, s2)) (ht : s2.heap[a]? = some (.bool true))
    (hb : evalPureStmtBlock n body s2 = (.err .sigContinue, s3)) :
    WhilePasses n ln c body (k+1) s0 s3 ∧
    ∀ j, whileM (j+1) (whileTurn n ln c body) s1 = whileM j (whileTurn n ln c body) s3 := by
  refine ⟨hp.snoc hc ht hb rfl, fun j => ?_⟩
  simp [whileM, bind, whileTurn_eq, whileStep_pass hc ht hb (show passVerdict _ s3 = some true from rfl)]

example : ∃ s3, WhilePasses 6 0 cTrue (some [.continue 0, .nil]) 1 vm0 s3 :=
  ⟨_, (continue_innermost_only_while 6 0 0 cTrue (some [.continue 0, .nil]) vm0 _ _ _ _ (.zero _)
    (run_ok (evalExpr 6 cTrue) _ K) (cell_bool _ true K) (run_err (evalPureStmtBlock 6 _) _ _ K)).1⟩

/-- `while_retests` on the statement: the loop ends (value 空) exactly when the condition, evaluated again after
k complete passes, is 假 — in the state in which that test left the machine. -/
theorem while_ends_when_condition_false (n ln k : Nat) (c : Expr) (body : Option (List Stmt)) (s s1 s2 : VM ν) (a : Addr)
    (hp : WhilePasses n ln c body k (setLine ln s) s1) (hk : k < n)
    (hc : evalExpr n c (setLine ln s1) = (.ok a, s2)) (hf : s2.heap[a]? = some (.bool false)) :
    evalStmt (n+1) (.while ln c body) s = newNull s2 :=
  while_stops_after hp hk (whileStep_false hc hf)

/-- `每当 d /= t： d = t`: one pass, then the condition is tested again and is 假 -/
example : ∃ s2, evalStmt 7 (.while 0 dNeT (some [setD])) vm1 = newNull s2 :=
  ⟨_, while_ends_when_condition_false 6 0 1 dNeT (some [setD]) vm1 _ _ _
    (.succ (run_ok (evalExpr 6 dNeT) _ K) (cell_bool _ true K) (run_ok (evalPureStmtBlock 6 _) _ K) K (.zero _))
    (by decide) (run_ok (evalExpr 6 dNeT) _ K) (cell_bool _ false K)⟩

/-- … and a non-boolean condition, at whichever test, is error 80 (the body is not run for it). -/
theorem while_non_bool_is_error (n ln k : Nat) (c : Expr) (body : Option (List Stmt)) (s s1 s2 : VM ν) (a : Addr)
    (cell : Cell ν)
    (hp : WhilePasses n ln c body k (setLine ln s) s1) (hk : k < n)
    (hc : evalExpr n c (setLine ln s1) = (.ok a, s2)) (hcell : s2.heap[a]? = some cell) (hnb : ∀ b, cell ≠ .bool b) :
    evalStmt (n+1) (.while ln c body) s = (.err (.rt 80), s2) :=
  while_fails_after hp hk (whileStep_non_bool hc hcell hnb)

example : ∃ s2, evalStmt 7 (.while 0 (.str 0 "x") (some [.nil])) vm0 = (.err (.rt 80), s2) :=
  ⟨_, while_non_bool_is_error 6 0 0 (.str 0 "x") (some [.nil]) vm0 _ _ _ (.str "x") (.zero _) (by decide)
    (run_ok (evalExpr 6 _) _ K) (cell_str _ "x" K) (by intro b h; cases h)⟩

/-- the two signals are all a loop catches: any other error of the body (a runtime error, an exception signal)
ends the loop and is the outcome of the 每当 statement -/
theorem while_passes_other_errors (n ln k : Nat) (c : Expr) (body : Option (List Stmt)) (s s1 s2 s3 : VM ν) (a : Addr)
    (e : Err)
    (hp : WhilePasses n ln c body k (setLine ln s) s1) (hk : k < n)
    (hc : evalExpr n c (setLine ln s1) = (.ok a, s2)) (ht : s2.heap[a]? = some (.bool true))
    (hb : evalPureStmtBlock n body s2 = (.err e, s3)) (h1 : e ≠ .sigBreak) (h2 : e ≠ .sigContinue) :
    evalStmt (n+1) (.while ln c body) s = (.err e, s3) := by
  refine while_fails_after hp hk ?_
  unfold whileStep
  rw [bind_ok hc]
  have hg : getCell a s2 = (.ok (.bool true), s2) := by simp [getCell, ht]
  rw [bind_ok hg]
  simp only [Model.tryCatch, hb]
  cases e <;> simp_all [throwE]

/-- 每当 真： ‹nil expression as a statement› — error 80 from the body leaves the loop -/
example : ∃ s3, evalStmt 7 (.while 0 cTrue (some [.expr .nil, .nil])) vm0 = (.err (.rt 80), s3) :=
  ⟨_, while_passes_other_errors 6 0 0 cTrue _ vm0 _ _ _ _ _ (.zero _) (by decide)
    (run_ok (evalExpr 6 cTrue) _ K) (cell_bool _ true K) (run_err (evalPureStmtBlock 6 _) _ _ K)
    (by decide) (by decide)⟩

/-- `break_innermost_only` (遍历 over a list): the pass for `x` ends with 结束循环: the loop is over, `ok`, 空;
`post` is not visited. -/
theorem break_innermost_only_iterate_list (n ln : Nat) (e : Expr) (names : List Ident) (body : Option (List Stmt))
    (s s1 s2 s3 s4 s5 : VM ν) (target x : Addr) (slots : Option String × Option String) (pre post : List Addr)
    (hT : evalExpr n e (enterScope (setLine ln s)) = (.ok target, s1))
    (hS : iterSlots names s1 = (.ok slots, s2))
    (hcell : s2.heap[target]? = some (.arr (pre ++ x :: post)))
    (hp : ListPasses n names.length slots body 0 pre s2 s3)
    (hbind : iterBind n names.length slots s3.heap.size x
      (pushCell (.num (NumOps.ofInt ((pre.length : Int) + 1))) s3) = (.ok (), s4))
    (hb : evalPureStmtBlock n body s4 = (.err .sigBreak, s5)) :
    evalStmt (n+1) (.iterate ln e names body) s = newNull (leaveScope (scopeHandle (setLine ln s)) s5) := by
  refine iterate_list_ok hT hS hcell ?_
  rw [untilIdxM_passes hp]
  apply untilIdxM_stop
  have := iterListStep_pass (i := 0 + pre.length) (by simpa using hbind) hb
    (show passVerdict (.err .sigBreak) s5 = some false from rfl)
  simpa using this

/-- `遍历 ["a","b","c"] 以 v： 如果 v == "b"： 结束循环` -/
example : ∃ s5, evalStmt 7 (.iterate 0 abc [vId] (some [breakIfB])) vm0 = newNull s5 :=
  ⟨_, break_innermost_only_iterate_list 6 0 abc [vId] (some [breakIfB]) vm0 _ _ _ _ _ _ _ _ [0] [2]
    (run_ok (evalExpr 6 abc) _ K) (run_ok (iterSlots [vId]) _ K) (cell_arr _ [0, 1, 2] K)
    (.cons (run_ok (iterBind 6 1 _ _ _) _ K) (run_ok (evalPureStmtBlock 6 _) _ K) K (.nil _ _))
    (run_ok (iterBind 6 1 _ _ _) _ K) (run_err (evalPureStmtBlock 6 _) _ _ K)⟩

/-- `break_innermost_only` (遍历 over a dictionary) -/
theorem break_innermost_only_iterate_dict (n ln : Nat) (e : Expr) (names : List Ident) (body : Option (List Stmt))
    (s s1 s2 s3 s4 s5 : VM ν) (target v : Addr) (slots : Option String × Option String)
    (vals vals' : List (String × Addr)) (ord' pre post : List String) (k : String)
    (hT : evalExpr n e (enterScope (setLine ln s)) = (.ok target, s1))
    (hS : iterSlots names s1 = (.ok slots, s2))
    (hcell : s2.heap[target]? = some (.hm vals (pre ++ k :: post)))
    (hp : DictPasses n names.length slots body target pre s2 s3)
    (hcell' : s3.heap[target]? = some (.hm vals' ord')) (hl : lookup k vals' = some v)
    (hbind : iterBind n names.length slots s3.heap.size v (pushCell (.str k) s3) = (.ok (), s4))
    (hb : evalPureStmtBlock n body s4 = (.err .sigBreak, s5)) :
    evalStmt (n+1) (.iterate ln e names body) s = newNull (leaveScope (scopeHandle (setLine ln s)) s5) := by
  refine iterate_dict_ok hT hS hcell ?_
  rw [untilM_passes hp]
  apply untilM_stop
  have := iterDictStep_pass hcell' hl hbind hb (show passVerdict (.err .sigBreak) s5 = some false from rfl)
  simpa using this

example : ∃ s5, evalStmt 7 (.iterate 0 pqr [vId] (some [breakIfB])) vm0 = newNull s5 :=
  ⟨_, break_innermost_only_iterate_dict 6 0 pqr [vId] (some [breakIfB]) vm0 _ _ _ _ _ _ 1 _ _ _ _ ["p"] ["r"] "q"
    (run_ok (evalExpr 6 pqr) _ K) (run_ok (iterSlots [vId]) _ K)
    (cell_hm _ [("p", 0), ("q", 1), ("r", 2)] ["p", "q", "r"] K)
    (.cons (cell_hm _ [("p", 0), ("q", 1), ("r", 2)] ["p", "q", "r"] K) (v := 0) K
      (run_ok (iterBind 6 1 _ _ _) _ K) (run_ok (evalPureStmtBlock 6 _) _ K) K (.nil _))
    (cell_hm _ [("p", 0), ("q", 1), ("r", 2)] ["p", "q", "r"] K) K
    (run_ok (iterBind 6 1 _ _ _) _ K) (run_err (evalPureStmtBlock 6 _) _ _ K)⟩

/-- `continue_innermost_only` (遍历): a pass that ends with 继续循环 is a complete pass; the loop goes on with the
next element and the next index. -/
theorem continue_innermost_only_iterate (n nameLen i : Nat) (slots : Option String × Option String)
    (body : Option (List Stmt)) (x : Addr) (xs : List Addr) (s s1 s2 : VM ν)
    (hbind : iterBind n nameLen slots s.heap.size x (pushCell (.num (NumOps.ofInt ((i : Int) + 1))) s) = (.ok (), s1))
    (hb : evalPureStmtBlock n body s1 = (.err .sigContinue, s2)) :
    ListPasses n nameLen slots body i [x] s s2 ∧
    untilIdxM (iterListStep n nameLen slots body) i (x :: xs) s =
      untilIdxM (iterListStep n nameLen slots body) (i+1) xs s2 := by
  have hp : ListPasses n nameLen slots body i [x] s s2 := .cons hbind hb rfl (.nil _ _)
  exact ⟨hp, by simpa using untilIdxM_passes hp xs⟩

example : ∃ s2, ListPasses 4 0 (none, none) (some [.continue 0, .nil]) 0 [0] (pushCell (.str "a") vm0) s2 :=
  ⟨_, (continue_innermost_only_iterate 4 0 0 (none, none) (some [.continue 0, .nil]) 0 [] (pushCell (.str "a") vm0) _ _
    (run_ok (iterBind 4 0 _ _ _) _ K) (run_err (evalPureStmtBlock 4 _) _ _ K)).1⟩

/-! ## 3. 遍历: order, indices, copies -/

/-- `iterate_list_order_and_index`.  遍历 over a list cell `items` (read once, when the loop starts): if the
passes for `items` — taken in order, the pass at 0-based position i receiving a fresh number cell holding i+1
as its key (`ListPasses`) — are all complete, the statement is `ok` with value 空 in the state after the last
pass, the loop's scope ended.  Together with `return_stops_iterate_list` / `break_innermost_only_iterate_list`
(first incomplete pass) this fixes the visiting order and the 1-based indices for every outcome. -/
theorem iterate_list_order_and_index (n ln : Nat) (e : Expr) (names : List Ident) (body : Option (List Stmt))
    (s s1 s2 s3 : VM ν) (target : Addr) (slots : Option String × Option String) (items : List Addr)
    (hT : evalExpr n e (enterScope (setLine ln s)) = (.ok target, s1))
    (hS : iterSlots names s1 = (.ok slots, s2))
    (hcell : s2.heap[target]? = some (.arr items))
    (hp : ListPasses n names.length slots body 0 items s2 s3) :
    evalStmt (n+1) (.iterate ln e names body) s = newNull (leaveScope (scopeHandle (setLine ln s)) s3) := by
  refine iterate_list_ok hT hS hcell ?_
  have := untilIdxM_passes hp []
  simpa [untilIdxM_nil] using this

/-- `遍历 ["a","b"] 以 k，v： （空语句）`: two complete passes with keys 1, 2 -/
example : ∃ s3, evalStmt 7 (.iterate 0 ab [kId, vId] (some [.empty 0])) vm0 = newNull s3 :=
  ⟨_, iterate_list_order_and_index 6 0 ab [kId, vId] (some [.empty 0]) vm0 _ _ _ _ _ [0, 1]
    (run_ok (evalExpr 6 ab) _ K) (run_ok (iterSlots [kId, vId]) _ K) (cell_arr _ [0, 1] K)
    (.cons (run_ok (iterBind 6 2 _ _ _) _ K) (run_ok (evalPureStmtBlock 6 _) _ K) K
      (.cons (run_ok (iterBind 6 2 _ _ _) _ K) (run_ok (evalPureStmtBlock 6 _) _ K) K (.nil _ _)))⟩

/-- `iterate_dict_insertion_order`.  遍历 over a dictionary cell `.hm vals order`: the passes follow `order` (the
insertion order kept by the cell, see C12), each key as a fresh text cell, the value looked up at the time of the pass. -/
theorem iterate_dict_insertion_order (n ln : Nat) (e : Expr) (names : List Ident) (body : Option (List Stmt))
    (s s1 s2 s3 : VM ν) (target : Addr) (slots : Option String × Option String)
    (vals : List (String × Addr)) (order : List String)
    (hT : evalExpr n e (enterScope (setLine ln s)) = (.ok target, s1))
    (hS : iterSlots names s1 = (.ok slots, s2))
    (hcell : s2.heap[target]? = some (.hm vals order))
    (hp : DictPasses n names.length slots body target order s2 s3) :
    evalStmt (n+1) (.iterate ln e names body) s = newNull (leaveScope (scopeHandle (setLine ln s)) s3) := by
  refine iterate_dict_ok hT hS hcell ?_
  have := untilM_passes hp []
  simpa [untilM_nil] using this

example : ∃ s3, evalStmt 7 (.iterate 0 pq [kId, vId] (some [.empty 0])) vm0 = newNull s3 :=
  ⟨_, iterate_dict_insertion_order 6 0 pq [kId, vId] (some [.empty 0]) vm0 _ _ _ _ _ _ _
    (run_ok (evalExpr 6 pq) _ K) (run_ok (iterSlots [kId, vId]) _ K)
    (cell_hm _ [("p", 0), ("q", 1)] ["p", "q"] K)
    (.cons (cell_hm _ [("p", 0), ("q", 1)] ["p", "q"] K) (v := 0) K
      (run_ok (iterBind 6 2 _ _ _) _ K) (run_ok (evalPureStmtBlock 6 _) _ K) K
      (.cons (cell_hm _ [("p", 0), ("q", 1)] ["p", "q"] K) (v := 1) K
        (run_ok (iterBind 6 2 _ _ _) _ K) (run_ok (evalPureStmtBlock 6 _) _ K) K (.nil _)))⟩

/-- a key that is gone when its turn comes is skipped (`DictPasses.skip`): order `p, q`, values `[p = "a"]` — one
pass for `p`, none for `q`, the loop ends normally -/
example : ∃ s3, evalStmt 7 (.iterate 0 (.id dId) [] (some [.empty 0])) vmGone = newNull s3 :=
  ⟨_, iterate_dict_insertion_order 6 0 (.id dId) [] (some [.empty 0]) vmGone _ _ _ 1 _ [("p", 0)] ["p", "q"]
    (run_ok (evalExpr 6 (.id dId)) _ K) (run_ok (iterSlots []) _ K)
    (cell_hm _ [("p", 0)] ["p", "q"] K)
    (.cons (cell_hm _ [("p", 0)] ["p", "q"] K) (v := 0) K
      (run_ok (iterBind 6 0 _ _ _) _ K) (run_ok (evalPureStmtBlock 6 _) _ K) K
      (.skip (cell_hm _ [("p", 0)] ["p", "q"] K) K (.nil _)))⟩

/-- 遍历 over anything but a list or a dictionary is error 80 -/
theorem iterate_non_collection_is_error (n ln : Nat) (e : Expr) (names : List Ident) (body : Option (List Stmt))
    (s s1 s2 : VM ν) (target : Addr) (slots : Option String × Option String) (cell : Cell ν)
    (hT : evalExpr n e (enterScope (setLine ln s)) = (.ok target, s1))
    (hS : iterSlots names s1 = (.ok slots, s2))
    (hcell : s2.heap[target]? = some cell) (hna : ∀ xs, cell ≠ .arr xs) (hnh : ∀ v o, cell ≠ .hm v o) :
    evalStmt (n+1) (.iterate ln e names body) s = (.err (.rt 80), leaveScope (scopeHandle (setLine ln s)) s2) := by
  rw [evalStmt_iterate]
  have hg : getCell target s2 = (.ok cell, s2) := by simp [getCell, hcell]
  have : withScope (do
            let target ← evalExpr n e
            let slots ← iterSlots names
            iterLoop n names.length slots body target) (setLine ln s) =
         (.err (.rt 80), leaveScope (scopeHandle (setLine ln s)) s2) := by
    apply withScope_of
    rw [bind_ok hT, bind_ok hS]
    unfold iterLoop
    rw [bind_ok hg]
    cases cell <;> simp_all [rtErr, throwE]
  rw [bind_err this]

example : ∃ s', evalStmt 7 (.iterate 0 (.str 0 "x") [] (some [.nil])) vm0 = (.err (.rt 80), s') :=
  ⟨_, iterate_non_collection_is_error 6 0 (.str 0 "x") [] (some [.nil]) vm0 _ _ _ _ (.str "x")
    (run_ok (evalExpr 6 _) _ K) (run_ok (iterSlots []) _ K) (cell_str _ "x" K)
    (by intro xs h; cases h) (by intro v o h; cases h)⟩

/-- `iterate_binds_copy`.  What a pass binds: with one loop variable `vn`, the variable is set to a *copy* (`dup`,
value.DuplicateValue) of the element; with two, the first is set to the key cell and the second to the copy; with
none nothing is bound (the copy is still made).  `iterSlots` yields exactly these shapes (`iterSlots_shape`). -/
theorem iterate_binds_copy (n : Nat) (kn vn : String) (key v : Addr) :
    (iterBind n 1 (none, some vn) key v : M ν Unit) = (do let v' ← dup n v; setElement vn v') ∧
    (iterBind n 2 (some kn, some vn) key v : M ν Unit) = (do let v' ← dup n v; setElement kn key; setElement vn v') ∧
    (iterBind n 0 (none, none) key v : M ν Unit) = (do let _ ← dup n v; pure ()) :=
  ⟨rfl, rfl, rfl⟩

theorem iterSlots_shape (names : List Ident) (s s' : VM ν) (slots : Option String × Option String)
    (h : iterSlots names s = (.ok slots, s')) :
    (names.length = 0 ∧ slots = (none, none)) ∨ (names.length = 1 ∧ ∃ vn, slots = (none, some vn)) ∨
    (names.length = 2 ∧ ∃ kn vn, slots = (some kn, some vn)) := by
  rcases names with _ | ⟨v, _ | ⟨k, _ | ⟨w, rest⟩⟩⟩
  · simp [iterSlots, pure] at h; exact .inl ⟨rfl, h.1.symm⟩
  · refine .inr (.inl ⟨rfl, ?_⟩)
    simp only [iterSlots, bind] at h
    repeat (split at h <;> try (simp at h; done))
    simp [pure] at h; exact ⟨_, h.1.symm⟩
  · refine .inr (.inr ⟨rfl, ?_⟩)
    simp only [iterSlots, bind] at h
    repeat (split at h <;> try (simp at h; done))
    simp [pure] at h; exact ⟨_, _, h.1.symm⟩
  · simp [iterSlots, rtErr, throwE] at h

example : ∃ slots s', iterSlots [vId] vm0 = (.ok slots, s') := ⟨_, _, run_ok (iterSlots [vId]) vm0 K⟩

/-! ## 1 (continued). 输出 from any nesting depth -/

/-- `return_stops_everything`.  `RetPath n nd s rv sr s'` (Proofs/ControlFlow) describes, for a statement or a block
`nd`, a path from its beginning into a `输出` nested at *any* depth inside blocks, 如果/再如/否则 alternatives,
每当 loops and 遍历 loops over lists and dictionaries: before the path only statements that end normally with
the slot empty, conditions that are 假, complete loop passes; `sr` is the machine right after the 输出 statement.
Whatever stands after the path — the later statements of every block on it, the later alternatives, every
remaining loop pass or element — is arbitrary and not evaluated:
* the construct ends `ok`, a block with the value `rv` of the 输出;
* the return slot still holds `rv` at the end (so the same holds for whatever contains `nd`);
* `Quiet sr s'`: between the 输出 and the end nothing is displayed (the trace at the end is the trace right after
  the 输出), the call stack and the globals are untouched, no existing heap cell is written — the heap only grows
  by the 空 cells that the finished constructs yield; blocks on the way out end their scopes (the index of `RetPath`).
Covers: nesting inside one method body / the program.  Not covered here: 输出 inside a method called from an
expression (that is the callee's frame: C08) and inside exception handlers (C09). -/
theorem return_stops_everything {n : Nat} {nd : Node} {s sr s' : VM ν} {rv : Addr}
    (h : RetPath n nd s rv sr s') :
    retSlot s' = some rv ∧ Quiet sr s' ∧
    (∀ st, nd = .stmt st → ∃ v, evalStmt n st s = (.ok v, s')) ∧
    (∀ b, nd = .block b → evalPureStmtBlock n b s = (.ok (some rv), s')) := by
  induction h with
  | ret he hst =>
    refine ⟨by simp [retSlot], Quiet.refl _, ?_, by intro b hb; cases hb⟩
    intro st hst'; cases hst'; exact ⟨_, evalStmt_ret_ok he hst⟩
  | @block n pre post st s s1 sr s2 last rv hpre hnd _ ih =>
    obtain ⟨hr, ho, hs, -⟩ := ih
    obtain ⟨v, hv⟩ := hs st rfl
    refine ⟨by rw [retSlot_leaveScope]; exact hr, ho.leaveScope _, (by intro st' h'; cases h'), ?_⟩
    intro b hb; cases hb
    exact (return_propagates_block n pre post st s s1 s2 last v rv hpre hnd hv hr).1
  | @branchIf n ln c ifB elseB others he s s1 sr s2 a rv hc ht _ ih =>
    obtain ⟨hr, ho, -, hb⟩ := ih
    refine ⟨hr, ho.newNull, ?_, by intro b h'; cases h'⟩
    intro st h'; cases h'
    exact ⟨_, by rw [branch_runs_if_block n ln c ifB elseB others he s s1 a hc ht]; exact bind_ok (hb _ rfl)⟩
  | @branchOther n ln c oc ifB elseB ob pre post he s s1 s2 s3 sr s4 a b rv hc hf hpre hoc hot _ ih =>
    obtain ⟨hr, ho, -, hb⟩ := ih
    refine ⟨hr, ho.newNull, ?_, by intro b h'; cases h'⟩
    intro st h'; cases h'
    exact ⟨_, by
      rw [branch_runs_first_true_other n ln c oc ifB elseB ob pre post he s s1 s2 s3 a b hc hf hpre hoc hot]
      exact bind_ok (hb _ rfl)⟩
  | @branchElse n ln c ifB elseB others s s1 s2 sr s3 a rv hc hf hall _ ih =>
    obtain ⟨hr, ho, -, hb⟩ := ih
    refine ⟨hr, ho.newNull, ?_, by intro b h'; cases h'⟩
    intro st h'; cases h'
    exact ⟨_, by rw [branch_runs_else n ln c ifB elseB others s s1 s2 a hc hf hall]; exact bind_ok (hb _ rfl)⟩
  | @«while» n ln k c body s s1 s2 sr s3 a rv hp hk hc ht _ ih =>
    obtain ⟨hr, ho, -, hb⟩ := ih
    refine ⟨hr, ho.newNull, ?_, by intro b h'; cases h'⟩
    intro st h'; cases h'
    exact ⟨_, (return_stops_while n ln k c body s s1 s2 s3 a rv _ hp hk hc ht (hb _ rfl) hr).1⟩
  | @iterList n ln e names body s s1 s2 s3 s4 sr s5 target x rv slots pre post hT hS hcell hp hbind _ ih =>
    obtain ⟨hr, ho, -, hb⟩ := ih
    refine ⟨by rw [retSlot_newNull, retSlot_leaveScope]; exact hr, (ho.leaveScope _).newNull,
      ?_, by intro b h'; cases h'⟩
    intro st h'; cases h'
    exact ⟨_, (return_stops_iterate_list n ln e names body s s1 s2 s3 s4 s5 target x rv _ slots pre post
      hT hS hcell hp hbind (hb _ rfl) hr).1⟩
  | @iterDict n ln e names body s s1 s2 s3 s4 sr s5 target v rv slots vals vals' ord' pre post k
      hT hS hcell hp hcell' hl hbind _ ih =>
    obtain ⟨hr, ho, -, hb⟩ := ih
    refine ⟨by rw [retSlot_newNull, retSlot_leaveScope]; exact hr, (ho.leaveScope _).newNull,
      ?_, by intro b h'; cases h'⟩
    intro st h'; cases h'
    exact ⟨_, (return_stops_iterate_dict n ln e names body s s1 s2 s3 s4 s5 target v rv _ slots vals vals' ord' pre post k
      hT hS hcell hp hcell' hl hbind (hb _ rfl) hr).1⟩

/-- the two readings of `return_stops_everything`: for a block … -/
theorem return_stops_everything_block {n : Nat} {b : Option (List Stmt)} {s sr s' : VM ν} {rv : Addr}
    (h : RetPath n (.block b) s rv sr s') :
    evalPureStmtBlock n b s = (.ok (some rv), s') ∧ ReturnSet s' ∧ Quiet sr s' :=
  have h' := return_stops_everything h
  ⟨h'.2.2.2 b rfl, (returnSet_iff _).2 ⟨rv, h'.1⟩, h'.2.1⟩

/-- … and for a statement -/
theorem return_stops_everything_stmt {n : Nat} {st : Stmt} {s sr s' : VM ν} {rv : Addr}
    (h : RetPath n (.stmt st) s rv sr s') :
    (∃ v, evalStmt n st s = (.ok v, s')) ∧ ReturnSet s' ∧ Quiet sr s' :=
  have h' := return_stops_everything h
  ⟨h'.2.2.1 st rfl, (returnSet_iff _).2 ⟨rv, h'.1⟩, h'.2.1⟩

/-- 输出 four constructs deep, a nil statement (Go panic if reached) after every construct on the way:
`（空）； 每当 真：｛ 如果 真：｛ 遍历 ["a","b"]：｛ 输出 "x"； ‹nil› ｝ ‹nil› ｝ ‹nil› ｝ ‹nil›` -/
example : ∃ rv, ∃ sr s' : VM Int,
    evalPureStmtBlock 9 (some nested) vm0 = (.ok (some rv), s') ∧ ReturnSet s' ∧ Quiet sr s' := by
  apply Exists.intro; apply Exists.intro; apply Exists.intro
  apply return_stops_everything_block
  apply RetPath.block (pre := [.empty 0]) (post := [.nil])
  · exact .stmt rfl (run_ok (evalStmt 8 _) _ K) K (.nil _ _)
  · rfl
  apply RetPath.while (k := 0) (.zero _) (by decide)
  · exact run_ok (evalExpr 7 cTrue) _ K
  · exact cell_bool _ true K
  apply RetPath.block (pre := []) (post := [.nil]) (.nil _ _) rfl
  apply RetPath.branchIf
  · exact run_ok (evalExpr 5 cTrue) _ K
  · exact cell_bool _ true K
  apply RetPath.block (pre := []) (post := [.nil]) (.nil _ _) rfl
  apply RetPath.iterList (pre := []) (post := [8])
  · exact run_ok (evalExpr 3 ab) _ K
  · exact run_ok (iterSlots []) _ K
  · exact cell_arr _ [7, 8] K
  · exact .nil _ _
  · exact run_ok (iterBind 3 0 _ _ _) _ K
  apply RetPath.block (pre := []) (post := [.nil]) (.nil _ _) rfl
  exact RetPath.ret (fr := { moduleId := 0, callType := 1, started := true }) (rest := []) (run_ok (evalExpr 1 _) _ K) K

/-- the full statement of the converse of `return_stops_everything` (proved below: `return_path_complete`):
`RetPath` describes *every* way in which a block can end `ok` with the slot newly set, i.e. only a 输出 statement of
the block (at some depth) sets the slot of the frame the block runs in. -/
def return_path_complete_full : Prop :=
  ∀ (ν : Type) [NumOps ν] (n : Nat) (b : Option (List Stmt)) (s s' : VM ν) (r : Option Addr) (rv : Addr),
    retSlot s = none → evalPureStmtBlock n b s = (.ok r, s') → retSlot s' = some rv →
    ∃ sr, RetPath n (.block b) s rv sr s'

/-- `expression_keeps_caller_frame` — the frame discipline the converse rests on (Proofs/RetKeep `allKeep`, on top
of the whole-evaluator stack induction `allBal` of Proofs/StackBalBlock).  An expression that ends normally — whatever
it calls: methods, object methods, constructors, bodies with 拦截 handlers, 输出 inside all of them — leaves the call
stack it started from: same depth, the frames below the top one literally the same, and the top frame the same up to
its line marker; in particular the return slot of the frame the expression is evaluated in is untouched (a call pushes
one frame and a normal end has popped exactly that one; a handler runs in a frame of its own).  And an expression never
ends with a loop signal. -/
theorem expression_keeps_caller_frame (n : Nat) (e : Expr) (s s' : VM ν) (r : Res Addr)
    (h : evalExpr n e s = (r, s')) :
    (∀ a, r = .ok a → retSlot s' = retSlot s ∧ s'.stack.length = s.stack.length ∧ s'.stack.tail = s.stack.tail ∧
      (s'.stack.head?.map fun fr => (fr.moduleId, fr.callType, fr.this, fr.ret)) =
        (s.stack.head?.map fun fr => (fr.moduleId, fr.callType, fr.this, fr.ret))) ∧
    r ≠ .err .sigBreak ∧ r ≠ .err .sigContinue := by
  have hk := (ZnVerif.Proofs.RetKeep.allKeep (ν := ν) n).evalExpr e
  have h1 := hk.same s; have h2 := hk.nosig s
  rw [h] at h1 h2
  refine ⟨fun a ha => ?_, fun hr => (by subst hr; cases h2), fun hr => (by subst hr; cases h2)⟩
  subst ha
  have hs := h1 rfl
  refine ⟨(ZnVerif.Proofs.RetPathComplete.keep_run hk h).1 rfl, hs.length_eq, hs.tail_eq, ?_⟩
  rcases (ZnVerif.Proofs.RetKeep.sameL_iff _ _).1 hs with ⟨e1, e2⟩ | ⟨f, f', rest, e1, e2, q1, q2, q3, q4⟩
  · rw [e1, e2]
  · rw [e1, e2]; simp [q1, q2, q3, q4]

/-- `f` is defined as `如何f？ 输出 "x"`; the statement `（f）` is then run in the script frame: the callee's 输出 does
not reach the caller's slot (it is still empty), the stack is the caller's -/
example : ∃ a s', evalExpr 8 (.call 0 (some ⟨0, "f"⟩) [] none) withRetF = (.ok a, s') ∧ retSlot withRetF = none ∧
    retSlot s' = none ∧ s'.stack.length = 1 ∧ s'.heap[a]? = some (.str "x") := by
  have h := run_ok (evalExpr 8 (.call 0 (some ⟨0, "f"⟩) [] none)) withRetF K
  obtain ⟨h1, h2, -⟩ := (expression_keeps_caller_frame 8 _ withRetF _ _ h).1 _ rfl
  have h0 : retSlot withRetF = none := K
  exact ⟨_, _, h, h0, by rw [h1]; exact h0, by rw [h2]; exact K, cell_str _ "x" K⟩

/-- `return_path_complete` — the converse of `return_stops_everything`, for every fuel, block and machine state:
a block that starts with the return slot of its frame empty and ends normally with the slot holding `rv` has run along
a `RetPath`: through statements that ended normally with the slot empty, 假 conditions and complete loop passes into a
输出 statement of the block itself (nested at some depth in blocks, 如果/再如/否则 alternatives, 每当 and 遍历 passes) that
stored `rv`; `sr` is the machine right after that 输出.  Hence *only* a 输出 statement of the block sets the slot of the
frame the block runs in — no expression does (`expression_keeps_caller_frame`: calls, constructors and handlers work
in frames of their own), no declaration, no 抛出, no loop bookkeeping.  No side condition on the state is needed: with an
empty call stack the slot reads as empty at the end as well (a 输出 there stores nothing), so the hypothesis
`retSlot s' = some rv` already excludes it. -/
theorem return_path_complete : return_path_complete_full := by
  intro ν _ n b s s' r rv h0 h hrv
  exact ((ZnVerif.Proofs.RetPathComplete.complete (ν := ν) n).2 b s s' (.ok r) h0 h).1 rfl rv hrv

/-- the program `nested` (输出 "x" below 每当 / 如果 / 遍历, a Go-panic statement after every construct on the way) is run
by the kernel; from the two facts "ended normally" and "the slot is set" the theorem reconstructs the path -/
example : ∃ rv, ∃ sr s' : VM Int, RetPath 9 (.block (some nested)) vm0 rv sr s' := by
  have h := run_ok (evalPureStmtBlock 9 (some nested)) vm0 K
  obtain ⟨sr, hp⟩ := return_path_complete Int 9 (some nested) vm0 _ _ _ K h (slot_set _ K)
  exact ⟨_, sr, _, hp⟩

/-- the degenerate machine without any frame: 输出 stores nothing, the slot reads as empty afterwards — the
hypothesis `retSlot s' = some rv` of `return_path_complete` cannot hold there, no side condition is needed -/
example : ∃ r s', evalPureStmtBlock 4 (some [retX]) { vm0 with stack := [] } = (.ok r, s') ∧ retSlot s' = none :=
  ⟨_, _, run_ok (evalPureStmtBlock 4 _) _ K, K⟩

/-- … and the same for a single statement (a 如果, a 每当, a 遍历, a 输出 …): if it ends normally with the slot newly
set, it ran along a `RetPath`. -/
theorem return_path_complete_stmt (n : Nat) (st : Stmt) (s s' : VM ν) (v rv : Addr)
    (h0 : retSlot s = none) (h : evalStmt n st s = (.ok v, s')) (hrv : retSlot s' = some rv) :
    ∃ sr, RetPath n (.stmt st) s rv sr s' :=
  ((ZnVerif.Proofs.RetPathComplete.complete (ν := ν) n).1 st s s' (.ok v) h0 h).1 rfl rv hrv

example : ∃ rv, ∃ sr s' : VM Int, RetPath 7 (.stmt (.while 0 cTrue (some retSecondTime))) vm1 rv sr s' := by
  have h := run_ok (evalStmt 7 (.while 0 cTrue (some retSecondTime))) vm1 K
  obtain ⟨sr, hp⟩ := return_path_complete_stmt 7 _ vm1 _ _ _ K h (slot_set _ K)
  exact ⟨_, sr, _, hp⟩

/-- `return_iff_path`: the two directions together.  From a state with the slot empty, "the block ends normally with
the slot holding `rv`" and "there is a path into a 输出 of the block that stores `rv`" are the same thing; and then the
value of the block is `rv`. -/
theorem return_iff_path (n : Nat) (b : Option (List Stmt)) (s s' : VM ν) (rv : Addr) (h0 : retSlot s = none) :
    ((∃ r, evalPureStmtBlock n b s = (.ok r, s')) ∧ retSlot s' = some rv) ↔ ∃ sr, RetPath n (.block b) s rv sr s' := by
  constructor
  · rintro ⟨⟨r, h⟩, hrv⟩
    exact return_path_complete ν n b s s' r rv h0 h hrv
  · rintro ⟨sr, hp⟩
    have h' := return_stops_everything hp
    exact ⟨⟨_, h'.2.2.2 b rfl⟩, h'.1⟩

example : ∃ rv, ∃ s' : VM Int, ((∃ r, evalPureStmtBlock 9 (some nested) vm0 = (.ok r, s')) ∧ retSlot s' = some rv) ∧
    ∃ sr, RetPath 9 (.block (some nested)) vm0 rv sr s' := by
  have h := run_ok (evalPureStmtBlock 9 (some nested)) vm0 K
  have hs := slot_set (evalPureStmtBlock 9 (some nested) vm0).2 K
  exact ⟨_, _, ⟨⟨_, h⟩, hs⟩, (return_iff_path 9 (some nested) vm0 _ _ K).1 ⟨⟨_, h⟩, hs⟩⟩

/-- `loop_signal_leaves_slot_empty`: the companion fact of the induction.  A block (or statement) that starts with the
slot empty and ends with 结束循环 / 继续循环 leaves the slot empty: so every pass of the loop that catches the signal
starts with the slot empty, like the first one. -/
theorem loop_signal_leaves_slot_empty (n : Nat) (b : Option (List Stmt)) (s s' : VM ν) (e : Err)
    (h0 : retSlot s = none) (h : evalPureStmtBlock n b s = (.err e, s')) (he : e = .sigBreak ∨ e = .sigContinue) :
    retSlot s' = none := by
  refine ((ZnVerif.Proofs.RetPathComplete.complete (ν := ν) n).2 b s s' (.err e) h0 h).2 ?_
  rcases he with rfl | rfl <;> rfl

example : ∃ s' : VM Int, evalPureStmtBlock 4 (some [.empty 0, .continue 0, .nil]) vm0 = (.err .sigContinue, s') ∧
    retSlot s' = none :=
  ⟨_, run_err (evalPureStmtBlock 4 _) _ _ K,
    loop_signal_leaves_slot_empty 4 _ vm0 _ _ K (run_err (evalPureStmtBlock 4 _) _ _ K) (.inr rfl)⟩

/-! ## 5. the value of a body -/

/-- `输出 ends the enclosing method body (or the whole program)`.  A body (`evalExecBlock`: the program, a method, a
constructor) whose statement block ends with the slot holding `rv` — by `return_stops_everything`, a 输出 at any
depth — yields `rv`; the state is the one the block left, with the body's scope ended.  (`hpre`: binding of 此
and of the inputs succeeded; `hh`: the hoisted definitions were executed.) -/
theorem return_ends_body (n : Nat) (inputs : List Ident) (stmts : List Stmt)
    (catches : List (Option Ident × Option (List Stmt))) (params : List Addr) (s s1 s2 s3 : VM ν) (rv : Addr)
    (hpre : execPrelude inputs params (enterScope s) = (.ok (), s1))
    (hh : hoistDecls n stmts s1 = (.ok (), s2))
    (hb : evalPureStmtBlock n (some stmts) s2 = (.ok (some rv), s3)) :
    evalExecBlock (n+2) (some (.mk inputs (some stmts) catches)) params s = (.ok rv, leaveScope (scopeHandle s) s3) := by
  rw [evalExecBlock_eq]
  apply withScope_of
  show (getVM >>= _) (enterScope s) = _
  rw [bind_ok (rfl : getVM (enterScope s) = (.ok (enterScope s), enterScope s)), bind_ok hpre]
  have : evalStmtBlock (n+1) (some stmts) s1 = (.ok (some rv), s3) := by
    rw [evalStmtBlock_eq, bind_ok hh]; exact hb
  simp [Model.tryCatch, this, execFinish, pure]

/-- the program `nested` (输出 "x" four constructs deep) as the body of the main program: its value is that "x" -/
example : ∃ rv s', evalExecBlock 11 (some (.mk [] (some nested) [])) [] vm0 = (.ok rv, s') ∧ s'.heap[rv]? = some (.str "x") :=
  ⟨_, _, return_ends_body 9 [] nested [] [] vm0 _ _ _ _
    (run_ok (execPrelude [] []) _ K) (run_ok (hoistDecls 9 nested) _ K) (run_ok_some (evalPureStmtBlock 9 _) _ K),
    cell_str _ "x" K⟩

/-- … and for the whole program (no inputs, no imports): `runProgram` = allocate 主模块, push the script frame
(`programStart`), run the body with `evalExecBlock`, pop the frame; so the value of the program is the value of
its body — `rv` of a 输出 at any depth (`return_ends_body`), else the final expression (`final_expression_value`). -/
theorem program_value_is_body_value (fuel : Nat) (body : Option (List Stmt))
    (catches : List (Option Ident × Option (List Stmt))) (inputs : List (String × Cell ν)) (s s2 : VM ν) (v : Addr)
    (fr : Frame) (rest : List Frame)
    (hb : evalExecBlock fuel (some (.mk [] body catches)) [] (programStart s) = (.ok v, s2))
    (hst : s2.stack = fr :: rest) :
    ∃ s3, runProgram fuel ⟨[], some (.mk [] body catches)⟩ inputs s = (.ok v, s3) ∧ s3.out = s2.out ∧ s3.heap = s2.heap := by
  rw [runProgram_eq, bind_ok hb]
  simp [bind, popFrame, hst, pure]

/-- the program `nested`: its result is the text "x" of the 输出 four constructs deep -/
example : ∃ v s3, runProgram 11 ⟨[], some (.mk [] (some nested) [])⟩ [] (initVM (ν := Int) ()) = (.ok v, s3) ∧
    s3.heap[v]? = some (.str "x") := by
  obtain ⟨s3, h, -, hh⟩ := program_value_is_body_value 11 (some nested) [] [] (initVM (ν := Int) ()) _ _ _ _
    (run_ok (evalExecBlock 11 _ _) _ K) (stack_cons _ K)
  exact ⟨_, s3, h, by rw [hh]; exact cell_str _ "x" K⟩

/-- `final_expression_value`.  A body none of whose statements leaves the return slot set (`Steps`: no 输出 was
executed) runs all of them; its value is the value of the last statement that is not a definition
(`pre ++ st :: ds` with `ds` definitions only) … -/
theorem final_expression_value (n : Nat) (inputs : List Ident) (pre ds : List Stmt) (st : Stmt)
    (catches : List (Option Ident × Option (List Stmt))) (params : List Addr) (s s1 s2 s3 s4 : VM ν)
    (last : Option Addr) (v : Addr)
    (hpre : execPrelude inputs params (enterScope s) = (.ok (), s1))
    (hh : hoistDecls (n+1) (pre ++ st :: ds) s1 = (.ok (), s2))
    (hsteps : Steps (evalStmt n) none pre (enterScope s2) last s3)
    (hnd : isDecl st = false) (hds : ∀ d ∈ ds, isDecl d = true)
    (hst : evalStmt n st s3 = (.ok v, s4)) (hempty : retSlot s4 = none) :
    evalExecBlock (n+3) (some (.mk inputs (some (pre ++ st :: ds)) catches)) params s =
      (.ok v, leaveScope (scopeHandle s) (leaveScope (scopeHandle s2) s4)) := by
  rw [evalExecBlock_eq]
  apply withScope_of
  show (getVM >>= _) (enterScope s) = _
  rw [bind_ok (rfl : getVM (enterScope s) = (.ok (enterScope s), enterScope s)), bind_ok hpre]
  have hall : Steps (evalStmt n) none (pre ++ st :: ds) (enterScope s2) (some v) s4 :=
    hsteps.append (.stmt hnd hst hempty (Steps.decls _ ds s4 hds hempty))
  have : evalStmtBlock (n+2) (some (pre ++ st :: ds)) s1 = (.ok (some v), leaveScope (scopeHandle s2) s4) := by
    rw [evalStmtBlock_eq, bind_ok hh]
    exact block_runs_to_end n _ s2 s4 _ hall
  simp [Model.tryCatch, this, execFinish, pure]

/-- `（空）； "x"； 如何f？…` : the value of the body is the text "x" (the definition after it does not count) -/
example : ∃ v s', evalExecBlock 6 (some (.mk [] (some ([.empty 0] ++ .expr (.str 0 "x") :: [fDecl])) [])) [] vm0 = (.ok v, s') ∧
    s'.heap[v]? = some (.str "x") :=
  ⟨_, _, final_expression_value 3 [] [.empty 0] [fDecl] (.expr (.str 0 "x")) [] [] vm0 _ _ _ _ _ _
    (run_ok (execPrelude [] []) _ K) (run_ok (hoistDecls 4 _) _ K)
    (.stmt rfl (run_ok (evalStmt 3 _) _ K) K (.nil _ _)) rfl (by intro d hd; simp at hd; subst hd; rfl)
    (run_ok (evalStmt 3 _) _ K) K, cell_str _ "x" K⟩

/-- … and 空 when there is no such statement (an empty body, or definitions only): a fresh 空 cell, allocated
after the block's scope was ended. -/
theorem final_expression_value_empty (n : Nat) (inputs : List Ident) (ds : List Stmt)
    (catches : List (Option Ident × Option (List Stmt))) (params : List Addr) (s s1 s2 : VM ν)
    (hpre : execPrelude inputs params (enterScope s) = (.ok (), s1))
    (hh : hoistDecls (n+1) ds s1 = (.ok (), s2))
    (hds : ∀ d ∈ ds, isDecl d = true) (hempty : retSlot s2 = none) :
    evalExecBlock (n+3) (some (.mk inputs (some ds) catches)) params s =
      (.ok s2.heap.size,
       leaveScope (scopeHandle s) (newNull (leaveScope (scopeHandle s2) (enterScope s2))).2) := by
  rw [evalExecBlock_eq]
  apply withScope_of
  show (getVM >>= _) (enterScope s) = _
  rw [bind_ok (rfl : getVM (enterScope s) = (.ok (enterScope s), enterScope s)), bind_ok hpre]
  have hall : Steps (evalStmt n) none ds (enterScope s2) none (enterScope s2) :=
    Steps.decls _ ds _ hds (by rw [retSlot_enterScope]; exact hempty)
  have : evalStmtBlock (n+2) (some ds) s1 = (.ok none, leaveScope (scopeHandle s2) (enterScope s2)) := by
    rw [evalStmtBlock_eq, bind_ok hh]
    exact block_runs_to_end n _ s2 _ _ hall
  simp [Model.tryCatch, this, execFinish, newNull_eq, leaveScope_heap, enterScope_heap]

example : ∃ v s', evalExecBlock 6 (some (.mk [] (some [fDecl]) [])) [] vm0 = (.ok v, s') ∧ s'.heap[v]? = some .null :=
  ⟨_, _, final_expression_value_empty 3 [] [fDecl] [] [] vm0 _ _
    (run_ok (execPrelude [] []) _ K) (run_ok (hoistDecls 4 _) _ K) (by intro d hd; simp at hd; subst hd; rfl) K,
    cell_null _ K⟩

/-! ## 6. The spec semantics (`Spec/Sem.lean`) says the same, with outcomes instead of a slot

There 输出 is the outcome `.ret v`, 结束循环 `.brk`, 继续循环 `.cont`; sequencing is the bind of `SM`. -/

open ZnVerif.Proofs.ControlFlowSpec

/-- `spec_return_propagates` — the law of `SM`: whatever follows a computation that ended with `.ret v` is skipped -/
theorem spec_return_skips_continuation {α β} (m : Spec.SM ν α) (f : α → Spec.SM ν β) (s s' : Spec.SState ν)
    (v : Spec.SVal ν) (h : m s = (.ret v, s')) : (m >>= f) s = (.ret v, s') :=
  sbind_ret h

example : ((Spec.sfail (.ret .null) : Spec.SM Int Unit) >>= fun _ => Spec.sfail .unspecified) sp0 =
    ((.ret .null, sp0) : Spec.R Int Unit × _) :=
  spec_return_skips_continuation _ _ sp0 sp0 .null rfl

/-- `spec_return_propagates` on a statement list: once a statement ends with `.ret v`, the list ends with `.ret v`
in that very state; `post` is not executed. -/
theorem spec_return_propagates (n : Nat) (pre post : List Stmt) (st : Stmt) (s s1 s2 : Spec.SState ν)
    (v0 v : Spec.SVal ν)
    (hpre : SRuns n .null pre s v0 s1) (hst : Spec.execS n st s1 = (.ret v, s2)) :
    Spec.runStmts (n+1) (pre ++ st :: post) s = (.ret v, s2) := by
  simp only [Spec.runStmts]
  rw [foldlM_sruns hpre]
  simp [List.foldlM_cons, bind, hst]

example : ∃ v s2, Spec.runStmts 4 ([.empty 0] ++ retX :: [.nil]) sp0 = (.ret v, s2) :=
  ⟨_, _, spec_return_propagates 3 [.empty 0] [.nil] retX sp0 _ _ _ _ (.cons rfl (.nil _ _)) rfl⟩

/-- … through a nested block (its scope is closed on the way out) … -/
theorem spec_return_through_block (n : Nat) (stmts : List Stmt) (s s2 : Spec.SState ν) (v : Spec.SVal ν)
    (h : Spec.runStmts n (stmts.filter notDecl) { s with env := [] :: s.env } = (.ret v, s2)) :
    Spec.runBlock (n+1) (some stmts) s = (.ret v, { s2 with env := s2.env.drop 1 }) := by
  rw [runBlock_eq]
  simp [Spec.withBlock, bind, Spec.modS, Spec.catchR, h, Spec.sfail]

example : ∃ v s2, Spec.runBlock 5 (some [retX, .nil]) sp0 = (.ret v, s2) :=
  ⟨_, _, spec_return_through_block 4 [retX, .nil] sp0 _ _ rfl⟩

/-- … and out of a 每当 loop: no further test, no further pass. -/
theorem spec_return_stops_while (n ln k : Nat) (c : Expr) (body : Option (List Stmt)) (s s1 s2 s3 : Spec.SState ν)
    (v : Spec.SVal ν)
    (hp : SWhilePasses n c body k s s1) (hk : k < n)
    (hc : Spec.evalE n c s1 = (.ok (.bool true), s2)) (hb : Spec.runBlock n body s2 = (.ret v, s3)) :
    Spec.execS (n+1) (.while ln c body) s = (.ret v, s3) := by
  rw [execS_while]
  have := spec_while_after hp hk (specWhileStep_ret hc hb) (by intro h; cases h)
  exact sbind_ret this

example : ∃ v s3, Spec.execS 6 (.while 0 cTrue (some [retX, .nil])) sp0 = (.ret v, s3) :=
  ⟨_, _, spec_return_stops_while 5 0 0 cTrue (some [retX, .nil]) sp0 _ _ _ _ (.zero _) (by decide) rfl rfl⟩

/-- `spec_break_innermost`: `.brk` from the body is consumed by the loop whose body it is; that loop ends `ok`
(value 空), so nothing outside it ever sees the `.brk`. -/
theorem spec_break_innermost (n ln k : Nat) (c : Expr) (body : Option (List Stmt)) (s s1 s2 s3 : Spec.SState ν)
    (hp : SWhilePasses n c body k s s1) (hk : k < n)
    (hc : Spec.evalE n c s1 = (.ok (.bool true), s2)) (hb : Spec.runBlock n body s2 = (.brk, s3)) :
    Spec.execS (n+1) (.while ln c body) s = (.ok .null, s3) := by
  rw [execS_while]
  have := spec_while_after hp hk (specWhileStep_pass hc hb (b := false) rfl) (by intro h; cases h)
  rw [sbind_ok this]; rfl

example : ∃ s3, Spec.execS 6 (.while 0 cTrue (some [.break 0, .nil])) sp0 = (.ok .null, s3) :=
  ⟨_, spec_break_innermost 5 0 0 cTrue (some [.break 0, .nil]) sp0 _ _ _ (.zero _) (by decide) rfl rfl⟩

/-- `spec_while_retests`: after a pass that ended `ok` or with `.cont` the loop is at its beginning again — the next
thing it does is evaluate the condition (`specWhileStep` = test, then pass) — and it ends `ok` with 空 exactly when
that test gives 假. -/
theorem spec_while_retests (n ln k : Nat) (c : Expr) (body : Option (List Stmt)) (s s1 s2 : Spec.SState ν)
    (hp : SWhilePasses n c body k s s1) (hk : k < n) :
    (∀ j, Spec.whileS (k + j) (specWhileStep n c body) s = Spec.whileS j (specWhileStep n c body) s1) ∧
    (Spec.evalE n c s1 = (.ok (.bool false), s2) → Spec.execS (n+1) (.while ln c body) s = (.ok .null, s2)) := by
  refine ⟨whileS_passes hp, fun hc => ?_⟩
  rw [execS_while]
  have := spec_while_after hp hk (specWhileStep_false (body := body) hc) (by intro h; cases h)
  rw [sbind_ok this]; rfl

example : ∃ s2, Spec.execS 6 (.while 0 cFalse (some [.nil])) sp0 = (.ok .null, s2) :=
  ⟨_, (spec_while_retests 5 0 0 cFalse (some [.nil]) sp0 _ _ (.zero _) (by decide)).2 rfl⟩

/-! ## 7. Loop signals stay inside the body and the loop they belong to

(after the repairs 8b872eb / 0bac3b4 of `evalExecBlock`: `loopSignalToException`).  `Err.isLoopSignal e` = `e` is
`.sigBreak` or `.sigContinue`; `FreeSig e st` (Proofs/LoopSignalsStmt) = a 结束循环 (`e = .sigBreak`) resp. 继续循环
(`e = .sigContinue`) stands lexically in `st` outside every loop of `st`: `st` is that statement, or a 如果/再如/否则
statement one of whose blocks contains such a statement; `BlockFreeSig e b` = some statement of block `b` has it. -/

open ZnVerif.Proofs.LoopSignals

/-- `loop_signal_never_leaves_body`.  Whatever a method / constructor / program body does — 结束循环 or 继续循环
outside any loop of the body, in a 如果, in a 拦截 handler block, … — the outcome of `evalExecBlock` is never a
loop signal: every fuel, every body, every handler list, every state. -/
theorem loop_signal_never_leaves_body (n : Nat) (blk : Option ExecBlock) (params : List Addr) (s s' : VM ν) (e : Err)
    (h : evalExecBlock n blk params s = (.err e, s')) : e ≠ .sigBreak ∧ e ≠ .sigContinue := by
  have := (NoSig.evalExecBlock n blk params).out s e s' h
  constructor <;> rintro rfl <;> cases this

/-- a 结束循环 at the top of a body becomes an exception value returned as an error (here: cell 7), not a signal -/
example : errIs (evalExecBlock 5 (some (.mk [] (some [.break 0, .nil]) [])) [] (programStart (initVM (ν := Int) ()))).1
    (.excErr 7) = true := K
/-- … and so does a 继续循环 executed by the 拦截 handler block of the body (the case 0bac3b4 repaired) -/
example : errIs (evalExecBlock 8 (some handlerContinues) [] (programStart (initVM (ν := Int) ()))).1 (.excErr 10) = true := K
example : ∃ e s', evalExecBlock 8 (some handlerContinues) [] (programStart (initVM (ν := Int) ())) = (.err e, s') ∧
    e ≠ .sigBreak ∧ e ≠ .sigContinue := by
  have h := run_err (evalExecBlock 8 (some handlerContinues) []) (programStart (initVM (ν := Int) ())) (.excErr 10) K
  exact ⟨_, _, h, loop_signal_never_leaves_body _ _ _ _ _ _ h⟩

/-- no expression ever yields a loop signal: not a call `（f：…）`, not a method call, not 新建 (the constructor body),
not the arguments, not an l-value — whatever bodies they run (`loop_signal_never_leaves_body`) and whatever built-in
they reach. -/
theorem expression_never_yields_loop_signal (n : Nat) (ex : Expr) (s s' : VM ν) (e : Err)
    (h : evalExpr n ex s = (.err e, s')) : e ≠ .sigBreak ∧ e ≠ .sigContinue := by
  have := (NoSig.evalExpr n ex).out s e s' h
  constructor <;> rintro rfl <;> cases this

/-- `（f）` with no `f` defined: error 42, which the theorem says is not a loop signal -/
example : ∃ e s', evalExpr 4 (.call 0 (some ⟨0, "f"⟩) [] none) vm0 = (.err e, s') ∧ e ≠ .sigBreak ∧ e ≠ .sigContinue := by
  have h := run_err (evalExpr 4 (.call 0 (some ⟨0, "f"⟩) [] none)) vm0 (.rt 42) K
  exact ⟨_, _, h, expression_never_yields_loop_signal _ _ _ _ _ h⟩

/-- a loop statement never ends with a loop signal: the signals of its body are consumed by *it* (结束循环 / 继续循环
act on the innermost loop, none passes through to an outer one), everything else the body can raise is not one. -/
theorem loop_statement_never_signals (n ln : Nat) (c : Expr) (names : List Ident) (body : Option (List Stmt))
    (s s' : VM ν) (e : Err) :
    (evalStmt (n+1) (.while ln c body) s = (.err e, s') → e ≠ .sigBreak ∧ e ≠ .sigContinue) ∧
    (evalStmt (n+1) (.iterate ln c names body) s = (.err e, s') → e ≠ .sigBreak ∧ e ≠ .sigContinue) := by
  constructor <;> intro h
  · have := (NoSig.whileStmt n ln c body).out s e s' h
    constructor <;> rintro rfl <;> cases this
  · have := (NoSig.iterateStmt n ln c names body).out s e s' h
    constructor <;> rintro rfl <;> cases this

example : ∃ e s', evalStmt 7 (.while 0 (.str 0 "x") (some [.break 0])) vm0 = (.err e, s') ∧ e ≠ .sigBreak ∧ e ≠ .sigContinue := by
  have h := run_err (evalStmt 7 (.while 0 (.str 0 "x") (some [.break 0]))) vm0 (.rt 80) K
  exact ⟨_, _, h, (loop_statement_never_signals 6 0 _ [] _ _ _ _).1 h⟩

/-- `loop_signal_is_lexical`.  If a statement (a block) ends with the signal `e`, then a 结束循环 / 继续循环 stands
lexically in it, outside every loop of it and not inside any method it calls. -/
theorem loop_signal_is_lexical (n : Nat) (s s' : VM ν) (e : Err) (he : Err.isLoopSignal e = true) :
    (∀ st, evalStmt n st s = (.err e, s') → FreeSig e st) ∧
    (∀ b, evalPureStmtBlock n b s = (.err e, s') → BlockFreeSig e b) :=
  ⟨fun st h => ((sig_lexical n).1 st).out s e s' h he, fun b h => ((sig_lexical n).2 b).out s e s' h he⟩

/-- `如果 真：｛ 结束循环 ｝` ends with the break signal — and contains the 结束循环 -/
example : FreeSig .sigBreak (.branch 0 cTrue (some [.break 0, .nil]) [] false none) :=
  (loop_signal_is_lexical 6 vm0 _ .sigBreak rfl).1 _ (run_err (evalStmt 6 _) _ .sigBreak K)

/-- `break_in_callee_does_not_end_callers_loop`.  A loop (每当 / 遍历) leaves through its `结束循环` branch, or skips to
the next pass through its `继续循环` branch, only when its body ends with that signal (`whileStep` / `iterPass`, see
`break_innermost_only_while`, `continue_innermost_only_while`, …).  This theorem says when that can happen:
(1) only if the 结束循环 / 继续循环 stands lexically in the body of *this* loop, outside its inner loops;
(2) in particular never because of a statement that is an expression — a call `（f：…）`, a method call, 新建, an
assignment, … — whatever the callee does (a 结束循环 there is an exception *of the callee*,
`loop_signal_never_leaves_body`): the outcome of such a statement is not a loop signal, and a body made of such
statements, declarations, 输出 and loops only never takes the loop's signal branches. -/
theorem break_in_callee_does_not_end_callers_loop (n : Nat) (body : Option (List Stmt)) (s s' : VM ν) (e : Err)
    (he : Err.isLoopSignal e = true) :
    (evalPureStmtBlock n body s = (.err e, s') → BlockFreeSig e body) ∧
    (∀ ex : Expr, evalStmt n (.expr ex) s ≠ (.err e, s')) ∧
    (∀ stmts, body = some stmts → (∀ st ∈ stmts, ¬ FreeSig e st) → evalPureStmtBlock n body s ≠ (.err e, s')) := by
  refine ⟨(loop_signal_is_lexical n s s' e he).2 body, fun ex h => ?_, fun stmts hb hno h => ?_⟩
  · have := (loop_signal_is_lexical n s s' e he).1 _ h
    cases this
  · obtain ⟨stmts', st, hb', hm, hf⟩ := (loop_signal_is_lexical n s s' e he).2 body h
    rw [hb] at hb'; cases hb'
    exact hno st hm hf

/-- a statement that is a call is never a free signal, nor is a loop, a 输出, a declaration … — only 结束循环 /
继续循环 themselves and 如果 statements containing them are -/
theorem call_is_not_a_free_signal (e : Err) (ex : Expr) : ¬ FreeSig e (.expr ex) := by
  intro h; cases h

/-- the caller's loop `每当 真：｛ （f） ｝` where `f`'s body is `结束循环`: the call ends with the callee's exception
(cell 9), the pass of the caller's loop with that error — the loop's 结束循环 branch is not taken -/
example : ∃ s', evalPureStmtBlock 9 (some [callF, .nil]) withF = (.err (.excErr 9), s') ∧
    ¬ BlockFreeSig .sigBreak (some [callF, .nil]) := by
  refine ⟨_, run_err (evalPureStmtBlock 9 _) _ _ K, ?_⟩
  rintro ⟨stmts, st, hb, hm, hf⟩
  cases hb
  simp at hm
  rcases hm with rfl | rfl <;> cases hf

/-- spec twin: the outcome of a body in the spec semantics (`Spec.callBody`) is never `.brk` / `.cont` — a 结束循环 /
继续循环 outside any loop of the body, or in its handler block, is an exception of that body. -/
theorem spec_loop_signal_never_leaves_body (n : Nat) (blk : Option ExecBlock) (args : List (Spec.SVal ν))
    (this : Option (Spec.SVal ν)) (s s' : Spec.SState ν) :
    Spec.callBody n blk args this s ≠ (.brk, s') ∧ Spec.callBody n blk args this s ≠ (.cont, s') := by
  constructor <;> intro h <;> have := SNoSig.callBody n blk args this s _ s' h <;> cases this

/-- a body that is just 结束循环 raises the exception 收到「结束」中断信号 -/
example : ∃ s', Spec.callBody 5 (some (.mk [] (some [.break 0, .nil]) [])) [] none sp0 =
    (.raise (.exc "收到「结束」中断信号"), s') := ⟨_, rfl⟩

end ZnVerif.Properties.C02

/-! ## The statement evaluator refines the spec semantics on the control-flow fragment

Vocabulary (Proofs/StmtRefine*.lean):
* `PureStmt st` — declarations (令 / 恒为) and assignments `x 为 e` of top-scalar pure expressions, pure expression
  statements, the display call `（显示：…）` on top-scalar arguments, 如果 / 再如 / 否则, 每当, 遍历 with 0–2 loop variables
  over a top-scalar expression or a list / dictionary literal of top-scalar items, 输出, 结束循环, 继续循环, the empty
  statement; `PureBlock b` — a block of such statements.  ("Top-scalar": the top node is not a list / dictionary
  literal, so that every stored value is a scalar and the environment relation of C01 at depth 0 is kept.)
* `StRel ω mid D ds s σ` — the state relation: globals ↔ predefined names; the flat symbol list of module `mid`'s
  scope (depth marks `D :: ds`, strictly decreasing) ↔ the spec's blocks `σ.env`, symbol by symbol (name, constness,
  value read by `contentW ω 1`); a non-empty call stack whose top frame belongs to `mid`; `s.out = σ.out`; the global
  显示 is the display method; `ω` answers display-alike for non-plain cells.  `slot s` — the top frame's return slot.
* `SimS V T B s σ m m'` with outcomes `SOut` (Proofs/StmtRefineSim.lean):
    model `.ok a`, slot empty  ↔ spec `.ok v`    (`V`: states related, `a` reads as `v`)
    model `.ok _`, slot = `x`  ↔ spec `.ret v`   (`T`: states related, `x` reads as `v`) — the mechanism gap: the
                                                  model polls the slot after each statement and each loop pass,
                                                  the spec propagates `.ret` through bind
    model `.err .sigBreak / .sigContinue` ↔ spec `.brk / .cont`   (`B`: states related, slot empty)
    model `.err (.rt c)` ↔ spec `.raise (.fault (specCode c))`;  model `.err (.sem c)` ↔ spec `.fatal c`.
  No claim when the spec says `unspecified` or when either side is out of fuel: the two spend fuel at different
  rates (the spec's `runStmts` takes a unit per block, so the spec's fuel `m` may be any `m ≤ n`; the model's display
  call takes three units).  See `exec_fuel_exact_full` below. -/

namespace ZnVerif.Properties.C02
open ZnVerif.Model ZnVerif.Spec ZnVerif.Proofs

variable {ν : Type} [NumOps ν]

/-- Statements: for every model fuel `n`, every spec fuel `m ≤ n`, every statement of the fragment and every pair
of related states with an empty return slot, `evalStmt` and `execS` end with matching outcomes. -/
theorem exec_refines_spec (ω : Addr → Option (SVal ν)) (mid : Int) (n m : Nat) (hle : m ≤ n) (st : Stmt) (s : VM ν)
    (σ : SState ν) (D : Int) (ds : List Int) (hst : PureStmt st) (hrel : StRel ω mid D ds s σ) (hslot : slot s = none) :
    SimS (VRel ω mid D ds s.heap (PVal ω)) (TRel ω mid D ds s.heap) (BRel ω mid D ds s.heap) s σ
      (evalStmt n st) (execS m st) :=
  (stmt_block_sim ω mid n m hle).1 st s σ D ds s.heap hst ⟨hrel, HeapLe.refl _, hslot⟩

/-- Blocks (`evalPureStmtBlock`: own scope, slot polled after each statement; `runBlock`: own block, fold). -/
theorem block_refines_spec (ω : Addr → Option (SVal ν)) (mid : Int) (n m : Nat) (hle : m ≤ n) (b : Option (List Stmt))
    (s : VM ν) (σ : SState ν) (D : Int) (ds : List Int) (hb : PureBlock b) (hrel : StRel ω mid D ds s σ)
    (hslot : slot s = none) :
    SimS (VRel ω mid D ds s.heap (PBlk ω)) (TRel ω mid D ds s.heap) (BRel ω mid D ds s.heap) s σ
      (evalPureStmtBlock n b) (runBlock m b) :=
  (stmt_block_sim ω mid n m hle).2 b s σ D ds s.heap hb ⟨hrel, HeapLe.refl _, hslot⟩

/-- the heart of C02 in plain words: when neither side runs out of fuel (and the spec is specified), the model's
statement ends normally with the slot SET exactly when the spec's outcome is `.ret`, with the slot EMPTY exactly
when it is `.ok`; a loop signal exactly when the spec says `.brk` / `.cont`; an error exactly when the spec raises. -/
theorem return_slot_iff_spec_returns (ω : Addr → Option (SVal ν)) (mid : Int) (n m : Nat) (hle : m ≤ n) (st : Stmt)
    (s s' : VM ν) (σ σ' : SState ν) (D : Int) (ds : List Int) (hst : PureStmt st) (hrel : StRel ω mid D ds s σ)
    (hslot : slot s = none) (r : Res Addr) (r' : R ν (SVal ν))
    (hm : evalStmt n st s = (r, s')) (hs : execS m st σ = (r', σ'))
    (h1 : r' ≠ .unspecified) (h2 : r' ≠ .fuel) (h3 : r ≠ .fuel) :
    (∃ a v, r = .ok a ∧ r' = .ok v ∧ slot s' = none ∧ StRel ω mid D ds s' σ' ∧ ∃ k, contentW ω k s'.heap a = some v) ∨
    (∃ a x v, r = .ok a ∧ r' = .ret v ∧ slot s' = some x ∧ StRel ω mid D ds s' σ' ∧ ∃ k, contentW ω k s'.heap x = some v) ∨
    (r = .err .sigBreak ∧ r' = .brk ∧ slot s' = none ∧ StRel ω mid D ds s' σ') ∨
    (r = .err .sigContinue ∧ r' = .cont ∧ slot s' = none ∧ StRel ω mid D ds s' σ') ∨
    (∃ c, r = .err (.rt c) ∧ r' = .raise (.fault (specCode c))) ∨
    (∃ c, r = .err (.sem c) ∧ r' = .fatal c) := by
  have h := exec_refines_spec ω mid n m hle st s σ D ds hst hrel hslot
  unfold SimS at h
  rw [hm, hs] at h
  rcases h with h | h | h | h
  · exact absurd h h1
  · exact absurd h h2
  · exact absurd h h3
  · cases h with
    | ok hv => exact .inl ⟨_, _, rfl, rfl, hv.2.2.1, hv.1, hv.2.2.2⟩
    | ret ht =>
      obtain ⟨g1, _, x, g3, g4⟩ := ht
      exact .inr (.inl ⟨_, x, _, rfl, rfl, g3, g1, g4⟩)
    | brk hb => exact .inr (.inr (.inl ⟨rfl, rfl, hb.2.2, hb.1⟩))
    | cont hb => exact .inr (.inr (.inr (.inl ⟨rfl, rfl, hb.2.2, hb.1⟩)))
    | rt c => exact .inr (.inr (.inr (.inr (.inl ⟨c, rfl, rfl⟩))))
    | sem c => exact .inr (.inr (.inr (.inr (.inr ⟨c, rfl, rfl⟩))))

/-- the initial states are related (non-vacuity of `StRel`, for every number type): `startS` is the machine in
which `runProgram` starts the main body (module 0, script frame), `{}` the initial spec state -/
theorem start_states_related : StRel (ν := ν) initω 0 0 [] startS {} ∧ slot (startS (ν := ν)) = none :=
  ⟨stRel_start, slot_start⟩

/-- Programs: a program without imports, inputs and handlers whose body is a statement list of the fragment, run
by `Model.runProgram` from `initVM ()` and by `Spec.runProgram` from `{}` with the same fuel, ends with the same
result value (the result cell reads as the spec's value) and the same displayed lines, or with an error on both
sides (`FinalRel`; no claim when the spec is `unspecified` or a side is out of fuel). -/
theorem program_refines_spec (stmts : List Stmt) (hp : ∀ st ∈ stmts, PureStmt st) (n : Nat) :
    FinalRel (ν := ν) initω false (Model.runProgram (n+3) ⟨[], some (.mk [] (some stmts) [])⟩ [] (initVM ()))
      (Spec.runProgram (n+3) ⟨[], some (.mk [] (some stmts) [])⟩ [] {}) :=
  program_refines stmts hp n

/-- the same for any body run by `evalExecBlock` / `callBody` in related states (frame of a program or handler, not
of a method call) -/
theorem body_refines_spec (ω : Addr → Option (SVal ν)) (mid : Int) (D : Int) (ds : List Int) (s : VM ν) (σ : SState ν)
    (hrel : StRel ω mid D ds s σ) (hslot : slot s = none) (fr : Model.Frame) (rest : List Model.Frame)
    (hstack : s.stack = fr :: rest) (hct : (fr.callType == 2) = false)
    (stmts : List Stmt) (hp : ∀ st ∈ stmts, PureStmt st) (n : Nat) :
    FinalRel ω true (evalExecBlock (n+3) (some (.mk [] (some stmts) [])) [] s)
      (callBody (n+3) (some (.mk [] (some stmts) [])) [] none σ) :=
  body_refines hrel hslot fr rest hstack hct stmts hp n

/-! ### Non-vacuity: toy programs on the initial machine (numbers = the toy `Int` of Proofs/ToyNum.lean) -/

section examples
attribute [local instance] toyNumOps

private def idE (t : String) : Expr := .id ⟨0, t⟩
private def shows (es : List Expr) : Stmt := .expr (.call 0 (some ⟨0, "显示"⟩) es none)

/-- 令 d 为 假； 每当 真：｛ （显示：d）； 如果 d： 输出 7； d 为 真 ｝ — the 输出 is executed in the second pass -/
private def progRet : List Stmt :=
  [.varDecl 0 [(1, [⟨0, "d"⟩], idE "假")],
   .while 0 (idE "真") (some [
     shows [idE "d"],
     .branch 0 (idE "d") (some [.ret 0 (idE "7")]) [] false none,
     .expr (.assign 0 (.id ⟨0, "d"⟩) (idE "真"))]),
   shows [idE "d"]]

/-- 遍历 [1, 2] 以 x：｛ 遍历 [3, 4] 以 k，y：｛ 如果 y == 4： 结束循环； （显示：x，k，y） ｝ ｝； （显示：0） — the 结束循环
ends the inner loop only -/
private def progBreak : List Stmt :=
  [.iterate 0 (.arr 0 [idE "1", idE "2"]) [⟨0, "x"⟩] (some [
     .iterate 0 (.arr 0 [idE "3", idE "4"]) [⟨0, "k"⟩, ⟨0, "y"⟩] (some [
       .branch 0 (.logic 0 LogicEQ (idE "y") (idE "4")) (some [.break 0]) [] false none,
       shows [idE "x", idE "k", idE "y"]])]),
   shows [idE "0"]]

/-- membership in a literal list, case by case -/
local macro "each_mem " h:ident : tactic => `(tactic| (simp only [List.mem_cons, List.not_mem_nil, or_false] at $h:ident))

private theorem pure_shows (es : List Expr) (h : ∀ e ∈ es, PureExpr e ∧ TopScalar e) : PureStmt (shows es) :=
  .display 0 ⟨0, "显示"⟩ es rfl h

private theorem pure_progRet : ∀ st ∈ progRet, PureStmt st := by
  intro st hst
  unfold progRet at hst
  each_mem hst
  rcases hst with rfl | rfl | rfl
  · refine .varDecl _ _ fun p hp => ?_
    each_mem hp; subst hp; exact ⟨.id _, .id _⟩
  · refine .while _ _ _ (.id _) fun l hl st hst => ?_
    cases hl
    each_mem hst
    rcases hst with rfl | rfl | rfl
    · exact pure_shows _ fun e he => by each_mem he; subst he; exact ⟨.id _, .id _⟩
    · refine .branch _ _ _ _ _ _ (.id _) (fun l hl st hst => ?_) (fun _ h => by cases h) (fun _ h => by cases h)
        (fun _ h => by cases h)
      cases hl; each_mem hst; subst hst; exact .ret _ _ (.id _)
    · exact .assign _ _ _ (.id _) (.id _)
  · exact pure_shows _ fun e he => by each_mem he; subst he; exact ⟨.id _, .id _⟩

private theorem pure_progBreak : ∀ st ∈ progBreak, PureStmt st := by
  intro st hst
  unfold progBreak at hst
  each_mem hst
  rcases hst with rfl | rfl
  · refine .iterate _ _ _ _ (.arr _ _ fun e he => ?_) (by decide) fun l hl st hst => ?_
    · each_mem he; rcases he with rfl | rfl <;> exact ⟨.id _, .id _⟩
    · cases hl; each_mem hst; subst hst
      refine .iterate _ _ _ _ (.arr _ _ fun e he => ?_) (by decide) fun l hl st hst => ?_
      · each_mem he; rcases he with rfl | rfl <;> exact ⟨.id _, .id _⟩
      · cases hl; each_mem hst
        rcases hst with rfl | rfl
        · refine .branch _ _ _ _ _ _ (.logic _ _ _ _ (by decide) (.id _) (.id _)) (fun l hl st hst => ?_)
            (fun _ h => by cases h) (fun _ h => by cases h) (fun _ h => by cases h)
          cases hl; each_mem hst; subst hst; exact .break _
        · exact pure_shows _ fun e he => by
            each_mem he; rcases he with rfl | rfl | rfl <;> exact ⟨.id _, .id _⟩
  · exact pure_shows _ fun e he => by each_mem he; subst he; exact ⟨.id _, .id _⟩

/-- observables of a model run: the number the result cell holds (if it is a number), whether it is 空, the lines -/
private def modelRun (p : Res Addr × VM Int) : Option (Option Int × Bool × List String) :=
  match p with
  | (.ok a, s) => some ((match s.heap[a]? with | some (.num x) => some x | _ => none),
      (match s.heap[a]? with | some .null => true | _ => false), s.out)
  | _ => none
private def specRun (p : R Int (SVal Int) × SState Int) : Option (Option Int × Bool × List String) :=
  match p with
  | (.ok v, σ) => some ((match v with | .num x => some x | _ => none), (match v with | .null => true | _ => false), σ.out)
  | _ => none

-- the loop runs twice: `假` and `真` are displayed, the 输出 of the second pass ends the program with 7 and the
-- statement after the loop is not executed
example : modelRun (Model.runProgram 12 ⟨[], some (.mk [] (some progRet) [])⟩ [] (initVM ())) =
    some (some 7, false, ["真", "假"]) := by decide +kernel
example : specRun (Spec.runProgram 12 ⟨[], some (.mk [] (some progRet) [])⟩ [] {}) =
    some (some 7, false, ["真", "假"]) := by decide +kernel
-- … and that agreement is an instance of the theorem
example : FinalRel initω false (Model.runProgram 12 ⟨[], some (.mk [] (some progRet) [])⟩ [] (initVM ()))
    (Spec.runProgram 12 ⟨[], some (.mk [] (some progRet) [])⟩ [] ({} : SState Int)) :=
  program_refines_spec progRet pure_progRet 9

-- the inner 结束循环 ends only the inner loop: lines `1 1 3`, `2 1 3`, then `0`; the program's value is 空
example : modelRun (Model.runProgram 14 ⟨[], some (.mk [] (some progBreak) [])⟩ [] (initVM ())) =
    some (none, true, ["0", "2 1 3", "1 1 3"]) := by decide +kernel
example : specRun (Spec.runProgram 14 ⟨[], some (.mk [] (some progBreak) [])⟩ [] {}) =
    some (none, true, ["0", "2 1 3", "1 1 3"]) := by decide +kernel
example : FinalRel initω false (Model.runProgram 14 ⟨[], some (.mk [] (some progBreak) [])⟩ [] (initVM ()))
    (Spec.runProgram 14 ⟨[], some (.mk [] (some progBreak) [])⟩ [] ({} : SState Int)) :=
  program_refines_spec progBreak pure_progBreak 11

/-! ### why the fuel clause cannot be exact -/

/-- The exact fuel clause one would like: with the same fuel the model's statement runs out of fuel exactly when
the spec's does.  It does NOT hold, in either direction, for model and spec as written: the spec's `runStmts`
consumes a unit of fuel per block where the model's `stmtsLoop` does not, and the model's display call consumes
three units (`execDirectFunction`, `execFunction`, `display`) where the spec's `showV` has its own fuel.
`exec_fuel_exact_full_fails` gives both witnesses.  What is proved instead (`exec_refines_spec`): the outcomes
match whenever neither side is out of fuel, for every spec fuel `m ≤ n`; since an outcome other than out-of-fuel
does not depend on the fuel (model: `Proofs/ExprMono.lean` for expressions), this is the statement about all
terminating runs.  Missing for an exact clause: equal fuel accounting in Spec/Sem.lean (reported, not changed). -/
def exec_fuel_exact_full : Prop :=
  ∀ (μ : Type) [NumOps μ] (ω : Addr → Option (SVal μ)) (mid : Int) (n : Nat) (st : Stmt) (s : VM μ) (σ : SState μ)
    (D : Int) (ds : List Int), PureStmt st → StRel ω mid D ds s σ → slot s = none →
    ((evalStmt n st s).1 = .fuel ↔ (execS n st σ).1 = .fuel)

private def isFuelM {α} : Res α → Bool | .fuel => true | _ => false
private def isFuelS {α} : R Int α → Bool | .fuel => true | _ => false

/-- fuel 2, `（显示）`: the model is out of fuel inside the call, the spec displays an empty line;
fuel 3, `如果 真：｛ 空语句 ｝`: the model completes, the spec is out of fuel inside `runStmts` -/
theorem exec_fuel_exact_full_fails : ¬ exec_fuel_exact_full := by
  intro h
  have h1 := h Int initω 0 2 (shows []) startS {} 0 [] (pure_shows [] fun _ h => by cases h) stRel_start slot_start
  have a1 : isFuelM (evalStmt 2 (shows []) (startS (ν := Int))).1 = true := by decide +kernel
  have a2 : isFuelS (execS 2 (shows []) ({} : SState Int)).1 = false := by decide +kernel
  have e1 : (evalStmt 2 (shows []) (startS (ν := Int))).1 = .fuel := by
    generalize (evalStmt 2 (shows []) (startS (ν := Int))).1 = r at a1
    cases r <;> simp [isFuelM] at a1 ⊢
  rw [h1.1 e1] at a2
  simp [isFuelS] at a2

-- the other direction: with fuel 3 the model completes `如果 真：｛ 空语句 ｝`, the spec is out of fuel in `runStmts`
example : isFuelM (evalStmt 3 (.branch 0 (idE "真") (some [.empty 0]) [] false none) (startS (ν := Int))).1 = false ∧
    isFuelS (execS 3 (.branch 0 (idE "真") (some [.empty 0]) [] false none) ({} : SState Int)).1 = true := by
  decide +kernel

end examples

end ZnVerif.Properties.C02
