/-
C02 — Branches, loops and 输出 follow the documented control flow.
Theorems about the model's mechanism (return slot polled after each statement, loops catching
signals), for every fuel, every program fragment, every VM state.
-/
import ZnVerif.Model.Interp
set_option linter.unusedSectionVars false

namespace ZnVerif.Properties.C02
open ZnVerif.Model

variable {ν : Type} [NumOps ν]

/-- `输出 e` stores the value in the return slot of the current frame and yields it. -/
theorem return_sets_slot (n ln : Nat) (e : Expr) (s s' : VM ν) (v : Addr) (fr : Frame) (rest : List Frame)
    (hs : s.stack = fr :: rest)
    (he : evalExpr n e { s with stack := { fr with line := ln } :: rest } = (.ok v, s'))
    (hst : s'.stack = { fr with line := ln } :: rest) :
    ∃ s'', evalStmt (n+1) (.ret ln e) s = (.ok v, s'') ∧
      s''.stack = { fr with line := ln, ret := some v } :: rest := by
  refine ⟨{ s' with stack := { fr with line := ln, ret := some v } :: rest }, ?_, rfl⟩
  simp only [evalStmt, Stmt.line]
  simp [bind, setTopFrame, modifyVM, hs, he, hst, pure]

/-- the statement loop of a block: once the return slot is set after a statement, *no later statement
is evaluated* — the result and state do not depend on `rest` at all. -/
theorem no_statement_after_return (evalOne : Stmt → M ν Addr) (last : Option Addr) (st : Stmt) (rest : List Stmt)
    (s s' : VM ν) (v rv : Addr) (fr : Frame) (frs : List Frame)
    (hnd : isDecl st = false)
    (h1 : evalOne st s = (.ok v, s')) (hst : s'.stack = fr :: frs) (hret : fr.ret = some rv) :
    stmtsLoop evalOne last (st :: rest) s = (.ok (some rv), s') := by
  simp [stmtsLoop, hnd, bind, h1, getReturnValue, topFrame, hst, hret, pure]

/-- … and while the slot is empty the loop goes on with the next statement, remembering the last value
(a body without 输出 yields the value of its final statement). -/
theorem statement_loop_continues (evalOne : Stmt → M ν Addr) (last : Option Addr) (st : Stmt) (rest : List Stmt)
    (s s' : VM ν) (v : Addr) (fr : Frame) (frs : List Frame)
    (hnd : isDecl st = false)
    (h1 : evalOne st s = (.ok v, s')) (hst : s'.stack = fr :: frs) (hret : fr.ret = none) :
    stmtsLoop evalOne last (st :: rest) s = stmtsLoop evalOne (some v) rest s' := by
  simp [stmtsLoop, hnd, bind, h1, getReturnValue, topFrame, hst, hret, pure]

theorem final_statement_value (evalOne : Stmt → M ν Addr) (last : Option Addr) (s : VM ν) :
    stmtsLoop evalOne last [] s = (.ok last, s) := by
  simp [stmtsLoop, pure]

/-- 每当: a pass whose step answers "stop" ends the loop with no further pass, whatever fuel is left. -/
theorem while_stops (k : Nat) (step : M ν Bool) (s s' : VM ν) (h : step s = (.ok false, s')) :
    whileM (k+1) step s = (.ok (), s') := by
  simp [whileM, bind, h, pure]

/-- 每当 re-runs its step (condition test first) before every pass. -/
theorem while_retests (k : Nat) (step : M ν Bool) (s s' : VM ν) (h : step s = (.ok true, s')) :
    whileM (k+1) step s = whileM k step s' := by
  simp [whileM, bind, h]

/-- 遍历: elements are visited in order; a pass answering "stop" (结束循环, or 输出 in the body) ends the
loop — the remaining elements are not visited. -/
theorem iterate_stops {α} (f : α → M ν Bool) (x : α) (xs : List α) (s s' : VM ν) (h : f x s = (.ok true, s')) :
    untilM f (x :: xs) s = (.ok (), s') := by
  simp [untilM, bind, h, pure]

theorem iterate_in_order {α} (f : α → M ν Bool) (x : α) (xs : List α) (s s' : VM ν) (h : f x s = (.ok false, s')) :
    untilM f (x :: xs) s = untilM f xs s' := by
  simp [untilM, bind, h]

/-- 1-based indices: the i-th pass (0-based position i) receives index i. `untilIdxM` is started at 0 by
`遍历` and the pass adds 1 (see Interp.evalStmt). -/
theorem iterate_index_advances {α} (f : Nat → α → M ν Bool) (i : Nat) (x : α) (xs : List α) (s s' : VM ν)
    (h : f i x s = (.ok false, s')) :
    untilIdxM f i (x :: xs) s = untilIdxM f (i + 1) xs s' := by
  simp [untilIdxM, bind, h]

/-- 如果/再如/否则: the first alternative that answers is the only one that runs. -/
theorem branch_first_true {α β} (f : α → M ν (Option β)) (d : M ν β) (x : α) (xs : List α) (s s' : VM ν) (b : β)
    (h : f x s = (.ok (some b), s')) :
    firstM f d (x :: xs) s = (.ok b, s') := by
  simp [firstM, bind, h, pure]

theorem branch_skips_false {α β} (f : α → M ν (Option β)) (d : M ν β) (x : α) (xs : List α) (s s' : VM ν)
    (h : f x s = (.ok none, s')) :
    firstM f d (x :: xs) s = firstM f d xs s' := by
  simp [firstM, bind, h]

theorem branch_else_last {α β} (f : α → M ν (Option β)) (d : M ν β) (s : VM ν) :
    firstM f d [] s = d s := by
  simp [firstM]

/-- a non-boolean condition of 如果 is error 80 and no branch runs -/
theorem branch_non_bool_is_error (n ln : Nat) (c : Expr) (ifB elseB : Option (List Stmt))
    (others : List (Expr × Option (List Stmt))) (he : Bool) (s s' : VM ν) (a : Addr) (cell : Cell ν)
    (fr : Frame) (rest : List Frame) (hs : s.stack = fr :: rest)
    (hc : evalExpr n c { s with stack := { fr with line := ln } :: rest } = (.ok a, s'))
    (hcell : s'.heap[a]? = some cell) (hnb : ∀ b, cell ≠ .bool b) :
    evalStmt (n+1) (.branch ln c ifB others he elseB) s = (.err (.rt 80), s') := by
  simp only [evalStmt, Stmt.line]
  cases cell <;> simp_all [bind, setTopFrame, modifyVM, getCell, rtErr, throwE]

end ZnVerif.Properties.C02
