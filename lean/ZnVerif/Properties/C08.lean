/-
C08 — Method calls and objects bind arguments, receivers and results correctly.
-/
import ZnVerif.Model.Interp
import ZnVerif.Proofs.Handlers
import ZnVerif.Proofs.OutGrows
import ZnVerif.Proofs.StackBalBlock
import ZnVerif.Proofs.Toy
set_option linter.unusedSectionVars false
set_option linter.unusedSimpArgs false
set_option linter.unusedVariables false

namespace ZnVerif.Properties.C08
open ZnVerif.Model ZnVerif.Proofs.Calls ZnVerif.Proofs.Balance ZnVerif.Proofs.StackBal

variable {ν : Type} [NumOps ν]

/-- 其 denotes the receiver of the innermost active call: a property read through 其 reads the `this` of the top frame -/
theorem this_is_receiver (n ln : Nat) (m : Ident) (s : VM ν) (fr : Frame) (rest : List Frame) (t : Addr)
    (hs : s.stack = fr :: rest) (ht : fr.this = some t) :
    memberIV (n+1) (.member ln 2 .nil 1 (some m) .nil) s = (.ok (3, t, m.lit, 0), s) := by
  simp [memberIV, bind, getThis, topFrame, hs, ht, pure]

/-- outside any method (no receiver) 其 is error 48 -/
theorem this_without_receiver_is_error (n ln : Nat) (m : Ident) (s : VM ν) (fr : Frame) (rest : List Frame)
    (hs : s.stack = fr :: rest) (ht : fr.this = none) :
    memberIV (n+1) (.member ln 2 .nil 1 (some m) .nil) s = (.err (.rt 48), s) := by
  simp [memberIV, bind, getThis, topFrame, hs, ht, pure, rtErr, throwE]

/-- an unknown property of an object is error 45, an unknown property write likewise (the object is unchanged) -/
theorem unknown_property_is_error (n : Nat) (a : Addr) (s : VM ν) (c : Addr) (props : List (String × Addr)) (name : String)
    (hc : s.heap[a]? = some (.obj c props)) (hne : name ≠ "自身") (hl : lookup name props = none) :
    getProperty n a name s = (.err (.rt 45), s) ∧ ∀ v, setProperty a name v s = (.err (.rt 45), s) := by
  constructor
  · simp only [getProperty]
    simp [bind, getCell, hc, hne]
    simp [hl, rtErr, throwE]
  · intro v
    simp [setProperty, bind, getCell, hc, hl, rtErr, throwE]

/-- a property write on one object changes that object's cell only -/
theorem property_write_local (a : Addr) (s : VM ν) (c : Addr) (props : List (String × Addr)) (name : String) (v w : Addr)
    (hc : s.heap[a]? = some (.obj c props)) (hl : lookup name props = some w) :
    setProperty a name v s = (.ok (), { s with heap := s.heap.set! a (.obj c (assocSet name v props)) }) := by
  have ha : a < s.heap.size := by
    rcases Nat.lt_or_ge a s.heap.size with h | h
    · exact h
    · rw [Array.getElem?_eq_none h] at hc; cases hc
  have hget : s.heap[a] = .obj c props := by
    have := Array.getElem?_eq_getElem ha ▸ hc
    simpa using this
  simp [setProperty, bind, getCell, hc, setCell, ha]
  simp [hget, hl, setCell, ha]

/-! ## arity -/

/-- a call with the wrong number of arguments is error 51 and runs nothing of the body — the statement holds for
EVERY `body` and handler list, so no statement of it can have had an effect: output, heap, call stack and current
module are untouched, and every scope is what it was (the 此 binding made before the check is forgotten again). -/
theorem arity_mismatch_runs_nothing (n : Nat) (inputs : List Ident) (body : Option (List Stmt))
    (catches : List (Option Ident × Option (List Stmt))) (params : List Addr) (s : VM ν)
    (h : params.length ≠ inputs.length) :
    let r := evalExecBlock (n+1) (some (.mk inputs body catches)) params s
    r.1 = .err (.rt 51) ∧ r.2.out = s.out ∧ r.2.heap = s.heap ∧ r.2.stack = s.stack ∧
    r.2.csModuleID = s.csModuleID ∧
    ((∀ sc, getScope s.csModuleID s = some sc → SortedDepths sc) → ∀ m, getScope m r.2 = getScope m s) := by
  intro r
  have hr : r = ((execBlockBody n inputs body catches params (enterScope s)).1,
      exitScope s (execBlockBody n inputs body catches params (enterScope s)).2) := by
    show evalExecBlock _ _ _ s = _
    rw [evalExecBlock_eq, withScope_run]
  have hbody : execBlockBody n inputs body catches params (enterScope s) =
      (.err (.rt 51), (bindThis (enterScope s) (enterScope s)).2) := by
    unfold execBlockBody
    rcases bindThis_cases (enterScope s) with h1 | ⟨_, _, _, _, _, h1⟩ <;>
      · rw [bind_ok h1, h1]; simp only [h, ne_eq, not_false_eq_true, if_true]; rfl
  rw [hbody] at hr
  obtain ⟨e1, e2, e3, e4, _, _⟩ := enterScope_frame s
  obtain ⟨x1, x2, x3, x4⟩ := exitScope_frame s (bindThis (enterScope s) (enterScope s)).2
  have hfr : (bindThis (enterScope s) (enterScope s)).2.stack = s.stack ∧
      (bindThis (enterScope s) (enterScope s)).2.csModuleID = s.csModuleID ∧
      (bindThis (enterScope s) (enterScope s)).2.heap = s.heap ∧
      (bindThis (enterScope s) (enterScope s)).2.out = s.out := by
    rcases bindThis_cases (enterScope s) with h1 | ⟨_, _, _, _, _, h1⟩ <;> rw [h1] <;> simp [e1, e2, e3, e4]
  refine ⟨by rw [hr], by rw [hr]; simp only; rw [x4, hfr.2.2.2], by rw [hr]; simp only; rw [x3, hfr.2.2.1],
    by rw [hr]; simp only; rw [x1, hfr.1], by rw [hr]; simp only; rw [x2, hfr.2.1], ?_⟩
  intro hsorted m
  rw [hr]
  simp only
  cases hsc : getScope s.csModuleID s with
  | none =>
    have hent : enterScope s = s := by unfold enterScope; rw [hsc]
    have hexit : ∀ t, exitScope s t = t := by intro t; unfold exitScope; rw [hsc]
    rw [hexit, hent]
    rcases bindThis_cases s with h1 | ⟨sc, _, _, h0, _, _⟩
    · rw [h1]
    · rw [hsc] at h0; cases h0
  | some sc =>
    have hs := hsorted sc hsc
    have hent : enterScope s = putScope s.csModuleID sc.beginScope s := by unfold enterScope; rw [hsc]
    have hexit : ∀ t, exitScope s t = endScopeOf s.csModuleID t := by intro t; unfold exitScope; rw [hsc]
    rw [hexit, hent]
    have hcs : (putScope s.csModuleID sc.beginScope s).csModuleID = s.csModuleID := putScope_cs _ _ _
    rcases bindThis_cases (putScope s.csModuleID sc.beginScope s) with h1 | ⟨sc0, sc', v, h0, hd, h1⟩
    · rw [h1]
      by_cases hm : m = s.csModuleID
      · subst hm
        rw [getScope_endScopeOf_same, getScope_putScope_same, hsc]
        have := endScope_forgets_declared sc hs [] (by intro op ho; cases ho)
        simp only [applyOps] at this
        simp [this]
      · rw [getScope_endScopeOf_other _ _ _ hm, getScope_putScope_other _ _ _ _ hm]
    · rw [h1, hcs]
      rw [hcs, getScope_putScope_same] at h0
      cases h0
      by_cases hm : m = s.csModuleID
      · subst hm
        rw [getScope_endScopeOf_same, getScope_putScope_same, hsc]
        have := endScope_forgets_declared sc hs [.declare "此" v true none] (by
          intro op ho; simp at ho; subst ho; rfl)
        simp only [applyOps, ScopeOp.apply, hd] at this
        simp [this]
      · rw [getScope_endScopeOf_other _ _ _ hm, getScope_putScope_other _ _ _ _ hm,
          getScope_putScope_other _ _ _ _ hm]

/-! ## arguments: once, left to right -/

/-- `得到 名`: the result is also declared under the name, as a constant -/
def bindYield (yld : Option Ident) (res : Addr) : M ν Addr :=
  match yld with
  | none => pure res
  | some y => do
    let yn ← matchIDName y.lit
    declareElement yn res true
    pure res

/-- a direct call = evaluate the argument list, run the callee on the values, bind 得到 -/
theorem call_eq (n ln : Nat) (f : Ident) (params : List Expr) (yld : Option Ident) (hf : IsName f.lit) :
    evalExpr (ν := ν) (n+1) (.call ln (some f) params yld) = (do
      let vals ← params.mapM (evalExpr n)
      let res ← execDirectFunction n f.lit vals
      bindYield yld res) := by
  simp only [evalExpr]
  funext s
  rw [bind_ok (matchIDNameOpt_name f hf s)]
  cases yld <;> rfl

/-- the argument list is evaluated head first: `mapM` on a non-empty list runs the head, then the tail from the
state the head left, and returns the values in the same order -/
theorem args_mapM_cons (n : Nat) (e : Expr) (es : List Expr) :
    (e :: es).mapM (evalExpr (ν := ν) n) = (do
      let v ← evalExpr n e
      let vs ← es.mapM (evalExpr n)
      pure (v :: vs)) := mapM_cons _ _ _

/-- arguments are evaluated exactly once each, left to right (`RunsInOrder` threads the state through the list in
order); after them the callee runs on their values from the state the last argument left -/
theorem args_left_to_right_once (n ln : Nat) (f : Ident) (params : List Expr) (yld : Option Ident)
    (hf : IsName f.lit) (s s1 : VM ν) (vals : List Addr)
    (hargs : RunsInOrder (evalExpr n) params s vals s1) :
    evalExpr (n+1) (.call ln (some f) params yld) s = (execDirectFunction n f.lit vals >>= bindYield yld) s1 := by
  rw [call_eq n ln f params yld hf, bind_ok ((mapM_ok_iff _ _ _ _ _).mpr hargs)]

/-- `mapM` succeeds exactly when the elements run in order — there is no other way to get a value list -/
theorem args_values_iff (n : Nat) (params : List Expr) (s s1 : VM ν) (vals : List Addr) :
    params.mapM (evalExpr n) s = (.ok vals, s1) ↔ RunsInOrder (evalExpr n) params s vals s1 :=
  mapM_ok_iff _ _ _ _ _

/-- if an argument fails, the ones before it have run (once, in order), the ones after it and the callee never run -/
theorem failing_argument_stops_call (n ln : Nat) (f : Ident) (pre post : List Expr) (a : Expr)
    (yld : Option Ident) (hf : IsName f.lit) (s s1 s2 : VM ν) (vals : List Addr) (e : Err)
    (hpre : RunsInOrder (evalExpr n) pre s vals s1) (ha : evalExpr n a s1 = (.err e, s2)) :
    evalExpr (n+1) (.call ln (some f) (pre ++ a :: post) yld) s = (.err e, s2) := by
  rw [call_eq n ln f _ yld hf, bind_err (mapM_err _ post a e pre s vals s1 s2 hpre ha)]

/-! ## result and 得到 -/

/-- after a statement has set the frame's return slot the block stops: its value is that slot, later statements do not run -/
theorem stmts_stop_at_return (evalOne : Stmt → M ν Addr) (last : Option Addr) (st : Stmt) (rest : List Stmt)
    (s s1 : VM ν) (x rv : Addr) (fr : Frame) (frs : List Frame) (hnd : isDecl st = false)
    (h1 : evalOne st s = (.ok x, s1)) (hst : s1.stack = fr :: frs) (hret : fr.ret = some rv) :
    stmtsLoop evalOne last (st :: rest) s = (.ok (some rv), s1) := by
  unfold stmtsLoop
  simp only [hnd, Bool.false_eq_true, if_false]
  rw [bind_ok h1]
  simp only [pure_bind]
  rw [bind_ok (getReturnValue_cons s1 fr frs hst), hret]
  rfl

/-- 输出 e: evaluates `e` and stores the value in the return slot of the frame on top -/
theorem ret_sets_slot (n ln : Nat) (e : Expr) (s s1 : VM ν) (fr fr1 : Frame) (rest rest1 : List Frame) (v : Addr)
    (hs : s.stack = fr :: rest)
    (he : evalExpr n e { s with stack := { fr with line := ln, started := true } :: rest } = (.ok v, s1))
    (hs1 : s1.stack = fr1 :: rest1) :
    evalStmt (n+1) (.ret ln e) s = (.ok v, { s1 with stack := { fr1 with ret := some v } :: rest1 }) := by
  simp only [evalStmt, Stmt.line]
  simp [bind, setTopFrame, modifyVM, hs, he, hs1, pure]

/-- the value of a body whose statements ended with return slot `v` is `v` -/
theorem block_value_is_return (n : Nat) (inputs : List Ident) (body : Option (List Stmt))
    (catches : List (Option Ident × Option (List Stmt))) (params : List Addr) (t t1 t2 : VM ν) (v : Addr)
    (hlen : params.length = inputs.length)
    (hpro : (do bindThis t; bindInputs inputs params : M ν Unit) t = (.ok (), t1))
    (hbody : evalStmtBlock n body t1 = (.ok (some v), t2)) :
    execBlockBody n inputs body catches params t = (.ok v, t2) := by
  unfold execBlockBody
  have hne : ¬ params.length ≠ inputs.length := by simp [hlen]
  rw [M_bind_def] at hpro ⊢
  rcases hb : bindThis t t with ⟨r, s'⟩
  rw [hb] at hpro
  cases r <;> simp only at hpro ⊢ <;> try (cases hpro)
  simp only [hne, if_false]
  rw [bind_ok hpro]
  unfold Model.tryCatch
  rw [hbody]
  rfl

/-- a direct call yields the callee's value and pops the callee's frame: the stack is the caller's again, and with it
the current module -/
theorem call_result_is_return_of_stack (n : Nat) (fname : String) (params : List Addr) (s s2 : VM ν) (fv : Addr) (mid : Int)
    (f : FnRef) (v : Addr) (fr' : Frame)
    (hfind : findElementWithModule fname s = (.ok (fv, mid), s)) (hcell : s.heap[fv]? = some (.fn f))
    (hrun : execFunction n f none params (pushFrame { moduleId := mid, callType := 2 } s).2 = (.ok v, s2))
    (hbal : s2.stack = fr' :: s.stack) :
    execDirectFunction (n+1) fname params s =
      (.ok v, { s2 with stack := s.stack, csModuleID := topModule s.stack }) := by
  simp only [execDirectFunction]
  rw [bind_ok hfind]
  simp only
  have hp : pushFrame { moduleId := mid, callType := 2 } s =
      (.ok (), (pushFrame { moduleId := mid, callType := 2 } s).2) := by unfold pushFrame modifyVM; rfl
  rw [bind_ok hp]
  have hheap := (pushFrame_run (ν := ν) { moduleId := mid, callType := 2 } s).2.2.2.1
  have hg : getCell fv (pushFrame { moduleId := mid, callType := 2 } s).2 =
      (.ok (.fn f), (pushFrame { moduleId := mid, callType := 2 } s).2) := by
    unfold getCell; rw [hheap, hcell]
  rw [bind_ok hg]
  simp only
  rw [bind_ok hrun, bind_ok (popFrame_cons s2 fr' s.stack hbal)]
  rfl

/-- the same without any assumption about the callee: a callee that ends normally has left exactly its own frame on
top of the caller's stack (`allBal`: calls are balanced and loop signals stop at body boundaries), so the call
yields the callee's value with the caller's stack and module -/
theorem call_result_is_return (n : Nat) (fname : String) (params : List Addr) (s s2 : VM ν) (fv : Addr) (mid : Int)
    (f : FnRef) (v : Addr)
    (hfind : findElementWithModule fname s = (.ok (fv, mid), s)) (hcell : s.heap[fv]? = some (.fn f))
    (hrun : execFunction n f none params (pushFrame { moduleId := mid, callType := 2 } s).2 = (.ok v, s2)) :
    execDirectFunction (n+1) fname params s =
      (.ok v, { s2 with stack := s.stack, csModuleID := topModule s.stack }) := by
  have h := ((allBal (ν := ν) n).execFunction f none params).same
    (pushFrame { moduleId := mid, callType := 2 } s).2 (by rw [hrun]; rfl)
  rw [hrun, (pushFrame_run (ν := ν) { moduleId := mid, callType := 2 } s).2.1] at h
  obtain ⟨fr', hs, _⟩ := norm_cons_eq h
  exact call_result_is_return_of_stack n fname params s s2 fv mid f v fr' hfind hcell hrun hs

/-- method calls and 新建 likewise: a call that ends normally leaves the caller's stack (up to `line` / `ret` of its top
frame) and the caller's module -/
theorem method_call_restores_caller (n : Nat) (root : Addr) (fname : String) (params : List Addr) (s s' : VM ν)
    (v : Addr) (hi : s.csModuleID = topModule s.stack)
    (h : execMethodFunction n root fname params s = (.ok v, s')) :
    SameStack s.stack s'.stack ∧ s'.csModuleID = s.csModuleID ∧
    getThis s' = (.ok (s.stack.head?.bind (·.this)), s') := by
  have hb := (allBal (ν := ν) n).execMethodFunction root fname params
  have h1 := hb.same s (by rw [h]; rfl)
  have h2 := hb.inv s hi
  rw [h] at h1 h2
  exact ⟨h1, by rw [hi]; rw [← topModule_norm h1]; exact h2, getThis_of_norm h1⟩

theorem construct_restores_caller (n : Nat) (cv : Addr) (params : List Addr) (s s' : VM ν)
    (v : Addr) (hi : s.csModuleID = topModule s.stack) (h : construct n cv params s = (.ok v, s')) :
    SameStack s.stack s'.stack ∧ s'.csModuleID = s.csModuleID ∧
    getThis s' = (.ok (s.stack.head?.bind (·.this)), s') := by
  have hb := (allBal (ν := ν) n).construct cv params
  have h1 := hb.same s (by rw [h]; rfl)
  have h2 := hb.inv s hi
  rw [h] at h1 h2
  exact ⟨h1, by rw [hi]; rw [← topModule_norm h1]; exact h2, getThis_of_norm h1⟩

/-- 得到 binds a constant: assigning to the name afterwards is error 44 and changes nothing -/
theorem yield_binds_const (y : Ident) (res w : Addr) (s s' : VM ν) (r : Addr) (hy : IsName y.lit)
    (h : bindYield (some y) res s = (.ok r, s')) :
    r = res ∧ setElement y.lit w s' = (.err (.rt 44), s') := by
  unfold bindYield at h
  simp only at h
  rw [bind_ok (matchIDName_name y.lit hy s), M_bind_def] at h
  rcases hd : declareElement y.lit res true none s with ⟨r0, s0⟩
  rw [hd] at h
  cases r0 <;> simp only at h <;> try (cases h)
  exact ⟨rfl, set_after_const_declare y.lit res w none s s' hd⟩

/-! ## chains -/

/-- one link of `以 x （m1：…）、（m2：…）`: evaluate the link's arguments, call the method on the current receiver -/
def chainStep (n : Nat) (cur : Addr) (c : Expr) : M ν Addr :=
  match c with
  | .call _ mname params _ => do
    let fname ← matchIDNameOpt mname
    let vals ← params.mapM (evalExpr n)
    execMethodFunction n cur fname vals
  | _ => goPanic

theorem mcall_eq (n ln : Nat) (root : Expr) (chain : List Expr) (yld : Option Ident) :
    evalExpr (ν := ν) (n+1) (.mcall ln root chain yld) = (do
      let rv ← evalExpr n root
      let last ← chain.foldlM (chainStep n) rv
      bindYield yld last) := by
  simp only [evalExpr]
  cases yld <;> rfl

/-- each link's result is the receiver of the next link -/
theorem chain_feeds_result (n : Nat) (cur r : Addr) (c : Expr) (cs : List Expr) (s s1 : VM ν)
    (h : chainStep n cur c s = (.ok r, s1)) :
    (c :: cs).foldlM (chainStep n) cur s = cs.foldlM (chainStep n) r s1 := by
  rw [List.foldlM_cons, bind_ok h]

/-- a link evaluates its arguments (once, in order) and calls the method on the receiver it was handed -/
theorem chain_step_calls_receiver (n l : Nat) (cur : Addr) (m : Ident) (params : List Expr) (y : Option Ident)
    (hm : IsName m.lit) (s s1 : VM ν) (vals : List Addr) (hargs : RunsInOrder (evalExpr n) params s vals s1) :
    chainStep n cur (.call l (some m) params y) s = execMethodFunction n cur m.lit vals s1 := by
  unfold chainStep
  simp only
  rw [bind_ok (matchIDNameOpt_name m hm s), bind_ok ((mapM_ok_iff _ _ _ _ _).mpr hargs)]

/-! ## 新建 -/

/-- `新建 C：args` with a user constructor: every default is duplicated for the new instance (`hprops`), the instance is
a fresh object cell, and the constructor body runs with the call's arguments in a frame whose receiver (其) is the
new instance; the instance is the result -/
theorem constructor_gets_args_and_this (n : Nat) (cv : Addr) (params : List Addr) (s s1 : VM ν) (nm : String)
    (mid : Int) (exec : Option ExecBlock) (props props' : List (String × Addr)) (ms : List (String × Addr))
    (hcell : s.heap[cv]? = some (.cls nm (.user mid exec) props ms))
    (hprops : props.mapM (fun p => (do let v ← dup n p.2; pure (p.1, v) : M ν (String × Addr))) s =
      (.ok props', s1)) :
    let inst := s1.heap.size
    let s2 := (pushFrame { moduleId := mid, callType := 2, this := some inst }
      { s1 with heap := s1.heap.push (.obj cv props') }).2
    construct (n+1) cv params s = (do let _ ← evalExecBlock n exec params; popFrame; pure inst) s2 ∧
    s2.stack = { moduleId := mid, callType := 2, this := some inst } :: s1.stack ∧
    getThis s2 = (.ok (some inst), s2) ∧ s2.heap[inst]? = some (.obj cv props') := by
  intro inst s2
  have hp := pushFrame_run (ν := ν) { moduleId := mid, callType := 2, this := some inst }
    { s1 with heap := s1.heap.push (.obj cv props') }
  refine ⟨?_, hp.2.1, getThis_cons _ _ _ hp.2.1, ?_⟩
  · simp only [construct]
    have hg : getCell cv s = (.ok (.cls nm (.user mid exec) props ms), s) := by unfold getCell; rw [hcell]
    rw [bind_ok hg]
    simp only
    rw [bind_ok hprops]
    have ha : alloc (.obj cv props') s1 = (.ok inst, { s1 with heap := s1.heap.push (.obj cv props') }) := rfl
    rw [bind_ok ha]
    have hpf : pushFrame { moduleId := mid, callType := 2, this := some inst }
        { s1 with heap := s1.heap.push (.obj cv props') } = (.ok (), s2) := by unfold pushFrame modifyVM; rfl
    rw [bind_ok hpf]
  · show s2.heap[s1.heap.size]? = _
    rw [hp.2.2.2.1]
    simp

/-! ## unknown methods -/

/-- the method names each kind of built-in value answers to (value/*.go) -/
def builtinMethodNames : Cell ν → List String
  | .arr _ => ["新增", "添加", "前增", "后增", "左移", "右移", "拼接", "合并", "包含", "寻找", "交换"]
  | .hm _ _ => ["读取", "写入", "移除"]
  | .num _ => ["加", "减", "乘", "除", "自增", "自减", "向下取整", "向上取整"]
  | .str _ => ["拼接", "匹配", "匹配开头", "匹配结尾", "替换", "分隔", "取样", "去除空格", "转小写-英文", "转大写-英文",
               "格式化", "转换数值"]
  | _ => []

/-- an object whose class has no method of that name: error 46 -/
theorem unknown_method_is_error (n : Nat) (root : Addr) (fname : String) (params : List Addr) (s : VM ν)
    (c : Addr) (props : List (String × Addr)) (cname : String) (ctor : Ctor) (ps methods : List (String × Addr))
    (x : Addr) (mid : Int)
    (hroot : s.heap[root]? = some (.obj c props)) (hcls : s.heap[c]? = some (.cls cname ctor ps methods))
    (hfind : findElementWithModule cname s = (.ok (x, mid), s)) (hl : lookup fname methods = none) :
    (execMethodFunction (n+1) root fname params s).1 = .err (.rt 46) := by
  simp only [execMethodFunction]
  have hg : getCell root s = (.ok (.obj c props), s) := by unfold getCell; rw [hroot]
  have hg2 : getCell c s = (.ok (.cls cname ctor ps methods), s) := by unfold getCell; rw [hcls]
  rw [bind_ok hg]; simp only
  rw [bind_ok hg2]; simp only
  rw [bind_ok hfind]; simp only
  have hp : pushFrame { moduleId := mid, callType := 2, this := some root } s =
      (.ok (), (pushFrame { moduleId := mid, callType := 2, this := some root } s).2) := by
    unfold pushFrame modifyVM; rfl
  rw [bind_ok hp, hl]
  rfl

/-- a built-in value (number, text, list, dictionary, 空, …) asked for a method it does not have: error 46, nothing changes -/
theorem unknown_builtin_method_is_error (n : Nat) (a : Addr) (name : String) (vals : List Addr) (s : VM ν)
    (cell : Cell ν) (hcell : s.heap[a]? = some cell) (hno : name ∉ builtinMethodNames cell) :
    builtinMethod n a name vals s = (.err (.rt 46), s) := by
  unfold builtinMethod
  have hg : getCell a s = (.ok cell, s) := by unfold getCell; rw [hcell]
  rw [bind_ok hg]
  cases cell <;> simp only [builtinMethodNames, List.mem_cons, List.not_mem_nil, or_false, not_or] at hno <;>
    simp only <;> first
      | rfl
      | (split <;> first | rfl | (exfalso; simp_all))

/-- …and through a method call expression the call fails with that error -/
theorem unknown_builtin_method_call_is_error (n : Nat) (a : Addr) (name : String) (vals : List Addr) (s : VM ν)
    (cell : Cell ν) (hcell : s.heap[a]? = some cell) (hobj : ∀ c props, cell ≠ .obj c props)
    (hno : name ∉ builtinMethodNames cell) :
    (execMethodFunction (n+1) a name vals s).1 = .err (.rt 46) := by
  simp only [execMethodFunction]
  have hg : getCell a s = (.ok cell, s) := by unfold getCell; rw [hcell]
  rw [bind_ok hg]
  have hp : pushFrame { moduleId := -1, callType := 2, this := some a } s =
      (.ok (), (pushFrame { moduleId := -1, callType := 2, this := some a } s).2) := by
    unfold pushFrame modifyVM; rfl
  have hheap := (pushFrame_run (ν := ν) { moduleId := -1, callType := 2, this := some a } s).2.2.2.1
  have hb := unknown_builtin_method_is_error n a name vals
    (pushFrame { moduleId := -1, callType := 2, this := some a } s).2 cell (by rw [hheap]; exact hcell) hno
  cases cell <;> first
    | exact absurd rfl (hobj _ _)
    | (simp only; rw [bind_ok hp, bind_err hb])

/-! ## traces -/

/-- nothing the evaluator does removes or reorders displayed lines: the output after any expression, statement or
call is the output before with new lines added (on every outcome) -/
theorem output_only_grows (n : Nat) :
    (∀ e (s : VM ν), ∃ l, (evalExpr n e s).2.out = l ++ s.out) ∧
    (∀ st (s : VM ν), ∃ l, (evalStmt n st s).2.out = l ++ s.out) ∧
    (∀ f ps (s : VM ν), ∃ l, (execDirectFunction n f ps s).2.out = l ++ s.out) ∧
    (∀ r f ps (s : VM ν), ∃ l, (execMethodFunction n r f ps s).2.out = l ++ s.out) := by
  have h := allPres (ν := ν) (R := OutGrows) n
  exact ⟨fun e s => (h.evalExpr e).run s, fun st s => (h.evalStmt st).run s,
    fun f ps s => (h.execDirectFunction f ps).run s, fun r f ps s => (h.execMethodFunction r f ps).run s⟩

/-- the trace of a call = the traces of its arguments, in order, then the trace of the callee (`out` is
most-recent-first, so "then" is "in front of"): `ts` are the per-argument traces witnessed by `RunsInOrderT` -/
theorem call_trace_is_args_then_body (n ln : Nat) (f : Ident) (params : List Expr) (yld : Option Ident)
    (hf : IsName f.lit) (s s1 : VM ν) (vals : List Addr)
    (hargs : RunsInOrder (evalExpr n) params s vals s1) :
    ∃ ts tbody, RunsInOrderT (evalExpr n) params s vals s1 ts ∧ ts.length = params.length ∧
      ((execDirectFunction n f.lit vals >>= bindYield yld) s1).2.out = tbody ++ s1.out ∧
      (evalExpr (n+1) (.call ln (some f) params yld) s).2.out = tbody ++ ts.reverse.flatten ++ s.out := by
  have h := allPres (ν := ν) (R := OutGrows) n
  obtain ⟨ts, hts⟩ := RunsInOrder.withTraces (fun a s => (h.evalExpr a).run s) hargs
  have hy : ∀ res, Pres OutGrows (bindYield (ν := ν) yld res) := by
    intro res; unfold bindYield; pres_tac
  obtain ⟨tbody, hb⟩ := (Pres.bind (h.execDirectFunction f.lit vals) hy).run s1
  refine ⟨ts, tbody, hts, hts.out.2, hb, ?_⟩
  rw [args_left_to_right_once n ln f params yld hf s s1 vals hargs, hb, hts.out.1, List.append_assoc]

/-! ## non-vacuity: each implication above, instantiated on a tiny program over the toy numbers -/

section examples
open ZnVerif.Proofs.Toy

/-- a body that is not even there (`none` would be a Go nil dereference if it were touched), one argument for no input -/
example : (evalExecBlock 1 (some (.mk [] none [])) [5] s0).1 = .err (.rt 51) ∧
    getScope 0 (evalExecBlock 1 (some (.mk [] none [])) [5] s0).2 = getScope 0 s0 :=
  let h := arity_mismatch_runs_nothing 0 [] none [] [5] s0 (by decide)
  ⟨h.1, h.2.2.2.2.2 (by intro sc hsc; cases hsc; exact sortedDepths_empty) 0⟩

/-- `f：“a”、“b”`: the two texts are allocated in order (addresses 2, 3), then `f` runs on [2, 3] -/
example : ∃ s2, evalExpr 2 (.call 0 (some ⟨0, "f"⟩) [.str 0 "a", .str 0 "b"] none) s0 =
    (execDirectFunction 1 "f" [2, 3] >>= bindYield none) s2 :=
  ⟨_, args_left_to_right_once 1 0 ⟨0, "f"⟩ [.str 0 "a", .str 0 "b"] none (by decide) s0 _ [2, 3]
    (.cons rfl (.cons rfl (.nil _)))⟩

/-- `f：“a”、‹nil›、“b”`: the second argument fails with code 80; “b” and `f` never run -/
example : ∃ s2, evalExpr 2 (.call 0 (some ⟨0, "f"⟩) ([.str 0 "a"] ++ .nil :: [.str 0 "b"]) none) s0 =
    (.err (.rt 80), s2) :=
  ⟨_, failing_argument_stops_call 1 0 ⟨0, "f"⟩ [.str 0 "a"] [.str 0 "b"] .nil none (by decide) s0 _ _ [2] (.rt 80)
    (.cons rfl (.nil _)) rfl⟩

/-- `输出 “x”` followed by a statement that would panic: the block stops with the text's address -/
example : ∃ s1, stmtsLoop (evalStmt 2) none [.ret 0 (.str 0 "x"), .nil] s0 = (.ok (some 2), s1) :=
  ⟨_, stmts_stop_at_return (evalStmt 2) none (.ret 0 (.str 0 "x")) [.nil] s0 _ 2 2 _ _ rfl rfl rfl rfl⟩

example : (evalStmt 2 (.ret 0 (.str 0 "x")) s0).1 = .ok 2 := by
  rw [ret_sets_slot 1 0 (.str 0 "x") s0 _ _ _ _ _ 2 rfl rfl rfl]

example : ∃ t2, execBlockBody 4 [] (some [.ret 0 (.str 0 "x")]) [] [] s0 = (.ok 2, t2) :=
  ⟨_, block_value_is_return 4 [] (some [.ret 0 (.str 0 "x")]) [] [] s0 s0 _ 2 rfl rfl rfl⟩

/-- calling `f` (输出 “x”): the value is the text, the stack afterwards is the caller's -/
example : (execDirectFunction 7 "f" [] sF).1 = .ok 1 ∧ (execDirectFunction 7 "f" [] sF).2.stack = sF.stack := by
  rw [call_result_is_return 6 "f" [] sF _ 0 0 _ 1 rfl rfl rfl]
  exact ⟨rfl, rfl⟩

/-- `以 5（向下取整）` and `新建 点：7` from the script frame: stack, module (0) and 其 (none) are the caller's afterwards -/
example : (execMethodFunction 2 0 "向下取整" [] sN).2.csModuleID = 0 :=
  (method_call_restores_caller 2 0 "向下取整" [] sN _ 1 rfl rfl).2.1

example : SameStack sC.stack (construct 6 0 [] sC).2.stack :=
  (construct_restores_caller 6 0 [] sC _ 3 rfl rfl).1

/-- `… 得到 r` then `r = …`: error 44 -/
example : ∃ s' : VM Int, setElement "r" 1 s' = (.err (.rt 44), s') :=
  ⟨_, (yield_binds_const ⟨0, "r"⟩ 0 1 s0 _ 0 (by decide) rfl).2⟩

/-- `以 5（向下取整）（…rest…）`: the result cell (address 1) is the receiver of the rest of the chain -/
example (cs : List Expr) : ∃ s1, (.call 0 (some ⟨0, "向下取整"⟩) [] none :: cs).foldlM (chainStep 2) 0 sN =
    cs.foldlM (chainStep 2) 1 s1 :=
  ⟨_, chain_feeds_result 2 0 1 _ cs sN _ rfl⟩

example : chainStep 2 0 (.call 0 (some ⟨0, "向下取整"⟩) [] none) sN = execMethodFunction 2 0 "向下取整" [] sN :=
  chain_step_calls_receiver 2 0 0 ⟨0, "向下取整"⟩ [] none (by decide) sN sN [] (.nil _)

/-- `新建 点：…`: the default 5 is copied to a fresh cell (address 2), the instance is address 3, and the constructor
frame's receiver is 3 -/
example : ∃ s2 : VM Int, getThis s2 = (.ok (some 3), s2) ∧ s2.heap[3]? = some (.obj 0 [("x", 2)]) ∧
    construct 3 0 [7] sC = (do let _ ← evalExecBlock 2 (some (.mk [] (some []) [])) [7]; popFrame; pure 3) s2 :=
  let h := constructor_gets_args_and_this 2 0 [7] sC _ "点" 0 (some (.mk [] (some []) [])) [("x", 1)] [("x", 2)] []
    rfl rfl
  ⟨_, h.2.2.1, h.2.2.2, h.1⟩

example : (execMethodFunction 1 1 "走" [] sO).1 = .err (.rt 46) :=
  unknown_method_is_error 0 1 "走" [] sO 0 [] "点" .default [] [] 0 0 rfl rfl rfl rfl

/-- 空 has no methods at all; a number has no method 走 -/
example : (execMethodFunction 1 1 "走" [] s0).1 = .err (.rt 46) :=
  unknown_builtin_method_call_is_error 0 1 "走" [] s0 .null rfl (by intro c p h; cases h) (by simp [builtinMethodNames])

example : builtinMethod 1 0 "走" [] sN = (.err (.rt 46), sN) :=
  unknown_builtin_method_is_error 1 0 "走" [] sN (.num 5) rfl (by simp [builtinMethodNames])

/-- `f：（显示：“a”）、（显示：“b”）`: the arguments display a, then b (their values are the 空 cells 2 and 4); whatever `f`
displays comes after -/
example : ∃ tbody s1, RunsInOrderT (evalExpr 4) [.call 0 (some ⟨0, "显示"⟩) [.str 0 "a"] none,
      .call 0 (some ⟨0, "显示"⟩) [.str 0 "b"] none] sD [2, 4] s1 [["a"], ["b"]] ∧
    (evalExpr 5 (.call 0 (some ⟨0, "f"⟩) [.call 0 (some ⟨0, "显示"⟩) [.str 0 "a"] none,
      .call 0 (some ⟨0, "显示"⟩) [.str 0 "b"] none] none) sD).2.out = tbody ++ ["b", "a"] ++ sD.out := by
  have hts : RunsInOrderT (evalExpr 4) [.call 0 (some ⟨0, "显示"⟩) [.str 0 "a"] none,
      .call 0 (some ⟨0, "显示"⟩) [.str 0 "b"] none] sD [2, 4] _ [["a"], ["b"]] :=
    .cons (s1 := (evalExpr 4 (.call 0 (some ⟨0, "显示"⟩) [.str 0 "a"] none) sD).2) rfl rfl
      (.cons (s1 := (evalExpr 4 (.call 0 (some ⟨0, "显示"⟩) [.str 0 "b"] none)
        (evalExpr 4 (.call 0 (some ⟨0, "显示"⟩) [.str 0 "a"] none) sD).2).2) rfl rfl (.nil _))
  obtain ⟨ts, tbody, h1, _, _, h4⟩ := call_trace_is_args_then_body 4 0 ⟨0, "f"⟩
    [.call 0 (some ⟨0, "显示"⟩) [.str 0 "a"] none, .call 0 (some ⟨0, "显示"⟩) [.str 0 "b"] none] none (by decide)
    sD _ [2, 4] (.cons rfl (.cons rfl (.nil _)))
  have hcat : ts.reverse.flatten = ["b", "a"] :=
    List.append_cancel_right (h1.out.1.symm.trans hts.out.1)
  exact ⟨tbody, _, hts, by rw [h4, hcat]⟩

/-- inside a method frame whose receiver is the object at address 1, `其x` reads through address 1; at script level
(no receiver) it is error 48 -/
example : memberIV 1 (.member 0 2 .nil 1 (some ⟨0, "x"⟩) .nil)
    { sO with stack := { moduleId := 0, callType := 2, this := some 1 } :: sO.stack } =
    (.ok (3, 1, "x", 0), { sO with stack := { moduleId := 0, callType := 2, this := some 1 } :: sO.stack }) :=
  this_is_receiver 0 0 ⟨0, "x"⟩ _ _ _ 1 rfl rfl

example : memberIV 1 (.member 0 2 .nil 1 (some ⟨0, "x"⟩) .nil) sO = (.err (.rt 48), sO) :=
  this_without_receiver_is_error 0 0 ⟨0, "x"⟩ sO _ _ rfl rfl

example : getProperty 1 1 "y" sO = (.err (.rt 45), sO) :=
  (unknown_property_is_error 1 1 sO 0 [] "y" rfl (by decide) rfl).1

/-- an instance (address 3) with property x: writing x changes that cell only -/
example : ∃ s' : VM Int, setProperty 3 "x" 0 sP = (.ok (), s') ∧ s'.heap[3]? = some (.obj 0 [("x", 0)]) :=
  ⟨_, property_write_local 3 sP 0 [("x", 2)] "x" 0 2 rfl rfl, rfl⟩

end examples

end ZnVerif.Properties.C08
