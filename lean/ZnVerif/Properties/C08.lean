/-
C08 — Method calls and objects bind arguments, receivers and results correctly.
-/
import ZnVerif.Model.Interp
set_option linter.unusedSectionVars false

namespace ZnVerif.Properties.C08
open ZnVerif.Model

variable {ν : Type} [NumOps ν]

/-- 其 denotes the receiver of the innermost active call: a property read through 其 reads the `this` of the top frame -/
theorem this_is_receiver (n ln : Nat) (m : Ident) (s : VM ν) (fr : Frame) (rest : List Frame) (t : Addr)
    (hs : s.stack = fr :: rest) (ht : fr.this = some t) :
    memberIV (n+1) (.member ln 2 .nil 1 (some m) .nil) s = (.ok (3, t, m.lit, 0), s) := by
  simp [memberIV, bind, getThis, topFrame, hs, ht, pure]

/-- outside any method (no receiver) 其 is error 48 -/
theorem this_without_receiver_is_error (n ln : Nat) (m : Ident) (s : VM ν) (fr : Frame) (rest : List Frame)
    (hs : s.stack = fr :: rest) (ht : fr.this = none) :
    memberIV (n+1) (.member ln 2 .nil 1 (some m) .nil) s = (.err (.rt 48), s) := by
  simp [memberIV, bind, getThis, topFrame, hs, ht, pure, rtErr, throwE]

/-- an unknown property of an object is error 45, an unknown property write likewise (the object is unchanged) -/
theorem unknown_property_is_error (n : Nat) (a : Addr) (s : VM ν) (c : Addr) (props : List (String × Addr)) (name : String)
    (hc : s.heap[a]? = some (.obj c props)) (hne : name ≠ "自身") (hl : lookup name props = none) :
    getProperty n a name s = (.err (.rt 45), s) ∧ ∀ v, setProperty a name v s = (.err (.rt 45), s) := by
  constructor
  · simp only [getProperty]
    simp [bind, getCell, hc, hne]
    simp [hl, rtErr, throwE]
  · intro v
    simp [setProperty, bind, getCell, hc, hl, rtErr, throwE]

/-- a property write on one object changes that object's cell only -/
theorem property_write_local (a : Addr) (s : VM ν) (c : Addr) (props : List (String × Addr)) (name : String) (v w : Addr)
    (hc : s.heap[a]? = some (.obj c props)) (hl : lookup name props = some w) :
    setProperty a name v s = (.ok (), { s with heap := s.heap.set! a (.obj c (assocSet name v props)) }) := by
  have ha : a < s.heap.size := by
    rcases Nat.lt_or_ge a s.heap.size with h | h
    · exact h
    · rw [Array.getElem?_eq_none h] at hc; cases hc
  have hget : s.heap[a] = .obj c props := by
    have := Array.getElem?_eq_getElem ha ▸ hc
    simpa using this
  simp [setProperty, bind, getCell, hc, setCell, ha]
  simp [hget, hl, setCell, ha]

end ZnVerif.Properties.C08
