/-
C10 — no program can crash the host process.

Whatever built-in property, method, operator, index, constructor, library function or input-variable text is
applied to whatever values, the outcome is a value or a Zn error delivered through the normal error channel —
never a Go runtime panic, a nil result that crashes the caller, or a process exit.

In the model (Model/Interp.lean) a Go panic is the outcome `.panic`, running out of fuel is the separate
outcome `.fuel`, a value is the address of a heap cell.  The theorems below quantify over every receiver,
every member name (any string at all), every argument list, every heap that is well-formed, and — numbers
being abstract (`NumOps ν`, no laws) — every `Int` that `NumOps.toInt` can return for an index.

Tie to the code: `Generated.Members` (regenerated from /repo on every run) lists every member name of every
built-in type, the library registrations, the predefined names, the class definitions of pkg/common, every
`Validate*Params` call with its patterns, the `return nil, nil` sites and the shape of the `golang:` cast;
`members_all_modelled` / `members_all_answered` fail when the code gains a member the model does not dispatch on or
does not answer.  The sweep
(tools/props/c10.py, harness op `value`) runs the full product on the real code and compares with the model.
-/
import ZnVerif.Proofs.BuiltinMembers
import ZnVerif.Proofs.TextTotal
import ZnVerif.Proofs.Validate
import ZnVerif.Generated.Members
set_option linter.unusedSectionVars false

namespace ZnVerif.Properties.C10
open ZnVerif.Model ZnVerif.Proofs.Builtins ZnVerif.Generated

variable {ν : Type} [NumOps ν]

/-! ## the heap invariant

`WfHeap s` (Proofs/Builtins.lean): every address stored in a cell of `s.heap` is smaller than the heap size; a
dictionary's key order lists keys of its map without repetition (the invariant of `value.HashMap`); the class
of an object is a class cell (Go: the field `model *ClassModel` is typed).  `ArgsIn s a vals`: receiver and
arguments are addresses of cells. -/

def ArgsIn (s : VM ν) (a : Addr) (vals : List Addr) : Prop := a < s.heap.size ∧ ∀ v ∈ vals, v < s.heap.size

/-- what a run that did not panic guarantees: the heap is still well-formed, it only grew (no address became
    dangling, classes stayed classes), and a value is the address of a cell -/
def GoodOutcome (s : VM ν) (p : Res Addr × VM ν) : Prop :=
  p.1 ≠ .panic ∧ WfHeap p.2 ∧ s.heap.size ≤ p.2.heap.size ∧ ∀ r, p.1 = .ok r → r < p.2.heap.size

def GoodOutcomeU (s : VM ν) (p : Res Unit × VM ν) : Prop :=
  p.1 ≠ .panic ∧ WfHeap p.2 ∧ s.heap.size ≤ p.2.heap.size

theorem good_of_post {s : VM ν} {p : Res Addr × VM ν} (h : Post Ext s (fun r s' => r < s'.heap.size) p) : GoodOutcome s p := by
  rcases p with ⟨r, s'⟩
  cases r with
  | ok a => exact ⟨by simp, h.1, h.2.1.size, fun r hr => by cases hr; exact h.2.2⟩
  | err e => exact ⟨by simp, h.1, h.2.size, fun r hr => by cases hr⟩
  | panic => exact h.elim
  | fuel => exact ⟨by simp, h.1, h.2.size, fun r hr => by cases hr⟩
  | unmodelled => exact ⟨by simp, h.1, h.2.size, fun r hr => by cases hr⟩

theorem goodU_of_post {s : VM ν} {p : Res Unit × VM ν} (h : Post Ext s (fun _ _ => True) p) : GoodOutcomeU s p := by
  rcases p with ⟨r, s'⟩
  cases r with
  | ok a => exact ⟨by simp, h.1, h.2.1.size⟩
  | err e => exact ⟨by simp, h.1, h.2.size⟩
  | panic => exact h.elim
  | fuel => exact ⟨by simp, h.1, h.2.size⟩
  | unmodelled => exact ⟨by simp, h.1, h.2.size⟩

/-! ## totality of the built-in members -/

/-- every method of list, dictionary, number and text (and the "no such method" answer of every other value):
    for every fuel, receiver, method name, argument list and well-formed state, no panic — in particular the
    slice expressions of 新增/添加 and the index expressions of 交换 for ALL `Int`s `NumOps.toInt` can return,
    the type assertions after `Validate*Params`, the key-order reads of 所有值/移除 — the heap stays well-formed
    and a result is the address of a cell (`no_nil_results`) -/
theorem builtin_total (n : Nat) (a : Addr) (name : String) (vals : List Addr) (s : VM ν)
    (hs : WfHeap s) (hargs : ArgsIn s a vals) : GoodOutcome s (builtinMethod n a name vals s) :=
  good_of_post (post_builtinMethod n name vals hs hargs.1 hargs.2)

/-- the statement of the brief, literally -/
theorem builtin_never_panics (n : Nat) (a : Addr) (name : String) (vals : List Addr) (s : VM ν)
    (hs : WfHeap s) (hargs : ArgsIn s a vals) : (builtinMethod n a name vals s).1 ≠ .panic :=
  (builtin_total n a name vals s hs hargs).1

theorem getProperty_total (n : Nat) (a : Addr) (name : String) (s : VM ν) (hs : WfHeap s) (ha : a < s.heap.size) :
    GoodOutcome s (getProperty n a name s) :=
  good_of_post (post_getProperty n name hs ha).ofPre

theorem setProperty_total (a : Addr) (name : String) (v : Addr) (s : VM ν) (hs : WfHeap s)
    (ha : a < s.heap.size) (hv : v < s.heap.size) : GoodOutcomeU s (setProperty a name v s) :=
  goodU_of_post (post_setProperty name hs ha hv)

/-- `root # index` and `root 之 name` read: every kind tag, every `Int` index -/
theorem reduceRHS_total (n kind : Nat) (root : Addr) (name : String) (idx : Int) (s : VM ν) (hs : WfHeap s)
    (hr : root < s.heap.size) : GoodOutcome s (reduceRHS n (kind, root, name, idx) s) :=
  good_of_post (post_reduceRHS n kind name idx hs hr).ofPre

/-- `root # index = v` and `root 之 name = v` -/
theorem reduceLHS_total (kind : Nat) (root v : Addr) (name : String) (idx : Int) (s : VM ν) (hs : WfHeap s)
    (hr : root < s.heap.size) (hv : v < s.heap.size) : GoodOutcomeU s (reduceLHS (kind, root, name, idx) v s) :=
  goodU_of_post (post_reduceLHS kind name idx hs hr hv)

/-! ## the text methods -/

open ZnVerif.Proofs.TextTotal in
/-- `text_methods_total`: a text method — any name at all — applied to a text receiver and ANY argument list (wrong types,
    wrong counts, every `Int` that `NumOps.toInt` can return for the positions of 取样) ends, inside the fragment the model
    covers (`TextFragment`), with a value that is the address of a cell or with a Zn error (MethodNotFound 46, a parameter
    count / type error 53 / 82, or the exception signal of 取样 / 转换数值): never a panic — in particular the slice
    `ss[startIdx-1 : endIdx]` of `strExecSlice` is never out of range —, never `unmodelled`, never out of fuel; the heap
    stays well-formed -/
theorem text_methods_total (n : Nat) (a : Addr) (name : String) (vals : List Addr) (s : VM ν) (t : String)
    (hs : WfHeap s) (hargs : ArgsIn s a vals) (ht : s.heap[a]? = some (.str t)) (hf : TextFragment t name) :
    ((∃ r, (builtinMethod n a name vals s).1 = .ok r ∧ r < (builtinMethod n a name vals s).2.heap.size) ∨
     (∃ e, (builtinMethod n a name vals s).1 = .err e)) ∧ WfHeap (builtinMethod n a name vals s).2 := by
  have g := builtin_total n a name vals s hs hargs
  have d := ends_text n a name vals t s ht hf
  refine ⟨?_, g.2.1⟩
  rcases h : builtinMethod n a name vals s with ⟨r, s'⟩
  rw [h] at g d
  cases r with
  | ok r => exact .inl ⟨r, rfl, g.2.2.2 r rfl⟩
  | err e => exact .inr ⟨e, rfl⟩
  | panic => exact absurd rfl g.1
  | fuel => exact d.elim
  | unmodelled => exact d.elim

open ZnVerif.Proofs.TextTotal in
/-- … and the fragment is exact: outside it the model says `notModelled` (it never guesses a value) -/
theorem text_methods_outside_fragment (n : Nat) (a : Addr) (vals : List Addr) (s : VM ν) (t : String)
    (ht : s.heap[a]? = some (.str t)) :
    (TextOps.toLower (textBytes t) = none → (builtinMethod n a "转小写-英文" vals s).1 = .unmodelled) ∧
    (TextOps.toUpper (textBytes t) = none → (builtinMethod n a "转大写-英文" vals s).1 = .unmodelled) ∧
    (TextOps.atofClass (TextOps.atoiRewrite (textBytes t)) = .special →
      (builtinMethod n a "转换数值" vals s).1 = .unmodelled) := by
  refine ⟨fun h => ?_, fun h => ?_, fun h => ?_⟩
  · unfold builtinMethod
    rw [bind_apply, getCell_apply ht]
    simp only [h]
    rfl
  · unfold builtinMethod
    rw [bind_apply, getCell_apply ht]
    simp only [h]
    rfl
  · unfold builtinMethod
    rw [bind_apply, getCell_apply ht]
    simp only []
    rw [bind_apply, setCell_apply _ (lt_size_of_get ht)]
    simp only [h]
    rfl

/-- helpers the members call, for completeness: display (`String()`), equality, copy -/
theorem display_total (n : Nat) (a : Addr) (s : VM ν) (hs : WfHeap s) (ha : a < s.heap.size) :
    (display n a s).1 ≠ .panic ∧ (display n a s).2 = s := by
  obtain ⟨r, hr, hq⟩ := ro_display n hs ha
  rw [hr]
  exact ⟨by cases r <;> first | exact hq.elim | simp, rfl⟩

theorem dup_total (n : Nat) (a : Addr) (s : VM ν) (hs : WfHeap s) (ha : a < s.heap.size) : GoodOutcome s (dup n a s) :=
  good_of_post (post_dup n hs ha).ofPre

/-- 新建 with the default constructor of a user type or the constructor of the predefined 异常: the property
    defaults are copied, the object is allocated, the arguments of 异常 are validated — no panic for any
    argument list (a user-defined constructor runs a method body: evaluator) -/
theorem construct_total (n : Nat) (cv : Addr) (params : List Addr) (s : VM ν) (nm : String) (ctor : Ctor)
    (props methods : List (String × Addr)) (hs : WfHeap s) (hc : s.heap[cv]? = some (.cls nm ctor props methods))
    (hctor : ∀ mid exec, ctor ≠ .user mid exec) (hp : ∀ v ∈ params, v < s.heap.size) :
    GoodOutcome s (construct n cv params s) :=
  good_of_post (post_construct n params hs hc hctor hp).ofPre

/-- 显示 applied to any argument list -/
theorem display_function_total (n : Nat) (params : List Addr) (s : VM ν) (hs : WfHeap s)
    (hp : ∀ v ∈ params, v < s.heap.size) : GoodOutcome s (execFunction n .display none params s) :=
  good_of_post (post_displayFn n none params hs hp).ofPre

/-- `no_nil_results`, spelled out: a value answered by a member is the address of an existing cell.  What this
    means for Go: no member function returns `nil, nil`; the extractor lists every `return nil, nil` of
    pkg/value, pkg/common, stdlib/json, stdlib/file, exec/globals.go, exec/exec_varinput.go — none is left. -/
theorem no_nil_results (n : Nat) (a : Addr) (name : String) (vals : List Addr) (s s' : VM ν) (r : Addr)
    (hs : WfHeap s) (hargs : ArgsIn s a vals) (h : builtinMethod n a name vals s = (.ok r, s')) :
    ∃ c, s'.heap[r]? = some c := by
  have := (builtin_total n a name vals s hs hargs).2.2.2 r (by rw [h])
  rw [h] at this
  exact get_of_lt_size this

theorem no_nil_return_sites : Members.nilReturnSites = [] := by decide

/-! non-vacuity: a well-formed state with a list, a dictionary, a number and a text; the former crash input of
    新增 (position −10 in a list of three) is an index error, not a panic -/

section examples
instance unitNum : NumOps Unit where
  add _ _ := (); sub _ _ := (); mul _ _ := (); div _ _ := (); floor _ := (); ceil _ := (); sqrt _ := ()
  eq _ _ := true; lt _ _ := false; gt _ _ := false; le _ _ := true; ge _ _ := true
  isZero _ := false; leZero _ := false; ofInt _ := (); toInt _ := -10; parse _ := (); fmt _ := ""

def s1 : VM Unit := { heap := #[.arr [2, 2, 2], .hm [("k", 2)] ["k"], .num (), .str "文", .bool true, .null] }

theorem s1_wf : WfHeap s1 := by
  intro a c h
  have ha : a < 6 := lt_size_of_get h
  match a, ha with
  | 0, _ => injection h with h; subst h; intro x hx; simp at hx; subst hx; decide
  | 1, _ => injection h with h; subst h; exact ⟨by intro p hp; simp at hp; subst hp; decide, by intro k hk; simp at hk; subst hk; rfl, by simp⟩
  | 2, _ => injection h with h; subst h; trivial
  | 3, _ => injection h with h; subst h; trivial
  | 4, _ => injection h with h; subst h; trivial
  | 5, _ => injection h with h; subst h; trivial

example : ArgsIn s1 0 [3, 2] := ⟨by decide, by decide⟩
/-- toInt = −10 on a list of three: the guard answers IndexOutOfRange (40) -/
example : (builtinMethod 5 0 "新增" [3, 2] s1).1 = .err (.rt 40) := by rfl
example : (builtinMethod 5 0 "新增" [3, 2] s1).1 ≠ .panic := builtin_never_panics 5 0 "新增" [3, 2] s1 s1_wf ⟨by decide, by decide⟩
/-- without the guard `insertArrayValue` is the Go slice panic: the guard is what the theorem rests on -/
example : insertArrayValue [2, 2, 2] (-10) 3 = .panic := by rfl
/-- the text methods on the text “文” (address 3): a wrong argument count is error 53, a wrong type error 82, 取样 beyond the
    end is the exception signal, 转换数值 of a non-numeral too — and all of it is inside the fragment -/
example : Proofs.TextTotal.TextFragment "文" "转换数值" := by
  refine ⟨fun h => absurd h (by decide), fun h => absurd h (by decide), fun _ => (by decide)⟩
example : (builtinMethod 5 3 "替换" [3] s1).1 = .err (.rt 53) := by rfl
example : (builtinMethod 5 3 "匹配" [2] s1).1 = .err (.rt 82) := by rfl
example : (builtinMethod 5 3 "取样" [2, 2] s1).1 = .err (.sigExc 6) := by rfl
example : (builtinMethod 5 3 "转换数值" [] s1).1 = .err (.sigExc 6) := by rfl
example : (builtinMethod 5 3 "去除空格" [0, 1] s1).1 = .ok 6 := by rfl
end examples

/-! ## the member tables of the code are the names the model dispatches on -/

/-- one cell of every built-in type -/
def probeState : VM Unit :=
  { heap := #[.arr [], .hm [] [], .num (), .str "", .bool true, .null, .cls "c" .default [] [], .obj 6 [], .fn .display, .exc ""] }

def probeAddr : String → Option Nat
  | "array" => some 0 | "hashmap" => some 1 | "number" => some 2 | "string" => some 3 | "bool" => some 4
  | "null" => some 5 | "class" => some 6 | "object" => some 7 | "function" => some 8 | "exception" => some 9
  | _ => none

inductive Disp | found | notFound | unmodelled
  deriving DecidableEq

def classify {α} (notFoundCode : Nat) : Res α → Disp
  | .err (.rt c) => if c == notFoundCode then .notFound else .found
  | .unmodelled => .unmodelled
  | _ => .found

/-- what the MODEL answers when the member (type, kind, name) is applied to a value of that type without
    arguments: `notFound` = PropertyNotFound (45) / MethodNotFound (46), i.e. the model does not know the name -/
def dispatch (m : String × String × String) : Disp :=
  match probeAddr m.1 with
  | none => .notFound
  | some a =>
    if m.2.1 == "g" then classify 45 (getProperty 3 a m.2.2 probeState).1
    else if m.2.1 == "s" then classify 45 (setProperty a m.2.2 5 probeState).1
    else classify 46 (builtinMethod 3 a m.2.2 [] probeState).1

/-- members the model dispatches on but answers `notModelled` for on every receiver: none is left (the text methods that
    wrap Go's `strings` / `strconv` packages are modelled in Model/TextMethods.lean) -/
def unmodelledMembers : List (String × String × String) := []

/-- members the model answers `notModelled` for on SOME receivers only — outside `TextFragment`: case mapping of a text
    holding a letter that is neither English nor caseless, 转换数值 of a spelling `strconv.ParseFloat` accepts beyond plain
    decimal numerals (inf / nan, hexadecimal, underscores) or of a numeral that may be out of range -/
def partlyModelledMembers : List (String × String × String) := [
  ("string", "m", "转小写-英文"), ("string", "m", "转大写-英文"), ("string", "m", "转换数值")]

/-- library functions and the random generator have no model in Model/Interp.lean (swept on the real code only; JSON: Model/Json.lean, C19) -/
def unmodelledLibrary : List (String × String × String) := [
  ("@JSON", "f", "解析JSON"), ("@JSON", "f", "生成JSON"),
  ("@文件", "f", "读取文件"), ("@文件", "f", "写入文件"), ("@文件", "f", "读取目录")]
/-- the value classes of pkg/common: modelled in Model/HttpValues.lean (constructors total: Properties/C10Http.lean, which also
    proves the model's class table equal to `Members.classes`) -/
def commonClasses : List String := ["HTTP请求", "HTTP响应"]

set_option maxRecDepth 100000 in
/-- every member name of every built-in type of the code is a name the model dispatches on -/
theorem members_all_modelled : ∀ m ∈ Members.members, dispatch m ≠ .notFound := by decide

set_option maxRecDepth 100000 in
/-- … and the model answers `notModelled` exactly for the listed ones: modelled ∪ unmodelledMembers is complete -/
theorem unmodelled_members_exact : ∀ m ∈ Members.members, (dispatch m = .unmodelled ↔ m ∈ unmodelledMembers) := by decide

set_option maxRecDepth 100000 in
/-- stronger: applied to the probe value of its type without arguments, every member of the code is ANSWERED by the model
    (a value, or an error other than "no such member") — the text methods included -/
theorem members_all_answered : ∀ m ∈ Members.members, dispatch m = .found := by decide

/-- every value type of pkg/value is a type the model has cells for (GoValue has no member and no literal) -/
theorem types_all_modelled : ∀ t ∈ Members.types, (probeAddr t).isSome = true ∨ t = "govalue" := by decide

/-- only objects look members up dynamically (user-defined properties and methods: evaluator, C08) -/
theorem dynamic_lookups_are_objects : Members.dynamicLookups = ["object:g", "object:m", "object:s"] := by decide

/-- the predefined names are the ones the model's initial VM binds -/
theorem globals_all_modelled : (initVM (ν := Unit) ()).globals.map (·.1) = Members.globals := by decide

theorem constructables_modelled : Members.constructables = ["class", "number"] := by decide

theorem libraries_listed : ∀ l ∈ Members.libraries, l ∈ unmodelledLibrary := by decide
theorem classes_listed : ∀ c ∈ Members.classes, c.1 ∈ commonClasses := by decide

/-! ## the validators -/

open ZnVerif.Model.Validate in
/-- `ValidateLeastParams`' own indexing (`values[idx]`, `matches[2]`) and the `golang:` cast: the repaired code
    never panics, for every list of values and every list of patterns that contain a word character -/
theorem validate_least_params_total (values : List VKind) (pats : List String)
    (hp : ∀ p ∈ pats, (parsePat p).isSome = true) : validateLeast true true values pats ≠ .panic :=
  ZnVerif.Proofs.Validate.validateLeastFrom_guarded values pats 0 hp

open ZnVerif.Model.Validate in
theorem validate_exact_params_total (values : List VKind) (tys : List String) : validateExact true values tys ≠ .panic :=
  ZnVerif.Proofs.Validate.validateExact_guarded values tys

open ZnVerif.Model.Validate in
theorem validate_all_params_total (values : List VKind) (ty : String) : validateAll true values ty ≠ .panic :=
  ZnVerif.Proofs.Validate.validateAllFrom_guarded ty values

open ZnVerif.Model.Validate in
/-- every pattern any caller in pkg/value, pkg/common, stdlib/json, stdlib/file, exec/globals.go passes contains a word character -/
theorem registered_patterns_wellformed :
    ∀ c ∈ Members.validateCalls, ∀ p ∈ c.2.2, (parsePat p).isSome = true := by decide

open ZnVerif.Model.Validate in
/-- the defect the sweep found, on its witness: before the repair (`idxGuarded = false`) the constructors of
    HTTP请求 / HTTP响应 (`ValidateLeastParams(values, "string", "string", "any?")`) index past the end when fewer than
    two values are given -/
example : validateLeast false true [] ["string", "string", "any?"] = .panic := by decide
open ZnVerif.Model.Validate in
example : validateLeast false true [.string] ["string", "string", "any?"] = .panic := by decide
open ZnVerif.Model.Validate in
example : validateLeast false true [.number] ["number", "any", "hashmap?"] = .panic := by decide
open ZnVerif.Model.Validate in
/-- the repaired code answers LeastParamsError (50) -/
example : validateLeast true true [.string] ["string", "string", "any?"] = .err 50 := by decide
open ZnVerif.Model.Validate in
/-- hmExecGet's pattern never reaches the indexing branch, repaired or not -/
example : validateLeast false false [] ["string+"] = .ok := by decide

/-- no function registered in pkg/value, pkg/common, stdlib/json, stdlib/file, exec/globals.go uses a `golang:` type string -/
theorem no_registered_golang_pattern :
    ∀ c ∈ Members.validateCalls, ∀ p ∈ c.2.2, Validate.hasPrefix p Validate.golangPrefix = false := by decide

/-- the unchecked `v.(*GoValue)` after a failed type test: either the cast is guarded in the code, or no registered
    function uses a `golang:` type string (then the branch is unreachable from programs) -/
theorem golang_cast_guarded :
    Members.golangCastShape = "guarded" ∨
    ∀ c ∈ Members.validateCalls, ∀ p ∈ c.2.2, Validate.hasPrefix p Validate.golangPrefix = false := by decide

open ZnVerif.Model.Validate in
/-- what the guard is for: without it a non-GoValue argument of a `golang:` parameter is a Go panic -/
example : validateOne false .number "golang:x" = .panic := by decide
open ZnVerif.Model.Validate in
example : validateOne true .number "golang:x" = .err 82 := by decide

end ZnVerif.Properties.C10
