/-
C16 — Executions are isolated from one another.
-/
import ZnVerif.Model.Process

namespace ZnVerif.Properties.C16
open ZnVerif.Model.Process ZnVerif.Generated

/-- table fact (regenerated from globals.go on every run): every predefined value is either built afresh for
each execution or of a kind no program can change in place. -/
theorem predefined_values_isolated : Process.globals.all isolatedGlobal = true := by decide

/-- every VM created in pkg/exec is fed by `NewGlobalValues()` -/
theorem every_vm_gets_fresh_globals : Process.initVMSites = Process.initVMSitesFresh ∧ 0 < Process.initVMSites := by decide

/-- `LoadScript` and `LoadFile` begin with `z = z.clone()` and `clone` is a plain struct copy -/
theorem loads_work_on_a_copy :
    Process.loadScriptClones = true ∧ Process.loadFileClones = true ∧ Process.cloneIsStructCopy = true := by decide

/-- loading never writes the shared interpreter (repaired code), for every interleaving -/
theorem shared_interpreter_never_written (steps : List Step) (w : World) :
    (run step w steps).shared = w.shared := by
  induction steps generalizing w with
  | nil => rfl
  | cons s rest ih =>
    simp only [run, List.foldl_cons] at ih ⊢
    rw [ih]; cases s <;> rfl

/-- a handle, once returned to a request, keeps yielding that request's source whatever the others do -/
theorem handle_is_own (steps : List Step) (w : World) (i : Nat)
    (h : lookupH i w.handle = some { w.shared with finder := some i })
    (hnoreload : ∀ s ∈ steps, s ≠ .load i) :
    lookupH i (run step w steps).handle = some { w.shared with finder := some i } := by
  induction steps generalizing w with
  | nil => exact h
  | cons s rest ih =>
    have hs : s ≠ .load i := hnoreload s (by simp)
    have hrest : ∀ t ∈ rest, t ≠ .load i := fun t ht => hnoreload t (by simp [ht])
    simp only [run, List.foldl_cons] at ih ⊢
    cases s with
    | load j =>
      have hji : i ≠ j := by intro e; subst e; exact hs rfl
      exact ih (step w (.load j)) (by simp [step, lookupH, hji, h]) hrest
    | exec j => exact ih (step w (.exec j)) (by simpa [step] using h) hrest

/-- **each request runs its own source**: for every interleaving of the load/execute steps of any number of
requests, when request `i` executes after its own load it runs source `i`. -/
theorem request_runs_its_own_source (pre post : List Step) (i : Nat) (w : World)
    (hnoreload : ∀ s ∈ post, s ≠ .load i) :
    (i, some i) ∈ (run step w (pre ++ [.load i] ++ post ++ [.exec i])).ran := by
  have h1 : run step w (pre ++ [.load i] ++ post ++ [.exec i]) =
      step (run step (step (run step w pre) (.load i)) post) (.exec i) := by
    simp [run, List.foldl_append]
  rw [h1]
  have hsh : (run step w pre).shared = w.shared := shared_interpreter_never_written pre w
  have hh := handle_is_own post (step (run step w pre) (.load i)) i (by simp [step, lookupH]) hnoreload
  simp only [step] at hh ⊢
  simp [hh]

/-- the pinned code did not have this property: two requests whose loads both precede the first execute -/
theorem old_code_runs_foreign_source :
    (1, some 2) ∈ (run stepOld {} [.load 1, .load 2, .exec 1]).ran := by decide

-- non-vacuity: a concrete interleaving of three requests
example : (1, some 1) ∈ (run step {} ([.load 2] ++ [.load 1] ++ [.load 3, .exec 3, .exec 2] ++ [.exec 1])).ran :=
  request_runs_its_own_source [.load 2] [.load 3, .exec 3, .exec 2] 1 {} (by decide)

end ZnVerif.Properties.C16
