/-
C12 — Lists are 1-indexed sequences, dictionaries insertion-ordered maps (container core).
Property theorems only; helper lemmas live in ZnVerif/Proofs/Containers.lean.

Model: ZnVerif/Model/Containers.lean (array.go, hashmap.go, iv.go as written, generic in the element type).
Spec:  ZnVerif/Spec/Seq.lean, ZnVerif/Spec/OrderedMap.lean, ZnVerif/Spec/CollHistory.lean.

Every theorem quantifies over all element types, all lists / all reachable dictionaries and all operation
histories; the proofs are inductions, nothing is enumerated.  Not here (program level, attached later): iteration
order of 遍历, copies between operations, generated-JSON key order.
-/
import ZnVerif.Proofs.Containers

namespace ZnVerif.Properties.C12
open ZnVerif ZnVerif.Model.Containers ZnVerif.Spec ZnVerif.Proofs.Containers

variable {α : Type}

/-! ### the dictionary invariant, over every history -/

/-- From any state with the invariant, every history of 读取 / 写入 / 移除 / `D#k` / `D#k = v` keeps it:
keyOrder without duplicates, holding exactly the keys of the Go map, one map entry per key. -/
theorem hm_inv_from (sub : α → String → Option α) (ops : List (DictOp α)) :
    ∀ hm : HashMap α, Inv hm → Inv (ops.foldl (dictNext sub) hm) := by
  induction ops with
  | nil => intro hm h; exact h
  | cons op ops ih => intro hm h; exact ih _ (dictNext_inv sub h op)

/-- … and every dictionary the interpreter can build starts with it: `NewHashMap` on any literal, duplicate keys
included. -/
theorem hm_inv (sub : α → String → Option α) (kvs : List (String × α)) (ops : List (DictOp α)) :
    Inv (ops.foldl (dictNext sub) (newHashMap kvs)) :=
  hm_inv_from sub ops _ (newHashMap_spec kvs).1

-- non-vacuity: a literal with a duplicate key, then remove / re-insert / overwrite
example : hmAllIndexes ([DictOp.delete "a", .ivWrite "a" 7, .set "b" 8].foldl (dictNext (fun _ _ => none))
    (newHashMap [("a", 1), ("b", 2), ("a", 3)])) = ["b", "a"] := by decide

/-- The loop of `hmExecDelete` edits `hm.keyOrder` in place while ranging over it.  On a slice without duplicates
that is exactly `erase`: correct *because* of the invariant. -/
theorem delete_edits_in_place_ok (ks : List String) (k : String) (h : ks.Nodup) :
    deleteLoop ks k = .ok (ks.erase k) :=
  deleteLoop_eq_erase ks k h

example : deleteLoop ["a", "b", "c"] "b" = .ok ["a", "c"] := by decide
/-- without the invariant the same loop is wrong: one of two copies survives … -/
example : deleteLoop ["a", "a", "b"] "a" = .ok ["a", "b"] := by decide
/-- … or the second match slices past the already shortened header and the Go code panics -/
example : deleteLoop ["a", "b", "a"] "a" = .panic := by decide

/-! ### refinement: whole histories -/

/-- Dictionary: from any state with the invariant, a history never panics, and after every operation the result
and everything observable — displayed pairs, 长度, 所有索引, 所有值 — are those of the insertion-ordered map. -/
theorem dict_refines_ordered_map_from (sub : α → String → Option α) (ops : List (DictOp α)) :
    ∀ hm : HashMap α, Inv hm → ∃ tr, dictRun sub hm ops = .ok tr ∧
      tr.map (fun p => (p.1, observe p.2)) =
        (CollHistory.dictRun sub (abs hm) ops).map (fun p => (p.1, specObs p.2)) := by
  induction ops with
  | nil => intro hm _; exact ⟨[], rfl, rfl⟩
  | cons op ops ih =>
    intro hm h
    obtain ⟨hm', r, hs, hi, hsp⟩ := dictStep_spec sub h op
    obtain ⟨tr, htr, hobs⟩ := ih hm' hi
    refine ⟨(r, hm') :: tr, by simp only [dictRun, hs, htr], ?_⟩
    simp only [CollHistory.dictRun, hsp, List.map_cons, hobs, observe_abs hi]

theorem dict_refines_ordered_map (sub : α → String → Option α) (kvs : List (String × α)) (ops : List (DictOp α)) :
    observe (newHashMap kvs) = specObs (OrderedMap.ofList kvs) ∧
    ∃ tr, dictRun sub (newHashMap kvs) ops = .ok tr ∧
      tr.map (fun p => (p.1, observe p.2)) =
        (CollHistory.dictRun sub (OrderedMap.ofList kvs) ops).map (fun p => (p.1, specObs p.2)) := by
  have h := newHashMap_spec kvs
  refine ⟨by rw [observe_abs h.1, h.2], ?_⟩
  have := dict_refines_ordered_map_from sub ops _ h.1
  rw [h.2] at this
  exact this

/-- the spec side keeps its own well-formedness (no key twice), so the refinement is to a genuine ordered map -/
theorem abs_wellformed {hm : HashMap α} (h : Inv hm) : OrderedMap.WF (abs hm) := by
  unfold OrderedMap.WF; rw [keys_abs h]; exact h.1

example : (observe (newHashMap [("a", 1), ("b", 2), ("a", 3)])).display = .ok [("a", 3), ("b", 2)] := by decide

/-- List: every history on every list never panics and answers, operation by operation, what the 1-indexed
sequence answers (results, the list as displayed, hence its length). -/
theorem list_refines_seq (eq : α → α → Bool) (ops : List (ListOp α)) :
    ∀ v : List α, listRun eq v ops = .ok (CollHistory.listRun eq v ops) := by
  induction ops with
  | nil => intro v; rfl
  | cons op ops ih =>
    intro v
    simp only [listRun, listStep_eq, ih, CollHistory.listRun]

example : listRun (fun a b : Nat => a == b) [1, 2, 3]
    [.insert 9 (-10), .insert 9 (-1), .swap 1 4, .ivRead 5, .shiftLeft, .getReverse] =
    .ok [(.err 40, [1, 2, 3]), (.self, [1, 2, 9, 3]), (.self, [3, 2, 9, 1]), (.err 40, [3, 2, 9, 1]),
         (.elem 3, [2, 9, 1]), (.arr [1, 9, 2], [2, 9, 1])] := by decide

/-- the raw helper `insertArrayValue` still has its slice-bounds panic, exactly before the first item;
新增 (`arrayInsert`) guards it, so no list method can reach it -/
theorem insert_helper_panics_only_before_first (v : List α) (idx : Int) (x : α) :
    (insertArrayValue v idx x = .panic ↔ (idx < 0 ∧ (v.length : Int) + idx < 0)) ∧ arrayInsert v x idx ≠ .panic := by
  refine ⟨insertArrayValue_panic_iff v idx x, ?_⟩
  rw [arrayInsert_eq]
  cases Seq.insertAt v idx x <;> simp

/-! ### the sequence laws, stated outright on the algorithms -/

/-- 后增 then 末项 returns the element and the length grows by one -/
theorem append_then_last (v : List α) (x : α) :
    ∃ v', arrayAppend v x = .ok v' ∧ arrayGetLast v' = some x ∧ arrayGetLength v' = arrayGetLength v + 1 := by
  refine ⟨v ++ [x], arrayAppend_eq v x, ?_, ?_⟩
  · rw [arrayGetLast_eq]; simp
  · simp [arrayGetLength]

/-- 前增 then 首项 returns the element and the length grows by one -/
theorem prepend_then_first (v : List α) (x : α) :
    ∃ v', arrayPrepend v x = .ok v' ∧ arrayGetFirst v' = some x ∧ arrayGetLength v' = arrayGetLength v + 1 := by
  refine ⟨x :: v, arrayPrepend_eq v x, ?_, ?_⟩
  · rw [arrayGetFirst_eq]; simp
  · simp [arrayGetLength]

/-- length = number of stored elements: exactly the positions 1 … 长度 can be read -/
theorem length_counts (v : List α) (i : Int) :
    (∃ x, ivArrayRead v i = .ok x) ↔ (1 ≤ i ∧ i ≤ (arrayGetLength v : Int)) := by
  unfold arrayGetLength
  by_cases h1 : 1 ≤ i
  · rw [ivArrayRead_pos v i h1]
    by_cases h2 : i ≤ (v.length : Int)
    · have hlt : (i - 1).toNat < v.length := by omega
      rw [List.getElem?_eq_getElem hlt]
      exact ⟨fun _ => ⟨h1, h2⟩, fun _ => ⟨_, rfl⟩⟩
    · have : v.length ≤ (i - 1).toNat := by omega
      rw [List.getElem?_eq_none this]
      exact ⟨fun ⟨x, hx⟩ => (by cases hx), fun ⟨_, h⟩ => absurd h h2⟩
  · rw [ivArrayRead_neg v i h1]
    exact ⟨fun ⟨x, hx⟩ => (by cases hx), fun ⟨h, _⟩ => absurd h h1⟩

/-- dictionary: 长度 (the Go map's `len`) = number of keys listed = number of values listed, and exactly the
listed keys can be read -/
theorem dict_length_counts {hm : HashMap α} (h : Inv hm) :
    hmLength hm = (hmAllIndexes hm).length ∧ hmLength hm = (hmAllValues hm).length ∧
    ∀ k, (∃ v, ivMapRead hm k = .ok v) ↔ k ∈ hmAllIndexes hm := by
  have hl := length_abs h
  have hk : (abs hm).length = hm.keyOrder.length := by
    have := congrArg List.length (keys_abs h)
    simpa [OrderedMap.keys] using this
  refine ⟨?_, ?_, ?_⟩
  · rw [hl]; exact hk
  · rw [hl]; show (abs hm).length = (hm.keyOrder.map _).length
    rw [List.length_map]; exact hk
  · intro k
    unfold ivMapRead hmAllIndexes
    rw [h.2.1 k]
    constructor
    · rintro ⟨v, hv⟩
      cases hg : mapGet hm.value k with
      | none => rw [hg] at hv; cases hv
      | some w => exact mem_dom_of_mapGet hg
    · intro hd
      obtain ⟨v, hv⟩ := mapGet_some_of_mem hd
      exact ⟨v, by rw [hv]⟩

/-- 逆序 twice is the identity (and 逆序 never fails) -/
theorem reverse_involutive (v : List α) :
    ∃ r, arrayGetReverse v = .ok r ∧ arrayGetReverse r = .ok v ∧ r.length = v.length :=
  ⟨v.reverse, arrayGetReverse_eq v, by rw [arrayGetReverse_eq, List.reverse_reverse], by simp⟩

/-- 左移 undoes 前增, 右移 undoes 后增: the removed element is the one added and the list is the old one -/
theorem shift_pop_inverse_of_prepend_append (v : List α) (x : α) :
    (∃ v', arrayPrepend v x = .ok v' ∧ shiftArrayValue v' true = (some x, v)) ∧
    (∃ v', arrayAppend v x = .ok v' ∧ shiftArrayValue v' false = (some x, v)) := by
  refine ⟨⟨x :: v, arrayPrepend_eq v x, ?_⟩, ⟨v ++ [x], arrayAppend_eq v x, ?_⟩⟩
  · rw [shiftLeft_eq]; rfl
  · rw [shiftRight_eq]; simp [Seq.shiftRight]

/-- 左移 / 右移 on the empty list give 空 and leave it empty -/
theorem shift_empty : shiftArrayValue ([] : List α) true = (none, []) ∧ shiftArrayValue ([] : List α) false = (none, []) :=
  ⟨rfl, rfl⟩

/-- 交换 of two positions in 1 … 长度: afterwards each holds what the other held, everything else is as before -/
theorem swap_swaps (v : List α) (i j : Int) (hi : Seq.InRange v i) (hj : Seq.InRange v j) :
    ∃ v', arraySwap v i j = .ok v' ∧ v'.length = v.length ∧
      ivArrayRead v' i = ivArrayRead v j ∧ ivArrayRead v' j = ivArrayRead v i ∧
      ∀ p, p ≠ i → p ≠ j → ivArrayRead v' p = ivArrayRead v p := by
  have ha := inRange_toNat hi
  have hb := inRange_toNat hj
  have h1i : 1 ≤ i := hi.1
  have h1j : 1 ≤ j := hj.1
  refine ⟨(v.set (i - 1).toNat v[(j - 1).toNat]).set (j - 1).toNat v[(i - 1).toNat], ?_, by simp, ?_, ?_, ?_⟩
  · rw [arraySwap_eq]
    unfold Seq.swap
    simp only [hi, hj, and_self, if_true, get1_eq, h1i, h1j, List.getElem?_eq_getElem ha, List.getElem?_eq_getElem hb]
  · rw [ivArrayRead_pos _ i h1i, ivArrayRead_pos _ j h1j, (swap_reads v _ _ ha hb).1]
  · rw [ivArrayRead_pos _ i h1i, ivArrayRead_pos _ j h1j, (swap_reads v _ _ ha hb).2.1]
  · intro p hpi hpj
    by_cases hp : 1 ≤ p
    · have e1 : (p - 1).toNat ≠ (i - 1).toNat := by omega
      have e2 : (p - 1).toNat ≠ (j - 1).toNat := by omega
      rw [ivArrayRead_pos _ p hp, ivArrayRead_pos _ p hp, (swap_reads v _ _ ha hb).2.2 _ e1 e2]
    · rw [ivArrayRead_neg _ p hp, ivArrayRead_neg _ p hp]

example : Seq.InRange [10, 20, 30] 1 ∧ Seq.InRange [10, 20, 30] 3 ∧ arraySwap [10, 20, 30] 1 3 = .ok [30, 20, 10] := by decide

/-- 合并 is concatenation, in argument order -/
theorem merge_is_append (v : List α) (args : List (List α)) : arrayMerge v args = v ++ args.flatten :=
  arrayMerge_eq v args

/-- 包含 and 寻找 agree: 寻找 answers −1 exactly when 包含 answers 假 (and then no element is equal); otherwise it answers
the position — counted from 0, like 新增's index — of the FIRST equal element -/
theorem contains_iff_find (eq : α → α → Bool) (x : α) (v : List α) :
    (arrayContains eq x v = true ↔ arrayFind eq x v ≠ -1) ∧
    (arrayFind eq x v = -1 → ∀ y ∈ v, eq y x = false) ∧
    (arrayFind eq x v ≠ -1 → ∃ n : Nat, arrayFind eq x v = (n : Int) ∧ n < v.length ∧
      ∃ y, v[n]? = some y ∧ eq y x = true ∧ ∀ m, m < n → ∀ z, v[m]? = some z → eq z x = false) := by
  unfold arrayFind
  rcases findFrom_spec eq x v 0 with ⟨h1, h2, h3⟩ | ⟨n, h1, h2, hn, y, hy, hyx, hmin⟩
  · refine ⟨by simp [h1, h2], fun _ => h3, fun hne => absurd h1 hne⟩
  · have hne : arrayFindFrom eq x 0 v ≠ -1 := by rw [h1]; omega
    refine ⟨by simp [h2, hne], fun e => absurd e hne, fun _ => ⟨n, by rw [h1]; simp, hn, y, hy, hyx, hmin⟩⟩

example : arrayFind (fun a b : Nat => a == b) 6 [2, 4, 6, 6] = 2 ∧ arrayFind (fun a b : Nat => a == b) 5 [2, 4, 6] = -1 := by
  decide

/-- a read returns the last value written at that position; other positions and the length are untouched -/
theorem read_returns_last_write (v : List α) (i : Int) (x : α) (v' : List α) (hw : ivArrayWrite v i x = .ok v') :
    ivArrayRead v' i = .ok x ∧ v'.length = v.length ∧ ∀ p, p ≠ i → ivArrayRead v' p = ivArrayRead v p := by
  rw [ivArrayWrite_eq] at hw
  unfold Seq.set1 at hw
  by_cases hi : Seq.InRange v i
  · simp only [hi, if_true] at hw
    cases hw
    have ha := inRange_toNat hi
    refine ⟨?_, by simp, ?_⟩
    · rw [ivArrayRead_pos _ i hi.1, List.getElem?_set_self ha]; rfl
    · intro p hp
      by_cases h1 : 1 ≤ p
      · have : (i - 1).toNat ≠ (p - 1).toNat := by have := hi.1; omega
        rw [ivArrayRead_pos _ p h1, ivArrayRead_pos _ p h1, List.getElem?_set_ne this]
      · rw [ivArrayRead_neg _ p h1, ivArrayRead_neg _ p h1]
  · simp only [hi, if_false] at hw; cases hw

/-- Reading or writing a position outside 1 … 长度 (also through 交换) is index error 40 and the list is unchanged -/
theorem index_out_of_range_error_unchanged (eq : α → α → Bool) (v : List α) (i : Int) (x : α)
    (h : ¬ Seq.InRange v i) :
    listStep eq v (.ivRead i) = .ok (v, .err 40) ∧ listStep eq v (.ivWrite i x) = .ok (v, .err 40) ∧
    ∀ j, listStep eq v (.swap i j) = .ok (v, .err 40) ∧ listStep eq v (.swap j i) = .ok (v, .err 40) := by
  refine ⟨?_, ?_, fun j => ⟨?_, ?_⟩⟩
  · simp [listStep_eq, CollHistory.listStep, Seq.get1, h, CollHistory.indexError]
  · simp [listStep_eq, CollHistory.listStep, Seq.set1, h, CollHistory.indexError]
  · simp [listStep_eq, CollHistory.listStep, Seq.swap, h, CollHistory.indexError]
  · simp [listStep_eq, CollHistory.listStep, Seq.swap, h, CollHistory.indexError]

example : ¬ Seq.InRange [1, 2, 3] 0 ∧ ¬ Seq.InRange [1, 2, 3] 4 ∧ ¬ Seq.InRange ([] : List Nat) 1 := by decide

/-! ### dictionary laws -/

/-- Reading a missing key through `D#k` is error 41 and changes nothing (the method 读取 answers 空 instead) -/
theorem missing_key_read_error (sub : α → String → Option α) {hm : HashMap α} (h : Inv hm) (k : String)
    (hk : k ∉ hmAllIndexes hm) :
    dictStep sub hm (.ivRead k) = .ok (hm, .err 41) ∧ dictStep sub hm (.get [k]) = .ok (hm, .null) := by
  have hd : k ∉ dom hm.value := fun hd => hk ((h.2.1 k).mpr hd)
  have hg := (mapGet_none_iff hm.value k).mpr hd
  simp [dictStep, ivMapRead, hmGet, hg, getResult, errIndexKeyNotFound]

/-- a read returns the last value written under that key; other keys are untouched -/
theorem dict_read_returns_last_write (hm : HashMap α) (k : String) (v : α) (k' : String) :
    ivMapRead (ivMapWrite hm k v) k' = if k' = k then .ok v else ivMapRead hm k' :=
  ivMapRead_write hm k v k'

/-- Writing a new key inserts it at the end: listed last, readable, 长度 + 1, displayed after all old pairs -/
theorem new_key_write_inserts {hm : HashMap α} (h : Inv hm) (k : String) (v : α) (hk : k ∉ hmAllIndexes hm) :
    Inv (ivMapWrite hm k v) ∧
    hmAllIndexes (ivMapWrite hm k v) = hmAllIndexes hm ++ [k] ∧
    ivMapRead (ivMapWrite hm k v) k = .ok v ∧
    hmLength (ivMapWrite hm k v) = hmLength hm + 1 ∧
    observe (ivMapWrite hm k v) = specObs (abs hm ++ [(k, v)]) := by
  have hs := appendKVPair_spec h k v
  have hkk : k ∉ OrderedMap.keys (abs hm) := by rw [keys_abs h]; exact hk
  have habs : abs (ivMapWrite hm k v) = abs hm ++ [(k, v)] := by
    show abs (appendKVPair hm k v) = _
    rw [hs.2]; unfold OrderedMap.insert; rw [if_neg hkk]
  have hi : Inv (ivMapWrite hm k v) := hs.1
  refine ⟨hi, ?_, ?_, ?_, ?_⟩
  · show hmAllIndexes (ivMapWrite hm k v) = hm.keyOrder ++ [k]
    rw [← keys_abs h, ← (show OrderedMap.keys (abs (ivMapWrite hm k v)) = hmAllIndexes (ivMapWrite hm k v) from keys_abs hi), habs]
    simp [OrderedMap.keys]
  · rw [ivMapRead_write]; simp
  · rw [length_abs hi, length_abs h, habs]; simp [OrderedMap.size]
  · rw [observe_abs hi, habs]

/-- Removing a key and writing it again appends it: the key moves behind all others -/
theorem reinsert_appends {hm : HashMap α} (h : Inv hm) (k : String) (v : α) (hk : k ∈ hmAllIndexes hm) :
    ∃ old hm1, hmDelete hm k = .ok (some old, hm1) ∧ ivMapRead hm k = .ok old ∧ k ∉ hmAllIndexes hm1 ∧
      hmAllIndexes (ivMapWrite hm1 k v) = (hmAllIndexes hm).erase k ++ [k] ∧
      observe (ivMapWrite hm1 k v) = specObs (OrderedMap.erase (abs hm) k ++ [(k, v)]) := by
  obtain ⟨old, hold⟩ := mapGet_some_of_mem ((h.2.1 k).mp hk)
  obtain ⟨hm1, hdel, hi1, habs1, hko1⟩ := hmDelete_spec h k
  have hk1 : k ∉ hmAllIndexes hm1 := by
    show k ∉ hm1.keyOrder
    rw [hko1, List.Nodup.mem_erase_iff h.1]; simp
  have hn := new_key_write_inserts hi1 k v hk1
  refine ⟨old, hm1, by rw [hdel, hold], by simp [ivMapRead, hold], hk1, ?_, ?_⟩
  · rw [hn.2.1]; show hm1.keyOrder ++ [k] = _; rw [hko1]; rfl
  · rw [hn.2.2.2.2, habs1]

/-- Overwriting an existing key keeps its place: the key list and 长度 are unchanged, only that key's value is new -/
theorem overwrite_keeps_place {hm : HashMap α} (h : Inv hm) (k : String) (v : α) (hk : k ∈ hmAllIndexes hm) :
    hmAllIndexes (ivMapWrite hm k v) = hmAllIndexes hm ∧
    hmLength (ivMapWrite hm k v) = hmLength hm ∧
    (∀ k', ivMapRead (ivMapWrite hm k v) k' = if k' = k then .ok v else ivMapRead hm k') ∧
    observe (ivMapWrite hm k v) = specObs ((abs hm).map (fun p => if p.1 = k then (k, v) else p)) := by
  obtain ⟨old, hold⟩ := mapGet_some_of_mem ((h.2.1 k).mp hk)
  have hs := appendKVPair_spec h k v
  have hkk : k ∈ OrderedMap.keys (abs hm) := by rw [keys_abs h]; exact hk
  have habs : abs (ivMapWrite hm k v) = (abs hm).map (fun p => if p.1 = k then (k, v) else p) := by
    show abs (appendKVPair hm k v) = _
    rw [hs.2]; unfold OrderedMap.insert; rw [if_pos hkk]
  have hi : Inv (ivMapWrite hm k v) := hs.1
  have hko : hmAllIndexes (ivMapWrite hm k v) = hmAllIndexes hm := by
    show (appendKVPair hm k v).keyOrder = hm.keyOrder
    unfold appendKVPair; rw [hold]
  refine ⟨hko, ?_, ivMapRead_write hm k v, by rw [observe_abs hi, habs]⟩
  rw [length_abs hi, length_abs h, habs]; simp [OrderedMap.size]

-- non-vacuity of the dictionary laws: a reachable dictionary with a present and an absent key
example : Inv (newHashMap [("a", 1), ("b", 2), ("a", 3)]) ∧
    "a" ∈ hmAllIndexes (newHashMap [("a", 1), ("b", 2), ("a", 3)]) ∧
    "z" ∉ hmAllIndexes (newHashMap [("a", 1), ("b", 2), ("a", 3)]) :=
  ⟨(newHashMap_spec _).1, by decide, by decide⟩

example : hmAllIndexes (ivMapWrite (newHashMap [("a", 1), ("b", 2)]) "a" 9) = ["a", "b"] ∧
    (match hmDelete (newHashMap [("a", 1), ("b", 2)]) "a" with
     | .ok (_, hm1) => hmAllIndexes (ivMapWrite hm1 "a" 9)
     | _ => []) = ["b", "a"] := by decide

end ZnVerif.Properties.C12
