/-
`NumOps Float` — used by the driver only (outside every theorem).  Arithmetic is Lean's `Float`
(IEEE-754 binary64 through the C runtime); `fmt` reproduces Go's `%v` (shortest round-trip digits,
%e when exp < -4 || exp >= 6, as strconv's shortest %g does), `parse` is a correctly rounded decimal→double conversion, `toInt` is Go's
`int(float64)` on amd64.  All of this is validated by the correspondence runs, never proved.
-/
import ZnVerif.Model.Num

namespace ZnVerif.Ops
open ZnVerif.Model

/-- exact decomposition of a finite positive double: x = m * 2^e -/
def decodeFloat (x : Float) : Bool × Nat × Int :=
  let b := x.toBits.toNat
  let sign := b / 2^63 == 1
  let ex : Nat := (b / 2^52) % 2048
  let frac : Nat := b % 2^52
  if ex == 0 then (sign, frac, -1074) else (sign, frac + 2^52, (Int.ofNat ex) - 1075)

def natDigits (n : Nat) : String := toString n

/-- compare m·2^e·10^(-k) style quantities exactly: value of (num/den) as rationals of Nat -/
structure Q where
  num : Nat
  den : Nat

def Q.ofBin (m : Nat) (e : Int) : Q := if e ≥ 0 then ⟨m * 2^e.toNat, 1⟩ else ⟨m, 2^(-e).toNat⟩
def Q.mul10 (q : Q) (k : Int) : Q := if k ≥ 0 then ⟨q.num * 10^k.toNat, q.den⟩ else ⟨q.num, q.den * 10^(-k).toNat⟩
def Q.lt (a b : Q) : Bool := a.num * b.den < b.num * a.den
def Q.le (a b : Q) : Bool := a.num * b.den ≤ b.num * a.den

/-- floor(log10 q) for q > 0 -/
partial def log10Floor (q : Q) : Int :=
  if q.num ≥ q.den then
    -- digits of the integer part - 1
    ((toString (q.num / q.den)).length : Int) - 1
  else
    let rec go (k : Int) (n : Nat) : Int := if n * 10 ≥ q.den then -(k+1) else go (k+1) (n*10)
    go 0 q.num

/-- round-half-even of q to an integer -/
def Q.round (q : Q) : Nat :=
  let f := q.num / q.den
  let r := q.num % q.den
  if 2 * r < q.den then f else if 2 * r > q.den then f + 1 else if f % 2 == 0 then f else f + 1

/-- shortest decimal digits that round-trip: (digits as Nat without trailing zeros, decimal exponent of first digit) -/
def shortestDigits (m : Nat) (e : Int) : Nat × Int := Id.run do
  let x := Q.ofBin m e
  -- rounding interval (lo, hi); inclusive iff m even
  let boundary := m == 2^52 && e > -1074
  let lo := if boundary then Q.ofBin (4*m - 1) (e - 2) else Q.ofBin (2*m - 1) (e - 1)
  let hi := Q.ofBin (2*m + 1) (e - 1)
  let incl := m % 2 == 0
  let inside (d : Nat) (k : Int) : Bool :=
    -- value d * 10^k
    let v : Q := if k ≥ 0 then ⟨d * 10^k.toNat, 1⟩ else ⟨d, 10^(-k).toNat⟩
    if incl then lo.le v && v.le hi else lo.lt v && v.lt hi
  let k0 := log10Floor x
  let mut res : Nat × Int := (m, 0)
  let mut found := false
  for p in [1:18] do
    if !found then
      let sh : Int := (p : Int) - 1 - k0
      let d := (x.mul10 sh).round
      let cands := [d, d + 1, d - 1]
      for c in cands do
        if !found && c > 0 && inside c (-sh) then
          -- normalise: strip trailing zeros
          let mut dd := c
          let mut kk : Int := -sh
          while dd % 10 == 0 do
            dd := dd / 10
            kk := kk + 1
          let nd := (toString dd).length
          res := (dd, kk + nd - 1)
          found := true
  return res

def pad2 (n : Nat) : String := if n < 10 then "0" ++ toString n else toString n

/-- Go `fmt.Sprintf("%v", x)` for float64 -/
def goFmtFloat (x : Float) : String :=
  if x.isNaN then "NaN"
  else if x.isInf then (if x > 0 then "+Inf" else "-Inf")
  else
    let (sign, m, e) := decodeFloat x
    let sg := if sign then "-" else ""
    if m == 0 then sg ++ "0" else
    let (d, exp) := shortestDigits m e
    let ds := toString d
    let nd := ds.length
    if exp < -4 || exp ≥ 21 - 15 then
      let mant := if nd == 1 then ds else (ds.take 1).toString ++ "." ++ (ds.drop 1).toString
      let es := if exp < 0 then "-" ++ pad2 (-exp).toNat else "+" ++ pad2 exp.toNat
      sg ++ mant ++ "e" ++ es
    else if exp < 0 then
      sg ++ "0." ++ String.ofList (List.replicate ((-exp).toNat - 1) '0') ++ ds
    else
      let ip := exp.toNat + 1
      if nd ≤ ip then sg ++ ds ++ String.ofList (List.replicate (ip - nd) '0')
      else sg ++ (ds.take ip).toString ++ "." ++ (ds.drop ip).toString

/-- nearest double (ties to even) of num/den, as bits without sign -/
partial def nearestBits (q : Q) : Nat :=
  if q.num == 0 then 0 else
  -- find e with 2^52 ≤ q / 2^e < 2^53
  let lb (n : Nat) : Int := (Nat.log2 n : Int)
  let e0 : Int := lb q.num - lb q.den - 52
  let scaled (e : Int) : Q := if e ≥ 0 then ⟨q.num, q.den * 2^e.toNat⟩ else ⟨q.num * 2^(-e).toNat, q.den⟩
  let rec fix (e : Int) (fuel : Nat) : Int :=
    match fuel with
    | 0 => e
    | fuel+1 =>
      let s := scaled e
      if s.num < s.den * 2^52 then fix (e - 1) fuel
      else if s.num ≥ s.den * 2^53 then fix (e + 1) fuel
      else e
  let e := fix e0 8
  let e := if e < -1074 then -1074 else e
  let mant := (scaled e).round
  -- rounding may carry to 2^53
  let (mant, e) := if mant == 2^53 then (2^52, e + 1) else (mant, e)
  if e > 971 then 0x7FF0000000000000   -- overflow → +Inf
  else if mant < 2^52 then mant         -- subnormal (e = -1074) or zero
  else ((e + 1075).toNat) * 2^52 + (mant - 2^52)

def digitVal (c : Nat) : Nat := c - 0x30

/-- strconv.ParseFloat on `[+-]digits[.digits][e[+-]digits]` -/
def parseFloatCps (s : List Nat) : Float :=
  let (neg, s) := match s with
    | 0x2D :: r => (true, r)
    | 0x2B :: r => (false, r)
    | _ => (false, s)
  let isD (c : Nat) := 0x30 ≤ c && c ≤ 0x39
  let ip := s.takeWhile isD
  let r := s.dropWhile isD
  let (fp, r) := match r with
    | 0x2E :: r' => (r'.takeWhile isD, r'.dropWhile isD)
    | _ => ([], r)
  let ex : Int := match r with
    | 0x65 :: r' | 0x45 :: r' =>
      let (eneg, r'') := match r' with
        | 0x2D :: t => (true, t)
        | 0x2B :: t => (false, t)
        | _ => (false, r')
      let v := (r''.takeWhile isD).foldl (fun a c => a * 10 + digitVal c) 0
      -- clamp: anything beyond ±100000 saturates anyway
      let v := if v > 100000 then 100000 else v
      if eneg then -(v : Int) else v
    | _ => 0
  let mant := (ip ++ fp).foldl (fun a c => a * 10 + digitVal c) 0
  let e10 := ex - fp.length
  let bits :=
    if mant == 0 then 0
    else if e10 > 400 then 0x7FF0000000000000
    else if e10 < -1200 then 0
    else nearestBits (Q.mul10 ⟨mant, 1⟩ e10)
  let bits := if neg then bits + 2^63 else bits
  Float.ofBits (UInt64.ofNat bits)

def goInt (x : Float) : Int :=
  if x.isNaN || x ≥ 9223372036854775808.0 || x < -9223372036854775808.0 then -9223372036854775808
  else x.toInt64.toInt

instance : NumOps Float where
  add := (· + ·)
  sub := (· - ·)
  mul := (· * ·)
  div := (· / ·)
  floor := Float.floor
  ceil := Float.ceil
  sqrt := Float.sqrt
  eq a b := a == b
  lt a b := a < b
  gt a b := a > b
  le a b := a ≤ b
  ge a b := a ≥ b
  isZero a := a == 0
  leZero a := a ≤ 0
  ofInt i := Float.ofInt i
  toInt := goInt
  parse := parseFloatCps
  fmt := goFmtFloat

def floatBits (x : Float) : String :=
  if x.isNaN then "nan" else
  let s := String.ofList (Nat.toDigits 16 x.toBits.toNat)
  String.ofList (List.replicate (16 - s.length) '0') ++ s

end ZnVerif.Ops
