import ZnVerif.Ops.Util
import ZnVerif.Model.PM
import ZnVerif.Spec.PoolBounds

/-
Driver side of the `pm` correspondence (C20).

  pm <init> <max> <tok>[@…] …        model of the repaired tree     →  ok <obs0> <obs> … [x]
  orig:pm <init> <max> <tok>[@…] …   model of the pinned tree (refCount overwritten on registration)
  spec:pm <init> <max> <obs0> <tok>=<obs> …   spec oracle judging observations   →  ok | bad <k> <clause>

Script tokens are *macro* events — what a harness can do to a real master and reliably observe afterwards:
  u<i>:<i|b|s>  state report for worker i (0 = unknown pid), then the undelayed batch it started (if any) runs to its end
  k<i>          worker i exits and its deletion is handled (the refill batch, if any, is left sleeping)
  t<i>          time-out of worker i: STOPPED report (+ the batch it may start), exit, deletion
  s | s<n>      every sleeping refill batch (or the n oldest ones) runs to its end
  q             the master finishes everything it has started (quiet)
  obs = <alive pids ascending, dot separated, or ->:<refCount>:<len(childs)>
`x` marks a token whose event is not enabled in the model (a generator error, never a verdict).
-/
namespace ZnVerif.Ops.C20
open ZnVerif ZnVerif.Ops ZnVerif.Model.PM

def obsStr (s : State) : String :=
  let al := (alivePids s).mergeSort (fun a b => decide (a ≤ b))
  let a := if al.isEmpty then "-" else ".".intercalate (al.map toString)
  s!"{a}:{s.refCount}:{s.childs.length}"

/-- batch `b` makes all the starts it owes, each registered at once (what the real goroutine does) -/
def finishBatch (v : Variant) (c : Config) (b : Nat) : Nat → State → Option State
  | 0, s => some s
  | fuel + 1, s =>
    match step v c s (.spawnStart b) with
    | none => some s
    | some s1 => match step v c s1 (.add s.nextPid) with
      | none => none
      | some s2 => finishBatch v c b fuel s2

def owed (s : State) (b : Nat) : Nat := match s.batches[b]? with | some x => x.remaining | none => 0

/-- run the batch appended by the last handler, if one was appended -/
def eager (v : Variant) (c : Config) (nBefore : Nat) (s : State) : Option State :=
  if s.batches.length > nBefore then finishBatch v c nBefore (owed s nBefore) s else some s

def delayedOpen (s : State) : List Nat :=
  (List.range s.batches.length).filter fun i => match s.batches[i]? with
    | some b => b.delayed && decide (0 < b.remaining)
    | none => false

def parseState (t : String) : Option WState :=
  match t with
  | "i" => some .idle | "b" => some .busy | "s" => some .stopped | _ => none

def macroStep (v : Variant) (c : Config) (s : State) (tok : String) : Option State :=
  let body := (tok.drop 1).toString
  match tok.front with
  | 'u' =>
    match body.splitOn ":" with
    | [i, st] => do
      let st ← parseState st
      let s1 ← step v c s (.update i.toNat! st)
      eager v c s.batches.length s1
    | _ => none
  | 'k' => do
    let s1 ← step v c s (.exit body.toNat!)
    step v c s1 (.del body.toNat!)
  | 't' => do
    let s1 ← step v c s (.timeoutKill body.toNat!)
    let s2 ← eager v c s.batches.length s1
    step v c s2 (.del body.toNat!)
  | 's' =>
    -- `s`: every sleeping refill batch; `s<n>`: the n oldest ones (they may fire at different moments)
    let open_ := delayedOpen s
    let sel := if body.isEmpty then open_ else open_.take body.toNat!
    sel.foldlM (fun acc b => finishBatch v c b (owed acc b) acc) s
  | 'q' => some (drain v c (workLeft s + 64) s)
  | _ => none

def stripTok (t : String) : String := ((t.splitOn "@").headD t)

def runScript (v : Variant) (c : Config) (toks : List String) : String :=
  match finishBatch v c 0 c.init (init v c) with
  | none => "x"
  | some s0 =>
    let rec go (s : State) (acc : List String) : List String → List String
      | [] => acc.reverse
      | t :: ts => match macroStep v c s (stripTok t) with
        | none => ("x" :: acc).reverse
        | some s' => go s' (obsStr s' :: acc) ts
    " ".intercalate ("ok" :: go s0 [obsStr s0] toks)

/-! ### spec oracle on observations -/
open ZnVerif.Spec.PoolBounds in
def parseObs (o : String) : Option Obs :=
  match o.splitOn ":" with
  | [a, _, n] => some ⟨if a == "-" then [] else (a.splitOn ".").map String.toNat!, n.toNat!⟩
  | _ => none

open ZnVerif.Spec.PoolBounds in
def parseAct (t : String) : Option Act :=
  let body := (t.drop 1).toString
  match t.front with
  | 'u' => some .report
  | 'k' => some (.crash body.toNat!)
  | 't' => some (.timeout body.toNat!)
  | 's' => some .wait
  | 'q' => some .quiet
  | _ => none

open ZnVerif.Spec.PoolBounds in
def specJudge (init max : Nat) (o0 : String) (pairs : List String) : String :=
  match parseObs o0 with
  | none => "bad-args"
  | some ob0 =>
    let steps := pairs.filterMap fun p => match p.splitOn "=" with
      | [t, o] => match parseAct t, parseObs o with
        | some a, some ob => some (a, ob)
        | _, _ => none
      | _ => none
    if steps.length ≠ pairs.length then "bad-args" else
    match judgeAll init max ob0 steps with
    | none => "ok"
    | some (k, why) => s!"bad {k} {why}"

/-! ### end to end -/

/-- `pool <n> <req-ids in accept order, dot separated> <ev>…` with ev = a<w> | f<w> | t<w> | c<w> | n (spawn): the worker
pool model replays what the real workers did; answer: who served what, or `x <k>` at the first event the model
does not allow (e.g. an accept while serving) -/
def poolRun (n : Nat) (queue : List Nat) (evs : List String) : String :=
  let parse (t : String) : Option PEv :=
    let w := (t.drop 1).toString.toNat! - 1
    match t.front with
    | 'a' => some (.accept w) | 'f' => some (.finish w) | 't' => some (.timeout w) | 'c' => some (.crash w)
    | 'n' => some .spawn | _ => none
  let rec go (p : Pool) (k : Nat) : List String → Except Nat Pool
    | [] => .ok p
    | t :: ts => match (parse t).bind p.step with
      | some p' => go p' (k + 1) ts
      | none => .error k
  match go ⟨queue, List.replicate n Worker.fresh⟩ 0 evs with
  | .error k => s!"x {k}"
  | .ok p =>
    let served := (List.range p.workers.length).filterMap fun i => match p.workers[i]? with
      | some w => if w.served.isEmpty then none
                  else some s!"{i + 1}={".".intercalate (w.served.map toString)}"
      | none => none
    "ok " ++ (if served.isEmpty then "-" else " ".intercalate served)

open ZnVerif.Spec.PoolBounds in
/-- spec:pmreal <init> <max> (o|q)=<obs>… M<0|1> (m|n|a):(<w>,<t0>,<t1>|E)… -/
def specReal (init max : Nat) (fields : List String) : String :=
  let obs := fields.filterMap fun f => match f.splitOn "=" with
    | ["o", o] => (parseObs o).map fun x => (false, x)
    | ["q", o] => (parseObs o).map fun x => (true, x)
    | _ => none
  let alive := !fields.contains "M0"
  let reqs := fields.filterMap fun f => match f.splitOn ":" with
    | [pr, out] =>
      let p : Option Promise := match pr with | "m" => some .must | "n" => some .mustNot | "a" => some .any | _ => none
      let o : Option Outcome := if out == "E" then some .failed else match out.splitOn "," with
        | [w, t0, t1] => some (.served w.toNat! t0.toNat! t1.toNat!)
        | _ => none
      match p, o with
      | some p, some o => some (p, o)
      | _, _ => none
    | _ => none
  match judgeReal init max obs alive reqs with
  | none => "ok"
  | some why => s!"bad {why}"

def handle (op : String) (args : List String) : Option String :=
  match op, args with
  | "pm", i :: m :: toks => some (runScript .repaired ⟨i.toNat!, m.toNat!, 10⟩ toks)
  | "orig:pm", i :: m :: toks => some (runScript .asWritten ⟨i.toNat!, m.toNat!, 10⟩ toks)
  | "spec:pm", i :: m :: o0 :: pairs => some (specJudge i.toNat! m.toNat! o0 pairs)
  | "pool", n :: q :: evs => some (poolRun n.toNat! (if q == "-" then [] else (q.splitOn ".").map String.toNat!) evs)
  | "spec:pmreal", i :: m :: fields => some (specReal i.toNat! m.toNat! fields)
  | _, _ => none

end ZnVerif.Ops.C20
