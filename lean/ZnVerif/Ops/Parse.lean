/-
Driver ops of the parser model.

  parse-tokens  <script>   model (repaired tree: `Variant.fixed`) on a recorded token stream
  parse-tokens0 <script>   model of the pinned tree (`Variant.legacy`)
  parse <cps>              end to end: the parser model over the lexer model (Model/Lexer.lean)
  complete <sexp>          the completeness walker of Spec/Grammar on a dumped tree

`<script>` is what the harness op `tokens <cps>` prints after `ok`: one field per call of `zh.NextToken`
  T:<type>:<start>:<end>:<literal cps>:<number of Lines known after the call>      or     E:<code>:<cursor>
then `|` and the final Lines table `L:<indents>:<startIdx>`.  Lines are only ever appended (and the entry appended by a call
gets its indent inside that same call), so "the table as known after call k" is a prefix of the final table.
Answers: `ok <tree>` in the format of the harness `ast` op | `err syn <code> <cursor>` | `err other 0` | `timeout`.
-/
import ZnVerif.Ops.Util
import ZnVerif.Ops.Sexp
import ZnVerif.Model.Parser
import ZnVerif.Model.ParserLex
import ZnVerif.Spec.Grammar

namespace ZnVerif.Ops.Parse
open ZnVerif.Model ZnVerif.Model.Parser ZnVerif.Ops

-- ---- dump (mirrors harness/ops_run.go dumpProgram) -------------------------------------------------------------

def dId (i : Ident) : String := s!"(id {i.line} {stringToHex i.lit})"
def dOptId : Option Ident → String
  | some i => dId i
  | none => "nil"
def dIds (l : List Ident) : String := "(" ++ " ".intercalate (l.map dId) ++ ")"

mutual
partial def dExpr : Expr → String
  | .nil => "nil"
  | .id i => dId i
  | .str l s => s!"(str {l} {stringToHex s})"
  | .arr l xs => s!"(arr {l} {dExprs xs})"
  | .hm l kvs => s!"(hm {l} (" ++ " ".intercalate (kvs.map fun kv => "(" ++ dExpr kv.1 ++ " " ++ dExpr kv.2 ++ ")") ++ "))"
  | .assign l t e => s!"(assign {l} {dExpr t} {dExpr e})"
  | .logic l ty a b => s!"(logic {l} {ty} {dExpr a} {dExpr b})"
  | .arith l ty a b => s!"(arith {l} {ty} {dExpr a} {dExpr b})"
  | .member l rt r mt mid idx => s!"(member {l} {rt} {dExpr r} {mt} {dOptId mid} {dExpr idx})"
  | .call l n ps y => s!"(call {l} {dOptId n} {dExprs ps} {dOptId y})"
  | .mcall l r c y => s!"(mcall {l} {dExpr r} {dExprs c} {dOptId y})"
  | .new l c ps => s!"(new {l} {dOptId c} {dExprs ps})"
partial def dExprs (xs : List Expr) : String := "(" ++ " ".intercalate (xs.map dExpr) ++ ")"
end

mutual
partial def dBlock : Option (List Stmt) → String
  | none => "nil"
  | some ss => "(block" ++ String.join (ss.map fun s => " " ++ dStmt s) ++ ")"

partial def dExec : Option ExecBlock → String
  | none => "nil"
  | some (.mk ins body cs) =>
    "(exec " ++ dIds ins ++ " " ++ dBlock body ++ " (" ++
      " ".intercalate (cs.map fun c => "(catch " ++ dOptId c.1 ++ " " ++ dBlock c.2 ++ ")") ++ "))"

partial def dStmt : Stmt → String
  | .nil => "nil"
  | .varDecl l ps => s!"(vardecl {l}" ++ String.join (ps.map fun p => s!" (pair {p.1} {dIds p.2.1} {dExpr p.2.2})") ++ ")"
  | .while l c b => s!"(while {l} {dExpr c} {dBlock b})"
  | .branch l ie ib os he eb =>
    s!"(branch {l} {dExpr ie} {dBlock ib} (" ++ " ".intercalate (os.map fun o => "(" ++ dExpr o.1 ++ " " ++ dBlock o.2 ++ ")") ++
      s!") {if he then 1 else 0} {dBlock eb})"
  | .empty l => s!"(empty {l})"
  | .funcDecl l n dt x => s!"(funcdecl {l} {dOptId n} {dt} {dExec x})"
  | .classDecl l n ps ms gs =>
    s!"(classdecl {l} {dOptId n} (" ++ " ".intercalate (ps.map fun p => "(prop " ++ dOptId p.1 ++ " " ++ dExpr p.2 ++ ")") ++ ") (" ++
      " ".intercalate (ms.map dStmt) ++ ") (" ++ " ".intercalate (gs.map dStmt) ++ "))"
  | .iterate l e ns b => s!"(iterate {l} {dExpr e} {dIds ns} {dBlock b})"
  | .ret l e => s!"(ret {l} {dExpr e})"
  | .throw l c ps => s!"(throw {l} {dOptId c} {dExprs ps})"
  | .continue l => s!"(continue {l})"
  | .break l => s!"(break {l})"
  | .expr e => dExpr e
end

def dProgram (p : Program) : String :=
  "(prog (" ++ " ".intercalate (p.imports.map fun im =>
      s!"(import {im.line} {im.libType} " ++ (match im.name with | some n => stringToHex n | none => "nil") ++ " " ++ dIds im.items ++ ")") ++
    ") " ++ dExec p.exec ++ ")"

-- ---- the recorded token stream as a lexer ----------------------------------------------------------------------

structure Script where
  items : Array (TokRes × Nat)
  lines : Array LineInfo

/-- lexer state of the replay: index of the next call, and the Lines table as known now (grown by pushing, so that the
replay is linear) -/
structure RState where
  idx : Nat
  lines : Array LineInfo

def Script.ops (sc : Script) : LexOps RState where
  nextToken st :=
    match sc.items[st.idx]? with
    | some (r, n) =>
      (r, { idx := st.idx + 1,
            lines := (List.range (n - st.lines.size)).foldl (fun acc k =>
              match sc.lines[st.lines.size + k]? with
              | some li => acc.push li
              | none => acc) st.lines })
    | none => (.tok { type := 0, startIdx := 0, endIdx := 0 }, st)
  lines st := st.lines

def parseScript (fs : List String) : Option Script := Id.run do
  let mut items : Array (TokRes × Nat) := #[]
  let mut lines : Array LineInfo := #[]
  for f in fs do
    if f == "|" then continue
    match f.splitOn ":" with
    | ["T", ty, a, b, lit, n] =>
      items := items.push (.tok { type := ty.toNat!, literal := parseCps lit, startIdx := a.toNat!, endIdx := b.toNat! }, n.toNat!)
    | ["E", c, cur] => items := items.push (.err ⟨c.toNat!, cur.toNat!⟩, lines.size)
    | ["L", ind, st] => lines := lines.push { indents := ind.toNat!, startIdx := st.toNat! }
    | _ => return none
  return some { items := items, lines := lines }

def showOutcome : Outcome → String
  | .tree p => "ok " ++ dProgram p
  | .synErr e => s!"err syn {e.code} {e.cursor}"
  | .otherErr => "err other 0"
  | .outOfFuel => "timeout"

/-- fuel: far above the linear bound of `parse_terminates` (Proofs/ParserProgress: `fuelFor`) -/
def fuelOf (sc : Script) : Nat := 40 * (sc.items.size + 2) + 100

def runScript (v : Variant) (fs : List String) : String :=
  match parseScript fs with
  | none => "bad-script"
  | some sc => showOutcome (parseAST v sc.ops (fuelOf sc) { idx := 0, lines := #[] })

def handle (op : String) (args : List String) : Option String :=
  match op with
  | "parse-tokens" => some (runScript .fixed args)
  | "parse-tokens0" => some (runScript .legacy args)
  | "parse" =>
    match args with
    | [src] =>
      let cps := parseCps src
      some (showOutcome (parseSource .fixed (40 * (cps.length + 2) + 100) cps))
    | _ => some "bad-args"
  | "complete" =>
    match sxParse (sxTokens (" ".intercalate args)) with
    | some sx =>
      match sxProgram sx with
      | some p => some (if ZnVerif.Spec.Grammar.completeProgram p then "complete" else "incomplete")
      | none => some "bad-tree"
    | none => some "bad-sexp"
  | _ => none

end ZnVerif.Ops.Parse
