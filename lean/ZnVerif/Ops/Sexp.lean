/- S-expression reader for the AST dump of the harness (`ast` op), and its translation to Model.Ast. -/
import ZnVerif.Ops.Util
import ZnVerif.Model.Ast

namespace ZnVerif.Ops
open ZnVerif.Model

inductive Sx where
  | atom (s : String)
  | list (xs : List Sx)
  deriving Inhabited

/-- tokens: "(" ")" or atoms, split on spaces -/
def sxTokens (s : String) : List String := Id.run do
  let mut out : Array String := #[]
  let mut cur := ""
  for c in s.toList do
    if c == '(' || c == ')' then
      if cur ≠ "" then out := out.push cur; cur := ""
      out := out.push (String.singleton c)
    else if c == ' ' then
      if cur ≠ "" then out := out.push cur; cur := ""
    else cur := cur.push c
  if cur ≠ "" then out := out.push cur
  return out.toList

/-- parse with an explicit stack -/
def sxParse (toks : List String) : Option Sx := Id.run do
  let mut stack : List (List Sx) := [[]]
  for t in toks do
    if t == "(" then stack := [] :: stack
    else if t == ")" then
      match stack with
      | top :: next :: rest => stack := (Sx.list top.reverse :: next) :: rest
      | _ => return none
    else
      match stack with
      | top :: rest => stack := (Sx.atom t :: top) :: rest
      | [] => return none
  match stack with
  | [[x]] => return some x
  | _ => return none

def hexToString (h : String) : String :=
  if h == "-" then "" else
  let cs := h.toList
  let rec go : List Char → List UInt8
    | a :: b :: rest =>
      match hexDigit? a, hexDigit? b with
      | some x, some y => UInt8.ofNat (x * 16 + y) :: go rest
      | _, _ => go rest
    | _ => []
  match String.fromUTF8? (ByteArray.mk (go cs).toArray) with
  | some s => s
  | none => "�"

def stringToHex (s : String) : String :=
  if s.isEmpty then "-" else
  let hexd (n : Nat) : Char := if n < 10 then Char.ofNat (48 + n) else Char.ofNat (87 + n)
  String.ofList (s.toUTF8.toList.flatMap fun b => [hexd (b.toNat / 16), hexd (b.toNat % 16)])

def sxNat : Sx → Nat
  | .atom s => s.toNat!
  | _ => 0

def sxIdent : Sx → Option Ident
  | .list [.atom "id", l, .atom h] => some { line := sxNat l, lit := hexToString h }
  | _ => none

def sxIdents : Sx → List Ident
  | .list xs => xs.filterMap sxIdent
  | _ => []

mutual
partial def sxExpr : Sx → Expr
  | .atom "nil" => .nil
  | .list [.atom "id", l, .atom h] => .id { line := sxNat l, lit := hexToString h }
  | .list [.atom "str", l, .atom h] => .str (sxNat l) (hexToString h)
  | .list [.atom "arr", l, .list items] => .arr (sxNat l) (items.map sxExpr)
  | .list [.atom "hm", l, .list kvs] => .hm (sxNat l) (kvs.map fun kv =>
      match kv with
      | .list [k, v] => (sxExpr k, sxExpr v)
      | _ => (.nil, .nil))
  | .list [.atom "assign", l, t, e] => .assign (sxNat l) (sxExpr t) (sxExpr e)
  | .list [.atom "logic", l, ty, a, b] => .logic (sxNat l) (sxNat ty) (sxExpr a) (sxExpr b)
  | .list [.atom "arith", l, ty, a, b] => .arith (sxNat l) (sxNat ty) (sxExpr a) (sxExpr b)
  | .list [.atom "member", l, rt, root, mt, mid, idx] =>
      .member (sxNat l) (sxNat rt) (sxExpr root) (sxNat mt) (sxIdent mid) (sxExpr idx)
  | .list [.atom "call", l, name, .list ps, y] => .call (sxNat l) (sxIdent name) (ps.map sxExpr) (sxIdent y)
  | .list [.atom "mcall", l, root, .list chain, y] => .mcall (sxNat l) (sxExpr root) (chain.map sxExpr) (sxIdent y)
  | .list [.atom "new", l, c, .list ps] => .new (sxNat l) (sxIdent c) (ps.map sxExpr)
  | _ => .nil

partial def sxBlock : Sx → Option (List Stmt)
  | .list (.atom "block" :: ss) => some (ss.map sxStmt)
  | _ => none

partial def sxExec : Sx → Option ExecBlock
  | .list [.atom "exec", ins, body, .list cs] =>
      some (.mk (sxIdents ins) (sxBlock body) (cs.map fun c =>
        match c with
        | .list [.atom "catch", cid, blk] => (sxIdent cid, sxBlock blk)
        | _ => (none, none)))
  | _ => none

partial def sxStmt : Sx → Stmt
  | .atom "nil" => .nil
  | .list (.atom "vardecl" :: l :: pairs) => .varDecl (sxNat l) (pairs.map fun p =>
      match p with
      | .list [.atom "pair", ty, ids, e] => (sxNat ty, sxIdents ids, sxExpr e)
      | _ => (0, [], .nil))
  | .list [.atom "while", l, c, b] => .while (sxNat l) (sxExpr c) (sxBlock b)
  | .list [.atom "branch", l, ie, ib, .list others, he, eb] =>
      .branch (sxNat l) (sxExpr ie) (sxBlock ib) (others.filterMap fun o =>
        match o with
        | .list [e, b] => some (sxExpr e, sxBlock b)
        | _ => none) (sxNat he == 1) (sxBlock eb)
  | .list [.atom "empty", l] => .empty (sxNat l)
  | .list [.atom "funcdecl", l, name, dt, ex] => .funcDecl (sxNat l) (sxIdent name) (sxNat dt) (sxExec ex)
  | .list [.atom "classdecl", l, name, .list props, .list ms, .list gs] =>
      .classDecl (sxNat l) (sxIdent name) (props.map fun p =>
        match p with
        | .list [.atom "prop", pid, e] => (sxIdent pid, sxExpr e)
        | _ => (none, .nil)) (ms.map sxStmt) (gs.map sxStmt)
  | .list [.atom "iterate", l, e, ids, b] => .iterate (sxNat l) (sxExpr e) (sxIdents ids) (sxBlock b)
  | .list [.atom "ret", l, e] => .ret (sxNat l) (sxExpr e)
  | .list [.atom "throw", l, c, .list ps] => .throw (sxNat l) (sxIdent c) (ps.map sxExpr)
  | .list [.atom "continue", l] => .continue (sxNat l)
  | .list [.atom "break", l] => .break (sxNat l)
  | e => .expr (sxExpr e)
end

def sxProgram : Sx → Option Program
  | .list [.atom "prog", .list imps, ex] =>
      some { imports := imps.map (fun i =>
               match i with
               | .list [.atom "import", l, ty, .atom name, ids] =>
                   { line := sxNat l, libType := sxNat ty, name := if name == "nil" then none else some (hexToString name), items := sxIdents ids }
               | _ => { line := 0, libType := 0, name := none, items := [] }),
             exec := sxExec ex }
  | _ => none

end ZnVerif.Ops
