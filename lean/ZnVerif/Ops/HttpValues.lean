/-
Driver op for the value classes of pkg/common (Model/HttpValues.lean), the model side of harness/ops_httpvalues.go:

  httpval req|resp <arg-spec>*    →  ok {<hex property>=<canonical value>,…} | <arguments afterwards>     err <class> <code> | …

and the pieces Ops/C10.lean uses to answer `value reqcls|respcls|req|resp …` (the member sweep) from the model.
Numbers are `Float` here; the JSON float encoder is the codec of Ops/C19.lean.
-/
import ZnVerif.Ops.VarInputText
import ZnVerif.Ops.C19
import ZnVerif.Model.HttpValues

namespace ZnVerif.Ops.HttpValues
open ZnVerif ZnVerif.Ops ZnVerif.Model ZnVerif.Ops.Run ZnVerif.Model.HttpValues

def fuel : Nat := 200

/-- `Construct` of a class cell of one of the two classes (by name); `none` for any other class -/
def constructByName (cv : Addr) (args : List Addr) : M Float (Option Addr) := do
  match ← getCell cv with
  | .cls name _ _ _ =>
    if name == requestClassName then do let r ← requestConstruct C19.floatCodec fuel cv args; pure (some r)
    else if name == responseClassName then do let r ← responseConstruct C19.floatCodec fuel cv args; pure (some r)
    else pure none
  | _ => pure none

def showProps (a : Addr) (s : VM Float) : String :=
  match s.heap[a]? with
  | some (.obj _ props) =>
    "{" ++ ",".intercalate ((VarInputText.sortKeys props).map fun p => stringToHex p.1 ++ "=" ++ canon s.heap p.2) ++ "}"
  | _ => canon s.heap a

def run (parseSpec : String → M Float Addr) (kind : String) (argSpecs : List String) : String :=
  let prep : M Float (Addr × List Addr) := do
    let cv ← if kind == "req" then mkRequestClass else mkResponseClass
    let args ← argSpecs.mapM parseSpec
    pure (cv, args)
  match prep (initVM ()) with
  | (.ok (cv, args), s) =>
    let m : M Float Addr := if kind == "req" then requestConstruct C19.floatCodec fuel cv args
                             else responseConstruct C19.floatCodec fuel cv args
    let (r, s') := m s
    let after := if args.isEmpty then "-" else ",".intercalate (args.map fun a => canon s'.heap a)
    match r with
    | .ok a => "ok " ++ showProps a s' ++ " | " ++ after
    | .err e => VarInputText.errText e s' ++ " | " ++ after
    | .panic => "panic"
    | .fuel => "fuel"
    | .unmodelled => "unmodelled"
  | (.unmodelled, _) => "unmodelled"
  | _ => "bad-spec"

end ZnVerif.Ops.HttpValues
