/-
Driver ops of the text methods (harness/ops_textmethods.go):

  tm / tmrun <method> <t> <arg>*     the EVALUATOR model: `builtinMethod` of Model/Interp.lean on a heap holding the
                                     receiver and the arguments (so validation, error codes and the rewriting of the
                                     receiver by 转换数值 are the evaluator's)
  spec:tm / spec:tmrun …             `Spec.builtinPure` / `Spec.builtinMut` of Spec/Sem.lean on the characters
  unitab ranges | spaces             the tables the model relies on, for the harness to check against Go's `unicode`
-/
import ZnVerif.Ops.Run
import ZnVerif.Model.TextMethods
import ZnVerif.Spec.TextMethods

namespace ZnVerif.Ops.TextMethods
open ZnVerif ZnVerif.Ops ZnVerif.Model ZnVerif.Ops.Run

def methodName : String → Option String
  | "replace" => some "替换" | "match" => some "匹配" | "prefix" => some "匹配开头" | "suffix" => some "匹配结尾"
  | "trim" => some "去除空格" | "lower" => some "转小写-英文" | "upper" => some "转大写-英文" | "join" => some "拼接"
  | "format" => some "格式化" | "tonum" => some "转换数值" | "slice" => some "取样" | "split" => some "分隔"
  | _ => none

def cpsString (l : List Nat) : String := String.ofList (l.map Char.ofNat)

/-- s<cps> | n<bits> | b0/b1 | z -/
def argCell (a : String) : Option (Cell Float) :=
  if a.startsWith "s" then some (.str (cpsString (parseCps (a.drop 1).toString)))
  else if a.startsWith "n" then
    let b := (a.drop 1).toString
    if b == "nan" then some (.num (0.0/0.0)) else (parseHex? b).map fun n => .num (Float.ofBits (UInt64.ofNat n))
  else if a == "b1" then some (.bool true)
  else if a == "b0" then some (.bool false)
  else if a == "z" then some .null
  else none

def textCps (s : String) : String := cpField (s.toList.map Char.toNat)

def showCell (h : Array (Cell Float)) (a : Addr) : String :=
  match h[a]? with
  | some (.str s) => "ok " ++ textCps s
  | some (.bool b) => if b then "ok 1" else "ok 0"
  | some (.num x) => "ok n:" ++ floatBits x
  | some (.arr items) =>
    "ok " ++ toString items.length ++ String.join (items.map fun i =>
      match (h[i]? : Option (Cell Float)) with | some (Cell.str s) => " " ++ textCps s | _ => " ?")
  | some _ => "ok?"
  | none => "nil!"

def runModel (which : String) (t : String) (args : List String) : String :=
  match methodName which, args.mapM argCell with
  | some name, some cells =>
    let prep : M Float (Addr × List Addr) := do
      let r ← newStr (cpsString (parseCps t))
      let as ← cells.mapM alloc
      pure (r, as)
    match prep (initVM ()) with
    | (.ok (recv, as), s) =>
      let (r, s') := builtinMethod 200 recv name as s
      let tail := if which == "tonum" then
          " | " ++ (match (s'.heap[recv]? : Option (Cell Float)) with | some (Cell.str x) => textCps x | _ => "?") else ""
      match r with
      | .ok a => showCell s'.heap a ++ tail
      | .err (.rt c) => "err rt " ++ toString c ++ tail
      | .err (.sigExc _) => "err sig 4" ++ tail
      | .err _ => "err other 0" ++ tail
      | .panic => "panic"
      | .fuel => "fuel"
      | .unmodelled => "unmodelled"
    | _ => "bad-spec"
  | _, _ => "bad-op"

def argSVal (a : String) : Option (Spec.SVal Float) :=
  (argCell a).map fun c => match c with
    | .str s => .str s
    | .num x => .num x
    | .bool b => .bool b
    | _ => .null

def showSVal : Spec.SVal Float → String
  | .str s => "ok " ++ textCps s
  | .bool b => if b then "ok 1" else "ok 0"
  | .num x => "ok n:" ++ floatBits x
  | .list xs => "ok " ++ toString xs.length ++ String.join (xs.map fun x => match x with | .str s => " " ++ textCps s | _ => " ?")
  | _ => "ok?"

def runSpec (which : String) (t : String) (args : List String) : String :=
  match methodName which, args.mapM argSVal with
  | some name, some vals =>
    let recv : Spec.SVal Float := .str (cpsString (parseCps t))
    if which == "tonum" then
      match (Spec.builtinMut recv name vals : Spec.SM Float _) {} with
      | (.ok (nv, res), _) => showSVal res ++ " | " ++ (match nv with | .str x => textCps x | _ => "?")
      | (.raise _, _) => "err | " ++ textCps (cpsString (parseCps t))
      | (.unspecified, _) => "unspecified"
      | _ => "bad-outcome"
    else
      match (Spec.builtinPure 64 recv name vals : Spec.SM Float _) {} with
      | (.ok v, _) => showSVal v
      | (.raise _, _) => "err"
      | (.unspecified, _) => "unspecified"
      | _ => "bad-outcome"
  | _, _ => "bad-op"

def handle (op : String) (args : List String) : Option String :=
  match op, args with
  | "tm", w :: t :: rest => some (runModel w t rest)
  | "tmrun", w :: t :: rest => some (runModel w t rest)
  | "spec:tm", w :: t :: rest => some (runSpec w t rest)
  | "spec:tmrun", w :: t :: rest => some (runSpec w t rest)
  | "unitab", ["ranges"] =>
    some ("ok" ++ String.join (Model.TextOps.caselessRanges.map fun r => " " ++ hexOfNat r.1 ++ "-" ++ hexOfNat r.2))
  | "unitab", ["spaces"] =>
    -- every code point the MODEL takes for a space, and every one the SPEC does
    let m := (List.range 0x3100).filter Model.TextOps.isSpaceRune
    let s := (List.range 0x3100).filter Spec.TextOps.isSpace
    some ("ok " ++ cpField m ++ " " ++ cpField s)
  | _, _ => none

end ZnVerif.Ops.TextMethods
