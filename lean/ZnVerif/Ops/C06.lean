import ZnVerif.Ops.Util
import ZnVerif.Model.ScopeRun

/-!
Driver ops of C06 (same line format as harness/ops_scope.go):

    scope <tok>*           model: `Scope.run Scope.new`        spec:scope …   `Spec.Scopes.run initial`
    vmscope F|N <tok>*     model: `VMScope.run`                spec:vmscope … `Spec.Scopes.vmStep` history
    tokens:  b  e  d:<name>:<int>  c:<name>:<int>  x:<name>:<int>:<module>  s:<name>:<int>  g:<name>  m:<name>
    answer:  ok <res>*     res = ok | v<int> | v<int>@<module> | nil | e<code> | E (spec: rejected, any code)
             panic         (model)      undef (spec: an `e` with no open block)
-/
namespace ZnVerif.Ops.C06
open ZnVerif ZnVerif.SymTab ZnVerif.Spec.Scopes

def parseTok (t : String) : Option (Op Int) :=
  match t.splitOn ":" with
  | ["b"] => some .beginScope
  | ["e"] => some .endScope
  | ["d", n, v] => v.toInt?.map (Op.declare n)
  | ["c", n, v] => v.toInt?.map (Op.declareConst n)
  | ["x", n, v, m] => match v.toInt?, m.toNat? with
    | some v, some m => some (.declareExternal n v m)
    | _, _ => none
  | ["s", n, v] => v.toInt?.map (Op.assign n)
  | ["g", n] => some (.lookup n)
  | ["m", n] => some (.lookupM n)
  | _ => none

def parseToks (ts : List String) : Option (List (Op Int)) := ts.mapM parseTok

def showRes : Res Int → String
  | .done => "ok"
  | .val v => s!"v{v}"
  | .valM v m => s!"v{v}@{m}"
  | .undefined => "nil"
  | .err c => s!"e{c}"

def showVMRes : VMRes Int → String
  | .res r => showRes r
  | .errAny => "E"

def showAll (rs : List String) : String := " ".intercalate ("ok" :: rs)

def scopeModel (ops : List (Op Int)) : String :=
  match Scope.run (Scope.new : Scope Int) ops with
  | .ok (_, rs) => showAll (rs.map showRes)
  | .err c => s!"err {c}"
  | .panic => "panic"

def scopeSpec (ops : List (Op Int)) : String :=
  match run (initial : Stack Int) ops with
  | some (_, rs) => showAll (rs.map showRes)
  | none => "undef"

def vmGlobals : List (String × Int) := [("G", 100), ("H", 200)]

def vmModel (frame : Bool) (ops : List (Op Int)) : String :=
  match VMScope.run ⟨vmGlobals, 0, if frame then some Scope.new else none⟩ ops with
  | .ok (_, rs) => showAll (rs.map showRes)
  | .err c => s!"err {c}"
  | .panic => "panic"

def vmSpec (ops : List (Op Int)) : String :=
  match vmRun ⟨vmGlobals, 0, initial⟩ ops with
  | some (_, rs) => showAll (rs.map showVMRes)
  | none => "undef"

def handle (op : String) (args : List String) : Option String :=
  match op, args with
  | "scope", ts => some ((parseToks ts).elim "bad-token" scopeModel)
  | "spec:scope", ts => some ((parseToks ts).elim "bad-token" scopeSpec)
  | "vmscope", "F" :: ts => some ((parseToks ts).elim "bad-token" (vmModel true))
  | "vmscope", "N" :: ts => some ((parseToks ts).elim "bad-token" (vmModel false))
  | "spec:vmscope", "F" :: ts => some ((parseToks ts).elim "bad-token" vmSpec)
  | "spec:vmscope", "N" :: _ => some "undef"      -- no module is running: the property says nothing
  | _, _ => none

end ZnVerif.Ops.C06
