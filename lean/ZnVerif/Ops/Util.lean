/- Line-protocol helpers shared by the driver ops (core-only). -/
namespace ZnVerif.Ops

def hexDigit? (c : Char) : Option Nat :=
  if '0' ≤ c ∧ c ≤ '9' then some (c.toNat - '0'.toNat)
  else if 'a' ≤ c ∧ c ≤ 'f' then some (c.toNat - 'a'.toNat + 10)
  else if 'A' ≤ c ∧ c ≤ 'F' then some (c.toNat - 'A'.toNat + 10)
  else none

def parseHex? (s : String) : Option Nat :=
  if s.isEmpty then none else
  s.foldl (fun acc c => match acc, hexDigit? c with
    | some a, some d => some (a * 16 + d)
    | _, _ => none) (some 0)

/-- code points as dot-separated hex, "-" for empty -/
def parseCps (s : String) : List Nat :=
  if s == "-" || s.isEmpty then [] else
  (s.splitOn ".").filterMap parseHex?

def hexOfNat (n : Nat) : String := String.ofList (Nat.toDigits 16 n)

def cpField (l : List Nat) : String :=
  if l.isEmpty then "-" else ".".intercalate (l.map hexOfNat)

def pad16 (s : String) : String := String.ofList (List.replicate (16 - s.length) '0') ++ s

end ZnVerif.Ops
