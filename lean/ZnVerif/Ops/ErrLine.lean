/-
Driver ops of the syntax-error display (C05 / C18):

  errline <cps> <cursor>         →  model of the repaired printer      `ok _ <quoted cps> <caret col>` | panic | outOfFuel
  legacy:errline <cps> <cursor>  →  model of the original printer       (same format)
  spec:errline <cps> <cursor>    →  the spec oracle                     `ok _ <quoted cps> <caret col>`

The line number (`FindLineIdx` over the lexer's Lines table) is not modelled here: the field is `_`.
-/
import ZnVerif.Ops.Util
import ZnVerif.Model.ErrorPrinter
import ZnVerif.Spec.ErrorLine

namespace ZnVerif.Ops.ErrLine
open ZnVerif ZnVerif.Ops

def showOut : Model.ErrorPrinter.Out → String
  | .panic => "panic"
  | .outOfFuel => "outOfFuel"
  | .ok q col => s!"ok _ {cpField q} {col}"

def handle (op : String) (args : List String) : Option String :=
  match op, args with
  | "errline", [s, c] =>
    match c.toInt? with
    | some cur => some (showOut (Model.ErrorPrinter.fmtLine (parseCps s) cur))
    | none => some "bad-args"
  | "legacy:errline", [s, c] =>
    match c.toInt? with
    | some cur => some (showOut (Model.ErrorPrinter.fmtLineLegacy (parseCps s) cur))
    | none => some "bad-args"
  | "spec:errline", [s, c] =>
    match c.toInt? with
    | some cur =>
      let src := parseCps s
      some s!"ok _ {cpField (Spec.ErrorLine.quotedLine src cur)} {Spec.ErrorLine.caretCol src cur}"
    | none => some "bad-args"
  | _, _ => none

end ZnVerif.Ops.ErrLine
