/-
Driver op `lex <cps>`: the whole token stream of the lexer model, in the format of harness/ops_lex.go:

  ok (<type>:<start>:<end>:<literal>)* [err syn <code> <cursor> | nonterminating | " |" (<indents>:<startIdx>:<lineText>)*]

a Go panic is answered `panic` (harness/main.go `recover`).  `spec:segment <cps>` answers the token part from
Spec/Segment.lean (only meaningful on texts of keyword glyphs and plain name characters).  Core Lean only.
-/
import ZnVerif.Ops.Util
import ZnVerif.Model.Lexer
import ZnVerif.Spec.Segment
import ZnVerif.Spec.NameChars
import ZnVerif.Spec.IdAlphabet

namespace ZnVerif.Ops.Lex
open ZnVerif ZnVerif.Ops ZnVerif.Model

def tokenField (t : Token) : String :=
  s!" {t.type}:{t.startIdx}:{t.endIdx}:{cpField t.literal}"

def lineField (src : Array Nat) (li : LineInfo) : String :=
  let text := match li.text with
    | none => []
    | some (a, b) => (src.extract a b).toList
  s!" {li.indents}:{li.startIdx}:{cpField text}"

def lexModel (src : List Nat) : String :=
  let (toks, res, l) := lexAll (4 * src.length + 17) (mkLexer src) []
  let ts := String.join (toks.map tokenField)
  match res with
  | some (.ok _) => "ok" ++ ts ++ " |" ++ String.join (l.lines.toList.map (lineField l.src))
  | some (.err e) => "ok" ++ ts ++ s!" err syn {e.code} {e.cursor}"
  | some .panic => "panic"
  | none => "ok" ++ ts ++ " nonterminating"

/-- `spec:segment <cps>`: the documented keyword/name segmentation, in the token format of `lex`
(keyword `type:start:end:-`, name `5:start:end:chars`), followed by the EOF token -/
def segmentSpec (src : List Nat) : String :=
  let ps := Spec.Segment.segment Spec.Keywords.documented src
  let f (p : Spec.Segment.Piece) : String :=
    match p with
    | .kw ty a b => s!" {ty}:{a}:{b}:-"
    | .name a b cs => s!" 5:{a}:{b}:{cpField cs}"
  "ok" ++ String.join (ps.map f) ++ s!" 0:{src.length}:{src.length}:-"

/-- `spec:segmentq <cps>`: as `spec:segment`, for texts that also contain back-ticked names: the text between two
back-ticks is ONE name (no keyword is cut out of it), the token spans both back-ticks, its literal is the text between
them; outside back-ticks the documented keyword/name segmentation applies.  (Meaningful on texts in which a back-tick
pair is preceded by a keyword or the start of the text and followed by a keyword or the end, names are made of name
characters; an unclosed back-tick is outside its domain.) -/
def splitAtTick : List Nat → List Nat × Option (List Nat)
  | [] => ([], none)
  | c :: r => if c == 0x60 then ([], some r) else
    let (a, b) := splitAtTick r
    (c :: a, b)

def shiftPiece (off : Nat) : Spec.Segment.Piece → Spec.Segment.Piece
  | .kw ty a b => .kw ty (a + off) (b + off)
  | .name a b cs => .name (a + off) (b + off) cs

def segmentQ (fuel : Nat) (off : Nat) (s : List Nat) : List Spec.Segment.Piece :=
  match fuel with
  | 0 => []
  | fuel + 1 =>
    match splitAtTick s with
    | (plain, none) => (Spec.Segment.segment Spec.Keywords.documented plain).map (shiftPiece off)
    | (plain, some rest) =>
      let head := (Spec.Segment.segment Spec.Keywords.documented plain).map (shiftPiece off)
      let o1 := off + plain.length
      match splitAtTick rest with
      | (inner, none) => head ++ [.name o1 (o1 + 1 + inner.length) inner]
      | (inner, some rest') =>
        head ++ [.name o1 (o1 + inner.length + 2) inner] ++ segmentQ fuel (o1 + inner.length + 2) rest'

def segmentQSpec (src : List Nat) : String :=
  let ps := segmentQ (src.length + 1) 0 src
  let f (p : Spec.Segment.Piece) : String :=
    match p with
    | .kw ty a b => s!" {ty}:{a}:{b}:-"
    | .name a b cs => s!" 5:{a}:{b}:{cpField cs}"
  "ok" ++ String.join (ps.map f) ++ s!" 0:{src.length}:{src.length}:-"

/-- `spec:lexalpha <cps>`: the documented tokenisation as a function of the identifier alphabet alone
(Spec/NameChars.lean), the alphabet being the plain linear reading of the regenerated table (`Spec.linearMember`, the
same predicate `spec:idrange` answers with).  Token format of `lex`; a refused character is `err syn 25 <position>`
after the tokens before it; `undefined` where the manual's sentences about names say nothing. -/
def alphabetMember (c : Nat) : Bool :=
  decide (c ≤ Generated.IdRange.idMax) && Spec.linearMember Generated.IdRange.idRange c

def lexAlphaSpec (src : List Nat) : String :=
  let f (p : Spec.Segment.Piece) : String :=
    match p with
    | .kw ty a b => s!" {ty}:{a}:{b}:-"
    | .name a b cs => s!" 5:{a}:{b}:{cpField cs}"
  match Spec.NameChars.tokenise Spec.Keywords.documented alphabetMember src with
  | .tokens ps => "ok" ++ String.join (ps.map f) ++ s!" 0:{src.length}:{src.length}:-"
  | .refused ps pos => "ok" ++ String.join (ps.map f) ++ s!" err syn 25 {pos}"
  | .undefined => "undefined"

def handle (op : String) (args : List String) : Option String :=
  match op, args with
  | "lex", [s] => some (lexModel (parseCps s))
  | "spec:segment", [s] => some (segmentSpec (parseCps s))
  | "spec:segmentq", [s] => some (segmentQSpec (parseCps s))
  | "spec:lexalpha", [s] => some (lexAlphaSpec (parseCps s))
  | "lex2", [a, b] => some (lexModel (parseCps a) ++ " ;; " ++ lexModel (parseCps b))
  | _, _ => none

end ZnVerif.Ops.Lex
