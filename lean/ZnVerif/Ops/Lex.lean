/-
Driver op `lex <cps>`: the whole token stream of the lexer model, in the format of harness/ops_lex.go:

  ok (<type>:<start>:<end>:<literal>)* [err syn <code> <cursor> | nonterminating | " |" (<indents>:<startIdx>:<lineText>)*]

a Go panic is answered `panic` (harness/main.go `recover`).  `spec:segment <cps>` answers the token part from
Spec/Segment.lean (only meaningful on texts of keyword glyphs and plain name characters).  Core Lean only.
-/
import ZnVerif.Ops.Util
import ZnVerif.Model.Lexer
import ZnVerif.Spec.Segment

namespace ZnVerif.Ops.Lex
open ZnVerif ZnVerif.Ops ZnVerif.Model

def tokenField (t : Token) : String :=
  s!" {t.type}:{t.startIdx}:{t.endIdx}:{cpField t.literal}"

def lineField (src : Array Nat) (li : LineInfo) : String :=
  let text := match li.text with
    | none => []
    | some (a, b) => (src.extract a b).toList
  s!" {li.indents}:{li.startIdx}:{cpField text}"

def lexModel (src : List Nat) : String :=
  let (toks, res, l) := lexAll (4 * src.length + 17) (mkLexer src) []
  let ts := String.join (toks.map tokenField)
  match res with
  | some (.ok _) => "ok" ++ ts ++ " |" ++ String.join (l.lines.toList.map (lineField l.src))
  | some (.err e) => "ok" ++ ts ++ s!" err syn {e.code} {e.cursor}"
  | some .panic => "panic"
  | none => "ok" ++ ts ++ " nonterminating"

/-- `spec:segment <cps>`: the documented keyword/name segmentation, in the token format of `lex`
(keyword `type:start:end:-`, name `5:start:end:chars`), followed by the EOF token -/
def segmentSpec (src : List Nat) : String :=
  let ps := Spec.Segment.segment Spec.Keywords.documented src
  let f (p : Spec.Segment.Piece) : String :=
    match p with
    | .kw ty a b => s!" {ty}:{a}:{b}:-"
    | .name a b cs => s!" 5:{a}:{b}:{cpField cs}"
  "ok" ++ String.join (ps.map f) ++ s!" 0:{src.length}:{src.length}:-"

def handle (op : String) (args : List String) : Option String :=
  match op, args with
  | "lex", [s] => some (lexModel (parseCps s))
  | "spec:segment", [s] => some (segmentSpec (parseCps s))
  | _, _ => none

end ZnVerif.Ops.Lex
