/-
C10 driver ops (model side of the harness op `value`, harness/ops_value.go):

  value <receiver-spec> <kind> <member-hex|-> <arg-spec>*      →  ok <result> | <receiver>   err <class> <code> | <receiver>
                                                                   panic | fuel | unmodelled
  members                                                       →  the regenerated member tables, one token per entry

Only what `Model/Interp.lean` models is answered (list / dictionary / number / bool / exception / object
properties, list / dictionary / number / part of the text methods, `#` and 之 reductions, the default and
the 异常 constructor, 显示, display, copy, equality); everything else is `unmodelled` and not compared.
-/
import ZnVerif.Ops.Run
import ZnVerif.Generated.Members
import ZnVerif.Model.Validate
import ZnVerif.Ops.VarInputText
import ZnVerif.Ops.HttpValues

namespace ZnVerif.Ops.C10
open ZnVerif ZnVerif.Ops ZnVerif.Model ZnVerif.Ops.Run

/-- hex of UTF-8 bytes → text; `none` when the bytes are not valid UTF-8 (the model's texts are Unicode strings) -/
def hexToString? (h : String) : Option String :=
  if h == "-" || h.isEmpty then some "" else
  let rec go : List Char → Option (List UInt8)
    | a :: b :: rest =>
      match hexDigit? a, hexDigit? b, go rest with
      | some x, some y, some tl => some (UInt8.ofNat (x * 16 + y) :: tl)
      | _, _, _ => none
    | [] => some []
    | _ => none
  match go h.toList with
  | some bs => String.fromUTF8? (ByteArray.mk bs.toArray)
  | none => none

abbrev St := VM Float

/-- split the text of a list / dictionary body at top-level commas -/
def splitTop (cs : List Char) : List (List Char) := Id.run do
  let mut depth : Nat := 0
  let mut cur : List Char := []
  let mut out : List (List Char) := []
  for c in cs do
    if c == '[' || c == '{' then depth := depth + 1
    if c == ']' || c == '}' then depth := depth - 1
    if c == ',' && depth == 0 then
      out := cur.reverse :: out
      cur := []
    else cur := c :: cur
  return (cur.reverse :: out).reverse

/-- the user class 甲 of the harness snippet: props a = 1, b = 【1，2】; methods 取a 加 坏 (bodies not needed) -/
def mkUserClass : M Float Addr := do
  let a ← newNum (1.0 : Float)
  let b1 ← newNum (1.0 : Float)
  let b2 ← newNum (2.0 : Float)
  let b ← alloc (.arr [b1, b2])
  let m1 ← alloc (.fn (.user none))
  let m2 ← alloc (.fn (.user none))
  let m3 ← alloc (.fn (.user none))
  alloc (.cls "甲" .default [("a", a), ("b", b)] [("取a", m1), ("加", m2), ("坏", m3)])

partial def parseSpec (self : Option Addr) (s : String) : M Float Addr := do
  let cs := s.toList
  match cs with
  | '[' :: rest =>
    let body := rest.dropLast
    if body.isEmpty then alloc (.arr []) else do
      let items ← (splitTop body).mapM fun p => parseSpec self (String.ofList p)
      alloc (.arr items)
  | '{' :: rest =>
    let body := rest.dropLast
    if body.isEmpty then alloc (newHashMapCell []) else do
      let kvs ← (splitTop body).mapM fun p => do
        let k := p.takeWhile (· != '=')
        let v := (p.dropWhile (· != '=')).drop 1
        match hexToString? (String.ofList k) with
        | some key => do let a ← parseSpec self (String.ofList v); pure (key, a)
        | none => notModelled
      alloc (newHashMapCell kvs)
  | _ =>
    if s == "null" then newNull
    else if s == "self" then (match self with | some a => pure a | none => notModelled)
    else if s.startsWith "n:" then
      let b := (s.drop 2).toString
      if b == "nan" then newNum (0.0/0.0 : Float)
      else match parseHex? b with
        | some n => newNum (Float.ofBits (UInt64.ofNat n))
        | none => notModelled
    else if s.startsWith "s:" then
      match hexToString? (s.drop 2).toString with
      | some t => newStr t
      | none => notModelled
    else if s.startsWith "b:" then newBool ((s.drop 2).toString == "1")
    else if s.startsWith "exc:" then
      match hexToString? (s.drop 4).toString with
      | some t => alloc (.exc t)
      | none => notModelled
    else if s == "predef" then pure 6
    else if s.startsWith "glob:" then
      match hexToString? (s.drop 5).toString with
      | some name => do
        let vm ← getVM
        match lookup name vm.globals with
        | some a => pure a
        | none => notModelled
      | none => notModelled
    else if s == "cls" then mkUserClass
    else if s == "obj" then do
      let c ← mkUserClass
      construct 50 c []
    else if s == "fn" then alloc (.fn (.user none))
    -- the value classes of pkg/common (Model/HttpValues.lean)
    else if s == "reqcls" then Model.HttpValues.mkRequestClass
    else if s == "respcls" then Model.HttpValues.mkResponseClass
    else if s == "req" then do
      let c ← Model.HttpValues.mkRequestClass
      Model.HttpValues.newObject 50 c
    else if s == "resp" then do
      let c ← Model.HttpValues.mkResponseClass
      Model.HttpValues.newObject 50 c
    else notModelled

def fuel : Nat := 200

def errText : Err → St → String
  | .rt c, _ => "err rt " ++ toString c
  | .sem c, _ => "err sem " ++ toString c
  | .excErr _, _ => "err exc 0"
  | .sigExc a, s => "err sigexc " ++ canon s.heap a
  | .sigBreak, _ => "err sig 1"
  | .sigContinue, _ => "err sig 2"
  | .other, _ => "err other 0"

def answer {α} (r : Res α × St) (recv : Option Addr) (show_ : α → St → String) : String :=
  let after := match recv with | some a => canon r.2.heap a | none => "-"
  match r.1 with
  | .ok a => "ok " ++ show_ a r.2 ++ " | " ++ after
  | .err e => errText e r.2 ++ " | " ++ after
  | .panic => "panic"
  | .fuel => "fuel"
  | .unmodelled => "unmodelled"

def showAddr (a : Addr) (s : St) : String := canon s.heap a
def showUnit (_ : Unit) (_ : St) : String := "-"

/-- the choice of the harness' `indexIV` (eval.go getMemberExprIV, then the IV constructors for the rest) -/
def indexIV (root idx : Addr) : M Float (Option (Nat × Addr × String × Int)) := do
  let cr ← getCell root
  let ci ← getCell idx
  match cr, ci with
  | .arr _, .num x => pure (some (1, root, "", NumOps.toInt x))
  | .hm _ _, .num x => pure (some (2, root, NumOps.fmt x, 0))
  | .hm _ _, .str t => pure (some (2, root, t, 0))
  | _, .num x => pure (some (1, root, "", NumOps.toInt x))
  | _, .str t => pure (some (2, root, t, 0))
  | _, _ => pure none

def isObj (a : Addr) : M Float Bool := do
  match ← getCell a with
  | .obj _ _ => pure true
  | _ => pure false

/-- what the validators see of a value spec -/
def vkindOf (spec : String) : Validate.VKind :=
  if spec.startsWith "n:" || spec == "predef" then .number
  else if spec.startsWith "s:" then .string
  else if spec.startsWith "[" then .array
  else if spec.startsWith "{" then .hashmap
  else if spec.startsWith "b:" then .bool
  else if spec == "obj" || spec == "req" || spec == "resp" then .object
  else if spec == "fn" || spec.startsWith "lib:" then .function
  else if spec.startsWith "go:" then .govalue (spec.drop 3).toString
  else .other

def runValidate (kind member : String) (argSpecs : List String) : String :=
  match hexToString? member with
  | none => "unmodelled"
  | some pats =>
    let ps := if pats.isEmpty then [] else pats.splitOn ","
    let vals := argSpecs.map vkindOf
    -- the model of the code as it is now: both guards present
    let out := if kind == "vlp" then Validate.validateLeast true true vals ps
      else if kind == "vep" then Validate.validateExact true vals ps
      else match ps with
        | [t] => Validate.validateAll true vals t
        | _ => .err 0
    match out with
    | .ok => "ok - | -"
    | .err c => "err rt " ++ toString c ++ " | -"
    | .panic => "panic"

def runValue (recvSpec kind member : String) (argSpecs : List String) : String :=
  if kind == "vlp" || kind == "vep" || kind == "vap" then runValidate kind member argSpecs else
  -- input-variable texts: Model/VarInput.lean (the parser model on the text, then the evaluator model in an empty VM)
  if kind == "vi" then VarInputText.runVI member false else
  if kind == "ei" then VarInputText.runEI [("甲", member)] false else
  match hexToString? member with
  | none => "unmodelled"
  | some name =>
  let prep : M Float (Addr × List Addr) := do
    let r ← parseSpec none recvSpec
    let args ← argSpecs.mapM (parseSpec (some r))
    pure (r, args)
  match prep (initVM ()) with
  | (.ok (recv, args), s) =>
    let fin {α} (m : M Float α) (sh : α → St → String) : String := answer (m s) (some recv) sh
    match kind, args with
    | "g", _ => fin (getProperty fuel recv name) showAddr
    | "s", v :: _ => fin (do let v ← dup fuel v; setProperty recv name v) showUnit
    | "m", _ => fin (do if ← isObj recv then notModelled else builtinMethod fuel recv name args) showAddr
    | "ir", i :: _ =>
      fin (do match ← indexIV recv i with
              | some iv => reduceRHS fuel iv
              | none => rtErr 80) showAddr
    | "iw", i :: v :: _ =>
      fin (do match ← indexIV recv i with
              | some iv => do let v ← dup fuel v; reduceLHS iv v
              | none => rtErr 80) showUnit
    | "mr", _ => fin (reduceRHS fuel (3, recv, name, 0)) showAddr
    | "mw", v :: _ => fin (do let v ← dup fuel v; reduceLHS (3, recv, name, 0) v) showUnit
    | "c", _ =>
      fin (do match ← getCell recv with
              | .cls _ ctor _ _ =>
                match ← Ops.HttpValues.constructByName recv args with
                | some r => pure r
                | none =>
                  match ctor with
                  | .user _ _ => notModelled
                  | _ => construct fuel recv args
              | .num _ => do
                validateExact args ["number"]
                match args with
                | [p] => pure p
                | _ => goPanic
              | _ => rtErr 82) showAddr
    | "call", _ =>
      fin (do match ← getCell recv with
              | .fn .display => execFunction fuel .display none args
              | .fn _ => notModelled
              | _ => rtErr 81) showAddr
    | "str", _ => fin (display fuel recv) (fun t _ => "s:" ++ stringToHex t)
    | "dup", _ => fin (dup fuel recv) showAddr
    | "cmp", v :: _ =>
      if name == "1" then fin (do let b ← compareXEQ fuel recv v; newBool b) showAddr else "unmodelled"
    | _, _ => "bad-case"
  | (.unmodelled, _) => "unmodelled"
  | _ => "bad-spec"

def membersLine : String :=
  let ms := Generated.Members.members.map fun m => "M:" ++ m.1 ++ ":" ++ m.2.1 ++ ":" ++ stringToHex m.2.2
  let ts := Generated.Members.types.map fun t => "T:" ++ t
  let ks := Generated.Members.constructables.map fun t => "K:" ++ t
  let ls := Generated.Members.libraries.map fun l => "L:" ++ stringToHex l.1 ++ ":" ++ l.2.1 ++ ":" ++ stringToHex l.2.2
  let gs := Generated.Members.globals.map fun g => "G:" ++ stringToHex g
  let cs := Generated.Members.classes.map fun c =>
    "C:" ++ stringToHex c.1 ++ ":" ++ ",".intercalate (c.2.1.map stringToHex) ++ ":" ++ ",".intercalate c.2.2
  let vs := Generated.Members.validateCalls.map fun c => "V:" ++ c.2.1 ++ ":" ++ ",".intercalate c.2.2
  " ".intercalate (ts ++ ms ++ ks ++ ls ++ gs ++ cs ++ vs)

def handle (op : String) (args : List String) : Option String :=
  match op, args with
  | "value", recv :: kind :: member :: rest => some (runValue recv kind member rest)
  | "value", _ => some "bad-case"
  | "httpval", kind :: rest =>
    if kind == "req" || kind == "resp" then some (Ops.HttpValues.run (parseSpec none) kind rest) else some "bad-case"
  | "members", _ => some membersLine
  | _, _ => none

end ZnVerif.Ops.C10
