/-
Driver ops for the input-variable entry points (C05 stream `varinput`).

  varinput <cps>                    model of exec.ExecVarInputText              (Model/VarInput over Model/Parser + Model/Interp)
  exprin <cps> [<cps> [<cps>]]      model of exec.ExecExpressionInputText({甲, 乙, 丙})
  spec:varinput <cps>               Spec.VarInput.varInput on what the compiler (parser model) makes of the text
  spec:varinput-ast <sexp>          … on the generator's intended tree (no parser involved)
  spec:exprin <cps> …               Spec.VarInput.exprInput on the compiler's answers
  spec:exprin-ast <sexp> [| <sexp>]*   … on intended trees (`none` = an entry the generator knows to be no tree)

Answers   model: ok {<name-hex>=<value>,…} (names sorted) | err other 0 | err rt <c> | err sem <c> | err sigexc | err exc 0 | err sig | panic | fuel | unmodelled
          spec : ok {…} | reject | reject-parts | empty-or-reject | err | unspecified
-/
import ZnVerif.Ops.Run
import ZnVerif.Model.VarInput
import ZnVerif.Spec.VarInput

namespace ZnVerif.Ops.VarInput
open ZnVerif ZnVerif.Ops ZnVerif.Model

def insertSorted {β} (kv : String × β) : List (String × β) → List (String × β)
  | [] => [kv]
  | x :: rest => if kv.1 < x.1 then kv :: x :: rest else x :: insertSorted kv rest

def sortKeys {β} (l : List (String × β)) : List (String × β) := l.foldl (fun acc kv => insertSorted kv acc) []

def showMap {β} (f : β → String) (kvs : List (String × β)) : String :=
  "{" ++ ",".intercalate ((sortKeys kvs).map fun kv => stringToHex kv.1 ++ "=" ++ f kv.2) ++ "}"

def showModel : VarInput.Out Float → String
  | .bound kvs vm => "ok " ++ showMap (fun a => Run.canon vm.heap a) kvs
  | .slotErr => "err other 0"
  | .evalErr (.rt c) => s!"err rt {c}"
  | .evalErr (.sem c) => s!"err sem {c}"
  | .evalErr .other => "err other 0"
  | .evalErr (.sigExc _) => "err sigexc"
  | .evalErr (.excErr _) => "err exc 0"
  | .evalErr _ => "err sig"
  | .panic => "panic"
  | .fuel => "fuel"
  | .unmodelled => "unmodelled"

def showSpec : Spec.VarInput.Outcome Float → String
  | .bound kvs => "ok " ++ showMap (fun v => Run.canonS #[] v) kvs
  | .rejected => "reject"
  | .rejectedParts => "reject-parts"
  | .emptyOrRejected => "empty-or-reject"
  | .failed => "err"
  | .unspecified => "unspecified"

def entryNames : List String := ["甲", "乙", "丙"]

/-- what the compiler makes of a text: the tree, or nothing -/
def compiled (src : List Nat) : Option (Option Program) :=
  match VarInput.parseText src with
  | .tree p => some (some p)
  | .synErr _ => some none
  | .otherErr => some none
  | .outOfFuel => none

def programOfSexp (toks : List String) : Option Program :=
  sxParse (sxTokens (" ".intercalate toks)) >>= sxProgram

/-- split a token list at `|` -/
def splitBar (l : List String) : List (List String) :=
  let (cur, done) := l.foldl (fun (acc : List String × List (List String)) t =>
    if t == "|" then ([], acc.1.reverse :: acc.2) else (t :: acc.1, acc.2)) ([], [])
  (cur.reverse :: done).reverse

def fuel : Nat := Run.fuelDefault

def handle (op : String) (args : List String) : Option String :=
  match op, args with
  | "varinput", [src] => some (showModel (VarInput.execVarInputText fuel (parseCps src)))
  | "exprin", srcs =>
    let entries := sortKeys ((entryNames.zip srcs).map fun kv => (kv.1, parseCps kv.2))
    some (showModel (VarInput.execExpressionInputText fuel entries [] (initVM ())))
  | "spec:varinput", [src] =>
    let cps := parseCps src
    if cps.isEmpty then some "ok {}" else
    match compiled cps with
    | none => some "unspecified"
    | some c => some (showSpec (Spec.VarInput.varInput fuel c))
  | "spec:varinput-ast", toks =>
    match programOfSexp toks with
    | none => some "bad-ast"
    | some p => some (showSpec (Spec.VarInput.varInput fuel (some p)))
  | "spec:exprin", srcs =>
    let cs := srcs.map fun s => compiled (parseCps s)
    if cs.any Option.isNone then some "unspecified" else
    let entries := sortKeys ((entryNames.zip cs).map fun kv => (kv.1, kv.2.getD none))
    some (showSpec (Spec.VarInput.exprInput fuel entries))
  | "spec:exprin-ast", toks =>
    let ps := (splitBar toks).map fun t => if t == ["none"] then some none else (programOfSexp t).map some
    if ps.any Option.isNone then some "bad-ast" else
    let entries := sortKeys ((entryNames.zip ps).map fun kv => (kv.1, kv.2.getD none))
    some (showSpec (Spec.VarInput.exprInput fuel entries))
  | _, _ => none

end ZnVerif.Ops.VarInput
