/-
Driver ops for C15 (module loader).

  modgraph <callFuel> <main-path> <nfiles> <file>* <nlibs> <lib>*        model  (Model.Modules.run, default oracle)
  spec:modgraph …                                                        spec oracle (Spec.ModuleSem.specRun)
  modgraph-rev …      model with the DFS started in reverse node order and exports ranged in reverse order
  modgraph-pinned …   model with the finder of the tree before fix 420e70b (`Variant.pinned`: names joined and cleaned by
                      filepath.Join; a path component `2e.2e` in a file key = the parent of the main file's directory)

  file := <path> <nimports> <imp>* <nitems> <item>*
  path := segments joined by `/`, each a dot-separated hex code-point list
  imp  := <name> <items>             items := `-` | names joined by `,`
  item := m:<k> | d:<name>:<m|t>:<mark>:<uses> | u:<use> | a:<name>
  uses := `-` | uses joined by `;`    use := c<name> | n<name>
  lib  := <name> <exports>           exports := `-` | names joined by `,`

  answer: <status> | <markers>       status := ok | err <code> | panic | loadfuel | callfuel | unsupported
                                     markers := `-` | decimal markers joined by `,`
Core Lean only.
-/
import ZnVerif.Ops.Util
import ZnVerif.Model.Modules
import ZnVerif.Spec.ModuleSem

namespace ZnVerif.Ops.C15
open ZnVerif ZnVerif.Ops
open ZnVerif.Model.Modules

def parseName (s : String) : Name := parseCps s

def parseNames (s : String) : List Name :=
  if s == "-" || s.isEmpty then [] else (s.splitOn ",").map parseName

def parsePath (s : String) : Path := (s.splitOn "/").map parseName

def parseUse (s : String) : Option Use :=
  match s.toList with
  | 'c' :: r => some (.call (parseName (String.ofList r)))
  | 'n' :: r => some (.new (parseName (String.ofList r)))
  | _ => none

def parseUses (s : String) : List Use :=
  if s == "-" || s.isEmpty then [] else (s.splitOn ";").filterMap parseUse

def parseItem (s : String) : Option Item :=
  match s.splitOn ":" with
  | ["m", k] => k.toNat?.map Item.marker
  | ["d", n, k, mk, us] =>
    match mk.toNat? with
    | none => none
    | some mark => some (.defn ⟨parseName n, if k == "t" then .type else .method, mark, parseUses us⟩)
  | ["u", u] => (parseUse u).map Item.use
  | ["a", n] => some (.assign (parseName n))
  | _ => none

/-- take `n` things with a sub-parser that consumes a prefix of the token list -/
def takeN {α} (p : List String → Option (α × List String)) : Nat → List String → Option (List α × List String)
  | 0, ts => some ([], ts)
  | n + 1, ts =>
    match p ts with
    | none => none
    | some (a, ts1) =>
      match takeN p n ts1 with
      | none => none
      | some (as, ts2) => some (a :: as, ts2)

def pImp : List String → Option (Imp × List String)
  | n :: items :: r => some (⟨parseName n, parseNames items⟩, r)
  | _ => none

def pItem : List String → Option (Item × List String)
  | t :: r => (parseItem t).map (·, r)
  | _ => none

def pFile : List String → Option ((Path × ModuleSrc) × List String)
  | p :: ni :: r =>
    match ni.toNat? with
    | none => none
    | some ni =>
      match takeN pImp ni r with
      | none => none
      | some (imps, r1) =>
        match r1 with
        | nt :: r2 =>
          match nt.toNat? with
          | none => none
          | some nt =>
            match takeN pItem nt r2 with
            | none => none
            | some (items, r3) => some ((parsePath p, ⟨imps, items⟩), r3)
        | _ => none
  | _ => none

def pLib : List String → Option ((Name × List Name) × List String)
  | n :: ex :: r => some ((parseName n, parseNames ex), r)
  | _ => none

structure Case where
  callFuel : Nat
  mainPath : Path
  files : Files
  libs : Libs

def parseCase : List String → Option Case
  | cf :: mp :: nf :: r =>
    match cf.toNat?, nf.toNat? with
    | some cf, some nf =>
      match takeN pFile nf r with
      | none => none
      | some (files, r1) =>
        match r1 with
        | nl :: r2 =>
          match nl.toNat? with
          | none => none
          | some nl =>
            match takeN pLib nl r2 with
            | some (libs, []) => some ⟨cf, parsePath mp, files, libs⟩
            | _ => none
        | _ => none
    | _, _ => none
  | _ => none

def showTrace (t : List Nat) : String :=
  if t.isEmpty then "-" else ",".intercalate (t.map toString)

def showErr : Option Err → String
  | none => "ok"
  | some (.code n) => s!"err {n}"
  | some .panic => "panic"
  | some .loadFuel => "loadfuel"
  | some .callFuel => "callfuel"
  | some .unsupported => "unsupported"

def revOracle : Oracle := ⟨fun g => (nodes g).reverse, fun l => l.reverse⟩

def handle (op : String) (args : List String) : Option String :=
  match op with
  | "modgraph" =>
    some (match parseCase args with
      | none => "bad-case"
      | some c =>
        let o := run .repaired Oracle.default c.files c.libs c.callFuel c.mainPath
        s!"{showErr o.err} | {showTrace o.trace}")
  | "modgraph-rev" =>
    some (match parseCase args with
      | none => "bad-case"
      | some c =>
        let o := run .repaired revOracle c.files c.libs c.callFuel c.mainPath
        s!"{showErr o.err} | {showTrace o.trace}")
  | "modgraph-pinned" =>
    some (match parseCase args with
      | none => "bad-case"
      | some c =>
        let o := run .pinned Oracle.default c.files c.libs c.callFuel c.mainPath
        s!"{showErr o.err} | {showTrace o.trace}")
  | "spec:modgraph" =>
    some (match parseCase args with
      | none => "bad-case"
      | some c =>
        let o := Spec.ModuleSem.specRun c.files c.libs c.callFuel c.mainPath
        s!"{showErr o.err} | {showTrace o.trace}")
  | _ => none

end ZnVerif.Ops.C15
