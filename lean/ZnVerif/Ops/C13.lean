/-
Driver ops for C13 (string literals), spec side only — the model side is op `lex` (Ops/Lex.lean):

  spec:encode <q> safe|verbatim <cps>   →  ok <cps of the whole literal>      q ∈ 0..4 (“ 「 ‘ 『 《)
  spec:lexstr <cps>                     →  ok <type>:<len>:<text cps> det|amb | unterminated det|amb | notliteral
        the reference decoder `Spec.Literal.decodeLiteral` on a text that starts with an opening quote;
        `amb` = the looser reading of "other back-tick text" would differ on this input (`determined = false`; counted only)
  spec:lexstr2 <cps>                    →  the looser reading (`decodeLiteralLoose`)
Core Lean only.
-/
import ZnVerif.Ops.Util
import ZnVerif.Spec.Literal

namespace ZnVerif.Ops.C13
open ZnVerif ZnVerif.Ops ZnVerif.Spec.Literal

def quoteOf (s : String) : Option Quote := Quote.all[s.toNat!]?

def showDecoded (d : Decoded) : String :=
  match d with
  | .ok text type len => s!"ok {type}:{len}:{cpField text}"
  | .unterminated => "unterminated"
  | .notLiteral => "notliteral"

def handle (op : String) (args : List String) : Option String :=
  match op, args with
  | "spec:encode", [q, mode, s] =>
    match quoteOf q with
    | none => some "bad-quote"
    | some q =>
      let t := parseCps s
      some ("ok " ++ cpField (if mode == "safe" then literalSafe q t else literalVerbatim q t))
  | "spec:lexstr", [s] =>
    let src := parseCps s
    some (showDecoded (decodeLiteral src) ++ (if determined src then " det" else " amb"))
  | "spec:lexstr2", [s] => some (showDecoded (decodeLiteralLoose (parseCps s)))
  | _, _ => none

end ZnVerif.Ops.C13
