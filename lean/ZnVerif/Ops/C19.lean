/-
Driver ops for C19 (JSON).  Same protocol lines as harness/ops_json.go:

  json gen   <value>*            Model.Json.FN_generateJson      → ok <bytes-hex> | exc | err rt <code> | panic
  json elem  <value>             Model.Json.elementToJSONString  → ok <bytes-hex> | exc
  json parse <reps> <value>*     Model.Json.FN_parseJson         → ok <canon> | exc | err rt <code> | panic
  json rt    <reps> <value>      generate, then parse
  json zn gen|parse …            the same through a Zn program with a 拦截异常 handler: a raise and a runtime error
                                 both end in the handler (`exc`)
  spec:json rt <reps> <value>    the property itself: a representable dictionary comes back unchanged, a
                                 dictionary holding a non-finite number raises; `any` where the property is silent
  spec:json gen <value>          `exc` when the dictionary holds a non-finite number, else `ok`

<value> is the canonical value form of the harness (`canon`): null, b:0|1, n:<bits>|n:nan, s:<hex>, [v,…],
{<key-hex>=v,…}, fn.  Dictionaries are built the way `value.NewHashMap` builds them (AppendKVPair order).
Numbers are `Float` here (and only here): `jsonFmtFloat` reproduces encoding/json's float64 encoder,
`parseJsonFloat` strconv.ParseFloat with its range error.  Core Lean only.
-/
import ZnVerif.Ops.Util
import ZnVerif.Ops.FloatNum
import ZnVerif.Model.Json

namespace ZnVerif.Ops.C19
open ZnVerif ZnVerif.Ops ZnVerif.Model.Json

/-! ### `Float` instance of the number codec -/

def strCps (s : String) : List Nat := s.toList.map Char.toNat

/-- encoding/json `floatEncoder` for float64: `'f'`, or `'e'` when `abs < 1e-6 || abs >= 1e21`, shortest digits,
`e-09` cleaned up to `e-9` -/
def jsonFmtFloat (x : Float) : String :=
  let (sign, m, e) := decodeFloat x
  let sg := if sign then "-" else ""
  if m == 0 then sg ++ "0" else
  let (d, exp) := shortestDigits m e
  let ds := toString d
  let nd := ds.length
  if exp < -6 || exp ≥ 21 then
    let mant := if nd == 1 then ds else (ds.take 1).toString ++ "." ++ (ds.drop 1).toString
    let ea := exp.natAbs
    let es := (if exp < 0 then "-" else "+") ++ (if ea < 10 then toString ea else pad2 ea)
    sg ++ mant ++ "e" ++ es
  else if exp < 0 then
    sg ++ "0." ++ String.ofList (List.replicate ((-exp).toNat - 1) '0') ++ ds
  else
    let ip := exp.toNat + 1
    if nd ≤ ip then sg ++ ds ++ String.ofList (List.replicate (ip - nd) '0')
    else sg ++ (ds.take ip).toString ++ "." ++ (ds.drop ip).toString

/-- strconv.ParseFloat on an RFC 8259 number token; `none` = value out of range (±Inf, ErrRange) -/
def parseJsonFloat (s : List Nat) : Option Float :=
  let (neg, s) := match s with
    | 0x2D :: r => (true, r)
    | _ => (false, s)
  let isD (c : Nat) := 0x30 ≤ c && c ≤ 0x39
  let ip := s.takeWhile isD
  let r := s.dropWhile isD
  let (fp, r) := match r with
    | 0x2E :: r' => (r'.takeWhile isD, r'.dropWhile isD)
    | _ => ([], r)
  let ex : Int := match r with
    | 0x65 :: r' | 0x45 :: r' =>
      let (eneg, r'') := match r' with
        | 0x2D :: t => (true, t)
        | 0x2B :: t => (false, t)
        | _ => (false, r')
      let v := (r''.takeWhile isD).foldl (fun a c => if a > 1000000 then a else a * 10 + digitVal c) 0
      if eneg then -(v : Int) else v
    | _ => 0
  let digits := (ip ++ fp).dropWhile (· == 0x30)
  let mant := digits.foldl (fun a c => a * 10 + digitVal c) 0
  let e10 := ex - fp.length
  let magnitude : Int := digits.length + e10
  let bits : Nat :=
    if mant == 0 then 0
    else if magnitude > 400 then 0x7FF0000000000000
    else if magnitude < -400 then 0
    else nearestBits (Q.mul10 ⟨mant, 1⟩ e10)
  if bits == 0x7FF0000000000000 then none
  else some (Float.ofBits (UInt64.ofNat (if neg then bits + 2^63 else bits)))

def floatCodec : NumCodec Float where
  isFinite x := !(x.isNaN || x.isInf)
  fmtNum x := strCps (jsonFmtFloat x)
  parseNum := parseJsonFloat
  ofInt i := Float.ofInt i

/-! ### value specs -/

def hexByte (n : Nat) : String := String.ofList (Nat.toDigits 16 (n / 16) ++ Nat.toDigits 16 (n % 16))

def bytesHex (bs : List Nat) : String := if bs.isEmpty then "-" else String.join (bs.map hexByte)

def hexBytes (s : String) : List Nat :=
  if s == "-" then [] else
  let rec go : List Char → List Nat
    | a :: b :: r => ((hexDigit? a).getD 0 * 16 + (hexDigit? b).getD 0) :: go r
    | _ => []
  go s.toList

/-- text of the protocol (hex of bytes) as the code points of the Zn text -/
def textOfHex (s : String) : Text := utf8DecodeLossy (hexBytes s)

def hexOfText (t : Text) : String := bytesHex (utf8Encode t)

/-- `value.NewHashMap`: a repeated key keeps its first place and takes the last value -/
def newHashMap (kvs : List (Text × JV Float)) : JV Float := .dict (appendAll [] kvs)

def stops (c : Char) : Bool := c == ',' || c == ']' || c == '}'

partial def readValue : List Char → Option (JV Float × List Char)
  | '[' :: r =>
    let rec items (r : List Char) (acc : List (JV Float)) : Option (JV Float × List Char) :=
      match r with
      | ']' :: r' => some (.list acc.reverse, r')
      | ',' :: r' => items r' acc
      | _ => match readValue r with
        | some (v, r') => items r' (v :: acc)
        | none => none
    items r []
  | '{' :: r =>
    let rec members (r : List Char) (acc : List (Text × JV Float)) : Option (JV Float × List Char) :=
      match r with
      | '}' :: r' => some (newHashMap acc.reverse, r')
      | ',' :: r' => members r' acc
      | _ =>
        let k := r.takeWhile (· != '=')
        match readValue ((r.dropWhile (· != '=')).drop 1) with
        | some (v, r') => members r' ((textOfHex (String.ofList k), v) :: acc)
        | none => none
    members r []
  | s =>
    let tok := String.ofList (s.takeWhile (fun c => !stops c))
    let rest := s.dropWhile (fun c => !stops c)
    if tok == "null" then some (.null, rest)
    else if tok == "fn" then some (.other 0, rest)
    else if tok == "b:1" then some (.bool true, rest)
    else if tok == "b:0" then some (.bool false, rest)
    else if tok == "n:nan" then some (.num (0.0 / 0.0), rest)
    else if tok.startsWith "n:" then
      (parseHex? (String.ofList (tok.toList.drop 2))).map fun b => (.num (Float.ofBits (UInt64.ofNat b)), rest)
    else if tok.startsWith "s:" then some (.str (textOfHex (String.ofList (tok.toList.drop 2))), rest)
    else none

def readSpec (s : String) : Option (JV Float) :=
  match readValue s.toList with
  | some (v, []) => some v
  | _ => none

def readSpecs (l : List String) : Option (List (JV Float)) := l.mapM readSpec

/-- the harness's canonical value printer, including its cut-off below 40 levels -/
partial def canonAt (depth : Nat) : JV Float → String
  | v =>
    if depth > 40 then "deep!" else
    match v with
    | .null => "null"
    | .bool b => if b then "b:1" else "b:0"
    | .num x => "n:" ++ floatBits x
    | .str s => "s:" ++ hexOfText s
    | .list xs => "[" ++ ",".intercalate (xs.map (canonAt (depth + 1))) ++ "]"
    | .dict kvs => "{" ++ ",".intercalate (kvs.map fun p => hexOfText p.1 ++ "=" ++ canonAt (depth + 1) p.2) ++ "}"
    | .other _ => "fn"

def canon (v : JV Float) : String := canonAt 0 v

/-! ### answers -/

def genAnswer : Outcome (JV Float) → String
  | .ok (.str t) => "ok " ++ hexOfText t
  | .ok v => "ok-not-text " ++ canon v
  | .raise _ => "exc"
  | .rtError c => "err rt " ++ toString c
  | .panic => "panic"

def parseAnswer : Outcome (JV Float) → String
  | .ok v => "ok " ++ canon v
  | .raise _ => "exc"
  | .rtError c => "err rt " ++ toString c
  | .panic => "panic"

/-- through a program whose 拦截异常 handler yields 真: exception signals and runtime errors both reach it -/
def caught (s : String) : String := if s == "exc" || s.startsWith "err rt" then "exc" else s

def rtModel (v : JV Float) : String :=
  match FN_generateJson floatCodec [v] with
  | .ok t => parseAnswer (FN_parseJson floatCodec [t])
  | o => "gen:" ++ genAnswer o

/-- the property on one dictionary: representable → unchanged; a non-finite number somewhere → an exception -/
def rtSpec (v : JV Float) : String :=
  match v with
  | .dict _ =>
    if Representable floatCodec v then "ok " ++ canon v
    else if v.noOther && (buildPlainValueFromElement v).scalarTexts && !(buildPlainValueFromElement v).finite floatCodec then "gen:exc"
    else "any"
  | _ => "any"

def genSpec (v : JV Float) : String :=
  match v with
  | .dict _ =>
    if v.noOther && (buildPlainValueFromElement v).scalarTexts then (if (buildPlainValueFromElement v).finite floatCodec then "ok" else "exc") else "any"
  | _ => "any"

def handle (op : String) (args : List String) : Option String :=
  match op, args with
  | "json", "gen" :: vs => some ((readSpecs vs).elim "bad-spec" fun l => genAnswer (FN_generateJson floatCodec l))
  | "json", ["elem", v] => some ((readSpec v).elim "bad-spec" fun e => genAnswer (elementToJSONString floatCodec e))
  | "json", "parse" :: _ :: vs =>
    some ((readSpecs vs).elim "bad-spec" fun l => parseAnswer (FN_parseJson floatCodec l))
  | "json", ["rt", _, v] => some ((readSpec v).elim "bad-spec" rtModel)
  | "json", ["zn", "gen", v] =>
    some ((readSpec v).elim "bad-spec" fun e => caught (genAnswer (FN_generateJson floatCodec [e])))
  | "json", ["zn", "parse", _, v] =>
    some ((readSpec v).elim "bad-spec" fun e => caught (parseAnswer (FN_parseJson floatCodec [e])))
  | "spec:json", ["rt", _, v] => some ((readSpec v).elim "bad-spec" rtSpec)
  | "spec:json", ["gen", v] => some ((readSpec v).elim "bad-spec" genSpec)
  | _, _ => none

end ZnVerif.Ops.C19
