/- `runast` op: execute a dumped AST on the model evaluator with ν := Float; canonical output as the harness. -/
import ZnVerif.Ops.Sexp
import ZnVerif.Ops.FloatNum
import ZnVerif.Model.Interp
import ZnVerif.Spec.Sem
import ZnVerif.Generated.Members

namespace ZnVerif.Ops.Run
open ZnVerif ZnVerif.Ops ZnVerif.Model

partial def canon (h : Array (Cell Float)) (a : Addr) (depth : Nat := 0) : String :=
  if depth > 40 then "deep!" else
  match h[a]? with
  | none => "nil!"
  | some c =>
    match c with
    | .num x => "n:" ++ floatBits x
    | .str s => "s:" ++ stringToHex s
    | .bool b => if b then "b:1" else "b:0"
    | .null => "null"
    | .arr items => "[" ++ ",".intercalate (items.map fun i => canon h i (depth+1)) ++ "]"
    | .hm vals order =>
      "{" ++ ",".intercalate (order.map fun k =>
        stringToHex k ++ "=" ++ (match lookup k vals with | some v => canon h v (depth+1) | none => "nil!")) ++ "}"
      ++ (if vals.length ≠ order.length then "!len-mismatch" else "")
    | .obj c _ => match h[c]? with
      | some (.cls name _ _ _) => "obj:" ++ stringToHex name
      | _ => "obj:?"
    | .fn _ => "fn"
    | .cls name _ _ _ => "cls:" ++ stringToHex name
    | .exc msg => "exc:" ++ stringToHex msg

/-- displayed output as the harness reports it: split into physical lines (a displayed text may contain line breaks) -/
def traceField (out : List String) : String :=
  if out.isEmpty then "-" else
  ",".intercalate ((out.reverse.flatMap fun l => l.splitOn "\n").map fun l => if l.isEmpty then "e" else stringToHex l)

/-- frames bottom → top as the error printer lists them (`Model.listedFrames`: the head frame always, a body frame
unless it is a never-started frame of a program module); every frame is "native" by its OWN module -/
def locs (vm : VM Float) : String :=
  match listedFrames vm with
  | [] => "noloc"
  | frames =>
    ">".intercalate (frames.map fun fr =>
      if fr.isNative vm then "native"
      else match moduleOf vm fr.moduleId with
        | some m => (if m.name == "主模块" then "main" else stringToHex m.name) ++ ":" ++ toString (fr.line + 1)
        | none => "native")

def errCode : Err → Nat
  | .rt c => c
  | _ => 0

def parseInput (spec : String) : Option (String × Cell Float) :=
  match spec.splitOn "=" with
  | [k, v] =>
    let name := hexToString k
    if v == "null" then some (name, .null)
    else if v.startsWith "n:" then
      let b := (v.drop 2).toString
      if b == "nan" then some (name, .num (0.0/0.0))
      else (parseHex? b).map fun n => (name, .num (Float.ofBits (UInt64.ofNat n)))
    else if v.startsWith "s:" then some (name, .str (hexToString (v.drop 2).toString))
    else if v.startsWith "b:" then some (name, .bool ((v.drop 2).toString == "1"))
    else none
  | _ => none

def fuelDefault : Nat := 4000

/-- the libraries the harness registers (`stdLibs()`), from the regenerated table of library registrations: only their
functions (`f`); a library that exports classes (the harness' own `@验证HTTP`) is outside the model -/
def stdLibTable : LibTable :=
  let names := (Generated.Members.libraries.map (·.1)).eraseDups
  names.map fun l => (l, (Generated.Members.libraries.filter fun e => e.1 == l && e.2.1 == "f").map (·.2.2))

def classLibs : List String :=
  "@验证HTTP" :: ((Generated.Members.libraries.filter fun e => e.2.1 != "f").map (·.1))

def importsClassLib (p : Program) : Bool :=
  p.imports.any fun im => match im.name with | some n => classLibs.contains n | none => false

def answer (r : Res Addr) (vm : VM Float) : String :=
  let tr := traceField vm.out
  match r with
  | .ok a => "ok " ++ canon vm.heap a ++ " | " ++ tr
  | .err e => "err rt " ++ toString (errCode e) ++ " " ++ locs vm ++ " | " ++ tr
  | .panic => "panic"
  | .fuel => "fuel"
  | .unmodelled => "unmodelled"

/-- a script (`LoadScript`): no file can be imported (error 60), the harness' libraries are registered -/
def runAst (fuel : Nat) (sexp : String) (inputs : List String) : String :=
  match sxParse (sxTokens sexp) >>= sxProgram with
  | none => "bad-ast"
  | some prog =>
    if importsClassLib prog then "unmodelled" else
    let ins := inputs.filterMap parseInput
    let (r, vm) := runProgramWith [] stdLibTable fuel prog ins (initVM ())
    answer r vm

/-- directory part of a relative path (`filepath.Dir`), "" for a bare file name -/
def dirOf (p : String) : String :=
  match (p.splitOn "/").reverse with
  | _ :: d :: ds => "/".intercalate (d :: ds).reverse
  | _ => ""

/-- `runfilesast <main-relpath-hex> <n> (<relpath-hex> <k> <k sexp tokens>)*n [inputs…]`: the trees of all files as the
harness `ast` op dumps them (k = 0: the file does not compile), run as `LoadFile(main).Execute(inputs)` -/
partial def takeFiles : Nat → List String → Option (List (String × Option Program) × List String)
  | 0, rest => some ([], rest)
  | n+1, path :: k :: rest =>
    let kk := k.toNat!
    let toks := rest.take kk
    let prog := if kk == 0 then none else (sxParse (sxTokens (" ".intercalate toks)) >>= sxProgram)
    match takeFiles n (rest.drop kk) with
    | none => none
    | some (fs, rest') => some ((hexToString path, prog) :: fs, rest')
  | _, _ => none

def runFilesAst (fuel : Nat) (args : List String) : String :=
  match args with
  | mainHex :: n :: rest =>
    match takeFiles n.toNat! rest with
    | none => "bad-args"
    | some (fs, inputs) =>
      let main := hexToString mainHex
      match fs.lookup main with
      | none => "bad-main"
      | some none => "unmodelled"          -- a main file that does not compile: syntax errors are C05/C18's
      | some (some prog) =>
        if fs.any (fun f => f.2.isNone) then "unmodelled" else
        let root := dirOf main
        let pre := if root == "" then "" else root ++ "/"
        -- paths below the main file's directory, relative to it (nothing else can be named by an import)
        let table : FileTable := fs.filterMap fun f =>
          match f.2 with
          | some p => if f.1.startsWith pre then some ((f.1.drop pre.length).toString, p) else none
          | none => none
        if fs.any (fun f => match f.2 with | some p => importsClassLib p | none => false) then "unmodelled" else
        let ins := inputs.filterMap parseInput
        let (r, vm) := runProgramWith table stdLibTable fuel prog ins (initVM ())
        answer r vm
  | _ => "bad-args"

partial def canonS (objs : Array (String × List (String × Spec.SVal Float))) (v : Spec.SVal Float) : String :=
  match v with
  | .num x => "n:" ++ floatBits x
  | .str s => "s:" ++ stringToHex s
  | .bool b => if b then "b:1" else "b:0"
  | .null => "null"
  | .list xs => "[" ++ ",".intercalate (xs.map (canonS objs)) ++ "]"
  | .dict kvs => "{" ++ ",".intercalate (kvs.map fun kv => stringToHex kv.1 ++ "=" ++ canonS objs kv.2) ++ "}"
  | .obj id => match objs[id]? with | some (c, _) => "obj:" ++ stringToHex c | none => "obj:?"
  | .fn _ | .builtinFn _ => "fn"
  | .cls name => "cls:" ++ stringToHex name
  | .exc msg => "exc:" ++ stringToHex msg
  | .fault code => "exc:" ++ stringToHex ("‹rt:" ++ toString code ++ "›")

def specInput (c : String × Cell Float) : String × Spec.SVal Float :=
  (c.1, match c.2 with
    | .num x => .num x
    | .str s => .str s
    | .bool b => .bool b
    | _ => .null)

def specRunAst (fuel : Nat) (sexp : String) (inputs : List String) : String :=
  match sxParse (sxTokens sexp) >>= sxProgram with
  | none => "bad-ast"
  | some prog =>
    let ins := (inputs.filterMap parseInput).map specInput
    let (r, st) := Spec.runProgram fuel prog ins {}
    let tr := traceField st.out
    match r with
    | .ok v | .ret v => "ok " ++ canonS st.objs v ++ " | " ++ tr
    | .raise _ | .brk | .cont => "err | " ++ tr
    | .fatal c => "fatal " ++ toString c ++ " | " ++ tr
    | .unspecified => "unspecified"
    | .fuel => "fuel"

/-- runast <n-inputs> <input…> <sexp tokens…> -/
def handle (op : String) (args : List String) : Option String :=
  match op, args with
  | "runast", n :: rest =>
    let k := n.toNat!
    some (runAst fuelDefault (" ".intercalate (rest.drop k)) (rest.take k))
  | "runfilesast", args => some (runFilesAst fuelDefault args)
  | "spec:runast", n :: rest =>
    let k := n.toNat!
    some (specRunAst fuelDefault (" ".intercalate (rest.drop k)) (rest.take k))
  | _, _ => none

end ZnVerif.Ops.Run
