/-
Driver ops for C12 (container core).  One protocol line = one whole history on one list or one dictionary:

  coll L <elems|-> <op>*          list history        (model: Model.Containers.listStep)
  coll D <k=v,…|-> <op>*          dictionary history  (model: Model.Containers.dictStep, start = newHashMap)
  coll R <extra> <keys|-> <key>   移除 on a planted keyOrder that may hold duplicates (model only, no spec)
  spec:coll L|D …                 the same history on Spec.Seq / Spec.OrderedMap

  elem  : n<int> | q<int> (the number int/4) | t<hex of utf-8>          arg: elem | a<elem,elem,…> (a list)
  key   : k<hex of utf-8>
  op    : g:<prop>            GetProperty      list: first last len num rev text bad   dict: len num keys vals bad
          s:<prop>:<elem>     SetProperty      list: first last bad                    dict: bad
          m:<method>:<arg>*   ExecMethod       list: ins add pre app shl shr join mrg has find swp bad   dict: get set del bad
          r:<elem>            IV ReduceRHS     list: index = int(number)   dict: key = text, or Number.String() of a number
          w:<elem>:<elem>     IV ReduceLHS

  answer: ok <obs> (<result>|<obs>)*      a Go panic ends the line with the token `panic`
  obs   : list  <display hex>;<长度>          dict  <display hex>;<长度>;<所有索引>;<所有值>
  result: unit self null n<int> q<int> t<hex> b0 b1 [elem,…] err:<code>

Parameter validation (ValidateExactParams/AllParams/LeastParams → 53 / 82), unknown member names (45 / 46), the
number → int conversions and the displayed text are done here, around the pure model; they are the same wrapper for
model and spec oracle.  Core Lean only.
-/
import ZnVerif.Ops.Util
import ZnVerif.Model.Containers
import ZnVerif.Spec.CollHistory

namespace ZnVerif.Ops.C12
open ZnVerif ZnVerif.Ops
open ZnVerif.Model.Containers

/-- element of the correspondence runs: the number `q/4`, or a text given as the hex of its bytes -/
inductive Elem where
  | num (q : Int)
  | txt (hex : String)
  /-- 空 stored as an element -/
  | nul
  deriving DecidableEq, Repr

inductive Arg where
  | e (x : Elem)
  | arr (l : List Elem)

/-- `CompareValues(item, x, CmpEq)` on numbers and texts -/
def elemEq : Elem → Elem → Bool
  | .num a, .num b => a == b
  | .txt a, .txt b => a == b
  | .nul, .nul => true
  | _, _ => false

def elemStr : Elem → Option String
  | .txt h => some h
  | .num _ => none
  | .nul => none

/-- flat elements: nothing below them is a dictionary -/
def noSub : Elem → String → Option Elem := fun _ _ => none

/-- the string without its first character -/
def tl (s : String) : String := String.ofList (s.toList.drop 1)

def parseInt? (s : String) : Option Int :=
  if s.startsWith "-" then (tl s).toNat?.map (fun n => -(n : Int)) else s.toNat?.map (fun n => (n : Int))

def parseElem? (s : String) : Option Elem :=
  if s.startsWith "n" then (parseInt? (tl s)).map (fun n => .num (4 * n))
  else if s.startsWith "q" then (parseInt? (tl s)).map .num
  else if s.startsWith "t" then some (.txt (tl s))
  else if s == "z" then some .nul
  else none

def parseElems (s : String) : List Elem :=
  if s == "-" || s.isEmpty then [] else (s.splitOn ",").filterMap parseElem?

def parseArg? (s : String) : Option Arg :=
  if s.startsWith "a" then some (.arr (parseElems (tl s))) else (parseElem? s).map .e

def elemTok : Elem → String
  | .num q => if q % 4 == 0 then "n" ++ toString (q / 4) else "q" ++ toString q
  | .txt h => "t" ++ h
  | .nul => "null"

/-- hex of an ASCII string -/
def asciiHex (s : String) : String :=
  String.join (s.toList.map fun c => String.ofList (Nat.toDigits 16 (c.toNat / 16) ++ Nat.toDigits 16 (c.toNat % 16)))

/-- Go's `%v` of the float64 `q/4` (small magnitudes: no exponent form) -/
def quarterStr (q : Int) : String :=
  let a := q.natAbs
  (if q < 0 then "-" else "") ++ toString (a / 4) ++
    (match a % 4 with | 0 => "" | 1 => ".25" | 2 => ".5" | _ => ".75")

/-- `Element.String()` as hex -/
def elemShow : Elem → String
  | .num q => asciiHex (quarterStr q)
  | .txt h => h
  | .nul => "e7a9ba"

def commaHex : String := "efbc8c"   -- "，"

def listShow (l : List Elem) : String := "5b" ++ commaHex.intercalate (l.map elemShow) ++ "5d"

def pairsShow (ps : List (String × Elem)) : String :=
  "5b" ++ commaHex.intercalate (ps.map fun p => p.1 ++ "3d" ++ elemShow p.2) ++ "5d"

def resultTok : OpResult Elem → String
  | .unit => "unit"
  | .self => "self"
  | .elem a => elemTok a
  | .null => "null"
  | .num n => "n" ++ toString n
  | .bool b => if b then "b1" else "b0"
  | .arr l => "[" ++ ",".intercalate (l.map elemTok) ++ "]"
  | .err c => "err:" ++ toString c

/-- `int(float64)` of `q/4`: truncation toward zero -/
def toIntTrunc (q : Int) : Int := Int.tdiv q 4
/-- `math.Floor` of `q/4` -/
def floorQ (q : Int) : Int := Int.fdiv q 4

def listObs (l : List Elem) : String := listShow l ++ ";" ++ toString l.length

/-! ### lists -/

/-- what the wrapper makes of one op token -/
inductive LOp where
  | core (op : ListOp Elem)
  | fixed (r : OpResult Elem)      -- answered by validation / member lookup alone
  | text                           -- 文本 getter
  | join (sep : String)
  | bad                            -- malformed protocol token

def exact1 (args : List Arg) (k : Arg → LOp) : LOp :=
  match args with
  | [a] => k a
  | _ => .fixed (.err 53)

def parseListOp (tok : String) : LOp :=
  match tok.splitOn ":" with
  | ["g", "first"] => .core .getFirst
  | ["g", "last"] => .core .getLast
  | ["g", "len"] => .core .getLength
  | ["g", "num"] => .core .getLength
  | ["g", "rev"] => .core .getReverse
  | ["g", "text"] => .text
  | ["g", _] => .fixed (.err 45)
  | ["s", "first", x] => match parseElem? x with | some x => .core (.setFirst x) | none => .bad
  | ["s", "last", x] => match parseElem? x with | some x => .core (.setLast x) | none => .bad
  | ["s", _, _] => .fixed (.err 45)
  | "m" :: name :: rest =>
    match rest.mapM parseArg? with
    | none => .bad
    | some args =>
      match name with
      | "ins" | "add" =>
        (match args with
         | [.e x, .e (.num q)] => .core (.insert x (toIntTrunc q))
         | [_, _] => .fixed (.err 82)
         | _ => .fixed (.err 53))
      | "pre" => exact1 args fun a => match a with | .e x => .core (.prepend x) | _ => .bad
      | "app" => exact1 args fun a => match a with | .e x => .core (.append x) | _ => .bad
      | "shl" => .core .shiftLeft
      | "shr" => .core .shiftRight
      | "join" => exact1 args fun a => match a with | .e (.txt h) => .join h | _ => .fixed (.err 82)
      | "mrg" =>
        (match args.mapM (fun a => match a with | .arr l => some l | _ => none) with
         | some ls => .core (.merge ls)
         | none => .fixed (.err 82))
      | "has" => exact1 args fun a => match a with | .e x => .core (.contains x) | _ => .bad
      | "find" => exact1 args fun a => match a with | .e x => .core (.find x) | _ => .bad
      | "swp" =>
        (match args with
         | [.e (.num a), .e (.num b)] => .core (.swap (floorQ a) (floorQ b))
         | [_, _] => .fixed (.err 82)
         | _ => .fixed (.err 53))
      | _ => .fixed (.err 46)
  | ["r", i] => match parseElem? i with | some (.num q) => .core (.ivRead (toIntTrunc q)) | _ => .bad
  | ["w", i, x] => match parseElem? i, parseElem? x with
    | some (.num q), some x => .core (.ivWrite (toIntTrunc q) x)
    | _, _ => .bad
  | _ => .bad

/-- 拼接: the receiver's elements are validated before the argument (`ValidateAllParams(ar.value, "string")` first) -/
def joinModel (l : List Elem) (args : LOp) : OpResult Elem :=
  match args with
  | .join sep => match arrayJoin elemStr l sep with
    | .ok s => .elem (.txt s)
    | .err c => .err c
    | .panic => .err 0
  | _ => .err 0

def modelListStep (l : List Elem) (op : LOp) (rawTok : String) : Res (List Elem × OpResult Elem) :=
  match op with
  | .core o => listStep elemEq l o
  | .fixed r =>
    -- 拼接 checks the receiver first: a non-text element wins over a bad argument
    if rawTok.startsWith "m:join" ∧ !(l.all fun x => (elemStr x).isSome) then .ok (l, .err 82) else .ok (l, r)
  | .text => .ok (l, .elem (.txt (listShow l)))
  | .join sep => .ok (l, joinModel l (.join sep))
  | .bad => .ok (l, .err 0)

def specListStep (l : List Elem) (op : LOp) (rawTok : String) : List Elem × OpResult Elem :=
  match op with
  | .core o => Spec.CollHistory.listStep elemEq l o
  | .fixed r =>
    if rawTok.startsWith "m:join" ∧ !(l.all fun x => (elemStr x).isSome) then (l, .err 82) else (l, r)
  | .text => (l, .elem (.txt (listShow l)))
  | .join sep => (l, match Spec.Seq.join elemStr l sep with
      | some s => .elem (.txt s)
      | none => .err 82)
  | .bad => (l, .err 0)

def runListModel (l : List Elem) (toks : List String) : String :=
  let rec go (l : List Elem) (toks : List String) (acc : String) : String :=
    match toks with
    | [] => acc
    | t :: rest =>
      match modelListStep l (parseListOp t) t with
      | .ok (l', r) => go l' rest (acc ++ " " ++ resultTok r ++ "|" ++ listObs l')
      | _ => acc ++ " panic"
  go l toks ("ok " ++ listObs l)

def runListSpec (l : List Elem) (toks : List String) : String :=
  let rec go (l : List Elem) (toks : List String) (acc : String) : String :=
    match toks with
    | [] => acc
    | t :: rest =>
      let (l', r) := specListStep l (parseListOp t) t
      go l' rest (acc ++ " " ++ resultTok r ++ "|" ++ listObs l')
  go l toks ("ok " ++ listObs l)

/-! ### dictionaries -/

def keyTok (k : String) : String := "k" ++ k

def keysField (ks : List String) : String := if ks.isEmpty then "-" else ",".intercalate (ks.map keyTok)

def valsField (vs : List (Option Elem)) : String :=
  if vs.isEmpty then "-" else ",".intercalate (vs.map fun v => match v with | some x => elemTok x | none => "nil")

def dictObsModel (hm : HashMap Elem) : String :=
  let o := observe hm
  (match o.display with | .ok ps => pairsShow ps | _ => "PANIC") ++ ";" ++ toString o.length ++ ";" ++
    keysField o.allIndexes ++ ";" ++ valsField o.allValues

def dictObsSpec (m : Spec.OrderedMap.OMap Elem) : String :=
  pairsShow m ++ ";" ++ toString (Spec.OrderedMap.size m) ++ ";" ++ keysField (Spec.OrderedMap.keys m) ++ ";" ++
    valsField ((Spec.OrderedMap.vals m).map some)

def parseKV? (s : String) : Option (String × Elem) :=
  match s.splitOn "=" with
  | [k, v] => if k.startsWith "k" then (parseElem? v).map (fun x => (tl k, x)) else none
  | _ => none

def parseKVs (s : String) : List (String × Elem) :=
  if s == "-" || s.isEmpty then [] else (s.splitOn ",").filterMap parseKV?

/-- the IV key of `getMemberExprIV`: a text as it is, a number through `Number.String()` -/
def ivKey : Elem → String
  | .txt h => h
  | .num q => asciiHex (quarterStr q)
  | .nul => ""   -- the harness leaves the key empty for a non-text, non-number member

inductive DOp where
  | core (op : DictOp Elem)
  | fixed (r : OpResult Elem)
  | len | keys | vals
  | bad

def allText? (args : List Arg) : Option (List String) :=
  args.mapM fun a => match a with | .e (.txt h) => some h | _ => none

def parseDictOp (tok : String) : DOp :=
  match tok.splitOn ":" with
  | ["g", "len"] => .len
  | ["g", "num"] => .len
  | ["g", "keys"] => .keys
  | ["g", "vals"] => .vals
  | ["g", _] => .fixed (.err 45)
  | ["s", _, _] => .fixed (.err 45)
  | "m" :: name :: rest =>
    match rest.mapM parseArg? with
    | none => .bad
    | some args =>
      match name with
      | "get" => (match allText? args with | some ks => .core (.get ks) | none => .fixed (.err 82))
      | "set" =>
        (match args with
         | [.e (.txt k), .e v] => .core (.set k v)
         | [.e (.txt _), _] => .bad
         | [_, _] => .fixed (.err 82)
         | _ => .fixed (.err 53))
      | "del" =>
        (match args with
         | [.e (.txt k)] => .core (.delete k)
         | [_] => .fixed (.err 82)
         | _ => .fixed (.err 53))
      | _ => .fixed (.err 46)
  | ["r", k] => match parseElem? k with | some k => .core (.ivRead (ivKey k)) | none => .bad
  | ["w", k, x] => match parseElem? k, parseElem? x with
    | some k, some x => .core (.ivWrite (ivKey k) x)
    | _, _ => .bad
  | _ => .bad

def modelDictStep (hm : HashMap Elem) : DOp → Res (HashMap Elem × OpResult Elem)
  | .core o => dictStep noSub hm o
  | .fixed r => .ok (hm, r)
  | .len => .ok (hm, .num (hmLength hm))
  | .keys => .ok (hm, .arr ((hmAllIndexes hm).map .txt))
  | .vals =>
    -- a nil element inside the returned list cannot be written as a result token: the observation shows it
    .ok (hm, .arr ((hmAllValues hm).filterMap id))
  | .bad => .ok (hm, .err 0)

def specDictStep (m : Spec.OrderedMap.OMap Elem) : DOp → Spec.OrderedMap.OMap Elem × OpResult Elem
  | .core o => Spec.CollHistory.dictStep noSub m o
  | .fixed r => (m, r)
  | .len => (m, .num (Spec.OrderedMap.size m))
  | .keys => (m, .arr ((Spec.OrderedMap.keys m).map .txt))
  | .vals => (m, .arr (Spec.OrderedMap.vals m))
  | .bad => (m, .err 0)

def runDictModel (hm : HashMap Elem) (toks : List String) : String :=
  let rec go (hm : HashMap Elem) (toks : List String) (acc : String) : String :=
    match toks with
    | [] => acc
    | t :: rest =>
      match modelDictStep hm (parseDictOp t) with
      | .ok (hm', r) => go hm' rest (acc ++ " " ++ resultTok r ++ "|" ++ dictObsModel hm')
      | _ => acc ++ " panic"
  go hm toks ("ok " ++ dictObsModel hm)

def runDictSpec (m : Spec.OrderedMap.OMap Elem) (toks : List String) : String :=
  let rec go (m : Spec.OrderedMap.OMap Elem) (toks : List String) (acc : String) : String :=
    match toks with
    | [] => acc
    | t :: rest =>
      let (m', r) := specDictStep m (parseDictOp t)
      go m' rest (acc ++ " " ++ resultTok r ++ "|" ++ dictObsSpec m')
  go m toks ("ok " ++ dictObsSpec m)

/-- `coll R`: the Go map holds every distinct planted key (value = its first position), keyOrder is planted as given -/
def runRaw (keys : List String) (k : String) : String :=
  let value : List (String × Elem) := (keys.zipIdx.foldl (fun (m : List (String × Elem)) (p : String × Nat) =>
    match mapGet m p.1 with
    | some _ => m
    | none => mapSet m p.1 (.num (4 * (p.2 : Int)))) [])
  let hm : HashMap Elem := { value := value, keyOrder := keys }
  match hmDelete hm k with
  | .ok (r, hm') => "ok " ++ resultTok (optResult r) ++ "|" ++ keysField hm'.keyOrder ++ ";" ++ toString (hmLength hm')
  | _ => "panic"

def parseKeys (s : String) : List String :=
  if s == "-" || s.isEmpty then [] else (s.splitOn ",").map tl

def handle (op : String) (args : List String) : Option String :=
  match op, args with
  | "coll", "L" :: init :: toks => some (runListModel (parseElems init) toks)
  | "spec:coll", "L" :: init :: toks => some (runListSpec (parseElems init) toks)
  | "coll", "D" :: init :: toks => some (runDictModel (newHashMap (parseKVs init)) toks)
  | "spec:coll", "D" :: init :: toks => some (runDictSpec (Spec.OrderedMap.ofList (parseKVs init)) toks)
  | "coll", ["R", _, keys, k] => some (runRaw (parseKeys keys) (tl k))
  | _, _ => none

end ZnVerif.Ops.C12
