/-
Driver ops for the input-variable entry points (Model/VarInput.lean) on the BYTES of the text, with trace and on trees; the model side of

  value - vi <hex of the text's bytes>        harness/ops_value.go: exec.ExecVarInputText(text)
  value - ei <hex>                            … exec.ExecExpressionInputText({"甲": text})
      →  ok {<hex name>=<canonical value>,…} | -      err <class> <code> | -      (names in byte order, as the harness sorts them)

  vitext vi <hex>                             harness/ops_vitext.go: the same with the display trace
  vitext ei <name-hex> <text-hex> …           ExecExpressionInputText on several entries (one shared VM, sorted key order)
      →  ok {…} | <trace>                     err <class> <code> | <trace>

  viast <sexp…> / eiast <sexp…>               the tree-level functions on the tree the REAL parser built (harness op `ast`):
                                              separates the evaluator model from the parser model; same answer as `value - vi/ei`

The text-level ops run the parser MODEL (`Parser.parseSource`) on the decoded text, so they also compare the two parsers.
-/
import ZnVerif.Ops.Run
import ZnVerif.Model.VarInput

namespace ZnVerif.Ops.VarInputText
open ZnVerif ZnVerif.Ops ZnVerif.Model ZnVerif.Ops.Run ZnVerif.Model.VarInput

/-- hex → bytes (any bytes: the text need not be UTF-8); `none` when the field is not hex -/
def hexBytes? (h : String) : Option (List Nat) :=
  if h == "-" || h.isEmpty then some [] else
  let rec go : List Char → Option (List Nat)
    | a :: b :: rest =>
      match hexDigit? a, hexDigit? b, go rest with
      | some x, some y, some tl => some ((x * 16 + y) :: tl)
      | _, _, _ => none
    | [] => some []
    | _ => none
  go h.toList

def evalFuel : Nat := 200

/-- far above the linear bound of C05 `parse_terminates` (24·k + 19 on the characters still to be lexed) -/
def parseFuel (bytes : List Nat) : Nat := 40 * (bytes.length + 2) + 100

def errText : Err → VM Float → String
  | .rt c, _ => "err rt " ++ toString c
  | .sem c, _ => "err sem " ++ toString c
  | .excErr _, _ => "err exc 0"
  | .sigExc a, s => "err sigexc " ++ canon s.heap a
  | .sigBreak, _ => "err sig 1"
  | .sigContinue, _ => "err sig 2"
  | .other, _ => "err other 0"

/-- insertion sort by `<` on strings (code point order = byte order of the UTF-8 encodings, which is how Go sorts) -/
def sortKeys (l : List (String × Addr)) : List (String × Addr) :=
  l.foldl (fun acc p =>
    let rec ins : List (String × Addr) → List (String × Addr)
      | [] => [p]
      | q :: rest => if p.1 < q.1 then p :: q :: rest else q :: ins rest
    ins acc) []

def showMap (binds : List (String × Addr)) (s : VM Float) : String :=
  "{" ++ ",".intercalate ((sortKeys binds).map fun p => stringToHex p.1 ++ "=" ++ canon s.heap p.2) ++ "}"

/-- (head, trace) of an outcome -/
def render {α} (o : Outcome Float α) (sh : α → VM Float → String) : String × String :=
  match o with
  | .ok a s => ("ok " ++ sh a s, traceField s.out)
  | .ioErr c => ("err io " ++ toString c, "-")
  | .slot _ s => ("err other 0", traceField s.out)
  | .evalErr e s => (errText e s, traceField s.out)
  | .panic => ("panic", "")
  | .fuel => ("fuel", "")
  | .unmodelled => ("unmodelled", "")

def finish (p : String × String) (withTrace : Bool) : String :=
  if p.1 == "panic" || p.1 == "fuel" || p.1 == "unmodelled" then p.1
  else p.1 ++ " | " ++ (if withTrace then p.2 else "-")

def runVI (hex : String) (withTrace : Bool) : String :=
  match hexBytes? hex with
  | none => "bad-case"
  | some bytes => finish (render (execVarInputBytes (parseFuel bytes) evalFuel bytes) showMap) withTrace

def runEI (entries : List (String × String)) (withTrace : Bool) : String :=
  let es := entries.filterMap fun e =>
    match hexBytes? e.2 with
    | some b => some (e.1, b)
    | none => none
  if es.length ≠ entries.length then "bad-case" else
  -- Go: collect the keys, sort.Strings, evaluate in that order; a key given twice keeps the LAST text (map literal semantics
  -- of the harness loop `m[k] = v`)
  let dedup := es.foldl (fun (acc : List (String × List Nat)) e => assocSet e.1 e.2 acc) []
  let sorted := dedup.foldl (fun acc p =>
    let rec ins : List (String × List Nat) → List (String × List Nat)
      | [] => [p]
      | q :: rest => if p.1 < q.1 then p :: q :: rest else q :: ins rest
    ins acc) []
  let pf := sorted.foldl (fun m e => max m (parseFuel e.2)) 0
  finish (render (execExpressionInputBytes pf evalFuel sorted) showMap) withTrace

def pairs : List String → Option (List (String × String))
  | [] => some []
  | a :: b :: rest => (pairs rest).map ((hexToString a, b) :: ·)
  | _ => none

def runTree (kind : String) (sexp : String) : String :=
  match sxParse (sxTokens sexp) >>= sxProgram with
  | none => "bad-ast"
  | some prog =>
    if kind == "vi" then finish (render (execVarInputTree evalFuel prog) showMap) false
    else finish (render (execExpressionInputTrees evalFuel [("甲", prog)]) showMap) false

def handle (op : String) (args : List String) : Option String :=
  match op, args with
  | "vitext", ["vi", h] => some (runVI h true)
  | "vitext", "ei" :: rest =>
    match pairs rest with
    | some es => some (runEI es true)
    | none => some "bad-case"
  | "vitext", _ => some "bad-case"
  | "viast", rest => some (runTree "vi" (" ".intercalate rest))
  | "eiast", rest => some (runTree "ei" (" ".intercalate rest))
  | _, _ => none

end ZnVerif.Ops.VarInputText
