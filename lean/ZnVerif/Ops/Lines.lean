/-
Driver ops of the physical-line spec (C18, Spec/Lines.lean) — the oracle for "line numbers count physical source
lines", whatever mixture of LF / CR / CR LF / LF CR the text uses:

  spec:linestarts <cps>              →  `ok <start>.<start>…`   every physical line start of the text (`-` for the empty text)
  spec:lineof <cps> <offset> …       →  `ok <line> …`           1-based number of the physical line that contains each offset

A two-character break CR LF / LF CR is ONE break, recognised greedily left to right (`Spec.Lines.lineStarts`); an offset
on a break character belongs to the line that the break ends.  Core Lean only.
-/
import ZnVerif.Ops.Util
import ZnVerif.Spec.Lines

namespace ZnVerif.Ops.Lines
open ZnVerif ZnVerif.Ops

/-- 1-based number of the physical line containing `off`: the number of line starts at or before it -/
def lineOf (starts : List Nat) (off : Nat) : Nat := (starts.filter (· ≤ off)).length

def startsField (l : List Nat) : String :=
  if l.isEmpty then "-" else ".".intercalate (l.map toString)

def handle (op : String) (args : List String) : Option String :=
  match op, args with
  | "spec:linestarts", [s] => some ("ok " ++ startsField (Spec.Lines.physicalLineStarts (parseCps s)))
  | "spec:lineof", s :: offs =>
    let starts := Spec.Lines.physicalLineStarts (parseCps s)
    match offs.mapM String.toNat? with
    | some os => some ("ok" ++ String.join (os.map fun o => s!" {lineOf starts o}"))
    | none => some "bad-args"
  | _, _ => none

-- "a" CR LF LF LF "b": the three breaks are CR LF, LF, LF, so "b" is on line 4
example : [0, 1, 2, 3, 4, 5].map (lineOf (Spec.Lines.physicalLineStarts [0x61, 0xD, 0xA, 0xA, 0xA, 0x62])) = [1, 1, 1, 2, 3, 4] := by
  decide
-- "a" LF CR | CR LF | LF CR | CR | "b"
example : Spec.Lines.physicalLineStarts [0x61, 0xA, 0xD, 0xD, 0xA, 0xA, 0xD, 0xD, 0x62] = [0, 3, 5, 7, 8] := by decide

end ZnVerif.Ops.Lines
