import ZnVerif.Ops.Sexp
import ZnVerif.Model.MapSites

/-! Driver ops for C11: `xeqtree <fuel> ( L R )` runs `Model.MapSites.xeq` (the pure-tree mirror of `compareLogicXEQ`) on
two values written as S-expressions; `spec:xeqtree …` answers from an order-free reading of equality.

  value ::= (n <int>) | (s <hex>) | (b 0|1) | (z) | (o) | (a value…) | (h (<hexkey> value)…)

For `(h …)` the listing order is the dictionary's keyOrder; the Go map itself is laid out in REVERSE listing order, so
that the model is exercised with a map layout different from its key order. -/
namespace ZnVerif.Ops.C11
open ZnVerif ZnVerif.Ops ZnVerif.Model.MapSites

partial def sxPV : Sx → Option (PV Int)
  | .list [.atom "n", .atom i] => (String.toInt? i).map PV.num
  | .list [.atom "s", .atom h] => some (.str (hexToString h))
  | .list [.atom "b", .atom v] => some (.bool (v == "1"))
  | .list [.atom "z"] => some .null
  | .list [.atom "o"] => some (.other 0)
  | .list (.atom "a" :: items) => (items.mapM sxPV).map PV.arr
  | .list (.atom "h" :: kvs) => do
    let ps ← kvs.mapM fun kv =>
      match kv with
      | .list [.atom k, v] => (sxPV v).map fun pv => (hexToString k, pv)
      | _ => none
    some (.hm ps.reverse (ps.map Prod.fst))
  | _ => none

def showRes : Res → String
  | .ok true => "ok 1"
  | .ok false => "ok 0"
  | .err c => "err " ++ toString c
  | .panic => "panic"
  | .fuel => "fuel"

/-- spec: equality of plain values as trees of finite maps — no key order, no early exit.  `none` = not a plain value. -/
partial def specEq : PV Int → PV Int → Option Bool
  | .null, r => some (match r with | .null => true | _ => false)
  | .num x, r => some (match r with | .num y => x == y | _ => false)
  | .str x, r => some (match r with | .str y => x == y | _ => false)
  | .bool x, r => some (match r with | .bool y => x == y | _ => false)
  | .arr xs, .arr ys =>
    if xs.length ≠ ys.length then some false
    else (List.zip xs ys).foldl (fun acc p => do let a ← acc; let b ← specEq p.1 p.2; pure (a && b)) (some true)
  | .arr _, .other _ => none
  | .arr _, _ => some false
  | .hm lv _, .hm rv _ =>
    let lk := lv.map Prod.fst
    let rk := rv.map Prod.fst
    if ¬ (lk.all (rk.contains ·) ∧ rk.all (lk.contains ·)) then some false
    else lv.foldl (fun acc p => do
        let a ← acc
        match get? p.1 rv with
        | none => pure false
        | some v => do let b ← specEq p.2 v; pure (a && b)) (some true)
  | .hm _ _, .other _ => none
  | .hm _ _, _ => some false
  | .other _, _ => none

/-! ### request dictionaries

`reqdict <n> (<name-hex> <value-hex>)*n` — the (name, value) pairs of a request's header lines or query parameters in WIRE order,
names as net/http hands them over (header names canonicalised, query names percent-decoded: that step is the runtime's).

  model  `Model.MapSites.firstValueDict` (buildFirstValueDict as repaired) on the Go map `Header.Add` / `ParseQuery` build
         (one entry per name, values appended in wire order), ranged in the REVERSE of the order the names first appear;
  spec   one entry per distinct name, names ascending byte-wise, each with the FIRST value the wire gives that name
         (written without a map: sort the distinct names, look each one up in the wire list).

answer: `{<name-hex>=s:<value-hex>,…}` — the canonical form of the dictionary the program is handed. -/

def bytesOfHex (s : String) : List Nat :=
  if s == "-" then [] else
  let rec go : List Char → List Nat
    | a :: b :: r => ((hexDigit? a).getD 0 * 16 + (hexDigit? b).getD 0) :: go r
    | _ => []
  go s.toList

/-- Go's `<=` on strings: byte-wise lexicographic -/
def bytesLe : List Nat → List Nat → Bool
  | [], _ => true
  | _ :: _, [] => false
  | a :: x, b :: y => if a < b then true else if b < a then false else bytesLe x y

/-- `m[k] = append(m[k], v)` -/
def addValue (k : List Nat) (v : String) : GoMap (List Nat) (List String) → GoMap (List Nat) (List String)
  | [] => [(k, [v])]
  | (k', vs) :: r => if k' = k then (k', vs ++ [v]) :: r else (k', vs) :: addValue k v r

def wirePairs : List String → List (List Nat × String)
  | n :: v :: r => (bytesOfHex n, v) :: wirePairs r
  | _ => []

def insertSorted (k : List Nat) : List (List Nat) → List (List Nat)
  | [] => [k]
  | x :: r => if k = x then x :: r else if bytesLe k x then k :: x :: r else x :: insertSorted k r

def specReqDict (ps : List (List Nat × String)) : List (List Nat × String) :=
  (ps.foldl (fun acc p => insertSorted p.1 acc) []).filterMap fun k => (ps.find? fun p => p.1 == k)

def hex2 (n : Nat) : String := String.ofList (Nat.toDigits 16 (n / 16) ++ Nat.toDigits 16 (n % 16))

def showReqDict (d : List (List Nat × String)) : String :=
  "{" ++ ",".intercalate (d.map fun p => (if p.1.isEmpty then "-" else String.join (p.1.map hex2)) ++ "=s:" ++ p.2) ++ "}"

def handle (op : String) (args : List String) : Option String :=
  if op == "reqdict" || op == "spec:reqdict" then
    match args with
    | _ :: rest =>
      let ps := wirePairs rest
      if op == "reqdict" then
        let m := ps.foldl (fun m p => addValue p.1 p.2 m) []
        some (showReqDict (firstValueDict bytesLe m m.reverse))
      else some (showReqDict (specReqDict ps))
    | _ => some "bad-args"
  else
  if op == "xeqtree" || op == "spec:xeqtree" then
    match args with
    | fuel :: rest =>
      match sxParse (sxTokens (" ".intercalate rest)) with
      | some (.list [l, r]) =>
        match sxPV l, sxPV r with
        | some pl, some pr =>
          if op == "xeqtree" then some (showRes (xeq (fun a b : Int => a == b) fuel.toNat! pl pr))
          else some (match specEq pl pr with | some true => "ok 1" | some false => "ok 0" | none => "unspecified")
        | _, _ => some "bad-tree"
      | _ => some "bad-sexp"
    | _ => some "bad-args"
  else none

end ZnVerif.Ops.C11
