import ZnVerif.Ops.Util
import ZnVerif.Model.Chars
import ZnVerif.Model.IdMatch
import ZnVerif.Spec.IdAlphabet
import ZnVerif.Spec.NumberForm

namespace ZnVerif.Ops.C04
open ZnVerif ZnVerif.Ops

def bits (bs : List Bool) : String := String.ofList (bs.map fun b => if b then '1' else '0')

def idrangeModel (lo hi : Nat) : String :=
  let rec go (c : Nat) (n : Nat) (acc : List Char) (bad : Bool) : List Char × Bool :=
    match n with
    | 0 => (acc.reverse, bad)
    | n+1 => match Model.idInRange c with
      | .ok b => go (c+1) n ((if b then '1' else '0') :: acc) bad
      | _ => go (c+1) n ('P' :: acc) true
  let (cs, _) := go lo (hi - lo) [] false
  "ok " ++ String.ofList cs

def idrangeSpec (lo hi : Nat) : String :=
  "ok " ++ bits ((List.range (hi - lo)).map fun i =>
    decide (lo + i ≤ Generated.IdRange.idMax) && Spec.linearMember Generated.IdRange.idRange (lo + i))

def numfmtModel (s : List Nat) : String :=
  match Model.tryParseNumber s with
  | .name => "name"
  | .error => "err sem 30"
  | .number => "num " ++ cpField (Model.parseFloatText s)

def numfmtSpec (s : List Nat) : String :=
  match Spec.classify s with
  | .name => "name"
  | .error => "err sem 30"
  | .number => "num"

/-- `idseq <cps>`: the code points looked up one after the other, in the given order (the model has no state) -/
def idseqModel (s : List Nat) : String :=
  "ok " ++ String.ofList (s.map fun c =>
    match Model.idInRange c with
    | .ok b => if b then '1' else '0'
    | _ => 'P')

/-- membership is a function of the code point alone: the order of the lookups does not enter -/
def idseqSpec (s : List Nat) : String :=
  "ok " ++ bits (s.map fun c =>
    decide (c ≤ Generated.IdRange.idMax) && Spec.linearMember Generated.IdRange.idRange c)

/-- `numname <cps>`: `MatchIDName` = `MatchIDType`, then only a name passes (error 32 for a number) -/
def numnameModel (s : List Nat) : String :=
  match Model.tryParseNumber s with
  | .name => "name"
  | .error => "err sem 30"
  | .number => "err sem 32"

/-- where only a name is allowed, a spelling is accepted iff it is not of number form and does not start like a number -/
def numnameSpec (s : List Nat) : String :=
  match Spec.classify s with
  | .name => "name"
  | _ => "rejected"

def handle (op : String) (args : List String) : Option String :=
  match op, args with
  | "idrange", [lo, hi] => some (idrangeModel lo.toNat! hi.toNat!)
  | "spec:idrange", [lo, hi] => some (idrangeSpec lo.toNat! hi.toNat!)
  | "idrangedesc", [lo, hi] => some (idrangeModel lo.toNat! hi.toNat!)
  | "spec:idrangedesc", [lo, hi] => some (idrangeSpec lo.toNat! hi.toNat!)
  | "idseq", [s] => some (idseqModel (parseCps s))
  | "spec:idseq", [s] => some (idseqSpec (parseCps s))
  | "numname", [s] => some (numnameModel (parseCps s))
  | "spec:numname", [s] => some (numnameSpec (parseCps s))
  | "numfmt", [s] => some (numfmtModel (parseCps s))
  | "spec:numfmt", [s] => some (numfmtSpec (parseCps s))
  | _, _ => none

end ZnVerif.Ops.C04
