import ZnVerif.Ops.Util
import ZnVerif.Model.Format
import ZnVerif.Model.TextOps
import ZnVerif.Spec.Template
import ZnVerif.Spec.TextOps

/-!
Driver ops of C14.  `fmt` answers with the model's / spec's result text in which every call of the runtime
parameters is left symbolic, as a marker that is not a code point:
  0x110001 verb hasPrec prec plus scaled k   = fmtFloat verb prec plus (argument k, times 100 if scaled)
  0x110002 k                                 = display form of argument k
The orchestrator substitutes the renderings of an independent reference before comparing with Go.
-/
namespace ZnVerif.Ops.C14
open ZnVerif ZnVerif.Ops
open ZnVerif.Model.Format (Verb Arg Env FmtErr)

def verbCode : Verb → Nat
  | .f => 0 | .e => 1 | .g => 2

/-- numbers are (argument index, scaled by 100?) -/
def symEnv : Env (Nat × Bool) Nat where
  fmtFloat v prec plus x :=
    [0x110001, verbCode v, if prec.isSome then 1 else 0, prec.getD 0, if plus then 1 else 0, if x.2 then 1 else 0, x.1]
  scale100 x := (x.1, true)
  displayNum x := [0x110002, x.1]
  display k := [0x110002, k]

def parseArgs (l : List String) : List (Arg (Nat × Bool) Nat) :=
  (l.zipIdx).map fun (a, k) =>
    if a.startsWith "n" then .num (k, false)
    else if a.startsWith "x" then .other
    else .plain k

def errField : FmtErr → String
  | .invalidTemplate => "err sem 33"
  | .unmatchParams => "err sem 34"
  | .invalidParamType => "err rt 82"
  | .notNumber => "err other 0"
  | .badDirective => "err other 0"
  | .panic => "panic"

def fmtModel (t : List Nat) (args : List String) : String :=
  match Model.Format.formatString symEnv t (parseArgs args) with
  | .ok r => "ok " ++ cpField r
  | .error e => errField e

def fmtSpec (t : List Nat) (args : List String) : String :=
  match Spec.Template.denote symEnv t (parseArgs args) with
  | some r => "ok " ++ cpField r
  | none => "err"

def listItems (r : String) : List String :=
  let body := (r.drop 1).toString
  if body.isEmpty then [] else body.splitOn ","

def operand (a : String) : Model.Format.Operand (Nat × Bool) Nat :=
  if a.startsWith "n" then .number (0, false)
  else if a.startsWith "s" then .text (parseCps (a.drop 1).toString)
  else if a.startsWith "a" then .list (parseArgs (listItems a))
  else .otherValue

def modModel (l r : String) : String :=
  match Model.Format.evalModulo symEnv (operand l) (operand r) with
  | .arith _ _ => "arith"
  | .formatted (.ok x) => "ok " ++ cpField x
  | .formatted (.error e) => errField e
  | .typeError => "err rt 80"

def modSpec (l r : String) : String :=
  match Spec.Template.modulo symEnv (operand l) (operand r) with
  | .remainder _ _ => "arith"
  | .filled (some x) => "ok " ++ cpField x
  | .filled none => "err"
  | .error => "err"

/-! text ops -/

def hex2 (b : Nat) : String :=
  let s := hexOfNat b
  if s.length < 2 then "0" ++ s else s

def bytesHex (l : List Nat) : String := if l.isEmpty then "-" else String.join (l.map hex2)

def textField (bytes : List Nat) : String :=
  let rs := Model.TextOps.runes bytes
  -- a valid UTF-8 text re-encodes to its own bytes (also a legitimate U+FFFD)
  if Model.TextOps.encode rs = bytes then "ok " ++ cpField rs
  else "okbytes " ++ bytesHex bytes

def pieceField (bytes : List Nat) : String :=
  let rs := Model.TextOps.runes bytes
  if Model.TextOps.encode rs = bytes then cpField rs else "bytes:" ++ bytesHex bytes

def listField (ps : List String) : String :=
  "ok " ++ toString ps.length ++ String.join (ps.map (" " ++ ·))

/-- the protocol passes an index as the integer q meaning the double q/4; Go's `int(float64)` truncates -/
def toIntQuarter (q : Int) : Int := Int.tdiv q 4

def textModel (which : String) (args : List String) : Option String :=
  match which, args with
  | "len", [t] => some ("ok " ++ toString (Model.TextOps.length (Model.TextOps.encode (parseCps t))))
  | "chars", [t] => some (listField ((Model.TextOps.chars (Model.TextOps.encode (parseCps t))).map pieceField))
  | "slice", [t, i, j] =>
    some (match Model.TextOps.slice (Model.TextOps.encode (parseCps t)) (toIntQuarter i.toInt!) (toIntQuarter j.toInt!) with
      | .ok r => textField r
      | .error .panic => "panic"
      | .error _ => "err sig 4")
  | "split", [t, s] =>
    some (listField ((Model.TextOps.split (Model.TextOps.encode (parseCps t)) (Model.TextOps.encode (parseCps s))).map pieceField))
  | _, _ => none

def textSpec (which : String) (args : List String) : Option String :=
  match which, args with
  | "len", [t] => some ("ok " ++ toString (parseCps t).length)
  | "chars", [t] => some (listField ((parseCps t).map fun c => cpField [c]))
  | "slice", [t, i, j] =>
    some (match Spec.TextOps.slice (parseCps t) (toIntQuarter i.toInt!) (toIntQuarter j.toInt!) with
      | .ok r => "ok " ++ cpField r
      | .error _ => "err sig 4")
  | "split", [t, s] => some (listField ((Spec.TextOps.split (parseCps t) (parseCps s)).map cpField))
  | _, _ => none

/-! one text value over a history (`texthist`): every observable is a function of the text's CURRENT characters; the only
operation that changes them is 转换数值 (`strExecAtoi` stores the rewritten text back into the receiver) -/

def histModel (i j : Int) : List Char → List Nat → List String
  | [], _ => []
  | 'l' :: r, t => ("ok " ++ toString (Model.TextOps.length t)) :: histModel i j r t
  | 'c' :: r, t => listField ((Model.TextOps.chars t).map pieceField) :: histModel i j r t
  | 's' :: r, t => (match Model.TextOps.slice t (toIntQuarter i) (toIntQuarter j) with
      | .ok x => textField x
      | .error .panic => "panic"
      | .error _ => "err sig 4") :: histModel i j r t
  | 'v' :: r, t => textField t :: histModel i j r t
  | 'n' :: r, t => "n" :: histModel i j r (Model.TextOps.atoiRewrite t)
  | _ :: _, _ => ["bad-op"]

def histSpec (i j : Int) : List Char → List Nat → List String
  | [], _ => []
  | 'l' :: r, t => ("ok " ++ toString t.length) :: histSpec i j r t
  | 'c' :: r, t => listField (t.map fun c => cpField [c]) :: histSpec i j r t
  | 's' :: r, t => (match Spec.TextOps.slice t (toIntQuarter i) (toIntQuarter j) with
      | .ok x => "ok " ++ cpField x
      | .error _ => "err sig 4") :: histSpec i j r t
  | 'v' :: r, t => ("ok " ++ cpField t) :: histSpec i j r t
  | 'n' :: r, t => "n" :: histSpec i j r (Spec.TextOps.numberRewrite t)
  | _ :: _, _ => ["bad-op"]

def handle (op : String) (args : List String) : Option String :=
  match op, args with
  | "texthist", [t, i, j, w] =>
    some (" | ".intercalate (histModel i.toInt! j.toInt! w.toList (Model.TextOps.encode (parseCps t))))
  | "spec:texthist", [t, i, j, w] => some (" | ".intercalate (histSpec i.toInt! j.toInt! w.toList (parseCps t)))
  | "fmt", t :: rest => some (fmtModel (parseCps t) rest)
  | "spec:fmt", t :: rest => some (fmtSpec (parseCps t) rest)
  | "mod", [l, r] => some (modModel l r)
  | "spec:mod", [l, r] => some (modSpec l r)
  | "text", w :: rest => textModel w rest
  | "textrun", w :: rest => textModel w rest
  | "spec:text", w :: rest => textSpec w rest
  | "spec:textrun", w :: rest => textSpec w rest
  | _, _ => none

end ZnVerif.Ops.C14
