import ZnVerif.Ops.Util
import ZnVerif.Model.Format
import ZnVerif.Model.TextOps
import ZnVerif.Spec.Template
import ZnVerif.Spec.TextOps
import ZnVerif.Spec.TextFamily

/-!
Driver ops of C14.  `fmt` answers with the model's / spec's result text in which every call of the runtime
parameters is left symbolic, as a marker that is not a code point:
  0x110001 verb hasPrec prec plus scaled k   = fmtFloat verb prec plus (argument k, times 100 if scaled)
  0x110002 k                                 = display form of argument k
The orchestrator substitutes the renderings of an independent reference before comparing with Go.
-/
namespace ZnVerif.Ops.C14
open ZnVerif ZnVerif.Ops
open ZnVerif.Model.Format (Verb Arg Env FmtErr)

def verbCode : Verb → Nat
  | .f => 0 | .e => 1 | .g => 2

/-- numbers are (argument index, scaled by 100?) -/
def symEnv : Env (Nat × Bool) Nat where
  fmtFloat v prec plus x :=
    [0x110001, verbCode v, if prec.isSome then 1 else 0, prec.getD 0, if plus then 1 else 0, if x.2 then 1 else 0, x.1]
  scale100 x := (x.1, true)
  displayNum x := [0x110002, x.1]
  display k := [0x110002, k]

def parseArgs (l : List String) : List (Arg (Nat × Bool) Nat) :=
  (l.zipIdx).map fun (a, k) =>
    if a.startsWith "n" then .num (k, false)
    else if a.startsWith "x" then .other
    else .plain k

def errField : FmtErr → String
  | .invalidTemplate => "err sem 33"
  | .unmatchParams => "err sem 34"
  | .invalidParamType => "err rt 82"
  | .notNumber => "err other 0"
  | .badDirective => "err other 0"
  | .panic => "panic"

def fmtModel (t : List Nat) (args : List String) : String :=
  match Model.Format.formatString symEnv t (parseArgs args) with
  | .ok r => "ok " ++ cpField r
  | .error e => errField e

def fmtSpec (t : List Nat) (args : List String) : String :=
  match Spec.Template.denote symEnv t (parseArgs args) with
  | some r => "ok " ++ cpField r
  | none => "err"

def listItems (r : String) : List String :=
  let body := (r.drop 1).toString
  if body.isEmpty then [] else body.splitOn ","

def operand (a : String) : Model.Format.Operand (Nat × Bool) Nat :=
  if a.startsWith "n" then .number (0, false)
  else if a.startsWith "s" then .text (parseCps (a.drop 1).toString)
  else if a.startsWith "a" then .list (parseArgs (listItems a))
  else .otherValue

def modModel (l r : String) : String :=
  match Model.Format.evalModulo symEnv (operand l) (operand r) with
  | .arith _ _ => "arith"
  | .formatted (.ok x) => "ok " ++ cpField x
  | .formatted (.error e) => errField e
  | .typeError => "err rt 80"

def modSpec (l r : String) : String :=
  match Spec.Template.modulo symEnv (operand l) (operand r) with
  | .remainder _ _ => "arith"
  | .filled (some x) => "ok " ++ cpField x
  | .filled none => "err"
  | .error => "err"

/-! text ops -/

def hex2 (b : Nat) : String :=
  let s := hexOfNat b
  if s.length < 2 then "0" ++ s else s

def bytesHex (l : List Nat) : String := if l.isEmpty then "-" else String.join (l.map hex2)

def textField (bytes : List Nat) : String :=
  let rs := Model.TextOps.runes bytes
  -- a valid UTF-8 text re-encodes to its own bytes (also a legitimate U+FFFD)
  if Model.TextOps.encode rs = bytes then "ok " ++ cpField rs
  else "okbytes " ++ bytesHex bytes

def pieceField (bytes : List Nat) : String :=
  let rs := Model.TextOps.runes bytes
  if Model.TextOps.encode rs = bytes then cpField rs else "bytes:" ++ bytesHex bytes

def listField (ps : List String) : String :=
  "ok " ++ toString ps.length ++ String.join (ps.map (" " ++ ·))

/-- the protocol passes an index as the integer q meaning the double q/4; Go's `int(float64)` truncates -/
def toIntQuarter (q : Int) : Int := Int.tdiv q 4

def textModel (which : String) (args : List String) : Option String :=
  match which, args with
  | "len", [t] => some ("ok " ++ toString (Model.TextOps.length (Model.TextOps.encode (parseCps t))))
  | "chars", [t] => some (listField ((Model.TextOps.chars (Model.TextOps.encode (parseCps t))).map pieceField))
  | "slice", [t, i, j] =>
    some (match Model.TextOps.slice (Model.TextOps.encode (parseCps t)) (toIntQuarter i.toInt!) (toIntQuarter j.toInt!) with
      | .ok r => textField r
      | .error .panic => "panic"
      | .error _ => "err sig 4")
  | "split", [t, s] =>
    some (listField ((Model.TextOps.split (Model.TextOps.encode (parseCps t)) (Model.TextOps.encode (parseCps s))).map pieceField))
  | _, _ => none

def textSpec (which : String) (args : List String) : Option String :=
  match which, args with
  | "len", [t] => some ("ok " ++ toString (parseCps t).length)
  | "chars", [t] => some (listField ((parseCps t).map fun c => cpField [c]))
  | "slice", [t, i, j] =>
    some (match Spec.TextOps.slice (parseCps t) (toIntQuarter i.toInt!) (toIntQuarter j.toInt!) with
      | .ok r => "ok " ++ cpField r
      | .error _ => "err sig 4")
  | "split", [t, s] => some (listField ((Spec.TextOps.split (parseCps t) (parseCps s)).map cpField))
  | _, _ => none

/-! one text value over a history (`texthist`): every observable is a function of the text's CURRENT characters; the only
operation that changes them is 转换数值 (`strExecAtoi` stores the rewritten text back into the receiver) -/

/-- the steps a word over l c s v n denotes (every `s` is 取样 with the same index pair), read up to the first letter
that is none of these; `true` iff such a letter was met -/
def parseSteps (i j : Int) : List Char → List Model.TextOps.Step × Bool
  | [] => ([], false)
  | 'l' :: r => let p := parseSteps i j r; (.len :: p.1, p.2)
  | 'c' :: r => let p := parseSteps i j r; (.chars :: p.1, p.2)
  | 's' :: r => let p := parseSteps i j r; (.slice (toIntQuarter i) (toIntQuarter j) :: p.1, p.2)
  | 'v' :: r => let p := parseSteps i j r; (.text :: p.1, p.2)
  | 'n' :: r => let p := parseSteps i j r; (.toNumber :: p.1, p.2)
  | _ :: _ => ([], true)

def obsField : Model.TextOps.Obs → String
  | .len n => "ok " ++ toString n
  | .chars cs => listField (cs.map pieceField)
  | .slice (.ok x) => textField x
  | .slice (.error .panic) => "panic"
  | .slice (.error _) => "err sig 4"
  | .text t => textField t
  | .converted => "n"

def specObsField : Spec.TextOps.SpecObs → String
  | .len n => "ok " ++ toString n
  | .chars cs => listField (cs.map cpField)
  | .slice (.ok x) => "ok " ++ cpField x
  | .slice (.error _) => "err sig 4"
  | .text t => "ok " ++ cpField t
  | .converted => "n"

/-- printer over `Model.TextOps.runHistory` -/
def histModel (i j : Int) (w : List Char) (t : List Nat) : List String :=
  let p := parseSteps i j w
  (Model.TextOps.runHistory p.1 t).map obsField ++ (if p.2 then ["bad-op"] else [])

/-- printer over `Spec.TextOps.runHistory` -/
def histSpec (i j : Int) (w : List Char) (t : List Nat) : List String :=
  let p := parseSteps i j w
  (Spec.TextOps.runHistory p.1 t).map specObsField ++ (if p.2 then ["bad-op"] else [])

/-! a FAMILY of text values derived from each other (`textfam`): `Spec.TextFamily.run` over the characters (spec) and
over the bytes with the model's primitives (model); after every step EVERY member is observed: 长度, the text, 字符组
and 取样 i..j for the pairs of `famPairs` -/

open Spec.TextFamily in
/-- the model's primitives on UTF-8 bytes under the family steps -/
def byteAlg : TextAlg where
  ofChars := Model.TextOps.encode
  len := Model.TextOps.length
  chars := Model.TextOps.chars
  slice s i j := match Model.TextOps.slice s i j with | .ok r => some r | .error _ => none
  split := Model.TextOps.split
  rewrite := Model.TextOps.atoiRewrite

def natList? (s : String) : Option (List Nat) :=
  if s.isEmpty then some [] else (s.splitOn ",").mapM fun x => x.toNat?

open Spec.TextFamily in
def parseFamStep (s : String) : Option Step :=
  let f := ((s.drop 1).toString).splitOn ":"
  match s.toList.head?, f with
  | some 'j', [k, lits] => k.toNat?.map fun k => .joinLits k ((lits.splitOn ",").map parseCps)
  | some 'J', [k, ms] => match k.toNat?, natList? ms with
    | some k, some ms => some (.joinMembers k ms)
    | _, _ => none
  | some 'c', [k] => k.toNat?.map .copy
  | some 'a', [k] => k.toNat?.map .assign
  | some 's', [k, i, j] => match k.toNat?, i.toInt?, j.toInt? with
    | some k, some i, some j => some (.slice k i j)
    | _, _, _ => none
  | some 'p', [k, sep, idx] => match k.toNat?, idx.toNat? with
    | some k, some idx => some (.piece k (parseCps sep) idx)
    | _, _ => none
  | some 'r', [k, pat, rep] => k.toNat?.map fun k => .replace k (parseCps pat) (parseCps rep)
  | some 'n', [k] => k.toNat?.map .toNumber
  | _, _ => none

/-- the index pairs observed on a text of n characters: 1 ≤ i ≤ j ≤ n with j − i < 3, or i = 1, or j = n -/
def famPairs (n : Nat) : List (Int × Int) :=
  ((List.range n).map fun i0 => ((List.range n).filter fun j0 => i0 ≤ j0 ∧ (j0 - i0 < 3 ∨ i0 = 0 ∨ j0 + 1 = n)).map
    fun j0 => (((i0 + 1 : Nat) : Int), ((j0 + 1 : Nat) : Int))).flatten

def famMember (A : Spec.TextFamily.TextAlg) (piece : List Nat → String) (t : List Nat) : String :=
  let n := A.len t
  "L=" ++ toString n ++ " T=" ++ piece t ++ " C=" ++ ",".intercalate ((A.chars t).map piece) ++
  " S=" ++ ",".intercalate ((famPairs n).map fun p => match A.slice t p.1 p.2 with
    | some r => piece r
    | none => "ERR")

def famRun (A : Spec.TextFamily.TextAlg) (piece : List Nat → String) (t script : String) : String :=
  match (script.splitOn ";").mapM parseFamStep with
  | none => "bad-op"
  | some steps =>
    let p := Spec.TextFamily.run A [A.ofChars (parseCps t)] steps
    " | ".intercalate (p.1.map fun fam => " / ".intercalate (fam.map (famMember A piece))) ++ (if p.2 then "" else " | stuck")

def handle (op : String) (args : List String) : Option String :=
  match op, args with
  | "textfam", [t, w] => some (famRun byteAlg pieceField t w)
  | "spec:textfam", [t, w] => some (famRun Spec.TextFamily.charAlg cpField t w)
  | "texthist", [t, i, j, w] =>
    some (" | ".intercalate (histModel i.toInt! j.toInt! w.toList (Model.TextOps.encode (parseCps t))))
  | "spec:texthist", [t, i, j, w] => some (" | ".intercalate (histSpec i.toInt! j.toInt! w.toList (parseCps t)))
  | "fmt", t :: rest => some (fmtModel (parseCps t) rest)
  | "spec:fmt", t :: rest => some (fmtSpec (parseCps t) rest)
  | "mod", [l, r] => some (modModel l r)
  | "spec:mod", [l, r] => some (modSpec l r)
  | "text", w :: rest => textModel w rest
  | "textrun", w :: rest => textModel w rest
  | "spec:text", w :: rest => textSpec w rest
  | "spec:textrun", w :: rest => textSpec w rest
  | _, _ => none

end ZnVerif.Ops.C14
