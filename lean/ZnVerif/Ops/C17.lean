import ZnVerif.Ops.Util
import ZnVerif.Model.Decode
import ZnVerif.Spec.Decode

/-! Driver ops for C17: `decode <mode> …` (model of pkg/io) and `spec:decode <mode> …` (strict UTF-8 oracle). -/
namespace ZnVerif.Ops.C17
open ZnVerif ZnVerif.Ops

/-- byte string as hex pairs, "-" for empty; `none` on malformed input -/
def parseBytes (s : String) : Option (List Nat) :=
  if s == "-" then some [] else
  let rec go : List Char → List Nat → Option (List Nat)
    | [], acc => some acc.reverse
    | [_], _ => none
    | a :: b :: rest, acc =>
      match hexDigit? a, hexDigit? b with
      | some x, some y => go rest ((x * 16 + y) :: acc)
      | _, _ => none
  go s.toList []

def showModel : Except Model.IOError (List Nat) → String
  | .ok cps => "ok " ++ cpField cps
  | .error e => "err io " ++ toString e.code

def showSpec : Except Spec.DecodeError (List Nat) → String
  | .ok cps => "ok " ++ cpField cps
  | .error _ => "err"

/-- `FileStream.ReadAll` asks for this many bytes per read (file_stream.go `defaultReadBlock`; the harness
reports the real constant through `decode blocksize`, and by `chunking_irrelevant` the value cannot matter) -/
def defaultReadBlock : Nat := 4096

def allSome (l : List (Option α)) : Option (List α) :=
  l.foldr (fun x acc => match x, acc with | some a, some as => some (a :: as) | _, _ => none) (some [])

def model (args : List String) : Option String :=
  match args with
  | ["bs", h] => (parseBytes h).map fun b => showModel (Model.byteStreamReadAll b)
  | ["bsn", n, h] => (parseBytes h).map fun b =>
      showModel (Model.ByteStream.readAllLoop { encBuffer := [] } (Model.splitEvery n.toNat! b) [])
  | "fs" :: e :: chunks =>
      (allSome (chunks.map parseBytes)).map fun cs =>
        if e == "1" && !cs.isEmpty then showModel (Model.fileReadAllWith cs.dropLast (cs.getLast?.getD []))
        else showModel (Model.readAll cs)
  | ["fsb", n, h] => (parseBytes h).map fun b =>
      showModel (Model.readAll (Model.splitEvery (min n.toNat! defaultReadBlock) b))
  | ["file", h] => (parseBytes h).map fun b => showModel (Model.readAll (Model.splitEvery defaultReadBlock b))
  | _ => none

def spec (args : List String) : Option String :=
  match args with
  | ["bs", h] => (parseBytes h).map fun b => showSpec (Spec.decodeStrict b)
  | ["bsn", _, h] => (parseBytes h).map fun b => showSpec (Spec.decodeStrict b)
  | "fs" :: _ :: chunks => (allSome (chunks.map parseBytes)).map fun cs => showSpec (Spec.decodeAll cs.flatten)
  | ["fsb", _, h] => (parseBytes h).map fun b => showSpec (Spec.decodeAll b)
  | ["file", h] => (parseBytes h).map fun b => showSpec (Spec.decodeAll b)
  | ["e2e", h] => (parseBytes h).map fun b => showSpec (Spec.decodeAll b)
  | _ => none

def handle (op : String) (args : List String) : Option String :=
  match op with
  | "decode" => some ((model args).getD "bad-args")
  | "spec:decode" => some ((spec args).getD "bad-args")
  | _ => none

end ZnVerif.Ops.C17
