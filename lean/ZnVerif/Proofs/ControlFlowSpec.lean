/-
Helper lemmas for the spec-side twins of C02 (`Spec/Sem.lean`: outcomes `ok | brk | cont | ret | raise | …`).
As in Proofs/ControlFlow.lean, `specWhileStep` is a *name* for the step of the spec's 每当 loop, tied to
`execS` by `execS_while` (proved by `rfl`).
-/
import ZnVerif.Spec.Sem
set_option linter.unusedSectionVars false
set_option linter.unusedVariables false

namespace ZnVerif.Proofs.ControlFlowSpec
open ZnVerif.Spec
open ZnVerif.Model (Expr Stmt NumOps)

/-- the initial spec state, over the toy numbers (for `example`s) -/
def sp0 : SState Int := {}

variable {ν : Type} [NumOps ν]

theorem sbind_ok {α β} {m : SM ν α} {f : α → SM ν β} {s s' : SState ν} {a : α} (h : m s = (.ok a, s')) :
    (m >>= f) s = f a s' := by simp [bind, h]
theorem sbind_ret {α β} {m : SM ν α} {f : α → SM ν β} {s s' : SState ν} {v : SVal ν} (h : m s = (.ret v, s')) :
    (m >>= f) s = (.ret v, s') := by simp [bind, h]
theorem sbind_brk {α β} {m : SM ν α} {f : α → SM ν β} {s s' : SState ν} (h : m s = (.brk, s')) :
    (m >>= f) s = (.brk, s') := by simp [bind, h]
theorem sbind_cont {α β} {m : SM ν α} {f : α → SM ν β} {s s' : SState ν} (h : m s = (.cont, s')) :
    (m >>= f) s = (.cont, s') := by simp [bind, h]

/-- the statements `pre` ran one after the other, each ending normally (`ok`); `v` is the value of the last one -/
inductive SRuns (n : Nat) : SVal ν → List Stmt → SState ν → SVal ν → SState ν → Prop
  | nil (v : SVal ν) (s : SState ν) : SRuns n v [] s v s
  | cons {v0 v v' : SVal ν} {st : Stmt} {rest : List Stmt} {s s1 s2 : SState ν} :
      execS n st s = (.ok v, s1) → SRuns n v rest s1 v' s2 → SRuns n v0 (st :: rest) s v' s2

theorem foldlM_sruns {n : Nat} {v0 v1 : SVal ν} {pre : List Stmt} {s s1 : SState ν} (h : SRuns n v0 pre s v1 s1)
    (rest : List Stmt) :
    (pre ++ rest).foldlM (fun _ st => execS n st) v0 s = rest.foldlM (fun _ st => execS n st) v1 s1 := by
  induction h with
  | nil => rfl
  | cons he _ ih =>
    rw [← ih]
    simp [List.foldlM_cons, bind, he]

/-- statements that a block runs in place (definitions are hoisted); verbatim from `runBlock` -/
def notDecl (st : Stmt) : Bool := match st with | .classDecl .. | .funcDecl .. => false | _ => true

theorem runBlock_eq (n : Nat) (stmts : List Stmt) (s : SState ν) :
    runBlock (n+1) (some stmts) s = withBlock (runStmts n (stmts.filter notDecl)) s := by
  simp only [runBlock]
  rfl

/-- the step of the spec's 每当 loop (verbatim from `execS`): test, then pass -/
def specWhileStep (n : Nat) (cond : Expr) (body : Option (List Stmt)) : SM ν Bool := do
        match ← evalE n cond with
        | .bool true =>
          catchR (runBlock n body) fun r =>
            match r with
            | .ok _ => pure true
            | .cont => pure true
            | .brk => pure false
            | r => do let _ ← (sfail r : SM ν (SVal ν)); pure false
        | .bool false => pure false
        | _ => fault 80

theorem execS_while (n ln : Nat) (c : Expr) (body : Option (List Stmt)) (s : SState ν) :
    execS (n+1) (.while ln c body) s =
      ((do whileS n (specWhileStep n c body); pure .null) : SM ν (SVal ν)) s := by
  simp only [execS]
  rfl

/-- how the spec's loop reads the end of a pass -/
def specVerdict {α} : R ν α → Option Bool
  | .ok _ => some true
  | .cont => some true
  | .brk => some false
  | _ => none

theorem specWhileStep_pass {n : Nat} {c : Expr} {body : Option (List Stmt)} {s s1 s2 : SState ν}
    {r : R ν (SVal ν)} {b : Bool}
    (hc : evalE n c s = (.ok (.bool true), s1)) (hb : runBlock n body s1 = (r, s2)) (hv : specVerdict r = some b) :
    specWhileStep n c body s = (.ok b, s2) := by
  unfold specWhileStep
  rw [sbind_ok hc]
  simp only [catchR, hb]
  cases r <;> simp [specVerdict] at hv <;> subst hv <;> rfl

theorem specWhileStep_ret {n : Nat} {c : Expr} {body : Option (List Stmt)} {s s1 s2 : SState ν} {v : SVal ν}
    (hc : evalE n c s = (.ok (.bool true), s1)) (hb : runBlock n body s1 = (.ret v, s2)) :
    specWhileStep n c body s = (.ret v, s2) := by
  unfold specWhileStep
  rw [sbind_ok hc]
  simp only [catchR, hb]
  rfl

theorem specWhileStep_false {n : Nat} {c : Expr} {body : Option (List Stmt)} {s s1 : SState ν}
    (hc : evalE n c s = (.ok (.bool false), s1)) :
    specWhileStep n c body s = (.ok false, s1) := by
  unfold specWhileStep
  rw [sbind_ok hc]
  rfl

/-- k complete passes of the spec's loop: condition 真 first, then the body ends `ok` or with `cont` -/
inductive SWhilePasses (n : Nat) (c : Expr) (body : Option (List Stmt)) : Nat → SState ν → SState ν → Prop
  | zero (s : SState ν) : SWhilePasses n c body 0 s s
  | succ {k : Nat} {s s1 s2 s3 : SState ν} {r : R ν (SVal ν)} :
      evalE n c s = (.ok (.bool true), s1) → runBlock n body s1 = (r, s2) → specVerdict r = some true →
      SWhilePasses n c body k s2 s3 → SWhilePasses n c body (k+1) s s3

theorem whileS_passes {n : Nat} {c : Expr} {body : Option (List Stmt)} {k : Nat} {s s' : SState ν}
    (h : SWhilePasses n c body k s s') (j : Nat) :
    whileS (k + j) (specWhileStep n c body) s = whileS j (specWhileStep n c body) s' := by
  induction h with
  | zero => simp
  | @succ k' _ _ _ _ _ hc hb hv _ ih =>
    rw [← ih, show k' + 1 + j = (k' + j) + 1 by omega]
    simp [whileS, bind, specWhileStep_pass hc hb hv]

theorem spec_while_after {n : Nat} {c : Expr} {body : Option (List Stmt)} {k : Nat} {s s1 s2 : SState ν}
    {r : R ν Bool}
    (hp : SWhilePasses n c body k s s1) (hk : k < n) (hstep : specWhileStep n c body s1 = (r, s2))
    (hr : r = .ok true → False) :
    whileS n (specWhileStep n c body) s =
      (match r with
        | .ok _ => .ok () | .brk => .brk | .cont => .cont | .ret v => .ret v | .raise e => .raise e
        | .fatal c => .fatal c | .unspecified => .unspecified | .fuel => .fuel, s2) := by
  obtain ⟨j, rfl⟩ : ∃ j, n = k + (j + 1) := ⟨n - k - 1, by omega⟩
  rw [whileS_passes hp]
  cases r with
  | ok b =>
    cases b
    · simp [whileS, bind, hstep, pure]
    · exact (hr rfl).elim
  | _ => simp [whileS, bind, hstep]

/-! ## loop signals on the spec side: `.brk` / `.cont` never leave a body -/

def isLoopSignal {α} : R ν α → Bool
  | .brk | .cont => true
  | _ => false

/-- `m` never ends with `.brk` / `.cont` -/
def SNoSig {α} (m : SM ν α) : Prop := ∀ s r s', m s = (r, s') → isLoopSignal r = false

theorem SNoSig.pure {α} (a : α) : SNoSig (Pure.pure a : SM ν α) := by
  intro s r s' h; cases h; rfl

theorem SNoSig.sfail {α} {r : R ν α} (h : isLoopSignal r = false) : SNoSig (Spec.sfail r : SM ν α) := by
  intro s r' s' h'; cases h'; exact h

theorem SNoSig.modS (f : SState ν → SState ν) : SNoSig (modS f) := by intro s r s' h; cases h; rfl
theorem SNoSig.getS : SNoSig (getS : SM ν (SState ν)) := by intro s r s' h; cases h; rfl
theorem SNoSig.fault {α} (c : Nat) : SNoSig (Spec.fault c : SM ν α) := SNoSig.sfail rfl
theorem SNoSig.unspec {α} : SNoSig (Spec.unspec : SM ν α) := SNoSig.sfail rfl

theorem SNoSig.bind {α β} {m : SM ν α} {f : α → SM ν β} (hm : SNoSig m) (hf : ∀ a, SNoSig (f a)) :
    SNoSig (m >>= f) := by
  intro s r s' h
  simp only [Bind.bind] at h
  rcases hms : m s with ⟨r1, s1⟩
  rw [hms] at h
  have h1 := hm _ _ _ hms
  cases r1 <;> first | exact hf _ _ _ _ h | (cases h; first | rfl | exact h1)

/-- `catchR m k`: the handler decides -/
theorem SNoSig.catchR {α β} (m : SM ν α) {k : R ν α → SM ν β} (hk : ∀ r, SNoSig (k r)) : SNoSig (Spec.catchR m k) := by
  intro s r s' h
  simp only [Spec.catchR] at h
  exact hk _ _ _ _ h

/-- … or `m` and the handler on outcomes that are not loop signals -/
theorem SNoSig.catchR' {α β} {m : SM ν α} {k : R ν α → SM ν β} (hm : SNoSig m)
    (hk : ∀ r, isLoopSignal r = false → SNoSig (k r)) : SNoSig (Spec.catchR m k) := by
  intro s r s' h
  simp only [Spec.catchR] at h
  rcases hms : m s with ⟨r1, s1⟩
  rw [hms] at h
  exact hk r1 (hm _ _ _ hms) _ _ _ h

theorem SNoSig.forM {α} {f : α → SM ν PUnit} (hf : ∀ a, SNoSig (f a)) : ∀ xs : List α, SNoSig (xs.forM f)
  | [] => SNoSig.pure _
  | x :: xs => by
    have : (x :: xs).forM f = (do f x; xs.forM f) := rfl
    rw [this]
    exact SNoSig.bind (hf x) fun _ => SNoSig.forM hf xs

theorem SNoSig.firstS {α β} {f : α → SM ν (Option β)} {d : SM ν β} (hf : ∀ a, SNoSig (f a)) (hd : SNoSig d) :
    ∀ xs : List α, SNoSig (Spec.firstS f d xs)
  | [] => hd
  | x :: xs => by
    unfold Spec.firstS
    refine SNoSig.bind (hf x) fun o => ?_
    split
    · exact SNoSig.pure _
    · exact SNoSig.firstS hf hd xs

theorem SNoSig.ite {α} {c : Prop} [Decidable c] {a b : SM ν α} (ha : SNoSig a) (hb : SNoSig b) :
    SNoSig (if c then a else b) := by
  split <;> assumption

theorem SNoSig.withBlock {α} {m : SM ν α} (hm : SNoSig m) : SNoSig (Spec.withBlock m) := by
  unfold Spec.withBlock
  exact SNoSig.bind (SNoSig.modS _) fun _ => SNoSig.catchR' hm fun r hr =>
    SNoSig.bind (SNoSig.modS _) fun _ => SNoSig.sfail hr

theorem SNoSig.classifyId (lit : String) : SNoSig (classifyId lit : SM ν (IdK ν)) := by
  unfold Spec.classifyId; split
  · exact SNoSig.sfail rfl
  · exact SNoSig.pure _
  · exact SNoSig.pure _

theorem SNoSig.idName (lit : String) : SNoSig (idName lit : SM ν String) := by
  unfold Spec.idName
  refine SNoSig.bind (SNoSig.classifyId lit) fun k => ?_
  split
  · exact SNoSig.pure _
  · exact SNoSig.sfail rfl

theorem SNoSig.idNameOpt (i : Option ZnVerif.Model.Ident) : SNoSig (idNameOpt i : SM ν String) := by
  unfold Spec.idNameOpt; split
  · exact SNoSig.idName _
  · exact SNoSig.unspec

theorem SNoSig.declare (nm : String) (v : SVal ν) (c : Bool) : SNoSig (declare nm v c : SM ν Unit) := by
  unfold Spec.declare
  split
  · exact SNoSig.fault _
  · refine SNoSig.bind SNoSig.getS fun s => ?_
    split
    · exact SNoSig.fault _
    · split
      · exact SNoSig.fault _
      · exact SNoSig.modS _

/-- the outcome of a body (method, constructor, program) is never `.brk` / `.cont` -/
theorem SNoSig.callBody (n : Nat) (blk : Option ZnVerif.Model.ExecBlock) (args : List (SVal ν)) (this : Option (SVal ν)) :
    SNoSig (callBody n blk args this) := by
  cases n with
  | zero => simp only [Spec.callBody]; exact SNoSig.sfail rfl
  | succ n =>
    cases blk with
    | none => simp only [Spec.callBody]; exact SNoSig.unspec
    | some b =>
      obtain ⟨inputs, body, catches⟩ := b
      simp only [Spec.callBody]
      refine SNoSig.bind (SNoSig.modS _) fun _ => SNoSig.catchR' (SNoSig.withBlock ?_) fun r hr =>
        SNoSig.bind (SNoSig.modS _) fun _ => SNoSig.sfail hr
      split
      · exact SNoSig.fault _
      · refine SNoSig.bind (SNoSig.forM (fun p => SNoSig.bind (SNoSig.idName _) fun _ => SNoSig.declare _ _ _) _) fun _ => ?_
        refine SNoSig.catchR' (SNoSig.catchR _ fun r => ?_) fun r hr => ?_
        · cases r <;> exact SNoSig.sfail rfl
        · cases r with
          | ok v => exact SNoSig.pure _
          | ret v => exact SNoSig.pure _
          | raise ex =>
            refine SNoSig.bind SNoSig.getS fun s => SNoSig.firstS (fun c => ?_) (SNoSig.sfail (ν := ν) rfl) _
            refine SNoSig.bind (SNoSig.idNameOpt _) fun hn => SNoSig.ite ?_ (SNoSig.pure _)
            refine SNoSig.bind (SNoSig.modS _) fun _ => SNoSig.bind (SNoSig.catchR _ fun hr => ?_) fun _ => SNoSig.pure _
            refine SNoSig.bind (SNoSig.modS _) fun _ => ?_
            cases hr <;> first | exact SNoSig.pure _ | exact SNoSig.sfail rfl
          | brk => cases hr
          | cont => cases hr
          | fatal c => exact SNoSig.sfail rfl
          | unspecified => exact SNoSig.sfail rfl
          | fuel => exact SNoSig.sfail rfl

end ZnVerif.Proofs.ControlFlowSpec
