/-
Helper lemmas for the spec-side twins of C02 (`Spec/Sem.lean`: outcomes `ok | brk | cont | ret | raise | …`).
As in Proofs/ControlFlow.lean, `specWhileStep` is a *name* for the step of the spec's 每当 loop, tied to
`execS` by `execS_while` (proved by `rfl`).
-/
import ZnVerif.Spec.Sem
set_option linter.unusedSectionVars false
set_option linter.unusedVariables false

namespace ZnVerif.Proofs.ControlFlowSpec
open ZnVerif.Spec
open ZnVerif.Model (Expr Stmt NumOps)

/-- the initial spec state, over the toy numbers (for `example`s) -/
def sp0 : SState Int := {}

variable {ν : Type} [NumOps ν]

theorem sbind_ok {α β} {m : SM ν α} {f : α → SM ν β} {s s' : SState ν} {a : α} (h : m s = (.ok a, s')) :
    (m >>= f) s = f a s' := by simp [bind, h]
theorem sbind_ret {α β} {m : SM ν α} {f : α → SM ν β} {s s' : SState ν} {v : SVal ν} (h : m s = (.ret v, s')) :
    (m >>= f) s = (.ret v, s') := by simp [bind, h]
theorem sbind_brk {α β} {m : SM ν α} {f : α → SM ν β} {s s' : SState ν} (h : m s = (.brk, s')) :
    (m >>= f) s = (.brk, s') := by simp [bind, h]
theorem sbind_cont {α β} {m : SM ν α} {f : α → SM ν β} {s s' : SState ν} (h : m s = (.cont, s')) :
    (m >>= f) s = (.cont, s') := by simp [bind, h]

/-- the statements `pre` ran one after the other, each ending normally (`ok`); `v` is the value of the last one -/
inductive SRuns (n : Nat) : SVal ν → List Stmt → SState ν → SVal ν → SState ν → Prop
  | nil (v : SVal ν) (s : SState ν) : SRuns n v [] s v s
  | cons {v0 v v' : SVal ν} {st : Stmt} {rest : List Stmt} {s s1 s2 : SState ν} :
      execS n st s = (.ok v, s1) → SRuns n v rest s1 v' s2 → SRuns n v0 (st :: rest) s v' s2

theorem foldlM_sruns {n : Nat} {v0 v1 : SVal ν} {pre : List Stmt} {s s1 : SState ν} (h : SRuns n v0 pre s v1 s1)
    (rest : List Stmt) :
    (pre ++ rest).foldlM (fun _ st => execS n st) v0 s = rest.foldlM (fun _ st => execS n st) v1 s1 := by
  induction h with
  | nil => rfl
  | cons he _ ih =>
    rw [← ih]
    simp [List.foldlM_cons, bind, he]

/-- statements that a block runs in place (definitions are hoisted); verbatim from `runBlock` -/
def notDecl (st : Stmt) : Bool := match st with | .classDecl .. | .funcDecl .. => false | _ => true

theorem runBlock_eq (n : Nat) (stmts : List Stmt) (s : SState ν) :
    runBlock (n+1) (some stmts) s = withBlock (runStmts n (stmts.filter notDecl)) s := by
  simp only [runBlock]
  rfl

/-- the step of the spec's 每当 loop (verbatim from `execS`): test, then pass -/
def specWhileStep (n : Nat) (cond : Expr) (body : Option (List Stmt)) : SM ν Bool := do
        match ← evalE n cond with
        | .bool true =>
          catchR (runBlock n body) fun r =>
            match r with
            | .ok _ => pure true
            | .cont => pure true
            | .brk => pure false
            | r => do let _ ← (sfail r : SM ν (SVal ν)); pure false
        | .bool false => pure false
        | _ => fault 80

theorem execS_while (n ln : Nat) (c : Expr) (body : Option (List Stmt)) (s : SState ν) :
    execS (n+1) (.while ln c body) s =
      ((do whileS n (specWhileStep n c body); pure .null) : SM ν (SVal ν)) s := by
  simp only [execS]
  rfl

/-- how the spec's loop reads the end of a pass -/
def specVerdict {α} : R ν α → Option Bool
  | .ok _ => some true
  | .cont => some true
  | .brk => some false
  | _ => none

theorem specWhileStep_pass {n : Nat} {c : Expr} {body : Option (List Stmt)} {s s1 s2 : SState ν}
    {r : R ν (SVal ν)} {b : Bool}
    (hc : evalE n c s = (.ok (.bool true), s1)) (hb : runBlock n body s1 = (r, s2)) (hv : specVerdict r = some b) :
    specWhileStep n c body s = (.ok b, s2) := by
  unfold specWhileStep
  rw [sbind_ok hc]
  simp only [catchR, hb]
  cases r <;> simp [specVerdict] at hv <;> subst hv <;> rfl

theorem specWhileStep_ret {n : Nat} {c : Expr} {body : Option (List Stmt)} {s s1 s2 : SState ν} {v : SVal ν}
    (hc : evalE n c s = (.ok (.bool true), s1)) (hb : runBlock n body s1 = (.ret v, s2)) :
    specWhileStep n c body s = (.ret v, s2) := by
  unfold specWhileStep
  rw [sbind_ok hc]
  simp only [catchR, hb]
  rfl

theorem specWhileStep_false {n : Nat} {c : Expr} {body : Option (List Stmt)} {s s1 : SState ν}
    (hc : evalE n c s = (.ok (.bool false), s1)) :
    specWhileStep n c body s = (.ok false, s1) := by
  unfold specWhileStep
  rw [sbind_ok hc]
  rfl

/-- k complete passes of the spec's loop: condition 真 first, then the body ends `ok` or with `cont` -/
inductive SWhilePasses (n : Nat) (c : Expr) (body : Option (List Stmt)) : Nat → SState ν → SState ν → Prop
  | zero (s : SState ν) : SWhilePasses n c body 0 s s
  | succ {k : Nat} {s s1 s2 s3 : SState ν} {r : R ν (SVal ν)} :
      evalE n c s = (.ok (.bool true), s1) → runBlock n body s1 = (r, s2) → specVerdict r = some true →
      SWhilePasses n c body k s2 s3 → SWhilePasses n c body (k+1) s s3

theorem whileS_passes {n : Nat} {c : Expr} {body : Option (List Stmt)} {k : Nat} {s s' : SState ν}
    (h : SWhilePasses n c body k s s') (j : Nat) :
    whileS (k + j) (specWhileStep n c body) s = whileS j (specWhileStep n c body) s' := by
  induction h with
  | zero => simp
  | @succ k' _ _ _ _ _ hc hb hv _ ih =>
    rw [← ih, show k' + 1 + j = (k' + j) + 1 by omega]
    simp [whileS, bind, specWhileStep_pass hc hb hv]

theorem spec_while_after {n : Nat} {c : Expr} {body : Option (List Stmt)} {k : Nat} {s s1 s2 : SState ν}
    {r : R ν Bool}
    (hp : SWhilePasses n c body k s s1) (hk : k < n) (hstep : specWhileStep n c body s1 = (r, s2))
    (hr : r = .ok true → False) :
    whileS n (specWhileStep n c body) s =
      (match r with
        | .ok _ => .ok () | .brk => .brk | .cont => .cont | .ret v => .ret v | .raise e => .raise e
        | .fatal c => .fatal c | .unspecified => .unspecified | .fuel => .fuel, s2) := by
  obtain ⟨j, rfl⟩ : ∃ j, n = k + (j + 1) := ⟨n - k - 1, by omega⟩
  rw [whileS_passes hp]
  cases r with
  | ok b =>
    cases b
    · simp [whileS, bind, hstep, pure]
    · exact (hr rfl).elim
  | _ => simp [whileS, bind, hstep]

end ZnVerif.Proofs.ControlFlowSpec
