/-
C03 at character level, free layout: comments that SPAN LINES — `/* … */` over several lines, `注：“…”`, `注：「…」`, `注123：“…”`.

`cmt_multi_run`: the content loop of `parseComment` over a body with line breaks appends one line-table entry per line break (start
right after it, indentation 0, `LineText` nil), exactly `lineStarts` of the body; `dispatch_mcmt`: ONE comment token.
Bodies of the quoted kinds must not contain the comment's own quote pair (nesting is not covered).
-/
import ZnVerif.Proofs.RenderGapLit

namespace ZnVerif.Proofs.RenderLex
open ZnVerif.Model ZnVerif.Generated ZnVerif.Generated.Tokens
open ZnVerif.Spec ZnVerif.Spec.RenderChars ZnVerif.Spec.Lines

/-- the comment kinds that may span lines -/
def MultiCty (cty : Nat) : Prop := cty = ccommentTypeSlash ∨ cty = ccommentTypeQuoteI ∨ cty = ccommentTypeQuoteII

theorem cmtStep_inner (s cty : Nat) (l : Lexer) (q c : Nat) (r : List Nat) (h : l.rest = c :: r)
    (hc : c ≠ 0 ∧ isBreak c = false) (hcty : MultiCty cty) (hok : OKChar cty c (r.headD 0)) :
    parseCommentStep s cty l q = (.cont q, l.adv) := by
  obtain ⟨hp, hr⟩ := Lexer.rest_cons h
  have hcur : l.adv.cur = c := hp
  have hpeek : l.adv.peek = r.headD 0 := rest_peek hr
  obtain ⟨h0, hb⟩ := hc
  unfold parseCommentStep
  have a0 : (c == runeEOF) = false := by simpa [runeEOF] using h0
  have a1 : (c == runeCR || c == runeLF) = false := hb
  simp only [hcur, hpeek, a0, a1, Bool.false_eq_true, ↓reduceIte]
  obtain ⟨o1, o2, o3⟩ := hok
  rcases hcty with rfl | rfl | rfl
  · have b1 : (ccommentTypeSlash == ccommentTypeQuoteI) = false := by decide
    have b2 : (ccommentTypeSlash == ccommentTypeQuoteII) = false := by decide
    simp only [b1, b2, Bool.false_eq_true, ↓reduceIte, beq_self_eq_true, Bool.true_and]
    repeat' split
    all_goals first
      | rfl
      | (exfalso
         rename_i hs hm
         exact o1 rfl ⟨by simpa using hs, by simpa using hm⟩)
  · obtain ⟨x1, x2⟩ := o2 rfl
    have c1 : (c == cLeftDoubleQuoteI) = false := by simpa using x1
    have c2 : (c == cRightDoubleQuoteI) = false := by simpa using x2
    have b2 : (ccommentTypeQuoteI == ccommentTypeQuoteII) = false := by decide
    have b3 : (ccommentTypeQuoteI == ccommentTypeSlash) = false := by decide
    simp only [c1, c2, b2, b3, Bool.false_eq_true, ↓reduceIte, Bool.false_and]
    repeat' split
    all_goals rfl
  · obtain ⟨x1, x2⟩ := o3 rfl
    have c1 : (c == cLeftDoubleQuoteII) = false := by simpa using x1
    have c2 : (c == cRightDoubleQuoteII) = false := by simpa using x2
    have b2 : (ccommentTypeQuoteII == ccommentTypeQuoteI) = false := by decide
    have b3 : (ccommentTypeQuoteII == ccommentTypeSlash) = false := by decide
    simp only [c1, c2, b2, b3, Bool.false_eq_true, ↓reduceIte, Bool.false_and]
    repeat' split
    all_goals rfl

theorem multi_not_single {cty : Nat} (h : MultiCty cty) : (cty == ccommentTypeSingle) = false := by
  rcases h with rfl | rfl | rfl <;> decide

theorem cmtStep_pair (s cty : Nat) (l : Lexer) (q c c' : Nat) (r : List Nat) (h : l.rest = c :: c' :: r)
    (hc : isPair c c' = true) (hcty : MultiCty cty) :
    parseCommentStep s cty l q = (.cont q, l.adv.adv.pushLine { indents := 0, startIdx := l.cursor + 3 }) := by
  obtain ⟨hp, hp2, -⟩ := Lexer.rest_cons2 h
  have hs := multi_not_single hcty
  have hcc : (c = runeCR ∧ c' = runeLF) ∨ (c = runeLF ∧ c' = runeCR) := by simpa [isPair, runeCR, runeLF] using hc
  unfold parseCommentStep
  rcases hcc with ⟨rfl, rfl⟩ | ⟨rfl, rfl⟩ <;>
    simp [Lexer.adv_cur, Lexer.adv_peek, hp, hp2, hs, runeEOF, runeCR, runeLF]

theorem cmtStep_single (s cty : Nat) (l : Lexer) (q c : Nat) (r : List Nat) (h : l.rest = c :: r)
    (hc : isBreak c = true) (hn : isPair c (r.headD 0) = false) (hcty : MultiCty cty) :
    parseCommentStep s cty l q = (.cont q, l.adv.pushLine { indents := 0, startIdx := l.cursor + 2 }) := by
  obtain ⟨hp, hr⟩ := Lexer.rest_cons h
  have hcur : l.adv.cur = c := hp
  have hpk : l.adv.peek = r.headD 0 := rest_peek hr
  have hs := multi_not_single hcty
  have hc0 : (c == runeEOF) = false := by
    have : c = 0x0D ∨ c = 0x0A := by simpa [isBreak] using hc
    rcases this with rfl | rfl <;> decide
  unfold parseCommentStep
  have hnl : (c == runeCR || c == runeLF) = true := hc
  have hcond : ((c == runeCR && r.headD 0 == runeLF) || (c == runeLF && r.headD 0 == runeCR)) = false := hn
  simp only [hcur, hpk, hc0, hnl, hs, hcond, Bool.false_eq_true, ↓reduceIte, Lexer.adv_cursor]

/-- **the content loop over a body with line breaks**: one line per break -/
theorem cmt_multi_run (s cty : Nat) (hcty : MultiCty cty) (post : List Nat)
    (hpost : isBreak (post.headD 0) = false) :
    ∀ (k : Nat) (b : List Nat), b.length = k → (∀ c ∈ b, c ≠ 0) → BodyOK cty post b → ∀ (l : Lexer) (q : Nat),
      l.rest = b ++ post →
      ∃ l', l'.src = l.src ∧ l'.cursor = l.cursor + b.length ∧ l'.rest = post ∧
        l'.lines = l.lines ++ ((lineStarts (l.cursor + 1) b).map scannedLine).toArray ∧
        (l'.beginLex = l.beginLex ∧ l'.indentType = l.indentType) ∧
        parseCommentLoop s cty l q = parseCommentLoop s cty l' q := by
  intro k
  induction k using Nat.strongRecOn with
  | _ k ih =>
  intro b hk h0 hok l q h
  cases b with
  | nil => exact ⟨l, rfl, by simp, by simpa using h, by simp [lineStarts], ⟨rfl, rfl⟩, rfl⟩
  | cons c b' =>
    have h' : l.rest = c :: (b' ++ post) := by simpa using h
    have hc0 : c ≠ 0 := h0 c List.mem_cons_self
    have h0' : ∀ x ∈ b', x ≠ 0 := fun x hx => h0 x (List.mem_cons_of_mem _ hx)
    by_cases hb : isBreak c = true
    · by_cases hpair : isPair c ((b' ++ post).headD 0) = true
      · -- the partner is part of the body (what follows the body is no line break)
        cases b' with
        | nil =>
          exfalso
          have : isBreak (post.headD 0) = true := by
            simp only [List.nil_append] at hpair
            have := hpair
            simp only [isPair, Bool.or_eq_true, Bool.and_eq_true, beq_iff_eq] at this
            rcases this with ⟨_, e⟩ | ⟨_, e⟩ <;> rw [e] <;> decide
          rw [hpost] at this; cases this
        | cons d b'' =>
          have hpair' : isPair c d = true := by simpa using hpair
          have h'' : l.rest = c :: d :: (b'' ++ post) := by simpa using h'
          have hstep := cmtStep_pair s cty l q c d _ h'' hpair' hcty
          obtain ⟨l', a1, a2, a3, a4, ⟨a5, a6⟩, a7⟩ := ih b''.length (by simp at hk; omega) b'' rfl
            (fun x hx => h0' x (List.mem_cons_of_mem _ hx)) hok.2.2
            (l.adv.adv.pushLine { indents := 0, startIdx := l.cursor + 3 }) q
            (by simpa using (Lexer.rest_cons2 h'').2.2)
          refine ⟨l', by rw [a1]; rfl, by rw [a2]; simp; omega, a3, ?_, ⟨by rw [a5]; rfl, by rw [a6]; rfl⟩, ?_⟩
          · rw [a4, lineStarts_pair (l.cursor + 1) c d b'' hpair']
            simp [scannedLine, Lexer.pushLine, Nat.add_assoc]
          · unfold parseCommentLoop at a7 ⊢
            rw [iterate_cont hstep, a7]
      · have hpair' : isPair c ((b' ++ post).headD 0) = false := by simpa using hpair
        have hstep := cmtStep_single s cty l q c _ h' hb hpair' hcty
        obtain ⟨l', a1, a2, a3, a4, ⟨a5, a6⟩, a7⟩ := ih b'.length (by simp at hk; omega) b' rfl h0' hok.2
          (l.adv.pushLine { indents := 0, startIdx := l.cursor + 2 }) q (by simpa using (Lexer.rest_cons h').2)
        refine ⟨l', by rw [a1]; rfl, by rw [a2]; simp; omega, a3, ?_, ⟨by rw [a5]; rfl, by rw [a6]; rfl⟩, ?_⟩
        · have hls : lineStarts (l.cursor + 1) (c :: b') = (l.cursor + 2) :: lineStarts (l.cursor + 2) b' := by
            apply Model.lineStarts_single _ _ _ hb
            intro d hd
            cases b' with
            | nil => simp at hd
            | cons x xs =>
              simp at hd; subst hd
              simpa using hpair'
          rw [a4, hls]
          simp [scannedLine, Lexer.pushLine, Nat.add_assoc]
        · unfold parseCommentLoop at a7 ⊢
          rw [iterate_cont hstep, a7]
    · have hb' : isBreak c = false := by simpa using hb
      have hstep := cmtStep_inner s cty l q c _ h' ⟨hc0, hb'⟩ hcty hok.1
      obtain ⟨l', a1, a2, a3, a4, ⟨a5, a6⟩, a7⟩ := ih b'.length (by simp at hk; omega) b' rfl h0' hok.2 l.adv q
        (Lexer.rest_cons h').2
      refine ⟨l', by rw [a1]; rfl, by rw [a2]; simp; omega, a3, ?_, ⟨by rw [a5]; rfl, by rw [a6]; rfl⟩, ?_⟩
      · rw [a4, lineStarts_plain (l.cursor + 1) c b' hb']
        rfl
      · unfold parseCommentLoop at a7 ⊢
        rw [iterate_cont hstep, a7]

theorem mcmt_cty (c : MCmt) : MultiCty c.cty := by
  cases c with
  | block b => exact Or.inl rfl
  | quoted curly ds b => cases curly <;> simp [MultiCty, MCmt.cty]

/-- the lexer with the cursor moved and lines appended -/
def grown (l : Lexer) (n : Nat) (ls : List LineInfo) : Lexer := { l with cursor := l.cursor + n, lines := l.lines ++ ls.toArray }

theorem grown_of {l l' : Lexer} {n : Nat} {ls : List LineInfo} (h1 : l'.src = l.src) (h2 : l'.cursor = l.cursor + n)
    (h3 : l'.lines = l.lines ++ ls.toArray) (h4 : l'.beginLex = l.beginLex) (h5 : l'.indentType = l.indentType) :
    l' = grown l n ls := by
  obtain ⟨a, b, c, d, e⟩ := l'
  obtain ⟨a', b', c', d', e'⟩ := l
  simp only at h1 h2 h3 h4 h5
  subst h1 h2 h3 h4 h5
  rfl

theorem bodyOK_post {cty : Nat} {post post' : List Nat} (h : post.headD 0 = post'.headD 0) :
    ∀ b, BodyOK cty post b → BodyOK cty post' b := by
  intro b
  induction b with
  | nil => intro _; trivial
  | cons c r ih =>
    intro hb
    refine ⟨?_, ih hb.2⟩
    have := hb.1
    cases r with
    | nil =>
      simp only [List.nil_append] at this ⊢
      rw [← h]; exact this
    | cons x xs => simpa using this

/-- `/* body */` with line breaks in the body -/
theorem dispatch_mblock (b : List Nat) (hb0 : ∀ x ∈ b, x ≠ 0) (hbok : BodyOK ccommentTypeSlash [cMultiplyOp, cSlashOp] b)
    (l : Lexer) (rest : List Nat) (h' : here l = cSlashOp :: cMultiplyOp :: (b ++ cMultiplyOp :: cSlashOp :: rest)) :
    dispatchToken l = (.ok { type := cTypeComment, startIdx := l.cursor, endIdx := l.cursor + (b.length + 4) },
      grown l (b.length + 4) ((lineStarts (l.cursor + 2) b).map scannedLine)) := by
  obtain ⟨hc, hr⟩ := here_cons h'
  obtain ⟨hp, hr2⟩ := Lexer.rest_cons hr
  obtain ⟨l', a1, a2, a3, a4, ⟨a5, a6⟩, a7⟩ := cmt_multi_run l.cursor ccommentTypeSlash (Or.inl rfl)
    (cMultiplyOp :: cSlashOp :: rest) (by show isBreak cMultiplyOp = false; decide) b.length b rfl hb0
    (bodyOK_post (post := [cMultiplyOp, cSlashOp]) (post' := cMultiplyOp :: cSlashOp :: rest) rfl b hbok) l.adv 0 hr2
  obtain ⟨q1, q2, _⟩ := Lexer.rest_cons2 a3
  have hstep : parseCommentStep l.cursor ccommentTypeSlash l' 0 =
      (.done { type := cTypeComment, startIdx := l.cursor, endIdx := l'.adv.adv.adv.cursor }, l'.adv.adv.adv) := by
    unfold parseCommentStep
    have hcur : l'.adv.cur = cMultiplyOp := q1
    have hpeek : l'.adv.peek = cSlashOp := q2
    simp only [hcur, hpeek]
    simp [runeEOF, runeCR, runeLF, cMultiplyOp, cSlashOp, cLeftDoubleQuoteI, cLeftDoubleQuoteII,
      cRightDoubleQuoteI, cRightDoubleQuoteII]
  have hl' : l' = grown l.adv b.length ((lineStarts (l.adv.cursor + 1) b).map scannedLine) := grown_of a1 a2 a4 a5 a6
  have hcom : parseComment l = (some { type := cTypeComment, startIdx := l.cursor, endIdx := l'.adv.adv.adv.cursor }, l'.adv.adv.adv) := by
    unfold parseComment
    have b1 : (l.cur == cCharZHU) = false := by rw [hc]; decide
    have b2 : (l.cur == cSlashOp) = true := by rw [hc]; decide
    have b3 : (l.peek == cSlashOp) = false := by rw [hp]; decide
    have b4 : (l.peek == cMultiplyOp) = true := by rw [hp]; decide
    simp only [b1, b2, b3, b4, Bool.false_eq_true, ↓reduceIte]
    unfold parseCommentLoop at a7 ⊢
    rw [a7, iterate_done hstep]
  unfold dispatchToken
  have c1 : (l.cur == runeEOF) = false := by rw [hc]; decide
  have c2 : (l.cur == cCharZHU || l.cur == cSlashOp) = true := by rw [hc]; decide
  simp only [c1, c2, Bool.false_eq_true, ↓reduceIte, hcom]
  rw [hl']
  have e1 : l.cursor + 1 + b.length + 1 + 1 + 1 = l.cursor + (b.length + 4) := by omega
  have e2 : l.cursor + 1 + 1 = l.cursor + 2 := by omega
  simp only [grown, Lexer.adv, e1, e2]

/-- `注ds：Q body Q'` with line breaks in the body; `(Q, Q', cty)` one of the two quote pairs -/
theorem dispatch_mquoted (Q Q' cty : Nat)
    (hq : (Q = cLeftDoubleQuoteI ∧ Q' = cRightDoubleQuoteI ∧ cty = ccommentTypeQuoteI) ∨
      (Q = cLeftDoubleQuoteII ∧ Q' = cRightDoubleQuoteII ∧ cty = ccommentTypeQuoteII))
    (ds b : List Nat) (hds : ∀ d ∈ ds, isPureNumber d = true) (hb0 : ∀ x ∈ b, x ≠ 0) (hbok : BodyOK cty [Q'] b)
    (l : Lexer) (rest : List Nat) (h' : here l = cCharZHU :: (ds ++ cColon :: Q :: (b ++ Q' :: rest))) :
    dispatchToken l = (.ok { type := cTypeComment, startIdx := l.cursor, endIdx := l.cursor + (ds.length + b.length + 4) },
      grown l (ds.length + b.length + 4) ((lineStarts (l.cursor + (ds.length + 3)) b).map scannedLine)) := by
  obtain ⟨hc, hr⟩ := here_cons h'
  have hsk := skipDigits_run ds hds l _ hr (by show isPureNumber cColon = false; decide)
  have hhere1 : here (l.setCursor (l.cursor + 1 + ds.length)) = cColon :: Q :: (b ++ Q' :: rest) := by
    rw [Nat.add_assoc, here_setCursor, h', show 1 + ds.length = ds.length + 1 by omega, List.drop_succ_cons]
    exact List.drop_left' rfl
  obtain ⟨hcc, hrc⟩ := here_cons hhere1
  obtain ⟨hpk, hrc2⟩ := Lexer.rest_cons hrc
  have hmulti : MultiCty cty := by rcases hq with ⟨_, _, rfl⟩ | ⟨_, _, rfl⟩ <;> simp [MultiCty]
  have hQ' : isBreak Q' = false := by rcases hq with ⟨_, rfl, _⟩ | ⟨_, rfl, _⟩ <;> decide
  obtain ⟨l', a1, a2, a3, a4, ⟨a5, a6⟩, a7⟩ := cmt_multi_run l.cursor cty hmulti (Q' :: rest) hQ' b.length b rfl hb0
    (bodyOK_post (post := [Q']) (post' := Q' :: rest) rfl b hbok) (l.setCursor (l.cursor + 1 + ds.length)).adv 1 hrc2
  have q1 : l'.adv.cur = Q' := (Lexer.rest_cons a3).1
  have hstep : parseCommentStep l.cursor cty l' 1 =
      (.done { type := cTypeComment, startIdx := l.cursor, endIdx := l'.adv.adv.cursor }, l'.adv.adv) := by
    unfold parseCommentStep
    simp only [q1]
    rcases hq with ⟨_, rfl, rfl⟩ | ⟨_, rfl, rfl⟩ <;>
      simp [runeEOF, runeCR, runeLF, cLeftDoubleQuoteI, cLeftDoubleQuoteII,
        cRightDoubleQuoteI, cRightDoubleQuoteII, ccommentTypeQuoteI, ccommentTypeQuoteII]
  have hl' := grown_of (l := (l.setCursor (l.cursor + 1 + ds.length)).adv) a1 a2 a4 a5 a6
  have hcom : parseComment l = (some { type := cTypeComment, startIdx := l.cursor, endIdx := l'.adv.adv.cursor }, l'.adv.adv) := by
    unfold parseComment
    have b1 : (l.cur == cCharZHU) = true := by rw [hc]; decide
    simp only [b1, ↓reduceIte, hsk, hcc, beq_self_eq_true]
    unfold parseCommentLoop at a7
    rcases hq with ⟨rfl, rfl, rfl⟩ | ⟨rfl, rfl, rfl⟩
    · have e1 : ((l.setCursor (l.cursor + 1 + ds.length)).peek == cLeftDoubleQuoteI) = true := by rw [hpk]; decide
      simp only [e1, ↓reduceIte]
      unfold parseCommentLoop
      rw [a7, iterate_done hstep]
    · have e1 : ((l.setCursor (l.cursor + 1 + ds.length)).peek == cLeftDoubleQuoteI) = false := by rw [hpk]; decide
      have e2 : ((l.setCursor (l.cursor + 1 + ds.length)).peek == cLeftDoubleQuoteII) = true := by rw [hpk]; decide
      simp only [e1, e2, Bool.false_eq_true, ↓reduceIte]
      unfold parseCommentLoop
      rw [a7, iterate_done hstep]
  unfold dispatchToken
  have c1 : (l.cur == runeEOF) = false := by rw [hc]; decide
  have c2 : (l.cur == cCharZHU || l.cur == cSlashOp) = true := by rw [hc]; decide
  simp only [c1, c2, Bool.false_eq_true, ↓reduceIte, hcom]
  rw [hl']
  have e1 : l.cursor + 1 + ds.length + 1 + b.length + 1 + 1 = l.cursor + (ds.length + b.length + 4) := by omega
  have e2 : l.cursor + 1 + ds.length + 1 + 1 = l.cursor + (ds.length + 3) := by omega
  simp only [grown, Lexer.adv, Lexer.setCursor, e1, e2]

/-- **a comment that may span lines**: one comment token, one line per line break inside -/
theorem dispatch_mcmt (c : MCmt) (hw : c.WF) (l : Lexer) (rest : List Nat) (h : here l = c.pre ++ (c.body ++ (c.suf ++ rest))) :
    dispatchToken l = (.ok { type := cTypeComment, startIdx := l.cursor, endIdx := l.cursor + c.chars.length },
      grown l c.chars.length ((lineStarts (l.cursor + c.pre.length) c.body).map scannedLine)) := by
  obtain ⟨hb0, hbok, hds⟩ := hw
  cases c with
  | block b =>
    have := dispatch_mblock b hb0 hbok l rest (by simpa [MCmt.pre, MCmt.body, MCmt.suf] using h)
    have e : (MCmt.block b).chars.length = b.length + 4 := by simp [MCmt.chars, MCmt.pre, MCmt.body, MCmt.suf]
    rw [e]; exact this
  | quoted curly ds b =>
    cases curly with
    | false =>
      have := dispatch_mquoted cLeftDoubleQuoteI cRightDoubleQuoteI ccommentTypeQuoteI (Or.inl ⟨rfl, rfl, rfl⟩) ds b hds hb0 hbok
        l rest (by simpa [MCmt.pre, MCmt.body, MCmt.suf] using h)
      have e : (MCmt.quoted false ds b).chars.length = ds.length + b.length + 4 := by
        simp [MCmt.chars, MCmt.pre, MCmt.body, MCmt.suf]; omega
      have e2 : (MCmt.quoted false ds b).pre.length = ds.length + 3 := by simp [MCmt.pre]
      rw [e, e2]; exact this
    | true =>
      have := dispatch_mquoted cLeftDoubleQuoteII cRightDoubleQuoteII ccommentTypeQuoteII (Or.inr ⟨rfl, rfl, rfl⟩) ds b hds hb0 hbok
        l rest (by simpa [MCmt.pre, MCmt.body, MCmt.suf] using h)
      have e : (MCmt.quoted true ds b).chars.length = ds.length + b.length + 4 := by
        simp [MCmt.chars, MCmt.pre, MCmt.body, MCmt.suf]; omega
      have e2 : (MCmt.quoted true ds b).pre.length = ds.length + 3 := by simp [MCmt.pre]
      rw [e, e2]; exact this

/-- **a comment that may span lines, between two tokens** -/
theorem nextToken_mcmt (c : MCmt) (hw : c.WF) (src : Array Nat) (ity : Nat) (dn : List LineInfo) (s k pos : Nat)
    (rest : List Nat) (h : here (bst src ity dn s k pos) = c.pre ++ (c.body ++ (c.suf ++ rest))) :
    nextToken (bst src ity dn s k pos) =
      (.ok { type := cTypeComment, startIdx := pos, endIdx := pos + c.chars.length },
        bst src ity (dn ++ (litLines s k (lineStarts (pos + c.pre.length) c.body)).1)
          (litLines s k (lineStarts (pos + c.pre.length) c.body)).2.1
          (litLines s k (lineStarts (pos + c.pre.length) c.body)).2.2 (pos + c.chars.length)) := by
  have hsolid : Solid (c.pre.headD 0) := by
    cases c with
    | block b => show Solid cSlashOp; decide
    | quoted curly ds b => show Solid cCharZHU; decide
  have hcur : (bst src ity dn s k pos).cur = c.pre.headD 0 := by
    rw [here_headD h]
    cases c <;> rfl
  rw [nextToken_later _ rfl (by rw [hcur]; exact hsolid), dispatch_mcmt c hw _ rest h]
  congr 1
  have := litLines_spec s k (lineStarts (pos + c.pre.length) c.body)
  simp only [grown, bst, lx, List.append_toArray, Lexer.mk.injEq, true_and, and_true]
  rw [List.append_assoc, this, List.append_assoc]

end ZnVerif.Proofs.RenderLex
