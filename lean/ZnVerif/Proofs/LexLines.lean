/- Helper lemmas for the line-table theorem (C18, string scanner part). -/
import ZnVerif.Proofs.LexSegment

namespace ZnVerif.Model
open ZnVerif.Generated ZnVerif.Generated.Tokens
open Spec.Lines

theorem lineStarts_bound (pos : Nat) (t : List Nat) : ∀ x ∈ lineStarts pos t, pos < x ∧ x ≤ pos + t.length := by
  fun_induction lineStarts pos t
  · intro x hx; simp at hx
  · intro x hx; simp at hx; subst hx; simp
  · intro x hx; simp at hx
  · rename_i pos a b r h ih
    intro x hx
    rcases List.mem_cons.mp hx with e | e
    · subst e; simp
    · have := ih x e; simp; omega
  · rename_i pos a b r h1 h2 ih
    intro x hx
    rcases List.mem_cons.mp hx with e | e
    · subst e; simp
    · have := ih x e; simp at this ⊢; omega
  · rename_i pos a b r h1 h2 ih
    intro x hx
    have := ih x hx; simp at this ⊢; omega

theorem lineStarts_snoc_plain (pos : Nat) (t : List Nat) (c : Nat) (hc : isBreak c = false) :
    lineStarts pos (t ++ [c]) = lineStarts pos t := by
  fun_induction lineStarts pos t
  · simp [lineStarts, hc]
  · rename_i pos d h
    have : isPair d c = false := by
      simp only [isBreak, Bool.or_eq_false_iff, beq_eq_false_iff_ne] at hc
      simp [isPair, hc.1, hc.2]
    simp [lineStarts, this, h, hc]
  · rename_i pos d h
    have : isPair d c = false := by
      simp only [isBreak, Bool.or_eq_false_iff, beq_eq_false_iff_ne] at hc
      simp [isPair, hc.1, hc.2]
    simp [lineStarts, this, h, hc]
  · rename_i pos a b r h ih
    simp [lineStarts, h, ih]
  · rename_i pos a b r h1 h2 ih
    have e : a :: b :: r ++ [c] = a :: (b :: r ++ [c]) := rfl
    cases r with
    | nil => simp [lineStarts, h1, h2] at ih ⊢; exact ih
    | cons x r => simp [lineStarts, h1, h2] at ih ⊢; exact ih
  · rename_i pos a b r h1 h2 ih
    cases r with
    | nil => simp [lineStarts, h1, h2] at ih ⊢; exact ih
    | cons x r => simp [lineStarts, h1, h2] at ih ⊢; exact ih

theorem modify_startIdx (ls : Array LineInfo) (i : Nat) (f : LineInfo → LineInfo)
    (hfx : ∀ x, (f x).startIdx = x.startIdx) :
    (ls.modify i f).toList.map (·.startIdx) = ls.toList.map (·.startIdx) := by
  rw [Array.toList_modify]
  apply List.ext_getElem
  · simp
  · intro n h1 h2
    simp only [List.getElem_map, List.getElem_modify]
    split <;> simp [hfx]

/-- `parseEOF` when the last line starts at or before the cursor: the EOF token, and no start index changes -/
theorem parseEOF_ok (l : Lexer) (st : Nat) (h1 : lastLineStart l = some st) (h2 : st ≤ l.cursor)
    (h3 : l.cursor ≤ l.src.size) :
    ∃ l2, parseEOF l = (.ok (eofTok l.cursor), l2) ∧
      l2.lines.toList.map (·.startIdx) = l.lines.toList.map (·.startIdx) := by
  unfold parseEOF sliceLastLine
  rw [h1]
  have : (decide (st > l.cursor) || decide (l.cursor > l.src.size)) = false := by simp; omega
  simp only [this, Bool.false_eq_true, ↓reduceIte]
  exact ⟨_, rfl, modify_startIdx _ _ _ (fun _ => rfl)⟩

end ZnVerif.Model
