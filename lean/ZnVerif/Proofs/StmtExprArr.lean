/-
Token-level round trip with layout, part 2c: expressions — list and dictionary literals `【a b】`, `【k = v …】`, `【】`, `【=】`.
-/
import ZnVerif.Proofs.StmtExprMember
namespace ZnVerif.Proofs.StmtRT
open ZnVerif.Model ZnVerif.Model.Parser ZnVerif.Generated.Tokens ZnVerif.Generated.ParserTables
open ZnVerif.Spec.StmtSyntax
variable {Y : Layout} {v : Variant}

/-- what can follow an item / a key / a value inside `【 】`: `】`, `=`, or the first token of the next item -/
theorem follow_item {u : Token} (h : u.type = cTypeArrayQuoteR ∨ u.type = cTypeAssignMark ∨ u.type ∈ exprHeads) :
    u.type ≠ cTypeCommaSep ∧ u.type ∉ B1 false ∧ u.type ≠ cTypePauseCommaSep := by
  rcases h with h | h | h
  · rw [h]; decide
  · rw [h]; decide
  · have := exprHeads_spec _ h
    exact ⟨this.2.1, this.2.2.2.1, this.2.2.2.2.2.1⟩

/-- an inner expression `e` (where `=` does not assign) followed by the token `u` that stops it -/
theorem inner_item {e : Expr} {ts : List Token} (Ce : C1 v Y false e ts) (u : Token)
    (hu : u.type = cTypeArrayQuoteR ∨ u.type = cTypeAssignMark ∨ u.type ∈ exprHeads)
    (p1 : Option Token) (rest tb : List Token)
    (ho : Y.InOrder (ts ++ u :: rest)) (hg : Y.Glued (ts ++ u :: tb)) (m : Nat) (hm : 16 * ts.length + 16 ≤ m) :
    parse v (layoutOps Y) m (.expr false) (S Y p1 (ts ++ u :: rest) false) = .ok e (S Y ts.getLast? (u :: rest) false) := by
  obtain ⟨huc, hu1, hup⟩ := follow_item hu
  have hs : Stop Y (B1 false ++ FO e) ts (u :: rest) := ⟨huc, Or.inr (not_mem_BFO hu1 hup)⟩
  rw [c1_done Ce p1 (u :: rest) ho (glued_take ts hg) hs m hm]
  show Res.ok e (S Y ts.getLast? (u :: rest) (Y.jf ts.getLast? u)) = _
  rw [glued_joint ts hg]

theorem items_nil : CItems v Y [] [] := fun h => absurd rfl h

theorem items_cons {e : Expr} {te : List Token} {es : List Expr} {ts : List Token} (Fe : Facts Y te) (Ce : C1 v Y false e te)
    (Fs : ts ≠ [] → Facts Y ts) (hnil : ts = [] → es = []) (Cs : CItems v Y es ts) : CItems v Y (e :: es) (te ++ ts) := by
  intro _ p1 rb rest acc hrb ho hg n' hn
  obtain ⟨m, rfl⟩ : ∃ m, n' = m + 2 := ⟨n' - 2, by unfold fN at hn; omega⟩
  have hrc : rb.type ≠ cTypeCommaSep := by rw [hrb]; decide
  have hte : 0 < te.length := List.length_pos_iff.mpr Fe.ne
  unfold fN at hn
  cases ts with
  | nil =>
    simp only [List.length_append, List.length_nil] at hn
    have hes := hnil rfl
    subst hes
    have e0 : (te ++ []) ++ rb :: rest = te ++ rb :: rest := by simp
    rw [e0] at ho ⊢
    rw [List.append_nil] at hg
    show pArrayLoop (layoutOps Y) (m + 1) _ acc _ = _
    unfold pArrayLoop
    have hin := inner_item Ce rb (Or.inl hrb) p1 rest [] ho hg (m + 1) (by omega)
    rw [bind_ok hin, bind_ok (tryConsume_hit m _ _ rb rest (by simp [hrb]) hrc (inOrder_drop te ho))]
    rfl
  | cons u ts' =>
    simp only [List.length_append, List.length_cons] at hn
    have Fu := Fs (by simp)
    have hu : u.type ∈ exprHeads := Fu.first
    have e0 : (te ++ u :: ts') ++ rb :: rest = te ++ u :: (ts' ++ rb :: rest) := by simp
    have e1 : (te ++ u :: ts') ++ [rb] = te ++ u :: (ts' ++ [rb]) := by simp
    rw [e0] at ho ⊢
    rw [e1] at hg
    show pArrayLoop (layoutOps Y) (m + 1) _ acc _ = _
    unfold pArrayLoop
    have hin := inner_item Ce u (Or.inr (Or.inr hu)) p1 _ _ ho hg (m + 1) (by omega)
    have hsp := exprHeads_spec _ hu
    rw [bind_ok hin, bind_ok (tryConsume_miss (m + 1) _ _ (u :: (ts' ++ rb :: rest)) false (Or.inr (by
      show u.type ∉ _
      simp only [List.mem_cons, List.not_mem_nil, or_false]
      exact hsp.2.2.2.2.2.2.1)) hsp.2.1)]
    have hC := Cs (by simp) te.getLast? rb rest (acc ++ [e]) hrb (inOrder_drop te ho) (glued_drop te hg) (m + 1)
      (by unfold fN; simp only [List.length_cons]; omega)
    show parse v (layoutOps Y) (m + 1) (.arrayLoop (acc ++ [e])) (S Y te.getLast? ((u :: ts') ++ rb :: rest) false) = _
    rw [hC, List.append_assoc]
    rfl

theorem kvs_nil : CKvs v Y [] [] := by
  intro p1 rb rest acc hrb ho _ n' hn
  obtain ⟨m, rfl⟩ : ∃ m, n' = m + 2 := ⟨n' - 2, by unfold fN at hn; omega⟩
  have hrc : rb.type ≠ cTypeCommaSep := by rw [hrb]; decide
  have e0 : [] ++ rb :: rest = rb :: rest := rfl
  rw [e0] at ho ⊢
  show pHashLoop v (layoutOps Y) (m + 1) _ acc _ = _
  unfold pHashLoop
  rw [bind_ok (tryConsume_hit m _ _ rb rest (by simp [hrb]) hrc ho), List.append_nil]
  rfl

/-- the token after a value (or an item): the first token of what follows, `】` if nothing follows -/
theorem follow_cases (ts : List Token) (rb : Token) (rest : List Token) (Fs : ts ≠ [] → Facts Y ts)
    (hrb : rb.type = cTypeArrayQuoteR) :
    ∃ u r1 r2, ts ++ rb :: rest = u :: r1 ∧ ts ++ [rb] = u :: r2 ∧
      (u.type = cTypeArrayQuoteR ∨ u.type = cTypeAssignMark ∨ u.type ∈ exprHeads) := by
  cases ts with
  | nil => exact ⟨rb, rest, [], rfl, rfl, Or.inl hrb⟩
  | cons u ts' => exact ⟨u, ts' ++ rb :: rest, ts' ++ [rb], rfl, rfl, Or.inr (Or.inr (Fs (by simp)).first)⟩

theorem kvs_cons {eq : Token} {k : Expr} {tk : List Token} {vl : Expr} {tv : List Token} {kvs : List (Expr × Expr)}
    {ts : List Token} (heq : eq.type = cTypeAssignMark) (Fk : Facts Y tk) (Ck : C1 v Y false k tk) (Fv : Facts Y tv)
    (Cv : C1 v Y false vl tv) (Fs : ts ≠ [] → Facts Y ts) (Cs : CKvs v Y kvs ts) :
    CKvs v Y ((k, vl) :: kvs) (tk ++ eq :: tv ++ ts) := by
  intro p1 rb rest acc hrb ho hg n' hn
  obtain ⟨m, rfl⟩ : ∃ m, n' = m + 2 := ⟨n' - 2, by unfold fN at hn; omega⟩
  have hqc : eq.type ≠ cTypeCommaSep := by rw [heq]; decide
  have htk : 0 < tk.length := List.length_pos_iff.mpr Fk.ne
  unfold fN at hn
  simp only [List.length_append, List.length_cons] at hn
  have e0 : (tk ++ eq :: tv ++ ts) ++ rb :: rest = tk ++ eq :: (tv ++ (ts ++ rb :: rest)) := by simp
  have e1 : (tk ++ eq :: tv ++ ts) ++ [rb] = tk ++ eq :: (tv ++ (ts ++ [rb])) := by simp
  rw [e0] at ho ⊢
  rw [e1] at hg
  have hoq : Y.InOrder (eq :: (tv ++ (ts ++ rb :: rest))) := inOrder_drop tk ho
  have hgq : Y.Glued (eq :: (tv ++ (ts ++ [rb]))) := glued_drop tk hg
  have hpk : Y.peek (tk ++ eq :: (tv ++ (ts ++ rb :: rest))) = Y.peek tk := peek_append Fk.ne _
  have hsp := exprHeads_spec _ Fk.first
  show pHashLoop v (layoutOps Y) (m + 1) _ acc _ = _
  unfold pHashLoop
  rw [bind_ok (tryConsume_miss (m + 1) _ p1 _ false (Or.inr (by
    rw [hpk]
    simp only [List.mem_cons, List.not_mem_nil, or_false]
    exact hsp.2.2.2.2.2.2.1)) (by rw [hpk]; exact hsp.2.1))]
  dsimp only
  have hink := inner_item Ck eq (Or.inr (Or.inl heq)) p1 _ _ ho hg (m + 1) (by omega)
  rw [bind_ok hink, bind_ok (consume_hit m _ _ eq _ (by simp [heq]) hqc hoq)]
  have hb : Y.brk eq (Y.peek (tv ++ (ts ++ rb :: rest))) = false :=
    brk_mid Fv.ne (glued_take (eq :: tv) (b := ts ++ [rb]) hgq) _
  rw [hb]
  obtain ⟨u, r1, r2, h1, h2, hu⟩ := follow_cases ts rb rest Fs hrb
  have hov : Y.InOrder (tv ++ (ts ++ rb :: rest)) := inOrder_tail hoq
  have hgv : Y.Glued (tv ++ (ts ++ [rb])) := glued_tail hgq
  have hinv : parse v (layoutOps Y) (m + 1) (.expr false) (S Y (some eq) (tv ++ (ts ++ rb :: rest)) false) =
      .ok vl (S Y tv.getLast? (ts ++ rb :: rest) false) := by
    rw [h1] at hov ⊢
    rw [h2] at hgv
    exact inner_item Cv u hu (some eq) _ _ hov hgv (m + 1) (by omega)
  rw [bind_ok hinv, bind_ok (unsetFlag_S _ _ _)]
  have hC := Cs tv.getLast? rb rest (acc ++ [(k, vl)]) hrb (inOrder_drop tv hov) (glued_drop tv hgv) (m + 1)
    (by unfold fN; omega)
  show parse v (layoutOps Y) (m + 1) (.hashLoop (acc ++ [(k, vl)])) (S Y tv.getLast? (ts ++ rb :: rest) false) = _
  rw [hC, List.append_assoc]
  rfl

theorem arrL_not : ¬ cTypeArrayQuoteL = cTypeIdentifier ∧ ¬ cTypeArrayQuoteL = cTypeString := by decide

/-- `ParseBasicExpr` on a form that starts with `【`: `ParseArrayExpr` on what follows, the node on the line of the `【` -/
theorem basic_array (m : Nat) (p1 : Option Token) (l : Token) (r : List Token) (hl : l.type = cTypeArrayQuoteL)
    (ho : Y.InOrder (l :: r)) (hb : Y.brk l (Y.peek r) = false) (e : Expr) (st : PState (List Token))
    (h : parse v (layoutOps Y) (m + 1) .array (S Y (some l) r false) = .ok e st) :
    parse v (layoutOps Y) (m + 2) .basic (S Y p1 (l :: r) false) = .ok (e.setLine (Y.sl l)) st := by
  show pBasic v (layoutOps Y) (m + 1) _ _ = _
  unfold pBasic
  rw [bind_ok (tryConsume_hit m _ p1 l r (by rw [hl]; decide) (by rw [hl]; decide) ho), hb]
  simp only [hl, arrL_not.1, arrL_not.2, if_true, if_false]
  rw [bind_ok h, bind_ok (lineOf_S l _)]
  rfl

theorem case_arrEmpty (l r : Token) (hl : l.type = cTypeArrayQuoteL) (hr : r.type = cTypeArrayQuoteR) :
    C7 v Y (.arr (Y.sl l) []) [l, r] := by
  refine c7_of_basic_plain _ [l, r] (by simp) (by show l.type ∈ _; rw [hl]; decide) 3 (by unfold D; simp) ?_
  intro p1 rest ho hg n' hn
  obtain ⟨m, rfl⟩ : ∃ m, n' = m + 3 := ⟨n' - 3, by omega⟩
  have e0 : [l, r] ++ rest = l :: r :: rest := rfl
  rw [e0] at ho ⊢
  have hrc : r.type ≠ cTypeCommaSep := by rw [hr]; decide
  refine basic_array (m + 1) p1 l _ hl ho (glued_head hg) (.arr (Y.sl r) []) _ ?_
  show pArray v (layoutOps Y) (m + 1) _ _ = _
  unfold pArray
  rw [bind_ok (tryConsume_hit m _ _ r rest (by rw [hr]; decide) hrc (inOrder_tail ho))]
  simp only [hr, if_true]
  rfl

theorem assign_not : ¬ cTypeAssignMark = cTypeArrayQuoteR := by decide

theorem case_hmEmpty (l eq r : Token) (hl : l.type = cTypeArrayQuoteL) (heq : eq.type = cTypeAssignMark)
    (hr : r.type = cTypeArrayQuoteR) : C7 v Y (.hm (Y.sl l) []) [l, eq, r] := by
  refine c7_of_basic_plain _ [l, eq, r] (by simp) (by show l.type ∈ _; rw [hl]; decide) 3 (by unfold D; simp) ?_
  intro p1 rest ho hg n' hn
  obtain ⟨m, rfl⟩ : ∃ m, n' = m + 3 := ⟨n' - 3, by omega⟩
  have e0 : [l, eq, r] ++ rest = l :: eq :: r :: rest := rfl
  rw [e0] at ho ⊢
  have hrc : r.type ≠ cTypeCommaSep := by rw [hr]; decide
  have hqc : eq.type ≠ cTypeCommaSep := by rw [heq]; decide
  refine basic_array (m + 1) p1 l _ hl ho (glued_head hg) (.hm (Y.sl eq) []) _ ?_
  show pArray v (layoutOps Y) (m + 1) _ _ = _
  unfold pArray
  have hb : Y.brk eq (Y.peek (r :: rest)) = false := glued_head (glued_tail hg)
  rw [bind_ok (tryConsume_hit m _ _ eq _ (by rw [heq]; decide) hqc (inOrder_tail ho)), hb]
  simp only [heq, assign_not, if_true, if_false]
  rw [bind_ok (consume_hit m _ _ r rest (by simp [hr]) hrc (inOrder_tail (inOrder_tail ho)))]
  rfl

/-- `ParseArrayExpr` when the first token after `【` starts an expression: no empty literal -/
theorem array_nonEmpty (m : Nat) (p1 : Option Token) (ts : List Token) (hf : (Y.peek ts).type ∈ exprHeads) :
    parse v (layoutOps Y) (m + 1) .array (S Y p1 ts false) =
      pArrayNonEmpty (layoutOps Y) m (parse v (layoutOps Y) m) (S Y p1 ts false) := by
  have hsp := exprHeads_spec _ hf
  show pArray v (layoutOps Y) m _ _ = _
  unfold pArray
  rw [bind_ok (tryConsume_miss m _ p1 ts false (Or.inr (by
    show (Y.peek ts).type ∉ [cTypeArrayQuoteR, cTypeAssignMark]
    simp only [List.mem_cons, List.not_mem_nil, or_false, not_or]
    exact ⟨hsp.2.2.2.2.2.2.1, hsp.2.2.2.2.2.2.2.1⟩)) hsp.2.1)]

theorem case_arr (l r : Token) (e1 : Expr) (t1 : List Token) (es : List Expr) (ts : List Token) (hl : l.type = cTypeArrayQuoteL)
    (hr : r.type = cTypeArrayQuoteR) (F1 : Facts Y t1) (C : C1 v Y false e1 t1) (Fs : ts ≠ [] → Facts Y ts)
    (hnil : ts = [] → es = []) (Cs : CItems v Y es ts) : C7 v Y (.arr (Y.sl l) (e1 :: es)) (l :: t1 ++ ts ++ [r]) := by
  refine c7_of_basic_plain _ _ (by simp) (by show l.type ∈ _; rw [hl]; decide) (16 * t1.length + 16 * ts.length + 32)
    (by unfold D; simp only [List.length_append, List.length_cons, List.length_nil]; omega) ?_
  intro p1 rest ho hg n' hn
  obtain ⟨m, rfl⟩ : ∃ m, n' = m + 3 := ⟨n' - 3, by omega⟩
  have hrc : r.type ≠ cTypeCommaSep := by rw [hr]; decide
  have hfin : Send Y (l :: t1 ++ ts ++ [r]) rest = Send Y [r] rest := Send_append _ (by simp) rest
  rw [hfin]
  have e0 : (l :: t1 ++ ts ++ [r]) ++ rest = l :: (t1 ++ (ts ++ r :: rest)) := by simp
  have eg : l :: t1 ++ ts ++ [r] = l :: (t1 ++ (ts ++ [r])) := by simp
  rw [e0] at ho ⊢
  rw [eg] at hg
  have hb : Y.brk l (Y.peek (t1 ++ (ts ++ r :: rest))) = false := brk_mid F1.ne (glued_take (l :: t1) (b := ts ++ [r]) hg) _
  have hoi : Y.InOrder (t1 ++ (ts ++ r :: rest)) := inOrder_tail ho
  have hgi : Y.Glued (t1 ++ (ts ++ [r])) := glued_tail hg
  refine basic_array (m + 1) p1 l _ hl ho hb (.arr 0 (e1 :: es)) _ ?_
  rw [array_nonEmpty (m + 1) _ _ (by rw [peek_append F1.ne]; exact F1.first)]
  unfold pArrayNonEmpty
  cases ts with
  | nil =>
    have hes := hnil rfl
    subst hes
    have e2 : t1 ++ ([] ++ r :: rest) = t1 ++ r :: rest := rfl
    have e3 : t1 ++ ([] ++ [r]) = t1 ++ [r] := rfl
    rw [e2] at hoi ⊢
    rw [e3] at hgi
    have hin := inner_item C r (Or.inl hr) (some l) rest [] hoi hgi (m + 1) (by omega)
    rw [bind_ok hin, bind_ok (tryConsume_hit m _ _ r rest (by simp [hr]) hrc (inOrder_drop t1 hoi))]
    simp only [hr, if_true]
    rfl
  | cons u ts' =>
    simp only [List.length_cons] at hn
    have hu : u.type ∈ exprHeads := (Fs (by simp)).first
    have hsp := exprHeads_spec _ hu
    have e2 : t1 ++ ((u :: ts') ++ r :: rest) = t1 ++ u :: (ts' ++ r :: rest) := rfl
    have e3 : t1 ++ ((u :: ts') ++ [r]) = t1 ++ u :: (ts' ++ [r]) := rfl
    rw [e2] at hoi ⊢
    rw [e3] at hgi
    have hin := inner_item C u (Or.inr (Or.inr hu)) (some l) _ _ hoi hgi (m + 1) (by omega)
    rw [bind_ok hin, bind_ok (tryConsume_miss (m + 1) _ _ (u :: (ts' ++ r :: rest)) false (Or.inr (by
      show u.type ∉ _
      simp only [List.mem_cons, List.not_mem_nil, or_false, not_or]
      exact ⟨hsp.2.2.2.2.2.2.2.1, hsp.2.2.2.2.2.2.1⟩)) hsp.2.1)]
    exact Cs (by simp) t1.getLast? r rest [e1] hr (inOrder_drop t1 hoi) (glued_drop t1 hgi) (m + 1)
      (by unfold fN; simp only [List.length_cons]; omega)

theorem case_hm (l eq r : Token) (k : Expr) (tk : List Token) (vl : Expr) (tv : List Token) (kvs : List (Expr × Expr))
    (ts : List Token) (hl : l.type = cTypeArrayQuoteL) (heq : eq.type = cTypeAssignMark) (hr : r.type = cTypeArrayQuoteR)
    (Fk : Facts Y tk) (Ck : C1 v Y false k tk) (Fv : Facts Y tv) (Cv : C1 v Y false vl tv) (Fs : ts ≠ [] → Facts Y ts)
    (Cs : CKvs v Y kvs ts) : C7 v Y (.hm (Y.sl l) ((k, vl) :: kvs)) (l :: tk ++ eq :: tv ++ ts ++ [r]) := by
  refine c7_of_basic_plain _ _ (by simp) (by show l.type ∈ _; rw [hl]; decide)
    (16 * tk.length + 16 * tv.length + 16 * ts.length + 48)
    (by unfold D; simp only [List.length_append, List.length_cons, List.length_nil]; omega) ?_
  intro p1 rest ho hg n' hn
  obtain ⟨m, rfl⟩ : ∃ m, n' = m + 3 := ⟨n' - 3, by omega⟩
  have hqc : eq.type ≠ cTypeCommaSep := by rw [heq]; decide
  have hfin : Send Y (l :: tk ++ eq :: tv ++ ts ++ [r]) rest = Send Y [r] rest := Send_append _ (by simp) rest
  rw [hfin]
  have e0 : (l :: tk ++ eq :: tv ++ ts ++ [r]) ++ rest = l :: (tk ++ eq :: (tv ++ (ts ++ r :: rest))) := by simp
  have eg : l :: tk ++ eq :: tv ++ ts ++ [r] = l :: (tk ++ eq :: (tv ++ (ts ++ [r]))) := by simp
  rw [e0] at ho ⊢
  rw [eg] at hg
  have hb : Y.brk l (Y.peek (tk ++ eq :: (tv ++ (ts ++ r :: rest)))) = false :=
    brk_mid Fk.ne (glued_take (l :: tk) (b := eq :: (tv ++ (ts ++ [r]))) hg) _
  have hoi : Y.InOrder (tk ++ eq :: (tv ++ (ts ++ r :: rest))) := inOrder_tail ho
  have hgi : Y.Glued (tk ++ eq :: (tv ++ (ts ++ [r]))) := glued_tail hg
  have hoq : Y.InOrder (eq :: (tv ++ (ts ++ r :: rest))) := inOrder_drop tk hoi
  have hgq : Y.Glued (eq :: (tv ++ (ts ++ [r]))) := glued_drop tk hgi
  refine basic_array (m + 1) p1 l _ hl ho hb (.hm 0 ((k, vl) :: kvs)) _ ?_
  rw [array_nonEmpty (m + 1) _ _ (by rw [peek_append Fk.ne]; exact Fk.first)]
  unfold pArrayNonEmpty
  have hink := inner_item Ck eq (Or.inr (Or.inl heq)) (some l) _ _ hoi hgi (m + 1) (by omega)
  rw [bind_ok hink, bind_ok (tryConsume_hit m _ _ eq _ (by simp [heq]) hqc hoq)]
  have hbq : Y.brk eq (Y.peek (tv ++ (ts ++ r :: rest))) = false :=
    brk_mid Fv.ne (glued_take (eq :: tv) (b := ts ++ [r]) hgq) _
  rw [hbq]
  simp only [heq, assign_not, if_true, if_false]
  obtain ⟨u, r1, r2, h1, h2, hu⟩ := follow_cases ts r rest Fs hr
  have hov : Y.InOrder (tv ++ (ts ++ r :: rest)) := inOrder_tail hoq
  have hgv : Y.Glued (tv ++ (ts ++ [r])) := glued_tail hgq
  have hinv : parse v (layoutOps Y) (m + 1) (.expr false) (S Y (some eq) (tv ++ (ts ++ r :: rest)) false) =
      .ok vl (S Y tv.getLast? (ts ++ r :: rest) false) := by
    rw [h1] at hov ⊢
    rw [h2] at hgv
    exact inner_item Cv u hu (some eq) _ _ hov hgv (m + 1) (by omega)
  rw [bind_ok hinv, bind_ok (unsetFlag_S _ _ _)]
  exact Cs tv.getLast? r rest [(k, vl)] hr (inOrder_drop tv hov) (glued_drop tv hgv) (m + 1) (by unfold fN; omega)

-- ---- the side condition of `items_cons` / `case_arr`, from the rendering relation ----------------------------------------

/-- an expression owns at least one token; no tokens for the further items of a list means there are none -/
theorem linX_shape {cfg : Bool} {k : Nat} {nd : ENode} {ts : List Token} (h : LinX Y cfg k nd ts) :
    match nd with
    | .expr _ => ts ≠ []
    | .items es => ts = [] → es = []
    | _ => True := by
  induction h <;> simp_all

theorem linX_expr_ne {cfg : Bool} {k : Nat} {e : Expr} {ts : List Token} (h : LinX Y cfg k (.expr e) ts) : ts ≠ [] :=
  linX_shape h

theorem linX_items_nil {cfg : Bool} {k : Nat} {es : List Expr} {ts : List Token} (h : LinX Y cfg k (.items es) ts) :
    ts = [] → es = [] := linX_shape h

end ZnVerif.Proofs.StmtRT
