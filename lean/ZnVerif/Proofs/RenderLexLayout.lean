/-
C03 at character level, lexer side, shared pieces: the lexer by its fields with the line table as a list (`lx`), the lexer between two
tokens (`bst src ity dn s k pos`: the lines `dn` are behind, the current line starts at `s` with indentation `k` and its `LineText` is
still nil, the cursor is at `pos`), and small facts about `lastLineStart`, `parseLine`, `parseEOF`.
(What `PreNextToken` does on blanks and line breaks: Proofs/RenderGapLayout.lean.)
-/
import ZnVerif.Proofs.RenderLexItems

namespace ZnVerif.Proofs.RenderLex
open ZnVerif.Model ZnVerif.Generated ZnVerif.Generated.Tokens
open ZnVerif.Spec ZnVerif.Spec.RenderChars

/-- a line whose `LineText` is not yet set -/
def openLine (s k : Nat) : LineInfo := { indents := k, startIdx := s }

/-- a lexer by its fields, the line table as a list -/
def lx (src : Array Nat) (ity : Nat) (lines : List LineInfo) (pos : Nat) (bl : Bool) : Lexer :=
  { src := src, indentType := ity, lines := lines.toArray, cursor := pos, beginLex := bl }

/-- the lexer between two tokens -/
def bst (src : Array Nat) (ity : Nat) (dn : List LineInfo) (s k pos : Nat) : Lexer :=
  lx src ity (dn ++ [openLine s k]) pos false


theorem here_headD {l : Lexer} {tl : List Nat} (h : here l = tl) : l.cur = tl.headD 0 := by
  cases tl with
  | nil => exact (here_nil h).1
  | cons c r => exact (here_cons h).1

theorem rest_headD {l : Lexer} {tl : List Nat} (h : l.rest = tl) : l.peek = tl.headD 0 := by
  rw [Lexer.peek_eq_head, h]
  cases tl <;> rfl

theorem modify_last {α : Type} (xs : List α) (c : α) (f : α → α) : (xs ++ [c]).modify xs.length f = xs ++ [f c] := by
  induction xs with
  | nil => rfl
  | cons x xs ih => simp [ih]

theorem lastLineStart_lx (src : Array Nat) (ity : Nat) (dn : List LineInfo) (c : LineInfo) (pos : Nat) (bl : Bool) :
    lastLineStart (lx src ity (dn ++ [c]) pos bl) =
      some (if ity == cIndentSpace then c.startIdx + 4 * c.indents
        else if ity == cIndentTab then c.startIdx + c.indents else c.startIdx) := by
  unfold lastLineStart lx
  simp

theorem parseLine_once (ch : Nat) (l l' : Lexer) (h : parseLineBody ch true l = (.ok (), l'))
    (hc : (l'.cur == runeCR || l'.cur == runeLF) = false) : parseLine ch true l = (.ok (), l') := by
  unfold parseLine
  apply iterate_done
  unfold parseLineStep
  rw [h]
  simp only [hc, Bool.false_eq_true, ↓reduceIte]

theorem solid_zero : Solid 0 ∧ (0 : Nat) ≠ runeTAB := ⟨⟨by decide, by decide, by decide⟩, by decide⟩

theorem dispatch_eof (l : Lexer) (h : here l = []) : dispatchToken l = parseEOF l := by
  obtain ⟨h1, h2⟩ := here_nil h
  unfold dispatchToken
  have : ¬ l.cursor < l.src.size := by omega
  simp [h1, runeEOF, this]

end ZnVerif.Proofs.RenderLex
