/-
C03 at character level, lexer part 2: what `PreNextToken` does between the tokens of a canonical rendering.

`bst src ity dn s k pos` is the lexer between two tokens: the lines `dn` are complete (their `LineText` is set), the current line
starts at `s` with indentation `k` (its `LineText` still nil), the cursor is at `pos`.

 * `nextToken_space`  — cursor on the space between two tokens of a line: the space is skipped, the next item's token is answered;
 * `skipBlank_break`  — cursor on the line feed that ends a line: `parseLine` slices the line just left, appends the next line with
                        the number of TABs it starts with (setting `IndentType` to TAB at the first indented line), stops on the first
                        character after the TABs;
 * `nextToken_break`, `nextToken_eof`, `nextToken_eof_again`, `nextToken_first` — the four places a token is read from.
-/
import ZnVerif.Proofs.RenderLexItems

namespace ZnVerif.Proofs.RenderLex
open ZnVerif.Model ZnVerif.Generated ZnVerif.Generated.Tokens
open ZnVerif.Spec ZnVerif.Spec.RenderChars

/-- a line whose `LineText` is not yet set -/
def openLine (s k : Nat) : LineInfo := { indents := k, startIdx := s }

/-- a lexer by its fields, the line table as a list -/
def lx (src : Array Nat) (ity : Nat) (lines : List LineInfo) (pos : Nat) (bl : Bool) : Lexer :=
  { src := src, indentType := ity, lines := lines.toArray, cursor := pos, beginLex := bl }

/-- the lexer between two tokens -/
def bst (src : Array Nat) (ity : Nat) (dn : List LineInfo) (s k pos : Nat) : Lexer :=
  lx src ity (dn ++ [openLine s k]) pos false

/-- the lexer after the EOF token: every line complete, the last one empty -/
def fst (src : Array Nat) (ity : Nat) (dn : List LineInfo) (pos : Nat) : Lexer :=
  lx src ity (dn ++ [closedLine pos 0 pos]) pos false

theorem here_headD {l : Lexer} {tl : List Nat} (h : here l = tl) : l.cur = tl.headD 0 := by
  cases tl with
  | nil => exact (here_nil h).1
  | cons c r => exact (here_cons h).1

theorem rest_headD {l : Lexer} {tl : List Nat} (h : l.rest = tl) : l.peek = tl.headD 0 := by
  rw [Lexer.peek_eq_head, h]
  cases tl <;> rfl

theorem modify_last {α : Type} (xs : List α) (c : α) (f : α → α) : (xs ++ [c]).modify xs.length f = xs ++ [f c] := by
  induction xs with
  | nil => rfl
  | cons x xs ih => simp [ih]

/-! ### spaces -/

theorem parseSpaces_one (l : Lexer) (h1 : isWhiteSpace l.cur = true) (h2 : isWhiteSpace l.adv.cur = false) :
    parseSpaces l = l.adv := by
  rw [parseSpaces]
  simp only [h1, ↓reduceDIte]
  rw [parseSpaces]
  simp [h2]

theorem skipBlank_space (l : Lexer) (c : Nat) (r : List Nat) (h : here l = runeSP :: c :: r) (hc : Solid c) :
    skipBlank l = (.ok (), l.adv) := by
  obtain ⟨h1, h2⟩ := here_cons h
  have h3 : l.adv.cur = c := (Lexer.rest_cons h2).1
  unfold skipBlank
  have hstep : skipBlankStep l () = (.cont (), l.adv) := by
    unfold skipBlankStep
    have a1 : isWhiteSpace l.cur = true := by rw [h1]; decide
    simp only [a1, ↓reduceIte]
    rw [parseSpaces_one l a1 (by rw [h3]; exact hc.1)]
  rw [iterate_cont hstep]
  exact skipBlank_solid l.adv (by rw [h3]; exact hc)

/-- **a token after a space** -/
theorem nextToken_space (it : Item) (hw : it.WF) (l : Lexer) (hb : l.beginLex = false) (d : Nat) (r : List Nat)
    (hd : d = runeSP ∨ (d = runeLF ∧ it.tight = false)) (h : here l = runeSP :: (it.spelling ++ d :: r)) :
    nextToken l = (.ok (it.token (l.cursor + 1)), l.setCursor (l.cursor + 1 + it.spelling.length)) := by
  obtain ⟨c, sp, hsp, hsolid, _, _⟩ := spelling_head it hw
  have h' : here l = runeSP :: c :: (sp ++ d :: r) := by rw [h, hsp]; simp
  have hs := skipBlank_space l c _ h' hsolid
  unfold nextToken preNextToken
  simp only [hb, Bool.false_eq_true, ↓reduceIte, hs]
  have hh : here l.adv = it.spelling ++ d :: r := by
    rw [here_adv]; exact (here_cons h).2
  rw [dispatch_item it hw l.adv d r hd hh]
  rfl

/-! ### line breaks -/

theorem countSame_tabs (j : Nat) : ∀ (l : Lexer) (n : Nat) (tl : List Nat), l.rest = List.replicate j runeTAB ++ tl →
    tl.headD 0 ≠ runeTAB → countSame runeTAB l n = (l.setCursor (l.cursor + 1 + j), n + j) := by
  induction j with
  | zero =>
    intro l n tl h ht
    have hp : l.adv.cur = tl.headD 0 := rest_headD (by simpa using h)
    rw [countSame]
    have : (l.adv.cur == runeTAB && l.adv.cur != 0) = false := by
      rw [hp]
      have : (tl.headD 0 == runeTAB) = false := by simpa using ht
      rw [this]; rfl
    simp only [this, Bool.false_eq_true, ↓reduceDIte]
    rfl
  | succ j ih =>
    intro l n tl h ht
    have h' : l.rest = runeTAB :: (List.replicate j runeTAB ++ tl) := by simpa [List.replicate_succ] using h
    obtain ⟨hp, hr⟩ := Lexer.rest_cons h'
    have hcur : l.adv.cur = runeTAB := hp
    rw [countSame]
    have : (l.adv.cur == runeTAB && l.adv.cur != 0) = true := by rw [hcur]; decide
    simp only [this, ↓reduceDIte]
    rw [ih l.adv (n + 1) tl hr ht]
    simp [Lexer.setCursor, Lexer.adv]
    omega

/-- the indent type after a line with `k` TABs -/
def ityAfter (ity k : Nat) : Nat := if k = 0 then ity else cIndentTab

/-- `IndentType` is TAB, or still unknown and no line so far is indented -/
def ItyOK (ity k : Nat) : Prop := ity = cIndentTab ∨ (ity = cIndentUnknown ∧ k = 0)

theorem ItyOK.after {ity k : Nat} (h : ItyOK ity k) (k' : Nat) : ItyOK (ityAfter ity k') k' := by
  unfold ityAfter
  by_cases hk : k' = 0
  · simp only [hk, ↓reduceIte]
    rcases h with h | ⟨h, _⟩
    · exact Or.inl h
    · exact Or.inr ⟨h, rfl⟩
  · simp only [hk, ↓reduceIte]; exact Or.inl rfl

theorem ItyOK.cases {ity k : Nat} (h : ItyOK ity k) : ity = cIndentTab ∨ ity = cIndentUnknown := h.imp id (·.1)

/-- `setIndentType` after the TABs (or none) of a new line -/
theorem setIndentType_tabs (l : Lexer) (k c : Nat) (hity : l.indentType = cIndentTab ∨ l.indentType = cIndentUnknown)
    (hc : c ≠ runeTAB ∧ c ≠ runeSP) :
    setIndentType l k (if k = 0 then c else runeTAB) = (.ok k, { l with indentType := ityAfter l.indentType k }) := by
  obtain ⟨src, ity, lines, cursor, bl⟩ := l
  dsimp only at hity
  by_cases hk : k = 0
  · subst hk
    have hkind : indentKind c = cIndentUnknown := by
      unfold indentKind
      have a1 : (c == runeTAB) = false := by simpa using hc.1
      have a2 : (c == runeSP) = false := by simpa using hc.2
      simp [a1, a2]
    unfold setIndentType setIndentTypeLexer
    simp only [↓reduceIte, hkind, ityAfter]
    rcases hity with h | h <;> subst h <;> simp [cIndentUnknown, cIndentTab, cIndentSpace]
  · have hkind : indentKind runeTAB = cIndentTab := by decide
    unfold setIndentType setIndentTypeLexer
    simp only [hk, ↓reduceIte, hkind, ityAfter]
    rcases hity with h | h <;> subst h <;> simp [cIndentUnknown, cIndentTab, cIndentSpace]

theorem lastLineStart_lx (src : Array Nat) (ity : Nat) (dn : List LineInfo) (c : LineInfo) (pos : Nat) (bl : Bool) :
    lastLineStart (lx src ity (dn ++ [c]) pos bl) =
      some (if ity == cIndentSpace then c.startIdx + 4 * c.indents
        else if ity == cIndentTab then c.startIdx + c.indents else c.startIdx) := by
  unfold lastLineStart lx
  simp

theorem sliceLastLine_bst (src : Array Nat) (ity : Nat) (dn : List LineInfo) (s k pos e : Nat) (bl : Bool)
    (hity : ItyOK ity k) (h1 : s + k ≤ e) (h2 : e ≤ src.size) :
    sliceLastLine (lx src ity (dn ++ [openLine s k]) pos bl) e = some (lx src ity (dn ++ [closedLine s k e]) pos bl) := by
  have hstart : lastLineStart (lx src ity (dn ++ [openLine s k]) pos bl) = some (s + k) := by
    rw [lastLineStart_lx]
    rcases hity with h | ⟨h, hk⟩
    · subst h; simp [cIndentTab, cIndentSpace, openLine]
    · subst h; subst hk; simp [cIndentUnknown, cIndentTab, cIndentSpace, openLine]
  unfold sliceLastLine
  rw [hstart]
  have hcond : (decide (s + k > e) || decide (e > (lx src ity (dn ++ [openLine s k]) pos bl).src.size)) = false := by
    simp [lx]; omega
  simp only [hcond, Bool.false_eq_true, ↓reduceIte]
  simp only [lx, List.size_toArray, List.length_append, List.length_cons, List.length_nil, Nat.zero_add,
    Nat.add_one_sub_one, List.modify_toArray, modify_last, openLine, closedLine]

theorem parseLineBody_eq (ch : Nat) (l l3 r1 r2 : Lexer) (n' n : Nat)
    (hpair : ((ch == runeCR && l.adv.cur == runeLF) || (ch == runeLF && l.adv.cur == runeCR)) = false)
    (hslice : sliceLastLine l.adv l.cursor = some l3)
    (hcount : (if l.adv.cur == runeSP || l.adv.cur == runeTAB
        then countSame l.adv.cur (l3.pushLine { indents := 0, startIdx := l3.cursor }) 1
        else (l3.pushLine { indents := 0, startIdx := l3.cursor }, 0)) = (r1, n'))
    (hset : setIndentType r1 n' l.adv.cur = (.ok n, r2)) :
    parseLineBody ch true l = (.ok (), setLastIndents r2 n) := by
  unfold parseLineBody
  simp only [hpair, Bool.false_eq_true, ↓reduceIte, hslice, hcount, hset]

theorem parseLine_once (ch : Nat) (l l' : Lexer) (h : parseLineBody ch true l = (.ok (), l'))
    (hc : (l'.cur == runeCR || l'.cur == runeLF) = false) : parseLine ch true l = (.ok (), l') := by
  unfold parseLine
  apply iterate_done
  unfold parseLineStep
  rw [h]
  simp only [hc, Bool.false_eq_true, ↓reduceIte]

theorem skipBlank_line (l l' : Lexer) (hcur : l.cur = runeLF) (h : parseLine runeLF true l = (.ok (), l')) (hs : Solid l'.cur) :
    skipBlank l = (.ok (), l') := by
  unfold skipBlank
  have hstep : skipBlankStep l () = (.cont (), l') := by
    unfold skipBlankStep
    rw [hcur]
    have a1 : isWhiteSpace runeLF = false := by decide
    have a2 : (runeLF == runeCR || runeLF == runeLF) = true := by decide
    simp only [a1, a2, Bool.false_eq_true, ↓reduceIte, h]
  rw [iterate_cont hstep]
  exact skipBlank_solid _ hs

/-- the new line's indentation: the TABs are counted (none: nothing is consumed) -/
theorem count_tabs (l : Lexer) (k' : Nat) (tl : List Nat) (h : here l = List.replicate k' runeTAB ++ tl)
    (htl : tl.headD 0 ≠ runeTAB ∧ tl.headD 0 ≠ runeSP) :
    (if l.cur == runeSP || l.cur == runeTAB then countSame l.cur l 1 else (l, 0)) = (l.setCursor (l.cursor + k'), k') := by
  cases k' with
  | zero =>
    have hc : l.cur = tl.headD 0 := here_headD (by simpa using h)
    have : (l.cur == runeSP || l.cur == runeTAB) = false := by
      rw [hc]
      generalize tl.headD 0 = x at htl
      simp [htl.1, htl.2]
    simp only [this, Bool.false_eq_true, ↓reduceIte]
    rfl
  | succ j =>
    have h' : here l = runeTAB :: (List.replicate j runeTAB ++ tl) := by simpa [List.replicate_succ] using h
    obtain ⟨hc, hr⟩ := here_cons h'
    rw [hc]
    have : (runeTAB == runeSP || runeTAB == runeTAB) = true := by decide
    simp only [this, ↓reduceIte]
    rw [countSame_tabs j l 1 tl hr htl.1]
    congr 1
    · apply setCursor_congr; omega
    · omega

/-- **the line feed that ends a line** -/
theorem skipBlank_break (src : Array Nat) (ity : Nat) (dn : List LineInfo) (s k pos k' : Nat) (tl : List Nat)
    (hity : ItyOK ity k) (hpos : s + k ≤ pos)
    (h : here (bst src ity dn s k pos) = runeLF :: (List.replicate k' runeTAB ++ tl))
    (htl : Solid (tl.headD 0) ∧ tl.headD 0 ≠ runeTAB) :
    skipBlank (bst src ity dn s k pos) =
      (.ok (), bst src (ityAfter ity k') (dn ++ [closedLine s k pos]) (pos + 1) k' (pos + 1 + k')) := by
  have hsp : tl.headD 0 ≠ runeSP := by intro e; have := htl.1.1; rw [e] at this; revert this; decide
  obtain ⟨hcur, hrest⟩ := here_cons h
  have hsize : pos < src.size := by
    have : (here (bst src ity dn s k pos)).length ≠ 0 := by rw [h]; simp
    simp [here, bst, lx] at this; omega
  -- the first character of the next line
  have hchn : (bst src ity dn s k pos).adv.cur = (if k' = 0 then tl.headD 0 else runeTAB) := by
    show (bst src ity dn s k pos).peek = _
    rw [rest_headD hrest]
    cases k' with
    | zero => simp
    | succ j => simp [List.replicate_succ]
  have hchn_ne : (if k' = 0 then tl.headD 0 else runeTAB) ≠ runeCR ∧ (if k' = 0 then tl.headD 0 else runeTAB) ≠ runeLF := by
    by_cases hk : k' = 0
    · simp only [hk, ↓reduceIte]; exact ⟨htl.1.2.1, htl.1.2.2⟩
    · simp only [hk, ↓reduceIte]; exact ⟨by decide, by decide⟩
  have hpair : ((runeLF == runeCR && (bst src ity dn s k pos).adv.cur == runeLF) ||
      (runeLF == runeLF && (bst src ity dn s k pos).adv.cur == runeCR)) = false := by
    rw [hchn]
    generalize (if k' = 0 then tl.headD 0 else runeTAB) = x at hchn_ne
    have a : (x == runeCR) = false := by simpa using hchn_ne.1
    rw [a]
    cases (x == runeLF) <;> rfl
  have hslice : sliceLastLine (bst src ity dn s k pos).adv (bst src ity dn s k pos).cursor =
      some (lx src ity (dn ++ [closedLine s k pos]) (pos + 1) false) :=
    sliceLastLine_bst src ity dn s k (pos + 1) pos false hity hpos (by omega)
  -- the lexer with the new line appended, on the first character of that line
  have hl4 : ((lx src ity (dn ++ [closedLine s k pos]) (pos + 1) false).pushLine
      { indents := 0, startIdx := (lx src ity (dn ++ [closedLine s k pos]) (pos + 1) false).cursor }) =
      bst src ity (dn ++ [closedLine s k pos]) (pos + 1) 0 (pos + 1) := by
    simp [Lexer.pushLine, bst, lx, openLine]
  have hl4here : here (bst src ity (dn ++ [closedLine s k pos]) (pos + 1) 0 (pos + 1)) = List.replicate k' runeTAB ++ tl := hrest
  have hl4cur : (bst src ity (dn ++ [closedLine s k pos]) (pos + 1) 0 (pos + 1)).cur = (bst src ity dn s k pos).adv.cur := rfl
  have hcount := count_tabs _ k' tl hl4here ⟨htl.2, hsp⟩
  rw [hl4cur] at hcount
  have hr1 : (bst src ity (dn ++ [closedLine s k pos]) (pos + 1) 0 (pos + 1)).setCursor
      ((bst src ity (dn ++ [closedLine s k pos]) (pos + 1) 0 (pos + 1)).cursor + k') =
      bst src ity (dn ++ [closedLine s k pos]) (pos + 1) 0 (pos + 1 + k') := rfl
  rw [hr1] at hcount
  have hset := setIndentType_tabs (bst src ity (dn ++ [closedLine s k pos]) (pos + 1) 0 (pos + 1 + k')) k' (tl.headD 0)
    hity.cases ⟨htl.2, hsp⟩
  rw [← hchn] at hset
  have hbody := parseLineBody_eq runeLF (bst src ity dn s k pos) _ _ _ k' k' hpair hslice (by rw [hl4]; exact hcount) hset
  have hfinal : setLastIndents { bst src ity (dn ++ [closedLine s k pos]) (pos + 1) 0 (pos + 1 + k') with
      indentType := ityAfter (bst src ity (dn ++ [closedLine s k pos]) (pos + 1) 0 (pos + 1 + k')).indentType k' } k' =
      bst src (ityAfter ity k') (dn ++ [closedLine s k pos]) (pos + 1) k' (pos + 1 + k') := by
    simp only [setLastIndents, bst, lx, List.size_toArray, List.length_append, List.length_cons, List.length_nil,
      Nat.zero_add, Nat.add_one_sub_one, List.modify_toArray]
    have := modify_last (dn ++ [closedLine s k pos]) (openLine (pos + 1) 0) (fun li => { li with indents := k' })
    simp only [List.length_append, List.length_cons, List.length_nil, Nat.zero_add] at this
    rw [this]
    rfl
  rw [hfinal] at hbody
  -- the cursor ends on a solid character
  have hcur' : (bst src (ityAfter ity k') (dn ++ [closedLine s k pos]) (pos + 1) k' (pos + 1 + k')).cur = tl.headD 0 := by
    apply here_headD
    have : here (bst src (ityAfter ity k') (dn ++ [closedLine s k pos]) (pos + 1) k' (pos + 1 + k')) =
        (here (bst src ity dn s k pos)).drop (k' + 1) := by
      show src.toList.drop (pos + 1 + k') = (src.toList.drop pos).drop (k' + 1)
      rw [List.drop_drop]; congr 1; omega
    rw [this, h, List.drop_succ_cons]
    exact List.drop_left' (by simp)
  have hline := parseLine_once runeLF _ _ hbody (by
    rw [hcur']
    have a1 : (tl.headD 0 == runeCR) = false := by simpa using htl.1.2.1
    have a2 : (tl.headD 0 == runeLF) = false := by simpa using htl.1.2.2
    rw [a1, a2]; rfl)
  exact skipBlank_line _ _ hcur hline (by rw [hcur']; exact htl.1)

theorem solid_zero : Solid 0 ∧ (0 : Nat) ≠ runeTAB := ⟨⟨by decide, by decide, by decide⟩, by decide⟩

theorem nextToken_of_skipBlank (l l' : Lexer) (hb : l.beginLex = false) (h : skipBlank l = (.ok (), l')) :
    nextToken l = dispatchToken l' := by
  unfold nextToken preNextToken
  simp only [hb, Bool.false_eq_true, ↓reduceIte, h]

/-- **the first token of a line** -/
theorem nextToken_break (it : Item) (hw : it.WF) (src : Array Nat) (ity : Nat) (dn : List LineInfo) (s k pos k' d : Nat)
    (r : List Nat) (hity : ItyOK ity k) (hpos : s + k ≤ pos) (hd : d = runeSP ∨ (d = runeLF ∧ it.tight = false))
    (h : here (bst src ity dn s k pos) = runeLF :: (List.replicate k' runeTAB ++ (it.spelling ++ d :: r))) :
    nextToken (bst src ity dn s k pos) =
      (.ok (it.token (pos + 1 + k')),
        bst src (ityAfter ity k') (dn ++ [closedLine s k pos]) (pos + 1) k' (pos + 1 + k' + it.spelling.length)) := by
  obtain ⟨c, sp, hsp, hsolid, _, htab⟩ := spelling_head it hw
  have hhead : (it.spelling ++ d :: r).headD 0 = c := by rw [hsp]; rfl
  have hs := skipBlank_break src ity dn s k pos k' _ hity hpos h (by rw [hhead]; exact ⟨hsolid, htab⟩)
  rw [nextToken_of_skipBlank _ _ rfl hs]
  have hh : here (bst src (ityAfter ity k') (dn ++ [closedLine s k pos]) (pos + 1) k' (pos + 1 + k')) =
      it.spelling ++ d :: r := by
    have : here (bst src (ityAfter ity k') (dn ++ [closedLine s k pos]) (pos + 1) k' (pos + 1 + k')) =
        (here (bst src ity dn s k pos)).drop (k' + 1) := by
      show src.toList.drop (pos + 1 + k') = (src.toList.drop pos).drop (k' + 1)
      rw [List.drop_drop]; congr 1; omega
    rw [this, h, List.drop_succ_cons]
    exact List.drop_left' (by simp)
  rw [dispatch_item it hw _ d r hd hh]
  rfl

/-- **a token after a space**, between-tokens form -/
theorem nextToken_bst_space (it : Item) (hw : it.WF) (src : Array Nat) (ity : Nat) (dn : List LineInfo) (s k pos d : Nat)
    (r : List Nat) (hd : d = runeSP ∨ (d = runeLF ∧ it.tight = false))
    (h : here (bst src ity dn s k pos) = runeSP :: (it.spelling ++ d :: r)) :
    nextToken (bst src ity dn s k pos) =
      (.ok (it.token (pos + 1)), bst src ity dn s k (pos + 1 + it.spelling.length)) :=
  nextToken_space it hw _ rfl d r hd h

theorem dispatch_eof (l : Lexer) (h : here l = []) : dispatchToken l = parseEOF l := by
  obtain ⟨h1, h2⟩ := here_nil h
  unfold dispatchToken
  have : ¬ l.cursor < l.src.size := by omega
  simp [h1, runeEOF, this]

/-- **the end of the text**: the line feed that ends the last line, then EOF -/
theorem nextToken_eof (src : Array Nat) (ity : Nat) (dn : List LineInfo) (s k pos : Nat)
    (hity : ItyOK ity k) (hpos : s + k ≤ pos) (h : here (bst src ity dn s k pos) = [runeLF]) :
    nextToken (bst src ity dn s k pos) =
      (.ok { type := cTypeEOF, startIdx := pos + 1, endIdx := pos + 1 }, fst src ity (dn ++ [closedLine s k pos]) (pos + 1)) := by
  have h' : here (bst src ity dn s k pos) = runeLF :: (List.replicate 0 runeTAB ++ []) := by simpa using h
  have hs := skipBlank_break src ity dn s k pos 0 [] hity hpos h' solid_zero
  rw [nextToken_of_skipBlank _ _ rfl hs]
  have hsize : src.size = pos + 1 := by
    have := congrArg List.length h
    simp [here, bst, lx] at this; omega
  have hh : here (bst src (ityAfter ity 0) (dn ++ [closedLine s k pos]) (pos + 1) 0 (pos + 1 + 0)) = [] := by
    show src.toList.drop (pos + 1 + 0) = []
    apply List.drop_eq_nil_of_le; simp; omega
  rw [dispatch_eof _ hh]
  unfold parseEOF
  have hsl := sliceLastLine_bst src (ityAfter ity 0) (dn ++ [closedLine s k pos]) (pos + 1) 0 (pos + 1 + 0) (pos + 1) false
    (hity.after 0) (by omega) (by omega)
  have e1 : bst src (ityAfter ity 0) (dn ++ [closedLine s k pos]) (pos + 1) 0 (pos + 1 + 0) =
      lx src (ityAfter ity 0) (dn ++ [closedLine s k pos] ++ [openLine (pos + 1) 0]) (pos + 1 + 0) false := rfl
  rw [e1]
  have e2 : (lx src (ityAfter ity 0) (dn ++ [closedLine s k pos] ++ [openLine (pos + 1) 0]) (pos + 1 + 0) false).cursor = pos + 1 := rfl
  rw [e2, hsl]
  rfl

/-- **after the end**: `NextToken` answers EOF again and changes nothing -/
theorem nextToken_eof_again (src : Array Nat) (ity : Nat) (dn : List LineInfo) (pos : Nat)
    (hity : ity = cIndentTab ∨ ity = cIndentUnknown) (hsize : src.size = pos) :
    nextToken (fst src ity dn pos) = (.ok { type := cTypeEOF, startIdx := pos, endIdx := pos }, fst src ity dn pos) := by
  have hh : here (fst src ity dn pos) = [] := by
    show src.toList.drop pos = []
    apply List.drop_eq_nil_of_le; simp; omega
  have hs : skipBlank (fst src ity dn pos) = (.ok (), fst src ity dn pos) :=
    skipBlank_solid _ (by rw [(here_nil hh).1]; exact solid_zero.1)
  rw [nextToken_of_skipBlank _ _ rfl hs, dispatch_eof _ hh]
  have hstart : lastLineStart (fst src ity dn pos) = some pos := by
    unfold fst
    rw [lastLineStart_lx]
    rcases hity with h | h <;> subst h <;> simp [cIndentUnknown, cIndentTab, cIndentSpace, closedLine]
  unfold parseEOF sliceLastLine
  rw [hstart]
  have hcond : (decide (pos > (fst src ity dn pos).cursor) || decide ((fst src ity dn pos).cursor > (fst src ity dn pos).src.size)) = false := by
    simp [fst, lx]; omega
  simp only [hcond, Bool.false_eq_true, ↓reduceIte]
  simp only [fst, lx, List.size_toArray, List.length_append, List.length_cons, List.length_nil, Nat.zero_add,
    Nat.add_one_sub_one, List.modify_toArray, modify_last, closedLine, Nat.add_zero]

/-- **the first token of the text** -/
theorem nextToken_first (it : Item) (hw : it.WF) (src : List Nat) (k d : Nat) (r : List Nat)
    (hd : d = runeSP ∨ (d = runeLF ∧ it.tight = false))
    (h : src = List.replicate k runeTAB ++ (it.spelling ++ d :: r)) :
    nextToken (mkLexer src) =
      (.ok (it.token k), bst src.toArray (ityAfter cIndentUnknown k) [] 0 k (k + it.spelling.length)) := by
  obtain ⟨c, sp, hsp, hsolid, h0, htab⟩ := spelling_head it hw
  have hsp' : c ≠ runeSP := by intro e; have := hsolid.1; rw [e] at this; revert this; decide
  have hhead : (it.spelling ++ d :: r).headD 0 = c := by rw [hsp]; rfl
  -- the lexer after `parseBeginLex`'s first line
  have hl1 : ({ mkLexer src with beginLex := false } : Lexer).pushLine { indents := 0, startIdx := 0 } =
      bst src.toArray cIndentUnknown [] 0 0 0 := rfl
  have hhere : here (bst src.toArray cIndentUnknown [] 0 0 0) = List.replicate k runeTAB ++ (it.spelling ++ d :: r) := by
    show src.toArray.toList.drop 0 = _
    simp [h]
  have hch : ({ mkLexer src with beginLex := false } : Lexer).getChar 0 = (bst src.toArray cIndentUnknown [] 0 0 0).cur := rfl
  have hcur0 : (bst src.toArray cIndentUnknown [] 0 0 0).cur = (if k = 0 then c else runeTAB) := by
    rw [here_headD hhere]
    cases k with
    | zero => simpa using hhead
    | succ j => simp [List.replicate_succ]
  have hbegin : parseBeginLex { mkLexer src with beginLex := false } =
      (.ok (), bst src.toArray (ityAfter cIndentUnknown k) [] 0 k k) := by
    unfold parseBeginLex
    simp only [hch, hl1]
    have hne : ((bst src.toArray cIndentUnknown [] 0 0 0).cur == runeEOF) = false := by
      rw [hcur0]
      by_cases hk : k = 0
      · simp only [hk, ↓reduceIte]; simpa [runeEOF] using h0
      · simp only [hk, ↓reduceIte]; decide
    simp only [hne, Bool.false_eq_true, ↓reduceIte]
    by_cases hk : k = 0
    · subst hk
      have : ((bst src.toArray cIndentUnknown [] 0 0 0).cur == runeTAB || (bst src.toArray cIndentUnknown [] 0 0 0).cur == runeSP) = false := by
        rw [hcur0]; simp [htab, hsp']
      simp only [this, Bool.false_eq_true, ↓reduceIte]
      rfl
    · have hc : (bst src.toArray cIndentUnknown [] 0 0 0).cur = runeTAB := by rw [hcur0]; simp [hk]
      rw [hc]
      have : (runeTAB == runeTAB || runeTAB == runeSP) = true := by decide
      simp only [this, ↓reduceIte]
      obtain ⟨j, rfl⟩ : ∃ j, k = j + 1 := ⟨k - 1, by omega⟩
      have hrest : (bst src.toArray cIndentUnknown [] 0 0 0).rest = List.replicate j runeTAB ++ (it.spelling ++ d :: r) := by
        have : here (bst src.toArray cIndentUnknown [] 0 0 0) = runeTAB :: (List.replicate j runeTAB ++ (it.spelling ++ d :: r)) := by
          rw [hhere]; simp [List.replicate_succ]
        exact (here_cons this).2
      rw [countSame_tabs j _ 1 _ hrest (by rw [hhead]; exact htab)]
      have hset := setIndentType_tabs ((bst src.toArray cIndentUnknown [] 0 0 0).setCursor
        ((bst src.toArray cIndentUnknown [] 0 0 0).cursor + 1 + j)) (1 + j) c (Or.inr rfl) ⟨htab, hsp'⟩
      have hk1 : (1 + j = 0) = False := by simp
      simp only [hk1, ↓reduceIte] at hset
      rw [hset]
      dsimp only
      congr 1
      simp [bst, lx, Lexer.setCursor, openLine, ityAfter, Nat.add_comm]
  have hsolid' : Solid (bst src.toArray (ityAfter cIndentUnknown k) [] 0 k k).cur := by
    have hh : here (bst src.toArray (ityAfter cIndentUnknown k) [] 0 k k) = it.spelling ++ d :: r := by
      show src.toArray.toList.drop k = _
      simp only [h]
      exact List.drop_left' (by simp)
    rw [here_headD hh, hhead]; exact hsolid
  have hpre : preNextToken (mkLexer src) = (.ok (), bst src.toArray (ityAfter cIndentUnknown k) [] 0 k k) := by
    unfold preNextToken
    have : (mkLexer src).beginLex = true := rfl
    simp only [this, ↓reduceIte, hbegin]
    exact skipBlank_solid _ hsolid'
  unfold nextToken
  simp only [hpre]
  have hh : here (bst src.toArray (ityAfter cIndentUnknown k) [] 0 k k) = it.spelling ++ d :: r := by
    show src.toArray.toList.drop k = _
    simp only [h]
    exact List.drop_left' (by simp)
  rw [dispatch_item it hw _ d r hd hh]
  rfl

end ZnVerif.Proofs.RenderLex
