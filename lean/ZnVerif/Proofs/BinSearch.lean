/-
Helper lemmas: the binary-search loop of `IdInRange` equals linear membership on every sorted,
disjoint, non-empty table, for every code point, with fuel `size + 2`.
-/
import ZnVerif.Model.Chars
import ZnVerif.Spec.IdAlphabet

namespace ZnVerif.Proofs
open ZnVerif.Model ZnVerif.Spec

/-- index-level reading of `sortedDisjoint` -/
structure SD (tbl : Array (Nat × Nat)) : Prop where
  wf : ∀ j (h : j < tbl.size), (tbl[j]).1 ≤ (tbl[j]).2
  lt : ∀ j k (hj : j < tbl.size) (hk : k < tbl.size), j < k → (tbl[j]).2 < (tbl[k]).1

theorem sortedDisjoint_head (p : Nat × Nat) (rest : List (Nat × Nat))
    (h : sortedDisjoint (p :: rest) = true) :
    p.1 ≤ p.2 ∧ sortedDisjoint rest = true ∧ ∀ q ∈ rest, p.2 < q.1 := by
  induction rest generalizing p with
  | nil => simp [sortedDisjoint] at h ⊢; exact h
  | cons q rest ih =>
    simp [sortedDisjoint] at h
    obtain ⟨⟨h1, h2⟩, h3⟩ := h
    have := ih q h3
    refine ⟨h1, h3, ?_⟩
    intro r hr
    simp at hr
    rcases hr with rfl | hr
    · exact h2
    · have := this.2.2 r hr; omega

theorem SD_of_list : ∀ (l : List (Nat × Nat)), sortedDisjoint l = true → SD l.toArray
  | [], _ => ⟨by intro j h; simp at h, by intro j k hj; simp at hj⟩
  | p :: rest, h => by
    obtain ⟨h1, h2, h3⟩ := sortedDisjoint_head p rest h
    have ih := SD_of_list rest h2
    constructor
    · intro j hj
      cases j with
      | zero => simpa using h1
      | succ j =>
        have := ih.wf j (by simpa using hj)
        simpa using this
    · intro j k hj hk hjk
      cases k with
      | zero => omega
      | succ k =>
        cases j with
        | zero =>
          have hk' : k < rest.length := by simpa using hk
          have := h3 (rest[k]) (List.getElem_mem hk')
          simpa using this
        | succ j =>
          have := ih.lt j k (by simpa using hj) (by simpa using hk) (by omega)
          simpa using this

theorem linearMember_false_of (tbl : Array (Nat × Nat)) (c : Nat)
    (h : ∀ j (hj : j < tbl.size), c < (tbl[j]).1 ∨ (tbl[j]).2 < c) :
    linearMember tbl.toList c = false := by
  unfold linearMember
  rw [List.any_eq_false]
  intro p hp
  obtain ⟨j, hj, rfl⟩ := List.getElem_of_mem hp
  have := h j (by simpa using hj)
  simp only [Array.getElem_toList] 
  rcases this with h1 | h1
  · simp; omega
  · simp; omega

theorem linearMember_true_of (tbl : Array (Nat × Nat)) (c : Nat) (j : Nat) (hj : j < tbl.size)
    (h1 : (tbl[j]).1 ≤ c) (h2 : c ≤ (tbl[j]).2) : linearMember tbl.toList c = true := by
  unfold linearMember
  rw [List.any_eq_true]
  exact ⟨tbl[j], by simp, by simp [h1, h2]⟩

/-- the loop invariant gives the result, for any fuel that exceeds `e - s` -/
theorem bsLoop_correct (tbl : Array (Nat × Nat)) (sd : SD tbl) (c : Nat) :
    ∀ (fuel s e : Nat), s ≤ e → e ≤ tbl.size → s < tbl.size → e - s < fuel →
      (∀ j (hj : j < tbl.size), j < s → (tbl[j]).2 < c) →
      (∀ j (hj : j < tbl.size), e ≤ j → c < (tbl[j]).1) →
      bsLoop tbl c fuel s e = .ok (linearMember tbl.toList c) := by
  intro fuel
  induction fuel with
  | zero => intro s e _ _ _ h; omega
  | succ fuel ih =>
    intro s e hse hes hs hf hlow hhigh
    have hi : (e + s) / 2 < tbl.size := by omega
    unfold bsLoop
    simp only [Array.getElem?_eq_getElem hi]
    by_cases h1 : c < (tbl[(e + s) / 2]).1
    · simp only [h1, if_true]
      by_cases h2 : (e + s) / 2 = e
      · simp only [h2, if_true]
        have hse' : s = e := by omega
        rw [linearMember_false_of]
        intro j hj
        by_cases hjs : j < s
        · right; exact hlow j hj hjs
        · left; exact hhigh j hj (by omega)
      · simp only [h2, if_false]
        apply ih s ((e + s) / 2) (by omega) (by omega) hs (by omega) hlow
        intro j hj hij
        by_cases hje : (e + s) / 2 = j
        · subst hje; exact h1
        · have := sd.lt ((e + s) / 2) j hi hj (by omega)
          have := sd.wf ((e + s) / 2) hi
          omega
    · simp only [h1, if_false]
      by_cases h3 : c > (tbl[(e + s) / 2]).2
      · simp only [h3, if_true]
        by_cases h4 : (e + s) / 2 = s
        · simp only [h4, if_true]
          rw [linearMember_false_of]
          intro j hj
          by_cases hjs : j < s
          · right; exact hlow j hj hjs
          · by_cases hjs' : j = s
            · right; subst hjs'; simp only [h4] at h3; exact h3
            · left; exact hhigh j hj (by omega)
        · simp only [h4, if_false]
          apply ih ((e + s) / 2) e (by omega) hes hi (by omega) _ hhigh
          intro j hj hji
          have := sd.lt j ((e + s) / 2) hj hi hji
          have := sd.wf j hj
          omega
      · simp only [h3, if_false]
        rw [linearMember_true_of tbl c ((e + s) / 2) hi (by omega) (by omega)]

theorem idInRangeTbl_eq_linear (tbl : Array (Nat × Nat)) (maxCp c : Nat)
    (hsd : sortedDisjoint tbl.toList = true) (hne : 0 < tbl.size) :
    idInRangeTbl tbl maxCp c = .ok (decide (c ≤ maxCp) && linearMember tbl.toList c) := by
  unfold idInRangeTbl
  by_cases h : c > maxCp
  · simp [h]; omega
  · simp only [h, if_false]
    have sd : SD tbl := by simpa using SD_of_list tbl.toList hsd
    rw [bsLoop_correct tbl sd c (tbl.size + 2) 0 tbl.size (by omega) (by omega) hne (by omega)
      (by intro j _ h; omega) (by intro j hj h; omega)]
    simp; omega

end ZnVerif.Proofs
