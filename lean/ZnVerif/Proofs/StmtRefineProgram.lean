/-
C02: a whole body / program of the fragment (no inputs, no handlers): `evalExecBlock` against `callBody`,
`Model.runProgram` from `initVM ()` against `Spec.runProgram` from `{}`.
-/
import ZnVerif.Proofs.StmtRefine
import ZnVerif.Proofs.ExprInit
set_option linter.unusedSectionVars false
set_option linter.unusedSimpArgs false

namespace ZnVerif.Proofs
open ZnVerif.Model ZnVerif.Spec

variable {ν : Type} [NumOps ν]

theorem forM_pure_unit {m : Type → Type} [Monad m] [LawfulMonad m] {ι : Type} (f : ι → m PUnit) : ∀ (l : List ι),
    (∀ x ∈ l, f x = pure ⟨⟩) → l.forM f = pure ⟨⟩
  | [], _ => rfl
  | x :: xs, h => by
    rw [listForM_cons, h x List.mem_cons_self, pure_bind]
    exact forM_pure_unit f xs fun y hy => h y (List.mem_cons_of_mem _ hy)

/-- what `evalExecBlock` does with the outcome of the body's statements (no handlers) -/
def bodyH (n' : Nat) (bm : Int) (bd : Nat) (r : Res (Option Addr)) : M ν Addr :=
  match r with
  | .ok (some v) => pure v
  | .ok none => newNull
  | .err e => do
    let e ← loopSignalToException e
    Model.tryCatch (handleException n' bm bd [] e) fun r =>
      match r with
      | .err e2 => do let e2 ← loopSignalToException e2; throwE e2
      | r => liftRes r
  | .panic => goPanic
  | .fuel => outOfFuel
  | .unmodelled => notModelled

theorem execBlock_eq (n : Nat) (stmts : List Stmt) (hp : ∀ st ∈ stmts, PureStmt st) (s : VM ν) (sc : Scope)
    (hsc : getScope s.csModuleID s = some sc) (fr : Model.Frame) (rest : List Model.Frame) (hst : s.stack = fr :: rest)
    (hct : (fr.callType == 2) = false) :
    evalExecBlock (n+3) (some (.mk [] (some stmts) [])) [] s =
      ((bodyH (n+2) s.csModuleID s.stack.length
          (evalPureStmtBlock (n+1) (some stmts) (putScope s.csModuleID sc.beginScope s)).1
          (evalPureStmtBlock (n+1) (some stmts) (putScope s.csModuleID sc.beginScope s)).2).1,
       endS s.csModuleID (bodyH (n+2) s.csModuleID s.stack.length
          (evalPureStmtBlock (n+1) (some stmts) (putScope s.csModuleID sc.beginScope s)).1
          (evalPureStmtBlock (n+1) (some stmts) (putScope s.csModuleID sc.beginScope s)).2).2) := by
  rw [evalExecBlock, withScope_eq _ s sc hsc]
  obtain ⟨f1, f2, f3, f4, f5⟩ := putScope_fields s s.csModuleID sc.beginScope
  have pairEq : ∀ p q : Res Addr × VM ν, p = q → (p.1, endS s.csModuleID p.2) = (q.1, endS s.csModuleID q.2) := by
    intro p q h; rw [h]
  refine pairEq _ _ ?_
  have hsb : evalStmtBlock (ν := ν) (n+2) (some stmts) = evalPureStmtBlock (n+1) (some stmts) := by
    rw [evalStmtBlock, forM_pure_unit _ stmts (fun st hst => by cases hp st hst <;> rfl), pure_bind]
  rw [M.bind_def]
  simp only [getVM, f3, hst, List.head?, hct, Bool.false_eq_true, if_false]
  simp only [List.length_nil, ne_eq, not_true_eq_false, if_false, List.zip_nil_right, listForM_nil, pure_bind]
  simp only [hsb, Model.tryCatch, f4, List.length_cons]
  rcases evalPureStmtBlock (n+1) (some stmts) (putScope s.csModuleID sc.beginScope s) with ⟨r, s2⟩
  rfl

/-- what `callBody` makes of the outcome of the body's statements (no handlers) -/
def finR : R ν (SVal ν) → R ν (SVal ν)
  | .ok v => .ok v
  | .ret v => .ok v
  | .brk => .raise (.exc "收到「结束」中断信号")
  | .cont => .raise (.exc "收到「继续」中断信号")
  | r => r

theorem callBody_eq (n : Nat) (stmts : List Stmt) (hp : ∀ st ∈ stmts, PureStmt st) (σ : SState ν) :
    callBody (n+3) (some (.mk [] (some stmts) [])) [] none σ =
      (finR ((stmts.foldlM (fun _ st => execS n st) SVal.null) { σ with this := none :: σ.this, env := [] :: σ.env }).1,
       { ((stmts.foldlM (fun _ st => execS n st) SVal.null) { σ with this := none :: σ.this, env := [] :: σ.env }).2 with
          env := ((stmts.foldlM (fun _ st => execS n st) SVal.null) { σ with this := none :: σ.this, env := [] :: σ.env }).2.env.drop 1,
          this := ((stmts.foldlM (fun _ st => execS n st) SVal.null) { σ with this := none :: σ.this, env := [] :: σ.env }).2.this.drop 1 }) := by
  have hrb : runBlockHoisted (ν := ν) (n+2) (some stmts) = stmts.foldlM (fun _ st => execS n st) SVal.null := by
    rw [runBlockHoisted, forM_pure_unit _ stmts (fun st hst => by cases hp st hst <;> rfl), pure_bind, runStmts,
      List.filter_eq_self.2 (fun st hst => by cases hp st hst <;> rfl)]
  rw [callBody]
  simp only [SM.bind_def, modS, catchR, withBlock_eq, List.length_nil, ne_eq, not_true_eq_false, if_false, List.zip_nil_right,
    listForM_nil, pure_bind, hrb]
  rcases (stmts.foldlM (fun _ st => execS n st) SVal.null) { σ with this := none :: σ.this, env := [] :: σ.env } with ⟨r, σ2⟩
  cases r <;> simp only [finR, sfail, pure, SM.bind_def, getS, modS, firstS, List.drop]

/-! ### the handler-free end of a body -/

theorem bodyH_sig (n' : Nat) (bm : Int) (bd : Nat) (e : Err) (he : e = .sigBreak ∨ e = .sigContinue) (s : VM ν) :
    ∃ e' s', bodyH (n'+1) bm bd (.err e) s = (.err e', s') ∧ s'.out = s.out := by
  rcases he with rfl | rfl
  · refine ⟨.excErr s.heap.size, { s with heap := s.heap.push (.exc "收到「结束」中断信号") }, ?_, rfl⟩
    simp only [bodyH, loopSignalToException, M.bind_def, alloc, pure, Model.tryCatch, handleException]
    simp [getCell, firstM, throwE, exceptionClassName, pure, loopSignalToException]
    rfl
  · refine ⟨.excErr s.heap.size, { s with heap := s.heap.push (.exc "收到「继续」中断信号") }, ?_, rfl⟩
    simp only [bodyH, loopSignalToException, M.bind_def, alloc, pure, Model.tryCatch, handleException]
    simp [getCell, firstM, throwE, exceptionClassName, pure, loopSignalToException]
    rfl

theorem bodyH_rt (n' : Nat) (bm : Int) (bd : Nat) (c : Nat) (s : VM ν) :
    ∃ s', bodyH (n'+1) bm bd (.err (.rt c)) s = (.err (.rt c), s') ∧ s'.out = s.out := by
  refine ⟨{ s with heap := s.heap.push (.exc ("‹rt:" ++ toString c ++ "›")) }, ?_, rfl⟩
  simp only [bodyH, loopSignalToException, M.bind_def, alloc, pure, Model.tryCatch, handleException]
  simp [getCell, firstM, throwE, exceptionClassName, pure, loopSignalToException]
  rfl

theorem bodyH_sem (n' : Nat) (bm : Int) (bd : Nat) (c : Nat) (s : VM ν) :
    bodyH (n'+1) bm bd (.err (.sem c)) s = (.err (.sem c), s) := by
  simp only [bodyH, loopSignalToException, M.bind_def, pure, Model.tryCatch, handleException, throwE]

/-! ### a body: two scopes in the model (the execution block's and the statement block's), one block in the spec -/

theorem StRel.push2 {ω : Addr → Option (SVal ν)} {mid : Int} {D ds} {s : VM ν} {σ : SState ν} (h : StRel ω mid D ds s σ)
    (sc : Scope) (hsc : getScope s.csModuleID s = some sc) (this' : List (Option (SVal ν))) :
    StRel ω mid (D+2) (D :: ds)
      (putScope s.csModuleID sc.beginScope.beginScope (putScope s.csModuleID sc.beginScope s))
      { σ with this := this', env := [] :: σ.env } := by
  obtain ⟨sc', hsc', hD, hb⟩ := h.scope
  rw [hsc] at hsc'; cases hsc'
  obtain ⟨f1, f2, f3, f4, f5⟩ := putScope_fields s s.csModuleID sc.beginScope
  obtain ⟨g1, g2, g3, g4, g5⟩ := putScope_fields (putScope s.csModuleID sc.beginScope s) s.csModuleID sc.beginScope.beginScope
  have hlt : ∀ d' ∈ ds, d' < D := by
    obtain ⟨_, _, _, _, _, _, _, _, hlt, _⟩ := hb.inv
    exact hlt
  have hs1 : getScope s.csModuleID (putScope s.csModuleID sc.beginScope s) = some sc.beginScope := getScope_putScope hsc _
  refine ⟨by rw [g4, f4]; exact h.cs, ?_, ?_, ?_, ?_, ?_, ?_⟩
  · intro nm; rw [g2, f2, g1, f1]; exact h.globals nm
  · refine ⟨sc.beginScope.beginScope, ?_, by simp [Scope.beginScope, hD]; omega, ?_⟩
    · rw [g4, f4]; exact getScope_putScope hs1 _
    · rw [g1, f1]
      have : BlocksRel ω s.heap ([] ++ sc.syms) ((D+2) :: D :: ds) ([] :: σ.env) :=
        .cons .nil (fun _ hm => by cases hm) (fun d' hd' => by
          rcases List.mem_cons.1 hd' with rfl | hd'
          · omega
          · have := hlt d' hd'; omega) hb
      exact this
  · rw [g3, f3, g4, f4]; exact h.stack
  · rw [g5, f5]; exact h.out
  · rw [g2, f2, g1, f1]; exact h.display
  · rw [g1, f1]; exact h.ωok

/-- how the outcome of a whole body / program is compared: the same value (the result cell reads as the
spec's value) and the same displayed lines, or an error on both sides; no claim when the spec is
`unspecified` or either side is out of fuel -/
inductive FinalRel (ω : Addr → Option (SVal ν)) (inFrame : Bool) : Res Addr × VM ν → R ν (SVal ν) × SState ν → Prop
  | ok {a v s' σ'} : (∃ k, contentW ω k s'.heap a = some v) → s'.out = σ'.out → (inFrame = true → s'.stack ≠ []) →
      FinalRel ω inFrame (.ok a, s') (.ok v, σ')
  | raise {e x s' σ'} : FinalRel ω inFrame (.err e, s') (.raise x, σ')
  | fatal {e c s' σ'} : FinalRel ω inFrame (.err e, s') (.fatal c, σ')
  | unspec {p σ'} : FinalRel ω inFrame p (.unspecified, σ')
  | specFuel {p σ'} : FinalRel ω inFrame p (.fuel, σ')
  | modelFuel {s' q} : FinalRel ω inFrame (.fuel, s') q

theorem endS_out (mid : Int) (s : VM ν) : (endS mid s).out = s.out := by
  unfold endS
  cases getScope mid s with
  | none => rfl
  | some sc => exact (putScope_fields s mid _).2.2.2.2

theorem body_refines {ω : Addr → Option (SVal ν)} {mid : Int} {D ds} {s : VM ν} {σ : SState ν}
    (hst : StRel ω mid D ds s σ) (hslot : slot s = none) (fr : Model.Frame) (rest : List Model.Frame)
    (hstack : s.stack = fr :: rest) (hct : (fr.callType == 2) = false)
    (stmts : List Stmt) (hp : ∀ st ∈ stmts, PureStmt st) (n : Nat) :
    FinalRel ω true (evalExecBlock (n+3) (some (.mk [] (some stmts) [])) [] s)
      (callBody (n+3) (some (.mk [] (some stmts) [])) [] none σ) := by
  obtain ⟨sc, hsc, _, _⟩ := hst.scope
  rw [execBlock_eq n stmts hp s sc hsc fr rest hstack hct, callBody_eq n stmts hp σ]
  obtain ⟨f1, f2, f3, f4, f5⟩ := putScope_fields s s.csModuleID sc.beginScope
  have hs1 : getScope (putScope s.csModuleID sc.beginScope s).csModuleID (putScope s.csModuleID sc.beginScope s) = some sc.beginScope := by
    rw [f4]; exact getScope_putScope hsc _
  have hblk := withScope_eq (stmtsLoop (evalStmt (ν := ν) n) none stmts) _ _ hs1
  rw [show evalPureStmtBlock (ν := ν) (n+1) (some stmts) = withScope (stmtsLoop (evalStmt n) none stmts) from by
    rw [evalPureStmtBlock], hblk, f4]
  have hst2 := hst.push2 sc hsc (none :: σ.this)
  obtain ⟨g1, g2, g3, g4, g5⟩ := putScope_fields (putScope s.csModuleID sc.beginScope s) s.csModuleID sc.beginScope.beginScope
  have hinv2 : Inv ω mid (D+2) (D :: ds) s.heap _ _ :=
    ⟨hst2, by rw [g1, f1]; exact HeapLe.refl _, by rw [slot_of_stack (g3.trans f3)]; exact hslot⟩
  have hsim := sim_stmts (stmt_block_sim ω mid n n (Nat.le_refl n)).1 stmts _ _ none .null hp hinv2 rfl
  obtain ⟨r, s3, r', σ3, e1, e2, hout⟩ := simS_elim hsim
  rw [e1, e2]
  simp only
  rcases hout with rfl | rfl | rfl | hout
  · exact .unspec
  · exact .specFuel
  · exact .modelFuel
  · cases hout with
    | ok hv =>
      obtain ⟨h1, h2, h3, h4⟩ := hv
      rename_i oa v
      cases oa with
      | some a =>
        obtain ⟨k, hk⟩ := h4
        refine .ok ⟨k, ?_⟩ ?_ ?_
        · simp only [bodyH, pure]; rw [(endS_fields _ _).1, (endS_fields _ _).1]; exact hk
        · simp only [bodyH, pure]; rw [endS_out, endS_out]; exact h1.out
        · simp only [bodyH, pure]; rw [(endS_fields _ _).2, (endS_fields _ _).2]
          obtain ⟨fr', rest', hs', _⟩ := h1.stack
          rw [hs']; simp
      | none =>
        subst h4
        refine .ok ⟨1, ?_⟩ ?_ ?_
        · simp only [bodyH, newNull, alloc]
          rw [(endS_fields _ _).1]
          exact contentW_push_new 0 _ .null .null rfl
        · simp only [bodyH, newNull, alloc]; rw [endS_out]; simp only [endS_out]; exact h1.out
        · simp only [bodyH, newNull, alloc]; rw [(endS_fields _ _).2]; simp only [(endS_fields _ _).2]
          obtain ⟨fr', rest', hs', _⟩ := h1.stack
          rw [hs']; simp
    | ret ht =>
      obtain ⟨⟨h1, h2, x, h3, k, h4⟩, h5⟩ := ht
      subst h5
      rw [h3]
      refine .ok ⟨k, ?_⟩ ?_ ?_
      · simp only [bodyH, pure]; rw [(endS_fields _ _).1, (endS_fields _ _).1]; exact h4
      · simp only [bodyH, pure]; rw [endS_out, endS_out]; exact h1.out
      · simp only [bodyH, pure]; rw [(endS_fields _ _).2, (endS_fields _ _).2]
        obtain ⟨fr', rest', hs', _⟩ := h1.stack
        rw [hs']; simp
    | brk hb =>
      obtain ⟨e', s', he, _⟩ := bodyH_sig (n+1) s.csModuleID s.stack.length .sigBreak (.inl rfl) (endS s.csModuleID s3)
      rw [he]; exact .raise
    | cont hb =>
      obtain ⟨e', s', he, _⟩ := bodyH_sig (n+1) s.csModuleID s.stack.length .sigContinue (.inr rfl) (endS s.csModuleID s3)
      rw [he]; exact .raise
    | rt c =>
      obtain ⟨s', he, _⟩ := bodyH_rt (n+1) s.csModuleID s.stack.length c (endS s.csModuleID s3)
      rw [he]; exact .raise
    | sem c =>
      rw [bodyH_sem]; exact .fatal

/-! ### a whole program from the initial states -/

/-- the machine in which `runProgram` starts the main body: module 0 allocated, the script frame pushed -/
def startS : VM ν :=
  pushS { moduleId := 0, callType := 1 }
    { initVM () with modules := (initVM (ν := ν) ()).modules.push { name := "主模块", hasProgram := true }, csModuleID := 0 }

theorem startS_fields : (startS (ν := ν)).heap = (initVM (ν := ν) ()).heap ∧ (startS (ν := ν)).globals = (initVM (ν := ν) ()).globals ∧
    (startS (ν := ν)).stack = [{ moduleId := 0, callType := 1 }] ∧ (startS (ν := ν)).csModuleID = 0 ∧
    (startS (ν := ν)).out = [] ∧ getScope 0 (startS (ν := ν)) = some {} :=
  ⟨rfl, rfl, rfl, rfl, rfl, rfl⟩

theorem stRel_start : StRel (ν := ν) initω 0 0 [] startS {} := by
  obtain ⟨f1, f2, f3, f4, f5, f6⟩ := startS_fields (ν := ν)
  refine ⟨f4, ?_, ?_, ?_, ?_, ?_, ?_⟩
  · intro name
    have h := envRel_init (ν := ν) name
    have hv : visible (initVM (ν := ν) ()) name = lookup name (initVM (ν := ν) ()).globals := by
      simp only [visible]
      have : getScope (initVM (ν := ν) ()).csModuleID (initVM (ν := ν) ()) = none := rfl
      rw [this]
      cases lookup name (initVM (ν := ν) ()).globals <;> rfl
    have hs : specVisible ({} : SState ν) name = predefVal name := by
      simp only [specVisible]
      cases predefVal (ν := ν) name <;> rfl
    rw [hv, hs] at h
    rw [f2, f1]
    exact h
  · refine ⟨{}, by rw [f4]; exact f6, rfl, ?_⟩
    exact BlocksRel.cons (bs := []) (rest := []) .nil (fun _ hm => by cases hm) (fun _ hm => by cases hm) .nil
  · exact ⟨_, _, f3, by rw [f4]⟩
  · rw [f5]
  · exact ⟨4, by rw [f2]; rfl, by rw [f1]; rfl⟩
  · intro a v h1 h2
    rw [f1]
    unfold initω at h1
    split at h1
    · cases h1; exact ⟨_, rfl, rfl⟩
    · cases h1; exact ⟨_, rfl, trivial⟩
    · cases h1; exact ⟨_, rfl, trivial⟩
    · cases h1

theorem slot_start : slot (startS (ν := ν)) = none := rfl

theorem runProgram_eq (fuel : Nat) (blk : ExecBlock) (stmts : List Stmt) (hblk : blk = .mk [] (some stmts) []) :
    Model.runProgram (ν := ν) fuel ⟨[], some blk⟩ [] (initVM ()) =
      (evalExecBlock fuel (some blk) [] >>= fun r => popFrame >>= fun _ => pure r) startS := by
  subst hblk
  simp only [Model.runProgram, Model.runProgramWith, Model.evalProgram, List.forM_nil, M.bind_def, modifyVM, pushFrame_eq,
    List.isEmpty_nil, not_true_eq_false, if_false, List.mapM_nil, pure]
  rfl

theorem specRunProgram_eq (fuel : Nat) (blk : ExecBlock) (stmts : List Stmt) (hblk : blk = .mk [] (some stmts) []) (σ : SState ν) :
    Spec.runProgram (ν := ν) fuel ⟨[], some blk⟩ [] σ = callBody fuel (some blk) [] none σ := by
  subst hblk
  simp only [Spec.runProgram, List.isEmpty_nil, not_true_eq_false, if_false, List.mapM_nil, pure_bind]

/-- a program whose body is a statement list of the fragment (no imports, inputs or handlers), run from the
initial machine and the initial spec state with the same fuel -/
theorem program_refines (stmts : List Stmt) (hp : ∀ st ∈ stmts, PureStmt st) (n : Nat) :
    FinalRel (ν := ν) initω false (Model.runProgram (n+3) ⟨[], some (.mk [] (some stmts) [])⟩ [] (initVM ()))
      (Spec.runProgram (n+3) ⟨[], some (.mk [] (some stmts) [])⟩ [] {}) := by
  rw [runProgram_eq (n+3) _ stmts rfl, specRunProgram_eq (n+3) _ stmts rfl]
  have hb := body_refines (ν := ν) stRel_start slot_start _ _ startS_fields.2.2.1 rfl stmts hp n
  rw [M.bind_def]
  generalize evalExecBlock (n+3) (some (.mk [] (some stmts) [])) [] (startS (ν := ν)) = p,
    callBody (n+3) (some (.mk [] (some stmts) [])) [] none ({} : SState ν) = q at hb
  cases hb with
  | ok hc ho hs =>
    rename_i a v s' σ'
    simp only [M.bind_def, popFrame]
    cases hst : s'.stack with
    | nil => exact absurd hst (hs rfl)
    | cons fr rest => exact .ok hc ho (by simp)
  | raise => exact .raise
  | fatal => exact .fatal
  | unspec => exact .unspec
  | specFuel => exact .specFuel
  | modelFuel => exact .modelFuel

end ZnVerif.Proofs
