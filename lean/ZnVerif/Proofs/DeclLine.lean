/-
The hoisting pass of `evalStmtBlock` (type / method / constructor declarations are evaluated before the other
statements of their block), step by step: each declaration first makes its own line current
(`vm.SetCurrentLine(v.GetCurrentLine())`), then runs; the first one that fails ends the block.
-/
import ZnVerif.Proofs.ControlFlow
import ZnVerif.Proofs.StartedKeep
set_option linter.unusedSectionVars false
set_option linter.unusedSimpArgs false
set_option linter.unusedVariables false

namespace ZnVerif.Proofs.DeclLine
open ZnVerif.Model ZnVerif.Proofs.ControlFlow

variable {ν : Type} [NumOps ν]

/-- what a declaration does once its line is current -/
def evalDecl (n : Nat) (st : Stmt) : M ν Unit :=
  match st with
  | .classDecl .. => evalClassDecl n st
  | .funcDecl _ _ declType _ => if declType == 3 then evalCtorDecl n st else evalFuncDecl n st
  | _ => pure ()

/-- one turn of the hoisting loop -/
def hoistStep (n : Nat) (st : Stmt) : M ν Unit :=
  match st with
  | .classDecl .. => do
    setTopFrame fun fr => { fr with line := st.line, started := true }
    evalClassDecl n st
  | .funcDecl _ _ declType _ => do
    setTopFrame fun fr => { fr with line := st.line, started := true }
    if declType == 3 then evalCtorDecl n st else evalFuncDecl n st
  | _ => pure ()

theorem hoistDecls_eq (n : Nat) (stmts : List Stmt) : hoistDecls (ν := ν) n stmts = stmts.forM (hoistStep n) := rfl

/-- a declaration: its line is made current, then it runs -/
theorem hoistStep_decl (n : Nat) (d : Stmt) (hd : isDecl d = true) (s : VM ν) :
    hoistStep n d s = evalDecl n d (setLine d.line s) := by
  cases d <;> simp [isDecl] at hd <;> (unfold hoistStep evalDecl; simp only; rw [setLine_bind])

theorem forM_append_run {α} (f : α → M ν PUnit) : ∀ (xs ys : List α) (s : VM ν),
    (xs ++ ys).forM f s = (do xs.forM f; ys.forM f) s
  | [], ys, s => rfl
  | x :: xs, ys, s => by
    rw [List.cons_append, list_forM_cons, list_forM_cons]
    show (f x >>= fun _ => (xs ++ ys).forM f) s = ((f x >>= fun _ => xs.forM f) >>= fun _ => ys.forM f) s
    rw [bind_assoc]
    simp only [bind]
    rcases f x s with ⟨r, s1⟩
    cases r <;> simp only
    exact forM_append_run f xs ys s1

/-- the declarations `pre` ran normally, then the declaration `d` failed: that is the outcome of the whole block -/
theorem evalStmtBlock_decl_fails {n : Nat} {pre post : List Stmt} {d : Stmt} {s s1 s2 : VM ν} {e : Err}
    (hd : isDecl d = true) (hpre : hoistDecls n pre s = (.ok (), s1))
    (hfail : evalDecl n d (setLine d.line s1) = (.err e, s2)) :
    evalStmtBlock (n+1) (some (pre ++ d :: post)) s = (.err e, s2) := by
  rw [evalStmtBlock_eq]
  have h1 : hoistDecls n (pre ++ d :: post) s = (.err e, s2) := by
    rw [hoistDecls_eq, forM_append_run]
    rw [hoistDecls_eq] at hpre
    rw [bind_ok hpre, list_forM_cons]
    have : hoistStep n d s1 = (.err e, s2) := by rw [hoistStep_decl n d hd, hfail]
    rw [bind_err this]
  rw [bind_err h1]

/-- a declaration leaves the frames it starts from literally alone (whatever the property defaults call) -/
theorem lit_evalDecl (n : Nat) (st : Stmt) : LineKeep.Lit (evalDecl (ν := ν) n st) := by
  unfold evalDecl
  split
  · exact LineKeep.lit_evalClassDecl _ _
  · split
    · exact LineKeep.lit_evalCtorDecl _ _
    · exact LineKeep.lit_evalFuncDecl _ _
  · exact LineKeep.Lit.pure _

/-! ## toy states for the non-vacuity examples of Properties/C18Chain -/
namespace Toy
open ZnVerif.Proofs.ControlFlow.Toy

/-- two variables: `d` = 0 (a number), `t` = "x" (a text) -/
def vmW : VM Int :=
  { heap := #[.num 0, .str "x"], stack := [{ moduleId := 0, callType := 1 }], csModuleID := 0,
    scopes := [(0, { syms := [{ name := "d", depth := 0, isConst := false, ext := none, val := 0 },
                              { name := "t", depth := 0, isConst := false, ext := none, val := 1 }], depth := 0 })],
    modules := #[{ name := "m", hasProgram := true }] }
/-- `d <= d`: 真 while `d` is a number, error 83 once the loop body `d = t` has made it a text -/
def condW : Expr := .logic 0 LogicLTE (.id dId) (.id dId)
/-- `定义 C： 其 p 为 d / d` on line 3 (the property default on line 4 divides 0 by 0: error 90) -/
def clsBad : Stmt := .classDecl 3 (some ⟨3, "C"⟩) [(some ⟨4, "p"⟩, .arith 4 ArithDiv (.id dId) (.id dId))] [] []
end Toy

end ZnVerif.Proofs.DeclLine
