/-
Helper lemmas for C14: the template scanner of `formatString` (table regenerated from the Go switch), its
index stack and the fill loop, against the segment semantics of Spec/Template.lean.
-/
import ZnVerif.Proofs.Directive

namespace ZnVerif.Proofs.Format
open ZnVerif.Model.Format ZnVerif.Generated
open ZnVerif.Spec.Template
open ZnVerif.Proofs.Directive (dirRun_eq stateOf)
open ZnVerif.Proofs.Template (isBrace_false isBrace_true takeRun_spec takeRun_length split_sound)

/-! ### the regenerated scanner table is the documented machine (states 1 begin, 2 literal, 3 format) -/

def refScanLookup (st ch : Nat) : ScanAct :=
  if ch = 0x7B then
    (if st = 1 then .move 3 [(0, 2), (1, 1)] 0 else if st = 2 then .move 3 [(1, 0), (0, 2), (1, 1)] 0 else .fail)
  else if ch = 0x7D then (if st = 3 then .move 1 [(1, 0)] 1 else .fail)
  else (if st = 1 then .move 2 [(0, 1), (1, 0)] 0 else .stay)

theorem scanLookup_eq_ref (st ch : Nat) : scanLookup st ch = refScanLookup st ch := by
  unfold scanLookup scanRows refScanLookup
  simp only [FormatDFA.scanCases, FormatDFA.scanStrict, List.find?, List.contains_cons, List.contains_nil]
  by_cases h1 : ch = 0x7B
  · subst h1; by_cases a : st = 1 <;> by_cases b : st = 2 <;> simp [a, b]
  by_cases h2 : ch = 0x7D
  · subst h2; by_cases a : st = 3 <;> simp [a]
  have e1 : ((0x7B : Nat) == ch) = false := by simp; omega
  have e2 : ((0x7D : Nat) == ch) = false := by simp; omega
  by_cases a : st = 1 <;> simp [e1, e2, h1, h2, a]

theorem step_open_B (S : List Nat) (k idx : Nat) :
    scanStep ⟨1, S, k⟩ idx 0x7B = some ⟨3, S ++ [2, idx + 1], k⟩ := by
  simp [scanStep, scanLookup_eq_ref, refScanLookup]

theorem step_open_L (S : List Nat) (k idx : Nat) :
    scanStep ⟨2, S, k⟩ idx 0x7B = some ⟨3, S ++ [idx, 2, idx + 1], k⟩ := by
  simp [scanStep, scanLookup_eq_ref, refScanLookup]

theorem step_open_F (S : List Nat) (k idx : Nat) : scanStep ⟨3, S, k⟩ idx 0x7B = none := by
  simp [scanStep, scanLookup_eq_ref, refScanLookup]

theorem step_close_F (S : List Nat) (k idx : Nat) :
    scanStep ⟨3, S, k⟩ idx 0x7D = some ⟨1, S ++ [idx], k + 1⟩ := by
  simp [scanStep, scanLookup_eq_ref, refScanLookup]

theorem step_close_B (S : List Nat) (k idx : Nat) : scanStep ⟨1, S, k⟩ idx 0x7D = none := by
  simp [scanStep, scanLookup_eq_ref, refScanLookup]

theorem step_close_L (S : List Nat) (k idx : Nat) : scanStep ⟨2, S, k⟩ idx 0x7D = none := by
  simp [scanStep, scanLookup_eq_ref, refScanLookup]

theorem step_other_B (S : List Nat) (k idx c : Nat) (h : isBrace c = false) :
    scanStep ⟨1, S, k⟩ idx c = some ⟨2, S ++ [1, idx], k⟩ := by
  obtain ⟨h1, h2⟩ := (isBrace_false c).1 h
  simp [scanStep, scanLookup_eq_ref, refScanLookup, h1, h2]

theorem step_other_L (S : List Nat) (k idx c : Nat) (h : isBrace c = false) :
    scanStep ⟨2, S, k⟩ idx c = some ⟨2, S, k⟩ := by
  obtain ⟨h1, h2⟩ := (isBrace_false c).1 h
  simp [scanStep, scanLookup_eq_ref, refScanLookup, h1, h2]

theorem step_other_F (S : List Nat) (k idx c : Nat) (h : isBrace c = false) :
    scanStep ⟨3, S, k⟩ idx c = some ⟨3, S, k⟩ := by
  obtain ⟨h1, h2⟩ := (isBrace_false c).1 h
  simp [scanStep, scanLookup_eq_ref, refScanLookup, h1, h2]

/-! ### runs without braces -/

/-- inside a literal run or a placeholder, characters other than braces change nothing -/
theorem scan_stay (st : Nat) (hst : st = 2 ∨ st = 3) (a : List Nat) (ha : braceFree a) :
    ∀ (S : List Nat) (k idx : Nat) (rest : List Nat),
    scanLoop ⟨st, S, k⟩ idx (a ++ rest) = scanLoop ⟨st, S, k⟩ (idx + a.length) rest := by
  induction a with
  | nil => intro S k idx rest; simp
  | cons c a ih =>
    intro S k idx rest
    have hc : isBrace c = false := ha c (by simp)
    have hstep : scanStep ⟨st, S, k⟩ idx c = some ⟨st, S, k⟩ := by
      rcases hst with rfl | rfl
      · exact step_other_L S k idx c hc
      · exact step_other_F S k idx c hc
    rw [List.cons_append, scanLoop, hstep]
    dsimp only
    rw [ih (fun x hx => ha x (by simp [hx]))]
    congr 1
    simp; omega

/-! ### the index stack -/

/-- the `[type, start, end]` triples of a segment list whose text starts at index `i` -/
def encodeSegs : Nat → List Seg → List Nat
  | _, [] => []
  | i, .lit s :: r => 1 :: i :: (i + s.length) :: encodeSegs (i + s.length) r
  | i, .hole d :: r => 2 :: (i + 1) :: (i + 1 + d.length) :: encodeSegs (i + d.length + 2) r

/-- the code after the scan loop: close a pending literal run, `len(fmtStack) % 3` check -/
def finish (r : Option ScanSt) (n : Nat) : Option (List Nat × Nat) :=
  match r with
  | none => none
  | some s =>
    let stack := if s.state = 2 then s.stack ++ [n] else s.stack
    if stack.length % 3 ≠ 0 then none else some (stack, s.count)

/-- a literal run that ends at a brace or at the end behaves like the closed triple followed by a fresh start -/
theorem close_literal (S : List Nat) (k i i' : Nat) (r' : List Nat)
    (hr : ∀ c r, r' = c :: r → isBrace c = true) :
    finish (scanLoop ⟨2, S ++ [1, i], k⟩ i' r') (i' + r'.length) =
    finish (scanLoop ⟨1, S ++ [1, i, i'], k⟩ i' r') (i' + r'.length) := by
  cases r' with
  | nil => simp [scanLoop, finish]
  | cons c r =>
    have hc := (isBrace_true c).1 (hr c r rfl)
    rcases hc with rfl | rfl
    · rw [scanLoop, scanLoop, step_open_L, step_open_B]
      simp
    · rw [scanLoop, scanLoop, step_close_L, step_close_B]

theorem scan_split : ∀ (fuel : Nat) (rest : List Nat) (i : Nat) (S : List Nat) (k : Nat),
    rest.length < fuel → S.length % 3 = 0 →
    finish (scanLoop ⟨1, S, k⟩ i rest) (i + rest.length) =
      (splitFuel fuel rest).map (fun segs => (S ++ encodeSegs i segs, k + (holes segs).length)) := by
  intro fuel
  induction fuel with
  | zero => intro rest i S k h; omega
  | succ n ih =>
    intro rest i S k hlen hS
    cases rest with
    | nil =>
      simp [scanLoop, finish, splitFuel, encodeSegs, holes]
      omega
    | cons c r =>
      have hr : r.length < n := by simp at hlen; omega
      by_cases h1 : c = 0x7B
      · subst h1
        obtain ⟨e1, e2, e3⟩ := takeRun_spec r
        have hl := takeRun_length r
        rw [scanLoop, step_open_B]
        dsimp only
        conv => lhs; rw [e1]
        rw [scan_stay 3 (Or.inr rfl) _ e2]
        simp only [splitFuel, if_true]
        generalize hd : (takeRun r).1 = d at *
        generalize hr' : (takeRun r).2 = r' at *
        cases r' with
        | nil =>
          simp [scanLoop, finish]
          omega
        | cons c' r'' =>
          have hc' := (isBrace_true c').1 (e3 c' r'' rfl)
          rcases hc' with rfl | rfl
          · rw [scanLoop, step_open_F]
            simp [finish]
          · rw [scanLoop, step_close_F]
            dsimp only
            have hr'' : r''.length < n := by simp at hl; omega
            have := ih r'' (i + 1 + d.length + 1) (S ++ [2, i + 1] ++ [i + 1 + d.length]) (k + 1) hr''
              (by simp; omega)
            have hn : i + (0x7B :: (d ++ 0x7D :: r'')).length = i + 1 + d.length + 1 + r''.length := by
              simp; omega
            rw [hn, this]
            simp only [if_true]
            cases splitFuel n r'' with
            | none => simp
            | some segs =>
              simp [encodeSegs, holes]
              constructor
              · congr 1; omega
              · omega
      by_cases h2 : c = 0x7D
      · subst h2
        rw [scanLoop, step_close_B]
        simp [finish, splitFuel]
      · have hc : isBrace c = false := (isBrace_false c).2 ⟨h1, h2⟩
        obtain ⟨e1, e2, e3⟩ := takeRun_spec r
        have hl := takeRun_length r
        rw [scanLoop, step_other_B _ _ _ _ hc]
        dsimp only
        conv => lhs; rw [e1]
        rw [scan_stay 2 (Or.inl rfl) _ e2]
        simp only [splitFuel, h1, h2, if_false]
        generalize hs : (takeRun r).1 = s at *
        generalize hr' : (takeRun r).2 = r' at *
        have hn : i + (c :: (s ++ r')).length = (i + 1 + s.length) + r'.length := by
          simp; omega
        rw [hn, close_literal S k i _ r' e3]
        have hr'' : r'.length < n := by omega
        have := ih r' (i + 1 + s.length) (S ++ [1, i, i + 1 + s.length]) k hr'' (by simp; omega)
        rw [this]
        cases splitFuel n r' with
        | none => simp
        | some segs =>
          simp [encodeSegs, holes]
          constructor
          · omega
          · congr 1; omega

/-! ### the fill loop -/

section
variable {ν κ : Type} (env : Env ν κ)

/-- the fill loop in terms of segments -/
def fillRef : List Seg → List (Arg ν κ) → Except FmtErr (List (List Nat))
  | [], _ => .ok []
  | .lit s :: r, args => (fillRef r args).map (s :: ·)
  | .hole _ :: _, [] => .error .panic
  | .hole d :: r, a :: args =>
    match elementToString env d a with
    | .error e => .error e
    | .ok str => (fillRef r args).map (str :: ·)

theorem drop_take_mid (pre s x : List Nat) : ((pre ++ (s ++ x)).drop pre.length).take s.length = s := by
  simp

/-- the slices `formatStrRune[start:end]` named by the stack are the segments' texts: no slice is out of range -/
theorem fill_encode : ∀ (segs : List Seg) (pre : List Nat) (args : List (Arg ν κ)),
    fill env (pre ++ unparse segs) (encodeSegs pre.length segs) args = fillRef env segs args := by
  intro segs
  induction segs with
  | nil => intro pre args; simp [encodeSegs, fill, fillRef]
  | cons sg r ih =>
    intro pre args
    cases sg with
    | lit s =>
      have hguard : pre.length ≤ pre.length + s.length ∧
          pre.length + s.length ≤ (pre ++ unparse (Seg.lit s :: r)).length := by
        simp [unparse]
      have hslice : ((pre ++ unparse (Seg.lit s :: r)).drop pre.length).take (pre.length + s.length - pre.length) = s := by
        have : pre.length + s.length - pre.length = s.length := by omega
        rw [this]; simp [unparse]
      simp only [encodeSegs, fill, hguard, and_self, if_true, hslice, FormatDFA.scan_fmtTypeLiteral, fillRef]
      have := ih (pre ++ s) args
      simp only [List.length_append, List.append_assoc] at this
      simp only [unparse]
      rw [this]
    | hole d =>
      have hguard : pre.length + 1 ≤ pre.length + 1 + d.length ∧
          pre.length + 1 + d.length ≤ (pre ++ unparse (Seg.hole d :: r)).length := by
        simp [unparse]; omega
      have hslice : ((pre ++ unparse (Seg.hole d :: r)).drop (pre.length + 1)).take (pre.length + 1 + d.length - (pre.length + 1)) = d := by
        have h1 : pre.length + 1 + d.length - (pre.length + 1) = d.length := by omega
        have h2 : pre ++ unparse (Seg.hole d :: r) = (pre ++ [0x7B]) ++ (d ++ 0x7D :: unparse r) := by simp [unparse]
        have h3 : pre.length + 1 = (pre ++ [0x7B]).length := by simp
        rw [h1, h2, h3]
        exact drop_take_mid _ _ _
      have hih := ih (pre ++ 0x7B :: (d ++ [0x7D])) args
      have hlen : (pre ++ 0x7B :: (d ++ [0x7D])).length = pre.length + d.length + 2 := by simp; omega
      have htxt : pre ++ 0x7B :: (d ++ [0x7D]) ++ unparse r = pre ++ unparse (Seg.hole d :: r) := by simp [unparse]
      rw [hlen, htxt] at hih
      cases args with
      | nil =>
        simp only [encodeSegs, fill, hguard, and_self, if_true, hslice, FormatDFA.scan_fmtTypeLiteral,
          FormatDFA.scan_fmtTypeFormatter, fillRef]
        simp
      | cons a args' =>
        have hih' := ih (pre ++ 0x7B :: (d ++ [0x7D])) args'
        rw [hlen, htxt] at hih'
        simp only [encodeSegs, fill, hguard, and_self, if_true, hslice, FormatDFA.scan_fmtTypeLiteral,
          FormatDFA.scan_fmtTypeFormatter, fillRef]
        simp only [show ¬ (2 = 1) by decide, if_false]
        cases elementToString env d a with
        | error e => rfl
        | ok str => simp only [hih']

/-! ### one placeholder -/

theorem sprint_render (dir : Directive) (x : ν) :
    sprintFlags env (stateOf dir).flags x = renderNum env dir x := by
  obtain ⟨plus, prec, style⟩ := dir
  cases style <;> cases prec <;> simp [sprintFlags, DirSt.flags, stateOf, renderNum]

theorem parseNumberFormatter_spec (d : List Nat) (x : ν) :
    parseNumberFormatter env d x =
      match (parseDirective d).filter Directive.withinLimit with
      | none => .error .badDirective
      | some dir => .ok (renderNum env dir x) := by
  unfold parseNumberFormatter
  rw [dirRun_eq]
  cases (parseDirective d).filter Directive.withinLimit with
  | none => rfl
  | some dir => simp [sprint_render]

theorem elementToString_render (d : List Nat) (a : Arg ν κ) :
    (elementToString env d a).toOption = render env d a := by
  cases d with
  | nil => cases a <;> rfl
  | cons c rest =>
    by_cases hc : c = 0x23
    · subst hc
      cases a with
      | num x =>
        simp only [elementToString, render, if_true, parseNumberFormatter_spec]
        cases hp : parseDirective rest with
        | none => simp [Option.filter]; rfl
        | some dir =>
          by_cases hw : dir.withinLimit = true
          · simp [Option.filter, hw]; rfl
          · simp [Option.filter, hw]; rfl
      | plain v =>
        simp only [elementToString, render, if_true]
        cases parseDirective rest <;> rfl
      | other =>
        simp only [elementToString, render, if_true]
        cases parseDirective rest <;> rfl
    · simp [elementToString, render, hc]; rfl

theorem elementToString_ne_panic (d : List Nat) (a : Arg ν κ) : elementToString env d a ≠ .error .panic := by
  cases d with
  | nil => cases a <;> simp [elementToString]
  | cons c rest =>
    by_cases hc : c = 0x23
    · subst hc
      cases a with
      | num x =>
        simp only [elementToString, if_true, parseNumberFormatter_spec]
        cases (parseDirective rest).filter Directive.withinLimit <;> simp
      | plain v => simp [elementToString]
      | other => simp [elementToString]
    · simp [elementToString, hc]

/-! ### segments and arguments -/

theorem fillSegs_length : ∀ (segs : List Seg) (args : List (Arg ν κ)) (out : List Nat),
    fillSegs env segs args = some out → args.length = (holes segs).length := by
  intro segs
  induction segs with
  | nil =>
    intro args out h
    cases args with
    | nil => rfl
    | cons a r => simp [fillSegs] at h
  | cons sg r ih =>
    intro args out h
    cases sg with
    | lit s =>
      simp only [fillSegs] at h
      cases hr : fillSegs env r args with
      | none => simp [hr] at h
      | some o => simpa [holes] using ih args o hr
    | hole d =>
      cases args with
      | nil => simp [fillSegs] at h
      | cons a args' =>
        simp only [fillSegs] at h
        cases hx : render env d a with
        | none => simp [hx] at h
        | some x =>
          simp only [hx] at h
          cases hr : fillSegs env r args' with
          | none => simp [hr] at h
          | some o => simpa [holes] using ih args' o hr

theorem fillRef_spec : ∀ (segs : List Seg) (args : List (Arg ν κ)), args.length = (holes segs).length →
    ((fillRef env segs args).map List.flatten).toOption = fillSegs env segs args ∧
    fillRef env segs args ≠ .error .panic := by
  intro segs
  induction segs with
  | nil =>
    intro args h
    cases args with
    | nil => exact ⟨rfl, by simp [fillRef]⟩
    | cons a r => simp [holes] at h
  | cons sg r ih =>
    intro args h
    cases sg with
    | lit s =>
      obtain ⟨h1, h2⟩ := ih args (by simpa [holes] using h)
      simp only [fillRef, fillSegs]
      cases hr : fillRef env r args with
      | error e =>
        rw [hr] at h1 h2
        refine ⟨?_, ?_⟩
        · rw [← h1]; rfl
        · intro hc; apply h2; cases e <;> simp_all [Except.map]
      | ok pieces =>
        rw [hr] at h1
        refine ⟨?_, by simp [Except.map]⟩
        rw [← h1]
        simp [Except.map, Except.toOption]
    | hole d =>
      cases args with
      | nil => simp [holes] at h
      | cons a args' =>
        obtain ⟨h1, h2⟩ := ih args' (by simpa [holes] using h)
        have hr := elementToString_render env d a
        have hp := elementToString_ne_panic env d a
        simp only [fillRef, fillSegs]
        cases he : elementToString env d a with
        | error e =>
          rw [he] at hr hp
          refine ⟨?_, ?_⟩
          · rw [← hr]; rfl
          · simpa using hp
        | ok str =>
          rw [he] at hr
          have hr' : render env d a = some str := by rw [← hr]; rfl
          simp only [hr']
          cases hf : fillRef env r args' with
          | error e =>
            rw [hf] at h1 h2
            refine ⟨?_, ?_⟩
            · rw [← h1]; rfl
            · intro hc; apply h2; cases e <;> simp_all [Except.map]
          | ok pieces =>
            rw [hf] at h1
            refine ⟨?_, by simp [Except.map]⟩
            rw [← h1]
            simp [Except.map, Except.toOption]

/-- when filling fails (spec level): the numbers differ, or some placeholder cannot render its element -/
theorem fillSegs_none_iff : ∀ (segs : List Seg) (args : List (Arg ν κ)),
    fillSegs env segs args = none ↔
      (args.length ≠ (holes segs).length ∨
       ∃ (k : Nat) (d : List Nat) (a : Arg ν κ), (holes segs)[k]? = some d ∧ args[k]? = some a ∧ render env d a = none) := by
  intro segs
  induction segs with
  | nil =>
    intro args
    cases args with
    | nil => simp [fillSegs, holes]
    | cons a r => simp [fillSegs, holes]
  | cons sg r ih =>
    intro args
    cases sg with
    | lit s =>
      simp only [fillSegs, holes, Option.map_eq_none_iff]
      exact ih args
    | hole d =>
      cases args with
      | nil => simp [fillSegs, holes]
      | cons a args' =>
        simp only [fillSegs, holes]
        cases hx : render env d a with
        | none =>
          simp only [true_iff]
          exact Or.inr ⟨0, d, a, rfl, rfl, hx⟩
        | some x =>
          simp only [Option.map_eq_none_iff]
          rw [ih args']
          constructor
          · rintro (h | ⟨k, d', a', h1, h2, h3⟩)
            · exact Or.inl (by simpa using h)
            · exact Or.inr ⟨k + 1, d', a', by simpa using h1, by simpa using h2, h3⟩
          · rintro (h | ⟨k, d', a', h1, h2, h3⟩)
            · exact Or.inl (by simpa using h)
            · cases k with
              | zero =>
                simp at h1 h2
                subst h1; subst h2
                rw [hx] at h3; simp at h3
              | succ k => exact Or.inr ⟨k, d', a', by simpa using h1, by simpa using h2, h3⟩

/-- when one placeholder fails (spec level) -/
theorem render_nil_none_iff (a : Arg ν κ) : render env [] a = none ↔ a = .other := by
  cases a <;> simp [render]

theorem render_cons_none_iff (c : Nat) (rest : List Nat) (a : Arg ν κ) :
    render env (c :: rest) a = none ↔
      (c ≠ 0x23 ∨ (∀ x, a ≠ .num x) ∨ ∀ dir, parseDirective rest = some dir → dir.withinLimit = false) := by
  by_cases hc : c = 0x23
  · subst hc
    simp only [render, if_true, ne_eq, not_true_eq_false, false_or]
    cases a with
    | num x =>
      cases hp : parseDirective rest with
      | none => simp
      | some dir =>
        by_cases hw : dir.withinLimit = true
        · simp [hw]
        · simp [hw]
    | plain v => cases parseDirective rest <;> simp
    | other => cases parseDirective rest <;> simp
  · simp [render, hc]

/-! ### `formatString` in closed form -/

/-- the part of `formatString` after the scanner -/
def afterScan (t : List Nat) (args : List (Arg ν κ)) : Option (List Nat × Nat) → Except FmtErr (List Nat)
  | none => .error .invalidTemplate
  | some (stack, cnt) =>
    if args.length ≠ cnt then .error .unmatchParams else (fill env t stack args).map List.flatten

theorem formatString_afterScan (t : List Nat) (args : List (Arg ν κ)) :
    formatString env t args = afterScan env t args (finish (scanLoop ⟨1, [], 0⟩ 0 t) t.length) := by
  have e1 : FormatDFA.scanBegin = 1 := rfl
  have e2 : FormatDFA.scanCloseState = 2 := rfl
  have e3 : FormatDFA.scanModulus = 3 := rfl
  unfold formatString
  rw [e1]
  cases scanLoop ⟨1, [], 0⟩ 0 t with
  | none => rfl
  | some s =>
    simp only [e2, e3, finish]
    by_cases hmod : (if s.state = 2 then s.stack ++ [t.length] else s.stack).length % 3 ≠ 0
    · rw [if_pos hmod, if_pos hmod]; rfl
    · rw [if_neg hmod, if_neg hmod]; rfl

theorem formatString_exact (t : List Nat) (args : List (Arg ν κ)) :
    formatString env t args =
      match split t with
      | none => .error .invalidTemplate
      | some segs =>
        if args.length ≠ (holes segs).length then .error .unmatchParams
        else (fillRef env segs args).map List.flatten := by
  have hscan := scan_split (t.length + 1) t 0 [] 0 (by omega) (by simp)
  simp only [Nat.zero_add, List.nil_append] at hscan
  have hsplit : splitFuel (t.length + 1) t = split t := rfl
  rw [hsplit] at hscan
  rw [formatString_afterScan, hscan]
  cases hsp : split t with
  | none => rfl
  | some segs =>
    have hu := (split_sound t segs hsp).1
    simp only [Option.map_some, afterScan]
    by_cases hn : args.length ≠ (holes segs).length
    · rw [if_pos hn, if_pos hn]
    · rw [if_neg hn, if_neg hn]
      have := fill_encode env segs [] args
      simp only [List.nil_append, List.length_nil, hu] at this
      rw [this]

end

end ZnVerif.Proofs.Format
