/-
The model side of the regenerated site inventories of the evaluator (Generated/FrameSites.lean, CopySites.lean,
OperatorDispatch.lean — written by /verif/extract from pkg/exec, pkg/runtime, pkg/value on every run).

Each list below is written by hand: one entry per site of the Go code, holding the record the extractor is expected to
produce and the definition of the model that mirrors the site.  `Mirror.interp d` / `Mirror.modules d` carry the NAME of
the mirroring definition, written ``d so that Lean checks it exists (renaming or deleting the definition breaks this
file).  The theorems `frame_sites_all_modelled`, `frame_primitives_all_modelled` (Properties/C09Sites.lean),
`copy_sites_all_modelled` (Properties/C07Sites.lean) and `operator_dispatch_as_modelled` (Properties/C01Dispatch.lean)
state that the regenerated tables are exactly these lists: a call added, removed, moved under another guard or behind
another early return, a copy dropped, two operators swapped in the Go code changes the regenerated table and the
theorem stops checking (→ broken obligation of C06 / C08 / C09 / C18, C07, C01; DESIGN §4).

To accept a change of the Go code: mirror it in the model, then replace the entries (`python3 tools/props/sites.py print
frame|prim|copy|dispatch` prints the regenerated records in this file's notation).
Conventions of the records: Generated/FrameSites.lean.
-/
import ZnVerif.Model.Interp
import ZnVerif.Model.Modules
import ZnVerif.Generated.FrameSites
import ZnVerif.Generated.CopySites
import ZnVerif.Generated.OperatorDispatch

namespace ZnVerif.Proofs.EvalSites
open ZnVerif.Generated

/-- which definition of the model mirrors a site of the Go code -/
inductive Mirror where
  /-- a definition of Model/Interp.lean (the evaluator model of C01 C02 C06 C07 C08 C09 C18) -/
  | interp (d : Lean.Name)
  /-- a definition of Model/Modules.lean (the loader model of C15; it has its own frames and scopes) -/
  | modules (d : Lean.Name)
  /-- mirrored by a model change that is prepared together with the Go change and not yet part of this tree -/
  | pending (what : String)
  /-- deliberately outside every model; `why` says what stands in -/
  | notModelled (why : String)

def Mirror.inEvaluatorModel : Mirror → Bool
  | .interp _ => true
  | .pending _ => true
  | _ => false

structure ModelledFrameSite where
  site : FrameSites.Site
  mirror : Mirror
  how : String

structure ModelledPrim where
  prim : FrameSites.Prim
  mirror : Mirror
  how : String

structure ModelledCopySite where
  site : CopySites.Site
  mirror : Mirror
  how : String

structure ModelledDispatch where
  entry : OperatorDispatch.Entry
  /-- what `Model.evalExpr` / `Model.compareXEQ` does at this point -/
  model : String

/-! ## call frames and scopes -/

def modelledFrameSites : List ModelledFrameSite := [
  ⟨⟨"exec.(*RuntimeErrorWrapper).Error", "(*runtime.VM).GetCallStack", 1, "‹[]*runtime.CallFrame› := □()", "", 0⟩,
    .interp ``ZnVerif.Model.listedFrames, "the printer walks vm.stack bottom → top: the head frame, then the body frames"⟩,
  ⟨⟨"exec.(*RuntimeErrorWrapper).Error", "(*runtime.CallFrame).HasStarted", 2, "if !‹bool› && !□()", "if len(‹[]*runtime.CallFrame›) > 0 ▸ range ‹[]*runtime.CallFrame›[1:] ▸ if ‹*runtime.Module› != nil", 0⟩,
    .interp ``ZnVerif.Model.listedFrames, "body.filter fun fr => fr.isNative vm || fr.started: a body frame of a program module in which no statement began is not listed (fix a251a86 = 07d6063 in /repo)"⟩,
  ⟨⟨"exec.EvalMainModule", "(*runtime.VM).PushCallFrame", 1, "□(runtime.NewScriptCallFrame(‹*runtime.Module›))", "", 0⟩,
    .interp ``ZnVerif.Model.runProgram, "pushFrame { moduleId := 0, callType := 1 }"⟩,
  ⟨⟨"exec.EvalMainModule", "(*runtime.VM).PopCallFrame", 2, "□()", "if ‹error› == nil", 0⟩,
    .interp ``ZnVerif.Model.runProgram, "popFrame only after evalExecBlock answered ok (the bind skips it on an error: the frame stays)"⟩,
  ⟨⟨"exec.evalConstructorDeclareStmt·func1", "(*runtime.VM).PushCallFrame", 1, "□(runtime.NewFunctionCallFrame(‹*runtime.Module›, ‹runtime.Element#f1›))", "", 0⟩,
    .interp ``ZnVerif.Model.construct, "Ctor.user: pushFrame { moduleId := mid, callType := 2, this := some inst }"⟩,
  ⟨⟨"exec.evalConstructorDeclareStmt·func1", "(*runtime.VM).PopCallFrame", 2, "□()", "", 1⟩,
    .interp ``ZnVerif.Model.construct, "popFrame after evalExecBlock answered ok; one earlier exit = the frame of a failed constructor stays"⟩,
  ⟨⟨"exec.evalExecBlock", "(*runtime.VM).BeginBoundScope", 1, "‹func()› := □()", "", 0⟩,
    .interp ``ZnVerif.Model.evalExecBlock, "withScope"⟩,
  ⟨⟨"exec.evalExecBlock", "result of (*runtime.VM).BeginBoundScope", 2, "defer □()", "", 0⟩,
    .interp ``ZnVerif.Model.withScope, "tryCatch body … endBoundScope h: runs on every outcome (defer)"⟩,
  ⟨⟨"exec.evalExecBlock", "(*runtime.VM).GetCallStack", 3, "‹int› := len(□())", "", 0⟩,
    .interp ``ZnVerif.Model.evalExecBlock, "blockDepth := vm.stack.length, handed to handleException / unwindTo"⟩,
  ⟨⟨"exec.evalImportStmt", "(*runtime.VM).SetCurrentLine", 1, "□(‹*syntax.ImportStmt#2›.GetCurrentLine())", "", 0⟩,
    .notModelled "programs with 导入 are outside the evaluator model (runProgram answers .unmodelled); the loader model has no line numbers", "fix bb235b6 (already in /repo)"⟩,
  ⟨⟨"exec.evalImportStmt", "(*runtime.VM).PushCallFrame", 2, "□(runtime.NewScriptCallFrame(‹*runtime.Module›))", "switch ‹runtime.LibNameInfo›.LibType case runtime.LIB_TYPE_STD", 1⟩,
    .modules ``ZnVerif.Model.Modules.evalImport, ".std: a.1.pushFrame a.2 around the copy of the library's exports"⟩,
  ⟨⟨"exec.evalImportStmt", "(*runtime.VM).PopCallFrame", 3, "□()", "switch ‹runtime.LibNameInfo›.LibType case runtime.LIB_TYPE_STD", 1⟩,
    .modules ``ZnVerif.Model.Modules.evalImport, ".std: vm2.popFrame; the one earlier exit (library not found, 64) is before the push"⟩,
  ⟨⟨"exec.evalIterateStmt", "(*runtime.VM).BeginBoundScope", 1, "‹func()› := □()", "", 0⟩,
    .interp ``ZnVerif.Model.evalStmt, ".iterate: withScope around target evaluation, slot declarations and all passes"⟩,
  ⟨⟨"exec.evalIterateStmt", "result of (*runtime.VM).BeginBoundScope", 2, "defer □()", "", 0⟩,
    .interp ``ZnVerif.Model.withScope, "defer"⟩,
  ⟨⟨"exec.evalIterateStmt·func2", "(*runtime.VM).GetReturnValue", 1, "return □() != nil", "", 0⟩,
    .interp ``ZnVerif.Model.evalStmt, ".iterate, `pass`: after a pass that answered ok, getReturnValue ≠ none stops the loop"⟩,
  ⟨⟨"exec.evalPureStmtBlock", "(*runtime.VM).BeginBoundScope", 1, "‹func()› := □()", "", 0⟩,
    .interp ``ZnVerif.Model.evalPureStmtBlock, "withScope (stmtsLoop …)"⟩,
  ⟨⟨"exec.evalPureStmtBlock", "result of (*runtime.VM).BeginBoundScope", 2, "defer □()", "", 0⟩,
    .interp ``ZnVerif.Model.withScope, "defer"⟩,
  ⟨⟨"exec.evalPureStmtBlock", "(*runtime.VM).GetReturnValue", 3, "‹runtime.Element› := □()", "range ‹*syntax.StmtBlock#2›.Children", 1⟩,
    .interp ``ZnVerif.Model.stmtsLoop, "the return slot of the top frame is polled after every statement, definitions included"⟩,
  ⟨⟨"exec.evalStatement", "(*runtime.VM).SetCurrentLine", 1, "□(‹syntax.Statement#2›.GetCurrentLine())", "", 0⟩,
    .interp ``ZnVerif.Model.evalStmt, "setTopFrame fun fr => { fr with line := st.line }, before anything of the statement runs"⟩,
  ⟨⟨"exec.evalStatement", "(*runtime.VM).SetReturnValue", 2, "□(‹runtime.Element›)", "typeswitch ‹syntax.Statement#2› case *syntax.FunctionReturnStmt", 1⟩,
    .interp ``ZnVerif.Model.evalStmt, ".ret: setTopFrame fun fr => { fr with ret := some v } after the expression was evaluated"⟩,
  ⟨⟨"exec.evalStmtBlock", "(*runtime.VM).SetCurrentLine", 1, "□(‹*syntax.ClassDeclareStmt›.GetCurrentLine())", "range ‹*syntax.StmtBlock#2›.Children ▸ typeswitch ‹syntax.Statement› case *syntax.ClassDeclareStmt", 0⟩,
    .interp ``ZnVerif.Model.evalStmtBlock, "setTopFrame (line := st.line, started := true) before evalClassDecl: hoisted type declaration (fix d0d2970 = 3dd0705 in /repo)"⟩,
  ⟨⟨"exec.evalStmtBlock", "(*runtime.VM).SetCurrentLine", 2, "□(‹*syntax.FunctionDeclareStmt›.GetCurrentLine())", "range ‹*syntax.StmtBlock#2›.Children ▸ typeswitch ‹syntax.Statement› case *syntax.FunctionDeclareStmt", 0⟩,
    .interp ``ZnVerif.Model.evalStmtBlock, "setTopFrame (line := st.line, started := true) before evalFuncDecl / evalCtorDecl: hoisted method / constructor declaration (fix d0d2970 = 3dd0705 in /repo)"⟩,
  ⟨⟨"exec.evalWhileLoopStmt", "(*runtime.VM).SetCurrentLine", 1, "□(‹*syntax.WhileLoopStmt#2›.GetCurrentLine())", "for", 0⟩,
    .interp ``ZnVerif.Model.evalStmt, ".while: setTopFrame (line := l, started := true) at the top of every pass, before the condition is evaluated (fix e514e52 = 5404a4e in /repo)"⟩,
  ⟨⟨"exec.evalWhileLoopStmt", "(*runtime.VM).GetReturnValue", 2, "if □() != nil", "for", 5⟩,
    .interp ``ZnVerif.Model.evalStmt, ".while: after a pass that answered ok, getReturnValue ≠ none ends the loop"⟩,
  ⟨⟨"exec.execAnotherModule", "(*runtime.VM).PushCallFrame", 1, "□(‹*runtime.CallFrame›)", "if ‹runtime.ModuleCodeFinder› := ‹*runtime.VM#1›.GetModuleCodeFinder(); ‹runtime.ModuleCodeFinder› != nil", 2⟩,
    .modules ``ZnVerif.Model.Modules.loadModule, "(a.1.pushFrame a.2) before evalProgram; 2 earlier exits: module not found, syntax error"⟩,
  ⟨⟨"exec.execAnotherModule", "(*runtime.VM).BeginScope", 2, "□()", "if ‹runtime.ModuleCodeFinder› := ‹*runtime.VM#1›.GetModuleCodeFinder(); ‹runtime.ModuleCodeFinder› != nil", 3⟩,
    .modules ``ZnVerif.Model.Modules.loadModule, "redeclareExports vm2.beginScope …: never closed (the frame is popped instead)"⟩,
  ⟨⟨"exec.execAnotherModule", "(*runtime.VM).PopCallFrame", 3, "□()", "if ‹runtime.ModuleCodeFinder› := ‹*runtime.VM#1›.GetModuleCodeFinder(); ‹runtime.ModuleCodeFinder› != nil", 4⟩,
    .modules ``ZnVerif.Model.Modules.loadModule, "vm3.popFrame; a failing body or redeclaration leaves the frame"⟩,
  ⟨⟨"exec.execDirectFunction", "(*runtime.VM).PushCallFrame", 1, "□(‹*runtime.CallFrame›)", "", 1⟩,
    .interp ``ZnVerif.Model.execDirectFunction, "pushFrame { moduleId := mid, callType := 2 } BEFORE the check that the value is a method"⟩,
  ⟨⟨"exec.execDirectFunction", "(*runtime.VM).PopCallFrame", 2, "□()", "else(‹runtime.Element›, ‹error› := ‹*value.Function›.Exec(nil, ‹[]runtime.Element#3›); ‹error› != nil)", 2⟩,
    .interp ``ZnVerif.Model.execDirectFunction, "popFrame only when execFunction answered ok"⟩,
  ⟨⟨"exec.execMethodFunction", "(*runtime.VM).PushCallFrame", 1, "□(‹*runtime.CallFrame›)", "typeswitch ‹runtime.Element#2› case *value.Object", 1⟩,
    .interp ``ZnVerif.Model.execMethodFunction, ".obj: pushFrame { moduleId := mid, callType := 2, this := some root }"⟩,
  ⟨⟨"exec.execMethodFunction", "(*runtime.VM).PushCallFrame", 2, "□(‹*runtime.CallFrame›)", "typeswitch ‹runtime.Element#2› default", 0⟩,
    .interp ``ZnVerif.Model.execMethodFunction, "other receivers: pushFrame { moduleId := -1, callType := 2, this := some root }"⟩,
  ⟨⟨"exec.execMethodFunction", "(*runtime.VM).PopCallFrame", 3, "□()", "if ‹error› == nil", 1⟩,
    .interp ``ZnVerif.Model.execMethodFunction, "popFrame after the method answered ok (written once per branch in the model)"⟩,
  ⟨⟨"exec.handleExceptionSignal", "(*runtime.VM).GetCallStack", 1, "for len(□()) > ‹int#3›", "range ‹[]*syntax.CatchBlockPair#4› ▸ if ‹string› != \"\" && ‹*runtime.IDName›.GetLiteral() == ‹string›", 2⟩,
    .interp ``ZnVerif.Model.unwindTo, "the loop condition len(stack) > blockDepth"⟩,
  ⟨⟨"exec.handleExceptionSignal", "(*runtime.VM).PopCallFrame", 2, "□()", "range ‹[]*syntax.CatchBlockPair#4› ▸ if ‹string› != \"\" && ‹*runtime.IDName›.GetLiteral() == ‹string› ▸ for len(‹*runtime.VM#1›.GetCallStack()) > ‹int#3›", 2⟩,
    .interp ``ZnVerif.Model.unwindTo, "drops the frames of the calls that failed inside the protected block"⟩,
  ⟨⟨"exec.handleExceptionSignal", "(*runtime.VM).PushCallFrame", 3, "□(‹*runtime.CallFrame›)", "range ‹[]*syntax.CatchBlockPair#4› ▸ if ‹string› != \"\" && ‹*runtime.IDName›.GetLiteral() == ‹string›", 2⟩,
    .interp ``ZnVerif.Model.handleException, "pushFrame { moduleId := blockModule, callType := 3, this := some ex }"⟩,
  ⟨⟨"exec.handleExceptionSignal", "(*runtime.VM).GetReturnValue", 4, "‹runtime.Element› := □()", "range ‹[]*syntax.CatchBlockPair#4› ▸ if ‹string› != \"\" && ‹*runtime.IDName›.GetLiteral() == ‹string› ▸ if ‹error› == nil", 2⟩,
    .interp ``ZnVerif.Model.handleException, "getReturnValue of the handler frame, read before it is popped"⟩,
  ⟨⟨"exec.handleExceptionSignal", "(*runtime.VM).PopCallFrame", 5, "□()", "range ‹[]*syntax.CatchBlockPair#4› ▸ if ‹string› != \"\" && ‹*runtime.IDName›.GetLiteral() == ‹string› ▸ if ‹error› == nil", 2⟩,
    .interp ``ZnVerif.Model.handleException, "popFrame only when the handler block answered ok"⟩,
  ⟨⟨"runtime.(*VM).BeginBoundScope", "(*runtime.Scope).BeginScope", 1, "□()", "", 1⟩,
    .interp ``ZnVerif.Model.beginBoundScope, "putScope s.csModuleID sc.beginScope"⟩,
  ⟨⟨"runtime.(*VM).BeginBoundScope", "(*runtime.Scope).EndScope (method value)", 2, "return □", "", 1⟩,
    .interp ``ZnVerif.Model.endBoundScope, "the closer is bound to the scope of the module current at BEGIN time (Option Int handle)"⟩,
  ⟨⟨"runtime.(*VM).BeginScope", "(*runtime.Scope).BeginScope", 1, "□()", "if ‹*runtime.Scope› != nil", 0⟩,
    .modules ``ZnVerif.Model.Modules.VM.beginScope, "only execAnotherModule calls it"⟩,
  ⟨⟨"runtime.(*VM).EndScope", "(*runtime.Scope).EndScope", 1, "□()", "if ‹*runtime.Scope› != nil", 0⟩,
    .notModelled "no caller in pkg/exec, pkg/runtime, pkg/value (vm_EndScope_has_no_caller)", ""⟩,
  ⟨⟨"runtime.(*VM).SetCurrentLine", "(*runtime.CallFrame).SetCurrentLine", 1, "□(‹int#1›)", "if ‹*runtime.CallFrame› != nil", 0⟩,
    .interp ``ZnVerif.Model.setTopFrame, "no frame ⇒ nothing happens"⟩]

/-- the bodies of the tracked methods of runtime.VM / Scope / CallFrame, statement by statement -/
def modelledFramePrimitives : List ModelledPrim := [
  ⟨⟨"runtime.(*CallFrame).HasStarted", 1, "", "return recv.lineSet"⟩,
    .interp ``ZnVerif.Model.Frame.started, "read by listedFrames (fix a251a86 = 07d6063 in /repo)"⟩,
  ⟨⟨"runtime.(*CallFrame).SetCurrentLine", 1, "", "recv.currentLine = ‹int#1›"⟩,
    .interp ``ZnVerif.Model.setTopFrame, "line := …, started := true (`lineSet = true`: fix a251a86 = 07d6063 in /repo)"⟩,
  ⟨⟨"runtime.(*CallFrame).SetCurrentLine", 2, "", "recv.lineSet = true"⟩,
    .interp ``ZnVerif.Model.setTopFrame, "line := …, started := true (`lineSet = true`: fix a251a86 = 07d6063 in /repo)"⟩,
  ⟨⟨"runtime.(*Scope).BeginScope", 1, "", "recv.currentDepth++"⟩,
    .interp ``ZnVerif.Model.Scope.beginScope, ""⟩,
  ⟨⟨"runtime.(*Scope).EndScope", 1, "", "recv.currentDepth--"⟩,
    .interp ``ZnVerif.Model.Scope.endScope, "depth − 1, then drop the symbols deeper than it"⟩,
  ⟨⟨"runtime.(*Scope).EndScope", 2, "for recv.localCount > 0 && recv.locals[recv.localCount - 1].depth > recv.currentDepth", "recv.localCount--"⟩,
    .interp ``ZnVerif.Model.Scope.endScope, "depth − 1, then drop the symbols deeper than it"⟩,
  ⟨⟨"runtime.(*VM).BeginBoundScope", 1, "", "‹*runtime.Scope› := recv.getCurrentScope()"⟩,
    .interp ``ZnVerif.Model.beginBoundScope, "no scope for the current module ⇒ handle none, closer does nothing"⟩,
  ⟨⟨"runtime.(*VM).BeginBoundScope", 2, "if ‹*runtime.Scope› == nil", "return func{…}"⟩,
    .interp ``ZnVerif.Model.beginBoundScope, "no scope for the current module ⇒ handle none, closer does nothing"⟩,
  ⟨⟨"runtime.(*VM).BeginBoundScope", 3, "", "‹*runtime.Scope›.BeginScope()"⟩,
    .interp ``ZnVerif.Model.beginBoundScope, "no scope for the current module ⇒ handle none, closer does nothing"⟩,
  ⟨⟨"runtime.(*VM).BeginBoundScope", 4, "", "return ‹*runtime.Scope›.EndScope"⟩,
    .interp ``ZnVerif.Model.beginBoundScope, "no scope for the current module ⇒ handle none, closer does nothing"⟩,
  ⟨⟨"runtime.(*VM).BeginScope", 1, "", "‹*runtime.Scope› := recv.getCurrentScope()"⟩,
    .modules ``ZnVerif.Model.Modules.VM.beginScope, ""⟩,
  ⟨⟨"runtime.(*VM).BeginScope", 2, "if ‹*runtime.Scope› != nil", "‹*runtime.Scope›.BeginScope()"⟩,
    .modules ``ZnVerif.Model.Modules.VM.beginScope, ""⟩,
  ⟨⟨"runtime.(*VM).EndScope", 1, "", "‹*runtime.Scope› := recv.getCurrentScope()"⟩,
    .notModelled "no caller", ""⟩,
  ⟨⟨"runtime.(*VM).EndScope", 2, "if ‹*runtime.Scope› != nil", "‹*runtime.Scope›.EndScope()"⟩,
    .notModelled "no caller", ""⟩,
  ⟨⟨"runtime.(*VM).GetCallStack", 1, "", "return recv.callStack[:recv.csCount]"⟩,
    .interp ``ZnVerif.Model.stackDepth, "only its length is read by the evaluator"⟩,
  ⟨⟨"runtime.(*VM).GetReturnValue", 1, "", "‹*runtime.CallFrame› := recv.getCurrentCallFrame()"⟩,
    .interp ``ZnVerif.Model.getReturnValue, "no frame ⇒ none"⟩,
  ⟨⟨"runtime.(*VM).GetReturnValue", 2, "if ‹*runtime.CallFrame› != nil", "return ‹*runtime.CallFrame›.returnValue"⟩,
    .interp ``ZnVerif.Model.getReturnValue, "no frame ⇒ none"⟩,
  ⟨⟨"runtime.(*VM).GetReturnValue", 3, "", "return nil"⟩,
    .interp ``ZnVerif.Model.getReturnValue, "no frame ⇒ none"⟩,
  ⟨⟨"runtime.(*VM).PopCallFrame", 1, "", "recv.csCount -= 1"⟩,
    .interp ``ZnVerif.Model.popFrame, "empty stack ⇒ Go slice panic; csModuleID := module of the new top frame, −1 when none"⟩,
  ⟨⟨"runtime.(*VM).PopCallFrame", 2, "", "recv.callStack = recv.callStack[:recv.csCount]"⟩,
    .interp ``ZnVerif.Model.popFrame, "empty stack ⇒ Go slice panic; csModuleID := module of the new top frame, −1 when none"⟩,
  ⟨⟨"runtime.(*VM).PopCallFrame", 3, "if recv.csCount == 0", "recv.csModuleID = -1"⟩,
    .interp ``ZnVerif.Model.popFrame, "empty stack ⇒ Go slice panic; csModuleID := module of the new top frame, −1 when none"⟩,
  ⟨⟨"runtime.(*VM).PopCallFrame", 4, "else(recv.csCount == 0)", "recv.csModuleID = recv.callStack[recv.csCount - 1].module.GetID()"⟩,
    .interp ``ZnVerif.Model.popFrame, "empty stack ⇒ Go slice panic; csModuleID := module of the new top frame, −1 when none"⟩,
  ⟨⟨"runtime.(*VM).PushCallFrame", 1, "", "recv.callStack = append(recv.callStack, ‹*runtime.CallFrame#1›)"⟩,
    .interp ``ZnVerif.Model.pushFrame, "csModuleID := the frame's module; a scope is created for a module seen for the first time"⟩,
  ⟨⟨"runtime.(*VM).PushCallFrame", 2, "", "recv.csCount += 1"⟩,
    .interp ``ZnVerif.Model.pushFrame, "csModuleID := the frame's module; a scope is created for a module seen for the first time"⟩,
  ⟨⟨"runtime.(*VM).PushCallFrame", 3, "", "recv.csModuleID = ‹*runtime.CallFrame#1›.module.GetID()"⟩,
    .interp ``ZnVerif.Model.pushFrame, "csModuleID := the frame's module; a scope is created for a module seen for the first time"⟩,
  ⟨⟨"runtime.(*VM).PushCallFrame", 4, "", "recv.initValueStack(recv.csModuleID)"⟩,
    .interp ``ZnVerif.Model.pushFrame, "csModuleID := the frame's module; a scope is created for a module seen for the first time"⟩,
  ⟨⟨"runtime.(*VM).SetCurrentLine", 1, "", "‹*runtime.CallFrame› := recv.getCurrentCallFrame()"⟩,
    .interp ``ZnVerif.Model.setTopFrame, ""⟩,
  ⟨⟨"runtime.(*VM).SetCurrentLine", 2, "if ‹*runtime.CallFrame› != nil", "‹*runtime.CallFrame›.SetCurrentLine(‹int#1›)"⟩,
    .interp ``ZnVerif.Model.setTopFrame, ""⟩,
  ⟨⟨"runtime.(*VM).SetReturnValue", 1, "", "‹*runtime.CallFrame› := recv.getCurrentCallFrame()"⟩,
    .interp ``ZnVerif.Model.setTopFrame, ""⟩,
  ⟨⟨"runtime.(*VM).SetReturnValue", 2, "if ‹*runtime.CallFrame› != nil", "‹*runtime.CallFrame›.returnValue = ‹runtime.Element#1›"⟩,
    .interp ``ZnVerif.Model.setTopFrame, ""⟩,
  ⟨⟨"runtime.(*VM).getCurrentCallFrame", 1, "if recv.csCount == 0", "return nil"⟩,
    .interp ``ZnVerif.Model.topFrame, "s.stack.head?"⟩,
  ⟨⟨"runtime.(*VM).getCurrentCallFrame", 2, "", "return recv.callStack[recv.csCount - 1]"⟩,
    .interp ``ZnVerif.Model.topFrame, "s.stack.head?"⟩,
  ⟨⟨"runtime.(*VM).getCurrentScope", 1, "if ‹*runtime.Scope›, ‹bool› := recv.valueStack[recv.csModuleID]; ‹bool›", "return ‹*runtime.Scope›"⟩,
    .interp ``ZnVerif.Model.currentScope, "getScope s.csModuleID"⟩,
  ⟨⟨"runtime.(*VM).getCurrentScope", 2, "", "return nil"⟩,
    .interp ``ZnVerif.Model.currentScope, "getScope s.csModuleID"⟩,
  ⟨⟨"runtime.(*VM).initValueStack", 1, "if _, ‹bool› := recv.valueStack[‹int#1›]; !‹bool›", "recv.valueStack[‹int#1›] = NewScope()"⟩,
    .interp ``ZnVerif.Model.pushFrame, "match getScope fr.moduleId s with | some _ => s | none => putScope fr.moduleId {} s"⟩]

/-! ## copies (value.DuplicateValue) -/

def modelledCopySites : List ModelledCopySite := [
  ⟨⟨"exec.compileClass", 1, "‹runtime.Element›", "‹*value.ClassModel›.DefineProperty(‹string›, □)", "range ‹*syntax.ClassDeclareStmt#3›.PropertyList"⟩,
    .interp ``ZnVerif.Model.evalClassDecl, "let v' ← dup n v for every default property value: the type keeps its own copy of each default (fix e3083fb = 2990931 in /repo; Properties.C07.type_keeps_own_copy_of_default)"⟩,
  ⟨⟨"exec.evalIterateStmt·func1", 1, "‹runtime.Element#f2›", "‹runtime.Element#f2› = □", ""⟩,
    .interp ``ZnVerif.Model.evalStmt, ".iterate, `runBody`: let v ← dup n v — the loop variable holds a copy of the element (Properties.C07.iterate_binds_copy)"⟩,
  ⟨⟨"exec.evalVarAssignExpr", 1, "‹runtime.Element›", "‹runtime.Element› = □", ""⟩,
    .interp ``ZnVerif.Model.evalExpr, ".assign: let vr ← dup n vr before either kind of target (Properties.C07.assign_stores_copy, element_assign_stores_copy)"⟩,
  ⟨⟨"exec.evalVarDeclareStmt", 1, "‹runtime.Element›", "‹runtime.Element› = □", "range ‹*syntax.VarDeclareStmt#2›.AssignPair ▸ switch ‹syntax.VDAssignPair›.Type case syntax.VDTypeAssign, syntax.VDTypeAssignConst ▸ range ‹syntax.VDAssignPair›.Variables"⟩,
    .interp ``ZnVerif.Model.evalStmt, ".varDecl: cur' ← dup n cur for every declared name, each copy made from the previous one (Properties.C07.vardecl_stores_copy, vardecl_groups)"⟩,
  ⟨⟨"value.DuplicateValue", 1, "‹runtime.Element›", "‹[]runtime.Element› = append(‹[]runtime.Element›, □)", "typeswitch ‹runtime.Element#1› case *value.Array ▸ range ‹*value.Array›.value"⟩,
    .interp ``ZnVerif.Model.dup, ".arr: items.mapM (dup n)"⟩,
  ⟨⟨"value.DuplicateValue", 2, "‹*value.HashMap›.value[‹string›]", "‹runtime.Element› := □", "typeswitch ‹runtime.Element#1› case *value.HashMap ▸ range ‹*value.HashMap›.keyOrder"⟩,
    .interp ``ZnVerif.Model.dup, ".hm: every value in key order"⟩,
  ⟨⟨"value.NewObject", 1, "‹runtime.Element›", "‹map[string]runtime.Element›[‹string›] = □", "range ‹*value.ClassModel#1›.GetPropList() ▸ else(‹runtime.Element›, ‹bool› := ‹map[string]runtime.Element#2›[‹string›]; ‹bool›)"⟩,
    .interp ``ZnVerif.Model.construct, "props.mapM fun p => dup n p.2 (Properties.C07.new_object_copies_defaults); the initial-value branch does not exist in the model: nothing in the evaluator passes initial values"⟩,
  ⟨⟨"value.arrayExecAppend", 1, "‹[]runtime.Element#2›[0]", "‹*value.Array#1›.value = insertArrayValue(‹*value.Array#1›.value, len(‹*value.Array#1›.value), □)", ""⟩,
    .interp ``ZnVerif.Model.builtinMethod, "后增 (Properties.C07.push_back_is_mutation_through)"⟩,
  ⟨⟨"value.arrayExecInsert", 1, "‹[]runtime.Element#2›[0]", "‹*value.Array#1›.value = insertArrayValue(‹*value.Array#1›.value, ‹int›, □)", ""⟩,
    .interp ``ZnVerif.Model.builtinMethod, "新增 / 添加"⟩,
  ⟨⟨"value.arrayExecMerge", 1, "‹runtime.Element›", "‹[]runtime.Element› = append(‹[]runtime.Element›, □)", "range ‹[]runtime.Element#2› ▸ range ‹[]runtime.Element›"⟩,
    .interp ``ZnVerif.Model.builtinMethod, "合并: xs.mapM (dup n) for every argument list (Properties.C07.merge_stores_copies)"⟩,
  ⟨⟨"value.arrayExecPrepend", 1, "‹[]runtime.Element#2›[0]", "‹*value.Array#1›.value = insertArrayValue(‹*value.Array#1›.value, 0, □)", ""⟩,
    .interp ``ZnVerif.Model.builtinMethod, "前增"⟩,
  ⟨⟨"value.hmExecSet", 1, "‹[]runtime.Element#2›[1]", "‹*value.HashMap#1›.AppendKVPair(value.KVPair{‹string›, □})", ""⟩,
    .interp ``ZnVerif.Model.builtinMethod, "写入"⟩]

/-! ## operator dispatch (Model.evalExpr, branches `.logic` and `.arith`; numbers through `NumOps`) -/

def modelledOperatorDispatch : List ModelledDispatch := [
  ⟨⟨"exec.compareLogicGT", 1, "if l is *value.Number ▸ if r is *value.Number", "return l > r, nil"⟩, "NumOps.gt x y"⟩,
  ⟨⟨"exec.compareLogicGT", 2, "if l is *value.Number", "return false, error.InvalidCompareRType(\"number\")"⟩, "rtErr 84"⟩,
  ⟨⟨"exec.compareLogicGT", 3, "", "return false, error.InvalidCompareLType(\"number\")"⟩, "rtErr 83"⟩,
  ⟨⟨"exec.compareLogicGTE", 1, "if l is *value.Number ▸ if r is *value.Number", "return l >= r, nil"⟩, "NumOps.ge x y"⟩,
  ⟨⟨"exec.compareLogicGTE", 2, "if l is *value.Number", "return false, error.InvalidCompareRType(\"number\")"⟩, "rtErr 84"⟩,
  ⟨⟨"exec.compareLogicGTE", 3, "", "return false, error.InvalidCompareLType(\"number\")"⟩, "rtErr 83"⟩,
  ⟨⟨"exec.compareLogicLT", 1, "if l is *value.Number ▸ if r is *value.Number", "return l < r, nil"⟩, "NumOps.lt x y"⟩,
  ⟨⟨"exec.compareLogicLT", 2, "if l is *value.Number", "return false, error.InvalidCompareRType(\"number\")"⟩, "rtErr 84"⟩,
  ⟨⟨"exec.compareLogicLT", 3, "", "return false, error.InvalidCompareLType(\"number\")"⟩, "rtErr 83"⟩,
  ⟨⟨"exec.compareLogicLTE", 1, "if l is *value.Number ▸ if r is *value.Number", "return l <= r, nil"⟩, "NumOps.le x y"⟩,
  ⟨⟨"exec.compareLogicLTE", 2, "if l is *value.Number", "return false, error.InvalidCompareRType(\"number\")"⟩, "rtErr 84"⟩,
  ⟨⟨"exec.compareLogicLTE", 3, "", "return false, error.InvalidCompareLType(\"number\")"⟩, "rtErr 83"⟩,
  ⟨⟨"exec.evalArithExpr", 1, "if ‹error› != nil", "return nil, ‹error›"⟩, "error of an operand: the bind passes it on"⟩,
  ⟨⟨"exec.evalArithExpr", 2, "if !‹bool›", "return nil, error.InvalidExprType(\"number\")"⟩, "rtErr 80"⟩,
  ⟨⟨"exec.evalArithExpr", 3, "if ‹error› != nil", "return nil, ‹error›"⟩, "error of an operand: the bind passes it on"⟩,
  ⟨⟨"exec.evalArithExpr", 4, "if !‹bool›", "return nil, error.InvalidExprType(\"number\")"⟩, "rtErr 80"⟩,
  ⟨⟨"exec.evalArithExpr", 5, "switch ‹*syntax.ArithExpr#2›.Type case syntax.ArithAdd", "return value.NewNumber(l + r), nil"⟩, "NumOps.add a b"⟩,
  ⟨⟨"exec.evalArithExpr", 6, "switch ‹*syntax.ArithExpr#2›.Type case syntax.ArithSub", "return value.NewNumber(l - r), nil"⟩, "NumOps.sub a b"⟩,
  ⟨⟨"exec.evalArithExpr", 7, "switch ‹*syntax.ArithExpr#2›.Type case syntax.ArithMul", "return value.NewNumber(l * r), nil"⟩, "NumOps.mul a b"⟩,
  ⟨⟨"exec.evalArithExpr", 8, "switch ‹*syntax.ArithExpr#2›.Type case syntax.ArithDiv ▸ if r == 0", "return nil, error.ArithDivZero()"⟩, "if NumOps.isZero b then rtErr 90"⟩,
  ⟨⟨"exec.evalArithExpr", 9, "switch ‹*syntax.ArithExpr#2›.Type case syntax.ArithDiv", "return value.NewNumber(l / r), nil"⟩, "NumOps.div a b"⟩,
  ⟨⟨"exec.evalArithExpr", 10, "switch ‹*syntax.ArithExpr#2›.Type case syntax.ArithIntDiv ▸ if r == 0", "return nil, error.ArithDivZero()"⟩, "if NumOps.isZero b then rtErr 90"⟩,
  ⟨⟨"exec.evalArithExpr", 11, "switch ‹*syntax.ArithExpr#2›.Type case syntax.ArithIntDiv", "return value.NewNumber(math.Floor(l / r)), nil"⟩, "NumOps.floor (NumOps.div a b)"⟩,
  ⟨⟨"exec.evalArithExpr", 12, "", "return nil, error.UnexpectedCase(\"运算项\", fmt.Sprintf(\"%d\", ‹*syntax.ArithExpr#2›.Type))"⟩, "rtErr 70"⟩,
  ⟨⟨"exec.evalArithTypeModuloExpr", 1, "if ‹error› != nil", "return nil, ‹error›"⟩, "error of an operand: the bind passes it on"⟩,
  ⟨⟨"exec.evalArithTypeModuloExpr", 2, "if ‹error› != nil", "return nil, ‹error›"⟩, "error of an operand: the bind passes it on"⟩,
  ⟨⟨"exec.evalArithTypeModuloExpr", 3, "if l is *value.Number ▸ if r is *value.Number ▸ if r == 0", "return nil, error.ArithDivZero()"⟩, "if NumOps.isZero b then rtErr 90"⟩,
  ⟨⟨"exec.evalArithTypeModuloExpr", 4, "if l is *value.Number ▸ if r is *value.Number", "return value.NewNumber(l - math.Floor(l / r) * r), nil"⟩, "NumOps.sub a (NumOps.mul (NumOps.floor (NumOps.div a b)) b)"⟩,
  ⟨⟨"exec.evalArithTypeModuloExpr", 5, "if l is *value.String ▸ if r is *value.Array ▸ if ‹error› != nil", "return nil, ‹error›"⟩, "error of an operand: the bind passes it on"⟩,
  ⟨⟨"exec.evalArithTypeModuloExpr", 6, "if l is *value.String ▸ if r is *value.Array", "return ‹*value.String›, nil"⟩, "notModelled (formatString is C14's model)"⟩,
  ⟨⟨"exec.evalArithTypeModuloExpr", 7, "", "return nil, error.InvalidExprType(\"\")"⟩, "rtErr 80"⟩,
  ⟨⟨"exec.evalExpression", 1, "typeswitch ‹syntax.Expression#2› case *syntax.VarAssignExpr", "return evalVarAssignExpr(‹*runtime.VM#1›, ‹*syntax.VarAssignExpr›)"⟩, ".assign"⟩,
  ⟨⟨"exec.evalExpression", 2, "typeswitch ‹syntax.Expression#2› case *syntax.LogicExpr ▸ if ‹*syntax.LogicExpr›.Type == syntax.LogicAND || ‹*syntax.LogicExpr›.Type == syntax.LogicOR", "return evalLogicCombiner(‹*runtime.VM#1›, ‹*syntax.LogicExpr›)"⟩, ".logic, ty == LogicAND || ty == LogicOR"⟩,
  ⟨⟨"exec.evalExpression", 3, "typeswitch ‹syntax.Expression#2› case *syntax.LogicExpr", "return evalLogicComparator(‹*runtime.VM#1›, ‹*syntax.LogicExpr›)"⟩, ".logic, otherwise"⟩,
  ⟨⟨"exec.evalExpression", 4, "typeswitch ‹syntax.Expression#2› case *syntax.ArithExpr ▸ if ‹*syntax.ArithExpr›.Type == syntax.ArithModulo", "return evalArithTypeModuloExpr(‹*runtime.VM#1›, ‹*syntax.ArithExpr›)"⟩, ".arith, ty == ArithModulo"⟩,
  ⟨⟨"exec.evalExpression", 5, "typeswitch ‹syntax.Expression#2› case *syntax.ArithExpr", "return evalArithExpr(‹*runtime.VM#1›, ‹*syntax.ArithExpr›)"⟩, ".arith, otherwise"⟩,
  ⟨⟨"exec.evalExpression", 6, "typeswitch ‹syntax.Expression#2› case *syntax.MemberExpr ▸ if ‹error› != nil", "return nil, ‹error›"⟩, "error of an operand: the bind passes it on"⟩,
  ⟨⟨"exec.evalExpression", 7, "typeswitch ‹syntax.Expression#2› case *syntax.MemberExpr", "return ‹*value.IV›.ReduceRHS()"⟩, ".member: reduceRHS n iv"⟩,
  ⟨⟨"exec.evalExpression", 8, "typeswitch ‹syntax.Expression#2› case *syntax.String, *syntax.ID, *syntax.ArrayExpr, *syntax.HashMapExpr", "return evalPrimeExpr(‹*runtime.VM#1›, ‹syntax.Expression›)"⟩, ".str / .id / .arr / .hm"⟩,
  ⟨⟨"exec.evalExpression", 9, "typeswitch ‹syntax.Expression#2› case *syntax.FuncCallExpr", "return evalFunctionCall(‹*runtime.VM#1›, ‹*syntax.FuncCallExpr›)"⟩, ".call"⟩,
  ⟨⟨"exec.evalExpression", 10, "typeswitch ‹syntax.Expression#2› case *syntax.MemberMethodExpr", "return evalMemberMethodExpr(‹*runtime.VM#1›, ‹*syntax.MemberMethodExpr›)"⟩, ".mcall"⟩,
  ⟨⟨"exec.evalExpression", 11, "typeswitch ‹syntax.Expression#2› case *syntax.ObjNewExpr", "return evalNewObject(‹*runtime.VM#1›, ‹*syntax.ObjNewExpr›)"⟩, ".new"⟩,
  ⟨⟨"exec.evalExpression", 12, "typeswitch ‹syntax.Expression#2› default", "return nil, error.InvalidExprType()"⟩, ".nil: rtErr 80"⟩,
  ⟨⟨"exec.evalLogicCombiner", 1, "if ‹error› != nil", "return nil, ‹error›"⟩, "error of an operand: the bind passes it on"⟩,
  ⟨⟨"exec.evalLogicCombiner", 2, "if !‹bool›", "return nil, error.InvalidExprType(\"bool\")"⟩, "rtErr 80"⟩,
  ⟨⟨"exec.evalLogicCombiner", 3, "if ‹*syntax.LogicExpr#2›.Type == syntax.LogicAND && !l", "return value.NewBool(false), nil"⟩, "newBool false (right operand not evaluated)"⟩,
  ⟨⟨"exec.evalLogicCombiner", 4, "if ‹*syntax.LogicExpr#2›.Type == syntax.LogicOR && l", "return value.NewBool(true), nil"⟩, "newBool true (right operand not evaluated)"⟩,
  ⟨⟨"exec.evalLogicCombiner", 5, "if ‹error› != nil", "return nil, ‹error›"⟩, "error of an operand: the bind passes it on"⟩,
  ⟨⟨"exec.evalLogicCombiner", 6, "if !‹bool›", "return nil, error.InvalidExprType(\"bool\")"⟩, "rtErr 80"⟩,
  ⟨⟨"exec.evalLogicCombiner", 7, "switch ‹*syntax.LogicExpr#2›.Type case syntax.LogicAND", "return value.NewBool(l && r), nil"⟩, "newBool (lb && rb)"⟩,
  ⟨⟨"exec.evalLogicCombiner", 8, "switch ‹*syntax.LogicExpr#2›.Type default", "return value.NewBool(l || r), nil"⟩, "newBool (lb || rb)"⟩,
  ⟨⟨"exec.evalLogicComparator", 1, "if ‹error› != nil", "return nil, ‹error›"⟩, "error of an operand: the bind passes it on"⟩,
  ⟨⟨"exec.evalLogicComparator", 2, "if ‹error› != nil", "return nil, ‹error›"⟩, "error of an operand: the bind passes it on"⟩,
  ⟨⟨"exec.evalLogicComparator", 3, "switch ‹*syntax.LogicExpr#2›.Type case syntax.LogicXEQ", "‹bool›, ‹error› = compareLogicXEQ(l, r)"⟩, "compareXEQ n lv rv"⟩,
  ⟨⟨"exec.evalLogicComparator", 4, "switch ‹*syntax.LogicExpr#2›.Type case syntax.LogicXNEQ", "‹bool›, ‹error› = compareLogicXEQ(l, r)"⟩, "compareXEQ n lv rv"⟩,
  ⟨⟨"exec.evalLogicComparator", 5, "switch ‹*syntax.LogicExpr#2›.Type case syntax.LogicXNEQ", "‹bool› = !‹bool›"⟩, "newBool (!b)"⟩,
  ⟨⟨"exec.evalLogicComparator", 6, "switch ‹*syntax.LogicExpr#2›.Type case syntax.LogicEQ", "‹bool›, ‹error› = compareLogicXEQ(l, r)"⟩, "compareXEQ n lv rv"⟩,
  ⟨⟨"exec.evalLogicComparator", 7, "switch ‹*syntax.LogicExpr#2›.Type case syntax.LogicNEQ", "‹bool›, ‹error› = compareLogicXEQ(l, r)"⟩, "compareXEQ n lv rv"⟩,
  ⟨⟨"exec.evalLogicComparator", 8, "switch ‹*syntax.LogicExpr#2›.Type case syntax.LogicNEQ", "‹bool› = !‹bool›"⟩, "newBool (!b)"⟩,
  ⟨⟨"exec.evalLogicComparator", 9, "switch ‹*syntax.LogicExpr#2›.Type case syntax.LogicGT", "‹bool›, ‹error› = compareLogicGT(l, r)"⟩, "NumOps.gt"⟩,
  ⟨⟨"exec.evalLogicComparator", 10, "switch ‹*syntax.LogicExpr#2›.Type case syntax.LogicGTE", "‹bool›, ‹error› = compareLogicGTE(l, r)"⟩, "NumOps.ge"⟩,
  ⟨⟨"exec.evalLogicComparator", 11, "switch ‹*syntax.LogicExpr#2›.Type case syntax.LogicLT", "‹bool›, ‹error› = compareLogicLT(l, r)"⟩, "NumOps.lt"⟩,
  ⟨⟨"exec.evalLogicComparator", 12, "switch ‹*syntax.LogicExpr#2›.Type case syntax.LogicLTE", "‹bool›, ‹error› = compareLogicLTE(l, r)"⟩, "NumOps.le"⟩,
  ⟨⟨"exec.evalLogicComparator", 13, "switch ‹*syntax.LogicExpr#2›.Type default", "return nil, error.UnexpectedCase(\"比较类型\", fmt.Sprintf(\"%d\", ‹*syntax.LogicExpr#2›.Type))"⟩, "rtErr 70"⟩,
  ⟨⟨"exec.evalLogicComparator", 14, "", "return value.NewBool(‹bool›), ‹error›"⟩, "newBool b"⟩]

end ZnVerif.Proofs.EvalSites
