/-
C03 at character level, parser part 2: the expression productions, real lexer against layout.

For every production `pX`: if the recursive calls of the real run are matched by those of the layout run (`RecOK`), so is `pX`.
-/
import ZnVerif.Proofs.LexSimBase

namespace ZnVerif.Proofs.LexSim
open ZnVerif.Model ZnVerif.Model.Parser ZnVerif.Generated.Tokens ZnVerif.Generated.ParserTables
open ZnVerif.Spec.StmtSyntax ZnVerif.Proofs.LexRun

theorem RecOK.app {Y : Layout} {R : Run Y} {rec1 : Rec Lexer} {rec2 : Rec (List Token)} (h : RecOK R rec1 rec2) (nt : NT)
    (j : Nat) (s : S1) : Sim R j s (rec1 nt) (rec2 nt) Any := h nt j s

/-- one rule of the relational logic, chosen by the shape of the goal -/
syntax "ssim_step" : tactic
macro_rules
  | `(tactic| ssim_step) => `(tactic| first
    | with_reducible (first
    | exact S_pure _
    | exact S_errPeek _ _
    | exact S_errCurr _
    | exact S_goPanic
    | exact S_unsetFlag
    | exact S_setFlag
    | exact S_endOfStmt _
    | exact S_lineOf (PastTok.mono ‹_› (by omega))
    | exact S_newID (PastTok.mono ‹_› (by omega))
    | exact S_newString (PastTok.mono ‹_› (by omega))
    | exact S_expectBlockIndent
    | exact S_tryConsume _ _
    | exact S_consume _ _ _
    | exact S_swallowAll _ _ _ _ _
    | exact S_parseID _ _
    | exact S_optYield _ _
    | exact S_calleeTail _ _ _ _ _
    | (refine S_bind_getS ?_; refine S_intro (fun hok => ?_);
       try simp only [toL_flag, toL_p2, blockCond_toL hok, peekIndentOf_toL hok, currIndentOf_toL hok])
    | (refine S_bind_tok ?_ (fun _ _ _ => ?_) (fun _ _ _ _ _ => ?_) <;> try dsimp only)
    | (refine S_bind_opt ?_ (fun _ _ _ => ?_) (fun _ _ _ _ => ?_) <;> try dsimp only)
    | refine S_bind_any ?_ (fun _ _ _ _ => ?_)
    | refine S_ite (fun _ => ?_) (fun _ => ?_))
    | exact RecOK.app ‹RecOK _ _ _› _ _ _
    | refine S_ite (fun _ => ?_) (fun _ => ?_))

/-- walk a production -/
macro "ssim" : tactic => `(tactic| repeat' ssim_step)

variable {Y : Layout} {R : Run Y} (v : Variant) (m : Nat) {rec1 : Rec Lexer} {rec2 : Rec (List Token)} (hrec : RecOK R rec1 rec2)
include hrec

theorem S_pLv1 (cfg : Bool) (j : Nat) (s : S1) :
    Sim R j s (pLv1 rec1 cfg) (pLv1 rec2 cfg) Any := by
  unfold pLv1; ssim

theorem S_pLv1Tail (cfg : Bool) (el : Expr) (j : Nat) (s : S1) :
    Sim R j s (pLv1Tail realOps m rec1 cfg el) (pLv1Tail (layoutOps Y) m rec2 cfg el) Any := by
  unfold pLv1Tail; ssim

theorem S_pLv2 (cfg : Bool) (j : Nat) (s : S1) :
    Sim R j s (pLv2 rec1 cfg) (pLv2 rec2 cfg) Any := by
  unfold pLv2; ssim

theorem S_pLv2Tail (cfg : Bool) (el : Expr) (j : Nat) (s : S1) :
    Sim R j s (pLv2Tail realOps m rec1 cfg el) (pLv2Tail (layoutOps Y) m rec2 cfg el) Any := by
  unfold pLv2Tail; ssim

theorem S_pLv3 (cfg : Bool) (j : Nat) (s : S1) :
    Sim R j s (pLv3 realOps m rec1 cfg) (pLv3 (layoutOps Y) m rec2 cfg) Any := by
  unfold pLv3; ssim

theorem S_pLv4 (cfg : Bool) (j : Nat) (s : S1) :
    Sim R j s (pLv4 v realOps m rec1 cfg) (pLv4 v (layoutOps Y) m rec2 cfg) Any := by
  unfold pLv4; ssim

theorem S_pArith (j : Nat) (s : S1) :
    Sim R j s (pArith rec1) (pArith rec2) Any := by
  unfold pArith; ssim

theorem S_pArithTail (el : Expr) (j : Nat) (s : S1) :
    Sim R j s (pArithTail realOps m rec1 el) (pArithTail (layoutOps Y) m rec2 el) Any := by
  unfold pArithTail; ssim

theorem S_pMulDiv (j : Nat) (s : S1) :
    Sim R j s (pMulDiv rec1) (pMulDiv rec2) Any := by
  unfold pMulDiv; ssim

theorem S_pMulDivTail (el : Expr) (j : Nat) (s : S1) :
    Sim R j s (pMulDivTail realOps m rec1 el) (pMulDivTail (layoutOps Y) m rec2 el) Any := by
  unfold pMulDivTail; ssim

theorem S_pMember (j : Nat) (s : S1) :
    Sim R j s (pMember v realOps m rec1) (pMember v (layoutOps Y) m rec2) Any := by
  unfold pMember; ssim

theorem S_pMemberTail (e : Expr) (j : Nat) (s : S1) :
    Sim R j s (pMemberTail v realOps m rec1 e) (pMemberTail v (layoutOps Y) m rec2 e) Any := by
  unfold pMemberTail; ssim

theorem S_pBasic (j : Nat) (s : S1) :
    Sim R j s (pBasic v realOps m rec1) (pBasic v (layoutOps Y) m rec2) Any := by
  unfold pBasic; ssim

theorem S_pArrayNonEmpty (j : Nat) (s : S1) :
    Sim R j s (pArrayNonEmpty realOps m rec1) (pArrayNonEmpty (layoutOps Y) m rec2) Any := by
  unfold pArrayNonEmpty; ssim

theorem S_pArray (j : Nat) (s : S1) :
    Sim R j s (pArray v realOps m rec1) (pArray v (layoutOps Y) m rec2) Any := by
  have h := S_pArrayNonEmpty (R := R) m hrec
  unfold pArray; ssim
  all_goals exact h _ _

theorem S_pArrayLoop (items : List Expr) (j : Nat) (s : S1) :
    Sim R j s (pArrayLoop realOps m rec1 items) (pArrayLoop (layoutOps Y) m rec2 items) Any := by
  unfold pArrayLoop; ssim

theorem S_pHashLoop (kvs : List (Expr × Expr)) (j : Nat) (s : S1) :
    Sim R j s (pHashLoop v realOps m rec1 kvs) (pHashLoop v (layoutOps Y) m rec2 kvs) Any := by
  unfold pHashLoop; ssim

end ZnVerif.Proofs.LexSim
