/-
Helper lemmas for C06: the array/loop code of `Model/Scope.lean` read as list operations on the live
symbols (layer 1), the live symbols grouped by depth read as the spec's frame stack (layer 2), the
one-step simulation and its lift to histories.  Core Lean only.
-/
import ZnVerif.Model.ScopeRun

namespace ZnVerif.Proofs.Scope
open ZnVerif.SymTab ZnVerif.Spec.Scopes

variable {α : Type}

/-! ## Layer 1: live symbols as a list (newest first) -/

structure Entry (α : Type) where
  sym : LocalSymbol
  value : α
  ext : Option Nat

/-- symbols `n-1, …, 0` with their values and their `externalRefs` entries -/
def liveAux (locals : Array LocalSymbol) (values : Array α) (refs : List (Nat × Nat)) : Nat → List (Entry α)
  | 0 => []
  | n + 1 =>
    match locals[n]?, values[n]? with
    | some s, some v => ⟨s, v, refLookup refs n⟩ :: liveAux locals values refs n
    | _, _ => liveAux locals values refs n     -- not the case when `n < size` of both (see `WF`)

def live (σ : Scope α) : List (Entry α) := liveAux σ.locals σ.values σ.externalRefs σ.localCount

/-- the slices are long enough for `localCount` -/
def WF (σ : Scope α) : Prop := σ.localCount ≤ σ.locals.size ∧ σ.localCount ≤ σ.values.size

theorem liveAux_succ (locals : Array LocalSymbol) (values : Array α) (refs) (n : Nat)
    (h1 : n < locals.size) (h2 : n < values.size) :
    liveAux locals values refs (n + 1) = ⟨locals[n], values[n], refLookup refs n⟩ :: liveAux locals values refs n := by
  simp [liveAux, h1, h2]

theorem liveAux_congr (l1 l2 : Array LocalSymbol) (v1 v2 : Array α) (r1 r2 : List (Nat × Nat)) (n : Nat)
    (hl : ∀ k, k < n → l1[k]? = l2[k]?) (hv : ∀ k, k < n → v1[k]? = v2[k]?)
    (hr : ∀ k, k < n → refLookup r1 k = refLookup r2 k) :
    liveAux l1 v1 r1 n = liveAux l2 v2 r2 n := by
  induction n with
  | zero => rfl
  | succ n ih =>
    have ih' := ih (fun k hk => hl k (by omega)) (fun k hk => hv k (by omega)) (fun k hk => hr k (by omega))
    simp only [liveAux, hl n (by omega), hv n (by omega), hr n (by omega), ih']

/-! ### the loops -/

theorem popLoop_spec (locals : Array LocalSymbol) (values : Array α) (refs) (d : Int) (n : Nat)
    (h1 : n ≤ locals.size) (h2 : n ≤ values.size) :
    ∃ n', n' ≤ n ∧ Scope.popLoop locals d n = .ok n' ∧
      liveAux locals values refs n' = (liveAux locals values refs n).dropWhile (fun e => decide (e.sym.depth > d)) := by
  induction n with
  | zero => exact ⟨0, Nat.le_refl _, rfl, rfl⟩
  | succ n ih =>
    have hl : n < locals.size := by omega
    have hv : n < values.size := by omega
    obtain ⟨n', hn', hp, hlive⟩ := ih (by omega) (by omega)
    rw [liveAux_succ _ _ _ _ hl hv]
    by_cases hd : locals[n].depth > d
    · refine ⟨n', by omega, ?_, ?_⟩
      · simp [Scope.popLoop, hl, hd, hp]
      · simp [List.dropWhile, hd, hlive]
    · refine ⟨n + 1, Nat.le_refl _, ?_, ?_⟩
      · simp [Scope.popLoop, hl, hd]
      · rw [liveAux_succ _ _ _ _ hl hv]; simp [List.dropWhile, hd]

/-- a symbol that is not deeper than `d` is not popped -/
theorem popLoop_keeps (locals : Array LocalSymbol) (d : Int) (n n' k : Nat) (s : LocalSymbol)
    (hk : k < n) (hs : locals[k]? = some s) (hd : s.depth ≤ d)
    (hp : Scope.popLoop locals d n = .ok n') : k < n' := by
  induction n with
  | zero => omega
  | succ n ih =>
    simp only [Scope.popLoop] at hp
    cases hln : locals[n]? with
    | none => simp [hln] at hp
    | some s' =>
      simp only [hln] at hp
      by_cases hd' : s'.depth > d
      · simp only [hd', if_true] at hp
        have : k ≠ n := by
          intro hkn; subst hkn; rw [hs] at hln; cases hln; omega
        exact ih (by omega) hp
      · simp only [hd', if_false] at hp
        cases hp; exact hk

def nameIs (name : String) (e : Entry α) : Bool := decide (e.sym.name = name)

theorem findLoop_spec (locals : Array LocalSymbol) (values : Array α) (refs) (name : String) (n : Nat)
    (h1 : n ≤ locals.size) (h2 : n ≤ values.size) :
    (∃ i, i < n ∧ Scope.findLoop locals name n = .ok (some i) ∧ ∃ (hl : i < locals.size) (hv : i < values.size),
        (liveAux locals values refs n).find? (nameIs name) = some ⟨locals[i], values[i], refLookup refs i⟩) ∨
    (Scope.findLoop locals name n = .ok none ∧ (liveAux locals values refs n).find? (nameIs name) = none) := by
  induction n with
  | zero => right; exact ⟨rfl, rfl⟩
  | succ n ih =>
    have hl : n < locals.size := by omega
    have hv : n < values.size := by omega
    rw [liveAux_succ _ _ _ _ hl hv]
    by_cases hn : locals[n].name = name
    · left
      refine ⟨n, by omega, ?_, hl, hv, ?_⟩
      · simp [Scope.findLoop, hl, hn]
      · simp [List.find?, nameIs, hn]
    · rcases ih (by omega) (by omega) with ⟨i, hi, hf, hl', hv', hfind⟩ | ⟨hf, hfind⟩
      · left
        refine ⟨i, by omega, ?_, hl', hv', ?_⟩
        · simp [Scope.findLoop, hl, hn, hf]
        · rw [List.find?_cons_of_neg (by simp [nameIs, hn])]; exact hfind
      · right
        refine ⟨?_, ?_⟩
        · simp [Scope.findLoop, hl, hn, hf]
        · rw [List.find?_cons_of_neg (by simp [nameIs, hn])]; exact hfind

/-- overwrite the value of the first entry called `name` -/
def setFirst : List (Entry α) → String → α → List (Entry α)
  | [], _, _ => []
  | e :: rest, name, v => if e.sym.name = name then { e with value := v } :: rest else e :: setFirst rest name v

/-- what `SetValue` does, on the list -/
theorem setLoop_spec (σ : Scope α) (name : String) (v : α) (n : Nat)
    (h1 : n ≤ σ.locals.size) (h2 : n ≤ σ.values.size) :
    match (liveAux σ.locals σ.values σ.externalRefs n).find? (nameIs name) with
    | none => Scope.setLoop σ name v n = .err 42
    | some e =>
      if e.sym.isConst then Scope.setLoop σ name v n = .err 44
      else ∃ σ', Scope.setLoop σ name v n = .ok σ' ∧ σ'.locals = σ.locals ∧ σ'.localCount = σ.localCount ∧
        σ'.currentDepth = σ.currentDepth ∧ σ'.externalRefs = σ.externalRefs ∧ σ'.values.size = σ.values.size ∧
        (∀ k, n ≤ k → σ'.values[k]? = σ.values[k]?) ∧
        liveAux σ.locals σ'.values σ.externalRefs n = setFirst (liveAux σ.locals σ.values σ.externalRefs n) name v := by
  induction n with
  | zero => simp [liveAux, Scope.setLoop, errNameNotDefined]
  | succ n ih =>
    have hl : n < σ.locals.size := by omega
    have hv : n < σ.values.size := by omega
    rw [liveAux_succ _ _ _ _ hl hv]
    by_cases hn : σ.locals[n].name = name
    · simp only [List.find?, nameIs, hn, decide_true]
      by_cases hc : σ.locals[n].isConst = true
      · simp [Scope.setLoop, hl, hn, hc, errAssignToConstant]
      · simp only [hc]
        refine ⟨{ σ with values := σ.values.set n v hv }, ?_, rfl, rfl, rfl, rfl, by simp, ?_, ?_⟩
        · simp [Scope.setLoop, hl, hn, hc, hv]
        · intro k hk
          simp only []
          rw [Array.getElem?_set]
          have : n ≠ k := by omega
          simp [this]
        · have hv' : n < (σ.values.set n v hv).size := by simp [hv]
          rw [liveAux_succ _ _ _ _ hl hv']
          simp only [setFirst, hn, if_true]
          congr 1
          · simp
          · apply liveAux_congr
            · intro k _; rfl
            · intro k hk
              rw [Array.getElem?_set]
              have : n ≠ k := by omega
              simp [this]
            · intro k _; rfl
    · have ih' := ih (by omega) (by omega)
      rw [List.find?_cons_of_neg (by simp [nameIs, hn])]
      cases hfind : (liveAux σ.locals σ.values σ.externalRefs n).find? (nameIs name) with
      | none =>
        rw [hfind] at ih'
        simp [Scope.setLoop, hl, hn, ih']
      | some e =>
        rw [hfind] at ih'
        by_cases hc : e.sym.isConst = true
        · simp only [hc, if_true] at ih' ⊢
          simp [Scope.setLoop, hl, hn, ih']
        · simp only [hc] at ih' ⊢
          obtain ⟨σ', hs, hloc, hcnt, hdep, hrefs, hsize, hkeep, hlive⟩ := ih'
          refine ⟨σ', ?_, hloc, hcnt, hdep, hrefs, hsize, fun k hk => hkeep k (by omega), ?_⟩
          · simp [Scope.setLoop, hl, hn, hs]
          · have hv' : n < σ'.values.size := by omega
            rw [liveAux_succ _ _ _ _ hl hv']
            simp only [setFirst, hn, if_false]
            have hk := hkeep n (Nat.le_refl _)
            simp only [hv', hv, getElem?_pos, Option.some.injEq] at hk
            rw [hlive, hk]

/-- the redeclaration test of `declareValue`, on the list -/
def declClash (name : String) (d : Int) : List (Entry α) → Bool
  | [] => false
  | e :: rest =>
    if e.sym.depth < d then false
    else if e.sym.name = name ∧ e.sym.depth = d then true
    else declClash name d rest

theorem declCheck_spec (locals : Array LocalSymbol) (values : Array α) (refs) (name : String) (d : Int) (n : Nat)
    (h1 : n ≤ locals.size) (h2 : n ≤ values.size) :
    Scope.declCheck locals name d n =
      if declClash name d (liveAux locals values refs n) then .err 43 else .ok () := by
  induction n with
  | zero => simp [Scope.declCheck, liveAux, declClash]
  | succ n ih =>
    have hl : n < locals.size := by omega
    have hv : n < values.size := by omega
    rw [liveAux_succ _ _ _ _ hl hv]
    simp only [Scope.declCheck, hl, getElem?_pos, declClash]
    by_cases hd : locals[n].depth < d
    · simp [hd]
    · by_cases hn : locals[n].name = name ∧ locals[n].depth = d
      · simp [hn, errNameRedeclared]
      · simp only [hd, hn, if_false]
        exact ih (by omega) (by omega)

theorem trunc_push_size {β} (xs : Array β) (n : Nat) (x : β) (h : n ≤ xs.size) :
    ((xs.extract 0 n).push x).size = n + 1 := by
  simp [Array.size_extract]; omega

theorem trunc_push_lt {β} (xs : Array β) (n : Nat) (x : β) (h : n ≤ xs.size) (k : Nat) (hk : k < n) :
    ((xs.extract 0 n).push x)[k]? = xs[k]? := by
  rw [Array.getElem?_push]
  simp [Array.size_extract, Array.getElem?_extract]
  have : min n xs.size = n := by omega
  simp [this]
  have : ¬ k = n := by omega
  simp [this, hk]

theorem trunc_push_eq {β} (xs : Array β) (n : Nat) (x : β) (h : n ≤ xs.size) :
    ((xs.extract 0 n).push x)[n]? = some x := by
  rw [Array.getElem?_push]
  have : min n xs.size = n := by omega
  simp [Array.size_extract, this]

/-- what `declareValue` does, on the list -/
theorem declareValueC_spec (σ : Scope α) (name : String) (v : α) (c : Bool) (hwf : WF σ) :
    if declClash name σ.currentDepth (live σ) then σ.declareValueC name v c = .err 43
    else ∃ σ', σ.declareValueC name v c = .ok σ' ∧ WF σ' ∧ σ'.currentDepth = σ.currentDepth ∧
      σ'.externalRefs = σ.externalRefs ∧ σ'.localCount = σ.localCount + 1 ∧
      (∀ k, k < σ.localCount → σ'.locals[k]? = σ.locals[k]?) ∧
      (∀ k, k < σ.localCount → σ'.values[k]? = σ.values[k]?) ∧
      σ'.locals[σ.localCount]? = some ⟨name, σ.currentDepth, c⟩ ∧
      σ'.values[σ.localCount]? = some v := by
  obtain ⟨h1, h2⟩ := hwf
  have hc := declCheck_spec σ.locals σ.values σ.externalRefs name σ.currentDepth σ.localCount h1 h2
  unfold live
  by_cases hcl : declClash name σ.currentDepth (liveAux σ.locals σ.values σ.externalRefs σ.localCount) = true
  · simp only [hcl, if_true] at hc ⊢
    simp [Scope.declareValueC, hc]
  · simp only [hcl] at hc ⊢
    simp only [Bool.false_eq_true, if_false] at hc ⊢
    refine ⟨{ σ with
        locals := (σ.locals.extract 0 σ.localCount).push ⟨name, σ.currentDepth, c⟩
        values := (σ.values.extract 0 σ.localCount).push v
        localCount := σ.localCount + 1 }, by simp [Scope.declareValueC, hc, h1, h2], ?_, rfl, rfl, rfl, ?_, ?_, ?_, ?_⟩
    · constructor
      · simp only []; rw [trunc_push_size _ _ _ h1]; omega
      · simp only []; rw [trunc_push_size _ _ _ h2]; omega
    · intro k hk; exact trunc_push_lt _ _ _ h1 k hk
    · intro k hk; exact trunc_push_lt _ _ _ h2 k hk
    · exact trunc_push_eq _ _ _ h1
    · exact trunc_push_eq _ _ _ h2

/-! ## Layer 2: live symbols grouped by depth = the spec's frame stack -/

def toB (e : Entry α) : Binding α := ⟨e.sym.name, e.value, e.sym.isConst, e.ext⟩

def atDepth (d : Nat) (e : Entry α) : Bool := decide (e.sym.depth = (d : Int))

/-- frames `d, d-1, …, 0`: frame `k` holds the symbols declared at depth `k` -/
def absAux : Nat → List (Entry α) → Stack α
  | 0, L => [L.map toB]
  | d + 1, L => (L.takeWhile (atDepth (d + 1))).map toB :: absAux d (L.dropWhile (atDepth (d + 1)))

/-- the abstraction function: model state ↦ spec state -/
def abs (σ : Scope α) : Stack α := absAux σ.currentDepth.toNat (live σ)

theorem find_take_drop (p q : Entry α → Bool) (L : List (Entry α)) :
    L.find? p = match (L.takeWhile q).find? p with
      | some b => some b
      | none => (L.dropWhile q).find? p := by
  induction L with
  | nil => rfl
  | cons e L ih =>
    by_cases hq : q e = true
    · by_cases hp : p e = true
      · simp [List.takeWhile, hq, hp]
      · simp only [List.takeWhile, List.dropWhile, hq, List.find?, hp]
        exact ih
    · simp [List.takeWhile, List.dropWhile, hq]

theorem frame_find_map (L : List (Entry α)) (name : String) :
    Frame.find (L.map toB) name = (L.find? (nameIs name)).map toB := by
  induction L with
  | nil => rfl
  | cons e L ih =>
    simp only [Frame.find] at ih
    by_cases hn : e.sym.name = name
    · simp [Frame.find, List.find?, nameIs, toB, hn]
    · simp only [Frame.find, List.map, List.find?, nameIs, toB, hn, decide_false]
      exact ih

theorem lookupB_absAux (d : Nat) (L : List (Entry α)) (name : String) :
    lookupB (absAux d L) name = (L.find? (nameIs name)).map toB := by
  induction d generalizing L with
  | zero =>
    simp only [absAux, lookupB, frame_find_map]
    cases L.find? (nameIs name) <;> rfl
  | succ d ih =>
    simp only [absAux, lookupB, frame_find_map, ih]
    rw [find_take_drop (nameIs name) (atDepth (d + 1)) L]
    cases (L.takeWhile (atDepth (d + 1))).find? (nameIs name) <;> rfl

theorem absAux_cons (d : Nat) (e : Entry α) (L : List (Entry α)) (he : e.sym.depth = (d : Int)) :
    absAux d (e :: L) = match absAux d L with
      | f :: rest => (toB e :: f) :: rest
      | [] => [] := by
  cases d with
  | zero => simp [absAux]
  | succ d => simp [absAux, List.takeWhile, List.dropWhile, atDepth, he]

/-- depths of the live symbols, newest first: within `[0, d]` and non-increasing towards older symbols -/
def DepthsOK (d : Nat) (ds : List Int) : Prop :=
  (∀ x ∈ ds, 0 ≤ x ∧ x ≤ (d : Int)) ∧ ds.Pairwise (fun a b => b ≤ a)

def depths (L : List (Entry α)) : List Int := L.map (fun e => e.sym.depth)

theorem declClash_eq (name : String) (d : Nat) (L : List (Entry α))
    (h : ∀ x ∈ depths L, x ≤ (d : Int)) :
    declClash name (d : Int) L = ((L.takeWhile (atDepth d)).map toB).any (fun b => decide (b.name = name)) := by
  induction L with
  | nil => rfl
  | cons e L ih =>
    have he : e.sym.depth ≤ (d : Int) := h _ (by simp [depths])
    have ih' := ih (fun x hx => h x (by simp [depths] at hx ⊢; exact Or.inr hx))
    by_cases hd : e.sym.depth = (d : Int)
    · have hnlt : ¬ e.sym.depth < (d : Int) := by omega
      by_cases hn : e.sym.name = name
      · simp [declClash, List.takeWhile, atDepth, hd, hn, toB]
      · simp only [declClash, hn, false_and, if_false, List.takeWhile, atDepth, hd, decide_true, List.map,
          List.any, toB, decide_false, Bool.false_or]
        simpa [atDepth] using ih'
    · have hlt : e.sym.depth < (d : Int) := by omega
      simp [declClash, List.takeWhile, atDepth, hd, hlt]

theorem takeWhile_all (L : List (Entry α)) (h : ∀ x ∈ depths L, 0 ≤ x ∧ x ≤ ((0 : Nat) : Int)) :
    L.takeWhile (atDepth 0) = L := by
  induction L with
  | nil => rfl
  | cons e L ih =>
    have he := h e.sym.depth (by simp [depths])
    have hq : atDepth 0 e = true := by simp only [atDepth, decide_eq_true_eq]; omega
    rw [List.takeWhile_cons_of_pos hq, ih (fun x hx => h x (by simp [depths] at hx ⊢; exact Or.inr hx))]

/-- the innermost frame binds `name` iff the Go loop reports a clash -/
theorem top_binds (name : String) (d : Nat) (L : List (Entry α)) (h : ∀ x ∈ depths L, 0 ≤ x ∧ x ≤ (d : Int)) :
    ∃ f rest, absAux d L = f :: rest ∧ f.binds name = declClash name (d : Int) L := by
  rw [declClash_eq name d L (fun x hx => (h x hx).2)]
  cases d with
  | zero => exact ⟨_, _, rfl, by rw [takeWhile_all L h]; rfl⟩
  | succ d => exact ⟨_, _, rfl, rfl⟩

theorem frame_set_map (L : List (Entry α)) (name : String) (v : α) :
    Frame.set (L.map toB) name v = (setFirst L name v).map toB := by
  induction L with
  | nil => rfl
  | cons e L ih =>
    by_cases hn : e.sym.name = name
    · simp [Frame.set, setFirst, toB, hn]
    · simp only [List.map, Frame.set, setFirst, toB, hn, if_false, List.cons.injEq, true_and]
      exact ih

theorem setFirst_noop (L : List (Entry α)) (name : String) (v : α) (h : L.any (nameIs name) = false) :
    setFirst L name v = L := by
  induction L with
  | nil => rfl
  | cons e L ih =>
    simp only [List.any, Bool.or_eq_false_iff, nameIs, decide_eq_false_iff_not] at h
    simp only [setFirst, h.1, if_false]
    rw [ih h.2]

theorem binds_map (L : List (Entry α)) (name : String) :
    Frame.binds (L.map toB) name = L.any (nameIs name) := by
  unfold Frame.binds; rw [List.any_map]; rfl

theorem takeWhile_setFirst (q : Nat) (L : List (Entry α)) (name : String) (v : α) :
    (setFirst L name v).takeWhile (atDepth q) = setFirst (L.takeWhile (atDepth q)) name v := by
  induction L with
  | nil => rfl
  | cons e L ih =>
    by_cases hq : atDepth q e = true
    · by_cases hn : e.sym.name = name
      · have hq' : atDepth q { e with value := v } = true := by simpa [atDepth] using hq
        simp [setFirst, hn, List.takeWhile, hq, hq']
      · simp only [setFirst, hn, if_false, List.takeWhile, hq]
        rw [ih]
    · by_cases hn : e.sym.name = name
      · have hq' : ¬ atDepth q { e with value := v } = true := by simpa [atDepth] using hq
        simp [setFirst, hn, List.takeWhile, hq, hq']
      · simp [setFirst, hn, List.takeWhile, hq]

theorem dropWhile_setFirst (q : Nat) (L : List (Entry α)) (name : String) (v : α) :
    (setFirst L name v).dropWhile (atDepth q) =
      if (L.takeWhile (atDepth q)).any (nameIs name) then L.dropWhile (atDepth q)
      else setFirst (L.dropWhile (atDepth q)) name v := by
  induction L with
  | nil => rfl
  | cons e L ih =>
    by_cases hq : atDepth q e = true
    · by_cases hn : e.sym.name = name
      · have hq' : atDepth q { e with value := v } = true := by simpa [atDepth] using hq
        simp [setFirst, hn, List.takeWhile, List.dropWhile, hq, hq', nameIs]
      · simp only [setFirst, hn, if_false, List.takeWhile, List.dropWhile, hq, List.any, nameIs, decide_false,
          Bool.false_or]
        rw [ih]
    · by_cases hn : e.sym.name = name
      · have hq' : ¬ atDepth q { e with value := v } = true := by simpa [atDepth] using hq
        simp [setFirst, hn, List.takeWhile, List.dropWhile, hq, hq']
      · simp [setFirst, hn, List.takeWhile, List.dropWhile, hq]

theorem setB_absAux (d : Nat) (L : List (Entry α)) (name : String) (v : α) :
    setB (absAux d L) name v = absAux d (setFirst L name v) := by
  induction d generalizing L with
  | zero =>
    simp only [absAux, setB, binds_map, frame_set_map]
    by_cases hb : L.any (nameIs name) = true
    · simp [hb]
    · simp only [hb, Bool.false_eq_true, if_false]
      rw [setFirst_noop L name v (by simpa using hb)]
  | succ d ih =>
    simp only [absAux, setB, binds_map, frame_set_map, takeWhile_setFirst, dropWhile_setFirst]
    by_cases hb : (L.takeWhile (atDepth (d + 1))).any (nameIs name) = true
    · simp [hb]
    · simp only [hb, Bool.false_eq_true, if_false]
      rw [setFirst_noop _ name v (by simpa using hb), ih]

theorem depths_setFirst (L : List (Entry α)) (name : String) (v : α) : depths (setFirst L name v) = depths L := by
  induction L with
  | nil => rfl
  | cons e L ih =>
    by_cases hn : e.sym.name = name
    · simp [setFirst, hn, depths]
    · simp only [setFirst, hn, if_false, depths, List.map] at ih ⊢
      rw [ih]

theorem absAux_begin (d : Nat) (L : List (Entry α)) (h : ∀ x ∈ depths L, x ≤ (d : Int)) :
    absAux (d + 1) L = [] :: absAux d L := by
  cases L with
  | nil => simp [absAux]
  | cons e L =>
    have he : e.sym.depth ≤ (d : Int) := h _ (by simp [depths])
    have : atDepth (d + 1) e = false := by
      simp only [atDepth, decide_eq_false_iff_not]; push_cast; omega
    simp [absAux, List.takeWhile, List.dropWhile, this]

theorem dropWhile_deeper (d : Nat) (L : List (Entry α)) (h : ∀ x ∈ depths L, x ≤ ((d + 1 : Nat) : Int)) :
    L.dropWhile (fun e => decide (e.sym.depth > (d : Int))) = L.dropWhile (atDepth (d + 1)) := by
  induction L with
  | nil => rfl
  | cons e L ih =>
    have he : e.sym.depth ≤ ((d + 1 : Nat) : Int) := h _ (by simp [depths])
    have ih' := ih (fun x hx => h x (by simp [depths] at hx ⊢; exact Or.inr hx))
    by_cases hd : e.sym.depth > (d : Int)
    · have h2 : atDepth (d + 1) e = true := by
        simp only [atDepth, decide_eq_true_eq]; push_cast at he ⊢; omega
      rw [List.dropWhile_cons_of_pos (by simpa using hd), List.dropWhile_cons_of_pos h2]
      exact ih'
    · have h2 : ¬ atDepth (d + 1) e = true := by
        simp only [atDepth, decide_eq_true_eq]; push_cast; omega
      rw [List.dropWhile_cons_of_neg (by simpa using hd), List.dropWhile_cons_of_neg h2]

theorem depthsOK_pop (d : Nat) (L : List (Entry α)) (h : DepthsOK (d + 1) (depths L)) :
    DepthsOK d (depths (L.dropWhile (fun e => decide (e.sym.depth > (d : Int))))) := by
  induction L with
  | nil => exact ⟨by simp [depths], by simp [depths]⟩
  | cons e L ih =>
    obtain ⟨hb, hp⟩ := h
    simp only [depths, List.map, List.pairwise_cons] at hp hb
    have hL : DepthsOK (d + 1) (depths L) := ⟨fun x hx => hb x (by simp [depths] at hx ⊢; exact Or.inr hx), hp.2⟩
    by_cases hd : e.sym.depth > (d : Int)
    · simp only [List.dropWhile, hd, decide_true]
      exact ih hL
    · simp only [List.dropWhile, hd, decide_false]
      refine ⟨?_, ?_⟩
      · intro x hx
        simp only [depths, List.map, List.mem_cons] at hx
        rcases hx with rfl | hx
        · have := hb e.sym.depth (by simp); omega
        · have h1 := hp.1 x hx
          have h2 := hb x (by simp; exact Or.inr (by simpa using hx))
          omega
      · simp only [depths, List.map, List.pairwise_cons]; exact hp

/-! ## The simulation -/

/-- every `externalRefs` key points at a live top-level symbol (true as long as imports are top-level) -/
def RefsOK (σ : Scope α) : Prop :=
  ∀ k m, (k, m) ∈ σ.externalRefs → k < σ.localCount ∧ ∃ s, σ.locals[k]? = some s ∧ s.depth ≤ 0

/-- the invariant of `runtime.Scope` under balanced use, at nesting depth `d` -/
structure Sim (σ : Scope α) (d : Nat) : Prop where
  depth : σ.currentDepth = (d : Int)
  wf : WF σ
  depths : DepthsOK d (depths (live σ))
  refs : RefsOK σ

theorem sim_new : Sim (Scope.new : Scope α) 0 :=
  ⟨rfl, ⟨Nat.le_refl _, Nat.le_refl _⟩, ⟨by simp [live, liveAux, depths, Scope.new], by simp [live, liveAux, depths, Scope.new]⟩,
   by intro k m h; simp [Scope.new] at h⟩

theorem abs_eq {σ : Scope α} {d : Nat} (h : Sim σ d) : abs σ = absAux d (live σ) := by
  simp [abs, h.depth]

theorem absAux_ne (d : Nat) (L : List (Entry α)) : ∃ f rest, absAux d L = f :: rest := by
  cases d <;> exact ⟨_, _, rfl⟩

theorem refLookup_mem (refs : List (Nat × Nat)) (i m : Nat) (h : refLookup refs i = some m) : (i, m) ∈ refs := by
  induction refs with
  | nil => simp [refLookup] at h
  | cons p refs ih =>
    obtain ⟨k, m'⟩ := p
    by_cases hk : k = i
    · simp only [refLookup, hk, if_true, Option.some.injEq] at h
      simp [hk, h]
    · simp only [refLookup, hk, if_false] at h
      exact List.mem_cons_of_mem _ (ih h)

theorem refLookup_fresh {σ : Scope α} (h : RefsOK σ) : refLookup σ.externalRefs σ.localCount = none := by
  cases hr : refLookup σ.externalRefs σ.localCount with
  | none => rfl
  | some m => have := (h _ _ (refLookup_mem _ _ _ hr)).1; omega

theorem liveAux_succ' (locals : Array LocalSymbol) (values : Array α) (refs) (n : Nat) (s : LocalSymbol) (v : α)
    (h1 : locals[n]? = some s) (h2 : values[n]? = some v) :
    liveAux locals values refs (n + 1) = ⟨s, v, refLookup refs n⟩ :: liveAux locals values refs n := by
  simp [liveAux, h1, h2]

theorem sim_begin {σ : Scope α} {d : Nat} (h : Sim σ d) :
    Sim σ.beginScope (d + 1) ∧ abs σ.beginScope = [] :: abs σ := by
  have hlive : live σ.beginScope = live σ := rfl
  have hs : Sim σ.beginScope (d + 1) := by
    refine ⟨?_, h.wf, ?_, h.refs⟩
    · simp [Scope.beginScope, h.depth]
    · rw [hlive]
      refine ⟨fun x hx => ?_, h.depths.2⟩
      have := h.depths.1 x hx
      push_cast; omega
  refine ⟨hs, ?_⟩
  rw [abs_eq hs, abs_eq h, hlive]
  exact absAux_begin d _ (fun x hx => (h.depths.1 x hx).2)

theorem sim_end {σ : Scope α} {d : Nat} (h : Sim σ (d + 1)) :
    ∃ σ', σ.endScope = .ok σ' ∧ Sim σ' d ∧ step (abs σ) .endScope = some (abs σ', .done) := by
  obtain ⟨h1, h2⟩ := h.wf
  obtain ⟨n', hn', hp, hlive⟩ := popLoop_spec σ.locals σ.values σ.externalRefs (d : Int) σ.localCount h1 h2
  have hd : σ.currentDepth - 1 = (d : Int) := by rw [h.depth]; push_cast; omega
  have hs : Sim ({ σ with currentDepth := (d : Int), localCount := n' } : Scope α) d := by
    refine ⟨rfl, ⟨by simp only []; omega, by simp only []; omega⟩, ?_, ?_⟩
    · show DepthsOK d (depths (liveAux σ.locals σ.values σ.externalRefs n'))
      rw [hlive]
      exact depthsOK_pop d _ h.depths
    · intro k m hkm
      obtain ⟨hk, s, hs, hsd⟩ := h.refs k m hkm
      refine ⟨?_, s, hs, hsd⟩
      exact popLoop_keeps σ.locals (d : Int) σ.localCount n' k s hk hs (by omega) hp
  refine ⟨{ σ with currentDepth := (d : Int), localCount := n' }, by simp [Scope.endScope, hd, hp], hs, ?_⟩
  have hdw := dropWhile_deeper d (live σ) (fun x hx => (h.depths.1 x hx).2)
  obtain ⟨f, rest, hf⟩ := absAux_ne d ((live σ).dropWhile (atDepth (d + 1)))
  rw [abs_eq h, abs_eq hs]
  show step (absAux (d + 1) (live σ)) .endScope = some (absAux d (liveAux σ.locals σ.values σ.externalRefs n'), .done)
  rw [hlive]
  show step (absAux (d + 1) (live σ)) .endScope =
    some (absAux d ((live σ).dropWhile (fun e => decide (e.sym.depth > (d : Int)))), .done)
  rw [hdw]
  simp only [absAux, hf, step]

/-- a successful declaration, seen through any reference table `R` -/
theorem declare_live {σ σ' : Scope α} {name : String} {v : α} {c : Bool} {dep : Int} (R : List (Nat × Nat))
    (hl : ∀ k, k < σ.localCount → σ'.locals[k]? = σ.locals[k]?)
    (hv : ∀ k, k < σ.localCount → σ'.values[k]? = σ.values[k]?)
    (hs : σ'.locals[σ.localCount]? = some ⟨name, dep, c⟩)
    (hx : σ'.values[σ.localCount]? = some v) :
    liveAux σ'.locals σ'.values R (σ.localCount + 1) =
      ⟨⟨name, dep, c⟩, v, refLookup R σ.localCount⟩ :: liveAux σ.locals σ.values R σ.localCount := by
  rw [liveAux_succ' _ _ _ _ _ _ hs hx]
  congr 1
  exact liveAux_congr _ _ _ _ _ _ _ hl hv (fun _ _ => rfl)

theorem depthsOK_cons {d : Nat} {L : List (Entry α)} (h : DepthsOK d (depths L)) (e : Entry α)
    (he : e.sym.depth = (d : Int)) : DepthsOK d (depths (e :: L)) := by
  refine ⟨?_, ?_⟩
  · intro x hx
    simp only [depths, List.map, List.mem_cons] at hx
    rcases hx with rfl | hx
    · omega
    · exact h.1 x hx
  · simp only [depths, List.map, List.pairwise_cons]
    exact ⟨fun x hx => by have := h.1 x hx; omega, h.2⟩

/-- `declareValue` (plain or const) against the spec's `declareB` -/
theorem sim_declare {σ : Scope α} {d : Nat} (h : Sim σ d) (name : String) (v : α) (c : Bool) :
    ∃ σ' r, σ.ofErr (σ.declareValueC name v c) = .ok (σ', r) ∧ Sim σ' d ∧
      declareB (abs σ) ⟨name, v, c, none⟩ = some (abs σ', r) := by
  have hspec := declareValueC_spec σ name v c h.wf
  obtain ⟨f, rest, hf, hb⟩ := top_binds name d (live σ) h.depths.1
  rw [h.depth] at hspec
  by_cases hcl : declClash name (d : Int) (live σ) = true
  · simp only [hcl, if_true] at hspec
    refine ⟨σ, .err 43, by simp [Scope.ofErr, hspec], h, ?_⟩
    rw [abs_eq h, hf]
    simp [declareB, hb, hcl]
  · simp only [hcl] at hspec
    simp only [Bool.false_eq_true, if_false] at hspec
    obtain ⟨σ', hdecl, hwf', hdep', hrefs', hcnt', hl, hv, hs, hx⟩ := hspec
    have hlive : live σ' = ⟨⟨name, (d : Int), c⟩, v, none⟩ :: live σ := by
      unfold live
      rw [hcnt', hrefs']
      have := declare_live (σ := σ) (σ' := σ') σ.externalRefs hl hv hs hx
      rw [this, refLookup_fresh h.refs]
    have hs' : Sim σ' d := by
      refine ⟨hdep', hwf', ?_, ?_⟩
      · rw [hlive]; exact depthsOK_cons h.depths _ rfl
      · intro k m hkm
        rw [hrefs'] at hkm
        obtain ⟨hk, s, hs0, hsd⟩ := h.refs k m hkm
        exact ⟨by omega, s, by rw [hl k hk]; exact hs0, hsd⟩
    refine ⟨σ', .done, by simp [Scope.ofErr, hdecl], hs', ?_⟩
    rw [abs_eq h, abs_eq hs', hlive, absAux_cons d _ _ rfl, hf]
    simp [declareB, hb, hcl, toB]

/-- `DeclareExternalValue` at the top level against the spec's `declareB` -/
theorem sim_declareExt {σ : Scope α} {d : Nat} (h : Sim σ d) (hd0 : d = 0) (name : String) (v : α) (m : Nat) :
    ∃ σ' r, σ.ofErr (σ.declareExternalValue name v m) = .ok (σ', r) ∧ Sim σ' d ∧
      declareB (abs σ) ⟨name, v, true, some m⟩ = some (abs σ', r) := by
  have hspec := declareValueC_spec σ name v true h.wf
  obtain ⟨f, rest, hf, hb⟩ := top_binds name d (live σ) h.depths.1
  rw [h.depth] at hspec
  by_cases hcl : declClash name (d : Int) (live σ) = true
  · simp only [hcl, if_true] at hspec
    refine ⟨σ, .err 43, by simp [Scope.ofErr, Scope.declareExternalValue, hspec], h, ?_⟩
    rw [abs_eq h, hf]
    simp [declareB, hb, hcl]
  · simp only [hcl] at hspec
    simp only [Bool.false_eq_true, if_false] at hspec
    obtain ⟨σ', hdecl, hwf', hdep', hrefs', hcnt', hl, hv, hs, hx⟩ := hspec
    let σ'' : Scope α := { σ' with externalRefs := (σ'.localCount - 1, m) :: σ'.externalRefs }
    have hkey : σ'.localCount - 1 = σ.localCount := by omega
    have hlive : live σ'' = ⟨⟨name, (d : Int), true⟩, v, some m⟩ :: live σ := by
      show liveAux σ'.locals σ'.values ((σ'.localCount - 1, m) :: σ'.externalRefs) σ'.localCount = _
      rw [hkey, hcnt', hrefs']
      have := declare_live (σ := σ) (σ' := σ') ((σ.localCount, m) :: σ.externalRefs) hl hv hs hx
      rw [this]
      congr 1
      · simp [refLookup]
      · apply liveAux_congr
        · intro _ _; rfl
        · intro _ _; rfl
        · intro k hk
          have : ¬ σ.localCount = k := by omega
          simp [refLookup, this]
    have hs' : Sim σ'' d := by
      refine ⟨hdep', hwf', ?_, ?_⟩
      · rw [hlive]; exact depthsOK_cons h.depths _ rfl
      · intro k m' hkm
        show k < σ'.localCount ∧ ∃ s, σ'.locals[k]? = some s ∧ s.depth ≤ 0
        have hkm' : (k, m') = (σ'.localCount - 1, m) ∨ (k, m') ∈ σ'.externalRefs := by
          simpa [σ''] using hkm
        rcases hkm' with heq | hmem
        · cases heq
          rw [hkey]
          exact ⟨by omega, _, hs, by simp [hd0]⟩
        · rw [hrefs'] at hmem
          obtain ⟨hk, s, hs0, hsd⟩ := h.refs k m' hmem
          exact ⟨by omega, s, by rw [hl k hk]; exact hs0, hsd⟩
    refine ⟨σ'', .done, by simp [Scope.ofErr, Scope.declareExternalValue, hdecl, σ''], hs', ?_⟩
    rw [abs_eq h, abs_eq hs', hlive, absAux_cons d _ _ rfl, hf]
    simp [declareB, hb, hcl, toB]

theorem sim_assign {σ : Scope α} {d : Nat} (h : Sim σ d) (name : String) (v : α) :
    ∃ σ' r, σ.ofErr (σ.setValue name v) = .ok (σ', r) ∧ Sim σ' d ∧
      step (abs σ) (.assign name v) = some (abs σ', r) := by
  have hspec := setLoop_spec σ name v σ.localCount h.wf.1 h.wf.2
  have hlook := lookupB_absAux d (live σ) name
  simp only [step, abs_eq h, hlook]
  unfold live at hlook ⊢
  cases hfind : (liveAux σ.locals σ.values σ.externalRefs σ.localCount).find? (nameIs name) with
  | none =>
    rw [hfind] at hspec
    refine ⟨σ, .err 42, by simp [Scope.ofErr, Scope.setValue, hspec], h, ?_⟩
    simp [abs_eq h, live]
  | some e =>
    rw [hfind] at hspec
    by_cases hc : e.sym.isConst = true
    · simp only [hc, if_true] at hspec
      refine ⟨σ, .err 44, by simp [Scope.ofErr, Scope.setValue, hspec], h, ?_⟩
      simp [toB, hc, abs_eq h, live]
    · simp only [hc] at hspec
      simp only [Bool.false_eq_true, if_false] at hspec
      obtain ⟨σ', hs, hloc, hcnt, hdep, hrefs, hsize, _, hlive⟩ := hspec
      have hlive' : live σ' = setFirst (live σ) name v := by
        unfold live; rw [hloc, hcnt, hrefs]; exact hlive
      have hs' : Sim σ' d := by
        refine ⟨by rw [hdep, h.depth], ?_, ?_, ?_⟩
        · have := h.wf; unfold WF at this ⊢; rw [hloc, hcnt, hsize]; exact this
        · rw [hlive', depths_setFirst]; exact h.depths
        · intro k m hkm
          rw [hrefs] at hkm
          rw [hloc, hcnt]
          exact h.refs k m hkm
      refine ⟨σ', .done, by simp [Scope.ofErr, Scope.setValue, hs], hs', ?_⟩
      rw [abs_eq hs', hlive', ← setB_absAux]
      simp [toB, hc, live]

theorem sim_lookup {σ : Scope α} {d : Nat} (h : Sim σ d) (name : String) :
    ∃ r, σ.step (.lookup name) = .ok (σ, r) ∧ step (abs σ) (.lookup name) = some (abs σ, r) := by
  have hlook := lookupB_absAux d (live σ) name
  simp only [step, abs_eq h, hlook]
  unfold live
  rcases findLoop_spec σ.locals σ.values σ.externalRefs name σ.localCount h.wf.1 h.wf.2 with
    ⟨i, hi, hf, hl, hv, hfind⟩ | ⟨hf, hfind⟩
  · refine ⟨.val σ.values[i], ?_, ?_⟩
    · simp [Scope.step, Scope.getValue, Scope.getSymbolID, hf, hv]
    · rw [hfind]; simp [toB]
  · refine ⟨.undefined, ?_, ?_⟩
    · simp [Scope.step, Scope.getValue, Scope.getSymbolID, hf]
    · rw [hfind]; simp

theorem sim_lookupM {σ : Scope α} {d : Nat} (h : Sim σ d) (name : String) :
    ∃ r, σ.step (.lookupM name) = .ok (σ, r) ∧ step (abs σ) (.lookupM name) = some (abs σ, r) := by
  have hlook := lookupB_absAux d (live σ) name
  simp only [step, abs_eq h, hlook]
  unfold live
  rcases findLoop_spec σ.locals σ.values σ.externalRefs name σ.localCount h.wf.1 h.wf.2 with
    ⟨i, hi, hf, hl, hv, hfind⟩ | ⟨hf, hfind⟩
  · refine ⟨.valM σ.values[i] (extID (refLookup σ.externalRefs i)), ?_, ?_⟩
    · cases hr : refLookup σ.externalRefs i <;>
        simp [Scope.step, Scope.getValueWithModuleID, Scope.getSymbolID, hf, hv, hr, extID]
    · rw [hfind]; simp [toB]
  · refine ⟨.undefined, ?_, ?_⟩
    · simp [Scope.step, Scope.getValueWithModuleID, Scope.getSymbolID, hf]
    · rw [hfind]; simp

/-- what the evaluator's use guarantees for one operation at depth `d` -/
def opOK (d : Nat) : Op α → Prop
  | .endScope => 0 < d
  | .declareExternal _ _ _ => d = 0
  | _ => True

def nextDepth (d : Nat) : Op α → Nat
  | .beginScope => d + 1
  | .endScope => d - 1
  | _ => d

/-- one operation: the model does not panic, keeps the invariant, and answers and moves exactly as the spec -/
theorem step_sim {σ : Scope α} {d : Nat} (h : Sim σ d) (op : Op α) (hok : opOK d op) :
    ∃ σ' r, σ.step op = .ok (σ', r) ∧ Sim σ' (nextDepth d op) ∧ step (abs σ) op = some (abs σ', r) := by
  cases op with
  | beginScope =>
    exact ⟨σ.beginScope, .done, rfl, (sim_begin h).1, by simp [step, (sim_begin h).2]⟩
  | endScope =>
    cases d with
    | zero => exact absurd hok (Nat.lt_irrefl 0)
    | succ d =>
      obtain ⟨σ', he, hs, hstep⟩ := sim_end h
      exact ⟨σ', .done, by simp [Scope.step, he], hs, hstep⟩
  | declare n v => exact sim_declare h n v false
  | declareConst n v => exact sim_declare h n v true
  | declareExternal n v m => exact sim_declareExt h hok n v m
  | assign n v => exact sim_assign h n v
  | lookup n =>
    obtain ⟨r, h1, h2⟩ := sim_lookup h n
    exact ⟨σ, r, h1, h, h2⟩
  | lookupM n =>
    obtain ⟨r, h1, h2⟩ := sim_lookupM h n
    exact ⟨σ, r, h1, h, h2⟩

theorem wf_cons {d d' : Nat} {op : Op α} {ops : List (Op α)}
    (h1 : finalDepth d (op :: ops) = some d') (h2 : extAtRoot d (op :: ops) = true) :
    opOK d op ∧ finalDepth (nextDepth d op) ops = some d' ∧ extAtRoot (nextDepth d op) ops = true := by
  cases op <;> cases d <;> simp_all [finalDepth, extAtRoot, opOK, nextDepth]

/-- histories: induction over the operation list -/
theorem run_sim (ops : List (Op α)) : ∀ (σ : Scope α) (d d' : Nat), Sim σ d →
    finalDepth d ops = some d' → extAtRoot d ops = true →
    ∃ σ' rs, σ.run ops = .ok (σ', rs) ∧ Sim σ' d' ∧ run (abs σ) ops = some (abs σ', rs) := by
  induction ops with
  | nil =>
    intro σ d d' h h1 _
    simp only [finalDepth, Option.some.injEq] at h1
    subst h1
    exact ⟨σ, [], rfl, h, rfl⟩
  | cons op ops ih =>
    intro σ d d' h h1 h2
    obtain ⟨hok, hf, he⟩ := wf_cons h1 h2
    obtain ⟨σ₁, r, hstep, hs₁, hspec⟩ := step_sim h op hok
    obtain ⟨σ₂, rs, hrun, hs₂, hspec₂⟩ := ih σ₁ _ d' hs₁ hf he
    exact ⟨σ₂, r :: rs, by simp [Scope.run, hstep, hrun], hs₂, by simp [run, hspec, hspec₂]⟩

end ZnVerif.Proofs.Scope
