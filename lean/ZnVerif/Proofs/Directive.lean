/-
Helper lemmas for C14: the directive machine of `parseNumberFormatter` (table regenerated from the Go
switch) against the documented grammar `[+]?(.D+)?[E%]?`.
-/
import ZnVerif.Model.Format
import ZnVerif.Spec.Template
import ZnVerif.Proofs.Template

namespace ZnVerif.Proofs.Directive
open ZnVerif.Model.Format ZnVerif.Generated
open ZnVerif.Spec.Template
open ZnVerif.Proofs.Template (isDigit_iff takeDigits_spec)

/-! ### the regenerated table is the documented machine -/

/-- the double switch written out: states 1 begin, 2 after `+`, 3 after `.`, 6 after a precision digit,
4 after `E`, 5 after `%` -/
def refLookup (st ch : Nat) : Option DirAct :=
  if ch = 0x2B then (if st = 1 then some (.setFlag 2 0) else none)
  else if ch = 0x2E then (if st = 1 ∨ st = 2 then some (.setFlag 3 1) else none)
  else if ch = 0x45 then (if st = 1 ∨ st = 2 ∨ st = 6 then some (.setFlag 4 2) else none)
  else if ch = 0x25 then (if st = 1 ∨ st = 2 ∨ st = 6 then some (.setFlag 5 3) else none)
  else if 0x30 ≤ ch ∧ ch ≤ 0x39 then (if st = 3 ∨ st = 6 then some (.digit 6) else none)
  else none

theorem dirLookup_eq_ref (st ch : Nat) : dirLookup st ch = refLookup st ch := by
  unfold dirLookup refLookup
  simp only [FormatDFA.dirCases, FormatDFA.dirDigitLo, FormatDFA.dirDigitHi, FormatDFA.dirDigitFrom,
    FormatDFA.dirDigitTo, List.find?, List.contains_cons, List.contains_nil]
  by_cases h1 : ch = 0x2B
  · subst h1; by_cases a : st = 1 <;> simp [a]
  by_cases h2 : ch = 0x2E
  · subst h2; by_cases a : st = 1 <;> by_cases b : st = 2 <;> simp [a, b]
  by_cases h3 : ch = 0x45
  · subst h3; by_cases a : st = 1 <;> by_cases b : st = 2 <;> by_cases c : st = 6 <;> simp [a, b, c]
  by_cases h4 : ch = 0x25
  · subst h4; by_cases a : st = 1 <;> by_cases b : st = 2 <;> by_cases c : st = 6 <;> simp [a, b, c]
  have e1 : (ch == 0x2B) = false := by simp [h1]
  have e2 : (ch == 0x2E) = false := by simp [h2]
  have e3 : (ch == 0x45) = false := by simp [h3]
  have e4 : (ch == 0x25) = false := by simp [h4]
  by_cases a : st = 3 <;> by_cases c : st = 6 <;> simp [e1, e2, e3, e4, h1, h2, h3, h4, a, c]

theorem step_plus (s : DirSt) :
    dirStep s 0x2B = if s.state = 1 then some { s with state := 2, plus := true } else none := by
  unfold dirStep; rw [dirLookup_eq_ref]; simp only [refLookup, DirSt.setFlag]
  by_cases h : s.state = 1 <;> simp [h]

theorem step_dot (s : DirSt) :
    dirStep s 0x2E = if s.state = 1 ∨ s.state = 2 then some { s with state := 3, fixed := true } else none := by
  unfold dirStep; rw [dirLookup_eq_ref]; simp only [refLookup, DirSt.setFlag]
  by_cases h : s.state = 1 ∨ s.state = 2 <;> simp [h]

theorem step_E (s : DirSt) :
    dirStep s 0x45 = if s.state = 1 ∨ s.state = 2 ∨ s.state = 6 then some { s with state := 4, sci := true } else none := by
  unfold dirStep; rw [dirLookup_eq_ref]; simp only [refLookup, DirSt.setFlag]
  by_cases h : s.state = 1 ∨ s.state = 2 ∨ s.state = 6 <;> simp [h]

theorem step_pct (s : DirSt) :
    dirStep s 0x25 = if s.state = 1 ∨ s.state = 2 ∨ s.state = 6 then some { s with state := 5, pct := true } else none := by
  unfold dirStep; rw [dirLookup_eq_ref]; simp only [refLookup, DirSt.setFlag]
  by_cases h : s.state = 1 ∨ s.state = 2 ∨ s.state = 6 <;> simp [h]

theorem step_digit (s : DirSt) (ch : Nat) (h : 0x30 ≤ ch ∧ ch ≤ 0x39) :
    dirStep s ch = if s.state = 3 ∨ s.state = 6 then
      (if s.prec * 10 + (ch - 0x30) > 1000000 then none
       else some { s with state := 6, prec := s.prec * 10 + (ch - 0x30) })
      else none := by
  unfold dirStep; rw [dirLookup_eq_ref]
  have h1 : ch ≠ 0x2B := by omega
  have h2 : ch ≠ 0x2E := by omega
  have h3 : ch ≠ 0x45 := by omega
  have h4 : ch ≠ 0x25 := by omega
  simp only [refLookup, h1, h2, h3, h4, h, FormatDFA.dirMaxPrecision, FormatDFA.dirDigitLo]
  by_cases g : s.state = 3 ∨ s.state = 6 <;> simp [g]

theorem step_other (s : DirSt) (ch : Nat) (h1 : ch ≠ 0x2B) (h2 : ch ≠ 0x2E) (h3 : ch ≠ 0x45) (h4 : ch ≠ 0x25)
    (h : ¬ (0x30 ≤ ch ∧ ch ≤ 0x39)) : dirStep s ch = none := by
  unfold dirStep; rw [dirLookup_eq_ref]
  simp only [refLookup, h1, h2, h3, h4, h]
  simp

/-! ### the loop -/

/-- the final machine state that stands for a directive -/
def stateOf (d : Directive) : DirSt where
  state := match d.style with
    | .sci => 4
    | .percent => 5
    | .plain => match d.prec with
      | some _ => 6
      | none => if d.plus then 2 else 1
  prec := match d.prec with
    | some p => p
    | none => 0
  plus := d.plus
  fixed := d.prec.isSome
  sci := decide (d.style = .sci)
  pct := decide (d.style = .percent)

/-- the loop followed by the check after it -/
def run (s : DirSt) (d : List Nat) : Option DirSt :=
  (dirLoop s d).filter (fun s => !FormatDFA.dirRejectFinal.contains s.state)

theorem run_nil (s : DirSt) : run s [] = if s.state = 3 then none else some s := by
  simp [run, dirLoop, FormatDFA.dirRejectFinal, Option.filter]

theorem run_cons (s : DirSt) (c : Nat) (r : List Nat) :
    run s (c :: r) = match dirStep s c with
      | none => none
      | some s' => run s' r := by
  simp only [run, dirLoop]
  cases dirStep s c <;> simp

/-- after `E` or `%` nothing may follow -/
theorem run_final (s : DirSt) (h : s.state = 4 ∨ s.state = 5) (c : Nat) (r : List Nat) : run s (c :: r) = none := by
  rw [run_cons]
  by_cases h1 : c = 0x2B
  · subst h1; rw [step_plus, if_neg (by omega)]
  by_cases h2 : c = 0x2E
  · subst h2; rw [step_dot, if_neg (by omega)]
  by_cases h3 : c = 0x45
  · subst h3; rw [step_E, if_neg (by omega)]
  by_cases h4 : c = 0x25
  · subst h4; rw [step_pct, if_neg (by omega)]
  by_cases h5 : 0x30 ≤ c ∧ c ≤ 0x39
  · rw [step_digit s c h5, if_neg (by omega)]
  · rw [step_other s c h1 h2 h3 h4 h5]

/-- what may follow the sign / precision part: nothing, `E`, or `%` -/
def suffixShape (s : DirSt) : List Nat → Option DirSt
  | [] => some s
  | [c] => if c = 0x45 then some { s with state := 4, sci := true }
           else if c = 0x25 then some { s with state := 5, pct := true } else none
  | _ => none

/-- from a state in which a suffix may come (1, 2, 6), on input that does not continue the part before the
suffix, the machine does what `parseSuffix` says -/
theorem run_suffix (s : DirSt) (hs : s.state = 1 ∨ s.state = 2 ∨ s.state = 6) (rest : List Nat)
    (hplus : s.state = 1 → ∀ c r, rest = c :: r → c ≠ 0x2B)
    (hdot : s.state = 1 ∨ s.state = 2 → ∀ c r, rest = c :: r → c ≠ 0x2E)
    (hdig : s.state = 6 → ∀ c r, rest = c :: r → ¬ (0x30 ≤ c ∧ c ≤ 0x39)) :
    run s rest = suffixShape s rest := by
  match rest with
  | [] => rw [run_nil, if_neg (by omega)]; rfl
  | c :: r =>
    rw [run_cons]
    by_cases h3 : c = 0x45
    · subst h3
      rw [step_E, if_pos hs]
      cases r with
      | nil => simp [run_nil, suffixShape]
      | cons c' r' => simp [run_final, suffixShape]
    by_cases h4 : c = 0x25
    · subst h4
      rw [step_pct, if_pos hs]
      cases r with
      | nil => simp [run_nil, suffixShape]
      | cons c' r' => simp [run_final, suffixShape]
    have hnone : dirStep s c = none := by
      by_cases h1 : c = 0x2B
      · subst h1
        rw [step_plus, if_neg]
        intro h; exact hplus h _ _ rfl rfl
      by_cases h2 : c = 0x2E
      · subst h2
        rw [step_dot, if_neg]
        intro h; exact hdot h _ _ rfl rfl
      by_cases h5 : 0x30 ≤ c ∧ c ≤ 0x39
      · rw [step_digit s c h5, if_neg]
        intro h
        rcases h with h | h
        · omega
        · exact hdig h _ _ rfl h5
      · exact step_other s c h1 h2 h3 h4 h5
    rw [hnone]
    cases r with
    | nil => simp [h3, h4, suffixShape]
    | cons c' r' => simp [suffixShape]

/-- value of a digit string continuing an accumulator -/
def decimalFrom (p : Nat) (ds : List Nat) : Nat := ds.foldl (fun a c => a * 10 + (c - 0x30)) p

theorem decimal_eq (ds : List Nat) : decimal ds = decimalFrom 0 ds := rfl

theorem decimalFrom_ge (ds : List Nat) : ∀ p, p ≤ decimalFrom p ds := by
  induction ds with
  | nil => intro p; simp [decimalFrom]
  | cons c ds ih =>
    intro p
    have := ih (p * 10 + (c - 0x30))
    simp only [decimalFrom, List.foldl_cons] at this ⊢
    omega

/-- the precision digits: the machine accumulates them and stops with an error as soon as the limit is passed,
which happens iff the whole number is above the limit -/
theorem run_digits (ds : List Nat) (hd : ∀ c ∈ ds, isDigit c = true) :
    ∀ (s : DirSt) (rest : List Nat), (s.state = 3 ∨ s.state = 6) → s.prec ≤ 1000000 →
    run s (ds ++ rest) =
      if decimalFrom s.prec ds > 1000000 then none
      else run { s with state := (if ds = [] then s.state else 6), prec := decimalFrom s.prec ds } rest := by
  induction ds with
  | nil =>
    intro s rest _ hp
    simp [decimalFrom]
    omega
  | cons c ds ih =>
    intro s rest hs hp
    have hc : 0x30 ≤ c ∧ c ≤ 0x39 := (isDigit_iff c).1 (hd c (by simp))
    rw [List.cons_append, run_cons, step_digit s c hc, if_pos hs]
    by_cases hlim : s.prec * 10 + (c - 0x30) > 1000000
    · rw [if_pos hlim]
      have := decimalFrom_ge ds (s.prec * 10 + (c - 0x30))
      have h2 : decimalFrom s.prec (c :: ds) = decimalFrom (s.prec * 10 + (c - 0x30)) ds := rfl
      rw [h2, if_pos (by omega)]
    · rw [if_neg hlim]
      have := ih (fun c hc => hd c (by simp [hc]))
        { s with state := 6, prec := s.prec * 10 + (c - 0x30) } rest (Or.inr rfl) (by simp; omega)
      have h2 : decimalFrom s.prec (c :: ds) = decimalFrom (s.prec * 10 + (c - 0x30)) ds := rfl
      dsimp only at this ⊢
      rw [this, h2]
      simp

/-! ### machine = grammar -/

theorem suffix_within (plus : Bool) (prec : Option Nat) (rest : List Nat)
    (h : (Directive.mk plus prec .plain).withinLimit = true) :
    ((parseSuffix plus prec rest).filter Directive.withinLimit).map stateOf =
      suffixShape (stateOf ⟨plus, prec, .plain⟩) rest := by
  have hs : (Directive.mk plus prec .sci).withinLimit = true := h
  have hp : (Directive.mk plus prec .percent).withinLimit = true := h
  match rest with
  | [] => simp [parseSuffix, Option.filter, h, suffixShape]
  | [c] =>
    by_cases h3 : c = 0x45
    · subst h3; simp [parseSuffix, Option.filter, hs, stateOf, suffixShape]
    by_cases h4 : c = 0x25
    · subst h4; simp [parseSuffix, Option.filter, hp, stateOf, suffixShape]
    simp [parseSuffix, h3, h4, suffixShape]
  | _ :: _ :: _ => simp [parseSuffix, suffixShape]

theorem suffix_beyond (plus : Bool) (p : Nat) (rest : List Nat) (h : p > precLimit) :
    ((parseSuffix plus (some p) rest).filter Directive.withinLimit) = none := by
  have hw : ∀ st, (Directive.mk plus (some p) st).withinLimit = false := by
    intro st; simp [Directive.withinLimit]; omega
  match rest with
  | [] => simp [parseSuffix, Option.filter, hw]
  | [c] =>
    by_cases h3 : c = 0x45
    · subst h3; simp [parseSuffix, Option.filter, hw]
    by_cases h4 : c = 0x25
    · subst h4; simp [parseSuffix, Option.filter, hw]
    simp [parseSuffix, h3, h4]
  | _ :: _ :: _ => simp [parseSuffix]

/-- after `.` without any digit every continuation is refused -/
theorem run_dot_nodigit (s : DirSt) (hs : s.state = 3) (rest : List Nat)
    (hnd : ∀ c r, rest = c :: r → ¬ (0x30 ≤ c ∧ c ≤ 0x39)) : run s rest = none := by
  match rest with
  | [] => rw [run_nil, if_pos hs]
  | c :: r =>
    rw [run_cons]
    have hnone : dirStep s c = none := by
      by_cases h1 : c = 0x2B
      · subst h1; rw [step_plus, if_neg (by omega)]
      by_cases h2 : c = 0x2E
      · subst h2; rw [step_dot, if_neg (by omega)]
      by_cases h3 : c = 0x45
      · subst h3; rw [step_E, if_neg (by omega)]
      by_cases h4 : c = 0x25
      · subst h4; rw [step_pct, if_neg (by omega)]
      have h5 := hnd c r rfl
      exact step_other s c h1 h2 h3 h4 h5
    rw [hnone]

theorem run_frac (plus : Bool) (l : List Nat) (hl : plus = false → ∀ c r, l = c :: r → c ≠ 0x2B) :
    run (stateOf ⟨plus, none, .plain⟩) l = ((parseFrac plus l).filter Directive.withinLimit).map stateOf := by
  have hst : (stateOf ⟨plus, none, .plain⟩).state = 1 ∨ (stateOf ⟨plus, none, .plain⟩).state = 2 := by
    cases plus <;> simp [stateOf]
  have hst1 : (stateOf ⟨plus, none, .plain⟩).state = 1 → plus = false := by
    cases plus <;> simp [stateOf]
  have noDot : ∀ l : List Nat, (∀ c r, l = c :: r → c ≠ 0x2E) →
      parseFrac plus l = parseSuffix plus none l := by
    intro l h
    cases l with
    | nil => rfl
    | cons c r => simp [parseFrac, h c r rfl]
  by_cases hdot : ∃ r, l = 0x2E :: r
  · obtain ⟨r, rfl⟩ := hdot
    rw [run_cons, step_dot, if_pos hst]
    obtain ⟨h1, h2, h3⟩ := takeDigits_spec r
    have hpf : parseFrac plus (0x2E :: r) =
        if (takeDigits r).1 = [] then none else parseSuffix plus (some (decimal (takeDigits r).1)) (takeDigits r).2 := by
      simp [parseFrac]
    rw [hpf]
    have e3 : ({ stateOf ⟨plus, none, .plain⟩ with state := 3, fixed := true } : DirSt) = ⟨3, 0, plus, true, false, false⟩ := by
      cases plus <;> rfl
    rw [e3]
    conv => lhs; rw [h1]
    dsimp only
    rw [run_digits _ h2 ⟨3, 0, plus, true, false, false⟩ _ (Or.inl rfl) (by simp)]
    have hnd : ∀ c r', (takeDigits r).2 = c :: r' → ¬ (0x30 ≤ c ∧ c ≤ 0x39) := by
      intro c r' hc hd
      have := h3 c r' hc
      rw [(isDigit_iff c).2 hd] at this
      exact absurd this (by simp)
    dsimp only
    rw [← decimal_eq]
    by_cases hds : (takeDigits r).1 = []
    · simp only [hds, ↓reduceIte]
      have : decimal [] = 0 := rfl
      rw [this, if_neg (by omega), run_dot_nodigit _ rfl _ hnd]
      rfl
    · simp only [hds, ↓reduceIte]
      by_cases hlim : decimal (takeDigits r).1 > 1000000
      · rw [if_pos hlim, suffix_beyond _ _ _ (by simpa [precLimit] using hlim)]
        rfl
      · rw [if_neg hlim]
        rw [run_suffix _ (Or.inr (Or.inr rfl)) _ (by simp) (by simp)
          (by intro _ c r' hc; exact hnd c r' hc)]
        have hw : (Directive.mk plus (some (decimal (takeDigits r).1)) .plain).withinLimit = true := by
          have : decimal (takeDigits r).1 ≤ 1000000 := by omega
          simp [Directive.withinLimit, precLimit, this]
        rw [suffix_within plus (some (decimal (takeDigits r).1)) _ hw]
        have e6 : (⟨6, decimal (takeDigits r).1, plus, true, false, false⟩ : DirSt) =
            stateOf ⟨plus, some (decimal (takeDigits r).1), .plain⟩ := by
          cases plus <;> rfl
        rw [e6]
  · have hnd : ∀ c r, l = c :: r → c ≠ 0x2E := by
      intro c r h hc
      exact hdot ⟨r, by rw [h, hc]⟩
    rw [noDot l hnd]
    rw [run_suffix _ (by rcases hst with h | h <;> simp [h]) _
      (by intro h c r hc; exact hl (hst1 h) c r hc)
      (by intro _ c r hc; exact hnd c r hc)
      (by intro h; rcases hst with h' | h' <;> omega)]
    rw [suffix_within _ _ _ (by simp [Directive.withinLimit])]

/-- the directive machine (loop + final check) accepts exactly the documented grammar within the precision
limit and ends in the state that stands for the parsed directive -/
theorem dirRun_eq (d : List Nat) :
    dirRun d = ((parseDirective d).filter Directive.withinLimit).map stateOf := by
  have h0 : dirRun d = run (stateOf ⟨false, none, .plain⟩) d := rfl
  rw [h0]
  by_cases hp : ∃ r, d = 0x2B :: r
  · obtain ⟨r, rfl⟩ := hp
    rw [run_cons, step_plus, if_pos (by simp [stateOf])]
    have : parseDirective (0x2B :: r) = parseFrac true r := by simp [parseDirective]
    rw [this, ← run_frac true r (by simp)]
    simp [stateOf]
  · have hne : ∀ c r, d = c :: r → c ≠ 0x2B := by
      intro c r h hc
      exact hp ⟨r, by rw [h, hc]⟩
    have : parseDirective d = parseFrac false d := by
      cases d with
      | nil => rfl
      | cons c r => simp [parseDirective, hne c r rfl]
    rw [this, run_frac false d (fun _ => hne)]

/-- the documented triple as the four values the renderer reads -/
def flagsOf (d : Directive) : Bool × Option Nat × Bool × Bool :=
  (d.plus, d.prec, decide (d.style = .sci), decide (d.style = .percent))

theorem flags_stateOf (d : Directive) : (stateOf d).flags = flagsOf d := by
  obtain ⟨plus, prec, style⟩ := d
  cases prec <;> simp [stateOf, DirSt.flags, flagsOf]

/-- the accumulator never exceeds the limit (so the Go `int` holding it never exceeds 10·limit + 9 before the check) -/
theorem dirStep_prec_le (s s' : DirSt) (ch : Nat) (hs : s.prec ≤ 1000000) (h : dirStep s ch = some s') :
    s'.prec ≤ 1000000 := by
  by_cases h1 : ch = 0x2B
  · subst h1; rw [step_plus] at h; split at h <;> simp at h; rw [← h]; exact hs
  by_cases h2 : ch = 0x2E
  · subst h2; rw [step_dot] at h; split at h <;> simp at h; rw [← h]; exact hs
  by_cases h3 : ch = 0x45
  · subst h3; rw [step_E] at h; split at h <;> simp at h; rw [← h]; exact hs
  by_cases h4 : ch = 0x25
  · subst h4; rw [step_pct] at h; split at h <;> simp at h; rw [← h]; exact hs
  by_cases h5 : 0x30 ≤ ch ∧ ch ≤ 0x39
  · rw [step_digit s ch h5] at h
    split at h
    · split at h
      · simp at h
      · simp at h; rw [← h]; simp; omega
    · simp at h
  · rw [step_other s ch h1 h2 h3 h4 h5] at h; simp at h

theorem dirLoop_prec_le : ∀ (d : List Nat) (s s' : DirSt), s.prec ≤ 1000000 → dirLoop s d = some s' →
    s'.prec ≤ 1000000 := by
  intro d
  induction d with
  | nil => intro s s' hs h; simp [dirLoop] at h; rw [← h]; exact hs
  | cons c r ih =>
    intro s s' hs h
    simp only [dirLoop] at h
    cases hst : dirStep s c with
    | none => simp [hst] at h
    | some s1 =>
      simp only [hst] at h
      exact ih s1 s' (dirStep_prec_le s s1 c hs hst) h

end ZnVerif.Proofs.Directive
