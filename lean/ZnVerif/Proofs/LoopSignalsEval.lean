/-
Loop signals, part 2: the expression evaluator (`evalExpr`, `memberIV`, calls, constructors) never yields a loop
signal.  Uses the `nosig` automation and the leaf lemmas of Proofs/LoopSignals.lean.
-/
import ZnVerif.Proofs.LoopSignals
set_option linter.unusedSectionVars false
set_option linter.unusedVariables false

namespace ZnVerif.Proofs.LoopSignals
open ZnVerif.Model ZnVerif.Proofs.ControlFlow

variable {ν : Type} [NumOps ν]

macro_rules | `(tactic| nosig_leaf) => `(tactic| first
  | exact NoSig.builtinMethod _ _ _ _ | exact NoSig.evalExecBlock _ _ _)

theorem NoSig.reduceRHS (n : Nat) (iv : Nat × Addr × String × Int) : NoSig (reduceRHS n iv : M ν Addr) := by
  obtain ⟨kind, root, name, idx⟩ := iv
  unfold ZnVerif.Model.reduceRHS; nosig
theorem NoSig.reduceLHS (iv : Nat × Addr × String × Int) (v : Addr) : NoSig (reduceLHS iv v : M ν Unit) := by
  obtain ⟨kind, root, name, idx⟩ := iv
  unfold ZnVerif.Model.reduceLHS; nosig

theorem NoSig.execFunction (n : Nat) (f : FnRef) (this : Option Addr) (params : List Addr) :
    NoSig (execFunction n f this params : M ν Addr) := by
  cases n with
  | zero => unfold ZnVerif.Model.execFunction; exact NoSig.outOfFuel
  | succ n =>
    unfold ZnVerif.Model.execFunction
    split
    · nosig
    · exact NoSig.notModelled
    · exact NoSig.notModelled
    · refine NoSig.tryCatch' (NoSig.evalExecBlock _ _ _) fun r hr => ?_
      split
      · nosig
      · nosig
      · exact NoSig.liftRes hr
macro_rules | `(tactic| nosig_leaf) => `(tactic| first
  | exact NoSig.reduceRHS _ _ | exact NoSig.reduceLHS _ _ | exact NoSig.execFunction _ _ _ _)

theorem NoSig.execDirectFunction (n : Nat) (fname : String) (params : List Addr) :
    NoSig (execDirectFunction n fname params : M ν Addr) := by
  cases n with
  | zero => unfold ZnVerif.Model.execDirectFunction; exact NoSig.outOfFuel
  | succ n => unfold ZnVerif.Model.execDirectFunction; nosig

theorem NoSig.execMethodFunction (n : Nat) (root : Addr) (fname : String) (params : List Addr) :
    NoSig (execMethodFunction n root fname params : M ν Addr) := by
  cases n with
  | zero => unfold ZnVerif.Model.execMethodFunction; exact NoSig.outOfFuel
  | succ n => unfold ZnVerif.Model.execMethodFunction; nosig

theorem NoSig.construct (n : Nat) (cv : Addr) (params : List Addr) : NoSig (construct n cv params : M ν Addr) := by
  cases n with
  | zero => unfold ZnVerif.Model.construct; exact NoSig.outOfFuel
  | succ n => unfold ZnVerif.Model.construct; nosig
macro_rules | `(tactic| nosig_leaf) => `(tactic| first
  | exact NoSig.execDirectFunction _ _ _ | exact NoSig.execMethodFunction _ _ _ _ | exact NoSig.construct _ _ _)

theorem NoSig.memberIV_of {n : Nat} (ih : ∀ e, NoSig (evalExpr n e : M ν Addr)) (e : Expr) :
    NoSig (memberIV (n+1) e : M ν (Nat × Addr × String × Int)) := by
  unfold ZnVerif.Model.memberIV; nosig

/-- **expressions never yield a loop signal** (nor does the evaluation of an l-value): whatever an expression calls —
methods, constructors, built-ins — a 结束循环 / 继续循环 executed in there stays in the body where it stands -/
theorem NoSig.evalExpr_memberIV : ∀ n : Nat,
    (∀ e, NoSig (evalExpr n e : M ν Addr)) ∧ (∀ e, NoSig (memberIV n e : M ν (Nat × Addr × String × Int)))
  | 0 => ⟨fun e => by unfold ZnVerif.Model.evalExpr; exact NoSig.outOfFuel,
          fun e => by unfold ZnVerif.Model.memberIV; exact NoSig.outOfFuel⟩
  | n+1 => by
    obtain ⟨ih, ih2⟩ := NoSig.evalExpr_memberIV n
    refine ⟨fun e => ?_, NoSig.memberIV_of ih⟩
    unfold ZnVerif.Model.evalExpr
    nosig

theorem NoSig.evalExpr (n : Nat) (e : Expr) : NoSig (evalExpr n e : M ν Addr) := (NoSig.evalExpr_memberIV n).1 e
theorem NoSig.memberIV (n : Nat) (e : Expr) : NoSig (memberIV n e : M ν (Nat × Addr × String × Int)) :=
  (NoSig.evalExpr_memberIV n).2 e
macro_rules | `(tactic| nosig_leaf) => `(tactic| first | exact NoSig.evalExpr _ _ | exact NoSig.memberIV _ _)

end ZnVerif.Proofs.LoopSignals
