/-
Fuel monotonicity of the model evaluator on the pure expression fragment: an outcome other than
"out of fuel" is the outcome for every larger fuel.  (Needed by the statement-level refinement, where
model and spec spend fuel at different rates.)
-/
import ZnVerif.Proofs.ExprBase
set_option linter.unusedSectionVars false
set_option linter.unusedSimpArgs false

namespace ZnVerif.Proofs
open ZnVerif.Model

variable {ν : Type} [NumOps ν]

/-- `b` answers what `a` answers whenever `a` does not run out of fuel -/
def FLe {α} (a b : M ν α) : Prop := ∀ s r s', a s = (r, s') → r ≠ .fuel → b s = (r, s')

theorem FLe.refl {α} (a : M ν α) : FLe a a := fun _ _ _ h _ => h

theorem FLe.fuel {α} (b : M ν α) : FLe outOfFuel b := by
  intro s r s' h hr
  cases h; exact absurd rfl hr

theorem FLe.bind {α β} {a b : M ν α} {f g : α → M ν β} (h1 : FLe a b) (h2 : ∀ x, FLe (f x) (g x)) :
    FLe (a >>= f) (b >>= g) := by
  intro s r s' h hr
  rw [M.bind_def] at h ⊢
  cases ha : a s with
  | mk ra sa =>
    rw [ha] at h
    cases ra with
    | ok x => rw [h1 s _ _ ha (by simp)]; exact h2 x sa r s' h hr
    | fuel => simp only at h; cases h; exact absurd rfl hr
    | err e => rw [h1 s _ _ ha (by simp)]; exact h
    | panic => rw [h1 s _ _ ha (by simp)]; exact h
    | unmodelled => rw [h1 s _ _ ha (by simp)]; exact h

theorem FLe.mapM {α β} {f g : α → M ν β} : ∀ (l : List α), (∀ x ∈ l, FLe (f x) (g x)) → FLe (l.mapM f) (l.mapM g)
  | [], _ => by rw [List.mapM_nil, List.mapM_nil]; exact FLe.refl _
  | x :: xs, h => by
    rw [List.mapM_cons, List.mapM_cons]
    exact FLe.bind (h x List.mem_cons_self) fun _ =>
      FLe.bind (FLe.mapM xs fun y hy => h y (List.mem_cons_of_mem _ hy)) fun _ => FLe.refl _

theorem FLe.allM {α} {f g : α → M ν Bool} (h : ∀ x, FLe (f x) (g x)) : ∀ (l : List α), FLe (allM f l) (allM g l)
  | [] => FLe.refl _
  | x :: xs => by
    simp only [Model.allM]
    refine FLe.bind (h x) fun b => ?_
    cases b
    · exact FLe.refl _
    · exact FLe.allM h xs

theorem compareXEQ_mono : ∀ (n : Nat) (l r : Addr), FLe (compareXEQ (ν := ν) n l r) (compareXEQ (n+1) l r)
  | 0, l, r => by simp only [compareXEQ]; exact FLe.fuel _
  | n+1, l, r => by
    have ih := compareXEQ_mono n
    rw [compareXEQ, compareXEQ]
    refine FLe.bind (FLe.refl _) fun cl => FLe.bind (FLe.refl _) fun cr => ?_
    cases cl <;> try exact FLe.refl _
    case arr xs =>
      cases cr <;> try exact FLe.refl _
      case arr ys =>
        simp only []
        split
        · exact FLe.refl _
        · exact FLe.allM (fun (p : Addr × Addr) => ih p.1 p.2) _
    case hm lv lo =>
      cases cr <;> try exact FLe.refl _
      case hm rv ro =>
        simp only []
        split
        · exact FLe.refl _
        · refine FLe.allM (fun k => ?_) _
          cases lookup k rv <;> simp only []
          · exact FLe.refl _
          · cases lookup k lv <;> simp only []
            · exact FLe.refl _
            · exact ih _ _

/-- one more unit of fuel for the recursive calls and the comparison: one more for the expression -/
theorem evalExpr_mono_step (n n' : Nat) (hcmp : ∀ l r, FLe (compareXEQ (ν := ν) n l r) (compareXEQ n' l r))
    (ih : ∀ e, PureExpr e → FLe (evalExpr (ν := ν) n e) (evalExpr n' e)) (e : Expr) (he : PureExpr e) :
    FLe (evalExpr (ν := ν) (n+1) e) (evalExpr (n'+1) e) := by
  cases he with
  | id i => simp only [evalExpr]; exact FLe.refl _
  | str ln t => simp only [evalExpr]; exact FLe.refl _
  | arr ln items hi =>
    simp only [evalExpr]
    exact FLe.bind (FLe.mapM _ fun e he => ih e (hi e he)) fun _ => FLe.refl _
  | hm ln kvs hi =>
    simp only [evalExpr]
    refine FLe.bind (FLe.mapM _ fun kv hkv => ?_) fun _ => FLe.refl _
    have hv := ih _ (hi kv hkv)
    repeat' first
      | exact hv
      | (refine FLe.bind ?_ (fun _ => ?_))
      | split
      | exact FLe.refl _
  | logic ln ty l r hty hl hr =>
    simp only [evalExpr]
    repeat' first
      | exact ih _ hl
      | exact ih _ hr
      | exact hcmp _ _
      | (refine FLe.bind ?_ (fun _ => ?_))
      | split
      | exact FLe.refl _
  | arith ln ty l r hty hl hr =>
    simp only [evalExpr]
    repeat' first
      | exact ih _ hl
      | exact ih _ hr
      | (refine FLe.bind ?_ (fun _ => ?_))
      | split
      | exact FLe.refl _

theorem evalExpr_mono : ∀ (n : Nat), (∀ e, PureExpr e → FLe (evalExpr (ν := ν) n e) (evalExpr (n+1) e))
  | 0 => fun e _ => by
    have h1 : evalExpr (ν := ν) 0 e = outOfFuel := by simp only [evalExpr]
    rw [h1]; exact FLe.fuel _
  | n+1 => evalExpr_mono_step n (n+1) (compareXEQ_mono n) (evalExpr_mono n)

/-- an outcome other than out-of-fuel is the outcome for every larger fuel -/
theorem evalExpr_mono_le {n n' : Nat} (hle : n ≤ n') (e : Expr) (he : PureExpr e) (s : VM ν) (r : Res Addr) (s' : VM ν)
    (h : evalExpr n e s = (r, s')) (hr : r ≠ .fuel) : evalExpr n' e s = (r, s') := by
  induction hle with
  | refl => exact h
  | step _ ih => exact evalExpr_mono _ e he s r s' ih hr

end ZnVerif.Proofs
