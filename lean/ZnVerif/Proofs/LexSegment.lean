/-
Helper lemmas for the C04 lexer theorems: how `NextToken` reaches `parseVarQuote` / `parseOperators` /
`parseKeyword` / `parseIdentifier`, the keyword table as a function on texts, and the identifier loop over a run
of name characters.
-/
import ZnVerif.Proofs.Literal
import ZnVerif.Spec.Segment

namespace ZnVerif.Model
open ZnVerif.Generated ZnVerif.Generated.Tokens

/-- a character on which `PreNextToken` does nothing: no white space, no line break -/
def Solid (c : Nat) : Prop := isWhiteSpace c = false ∧ c ≠ runeCR ∧ c ≠ runeLF

theorem skipBlank_solid (l : Lexer) (h : Solid l.cur) : skipBlank l = (.ok (), l) := by
  unfold skipBlank
  apply iterate_done
  unfold skipBlankStep
  obtain ⟨h1, h2, h3⟩ := h
  have : (l.cur == runeCR || l.cur == runeLF) = false := by simp [h2, h3]
  simp only [h1, this, Bool.false_eq_true, ↓reduceIte]

theorem preNextToken_later (l : Lexer) (hb : l.beginLex = false) (h : Solid l.cur) :
    preNextToken l = (.ok (), l) := by
  unfold preNextToken
  simp only [hb, Bool.false_eq_true, ↓reduceIte]
  exact skipBlank_solid l h

theorem preNextToken_first (c : Nat) (body : List Nat) (h0 : c ≠ 0) (h : Solid c) :
    preNextToken (mkLexer (c :: body)) = (.ok (), startState (c :: body)) := by
  have hcur0 : (mkLexer (c :: body)).getChar 0 = c := by simp [Lexer.getChar, mkLexer]
  have hws : isWhiteSpace c = false := h.1
  have htab : c ≠ runeTAB := by intro e; rw [e] at hws; revert hws; decide
  have hsp : c ≠ runeSP := by intro e; rw [e] at hws; revert hws; decide
  have hb : parseBeginLex { mkLexer (c :: body) with beginLex := false } = (.ok (), startState (c :: body)) := by
    unfold parseBeginLex
    have h0' : ({ mkLexer (c :: body) with beginLex := false } : Lexer).getChar 0 = c := hcur0
    have h1 : (c == runeEOF) = false := by simpa [runeEOF] using h0
    have h2 : (c == runeTAB || c == runeSP) = false := by simp [htab, hsp]
    simp only [h0', h1, h2, Bool.false_eq_true, ↓reduceIte]
    rfl
  have hs : skipBlank (startState (c :: body)) = (.ok (), startState (c :: body)) :=
    skipBlank_solid _ (by rw [startState_cur]; exact h)
  unfold preNextToken
  have : (mkLexer (c :: body)).beginLex = true := rfl
  simp only [this, ↓reduceIte, hb, hs]

theorem nextToken_first (c : Nat) (body : List Nat) (h0 : c ≠ 0) (h : Solid c) :
    nextToken (mkLexer (c :: body)) = dispatchToken (startState (c :: body)) := by
  unfold nextToken
  simp only [preNextToken_first c body h0 h]

theorem nextToken_later (l : Lexer) (hb : l.beginLex = false) (h : Solid l.cur) :
    nextToken l = dispatchToken l := by
  unfold nextToken
  simp only [preNextToken_later l hb h]

/-! ### back-tick quoted identifiers -/

/-- `parseVarQuote` over a run of identifier characters closed by a back-tick: one identifier token with exactly
those characters — the keyword table is never consulted -/
theorem varQuote_run (s : Nat) (w r : List Nat)
    (hw : ∀ c ∈ w, isIdentifierChar c = true ∨ c ∈ IdRange.idContinue) :
    ∀ (l : Lexer) (lit : List Nat), l.rest = w ++ cBackTick :: r →
      iterate (parseVarQuoteStep s) (parseVarQuoteStep_consumes s) l lit =
        (.ok { type := cTypeIdentifier, startIdx := s, endIdx := l.cursor + w.length + 2, literal := lit ++ w },
          l.setCursor (l.cursor + w.length + 2)) := by
  induction w with
  | nil =>
    intro l lit h
    have hp := (Lexer.rest_cons (by simpa using h : l.rest = cBackTick :: r)).1
    have hstep : parseVarQuoteStep s l lit =
        (.done (.ok { type := cTypeIdentifier, startIdx := s, endIdx := l.adv.cursor + 1, literal := lit }), l.adv.adv) := by
      unfold parseVarQuoteStep
      have hcur : l.adv.cur = cBackTick := hp
      have h1 : isIdentifierChar cBackTick = false := by decide +kernel
      have h2 : IdRange.idContinue.contains cBackTick = false := by decide
      simp only [hcur, h1, h2, Bool.or_self, Bool.false_eq_true, ↓reduceIte, beq_self_eq_true]
    rw [iterate_done hstep]
    simp [Lexer.setCursor, Lexer.adv]
  | cons c w ih =>
    intro l lit h
    have h' : l.rest = c :: (w ++ cBackTick :: r) := by simpa using h
    obtain ⟨hp, hr⟩ := Lexer.rest_cons h'
    have hc := hw c List.mem_cons_self
    have hstep : parseVarQuoteStep s l lit = (.cont (lit ++ [c]), l.adv) := by
      unfold parseVarQuoteStep
      have hcur : l.adv.cur = c := hp
      have : (isIdentifierChar c || IdRange.idContinue.contains c) = true := by
        rcases hc with h | h
        · simp [h]
        · have : IdRange.idContinue.contains c = true := List.contains_iff_mem.mpr h
          rw [this]; simp
      simp only [hcur, this, ↓reduceIte]
    rw [iterate_cont hstep, ih (fun x hx => hw x (List.mem_cons_of_mem _ hx)) l.adv (lit ++ [c]) hr]
    simp [Lexer.setCursor, Lexer.adv]
    omega

/-! ### the keyword table as a function on texts -/

open Spec.Segment (kwAt)
open Spec.Keywords (denoted)

theorem lookahead_eq_prefix (l : Lexer) (gs : List Nat) (hnz : ∀ g ∈ gs, g ≠ 0) :
    ∀ k, lookaheadMatches l k gs = gs.isPrefixOf (l.src.toList.drop (l.cursor + k)) := by
  induction gs with
  | nil => intro k; simp [lookaheadMatches]
  | cons g gs ih =>
    intro k
    unfold lookaheadMatches
    rw [ih (fun x hx => hnz x (List.mem_cons_of_mem _ hx)) (k + 1)]
    cases hd : l.src.toList.drop (l.cursor + k) with
    | nil =>
      have : l.src.toList.length ≤ l.cursor + k := List.drop_eq_nil_iff.mp hd
      have h0 : l.getChar (l.cursor + k) = 0 := Lexer.getChar_of_ge (by simpa using this)
      have hg : g ≠ 0 := hnz g List.mem_cons_self
      have : (0 == g) = false := by simp; exact fun e => hg e.symm
      simp [h0, this, List.isPrefixOf]
    | cons a rest' =>
      obtain ⟨h1, h2⟩ := Lexer.drop_cons hd
      have ha := Lexer.getChar_of_getElem? h1
      have h3 : l.src.toList.drop (l.cursor + (k + 1)) = rest' := by
        rw [← Nat.add_assoc]; exact h2
      rw [ha, h3]
      simp only [List.isPrefixOf]
      congr 1
      rw [Bool.eq_iff_iff, beq_iff_eq, beq_iff_eq]; exact eq_comm

/-- `parseKeyword`'s table lookup on lists -/
def tableMatch (tbl : List (Nat × List (List Nat × Nat × Nat))) (c : Nat) (rest : List Nat) : Option (Nat × Nat) :=
  match tbl.lookup c with
  | none => none
  | some alts =>
    match alts.find? (fun a => a.1.isPrefixOf rest) with
    | none => none
    | some (_, wordLen, ty) => if ty != 0 then some (wordLen, ty) else none

set_option maxRecDepth 100000 in
/-- table facts (re-checked against the regenerated table on every run): glyphs are non-zero, token types are
non-zero, the recorded word length is the number of glyphs, first glyphs are distinct -/
theorem keywordTable_wf :
    (∀ e ∈ keywordTable, e.1 ≠ 0 ∧ ∀ a ∈ e.2, (∀ g ∈ a.1, g ≠ 0) ∧ a.2.2 ≠ 0 ∧ a.2.1 = a.1.length + 1) ∧
    (keywordTable.map (·.1)).Nodup := by decide

theorem find?_congr' {α : Type} {p q : α → Bool} {xs : List α} (h : ∀ a ∈ xs, p a = q a) :
    xs.find? p = xs.find? q := by
  induction xs with
  | nil => rfl
  | cons x xs ih =>
    simp only [List.find?_cons, h x List.mem_cons_self]
    rw [ih (fun a ha => h a (List.mem_cons_of_mem _ ha))]

theorem matchKeyword_eq_tableMatch (l : Lexer) : matchKeyword l = tableMatch keywordTable l.cur l.rest := by
  unfold matchKeyword tableMatch
  cases hl : keywordTable.lookup l.cur with
  | none => rfl
  | some alts =>
    have hmem := lookup_some_mem hl
    have hwf := (keywordTable_wf.1 _ hmem).2
    have : alts.find? (fun a => lookaheadMatches l 1 a.1) = alts.find? (fun a => a.1.isPrefixOf l.rest) := by
      apply find?_congr'
      intro a ha
      rw [lookahead_eq_prefix l a.1 (hwf a ha).1 1]
      rfl
    show (match List.find? (fun a => lookaheadMatches l 1 a.1) alts with
      | none => none
      | some (_, wordLen, ty) => if (ty != 0) = true then some (wordLen, ty) else none) = _
    rw [this]

theorem find?_flatMap_rows {α β : Type} (p : β → Bool) (f : α → List β) (xs : List α) :
    (xs.flatMap f).find? p = xs.findSome? (fun x => (f x).find? p) := by
  induction xs with
  | nil => rfl
  | cons x xs ih =>
    simp only [List.flatMap_cons, List.find?_append, List.findSome?_cons, ih]
    cases (f x).find? p <;> rfl

/-- one row of the table, as denoted keywords, against the text `c :: rest` -/
theorem rowFind_eq (c : Nat) (rest : List Nat) (k : Nat) (alts : List (List Nat × Nat × Nat)) :
    (alts.map (fun a => (k :: a.1, a.2.2))).find? (fun k' => k'.1.isPrefixOf (c :: rest)) =
      if k = c then (alts.find? (fun a => a.1.isPrefixOf rest)).map (fun a => (k :: a.1, a.2.2)) else none := by
  induction alts with
  | nil => simp
  | cons a alts ih =>
    simp only [List.map_cons, List.find?_cons, List.isPrefixOf]
    by_cases h : k = c
    · subst h
      simp only [beq_self_eq_true, Bool.true_and, ↓reduceIte] at ih ⊢
      cases a.1.isPrefixOf rest
      · simpa using ih
      · simp
    · have hb : (k == c) = false := by simpa using h
      simp only [hb, Bool.false_and, h, ↓reduceIte] at ih ⊢
      exact ih

/-- the table lookup is "the keyword of the denoted list that is a prefix of the text" -/
theorem tableMatch_eq_kwAt (tbl : List (Nat × List (List Nat × Nat × Nat)))
    (hwf : ∀ e ∈ tbl, ∀ a ∈ e.2, a.2.2 ≠ 0 ∧ a.2.1 = a.1.length + 1)
    (hnd : (tbl.map (·.1)).Nodup) (c : Nat) (rest : List Nat) :
    tableMatch tbl c rest = kwAt (denoted tbl) (c :: rest) := by
  unfold kwAt denoted
  rw [find?_flatMap_rows]
  induction tbl with
  | nil => rfl
  | cons e tbl ih =>
    obtain ⟨k, alts⟩ := e
    have hnd' : (tbl.map (·.1)).Nodup := (List.nodup_cons.mp hnd).2
    have hk : k ∉ tbl.map (·.1) := (List.nodup_cons.mp hnd).1
    have ih' := ih (fun e he => hwf e (List.mem_cons_of_mem _ he)) hnd'
    rw [List.findSome?_cons, rowFind_eq]
    unfold tableMatch
    rw [List.lookup_cons]
    by_cases hkc : k = c
    · subst hkc
      simp only [beq_self_eq_true, ↓reduceIte]
      cases hf : alts.find? (fun a => a.1.isPrefixOf rest) with
      | none =>
        simp only [Option.map_none]
        -- no later row has this first glyph
        have hnone : tbl.findSome? (fun x => List.find? (fun (k' : List Nat × Nat) => k'.1.isPrefixOf (k :: rest))
            (List.map (fun a => (x.1 :: a.1, a.2.2)) x.2)) = none := by
          rw [List.findSome?_eq_none_iff]
          intro x hx
          rw [rowFind_eq]
          have : x.1 ≠ k := fun e => hk (by rw [← e]; exact List.mem_map_of_mem hx)
          simp [this]
        rw [hnone]; rfl
      | some a =>
        obtain ⟨gs, wl, ty⟩ := a
        have ha := List.mem_of_find?_eq_some hf
        obtain ⟨h1, h2⟩ := hwf (k, alts) List.mem_cons_self (gs, wl, ty) ha
        dsimp only at h1 h2
        have hty : (ty != 0) = true := by simpa using h1
        simp only [Option.map_some, hty, ↓reduceIte, List.length_cons, h2]
    · have hb : (c == k) = false := by simpa using fun e : c = k => hkc e.symm
      simp only [hb, hkc, ↓reduceIte]
      have := ih'
      unfold tableMatch at this
      exact this

theorem matchKeyword_eq_kwAt (l : Lexer) :
    matchKeyword l = kwAt (denoted keywordTable) (l.cur :: l.rest) := by
  rw [matchKeyword_eq_tableMatch]
  exact tableMatch_eq_kwAt keywordTable
    (fun e he a ha => ⟨((keywordTable_wf.1 e he).2 a ha).2.1, ((keywordTable_wf.1 e he).2 a ha).2.2⟩)
    keywordTable_wf.2 _ _

/-! ### greedy segmentation -/

open Spec.Segment (segAux flush Piece)

/-- the alphabet of the segmentation theorem: every identifier character (so all keyword glyphs, CJK/Latin/Greek/
kana/hangul letters, digits, `_ $ ^`) except 注 and the operator marks `& @ # = < > + - * / | %`.  The other
conjuncts hold for every identifier character of the pinned table; they are stated so that no fact about the
435-row table is needed. -/
def SegChar (c : Nat) : Prop :=
  isIdentifierChar c = true ∧ isWhiteSpace c = false ∧ c ≠ cCharZHU ∧ markOperators.contains c = false ∧
  markPunctuations.contains c = false ∧ leftQuotes.contains c = false ∧ c ≠ cBackTick ∧
  identTerminatorsHead.contains c = false

instance (c : Nat) : Decidable (SegChar c) := by unfold SegChar; infer_instance

theorem SegChar.solid {c : Nat} (h : SegChar c) : Solid c ∧ c ≠ 0 ∧ c ≠ cSlashOp := by
  obtain ⟨-, h2, -, h4, -, -, -, h8⟩ := h
  refine ⟨⟨h2, ?_, ?_⟩, ?_, ?_⟩
  · intro e; rw [e] at h8; revert h8; decide
  · intro e; rw [e] at h8; revert h8; decide
  · intro e; rw [e] at h8; revert h8; decide
  · intro e; rw [e] at h4; revert h4; decide

/-- the documented keywords as denoted by the table -/
abbrev D : List (List Nat × Nat) := denoted keywordTable

/-- a token start on a segmentation character goes straight to keyword-or-identifier -/
theorem nextToken_seg (l : Lexer) (hb : l.beginLex = false) (h : SegChar l.cur) :
    nextToken l = keywordOrIdentifier l := by
  obtain ⟨hs, h0, hsl⟩ := h.solid
  obtain ⟨-, -, h3, h4, h5, h6, h7, -⟩ := h
  rw [nextToken_later l hb hs]
  unfold dispatchToken
  have a1 : (l.cur == runeEOF) = false := by simpa [runeEOF] using h0
  have a2 : (l.cur == cCharZHU || l.cur == cSlashOp) = false := by simp [h3, hsl]
  have a3 : (l.cur == cBackTick) = false := by simpa using h7
  simp only [a1, a2, h6, a3, Bool.false_eq_true, ↓reduceIte]
  unfold nextTokenTail
  simp only [h5, h4, Bool.false_eq_true, ↓reduceIte]

theorem keywordOrIdentifier_eq (l : Lexer) :
    keywordOrIdentifier l =
      match kwAt D (l.cur :: l.rest) with
      | some (len, ty) => (.ok { type := ty, startIdx := l.cursor, endIdx := l.cursor + len }, l.setCursor (l.cursor + len))
      | none => parseIdentifier l := by
  unfold keywordOrIdentifier parseKeyword
  rw [matchKeyword_eq_kwAt]
  cases kwAt D (l.cur :: l.rest) with
  | none => rfl
  | some p => obtain ⟨len, ty⟩ := p; rfl

/-- length of the run of characters at whose positions no keyword matches -/
def nameLen (kws : List (List Nat × Nat)) : List Nat → Nat
  | [] => 0
  | c :: r => if (kwAt kws (c :: r)).isSome then 0 else nameLen kws r + 1

theorem nameLen_le (kws : List (List Nat × Nat)) (r : List Nat) : nameLen kws r ≤ r.length := by
  induction r with
  | nil => simp [nameLen]
  | cons c r ih => unfold nameLen; split <;> simp <;> omega

theorem matchKeyword_eof (l : Lexer) (h : l.cur = 0) : matchKeyword l = none := by
  unfold matchKeyword
  rw [h]
  have : keywordTable.lookup 0 = none := by decide
  rw [this]

/-- the identifier loop over a text of segmentation characters: it stops exactly where a keyword matches, or at the
end of the text -/
theorem ident_run (s0 : Nat) : ∀ (r : List Nat), (∀ c ∈ r, SegChar c) → ∀ (l : Lexer) (lit : List Nat),
    l.rest = r → lit.getLast? ≠ some cSlashOp →
    iterate (parseIdentifierStep s0) (parseIdentifierStep_consumes s0) l lit =
      (.ok { type := cTypeIdentifier, startIdx := s0, endIdx := l.cursor + 1 + nameLen D r,
             literal := lit ++ r.take (nameLen D r) }, l.setCursor (l.cursor + 1 + nameLen D r)) := by
  intro r
  induction r with
  | nil =>
    intro _ l lit h hl
    have hp : l.adv.cur = 0 := Lexer.rest_nil h
    have hstep : parseIdentifierStep s0 l lit = (.done (identEnd s0 l.adv lit), l.adv) := by
      unfold parseIdentifierStep
      have a1 : isWhiteSpace 0 = false := by decide
      have a2 : (matchKeyword l.adv).isSome = false := by rw [matchKeyword_eof _ hp]; rfl
      have a3 : ((0 : Nat) == cSlashOp) = false := by decide
      have a4 : terminateMarkers.contains 0 = true := by decide
      simp only [hp, a1, a2, a3, a4, Bool.false_eq_true, ↓reduceIte, Bool.false_and]
    rw [iterate_done hstep]
    unfold identEnd
    have : (lit.getLast? == some cSlashOp) = false := by simpa using hl
    simp [this, nameLen, Lexer.setCursor, Lexer.adv]
  | cons c r ih =>
    intro hr l lit h hl
    obtain ⟨hp, hrest⟩ := Lexer.rest_cons h
    have hcur : l.adv.cur = c := hp
    have hc := hr c List.mem_cons_self
    obtain ⟨hs, h0, hsl⟩ := hc.solid
    obtain ⟨b1, b2, -, -, b5, -, -, b8⟩ := hc
    have hkw : matchKeyword l.adv = kwAt D (c :: r) := by rw [matchKeyword_eq_kwAt, hcur, hrest]
    by_cases hk : (kwAt D (c :: r)).isSome = true
    · have hstep : parseIdentifierStep s0 l lit = (.done (identEnd s0 l.adv lit), l.adv) := by
        unfold parseIdentifierStep
        simp only [hcur, b2, hkw, hk, Bool.false_eq_true, ↓reduceIte]
      rw [iterate_done hstep]
      unfold identEnd
      have : (lit.getLast? == some cSlashOp) = false := by simpa using hl
      simp [this, nameLen, hk, Lexer.setCursor, Lexer.adv]
    · have hk' : (kwAt D (c :: r)).isSome = false := by simpa using hk
      have hstep : parseIdentifierStep s0 l lit = (.cont (lit ++ [c]), l.adv) := by
        unfold parseIdentifierStep
        have a3 : (c == cSlashOp) = false := by simpa using hsl
        have a4 : terminateMarkers.contains c = false := by
          unfold terminateMarkers
          rw [Bool.eq_false_iff]
          intro hc'
          rw [List.contains_iff_mem, List.mem_append] at hc'
          rcases hc' with hc' | hc'
          · rw [← List.contains_iff_mem, b8] at hc'; exact absurd hc' (by decide)
          · rw [← List.contains_iff_mem, b5] at hc'; exact absurd hc' (by decide)
        simp only [hcur, b2, hkw, hk', a3, a4, b1, Bool.false_eq_true, ↓reduceIte, Bool.false_and, Bool.true_or]
      rw [iterate_cont hstep, ih (fun x hx => hr x (List.mem_cons_of_mem _ hx)) l.adv (lit ++ [c]) hrest
        (by simp; exact hsl)]
      simp [nameLen, hk, Lexer.setCursor, Lexer.adv]
      omega

theorem segAux_zero_cons (kws : List (List Nat × Nat)) (pos : Nat) (pend : List Nat) (c : Nat) (r : List Nat) :
    segAux kws 0 pos pend (c :: r) =
      match kwAt kws (c :: r) with
      | some (len, ty) => flush pos pend ++ [.kw ty pos (pos + len)] ++ segAux kws (len - 1) (pos + 1) [] r
      | none => segAux kws 0 (pos + 1) (pend ++ [c]) r := by
  rw [segAux]
  cases kwAt kws (c :: r) with
  | none => rfl
  | some p => rfl

theorem segAux_succ_cons (kws : List (List Nat × Nat)) (k pos : Nat) (pend : List Nat) (c : Nat) (r : List Nat) :
    segAux kws (k + 1) pos pend (c :: r) = segAux kws k (pos + 1) pend r := by
  rw [segAux]

theorem segAux_nil (kws : List (List Nat × Nat)) (k pos : Nat) (pend : List Nat) :
    segAux kws k pos pend [] = flush pos pend := by
  rw [segAux]

/-- the spec scanner over a name: the pending name grows over the same run -/
theorem segAux_name (kws : List (List Nat × Nat)) : ∀ (r : List Nat) (pos : Nat) (pend : List Nat), pend ≠ [] →
    segAux kws 0 pos pend r =
      Piece.name (pos - pend.length) (pos + nameLen kws r) (pend ++ r.take (nameLen kws r)) ::
        segAux kws 0 (pos + nameLen kws r) [] (r.drop (nameLen kws r)) := by
  intro r
  induction r with
  | nil =>
    intro pos pend hp
    have : pend.isEmpty = false := by cases pend <;> simp_all
    simp [segAux_nil, flush, nameLen, this]
  | cons c r ih =>
    intro pos pend hp
    have hpe : pend.isEmpty = false := by cases pend <;> simp_all
    unfold nameLen
    cases hk : kwAt kws (c :: r) with
    | some p =>
      obtain ⟨len, ty⟩ := p
      simp only [Option.isSome_some, ↓reduceIte, Nat.add_zero, List.take_zero, List.append_nil, List.drop_zero]
      rw [segAux_zero_cons, segAux_zero_cons, hk]
      simp [flush, hpe]
    | none =>
      simp only [Option.isSome_none, Bool.false_eq_true, ↓reduceIte]
      rw [segAux_zero_cons, hk]
      dsimp only
      rw [ih (pos + 1) (pend ++ [c]) (by simp)]
      have e1 : pos + 1 - (pend ++ [c]).length = pos - pend.length := by simp
      have e2 : pos + 1 + nameLen kws r = pos + (nameLen kws r + 1) := by omega
      rw [e1, e2]
      simp

/-- skipping the rest of a keyword -/
theorem segAux_skip (kws : List (List Nat × Nat)) : ∀ (k : Nat) (r : List Nat) (pos : Nat), k ≤ r.length →
    segAux kws k pos [] r = segAux kws 0 (pos + k) [] (r.drop k) := by
  intro k
  induction k with
  | zero => intro r pos _; simp
  | succ k ih =>
    intro r pos hk
    cases r with
    | nil => simp at hk
    | cons c r =>
      rw [segAux_succ_cons, ih r (pos + 1) (by simp at hk; omega)]
      simp only [List.drop_succ_cons]
      have : pos + 1 + k = pos + (k + 1) := by omega
      rw [this]

theorem kwAt_len (kws : List (List Nat × Nat)) (hne : ∀ k ∈ kws, k.1 ≠ []) (s : List Nat) (len ty : Nat)
    (h : kwAt kws s = some (len, ty)) : 1 ≤ len ∧ len ≤ s.length := by
  unfold kwAt at h
  cases hf : kws.find? (fun k => k.1.isPrefixOf s) with
  | none => rw [hf] at h; simp at h
  | some k =>
    rw [hf] at h
    simp only [Option.map_some, Option.some.injEq, Prod.mk.injEq] at h
    have hm := List.mem_of_find?_eq_some hf
    have hp : k.1 <+: s := List.isPrefixOf_iff_prefix.mp (List.find?_some (p := fun (k : List Nat × Nat) => k.1.isPrefixOf s) hf)
    have h1 : k.1 ≠ [] := hne k hm
    have h2 := hp.length_le
    have h3 : 0 < k.1.length := List.length_pos_iff.mpr h1
    omega

set_option maxRecDepth 100000 in
theorem D_spellings_nonempty : ∀ k ∈ D, k.1 ≠ [] := by decide

/-- the lexer between two tokens of a one-line text -/
def segState (s : List Nat) (i : Nat) : Lexer := { startState s with cursor := i }

theorem segState_rest (s : List Nat) (i : Nat) : (segState s i).rest = s.drop (i + 1) := by
  simp [Lexer.rest, segState, startState]

theorem segState_cur_rest (s : List Nat) (i : Nat) (h : i < s.length) :
    (segState s i).cur :: (segState s i).rest = s.drop i := by
  rw [segState_rest]
  have : (segState s i).cur = s[i] := by
    simp [Lexer.cur, Lexer.getChar, segState, startState, h]
  rw [this]
  exact (List.drop_eq_getElem_cons h).symm

theorem segState_cur_eof (s : List Nat) : (segState s s.length).cur = 0 := by
  simp [Lexer.cur, Lexer.getChar, segState, startState, runeEOF]

def tokOf : Piece → Token
  | .kw ty a b => { type := ty, startIdx := a, endIdx := b }
  | .name a b cs => { type := cTypeIdentifier, startIdx := a, endIdx := b, literal := cs }

def eofTok (n : Nat) : Token := { type := cTypeEOF, startIdx := n, endIdx := n }

theorem parseEOF_segState (s : List Nat) (i : Nat) (hi : i ≤ s.length) :
    (parseEOF (segState s i)).1 = .ok (eofTok i) := by
  have hl : lastLineStart (segState s i) = some 0 := by
    unfold lastLineStart
    have h1 : 0 < (segState s i).lines.size := by simp [segState, startState]
    simp only [h1, ↓reduceDIte]
    have h2 : ((segState s i).indentType == cIndentSpace) = false := by
      show ((0 : Nat) == cIndentSpace) = false; decide
    have h3 : ((segState s i).indentType == cIndentTab) = false := by
      show ((0 : Nat) == cIndentTab) = false; decide
    simp only [h2, h3, Bool.false_eq_true, ↓reduceIte]
    simp [segState, startState]
  unfold parseEOF sliceLastLine
  rw [hl]
  have h5 : (segState s i).cursor = i := rfl
  have h6 : (segState s i).src.size = s.length := by simp [segState, startState]
  have : (decide (0 > (segState s i).cursor) || decide ((segState s i).cursor > (segState s i).src.size)) = false := by
    rw [h5, h6]; simp; omega
  simp only [this, Bool.false_eq_true, ↓reduceIte]
  rfl

theorem lexAll_succ (fuel : Nat) (l : Lexer) (acc : List Token) :
    lexAll (fuel + 1) l acc =
      match nextToken l with
      | (.ok tk, l') =>
        if tk.type == cTypeEOF then ((tk :: acc).reverse, some (.ok ()), l')
        else lexAll fuel l' (tk :: acc)
      | (.err e, l') => (acc.reverse, some (.err e), l')
      | (.panic, l') => (acc.reverse, some .panic, l') := by
  rw [lexAll]
  rcases nextToken l with ⟨r, l'⟩
  cases r <;> rfl

set_option maxRecDepth 100000 in
theorem D_types_nonzero : ∀ k ∈ D, k.2 ≠ cTypeEOF := by decide

theorem kwAt_type (s : List Nat) (len ty : Nat) (h : kwAt D s = some (len, ty)) : ty ≠ cTypeEOF := by
  unfold kwAt at h
  cases hf : D.find? (fun k => k.1.isPrefixOf s) with
  | none => rw [hf] at h; simp at h
  | some k =>
    rw [hf] at h
    simp only [Option.map_some, Option.some.injEq, Prod.mk.injEq] at h
    have := D_types_nonzero k (List.mem_of_find?_eq_some hf)
    rw [← h.2]; exact this

/-- the whole token stream of a non-empty one-line text of segmentation characters, from any token boundary -/
theorem lexAll_seg (s : List Nat) (hs : ∀ c ∈ s, SegChar c) :
    ∀ (n i : Nat) (acc : List Token) (fuel : Nat), s.length - i = n → i ≤ s.length → n + 1 ≤ fuel →
      (lexAll fuel (segState s i) acc).1 =
        acc.reverse ++ (segAux D 0 i [] (s.drop i)).map tokOf ++ [eofTok s.length] ∧
      (lexAll fuel (segState s i) acc).2.1 = some (.ok ()) := by
  intro n
  induction n using Nat.strongRecOn with
  | _ n ih =>
  intro i acc fuel hn hi hf
  obtain ⟨fuel, rfl⟩ : ∃ f, fuel = f + 1 := ⟨fuel - 1, by omega⟩
  rw [lexAll_succ]
  by_cases hend : i = s.length
  · -- the end of the text
    subst hend
    have hcur := segState_cur_eof s
    have hsolid : Solid (segState s s.length).cur := by rw [hcur]; exact ⟨by decide, by decide, by decide⟩
    rw [nextToken_later _ rfl hsolid]
    have hd : dispatchToken (segState s s.length) = parseEOF (segState s s.length) := by
      unfold dispatchToken
      have hnot : ¬ (segState s s.length).cursor < (segState s s.length).src.size := by
        simp [segState, startState]
      simp [hcur, runeEOF, hnot]
    rw [hd]
    have hp := parseEOF_segState s s.length (Nat.le_refl _)
    generalize hq : parseEOF (segState s s.length) = q at hp
    obtain ⟨q1, q2⟩ := q
    dsimp only at hp
    subst hp
    simp [eofTok, segAux_nil, flush]
  · have hlt : i < s.length := by omega
    have hcr := segState_cur_rest s i hlt
    have hmem : (segState s i).cur ∈ s := by
      have : (segState s i).cur ∈ s.drop i := by rw [← hcr]; exact List.mem_cons_self
      exact List.mem_of_mem_drop this
    have hc := hs _ hmem
    rw [nextToken_seg _ rfl hc, keywordOrIdentifier_eq, hcr]
    obtain ⟨c, r, hdrop⟩ : ∃ c r, s.drop i = c :: r := ⟨_, _, hcr.symm⟩
    have hcc : (segState s i).cur = c := by rw [hdrop] at hcr; exact (List.cons.inj hcr).1
    have hrr : (segState s i).rest = r := by rw [hdrop] at hcr; exact (List.cons.inj hcr).2
    have hrlen : r.length + 1 = s.length - i := by
      have := congrArg List.length hdrop
      simp at this; omega
    rw [hdrop, segAux_zero_cons]
    cases hk : kwAt D (c :: r) with
    | some p =>
      obtain ⟨len, ty⟩ := p
      obtain ⟨hl1, hl2⟩ := kwAt_len D D_spellings_nonempty _ _ _ hk
      have hty : (ty == cTypeEOF) = false := by simpa using kwAt_type _ _ _ hk
      dsimp only
      simp only [hty, Bool.false_eq_true, ↓reduceIte]
      have hstate : (segState s i).setCursor ((segState s i).cursor + len) = segState s (i + len) := rfl
      rw [hstate]
      simp only [List.length_cons] at hl2
      obtain ⟨h1, h2⟩ := ih (s.length - (i + len)) (by omega) (i + len)
        ({ type := ty, startIdx := (segState s i).cursor, endIdx := (segState s i).cursor + len } :: acc) fuel rfl
        (by omega) (by omega)
      refine ⟨?_, h2⟩
      rw [h1, segAux_skip D (len - 1) r (i + 1) (by omega)]
      have e1 : i + 1 + (len - 1) = i + len := by omega
      have e2 : r.drop (len - 1) = s.drop (i + len) := by
        have : s.drop (i + len) = (s.drop i).drop len := by rw [List.drop_drop]
        rw [this, hdrop]
        obtain ⟨m, rfl⟩ : ∃ m, len = m + 1 := ⟨len - 1, by omega⟩
        simp
      rw [e1, e2]
      simp [flush, tokOf, segState, startState]
    | none =>
      dsimp only
      -- an identifier
      unfold parseIdentifier
      have hid : isIdentifierChar (segState s i).cur = true := hc.1
      simp only [hid, Bool.not_true, Bool.false_eq_true, ↓reduceIte]
      have hrseg : ∀ x ∈ r, SegChar x := by
        intro x hx
        apply hs
        have : x ∈ s.drop i := by rw [hdrop]; exact List.mem_cons_of_mem _ hx
        exact List.mem_of_mem_drop this
      have hsl : [(segState s i).cur].getLast? ≠ some cSlashOp := by
        simp; rw [hcc]; exact (hs c (by rw [← hcc]; exact hmem)).solid.2.2
      rw [ident_run (segState s i).cursor r hrseg (segState s i) [(segState s i).cur] hrr hsl]
      have hidne : (cTypeIdentifier == cTypeEOF) = false := by decide
      simp only [hidne, Bool.false_eq_true, ↓reduceIte]
      have hnl := nameLen_le D r
      have hstate : (segState s i).setCursor ((segState s i).cursor + 1 + nameLen D r) =
          segState s (i + 1 + nameLen D r) := rfl
      rw [hstate]
      obtain ⟨h1, h2⟩ := ih (s.length - (i + 1 + nameLen D r)) (by omega) (i + 1 + nameLen D r)
        ({ type := cTypeIdentifier, startIdx := (segState s i).cursor,
           endIdx := (segState s i).cursor + 1 + nameLen D r,
           literal := [(segState s i).cur] ++ r.take (nameLen D r) } :: acc) fuel rfl (by omega) (by omega)
      refine ⟨?_, h2⟩
      rw [h1, segAux_name D r (i + 1) ([] ++ [c]) (by simp)]
      have e2 : r.drop (nameLen D r) = s.drop (i + 1 + nameLen D r) := by
        have : s.drop (i + 1 + nameLen D r) = (s.drop i).drop (1 + nameLen D r) := by
          rw [List.drop_drop]; congr 1; omega
        rw [this, hdrop, Nat.add_comm 1, List.drop_succ_cons]
      rw [e2, hcc]
      simp [tokOf, segState, startState]

/-! ### from the table's keyword list to the documented list -/

theorem kwAt_congr (k1 k2 : List (List Nat × Nat)) (hsame : ∀ x, x ∈ k1 ↔ x ∈ k2)
    (hpf : ∀ a ∈ k2, ∀ b ∈ k2, a.1 <+: b.1 → a = b) (s : List Nat) : kwAt k1 s = kwAt k2 s := by
  unfold kwAt
  cases h1 : k1.find? (fun k => k.1.isPrefixOf s) with
  | none =>
    have hn := List.find?_eq_none.mp h1
    have : k2.find? (fun k => k.1.isPrefixOf s) = none := by
      rw [List.find?_eq_none]; intro x hx; exact hn x ((hsame x).mpr hx)
    rw [this]
  | some a =>
    have ha := (hsame a).mp (List.mem_of_find?_eq_some h1)
    have hpa : a.1 <+: s := List.isPrefixOf_iff_prefix.mp (List.find?_some (p := fun (k : List Nat × Nat) => k.1.isPrefixOf s) h1)
    cases h2 : k2.find? (fun k => k.1.isPrefixOf s) with
    | none =>
      have := List.find?_eq_none.mp h2 a ha
      exact absurd (List.isPrefixOf_iff_prefix.mpr hpa) this
    | some b =>
      have hb := List.mem_of_find?_eq_some h2
      have hpb : b.1 <+: s := List.isPrefixOf_iff_prefix.mp (List.find?_some (p := fun (k : List Nat × Nat) => k.1.isPrefixOf s) h2)
      have : a = b := by
        rcases List.prefix_or_prefix_of_prefix hpa hpb with h | h
        · exact hpf a ha b hb h
        · exact (hpf b hb a ha h).symm
      rw [this]

theorem segAux_congr (k1 k2 : List (List Nat × Nat)) (h : ∀ s, kwAt k1 s = kwAt k2 s) :
    ∀ (r : List Nat) (skip pos : Nat) (pend : List Nat), segAux k1 skip pos pend r = segAux k2 skip pos pend r := by
  intro r
  induction r with
  | nil => intro skip pos pend; rw [segAux_nil, segAux_nil]
  | cons c r ih =>
    intro skip pos pend
    cases skip with
    | succ k => rw [segAux_succ_cons, segAux_succ_cons, ih]
    | zero =>
      rw [segAux_zero_cons, segAux_zero_cons, h]
      cases kwAt k2 (c :: r) with
      | none => exact ih _ _ _
      | some p => obtain ⟨len, ty⟩ := p; dsimp only; rw [ih]

/-- the first `NextToken` of a fresh lexer on a segmentation character is the one of the token-boundary state -/
theorem lexAll_first (c : Nat) (r : List Nat) (hc : SegChar c) (fuel : Nat) (acc : List Token) :
    lexAll (fuel + 1) (mkLexer (c :: r)) acc = lexAll (fuel + 1) (segState (c :: r) 0) acc := by
  rw [lexAll_succ, lexAll_succ]
  have h1 := nextToken_first c r hc.solid.2.1 hc.solid.1
  have hcur : (segState (c :: r) 0).cur = c := startState_cur c r
  have h2 := nextToken_later (segState (c :: r) 0) rfl (by rw [hcur]; exact hc.solid.1)
  rw [h1, h2]
  rfl

theorem lexAll_empty (fuel : Nat) :
    (lexAll (fuel + 1) (mkLexer []) []).1 = [eofTok 0] ∧ (lexAll (fuel + 1) (mkLexer []) []).2.1 = some (.ok ()) := by
  rw [lexAll_succ]
  have h : nextToken (mkLexer []) = (.ok (eofTok 0), { mkLexer [] with beginLex := false }) := by
    unfold nextToken preNextToken
    have hb : (mkLexer []).beginLex = true := rfl
    simp only [hb, ↓reduceIte]
    have hp : parseBeginLex { mkLexer [] with beginLex := false } = (.ok (), { mkLexer [] with beginLex := false }) := by
      unfold parseBeginLex
      simp [Lexer.getChar, mkLexer, runeEOF]
    rw [hp]
    dsimp only
    have hcur : ({ mkLexer [] with beginLex := false } : Lexer).cur = 0 := by
      simp [Lexer.cur, Lexer.getChar, mkLexer, runeEOF]
    rw [skipBlank_solid _ (by rw [hcur]; exact ⟨by decide, by decide, by decide⟩)]
    dsimp only
    unfold dispatchToken
    simp only [hcur, runeEOF, beq_self_eq_true, ↓reduceIte]
    unfold parseEOF sliceLastLine lastLineStart
    simp [mkLexer, eofTok]
  rw [h]
  simp [eofTok]

/-! ### operators `+ - * /` and comments -/

def arithOps : List Nat := [cPlusOp, cMinusOp, cMultiplyOp, cSlashOp]

def arithTokenType (c : Nat) : Nat :=
  if c == cPlusOp then cTypePlus else if c == cMinusOp then cTypeMinus
  else if c == cMultiplyOp then cTypeMultiply else cTypeDivision

/-- white space, punctuation or a quote character -/
def isDelimiter (c : Nat) : Bool := isWhiteSpace c || markPunctuations.contains c || markQuotes.contains c

theorem parseOperators_arith (l : Lexer) (hc : l.cur ∈ arithOps) :
    parseOperators l =
      if l.cur == cSlashOp && l.peek == cEqualOp then
        (.ok (some { type := cTypeNEMark, startIdx := l.cursor, endIdx := l.cursor + 2 }), l.adv.adv)
      else if isDelimiter l.peek then
        (.ok (some { type := arithTokenType l.cur, startIdx := l.cursor, endIdx := l.cursor + 1 }), l.adv)
      else (.ok none, l) := by
  unfold parseOperators isDelimiter arithTokenType
  simp only [arithOps, List.mem_cons, List.not_mem_nil, or_false] at hc
  rcases hc with h | h | h | h <;> rw [h] <;>
    simp [cPlusOp, cMinusOp, cMultiplyOp, cSlashOp, cRefOp, cAnnotationOp, cHashOp, cEqualOp, cLessThanOp,
      cGreaterThanOp, cIntDivOp, cRemainderOp]

theorem parseCommentLoop_type (s cty : Nat) (l : Lexer) (q : Nat) :
    (parseCommentLoop s cty l q).1.type = cTypeComment ∧ (parseCommentLoop s cty l q).1.startIdx = s := by
  unfold parseCommentLoop
  refine iterate_inv (step := parseCommentStep s cty) (I := fun _ _ => True)
    (Q := fun t _ => t.type = cTypeComment ∧ t.startIdx = s) ?_ ?_ l q trivial
  · intros; trivial
  · intro l1 q1 t l2 _ hstep
    unfold parseCommentStep at hstep
    dsimp only at hstep
    repeat' split at hstep
    all_goals first | cases hstep | skip
    all_goals exact ⟨rfl, rfl⟩

/-- `//` and `/*` at a token start are comments -/
theorem dispatch_slash_comment (l : Lexer) (hc : l.cur = cSlashOp) (hp : l.peek = cSlashOp ∨ l.peek = cMultiplyOp) :
    ∃ tk, (dispatchToken l).1 = .ok tk ∧ tk.type = cTypeComment ∧ tk.startIdx = l.cursor := by
  unfold dispatchToken
  have a1 : (l.cur == runeEOF) = false := by rw [hc]; decide
  have a2 : (l.cur == cCharZHU || l.cur == cSlashOp) = true := by rw [hc]; decide
  simp only [a1, a2, Bool.false_eq_true, ↓reduceIte]
  unfold parseComment
  have a3 : (l.cur == cCharZHU) = false := by rw [hc]; decide
  have a4 : (l.cur == cSlashOp) = true := by rw [hc]; decide
  simp only [a3, a4, Bool.false_eq_true, ↓reduceIte]
  rcases hp with hp | hp
  · have : (l.peek == cSlashOp) = true := by rw [hp]; decide
    simp only [this, ↓reduceIte]
    exact ⟨_, rfl, parseCommentLoop_type _ _ _ _⟩
  · have h1 : (l.peek == cSlashOp) = false := by rw [hp]; decide
    have h2 : (l.peek == cMultiplyOp) = true := by rw [hp]; decide
    simp only [h1, h2, Bool.false_eq_true, ↓reduceIte]
    exact ⟨_, rfl, parseCommentLoop_type _ _ _ _⟩

end ZnVerif.Model
