/-
Helper lemmas for C15: the loader never runs out of fuel.  The modules on the import stack are distinct, and all
but the main module have distinct files in the table, so the stack is never deeper than `files.length + 1`; the
fuel `files.length + 1` given by `run` decreases by one per nesting level only.
-/
import ZnVerif.Proofs.ModulesPath

namespace ZnVerif.Proofs.Modules
open ZnVerif.Model.Modules
open ZnVerif.Spec.ModuleSem

/-! ### counting -/

theorem pigeonhole {α} [DecidableEq α] : ∀ (l l2 : List α), l.Nodup → (∀ x, x ∈ l → x ∈ l2) → l.length ≤ l2.length
  | [], _, _, _ => Nat.zero_le _
  | x :: l, l2, hnd, hsub => by
    have hx := hsub x (List.mem_cons_self ..)
    have hnd' := List.nodup_cons.1 hnd
    have ih := pigeonhole l (l2.erase x) hnd'.2 (fun y hy =>
      (List.mem_erase_of_ne (fun h => hnd'.1 (by rw [← h]; exact hy))).2 (hsub y (List.mem_cons_of_mem _ hy)))
    rw [List.length_erase_of_mem hx] at ih
    have : 0 < l2.length := List.length_pos_of_mem hx
    simp only [List.length_cons]; omega

theorem nodup_map_of_inj_on {α β} {f : α → β} : ∀ {l : List α}, l.Nodup →
    (∀ x, x ∈ l → ∀ y, y ∈ l → f x = f y → x = y) → (l.map f).Nodup
  | [], _, _ => by simp
  | a :: l, hnd, hinj => by
    have hnd' := List.nodup_cons.1 hnd
    simp only [List.map_cons, List.nodup_cons]
    refine ⟨?_, nodup_map_of_inj_on hnd'.2 (fun x hx y hy h =>
      hinj x (List.mem_cons_of_mem _ hx) y (List.mem_cons_of_mem _ hy) h)⟩
    intro hm
    obtain ⟨b, hb, hfb⟩ := List.mem_map.1 hm
    have := hinj b (List.mem_cons_of_mem _ hb) a (List.mem_cons_self ..) hfb
    exact hnd'.1 (this ▸ hb)

theorem filter_ne_length {α} [DecidableEq α] (a : α) : ∀ {l : List α}, l.Nodup →
    l.length ≤ (l.filter (fun x => decide (x ≠ a))).length + 1
  | [], _ => Nat.zero_le _
  | b :: l, hnd => by
    have hnd' := List.nodup_cons.1 hnd
    by_cases hb : b = a
    · subst hb
      have hall : ∀ x, x ∈ l → decide (x ≠ b) = true := by
        intro x hx
        simp only [decide_eq_true_eq]
        intro h; exact hnd'.1 (by rw [← h]; exact hx)
      have : (b :: l).filter (fun x => decide (x ≠ b)) = l := by
        rw [List.filter_cons_of_neg (by simp)]; exact List.filter_eq_self.2 hall
      rw [this]; simp
    · have ih := filter_ne_length a hnd'.2
      rw [List.filter_cons_of_pos (by simpa using hb)]
      simp only [List.length_cons]; omega

/-! ### a module name is determined by its path -/

theorem joinDash_splitOn : ∀ n : Name, joinDash (splitOn chDash n) = n
  | [] => rfl
  | c :: cs => by
    have ih := joinDash_splitOn cs
    unfold splitOn
    by_cases hc : c = chDash
    · simp only [hc, if_true]
      cases hs : splitOn chDash cs with
      | nil => exact absurd hs (splitOn_ne_nil _ _)
      | cons h t => rw [hs] at ih; simp [joinDash, ih]
    · simp only [hc, if_false]
      cases hs : splitOn chDash cs with
      | nil => exact absurd hs (splitOn_ne_nil _ _)
      | cons h t =>
        rw [hs] at ih
        dsimp only
        cases t with
        | nil => simp [joinDash] at ih ⊢; exact ih
        | cons y r => simp [joinDash] at ih ⊢; exact ih

theorem withExt_length : ∀ l : List Name, (withExt l).length = l.length
  | [] => rfl
  | [x] => rfl
  | x :: y :: r => by
    have := withExt_length (y :: r)
    simp only [withExt, List.length_cons] at this ⊢
    omega

theorem withExt_inj : ∀ (l1 l2 : List Name), withExt l1 = withExt l2 → l1 = l2
  | [], l2, h => by
    have := congrArg List.length h
    rw [withExt_length, withExt_length] at this
    cases l2 with
    | nil => rfl
    | cons a r => simp at this
  | [x], l2, h => by
    have hl := congrArg List.length h
    rw [withExt_length, withExt_length] at hl
    cases l2 with
    | nil => simp at hl
    | cons a r =>
      cases r with
      | nil =>
        simp only [withExt, List.cons.injEq, and_true] at h
        rw [List.append_cancel_right h]
      | cons b r' => simp at hl
  | x :: y :: r, l2, h => by
    have hl := congrArg List.length h
    rw [withExt_length, withExt_length] at hl
    cases l2 with
    | nil => simp at hl
    | cons a r2 =>
      cases r2 with
      | nil => simp at hl
      | cons b r2' =>
        simp only [withExt, List.cons.injEq] at h
        rw [h.1, withExt_inj (y :: r) (b :: r2') h.2]

theorem path_inj {a b : Name} (h : withExt (segments a) = withExt (segments b)) : a = b := by
  have := withExt_inj _ _ h
  rw [segments_eq_splitOn, segments_eq_splitOn] at this
  rw [← joinDash_splitOn a, ← joinDash_splitOn b, this]

/-! ### the import stack is at most `files.length + 1` deep -/

theorem msrc_path {files : Files} {mainSrc : ModuleSrc} {n : Name} {s : ModuleSrc} (hne : n ≠ mainName)
    (h : msrc files mainSrc n = some s) : withExt (segments n) ∈ files.map (fun p => p.1) :=
  List.mem_map.2 ⟨(_, s), assoc_mem (msrc_plain hne h).2.2, rfl⟩

theorem stack_length_le {files : Files} {mainSrc : ModuleSrc} {vm : VM} {st : List Nat}
    (hS : SInv files mainSrc vm) (hL : LInv files mainSrc vm st) : st.length ≤ files.length + 1 := by
  let g : Nat → Name := fun x => ((namesOf vm)[x]?).getD []
  have hg : ∀ x, x ∈ st → ∃ nx, (namesOf vm)[x]? = some nx ∧ g x = nx ∧ ∃ src, msrc files mainSrc nx = some src := by
    intro x hx
    obtain ⟨nx, h1, _, h3⟩ := hL.sreach x hx
    exact ⟨nx, h1, by simp [g, h1], h3⟩
  have hnames : (st.map g).Nodup := by
    apply nodup_map_of_inj_on hL.nodup
    intro x hx y hy hxy
    obtain ⟨nx, hx1, hx2, _⟩ := hg x hx
    obtain ⟨ny, hy1, hy2, _⟩ := hg y hy
    rw [hx2, hy2] at hxy; subst hxy
    have e1 := hS.regAll x nx hx1
    have e2 := hS.regAll y nx hy1
    rw [e1] at e2; injection e2
  have hothers : ((st.map g).filter (fun n => decide (n ≠ mainName))).Nodup :=
    List.Sublist.nodup List.filter_sublist hnames
  have hpaths : (((st.map g).filter (fun n => decide (n ≠ mainName))).map (fun n => withExt (segments n))).Nodup := by
    apply nodup_map_of_inj_on hothers
    intro a _ b _ hab
    exact path_inj hab
  have hsub : ∀ p, p ∈ ((st.map g).filter (fun n => decide (n ≠ mainName))).map (fun n => withExt (segments n)) →
      p ∈ files.map (fun q => q.1) := by
    intro p hp
    obtain ⟨n, hn, rfl⟩ := List.mem_map.1 hp
    rw [List.mem_filter] at hn
    obtain ⟨hn1, hn2⟩ := hn
    simp only [decide_eq_true_eq] at hn2
    obtain ⟨x, hx, rfl⟩ := List.mem_map.1 hn1
    obtain ⟨nx, _, hx2, src, hsrc⟩ := hg x hx
    rw [hx2] at hn2 ⊢
    exact msrc_path hn2 hsrc
  have h1 := pigeonhole _ _ hpaths hsub
  have h2 := filter_ne_length mainName hnames
  simp only [List.length_map] at h1 h2
  omega

/-! ### no loader-fuel error -/

def NoFuelErr {α} (r : Res α) : Prop :=
  match r with
  | .err e _ => e ≠ Err.loadFuel
  | .ok _ => True

def LoadSpecC (files : Files) (mainSrc : ModuleSrc) (d : Nat) (load : VM → LibNameInfo → Res (VM × Nat)) : Prop :=
  ∀ (vm : VM) (n : Name) (m : Nat) (rest : List Nat) (nm : Name) (src : ModuleSrc) (imp : Imp),
    SInv files mainSrc vm → LInv files mainSrc vm (m :: rest) → Cur files mainSrc vm m rest nm src →
    imp ∈ src.imports → imp.name = n → assoc n vm.nameMap = none → (parseLibName n).libType = .custom →
    d ≤ (m :: rest).length → NoFuelErr (load vm (parseLibName n))

theorem checkDependency_nofuel (O : Oracle) (vm : VM) (n : Name) : NoFuelErr (checkDependency O vm n) := by
  unfold checkDependency
  cases assoc n vm.nameMap with
  | none => trivial
  | some id =>
    dsimp only
    obtain ⟨b, hb⟩ := ModulesDfs.checkCircular_total vm.graph (O.dfsOrder vm.graph)
    rw [hb]
    cases b
    · trivial
    · simp [NoFuelErr]

theorem bind_nofuel (O : Oracle) (vm : VM) (mid : Nat) (items : List Name) :
    NoFuelErr (bindImports O vm mid items) := by
  have h := bindImports_frame O vm mid items
  cases hr : bindImports O vm mid items with
  | ok vm' => trivial
  | err e vm' =>
    rw [hr] at h
    rcases h.2 with rfl | rfl <;> simp [NoFuelErr]

theorem evalImport_specC {files : Files} {mainSrc : ModuleSrc} {O : Oracle} {libs : Libs} {d : Nat}
    {load : VM → LibNameInfo → Res (VM × Nat)} (hloadC : LoadSpecC files mainSrc d load)
    {vm : VM} {m : Nat} {rest : List Nat} {nm : Name} {src : ModuleSrc} {imp : Imp}
    (hS : SInv files mainSrc vm) (hL : LInv files mainSrc vm (m :: rest)) (hC : Cur files mainSrc vm m rest nm src)
    (himp : imp ∈ src.imports) (hd : d ≤ (m :: rest).length) : NoFuelErr (evalImport O libs load vm imp) := by
  unfold evalImport
  dsimp only
  cases hty : (parseLibName imp.name).libType with
  | vendor => trivial
  | std =>
    dsimp only
    cases assoc imp.name libs with
    | none => simp [NoFuelErr]
    | some names =>
      dsimp only
      cases (addExportsIgnoringDup (vm.allocateModule imp.name).2
          ((vm.allocateModule imp.name).1.pushFrame (vm.allocateModule imp.name).2)
          (O.exportOrder (names.map (fun n => (n, Val.native))))).popFrame with
      | none => simp [NoFuelErr]
      | some vm3 => exact bind_nofuel _ _ _ _
  | custom =>
    dsimp only
    unfold VM.findModuleByName
    cases hreg : assoc imp.name vm.nameMap with
    | none =>
      dsimp only
      have hl := hloadC vm imp.name m rest nm src imp hS hL hC himp rfl hreg hty hd
      cases hr : load vm (parseLibName imp.name) with
      | err e vm' => rw [hr] at hl; exact hl
      | ok p =>
        obtain ⟨vm1, mid⟩ := p
        dsimp only
        have hc := checkDependency_nofuel O vm1 imp.name
        cases hcr : checkDependency O vm1 imp.name with
        | err e vm' => rw [hcr] at hc; exact hc
        | ok vm2 => exact bind_nofuel _ _ _ _
    | some mid =>
      dsimp only
      have hc := checkDependency_nofuel O (vm.addModuleDependency imp.name) imp.name
      cases hcr : checkDependency O (vm.addModuleDependency imp.name) imp.name with
      | err e vm' => rw [hcr] at hc; exact hc
      | ok vm2 => exact bind_nofuel _ _ _ _

theorem evalImports_specC {files : Files} {mainSrc : ModuleSrc} {O : Oracle} {libs : Libs} {d : Nat}
    {load : VM → LibNameInfo → Res (VM × Nat)} (hO : OracleOK O) (hload : LoadSpec files mainSrc load)
    (hloadC : LoadSpecC files mainSrc d load) {m : Nat} {rest : List Nat} {nm : Name} {src : ModuleSrc}
    (hd : d ≤ (m :: rest).length) :
    ∀ (imps : List Imp) (vm : VM), SInv files mainSrc vm → LInv files mainSrc vm (m :: rest) →
      Cur files mainSrc vm m rest nm src → (∀ i, i ∈ imps → i ∈ src.imports) →
      NoFuelErr (evalImports O libs load vm imps)
  | [], vm, _, _, _, _ => by unfold evalImports; trivial
  | i :: r, vm, hS, hL, hC, hsub => by
    unfold evalImports
    have hi := hsub i (List.mem_cons_self ..)
    have a1 := evalImport_spec (libs := libs) hO hload hS hL hC hi
    have c1 := evalImport_specC (O := O) (libs := libs) hloadC hS hL hC hi hd
    cases hr : evalImport O libs load vm i with
    | err e vm' => rw [hr] at c1; exact c1
    | ok vm1 =>
      rw [hr] at a1
      obtain ⟨hp, _⟩ := a1
      dsimp only
      have c2 := evalImports_specC (libs := libs) hO hload hloadC hd r vm1 hp.sinv hp.linv (hC.mono hp)
        (fun j hj => hsub j (List.mem_cons_of_mem _ hj))
      cases hr2 : evalImports O libs load vm1 r with
      | err e vm' => rw [hr2] at c2; exact c2
      | ok vm2 => trivial

theorem evalProgram_specC {files : Files} {mainSrc : ModuleSrc} {O : Oracle} {libs : Libs} {cf d : Nat}
    {load : VM → LibNameInfo → Res (VM × Nat)} (hO : OracleOK O) (hload : LoadSpec files mainSrc load)
    (hloadC : LoadSpecC files mainSrc d load) {vm : VM} {m : Nat} {rest : List Nat} {nm : Name} {src : ModuleSrc}
    (hS : SInv files mainSrc vm) (hL : LInv files mainSrc vm (m :: rest)) (hC : Cur files mainSrc vm m rest nm src)
    (hd : d ≤ (m :: rest).length) : NoFuelErr (evalProgram O libs cf load vm m src) := by
  unfold evalProgram
  have c1 := evalImports_specC (libs := libs) hO hload hloadC hd src.imports vm hS hL hC (fun _ h => h)
  cases hr : evalImports O libs load vm src.imports with
  | err e vm' => rw [hr] at c1; exact c1
  | ok vm1 =>
    dsimp only
    have hf := evalBody_frame cf (vm1.record (.body m)) src.body
    cases hr2 : evalBody cf (vm1.record (.body m)) src.body with
    | err e vm' => rw [hr2] at hf; exact hf.2.2.2.2
    | ok vm2 => trivial

theorem redeclare_nofuel (l : List (Name × Val)) (vm : VM) : NoFuelErr (redeclareExports vm l) := by
  have h := redeclareExports_frame l vm
  cases hr : redeclareExports vm l with
  | ok vm' => trivial
  | err e vm' =>
    rw [hr] at h
    rcases h.2 with rfl | rfl <;> simp [NoFuelErr]

theorem loadModule_specC {files : Files} {mainSrc : ModuleSrc} {O : Oracle} {libs : Libs} {cf : Nat}
    (hO : OracleOK O) : ∀ f, LoadSpecC files mainSrc (files.length + 2 - f) (loadModule .repaired O files libs cf f)
  | 0 => by
    intro vm n m rest nm src imp hS hL _ _ _ _ _ hd
    have := stack_length_le hS hL
    exfalso
    simp only [Nat.sub_zero] at hd
    omega
  | f + 1 => by
    intro vm n m rest nm src imp hS hL hC himp hname hreg hty hd
    unfold loadModule
    cases hfind : finder .repaired files (parseLibName n) with
    | panic => simp [NoFuelErr]
    | notFound => simp [NoFuelErr]
    | emptySrc => simp [NoFuelErr]
    | src s =>
      dsimp only
      rw [parseLibName_originalName]
      have hMI : MImports files mainSrc nm n := ⟨src, imp, hC.src, himp, hname, hty⟩
      have hne : n ≠ mainName := by
        intro h; rw [h, hS.regAll 0 mainName hS.main0] at hreg; cases hreg
      obtain ⟨a2, anames, agraph, amap, alog, astack, acs⟩ := allocate_fresh hreg
      rw [hC.cs] at agraph; dsimp only at agraph
      rw [a2]
      generalize hvm1 : (((vm.allocateModule n).1.pushFrame (namesOf vm).length).record
        (.enter (namesOf vm).length)) = vm1
      have n1 : namesOf vm1 = namesOf vm ++ [n] := by rw [← hvm1]; exact anames
      have g1 : vm1.graph = vm.graph ++ [(m, (namesOf vm).length)] := by rw [← hvm1]; exact agraph
      have m1 : vm1.nameMap = aset n (namesOf vm).length vm.nameMap := by rw [← hvm1]; exact amap
      have l1 : vm1.log = Ev.enter (namesOf vm).length :: vm.log := by
        rw [← hvm1]; show Ev.enter _ :: (vm.allocateModule n).1.log = _; rw [alog]
      have st1 : vm1.stack = (namesOf vm).length :: m :: rest := by
        rw [← hvm1]; show _ :: (vm.allocateModule n).1.stack = _; rw [astack, hC.stack]
      have cs1 : vm1.cs = some (namesOf vm).length := by rw [← hvm1]; rfl
      have hS1 : SInv files mainSrc vm1 := by
        have hSa : SInv files mainSrc (vm.allocateModule n).1 :=
          hS.alloc hreg anames agraph amap alog hC.name hC.reach (Or.inr hMI)
        rw [← hvm1]
        exact (hSa.of_same (same_pushFrame _ _)).record_enter _
      have hreach : MReach files mainSrc n := MReach.step hC.reach hMI
      have hL1 : LInv files mainSrc vm1 ((namesOf vm).length :: m :: rest) :=
        hL.push_new n1 g1 m1 l1 hS.logBound hreach (msrc_of_finder hne hfind)
      have hC1 : Cur files mainSrc vm1 (namesOf vm).length (m :: rest) n s :=
        ⟨st1, cs1, by rw [n1]; simp, msrc_of_finder hne hfind, hreach⟩
      have hd1 : files.length + 2 - f ≤ ((namesOf vm).length :: m :: rest).length := by
        simp only [List.length_cons] at hd ⊢; omega
      have c1 := evalProgram_specC (libs := libs) (cf := cf) hO (loadModule_spec (libs := libs) (cf := cf) hO f)
        (loadModule_specC hO f) hS1 hL1 hC1 hd1
      cases hr : evalProgram O libs cf (loadModule .repaired O files libs cf f) vm1 (namesOf vm).length s with
      | err e vm' => rw [hr] at c1; exact c1
      | ok vm2 =>
        dsimp only
        have c2 := redeclare_nofuel (O.exportOrder (vm2.exportsOf (namesOf vm).length)) vm2.beginScope
        cases hr3 : redeclareExports vm2.beginScope (O.exportOrder (vm2.exportsOf (namesOf vm).length)) with
        | err e vm' => rw [hr3] at c2; exact c2
        | ok vm3 =>
          dsimp only
          cases vm3.popFrame with
          | none => simp [NoFuelErr]
          | some vm4 => trivial

theorem runWith_nofuel {files : Files} {mainSrc : ModuleSrc} {O : Oracle} {libs : Libs} {cf : Nat} (hO : OracleOK O) :
    NoFuelErr (runWith .repaired O files libs (loadFuelFor files) cf mainSrc) := by
  obtain ⟨hS, hL, hC⟩ := start_invariants files mainSrc
  have hd : files.length + 2 - loadFuelFor files ≤ [0].length := by
    unfold loadFuelFor; show _ ≤ 1; omega
  have c1 := evalProgram_specC (libs := libs) (cf := cf) hO
    (loadModule_spec (libs := libs) (cf := cf) hO (loadFuelFor files)) (loadModule_specC hO (loadFuelFor files)) hS hL hC hd
  unfold runWith
  dsimp only
  have e0 : (VM.init.allocateModule mainName).2 = 0 := rfl
  change NoFuelErr (match evalProgram O libs cf (loadModule .repaired O files libs cf (loadFuelFor files)) vmStart
      (VM.init.allocateModule mainName).2 mainSrc with
    | .err e vm' => Res.err e vm'
    | .ok vm2 => match vm2.popFrame with
      | none => Res.err Err.panic vm2
      | some vm3 => Res.ok vm3)
  rw [e0]
  cases hr : evalProgram O libs cf (loadModule .repaired O files libs cf (loadFuelFor files)) vmStart 0 mainSrc with
  | err e vm' => rw [hr] at c1; exact c1
  | ok vm2 =>
    dsimp only
    cases vm2.popFrame with
    | none => simp [NoFuelErr]
    | some vm3 => trivial

end ZnVerif.Proofs.Modules
