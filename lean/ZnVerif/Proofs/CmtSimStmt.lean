/-
Comment tokens are invisible to the parser, part 3: calls, statements, blocks, declarations, the program.
-/
import ZnVerif.Proofs.CmtSimExpr

namespace ZnVerif.Proofs.CmtSim
open ZnVerif.Model ZnVerif.Model.Parser ZnVerif.Generated.Tokens ZnVerif.Generated.ParserTables
open ZnVerif.Spec.StmtSyntax

variable (Y : Layout) (v : Variant) {K : Nat} (m : Nat) {rec2 rec1 : Rec (List Token)} (hrec : RecOK K rec2 rec1)
include hrec

theorem R_pFuncCall (y : Bool) (s : St) :
    R K s (pFuncCall v (layoutOps Y) m rec2 y) (pFuncCall v (layoutOps Y) (m + K) rec1 y) := by
  unfold pFuncCall; rsim

theorem R_pCommaExprs (acc : List Expr) (s : St) :
    R K s (pCommaExprs (layoutOps Y) m rec2 acc) (pCommaExprs (layoutOps Y) (m + K) rec1 acc) := by
  unfold pCommaExprs; rsim

theorem R_pCommaIds (acc : List Ident) (s : St) :
    R K s (pCommaIds v (layoutOps Y) m rec2 acc) (pCommaIds v (layoutOps Y) (m + K) rec1 acc) := by
  unfold pCommaIds; rsim

theorem R_pMemberFuncCall (s : St) :
    R K s (pMemberFuncCall v (layoutOps Y) m rec2) (pMemberFuncCall v (layoutOps Y) (m + K) rec1) := by
  unfold pMemberFuncCall; rsim

theorem R_pChainLoop (c : List Expr) (s : St) :
    R K s (pChainLoop v (layoutOps Y) m rec2 c) (pChainLoop v (layoutOps Y) (m + K) rec1 c) := by
  unfold pChainLoop; rsim

theorem R_pVarDecl (s : St) :
    R K s (pVarDecl v (layoutOps Y) m rec2) (pVarDecl v (layoutOps Y) (m + K) rec1) := by
  unfold pVarDecl; rsim

theorem R_pVarDeclLoop (i : Nat) (ps : List (Nat × List Ident × Expr)) (s : St) :
    R K s (pVarDeclLoop v (layoutOps Y) m rec2 i ps) (pVarDeclLoop v (layoutOps Y) (m + K) rec1 i ps) := by
  unfold pVarDeclLoop; rsim

theorem R_pVdPair (s : St) :
    R K s (pVdPair v (layoutOps Y) m rec2) (pVdPair v (layoutOps Y) (m + K) rec1) := by
  unfold pVdPair; rsim

theorem R_pObjNew (s : St) :
    R K s (pObjNew v (layoutOps Y) m rec2) (pObjNew v (layoutOps Y) (m + K) rec1) := by
  unfold pObjNew; rsim

theorem R_pWhileLoop (s : St) :
    R K s (pWhileLoop v (layoutOps Y) m rec2) (pWhileLoop v (layoutOps Y) (m + K) rec1) := by
  unfold pWhileLoop; rsim

theorem R_pBlock (i : Nat) (s : St) : R K s (pBlock rec2 i) (pBlock rec1 i) := by
  unfold pBlock; rsim

theorem R_pBlockLoop (i : Nat) (acc : List Stmt) (s : St) :
    R K s (pBlockLoop (layoutOps Y) rec2 i acc) (pBlockLoop (layoutOps Y) rec1 i acc) := by
  unfold pBlockLoop; rsim

theorem R_pBranch (s : St) : R K s (pBranch (layoutOps Y) rec2) (pBranch (layoutOps Y) rec1) := by
  unfold pBranch; rsim

omit hrec in
theorem R_branchHeader (mi : Nat) (st : BrSt) (s : St) :
    R K s (branchHeader (layoutOps Y) m mi st) (branchHeader (layoutOps Y) (m + K) mi st) := by
  unfold branchHeader
  cases st <;> dsimp only <;> rsim

theorem R_pBranchLoop (mi : Nat) (st : BrSt) (acc : BranchAcc) (s : St) :
    R K s (pBranchLoop v (layoutOps Y) m rec2 mi st acc) (pBranchLoop v (layoutOps Y) (m + K) rec1 mi st acc) := by
  have hb := R_branchHeader (K := K) Y m
  unfold pBranchLoop; rsim
  · exact hb _ _ _
  · split <;> rsim

theorem R_pFunctionBlock (s : St) :
    R K s (pFunctionBlock v (layoutOps Y) m rec2) (pFunctionBlock v (layoutOps Y) (m + K) rec1) := by
  unfold pFunctionBlock; rsim

theorem R_pExecBlock (i : Nat) (s : St) : R K s (pExecBlock rec2 i) (pExecBlock rec1 i) := by
  unfold pExecBlock; rsim

theorem R_pExecLoop (i : Nat) (st : ExSt) (ins : List Ident) (ss : List Stmt)
    (cs : List (Option Ident × Option (List Stmt))) (s : St) :
    R K s (pExecLoop v (layoutOps Y) m rec2 i st ins ss cs) (pExecLoop v (layoutOps Y) (m + K) rec1 i st ins ss cs) := by
  unfold pExecLoop
  cases st <;> dsimp only <;> rsim

theorem R_pVarOneSecond (e1 : Expr) (s : St) :
    R K s (pVarOneSecond v (layoutOps Y) m rec2 e1) (pVarOneSecond v (layoutOps Y) (m + K) rec1 e1) := by
  unfold pVarOneSecond; rsim
  split <;> rsim

theorem R_pVarOneLead (s : St) :
    R K s (pVarOneLead v (layoutOps Y) m rec2) (pVarOneLead v (layoutOps Y) (m + K) rec1) := by
  have h := R_pVarOneSecond Y v m hrec
  unfold pVarOneLead; rsim
  all_goals first | exact h _ _ | (split <;> rsim)

theorem R_pIteratorRest (ids : List Ident) (s : St) :
    R K s (pIteratorRest v (layoutOps Y) m rec2 ids) (pIteratorRest v (layoutOps Y) (m + K) rec1 ids) := by
  unfold pIteratorRest; rsim

theorem R_pThrow (s : St) :
    R K s (pThrow v (layoutOps Y) m rec2) (pThrow v (layoutOps Y) (m + K) rec1) := by
  unfold pThrow; rsim

theorem R_pThrowLoop (acc : List Expr) (s : St) :
    R K s (pThrowLoop (layoutOps Y) m rec2 acc) (pThrowLoop (layoutOps Y) (m + K) rec1 acc) := by
  unfold pThrowLoop; rsim

theorem R_pCatchStmt (s : St) :
    R K s (pCatchStmt v (layoutOps Y) m rec2) (pCatchStmt v (layoutOps Y) (m + K) rec1) := by
  unfold pCatchStmt; rsim

theorem R_pImportStmt (s : St) :
    R K s (pImportStmt v (layoutOps Y) m rec2) (pImportStmt v (layoutOps Y) (m + K) rec1) := by
  unfold pImportStmt; rsim

theorem R_pClassDecl (s : St) :
    R K s (pClassDecl v (layoutOps Y) m rec2) (pClassDecl v (layoutOps Y) (m + K) rec1) := by
  unfold pClassDecl; rsim

theorem R_pClassLoop (i : Nat) (ps : List (Option Ident × Expr)) (ms gs : List Stmt) (s : St) :
    R K s (pClassLoop v (layoutOps Y) m rec2 i ps ms gs) (pClassLoop v (layoutOps Y) (m + K) rec1 i ps ms gs) := by
  unfold pClassLoop; rsim

theorem R_pPropertyDecl (s : St) :
    R K s (pPropertyDecl v (layoutOps Y) m rec2) (pPropertyDecl v (layoutOps Y) (m + K) rec1) := by
  unfold pPropertyDecl; rsim

theorem R_pProgram (s : St) : R K s (pProgram (layoutOps Y) rec2) (pProgram (layoutOps Y) rec1) := by
  unfold pProgram; rsim

theorem R_pProgramLoop (i : Nat) (x : Bool) (ims : List Import) (e : Option ExecBlock) (s : St) :
    R K s (pProgramLoop (layoutOps Y) m rec2 i x ims e) (pProgramLoop (layoutOps Y) (m + K) rec1 i x ims e) := by
  unfold pProgramLoop; rsim

theorem R_pStatement (s : St) :
    R K s (pStatement v (layoutOps Y) m rec2) (pStatement v (layoutOps Y) (m + K) rec1) := by
  unfold pStatement; rsim

end ZnVerif.Proofs.CmtSim
