/-
合并 (merge) as a store of copies; every mutating built-in as a mutation through whatever is above its receiver
(`MutSeq`); element / key / property assignment: shape of the store, mutation-through, preservation of readability.
-/
import ZnVerif.Proofs.HeapMutators
set_option linter.unusedSectionVars false
set_option linter.unusedVariables false

namespace ZnVerif.Model

variable {ν : Type} [NumOps ν]

theorem omapM_append {α β} (f : α → Option β) : ∀ (l1 l2 : List α) (ts : List β),
    List.mapM f (l1 ++ l2) = some ts ↔ ∃ t1 t2, List.mapM f l1 = some t1 ∧ List.mapM f l2 = some t2 ∧ ts = t1 ++ t2 := by
  intro l1
  induction l1 with
  | nil => intro l2 ts; simp
  | cons x xs ih =>
    intro l2 ts
    rw [List.cons_append, omapM_cons]
    constructor
    · rintro ⟨t, ts', h1, h2, rfl⟩
      rcases (ih l2 ts').1 h2 with ⟨t1, t2, q1, q2, rfl⟩
      exact ⟨t :: t1, t2, (omapM_cons f x xs _).2 ⟨t, t1, h1, q1, rfl⟩, q2, rfl⟩
    · rintro ⟨t1, t2, q1, q2, rfl⟩
      rcases (omapM_cons f x xs t1).1 q1 with ⟨t, t1', h1, h2, rfl⟩
      exact ⟨t, t1' ++ t2, h1, (ih l2 _).2 ⟨t1', t2, h2, q2, rfl⟩, rfl⟩

/-- what 合并 does with one argument: read the list cell, duplicate every item -/
def mergeArg (n : Nat) (v : Addr) : M ν (List Addr) := do
  match ← getCell v with
  | .arr xs => xs.mapM (dup n)
  | _ => goPanic

theorem validateAll_array (cellOf : Addr → List Addr) : ∀ (vals : List Addr) (s : VM ν),
    (∀ v ∈ vals, s.heap[v]? = some (.arr (cellOf v))) → validateAll vals "array" s = (.ok (), s) := by
  intro vals
  induction vals with
  | nil => intro s _; rfl
  | cons v vs ih =>
    intro s h
    unfold validateAll at ih ⊢
    simp only [List.forM, bind, validateOne_array (h v (by simp))]
    exact ih s (fun w hw => h w (by simp [hw]))

/-- the argument loop of 合并: every item of every argument list is duplicated -/
theorem merge_list (n : Nat) (cellOf : Addr → List Addr) : ∀ (vals : List Addr) (s s1 : VM ν) (ts : List (Tree ν))
    (extra : List (List Addr)),
    (∀ v ∈ vals, s.heap[v]? = some (.arr (cellOf v))) →
    (vals.flatMap cellOf).mapM (content n s.heap) = some ts →
    vals.mapM (mergeArg n) s = (.ok extra, s1) →
    Grow s s1 ∧ extra.flatten.mapM (content n s1.heap) = some ts ∧
      ∀ y ∈ extra.flatten, Valid s1.heap y ∧ Fresh s.heap.size s1.heap y := by
  intro vals
  induction vals with
  | nil =>
    intro s s1 ts extra _ hts hm
    simp [pure] at hm
    rcases hm with ⟨rfl, rfl⟩
    exact ⟨StateRel.refl _, by simpa using hts, by simp⟩
  | cons v vs ih =>
    intro s s1 ts extra hcells hts hm
    rw [List.flatMap_cons] at hts
    rcases (omapM_append _ _ _ _).1 hts with ⟨t1, t2, q1, q2, rfl⟩
    rcases mapM_cons_inv _ _ _ _ _ _ hm with ⟨l, ls, sm, hv, hrest, rfl⟩
    have hcv := hcells v (by simp)
    have hl : (cellOf v).mapM (dup n) s = (.ok l, sm) := by
      unfold mergeArg at hv
      simpa only [bind, getCell, hcv] using hv
    rcases dup_list n (dup_spec n) (cellOf v) s t1 q1 with ⟨l', sm', hl', hsame, hext, hcont, hall⟩
    rw [hl] at hl'
    injection hl' with e1 e2
    injection e1 with e1
    subst e1; subst e2
    rcases ih sm s1 t2 ls (fun w hw => hext.get (hcells w (by simp [hw])))
      (omapM_mono _ _ _ (fun y _ t' => content_ext hext n y t') t2 q2) hrest with ⟨hg, hc2, hall2⟩
    refine ⟨StateRel.trans (R := Grow) ⟨hsame, hext⟩ hg, ?_, ?_⟩
    · rw [List.flatten_cons]
      exact (omapM_append _ _ _ _).2 ⟨t1, t2, omapM_mono _ _ _ (fun y _ t' => content_ext hg.2 n y t') t1 hcont, hc2, rfl⟩
    · intro y hy
      rw [List.flatten_cons, List.mem_append] at hy
      rcases hy with hy | hy
      · exact ⟨(hall y hy).1.ext hg.2, (hall y hy).2.ext hg.2 (hall y hy).1⟩
      · exact ⟨(hall2 y hy).1, (hall2 y hy).2.mono hext.1⟩

theorem builtinMethod_merge_eq (n : Nat) (r : Addr) (vals : List Addr) (items : List Addr) (s : VM ν)
    (hc : s.heap[r]? = some (.arr items)) :
    builtinMethod n r "合并" vals s = ((do
      validateAll vals "array"
      let extra ← vals.mapM (mergeArg n)
      setCell r (.arr (items ++ extra.flatten))
      alloc (.arr (items ++ extra.flatten))) : M ν Addr) s := by
  unfold builtinMethod
  simp only [bind, getCell, hc]
  rfl

/-- **合并 stores copies.**  On a list cell `r` with argument lists whose items read as `ts`: every item of every argument
is duplicated; `r`'s cell becomes its old items followed by the duplicates (which read as `ts` again and consist of
new cells only); the answer is a second list cell over the same items. -/
theorem merge_spec (n : Nat) (r : Addr) (vals : List Addr) (items : List Addr) (cellOf : Addr → List Addr)
    (s s' : VM ν) (res : Addr) (ts : List (Tree ν))
    (h : builtinMethod n r "合并" vals s = (.ok res, s'))
    (hc : s.heap[r]? = some (.arr items))
    (hcells : ∀ v ∈ vals, s.heap[v]? = some (.arr (cellOf v)))
    (hts : (vals.flatMap cellOf).mapM (content n s.heap) = some ts) :
    ∃ (news : List Addr) (s1 : VM ν), Grow s s1 ∧ news.mapM (content n s1.heap) = some ts ∧
      (∀ y ∈ news, Valid s1.heap y ∧ Fresh s.heap.size s1.heap y) ∧ res = s1.heap.size ∧
      s' = { s1 with heap := (s1.heap.set! r (.arr (items ++ news))).push (.arr (items ++ news)) } := by
  rw [builtinMethod_merge_eq n r vals items s hc] at h
  rcases bind_ok_inv _ _ _ _ _ h with ⟨u, s0, hv, h1⟩
  rw [validateAll_array cellOf vals s hcells] at hv
  injection hv with _ e0
  subst e0
  rcases bind_ok_inv _ _ _ _ _ h1 with ⟨extra, s1, hm, h2⟩
  rcases merge_list n cellOf vals s s1 ts extra hcells hts hm with ⟨hg, hcont, hall⟩
  rcases bind_ok_inv _ _ _ _ _ h2 with ⟨u', s2, hset, h3⟩
  rcases setCell_ok_inv hset with ⟨_, rfl⟩
  simp only [alloc] at h3
  injection h3 with e1 e2
  injection e1 with e1
  exact ⟨extra.flatten, s1, hg, hcont, hall, by rw [← e1]; simp, e2.symm⟩

/-- 合并 (merge) -/
theorem merge_storeStep (n : Nat) (r : Addr) (vals : List Addr) (items : List Addr) (cellOf : Addr → List Addr)
    (s s' : VM ν) (res : Addr) (ts : List (Tree ν))
    (h : builtinMethod n r "合并" vals s = (.ok res, s'))
    (hc : s.heap[r]? = some (.arr items))
    (hcells : ∀ v ∈ vals, s.heap[v]? = some (.arr (cellOf v)))
    (hts : (vals.flatMap cellOf).mapM (content n s.heap) = some ts) : StoreStep r s.heap s'.heap := by
  rcases merge_spec n r vals items cellOf s s' res ts h hc hcells hts with ⟨news, s1, hg, hcont, hall, _, rfl⟩
  refine .store hg.2 hc rfl (fun _ => rfl) (fun y hy => ?_) (Ext.push _ _)
  simp only [Cell.children, List.mem_append] at hy
  rcases hy with hy | hy
  · exact .inl hy
  · rcases omapM_mem _ _ ts hcont y hy with ⟨t, ht, _⟩
    exact .inr ⟨⟨n, t, ht⟩, (hall y hy).2⟩
/-! ## … hence a mutation through whatever is above the receiver, and acyclicity-preserving -/

theorem MutSeq.trans {a b : Addr} {h1 h2 h3 : Array (Cell ν)} (m1 : MutSeq a b h1 h2) (m2 : MutSeq a b h2 h3) :
    MutSeq a b h1 h3 := by
  induction m1 with
  | done => exact m2
  | grow e _ ih => exact .grow e (ih m2)
  | write hr hm hch _ ih => exact .write hr hm hch (ih m2)

theorem push_back_mutSeq (n : Nat) (a b r x : Addr) (items : List Addr) (s s' : VM ν) (res : Addr) (t : Tree ν)
    (h : builtinMethod n r "后增" [x] s = (.ok res, s'))
    (hc : s.heap[r]? = some (.arr items)) (ht : content n s.heap x = some t)
    (hr : Reach s.heap b r) (hs : Sep s.heap a b) : MutSeq a b s.heap s'.heap :=
  (push_back_storeStep n r x items s s' res t h hc ht).mutSeq hr hs

theorem push_front_mutSeq (n : Nat) (a b r x : Addr) (items : List Addr) (s s' : VM ν) (res : Addr) (t : Tree ν)
    (h : builtinMethod n r "前增" [x] s = (.ok res, s'))
    (hc : s.heap[r]? = some (.arr items)) (ht : content n s.heap x = some t)
    (hr : Reach s.heap b r) (hs : Sep s.heap a b) : MutSeq a b s.heap s'.heap :=
  (push_front_storeStep n r x items s s' res t h hc ht).mutSeq hr hs

theorem insert_mutSeq (n : Nat) (a b r x p : Addr) (name : String) (hname : name = "新增" ∨ name = "添加") (pv : ν)
    (items : List Addr) (s s' : VM ν) (res : Addr) (t : Tree ν)
    (h : builtinMethod n r name [x, p] s = (.ok res, s'))
    (hc : s.heap[r]? = some (.arr items)) (hp : s.heap[p]? = some (.num pv)) (ht : content n s.heap x = some t)
    (hr : Reach s.heap b r) (hs : Sep s.heap a b) : MutSeq a b s.heap s'.heap :=
  (insert_storeStep n r x p name hname pv items s s' res t h hc hp ht).mutSeq hr hs

theorem dict_put_mutSeq (n : Nat) (a b r k x : Addr) (key : String) (vals : List (String × Addr)) (order : List String)
    (s s' : VM ν) (res : Addr) (t : Tree ν)
    (h : builtinMethod n r "写入" [k, x] s = (.ok res, s'))
    (hc : s.heap[r]? = some (.hm vals order)) (hk : s.heap[k]? = some (.str key)) (ht : content n s.heap x = some t)
    (hr : Reach s.heap b r) (hs : Sep s.heap a b) : MutSeq a b s.heap s'.heap :=
  (dict_put_storeStep n r k x key vals order s s' res t h hc hk ht).mutSeq hr hs

theorem dict_remove_mutSeq (n : Nat) (a b r k : Addr) (key : String) (vals : List (String × Addr)) (order : List String)
    (s s' : VM ν) (res : Res Addr)
    (h : builtinMethod n r "移除" [k] s = (res, s'))
    (hc : s.heap[r]? = some (.hm vals order)) (hk : s.heap[k]? = some (.str key))
    (hr : Reach s.heap b r) (hs : Sep s.heap a b) : MutSeq a b s.heap s'.heap :=
  (dict_remove_storeStep n r k key vals order s s' res h hc hk).mutSeq hr hs

theorem pop_front_mutSeq (n : Nat) (a b r : Addr) (items : List Addr) (s s' : VM ν) (res : Res Addr)
    (h : builtinMethod n r "左移" [] s = (res, s')) (hc : s.heap[r]? = some (.arr items))
    (hr : Reach s.heap b r) (hs : Sep s.heap a b) : MutSeq a b s.heap s'.heap :=
  (pop_front_storeStep n r items s s' res h hc).mutSeq hr hs

theorem pop_back_mutSeq (n : Nat) (a b r : Addr) (items : List Addr) (s s' : VM ν) (res : Res Addr)
    (h : builtinMethod n r "右移" [] s = (res, s')) (hc : s.heap[r]? = some (.arr items))
    (hr : Reach s.heap b r) (hs : Sep s.heap a b) : MutSeq a b s.heap s'.heap :=
  (pop_back_storeStep n r items s s' res h hc).mutSeq hr hs

theorem swap_mutSeq (n : Nat) (a b r p q : Addr) (pv qv : ν) (items : List Addr) (s s' : VM ν) (res : Res Addr)
    (h : builtinMethod n r "交换" [p, q] s = (res, s'))
    (hc : s.heap[r]? = some (.arr items)) (hp : s.heap[p]? = some (.num pv)) (hq : s.heap[q]? = some (.num qv))
    (hr : Reach s.heap b r) (hs : Sep s.heap a b) : MutSeq a b s.heap s'.heap :=
  (swap_storeStep n r p q pv qv items s s' res h hc hp hq).mutSeq hr hs

theorem incr_mutSeq (n : Nat) (a b r v : Addr) (name : String) (hname : name = "自增" ∨ name = "自减") (x y : ν)
    (s s' : VM ν) (res : Res Addr)
    (h : builtinMethod n r name [v] s = (res, s'))
    (hc : s.heap[r]? = some (.num x)) (hv : s.heap[v]? = some (.num y))
    (hr : Reach s.heap b r) (hs : Sep s.heap a b) : MutSeq a b s.heap s'.heap :=
  (incr_storeStep n r v name hname x y s s' res h hc hv).mutSeq hr hs

theorem merge_mutSeq (n : Nat) (a b r : Addr) (vals : List Addr) (items : List Addr) (cellOf : Addr → List Addr)
    (s s' : VM ν) (res : Addr) (ts : List (Tree ν))
    (h : builtinMethod n r "合并" vals s = (.ok res, s'))
    (hc : s.heap[r]? = some (.arr items))
    (hcells : ∀ v ∈ vals, s.heap[v]? = some (.arr (cellOf v)))
    (hts : (vals.flatMap cellOf).mapM (content n s.heap) = some ts)
    (hr : Reach s.heap b r) (hs : Sep s.heap a b) : MutSeq a b s.heap s'.heap :=
  (merge_storeStep n r vals items cellOf s s' res ts h hc hcells hts).mutSeq hr hs

/-! ## element, key and property assignment -/

/-- `c#i = v` on a list cell below `b`, storing a value separated from `a`, is a mutation through `b` -/
theorem element_store_mutSeq (a b root : Addr) (nm : String) (idx : Int) (v : Addr) (s s' : VM ν)
    (h : reduceLHS (1, root, nm, idx) v s = (.ok (), s'))
    (hr : Reach s.heap b root) (hs : Sep s.heap a b) (hv : Valid s.heap v ∧ Disj s.heap a v) :
    MutSeq a b s.heap s'.heap := by
  rcases reduceLHS_arr_spec root nm idx v s s' h with ⟨items, hc, _, rfl⟩
  refine .write hr ⟨_, hc, rfl⟩ (fun x hx => ?_) (.done _)
  rcases mem_of_mem_set hx with hx | rfl
  · exact sep_child_of_reach hs (hr.trans (Reach.child hc hx))
  · exact hv

/-- `c#{k} = v` on a dictionary cell below `b`, storing a value separated from `a`, is a mutation through `b` -/
theorem key_store_mutSeq (a b root : Addr) (key : String) (idx : Int) (v : Addr) (s s' : VM ν)
    (h : reduceLHS (2, root, key, idx) v s = (.ok (), s'))
    (hr : Reach s.heap b root) (hs : Sep s.heap a b) (hv : Valid s.heap v ∧ Disj s.heap a v) :
    MutSeq a b s.heap s'.heap := by
  rcases reduceLHS_hm_spec root key idx v s s' h with ⟨vals, order, hc, rfl⟩
  refine .write hr ⟨_, hc, rfl⟩ (fun x hx => ?_) (.done _)
  rcases snd_mem_hmAppend hx with hx | rfl
  · exact sep_child_of_reach hs (hr.trans (Reach.child hc hx))
  · exact hv

/-- the shape of a successful store `reduceLHS (kind, root, …) v`: `root`'s cell is replaced, either object by object
(property write), or list / dictionary by one whose links are old links of `root` or `v` -/
theorem reduceLHS_shape (kind : Nat) (root : Addr) (nm : String) (idx : Int) (v : Addr) (s s' : VM ν)
    (h : reduceLHS (kind, root, nm, idx) v s = (.ok (), s')) :
    ∃ c c', s.heap[root]? = some c ∧ s' = { s with heap := s.heap.set! root c' } ∧
      ((c.isRefKind = true ∧ c'.isRefKind = true) ∨
       (c.isMutable = true ∧ (c.wf = true → c'.wf = true) ∧ ∀ x ∈ c'.children, x ∈ c.children ∨ x = v)) := by
  by_cases h1 : kind = 1
  · subst h1
    rcases reduceLHS_arr_spec root nm idx v s s' h with ⟨items, hc, _, rfl⟩
    exact ⟨_, _, hc, rfl, .inr ⟨rfl, fun _ => rfl, fun x hx => mem_of_mem_set hx⟩⟩
  by_cases h2 : kind = 2
  · subst h2
    rcases reduceLHS_hm_spec root nm idx v s s' h with ⟨vals, order, hc, rfl⟩
    exact ⟨_, _, hc, rfl, .inr ⟨rfl, hm_wf_of (hmAppend_wf nm v), fun x hx => snd_mem_hmAppend hx⟩⟩
  have hb1 : (kind == 1) = false := by simpa using h1
  have hb2 : (kind == 2) = false := by simpa using h2
  simp only [reduceLHS, hb1, hb2] at h
  simp only [Bool.false_eq_true, if_false] at h
  unfold setProperty at h
  rcases bind_ok_inv _ _ _ _ _ h with ⟨c, s1, hc, h3⟩
  rcases getCell_ok_inv hc with ⟨hc', e⟩
  rw [e] at h3
  cases c <;> simp only [rtErr, throwE] at h3 <;> try (injection h3 with h3 _; cases h3)
  · rename_i items
    split at h3
    · cases items with
      | nil => exact ⟨_, _, hc', (setCell_ok_inv h3).2, .inr ⟨rfl, fun _ => rfl, by simp [Cell.children]⟩⟩
      | cons y rest =>
        exact ⟨_, _, hc', (setCell_ok_inv h3).2, .inr ⟨rfl, fun _ => rfl, by
          simp only [Cell.children, List.mem_cons]; intro x hx; rcases hx with rfl | hx
          · exact .inr rfl
          · exact .inl (.inr hx)⟩⟩
    · cases items with
      | nil => exact ⟨_, _, hc', (setCell_ok_inv h3).2, .inr ⟨rfl, fun _ => rfl, by simp [Cell.children]⟩⟩
      | cons y rest =>
        refine ⟨_, _, hc', (setCell_ok_inv h3).2, .inr ⟨rfl, fun _ => rfl, ?_⟩⟩
        simp only [Cell.children, List.mem_append, List.mem_singleton]
        intro x hx
        rcases hx with hx | rfl
        · exact .inl (mem_of_mem_dropLast' hx)
        · exact .inr rfl
    · injection h3 with h3 _; cases h3
  · rename_i cls props
    cases hl : lookup nm props with
    | none => rw [hl] at h3; injection h3 with h3 _; cases h3
    | some old =>
      rw [hl] at h3
      exact ⟨_, _, hc', (setCell_ok_inv h3).2, .inl ⟨rfl, rfl⟩⟩

/-- **stores keep acyclicity**: a successful element / key / property assignment that stores a readable value `v` from
which the root cell is not reachable keeps every readable value readable -/
theorem reduceLHS_readable (kind : Nat) (root : Addr) (nm : String) (idx : Int) (v : Addr) (s s' : VM ν)
    (h : reduceLHS (kind, root, nm, idx) v s = (.ok (), s')) (hv : Readable s.heap v) (hnr : ¬ Reach s.heap v root) :
    ∀ a, Readable s.heap a → Readable s'.heap a := by
  rcases reduceLHS_shape kind root nm idx v s s' h with ⟨c, c', hc, rfl, hk | ⟨_, hw, hch⟩⟩
  · intro a ⟨n, t, ht⟩
    exact ⟨n, t, by rw [content_set_ref root c c' hk.1 hk.2 n s.heap a hc]; exact ht⟩
  · refine write_keeps_readable hc hw (fun x hx => ?_)
    rcases hch x hx with hx | rfl
    · exact .inl hx
    · exact .inr ⟨hv, hnr⟩
/-- reading an element / a value below `root` answers a cell that `root` links to, and changes nothing -/
theorem index_read_reaches (n : Nat) (kind : Nat) (hk : kind = 1 ∨ kind = 2) (root : Addr) (nm : String) (idx : Int)
    (s s' : VM ν) (v : Addr) (h : reduceRHS n (kind, root, nm, idx) s = (.ok v, s')) :
    s' = s ∧ ∃ c, s.heap[root]? = some c ∧ v ∈ c.children := by
  rcases hk with rfl | rfl
  · simp only [reduceRHS] at h
    rw [if_pos (by rfl)] at h
    rcases bind_ok_inv _ _ _ _ _ h with ⟨c, s1, hc, h1⟩
    rcases getCell_ok_inv hc with ⟨hc', e⟩
    rw [e] at h1
    cases c <;> simp only [rtErr, throwE] at h1 <;> try (injection h1 with h1 _; cases h1)
    rename_i items
    by_cases hb : (idx - 1 < 0 ∨ idx - 1 ≥ items.length)
    · rw [if_pos hb] at h1; injection h1 with h1 _; cases h1
    · rw [if_neg hb] at h1
      cases hi : items[(idx - 1).toNat]? with
      | none => rw [hi] at h1; simp [goPanic] at h1
      | some x =>
        rw [hi] at h1
        rcases pure_ok_inv h1 with ⟨rfl, rfl⟩
        exact ⟨rfl, _, hc', by simp only [Cell.children]; exact List.mem_of_getElem? hi⟩
  · simp only [reduceRHS] at h
    rw [if_neg (by decide), if_pos (by rfl)] at h
    rcases bind_ok_inv _ _ _ _ _ h with ⟨c, s1, hc, h1⟩
    rcases getCell_ok_inv hc with ⟨hc', e⟩
    rw [e] at h1
    cases c <;> simp only [rtErr, throwE] at h1 <;> try (injection h1 with h1 _; cases h1)
    rename_i vals order
    cases hl : lookup nm vals with
    | none => rw [hl] at h1; simp [throwE] at h1
    | some x =>
      rw [hl] at h1
      rcases pure_ok_inv h1 with ⟨rfl, rfl⟩
      refine ⟨rfl, _, hc', ?_⟩
      simp only [Cell.children]
      clear hc' h hc e
      induction vals with
      | nil => simp [lookup] at hl
      | cons p ps ih =>
        rcases p with ⟨k', v'⟩
        by_cases hk : nm = k'
        · simp [lookup, hk] at hl; simp [hl]
        · simp [lookup, hk] at hl; simp; exact .inr (by simpa using ih hl)

end ZnVerif.Model
