/-
C18, line table — the scanners between tokens: `parseSpaces`, the indent counter, `setIndentType`,
`parseBeginLex`, `parseLine` (with its `goto head`), the loop of `PreNextToken`.  Each keeps the invariant
`LinesInv.Good 0` (see Proofs/LinesInv.lean).  Core Lean only.
-/
import ZnVerif.Proofs.LinesInv

namespace ZnVerif.Model
open ZnVerif.Generated ZnVerif.Generated.Tokens
open Spec.Lines

namespace LinesInv
variable {S : Array Nat}

theorem ws_nb {c : Nat} (h : isWhiteSpace c = true) : isBreak c = false :=
  nb_of_pred isWhiteSpace (by decide) (by decide) h

theorem solid_nb {c : Nat} (h : Solid c) : isBreak c = false := by
  obtain ⟨_, h2, h3⟩ := h
  simp only [isBreak, Bool.or_eq_false_iff, beq_eq_false_iff_ne]
  exact ⟨h2, h3⟩

theorem parseSpaces_frame (l : Lexer) : Frame 0 l (parseSpaces l) := by
  induction l using parseSpaces.induct with
  | case1 l h ih =>
    rw [parseSpaces]; simp only [h, ↓reduceDIte]
    exact (Frame.adv0 (ws_nb h)).trans ih
  | case2 l h =>
    rw [parseSpaces]; simp only [h, ↓reduceDIte]
    exact Frame.refl 0 l

theorem countSame_frame (ch : Nat) (hch : isBreak ch = false) (l : Lexer) (count : Nat)
    (h0 : isBreak l.cur = false) : Frame 0 l (countSame ch l count).1 := by
  induction l, count using countSame.induct ch with
  | case1 l count h ih =>
    rw [countSame]; simp only [h, ↓reduceDIte]
    have h' : isBreak l.adv.cur = false := by
      have : l.adv.cur = ch := by
        simp only [Bool.and_eq_true, beq_iff_eq] at h
        exact h.1
      rw [this]; exact hch
    exact (Frame.adv0 h0).trans (ih h')
  | case2 l count h =>
    rw [countSame]; simp only [h, ↓reduceDIte]
    exact Frame.adv0 h0

theorem setIndentType_frame (l : Lexer) (count ch : Nat) : Frame 0 l (setIndentType l count ch).2 := by
  apply Frame.of_eq <;> (simp only [setIndentType, setIndentTypeLexer]; split <;> rfl)

theorem sliceLastLine_frame {l l' : Lexer} {e : Nat} (h : sliceLastLine l e = some l') :
    Frame 0 l l' ∧ l'.cursor = l.cursor := by
  unfold sliceLastLine at h
  split at h
  · cases h; exact ⟨Frame.refl 0 l, rfl⟩
  · split at h
    · cases h
    · cases h
      exact ⟨Frame.of_eq rfl (starts_modify _ _ _ (fun _ => rfl)) rfl rfl, rfl⟩

theorem setLastIndents_frame (l : Lexer) (n : Nat) : Frame 0 l (setLastIndents l n) :=
  Frame.of_eq rfl (starts_modify _ _ _ (fun _ => rfl)) rfl rfl

/-! ### `parseBeginLex` -/

theorem At.begin (l : Lexer) (hl : l.lines = #[]) (h0 : charAt l.src 0 ≠ 0) :
    At (l.pushLine { indents := 0, startIdx := 0 }) 0 := by
  have hlt := lt_of_charAt_ne_zero h0
  have hne : l.src.toList.isEmpty = false := by
    cases hs : l.src.toList with
    | nil => rw [← Array.length_toList, hs] at hlt; cases hlt
    | cons a r => rfl
  unfold At
  rw [starts_pushLine]
  simp [starts, hl, physicalLineStarts, hne, tail]

/-- an empty text: nothing recorded, nothing to record -/
theorem At.empty (l : Lexer) (hl : l.lines = #[]) (h0 : l.src.size = 0) (k : Nat) : At l k := by
  unfold At
  have : l.src.toList = [] := by
    apply List.eq_nil_of_length_eq_zero; simpa using h0
  rw [tail_ge l.src k (by omega)]
  simp [starts, hl, physicalLineStarts, this]

theorem parseBeginLex_good (l : Lexer) (hl : l.lines = #[]) (hc : l.cursor = 0) (hb : l.beginLex = false)
    (hS : l.src = S) (h0 : l.getChar 0 ≠ 0) (u : Unit) (l' : Lexer) (h : parseBeginLex l = (.ok u, l')) :
    Good S 0 l' := by
  have g1 : Good S 0 (l.pushLine { indents := 0, startIdx := 0 }) :=
    ⟨hS, hb, by
      have := At.begin l hl h0
      show At _ ((l.pushLine { indents := 0, startIdx := 0 }).cursor + 0)
      rw [Lexer.pushLine_cursor, hc]; exact this⟩
  unfold parseBeginLex at h
  simp only [] at h
  split at h
  · rename_i hz
    exact absurd (by simpa [runeEOF] using hz) h0
  · split at h
    · rename_i hts
      have hnb : isBreak (l.getChar 0) = false := by
        simp only [Bool.or_eq_true, beq_iff_eq] at hts
        rcases hts with e | e <;> rw [e] <;> decide
      have hcur : (l.pushLine { indents := 0, startIdx := 0 }).cur = l.getChar 0 := by
        show l.getChar l.cursor = _
        rw [hc]
      have f1 := countSame_frame (l.getChar 0) hnb (l.pushLine { indents := 0, startIdx := 0 }) 1
        (by rw [hcur]; exact hnb)
      have f2 := setIndentType_frame (countSame (l.getChar 0) (l.pushLine { indents := 0, startIdx := 0 }) 1).1
        (countSame (l.getChar 0) (l.pushLine { indents := 0, startIdx := 0 }) 1).2 (l.getChar 0)
      split at h
      · rename_i n l2 heq
        rw [heq] at f2
        cases h
        have f3 : Frame 0 l2 { l2 with lines := l2.lines.modify 0 (fun li => { li with indents := n }) } :=
          Frame.of_eq rfl (starts_modify _ _ _ (fun _ => rfl)) rfl rfl
        exact ((f1.trans f2).trans f3).good g1
      · cases h
      · cases h
    · cases h
      exact g1

/-! ### `parseLine` -/

theorem parseLineBody_good (ch : Nat) (w : Bool) (l : Lexer) (g : Good S 0 l) (hch : l.cur = ch)
    (hbr : isBreak ch = true) (u : Unit) (h : (parseLineBody ch w l).1 = .ok u) :
    Good S 0 (parseLineBody ch w l).2 := by
  unfold parseLineBody at h ⊢
  dsimp only at h ⊢
  rw [pair_eq] at h ⊢
  generalize hl2 : (if isPair ch l.adv.cur = true then l.adv.adv else l.adv) = l2 at h ⊢
  -- the state right after the line break, before the new line is recorded
  have key : ∀ l3 : Lexer, Frame 0 l2 l3 → l3.cursor = l2.cursor →
      Good S 0 (l3.pushLine { indents := 0, startIdx := l3.cursor }) := by
    intro l3 f3 hc3
    have hpk : l.adv.cur = charAt l.src (l.cursor + 1) := rfl
    have hcu : ch = charAt l.src (l.cursor + 0) := by rw [← hch]; rfl
    refine ⟨by show l3.src = S; rw [f3.src, ← hl2]; split <;> exact g.src,
      by show l3.beginLex = false; rw [f3.bl, ← hl2]; split <;> exact g.bl, ?_⟩
    show At _ ((l3.pushLine _).cursor + 0)
    rw [Lexer.pushLine_cursor, hc3, Nat.add_zero]
    cases hp : isPair ch l.adv.cur with
    | true =>
      rw [hp] at hl2; simp only [↓reduceIte] at hl2
      have hc2 : l2.cursor = l.cursor + 0 + 2 := by rw [← hl2]; rfl
      rw [hc2]
      refine g.inv.pair (by rw [Lexer.pushLine_src, f3.src, ← hl2]; rfl) ?_ (by rw [← hcu, ← hpk]; exact hp)
      rw [starts_pushLine, f3.sts, ← hl2]
      rfl
    | false =>
      rw [hp] at hl2; simp only [Bool.false_eq_true, ↓reduceIte] at hl2
      have hc2 : l2.cursor = l.cursor + 0 + 1 := by rw [← hl2]; rfl
      rw [hc2]
      refine g.inv.single (by rw [Lexer.pushLine_src, f3.src, ← hl2]; rfl) ?_ (by rw [← hcu]; exact hbr)
        (by rw [← hcu, ← hpk]; exact hp)
      rw [starts_pushLine, f3.sts, ← hl2]
      rfl
  split at h
  · cases h
  · rename_i l3 h3
    obtain ⟨f3, hc3⟩ := sliceLastLine_frame h3
    have g4 := key l3 f3 hc3
    cases w with
    | false => exact g4
    | true =>
      simp only [↓reduceIte] at h ⊢
      have hcur4 : (l3.pushLine { indents := 0, startIdx := l3.cursor }).cur = l2.cur := by
        show charAt l3.src l3.cursor = charAt l2.src l2.cursor
        rw [f3.src, hc3]
      generalize hr : (if (l2.cur == runeSP || l2.cur == runeTAB) = true
        then countSame l2.cur (l3.pushLine { indents := 0, startIdx := l3.cursor }) 1
        else (l3.pushLine { indents := 0, startIdx := l3.cursor }, 0)) = r at h ⊢
      have fr : Frame 0 (l3.pushLine { indents := 0, startIdx := l3.cursor }) r.1 := by
        rw [← hr]
        split
        · rename_i hts
          have hnb : isBreak l2.cur = false := by
            simp only [Bool.or_eq_true, beq_iff_eq] at hts
            rcases hts with e | e <;> rw [e] <;> decide
          exact countSame_frame l2.cur hnb _ 1 (by rw [hcur4]; exact hnb)
        · exact Frame.refl 0 _
      have fs := setIndentType_frame r.1 r.2 l2.cur
      split
      · exact ((fr.trans fs).trans (setLastIndents_frame _ _)).good g4
      · rename_i e he; rw [he] at h; cases h
      · rename_i he; rw [he] at h; cases h

theorem parseLine_good (ch : Nat) (w : Bool) (l : Lexer) (g : Good S 0 l) (hch : l.cur = ch)
    (hbr : isBreak ch = true) (u : Unit) (h : (parseLine ch w l).1 = .ok u) : Good S 0 (parseLine ch w l).2 := by
  unfold parseLine at h ⊢
  have := iterate_inv (step := parseLineStep w) (hc := parseLineStep_consumes w)
    (I := fun l ch => Good S 0 l ∧ l.cur = ch ∧ isBreak ch = true)
    (Q := fun r l' => ∀ u, r = .ok u → Good S 0 l') ?_ ?_ l ch ⟨g, hch, hbr⟩
  · exact this u h
  · intro l ch ch' l' ⟨g, hch, hbr⟩ hs
    have hb := parseLineBody_good ch w l g hch hbr
    unfold parseLineStep at hs
    dsimp only at hs
    split at hs
    · rename_i u' hok
      split at hs
      · rename_i hc
        cases hs
        exact ⟨hb u' hok, rfl, hc⟩
      · cases hs
    · cases hs
    · cases hs
  · intro l ch r l' ⟨g, hch, hbr⟩ hs u' hr
    have hb := parseLineBody_good ch w l g hch hbr
    unfold parseLineStep at hs
    dsimp only at hs
    split at hs
    · rename_i u'' hok
      split at hs
      · cases hs
      · cases hs
        exact hb u'' hok
    · cases hs; cases hr
    · cases hs; cases hr

/-! ### the loop of `PreNextToken` -/

theorem skipBlank_good (l : Lexer) (g : Good S 0 l) (u : Unit) (h : (skipBlank l).1 = .ok u) :
    Good S 0 (skipBlank l).2 ∧ Solid (skipBlank l).2.cur := by
  unfold skipBlank at h ⊢
  have := iterate_inv (step := skipBlankStep) (hc := skipBlankStep_consumes)
    (I := fun l _ => Good S 0 l)
    (Q := fun r l' => ∀ u, r = .ok u → Good S 0 l' ∧ Solid l'.cur) ?_ ?_ l () g
  · exact this u h
  · intro l _ _ l' g hs
    unfold skipBlankStep at hs
    split at hs
    · cases hs; exact (parseSpaces_frame l).good g
    · split at hs
      · rename_i hc
        dsimp only at hs
        split at hs
        · rename_i u' hok
          cases hs
          exact parseLine_good l.cur true l g rfl hc u' hok
        · cases hs
        · cases hs
      · cases hs
  · intro l _ r l' g hs u' hr
    unfold skipBlankStep at hs
    split at hs
    · cases hs
    · rename_i hw
      split at hs
      · dsimp only at hs
        split at hs
        · cases hs
        · cases hs; cases hr
        · cases hs; cases hr
      · rename_i hc
        cases hs
        refine ⟨g, by simpa using hw, ?_, ?_⟩
        · intro e; rw [e] at hc; exact hc (by decide)
        · intro e; rw [e] at hc; exact hc (by decide)

/-- the state before the first token -/
structure Fresh (l : Lexer) : Prop where
  bl : l.beginLex = true
  lines : l.lines = #[]
  cursor : l.cursor = 0

theorem fresh_mkLexer (src : List Nat) : Fresh (mkLexer src) := ⟨rfl, rfl, rfl⟩

/-- `PreNextToken`: it ends on a character that starts a token or the end of input, the invariant established —
or the text begins with a NUL (`parseBeginLex` takes that for an empty text), which `NextToken` rejects -/
theorem preNextToken_good (l : Lexer) (hS : l.src = S) (hl : Fresh l ∨ Good S 0 l) (u : Unit) (l1 : Lexer)
    (h : preNextToken l = (.ok u, l1)) :
    (Good S 0 l1 ∧ Solid l1.cur) ∨ (l1.cur = 0 ∧ l1.cursor < l1.src.size) := by
  have later : ∀ l : Lexer, Good S 0 l → ∀ l1, skipBlank l = (.ok u, l1) → Good S 0 l1 ∧ Solid l1.cur := by
    intro l g l1 h
    have := skipBlank_good l g u (by rw [h])
    rw [h] at this; exact this
  unfold preNextToken at h
  rcases hl with hf | g
  · simp only [hf.bl, ↓reduceIte] at h
    split at h
    · rename_i u' hok
      by_cases h0 : ({ l with beginLex := false } : Lexer).getChar 0 = 0
      · -- NUL or nothing at position 0: `parseBeginLex` does nothing
        have hpb : parseBeginLex { l with beginLex := false } = (.ok (), { l with beginLex := false }) := by
          unfold parseBeginLex
          simp [h0, runeEOF]
        rw [hpb] at h
        have hcur : ({ l with beginLex := false } : Lexer).cur = 0 := by
          show ({ l with beginLex := false } : Lexer).getChar l.cursor = 0
          rw [hf.cursor]; exact h0
        have hsolid : Solid ({ l with beginLex := false } : Lexer).cur := by
          rw [hcur]; exact ⟨by decide, by decide, by decide⟩
        rw [skipBlank_solid _ hsolid] at h
        cases h
        by_cases hs : l.src.size = 0
        · left
          exact ⟨⟨hS, rfl, At.empty _ hf.lines hs _⟩, hsolid⟩
        · right
          exact ⟨hcur, by show l.cursor < l.src.size; rw [hf.cursor]; omega⟩
      · left
        have g := parseBeginLex_good { l with beginLex := false } hf.lines hf.cursor rfl hS h0 u'
          (parseBeginLex { l with beginLex := false }).2 (by rw [← hok])
        exact later _ g l1 h
    · cases h
    · cases h
  · simp only [g.bl, Bool.false_eq_true, ↓reduceIte] at h
    left
    exact later l g l1 h

end LinesInv
end ZnVerif.Model
